import PGT.Proofs.OrderIndepEmbed
import PGT.Proofs.RoundTripEmbed
/-
C15, behavioural part, CopyFrom: the remaining gap of OrderIndepEmbed.lean – SIBLINGS under one nullable embedded message.

`copyFromFields_perm_full` (OrderIndepEmbed.lean) needs pairwise disjoint key sets (`IndepFull`); two children of the same
nullable embedded message share the key of the parent pointer and are excluded from each other.  They do commute, but
only up to the normal form of the property: a child with a null / unknown attribute that runs BEFORE the parent is
allocated leaves its Go field absent (nil); running AFTER a sibling allocated the parent it writes its reset value
(`zeroWrite`: empty slice, empty map, nil pointer / empty struct, zero scalar) – `siblings_literal_differs` (nil vs `[]`).

Contents
 10. `SemR` / `REquivS` / `semR_swap`: `Sem` / `FEquivS` / `sem_swap` of OrderIndepEmbed.lean up to a family of equivalence
     relations on the contents of the Go fields of the target.
 11. the relation: `KeyRel` (per Go field), `InnerRel` (the struct behind a parent pointer: field by field, absent ≡ reset).
 12. `PSem`: the block of a child as ONE action on the parent pointer, uniformly in the target (`newParent`);
     `psem_swap`: two such actions on the same parent, different child names, commute up to `KeyRel`.
 13. `child_psem`: the block of EVERY child that touches the parent pointer is such an action – scalar, message, list, map
     (via `fieldWith_lift` of RoundTripEmbed.lean), custom type, message branch of a oneof.  Hypothesis `Fits`
     (`siblings_need_fits`: without it the order decides whether the converter is stuck).
 14. `Sibling`, `Compat` = `IndepFull ∨ Sibling`; the induction over permutations.
 15. the theorems: `blockF_siblings_swap`, `blockF_siblings_commute` (two blocks), `copyFromFields_perm_siblings`
     (field lists, result up to `ObjNfRel`), `nfEqFields_congr` (`Spec.nfEqFields` does not distinguish `ObjNfRel`-related
     structs, under `NamesOK`), `copyFromFields_perm_siblings_nfEq`, `copyFrom_perm_siblings` (whole converter).
 16. witnesses: `siblings_literal_differs`, `siblings_literal_differs_scalar`, `siblings_example` (non-vacuity),
     `siblings_need_fits`, `nfEq_needs_wellshaped`.
-/
set_option linter.unusedSimpArgs false
namespace PGT
namespace OrderIndep

-- ------------------------------------------------------------------------------------------------------
-- 10. blocks as local updates of a key set, up to a relation on the content of each Go field

/-- a family of equivalence relations on the content of the Go fields of a struct target, one per field name -/
structure KeyEquiv (R : String → Option GoVal → Option GoVal → Prop) : Prop where
  refl : ∀ k x, R k x x
  symm : ∀ k x y, R k x y → R k y x
  trans : ∀ k x y z, R k x y → R k y z → R k x z

/-- `SemRes` up to `R`: the targets are related on `K`; so are the results -/
def SemResR (R : String → Option GoVal → Option GoVal → Prop) (K : List String) (o1 o2 : GoVal)
    (r1 r2 : Outcome FromSt) : Prop :=
  (∃ t1 t2, r1 = .ok t1 ∧ r2 = .ok t2 ∧ IsStruct t1.obj ∧ IsStruct t2.obj ∧
    (∀ k ∈ K, R k (t1.obj.field? k) (t2.obj.field? k)) ∧
    (∀ k, k ∉ K → t1.obj.field? k = o1.field? k) ∧ (∀ k, k ∉ K → t2.obj.field? k = o2.field? k) ∧
    t1.diags = t2.diags ∧ t1.hooks = t2.hooks) ∨
  ((∀ t, r1 ≠ .ok t) ∧ (∀ t, r2 ≠ .ok t))

/-- `Sem` up to `R`: `B` reads and writes a struct target only through the Go fields in `K`, and it cannot tell two
`R`-related contents of such a field apart (it produces `R`-related contents, the same diagnostics and hook calls) -/
def SemR (R : String → Option GoVal → Option GoVal → Prop) (K : List String) (B : FromSt → Outcome FromSt) : Prop :=
  (∀ st, B st = (B { obj := st.obj, diags := [], hooks := [] }).mapO (shiftF st.diags st.hooks)) ∧
  ∀ o1 o2, IsStruct o1 → IsStruct o2 → (∀ k ∈ K, R k (o1.field? k) (o2.field? k)) →
    SemResR R K o1 o2 (B { obj := o1, diags := [], hooks := [] }) (B { obj := o2, diags := [], hooks := [] })

/-- states with struct targets whose Go fields hold `R`-related contents; diagnostics and hook calls up to order -/
def REquivS (R : String → Option GoVal → Option GoVal → Prop) (s s' : FromSt) : Prop :=
  IsStruct s.obj ∧ IsStruct s'.obj ∧ (∀ k, R k (s.obj.field? k) (s'.obj.field? k)) ∧
    s.diags.Perm s'.diags ∧ s.hooks.Perm s'.hooks

theorem REquivS.refl {R} (hR : KeyEquiv R) (s : FromSt) (h : IsStruct s.obj) : REquivS R s s :=
  ⟨h, h, fun k => hR.refl k _, List.Perm.refl _, List.Perm.refl _⟩

theorem REquivS.trans {R} (hR : KeyEquiv R) {a b c : FromSt} (h : REquivS R a b) (h' : REquivS R b c) : REquivS R a c :=
  ⟨h.1, h'.2.1, fun k => hR.trans k _ _ _ (h.2.2.1 k) (h'.2.2.1 k), h.2.2.2.1.trans h'.2.2.2.1, h.2.2.2.2.trans h'.2.2.2.2⟩

/-- a literal local update is a local update up to `R`, if `R` is equality on the keys of the block -/
theorem semR_of_sem {R} (hR : KeyEquiv R) (K : List String) (B : FromSt → Outcome FromSt) (h : Sem K B)
    (heq : ∀ k ∈ K, ∀ x y, R k x y → x = y) : SemR R K B := by
  refine ⟨h.1, fun o1 o2 hs1 hs2 hag => ?_⟩
  rcases h.2 o1 o2 hs1 hs2 (fun k hk => heq k hk _ _ (hag k hk)) with
    ⟨t1, t2, e1, e2, ht1, ht2, hK, ho1, ho2, hd, hh⟩ | hf
  · exact Or.inl ⟨t1, t2, e1, e2, ht1, ht2, fun k hk => by rw [hK k hk]; exact hR.refl k _, ho1, ho2, hd, hh⟩
  · exact Or.inr hf

/-- a block respects the equivalence of states -/
theorem semR_equiv {R} (K : List String) (B : FromSt → Outcome FromSt) (hB : SemR R K B) (s s' : FromSt)
    (h : REquivS R s s') : OutRel (REquivS R) (B s) (B s') := by
  obtain ⟨hs, hs', hf, hd, hh⟩ := h
  rw [hB.1 s, hB.1 s']
  rcases hB.2 s.obj s'.obj hs hs' (fun k _ => hf k) with
    ⟨t1, t2, e1, e2, ht1, ht2, hK, ho1, ho2, hdd, hhh⟩ | ⟨hf1, hf2⟩
  · rw [e1, e2]
    simp only [Outcome.mapO, outRel_ok_ok]
    refine ⟨ht1, ht2, fun k => ?_, ?_, ?_⟩
    · show R k (t1.obj.field? k) (t2.obj.field? k)
      by_cases hk : k ∈ K
      · exact hK k hk
      · rw [ho1 k hk, ho2 k hk]; exact hf k
    · show (s.diags ++ t1.diags).Perm (s'.diags ++ t2.diags)
      rw [hdd]; exact hd.append_right _
    · show (s.hooks ++ t1.hooks).Perm (s'.hooks ++ t2.hooks)
      rw [hhh]; exact hh.append_right _
  · exact outRel_of_fail _ _ _ (mapO_ne_ok _ _ hf1) (mapO_ne_ok _ _ hf2)

/-- **two adjacent blocks that work on disjoint key sets can be swapped**, up to `R` -/
theorem semR_swap {R} (hR : KeyEquiv R) (K1 K2 : List String) (B1 B2 : FromSt → Outcome FromSt)
    (h1 : SemR R K1 B1) (h2 : SemR R K2 B2)
    (hdis : ∀ k ∈ K1, k ∉ K2) (s s' : FromSt) (h : REquivS R s s') :
    OutRel (REquivS R) (obind (B1 s) B2) (obind (B2 s') B1) := by
  obtain ⟨hs, hs', hf, hd, hh⟩ := h
  have hdis' : ∀ k ∈ K2, k ∉ K1 := fun k hk2 hk1 => hdis k hk1 hk2
  rw [h1.1 s, h2.1 s']
  have hfailR : (∀ t, B1 { obj := s.obj, diags := [], hooks := [] } ≠ .ok t) →
      ∀ t, obind ((B2 { obj := s'.obj, diags := [], hooks := [] }).mapO (shiftF s'.diags s'.hooks)) B1 ≠ .ok t := by
    intro hf1 t
    cases e2 : B2 { obj := s'.obj, diags := [], hooks := [] } with
    | ok u2 =>
      simp only [Outcome.mapO, obind]
      rcases h2.2 s'.obj s'.obj hs' hs' (fun k _ => hR.refl k _) with ⟨a, b, ea, eb, ha, _, _, hfra, _, _, _⟩ | ⟨hx, _⟩
      · rw [e2] at ea
        injection ea with ea
        subst ea
        rw [h1.1]
        rcases h1.2 s.obj u2.obj hs ha (fun k hk => by rw [hfra k (hdis k hk)]; exact hf k) with
          ⟨c, d, ec, _⟩ | ⟨_, hy⟩
        · exact absurd ec (hf1 c)
        · exact mapO_ne_ok _ _ hy t
      · exact absurd e2 (hx u2)
    | panic w => intro e; cases e
    | stuck w => intro e; cases e
  cases e1 : B1 { obj := s.obj, diags := [], hooks := [] } with
  | ok t1 =>
    rcases h1.2 s.obj s.obj hs hs (fun k _ => hR.refl k _) with ⟨a, b, ea, eb, ht1, _, _, hfr1, _, _, _⟩ | ⟨hx, _⟩
    · rw [e1] at ea
      injection ea with ea
      subst ea
      simp only [Outcome.mapO, obind]
      rw [h2.1]
      rcases h2.2 t1.obj s'.obj ht1 hs' (fun k hk => by rw [hfr1 k (hdis' k hk)]; exact hf k) with
        ⟨u1, u2, eu1, eu2, hu1, hu2, hK2, hfru1, hfru2, hdd2, hhh2⟩ | ⟨hfail1, hfail2⟩
      · rw [show B2 { obj := (shiftF s.diags s.hooks t1).obj, diags := [], hooks := [] } = .ok u1 from eu1, eu2]
        simp only [Outcome.mapO, obind]
        rw [h1.1]
        rcases h1.2 s.obj u2.obj hs hu2 (fun k hk => by rw [hfru2 k (hdis k hk)]; exact hf k) with
          ⟨c, v2, ec, ev, _, hv2, hK1, _, hfrv2, hdd1, hhh1⟩ | ⟨hy, _⟩
        · rw [e1] at ec
          injection ec with ec
          subst ec
          rw [show B1 { obj := (shiftF s'.diags s'.hooks u2).obj, diags := [], hooks := [] } = .ok v2 from ev]
          simp only [Outcome.mapO, outRel_ok_ok]
          refine ⟨hu1, hv2, fun k => ?_, ?_, ?_⟩
          · show R k (u1.obj.field? k) (v2.obj.field? k)
            by_cases hk1 : k ∈ K1
            · rw [hfru1 k (hdis k hk1)]; exact hK1 k hk1
            · rw [hfrv2 k hk1]
              by_cases hk2 : k ∈ K2
              · exact hK2 k hk2
              · rw [hfru1 k hk2, hfru2 k hk2, hfr1 k hk1]; exact hf k
          · show (s.diags ++ t1.diags ++ u1.diags).Perm (s'.diags ++ u2.diags ++ v2.diags)
            rw [hdd2, ← hdd1, List.append_assoc, List.append_assoc]
            exact hd.append List.perm_append_comm
          · show (s.hooks ++ t1.hooks ++ u1.hooks).Perm (s'.hooks ++ u2.hooks ++ v2.hooks)
            rw [hhh2, ← hhh1, List.append_assoc, List.append_assoc]
            exact hh.append List.perm_append_comm
        · exact absurd e1 (hy t1)
      · exact outRel_of_fail _ _ _ (mapO_ne_ok _ _ hfail1)
          (obind_ne_ok _ _ (mapO_ne_ok _ _ hfail2))
    · exact absurd e1 (hx t1)
  | panic w =>
    have := hfailR (by rw [e1]; intro t e; cases e)
    exact outRel_of_fail _ _ _ (by intro t e; cases e) this
  | stuck w =>
    have := hfailR (by rw [e1]; intro t e; cases e)
    exact outRel_of_fail _ _ _ (by intro t e; cases e) this

-- ------------------------------------------------------------------------------------------------------
-- 11. the normal-form relation: the struct behind a nullable embedded parent is compared field by field,
--     "absent" identified with the reset values of the children

/-- `x` (content of field `n` of the struct behind `P`) is absent or a reset value (`Zr P n`) -/
def ZOpt (Zr : String → String → GoVal → Prop) (P n : String) (x : Option GoVal) : Prop :=
  x = none ∨ ∃ v, x = some v ∧ Zr P n v

/-- two contents of field `n` of the struct behind `P`: equal, or both absent / reset -/
def FieldNf (Zr : String → String → GoVal → Prop) (P n : String) (x y : Option GoVal) : Prop :=
  x = y ∨ (ZOpt Zr P n x ∧ ZOpt Zr P n y)

/-- two structs behind the parent pointer `P` -/
def InnerRel (Zr : String → String → GoVal → Prop) (P : String) (s s' : GoVal) : Prop :=
  IsStruct s ∧ IsStruct s' ∧ ∀ n, FieldNf Zr P n (s.field? n) (s'.field? n)

/-- two contents of the Go field `k` of the target: equal, or – `k` is the pointer to a nullable embedded message
(`Par k`) – both allocated, to structs related by `InnerRel` -/
def KeyRel (Par : String → Prop) (Zr : String → String → GoVal → Prop) (k : String) (x y : Option GoVal) : Prop :=
  x = y ∨ (Par k ∧ ∃ s s', x = some (.ptr (some s)) ∧ y = some (.ptr (some s')) ∧ InnerRel Zr k s s')

theorem FieldNf.refl {Zr P n} (x : Option GoVal) : FieldNf Zr P n x x := Or.inl rfl
theorem FieldNf.symm {Zr P n} {x y : Option GoVal} (h : FieldNf Zr P n x y) : FieldNf Zr P n y x := by
  rcases h with h | ⟨h1, h2⟩
  · exact Or.inl h.symm
  · exact Or.inr ⟨h2, h1⟩
theorem FieldNf.trans {Zr P n} {x y z : Option GoVal} (h : FieldNf Zr P n x y) (h' : FieldNf Zr P n y z) :
    FieldNf Zr P n x z := by
  rcases h with h | ⟨h1, h2⟩
  · subst h; exact h'
  · rcases h' with h' | ⟨h3, h4⟩
    · subst h'; exact Or.inr ⟨h1, h2⟩
    · exact Or.inr ⟨h1, h4⟩

theorem InnerRel.refl {Zr P} (s : GoVal) (h : IsStruct s) : InnerRel Zr P s s := ⟨h, h, fun _ => FieldNf.refl _⟩
theorem InnerRel.symm {Zr P} {s s' : GoVal} (h : InnerRel Zr P s s') : InnerRel Zr P s' s :=
  ⟨h.2.1, h.1, fun n => (h.2.2 n).symm⟩
theorem InnerRel.trans {Zr P} {a b c : GoVal} (h : InnerRel Zr P a b) (h' : InnerRel Zr P b c) : InnerRel Zr P a c :=
  ⟨h.1, h'.2.1, fun n => (h.2.2 n).trans (h'.2.2 n)⟩

theorem keyRel_equiv (Par : String → Prop) (Zr : String → String → GoVal → Prop) : KeyEquiv (KeyRel Par Zr) where
  refl := fun _ _ => Or.inl rfl
  symm := by
    intro k x y h
    rcases h with h | ⟨hp, s, s', e1, e2, hi⟩
    · exact Or.inl h.symm
    · exact Or.inr ⟨hp, s', s, e2, e1, hi.symm⟩
  trans := by
    intro k x y z h h'
    rcases h with h | ⟨hp, s, s', e1, e2, hi⟩
    · subst h; exact h'
    · rcases h' with h' | ⟨_, u, u', e3, e4, hj⟩
      · subst h'; exact Or.inr ⟨hp, s, s', e1, e2, hi⟩
      · rw [e2] at e3
        injection e3 with e3
        injection e3 with e3
        injection e3 with e3
        subst e3
        exact Or.inr ⟨hp, s, u', e1, e4, hi.trans hj⟩

/-- the relation is monotone in the set of parents and in the reset values -/
theorem keyRel_mono {Par Par' : String → Prop} {Zr Zr' : String → String → GoVal → Prop}
    (hp : ∀ k, Par k → Par' k) (hz : ∀ P n v, Zr P n v → Zr' P n v) (k : String) (x y : Option GoVal)
    (h : KeyRel Par Zr k x y) : KeyRel Par' Zr' k x y := by
  rcases h with h | ⟨hpk, s, s', e1, e2, h1, h2, h3⟩
  · exact Or.inl h
  · refine Or.inr ⟨hp k hpk, s, s', e1, e2, h1, h2, fun n => ?_⟩
    rcases h3 n with h | ⟨ha, hb⟩
    · exact Or.inl h
    · refine Or.inr ⟨?_, ?_⟩
      · rcases ha with ha | ⟨v, e, hv⟩
        · exact Or.inl ha
        · exact Or.inr ⟨v, e, hz _ _ _ hv⟩
      · rcases hb with hb | ⟨v, e, hv⟩
        · exact Or.inl hb
        · exact Or.inr ⟨v, e, hz _ _ _ hv⟩

/-- assignments act the same way on related contents of a field -/
theorem fieldNf_applyWrites {Zr P} : ∀ (ws : List (String × GoVal)) (s s' : GoVal) (m : String),
    IsStruct s → IsStruct s' → FieldNf Zr P m (s.field? m) (s'.field? m) →
    FieldNf Zr P m ((applyWrites ws s).field? m) ((applyWrites ws s').field? m)
  | [], _, _, _, _, _, h => h
  | w :: ws, s, s', m, hs, hs', h => by
    simp only [applyWrites, List.foldl]
    apply fieldNf_applyWrites ws _ _ m (isStruct_setField _ _ _ hs) (isStruct_setField _ _ _ hs')
    by_cases e : m = w.1
    · subst e; rw [field?_setField_same _ _ _ hs, field?_setField_same _ _ _ hs']; exact Or.inl rfl
    · rw [field?_setField_other' _ _ _ _ e, field?_setField_other' _ _ _ _ e]; exact h

theorem innerRel_applyWrites {Zr P} (ws : List (String × GoVal)) (s s' : GoVal) (h : InnerRel Zr P s s') :
    InnerRel Zr P (applyWrites ws s) (applyWrites ws s') :=
  ⟨isStruct_applyWrites ws s h.1, isStruct_applyWrites ws s' h.2.1,
    fun m => fieldNf_applyWrites ws s s' m h.1 h.2.1 (h.2.2 m)⟩

theorem keyRel_applyWrites {R : String → Option GoVal → Option GoVal → Prop} (hR : KeyEquiv R) :
    ∀ (ws : List (String × GoVal)) (o o' : GoVal) (k : String), IsStruct o → IsStruct o' →
    R k (o.field? k) (o'.field? k) → R k ((applyWrites ws o).field? k) ((applyWrites ws o').field? k)
  | [], _, _, _, _, _, h => h
  | w :: ws, o, o', k, hs, hs', h => by
    simp only [applyWrites, List.foldl]
    apply keyRel_applyWrites hR ws _ _ k (isStruct_setField _ _ _ hs) (isStruct_setField _ _ _ hs')
    by_cases e : k = w.1
    · subst e; rw [field?_setField_same _ _ _ hs, field?_setField_same _ _ _ hs']; exact hR.refl _ _
    · rw [field?_setField_other' _ _ _ _ e, field?_setField_other' _ _ _ _ e]; exact h

/-- reset values written over an absent / reset field leave it absent / reset -/
theorem zopt_applyWrites {Zr P n} : ∀ (ws : List (String × GoVal)) (s : GoVal), IsStruct s →
    (∀ w ∈ ws, w.1 = n) → (∀ w ∈ ws, Zr P n w.2) → ZOpt Zr P n (s.field? n) → ZOpt Zr P n ((applyWrites ws s).field? n)
  | [], _, _, _, _, h => h
  | w :: ws, s, hs, hk, hz, _ => by
    simp only [applyWrites, List.foldl]
    apply zopt_applyWrites ws _ (isStruct_setField _ _ _ hs) (fun w' hw' => hk w' (by simp [hw']))
      (fun w' hw' => hz w' (by simp [hw']))
    have e : w.1 = n := hk w (by simp)
    rw [← e, field?_setField_same _ _ _ hs]
    exact Or.inr ⟨w.2, rfl, e ▸ hz w (by simp)⟩

theorem not_mem_keys' (ws : List (String × GoVal)) (k name : String) (hk : ∀ w ∈ ws, w.1 = k) (hne : name ≠ k) :
    name ∉ ws.map (·.1) := not_mem_keys ws k name hk hne

/-- the assignments of two children with different names commute on related embedded structs -/
theorem innerRel_comm {Zr P} (ws1 ws2 : List (String × GoVal)) (n1 n2 : String) (h1 : ∀ w ∈ ws1, w.1 = n1)
    (h2 : ∀ w ∈ ws2, w.1 = n2) (hne : n1 ≠ n2) (s s' : GoVal) (h : InnerRel Zr P s s') :
    InnerRel Zr P (applyWrites ws2 (applyWrites ws1 s)) (applyWrites ws1 (applyWrites ws2 s')) := by
  obtain ⟨hs, hs', hf⟩ := h
  refine ⟨isStruct_applyWrites _ _ (isStruct_applyWrites _ _ hs), isStruct_applyWrites _ _ (isStruct_applyWrites _ _ hs'),
    fun m => ?_⟩
  by_cases hm : m = n2
  · have hn1 : m ∉ ws1.map (·.1) := not_mem_keys ws1 n1 m h1 (by rw [hm]; exact Ne.symm hne)
    rw [applyWrites_other ws1 _ m hn1]
    apply fieldNf_applyWrites ws2 _ _ m (isStruct_applyWrites _ _ hs) hs'
    rw [applyWrites_other ws1 _ m hn1]
    exact hf m
  · have hn2 : m ∉ ws2.map (·.1) := not_mem_keys ws2 n2 m h2 hm
    rw [applyWrites_other ws2 _ m hn2]
    apply fieldNf_applyWrites ws1 _ _ m hs (isStruct_applyWrites _ _ hs')
    rw [applyWrites_other ws2 _ m hn2]
    exact hf m

/-- a reset written into a struct in which the field is absent: related to the struct itself -/
theorem innerRel_reset {Zr P} (ws : List (String × GoVal)) (n : String) (hk : ∀ w ∈ ws, w.1 = n)
    (hz : ∀ w ∈ ws, Zr P n w.2) (S : GoVal) (hS : IsStruct S) (hn : S.field? n = none) :
    InnerRel Zr P (applyWrites ws S) S := by
  refine ⟨isStruct_applyWrites _ _ hS, hS, fun m => ?_⟩
  by_cases hm : m = n
  · subst hm
    exact Or.inr ⟨zopt_applyWrites ws S hS hk hz (Or.inl hn), Or.inl hn⟩
  · rw [applyWrites_other ws _ m (not_mem_keys ws n m hk hm)]
    exact Or.inl rfl

-- ------------------------------------------------------------------------------------------------------
-- 12. the block of a child of a nullable embedded message as an action on the parent pointer

/-- what the block of a child does to the parent pointer: behind an allocated parent the assignments `ws` are
performed; a nil parent is allocated first (`al`) or the block does nothing -/
def newParent (al : Bool) (ws : List (String × GoVal)) (x : Option GoVal) : Option GoVal :=
  match x with
  | some (.ptr (some s)) => some (.ptr (some (applyWrites ws s)))
  | x => if al then some (.ptr (some (applyWrites ws (.struct [])))) else x

theorem newParent_alloc (al : Bool) (ws : List (String × GoVal)) (s : GoVal) :
    newParent al ws (some (.ptr (some s))) = some (.ptr (some (applyWrites ws s))) := rfl

theorem newParent_unalloc (al : Bool) (ws : List (String × GoVal)) (x : Option GoVal)
    (h : ∀ s, x ≠ some (.ptr (some s))) :
    newParent al ws x = if al then some (.ptr (some (applyWrites ws (.struct [])))) else x := by
  unfold newParent
  split
  · rename_i s; exact absurd rfl (h s)
  · rfl

/-- the action of a block: allocate?, assignments behind the parent, assignments to other Go fields of the target,
diagnostics, hook calls -/
structure PAct where
  al : Bool
  ws : List (String × GoVal)
  tw : List (String × GoVal)
  d : List Diag
  h : List HookCall

def PRes (P : String) (a : PAct) (o : GoVal) (r : Outcome FromSt) : Prop :=
  ∃ t, r = .ok t ∧ IsStruct t.obj ∧ t.diags = a.d ∧ t.hooks = a.h ∧
    t.obj.field? P = newParent a.al a.ws (o.field? P) ∧
    ∀ k, k ≠ P → t.obj.field? k = (applyWrites a.tw o).field? k

/-- **the block of a child `n` of the nullable embedded message `P`, uniformly in the target**: one action – performed
on every struct target – or a failure on every struct target.  An action that does not allocate a nil parent writes
reset values only. -/
def PSem (Zr : String → String → GoVal → Prop) (P n : String) (X : List String) (B : FromSt → Outcome FromSt) : Prop :=
  (∀ st, B st = (B { obj := st.obj, diags := [], hooks := [] }).mapO (shiftF st.diags st.hooks)) ∧
  ((∃ a : PAct, (∀ w ∈ a.ws, w.1 = n) ∧ (∀ w ∈ a.tw, w.1 ∈ X) ∧ (a.al = false → ∀ w ∈ a.ws, Zr P n w.2) ∧
      ∀ o, IsStruct o → PRes P a o (B { obj := o, diags := [], hooks := [] })) ∨
   (∀ o, IsStruct o → ∀ t, B { obj := o, diags := [], hooks := [] } ≠ .ok t))

theorem newParent_rel {Par Zr} (P : String) (al : Bool) (ws : List (String × GoVal)) (x y : Option GoVal)
    (h : KeyRel Par Zr P x y) : KeyRel Par Zr P (newParent al ws x) (newParent al ws y) := by
  rcases h with h | ⟨hp, s, s', e1, e2, hi⟩
  · subst h; exact Or.inl rfl
  · subst e1 e2
    exact Or.inr ⟨hp, _, _, rfl, rfl, innerRel_applyWrites ws s s' hi⟩

theorem field?_empty (n : String) : (GoVal.struct []).field? n = none := rfl

/-- the actions of two children with different names commute on the parent pointer, up to the normal form -/
theorem newParent_comm {Par Zr} (P : String) (hP : Par P) (al1 al2 : Bool) (ws1 ws2 : List (String × GoVal))
    (n1 n2 : String) (h1 : ∀ w ∈ ws1, w.1 = n1) (h2 : ∀ w ∈ ws2, w.1 = n2) (hne : n1 ≠ n2)
    (hz1 : al1 = false → ∀ w ∈ ws1, Zr P n1 w.2) (hz2 : al2 = false → ∀ w ∈ ws2, Zr P n2 w.2)
    (x y : Option GoVal) (h : KeyRel Par Zr P x y) :
    KeyRel Par Zr P (newParent al2 ws2 (newParent al1 ws1 x)) (newParent al1 ws1 (newParent al2 ws2 y)) := by
  rcases h with h | ⟨_, s, s', e1, e2, hi⟩
  · subst h
    by_cases ha : ∃ s, x = some (.ptr (some s))
    · obtain ⟨s, rfl⟩ := ha
      simp only [newParent_alloc]
      by_cases hs : IsStruct s
      · exact Or.inr ⟨hP, _, _, rfl, rfl, innerRel_comm ws1 ws2 n1 n2 h1 h2 hne s s (InnerRel.refl s hs)⟩
      · rw [applyWrites_nonstruct ws1 s hs, applyWrites_nonstruct ws2 s hs, applyWrites_nonstruct ws1 s hs]
        exact Or.inl rfl
    · have hn : ∀ s, x ≠ some (.ptr (some s)) := fun s e => ha ⟨s, e⟩
      cases al1 <;> cases al2 <;>
        simp only [newParent_unalloc _ _ x hn, if_true, Bool.false_eq_true, if_false, newParent_alloc]
      · exact Or.inl rfl
      · -- the first block does nothing before the parent is there, and resets its field once it is
        refine Or.inr ⟨hP, _, _, rfl, rfl, InnerRel.symm ?_⟩
        apply innerRel_reset ws1 n1 h1 (hz1 rfl) _ (isStruct_applyWrites ws2 (.struct []) trivial)
        rw [applyWrites_other ws2 _ n1 (not_mem_keys ws2 n2 n1 h2 hne)]
        rfl
      · refine Or.inr ⟨hP, _, _, rfl, rfl, ?_⟩
        apply innerRel_reset ws2 n2 h2 (hz2 rfl) _ (isStruct_applyWrites ws1 (.struct []) trivial)
        rw [applyWrites_other ws1 _ n2 (not_mem_keys ws1 n1 n2 h1 (Ne.symm hne))]
        rfl
      · exact Or.inr ⟨hP, _, _, rfl, rfl, innerRel_comm ws1 ws2 n1 n2 h1 h2 hne _ _ (InnerRel.refl _ trivial)⟩
  · subst e1 e2
    simp only [newParent_alloc]
    exact Or.inr ⟨hP, _, _, rfl, rfl, innerRel_comm ws1 ws2 n1 n2 h1 h2 hne s s' hi⟩

theorem not_mem_keys_of_subset (tw : List (String × GoVal)) (X : List String) (k : String) (hX : ∀ w ∈ tw, w.1 ∈ X)
    (hk : k ∉ X) : k ∉ tw.map (·.1) := by
  intro hm
  obtain ⟨w, hw, e⟩ := List.mem_map.mp hm
  exact hk (e ▸ hX w hw)

/-- the block of a child is a local update of `P :: X` up to the normal form -/
theorem psem_semR {Par Zr} (P n : String) (X : List String) (B : FromSt → Outcome FromSt) (h : PSem Zr P n X B) :
    SemR (KeyRel Par Zr) (P :: X) B := by
  have hR := keyRel_equiv Par Zr
  refine ⟨h.1, fun o1 o2 hs1 hs2 hag => ?_⟩
  rcases h.2 with ⟨a, _, hX, _, hres⟩ | hfail
  · obtain ⟨t1, e1, ht1, hd1, hh1, hp1, ho1⟩ := hres o1 hs1
    obtain ⟨t2, e2, ht2, hd2, hh2, hp2, ho2⟩ := hres o2 hs2
    refine Or.inl ⟨t1, t2, e1, e2, ht1, ht2, fun k hk => ?_, fun k hk => ?_, fun k hk => ?_, by rw [hd1, hd2], by rw [hh1, hh2]⟩
    · by_cases e : k = P
      · subst e
        rw [hp1, hp2]
        exact newParent_rel k a.al a.ws _ _ (hag k (by simp))
      · rw [ho1 k e, ho2 k e]
        exact keyRel_applyWrites hR a.tw o1 o2 k hs1 hs2 (hag k hk)
    · simp only [List.mem_cons, not_or] at hk
      rw [ho1 k hk.1]
      exact applyWrites_other a.tw o1 k (not_mem_keys_of_subset a.tw X k hX hk.2)
    · simp only [List.mem_cons, not_or] at hk
      rw [ho2 k hk.1]
      exact applyWrites_other a.tw o2 k (not_mem_keys_of_subset a.tw X k hX hk.2)
  · exact Or.inr ⟨hfail o1 hs1, hfail o2 hs2⟩

/-- **the blocks of two children `n1 ≠ n2` of the same nullable embedded message commute up to the normal form**: from
related states, both orders succeed or both fail; after successful runs the targets are related (`KeyRel`: the structs
behind the parent pointer agree field by field, an absent field identified with a reset one; every other Go field of the
target holds related – for fields that are not such parent pointers: equal – contents), diagnostics and hook calls
agree up to order -/
theorem psem_swap {Par Zr} (P : String) (hP : Par P) (n1 n2 : String) (hne : n1 ≠ n2) (X1 X2 : List String)
    (hX : ∀ k ∈ X1, k ∉ X2) (B1 B2 : FromSt → Outcome FromSt)
    (h1 : PSem Zr P n1 X1 B1) (h2 : PSem Zr P n2 X2 B2) (s s' : FromSt) (h : REquivS (KeyRel Par Zr) s s') :
    OutRel (REquivS (KeyRel Par Zr)) (obind (B1 s) B2) (obind (B2 s') B1) := by
  have hR := keyRel_equiv Par Zr
  obtain ⟨hs, hs', hf, hd, hh⟩ := h
  rw [h1.1 s, h2.1 s']
  rcases h1.2 with ⟨a1, hk1, hX1, hz1, hres1⟩ | hfail1
  · rcases h2.2 with ⟨a2, hk2, hX2, hz2, hres2⟩ | hfail2
    · obtain ⟨t1, e1, ht1, hd1, hh1, hp1, ho1⟩ := hres1 s.obj hs
      obtain ⟨u2, f2, hu2, hdu2, hhu2, hpu2, hou2⟩ := hres2 s'.obj hs'
      obtain ⟨u1, f1, hu1, hdu1, hhu1, hpu1, hou1⟩ := hres2 t1.obj ht1
      obtain ⟨v2, g2, hv2, hdv2, hhv2, hpv2, hov2⟩ := hres1 u2.obj hu2
      rw [e1, f2]
      simp only [Outcome.mapO, obind]
      rw [h2.1, h1.1]
      rw [show B2 { obj := (shiftF s.diags s.hooks t1).obj, diags := [], hooks := [] } = .ok u1 from f1,
        show B1 { obj := (shiftF s'.diags s'.hooks u2).obj, diags := [], hooks := [] } = .ok v2 from g2]
      simp only [Outcome.mapO, outRel_ok_ok]
      refine ⟨hu1, hv2, fun k => ?_, ?_, ?_⟩
      · show KeyRel Par Zr k (u1.obj.field? k) (v2.obj.field? k)
        by_cases e : k = P
        · subst e
          rw [hpu1, hp1, hpv2, hpu2]
          exact newParent_comm k hP a1.al a2.al a1.ws a2.ws n1 n2 hk1 hk2 hne hz1 hz2 _ _ (hf k)
        · rw [hou1 k e, hov2 k e]
          by_cases m2 : k ∈ a2.tw.map (·.1)
          · have m1 : k ∉ a1.tw.map (·.1) := by
              intro m1
              obtain ⟨w, hw, ew⟩ := List.mem_map.mp m1
              obtain ⟨w', hw', ew'⟩ := List.mem_map.mp m2
              exact hX k (ew ▸ hX1 w hw) (ew' ▸ hX2 w' hw')
            rw [applyWrites_other a1.tw u2.obj k m1, hou2 k e]
            apply keyRel_applyWrites hR a2.tw _ _ k ht1 hs'
            rw [ho1 k e, applyWrites_other a1.tw s.obj k m1]
            exact hf k
          · rw [applyWrites_other a2.tw t1.obj k m2, ho1 k e]
            apply keyRel_applyWrites hR a1.tw _ _ k hs hu2
            rw [hou2 k e, applyWrites_other a2.tw s'.obj k m2]
            exact hf k
      · show (s.diags ++ t1.diags ++ u1.diags).Perm (s'.diags ++ u2.diags ++ v2.diags)
        rw [hd1, hdu1, hdu2, hdv2, List.append_assoc, List.append_assoc]
        exact hd.append List.perm_append_comm
      · show (s.hooks ++ t1.hooks ++ u1.hooks).Perm (s'.hooks ++ u2.hooks ++ v2.hooks)
        rw [hh1, hhu1, hhu2, hhv2, List.append_assoc, List.append_assoc]
        exact hh.append List.perm_append_comm
    · -- the second block fails on every struct target
      obtain ⟨t1, e1, ht1, _⟩ := hres1 s.obj hs
      rw [e1]
      simp only [Outcome.mapO, obind]
      rw [h2.1]
      exact outRel_of_fail _ _ _ (mapO_ne_ok _ _ (hfail2 _ ht1)) (obind_ne_ok _ _ (mapO_ne_ok _ _ (hfail2 _ hs')))
  · -- the first block fails on every struct target
    refine outRel_of_fail _ _ _ (obind_ne_ok _ _ (mapO_ne_ok _ _ (hfail1 _ hs))) ?_
    rcases h2.2 with ⟨a2, _, _, _, hres2⟩ | hfail2
    · obtain ⟨u2, f2, hu2, _⟩ := hres2 s'.obj hs'
      rw [f2]
      simp only [Outcome.mapO, obind]
      rw [h1.1]
      exact mapO_ne_ok _ _ (hfail1 _ hu2)
    · exact obind_ne_ok _ _ (mapO_ne_ok _ _ (hfail2 _ hs'))

-- ------------------------------------------------------------------------------------------------------
-- 13. the blocks of the children of a nullable embedded message are such actions

/-- the Terraform value has the constructor the block of the field expects -/
def KindShape (info : FieldInfo) (a : TfVal) : Prop :=
  match info.kind with
  | .primitive => ∃ k, a.vkind = .prim k
  | .object => a.vkind = .obj
  | .primitiveList | .objectList => a.vkind = .list
  | .primitiveMap | .objectMap => a.vkind = .map
  | .custom => True

/-- hypothesis on a child of a nullable embedded message: a null / unknown attribute that passes the block's type
assertion has the constructor that goes with the kind of the field (otherwise the block is stuck only when the parent
is allocated, and whether the converter succeeds depends on the order: `siblings_need_fits`) -/
def Fits (attrs : Option (List (String × TfVal))) (info : FieldInfo) : Prop :=
  ∀ a, (attrs.getD []).lookup info.nameSnake = some a → a.vkind = vkindOf info.tf.valueType → a.vkind ≠ .unknown →
    a.isKnown = false → KindShape info a

/-- the IR-level condition that gives `Fits` for every value -/
def ShapeOK (info : FieldInfo) : Prop :=
  match info.kind with
  | .primitive => ∃ k, vkindOf info.tf.valueType = .prim k
  | .object => vkindOf info.tf.valueType = .obj
  | .primitiveList | .objectList => vkindOf info.tf.valueType = .list
  | .primitiveMap | .objectMap => vkindOf info.tf.valueType = .map
  | .custom => True

theorem fits_of_shapeOK (attrs : Option (List (String × TfVal))) (info : FieldInfo) (h : ShapeOK info) : Fits attrs info := by
  intro a _ hv _ _
  unfold ShapeOK at h
  unfold KindShape
  cases hk : info.kind <;> simp only [hk] at h ⊢ <;> first | trivial | (rw [hv]; exact h)

theorem cond_false {a : TfVal} {vt : String} (hv : (a.vkind != vkindOf vt || a.vkind == .unknown) = false) :
    a.vkind = vkindOf vt ∧ a.vkind ≠ .unknown := by
  simpa [Bool.or_eq_false_iff] using hv

theorem fieldWith_missing (rec : FromRec) (ov : List (String × String)) (c : FieldInfo) (mv : Option FieldInfo)
    (msg : Option MsgInfo) (attrs : Option (List (String × TfVal))) (st : FromSt) (hk : c.kind ≠ .custom)
    (hl : (attrs.getD []).lookup c.nameSnake = none) :
    copyFromFieldWith rec ov c mv msg attrs st = .ok (st.diag (.readMissing c.path)) := by
  unfold copyFromFieldWith
  cases hkind : c.kind <;> simp only [hl] <;> exact absurd hkind hk

theorem fieldWith_conv (rec : FromRec) (ov : List (String × String)) (c : FieldInfo) (mv : Option FieldInfo)
    (msg : Option MsgInfo) (attrs : Option (List (String × TfVal))) (st : FromSt) (a : TfVal) (hk : c.kind ≠ .custom)
    (hl : (attrs.getD []).lookup c.nameSnake = some a)
    (hv : (a.vkind != vkindOf c.tf.valueType || a.vkind == .unknown) = true) :
    copyFromFieldWith rec ov c mv msg attrs st = .ok (st.diag (.readConv c.path c.tf.valueType)) := by
  unfold copyFromFieldWith
  cases hkind : c.kind <;> simp only [hl, hv, if_true] <;> exact absurd hkind hk

/-- nil parent, null / unknown attribute: the block of a child does nothing -/
theorem child_idle (rec : FromRec) (ov : List (String × String)) (c : FieldInfo) (mv : Option FieldInfo)
    (msg : Option MsgInfo) (attrs : Option (List (String × TfVal))) (st : FromSt) (a : TfVal)
    (he : c.parentIsOptionalEmbed = true) (hk : c.kind ≠ .custom) (ho : c.oneOfName = "")
    (hl : (attrs.getD []).lookup c.nameSnake = some a)
    (hv : (a.vkind != vkindOf c.tf.valueType || a.vkind == .unknown) = false) (hkn : a.isKnown = false)
    (hshape : KindShape c a) (hn : NotAlloc c.parentIsOptionalEmbedFieldName st.obj) :
    copyFromFieldWith rec ov c mv msg attrs st = .ok st := by
  by_cases hkp : c.kind = .primitive
  · unfold KindShape at hshape
    simp only [hkp] at hshape
    obtain ⟨k, hk'⟩ := hshape
    cases a <;> simp [TfVal.vkind] at hk'
    rename_i k' u n p
    have hkn' : known u n = false := by simpa [TfVal.isKnown] using hkn
    have hob : (c.oneOfName != "") = false := by simp [ho]
    unfold copyFromFieldWith
    simp only [hkp, hl, hv, embedGuard, bne_self_eq_false, Bool.and_false, Bool.false_eq_true, if_false, primDecode, hkn',
      hob, he, if_true]
    split
    · rename_i s hs; exact absurd hs (hn s)
    · rfl
  · unfold copyFromFieldWith
    simp only [hl, hv, embedGuard_unalloc c a st.obj he hkp hn, hkn, Bool.false_eq_true, if_false]

/-- nil parent, known attribute: the block of a child runs as on the target with a freshly allocated parent -/
theorem child_step (rec : FromRec) (ov : List (String × String)) (c : FieldInfo) (mv : Option FieldInfo)
    (msg : Option MsgInfo) (attrs : Option (List (String × TfVal))) (st : FromSt) (a : TfVal)
    (he : c.parentIsOptionalEmbed = true) (hk : c.kind ≠ .custom) (ho : c.oneOfName = "") (hs : IsStruct st.obj)
    (hl : (attrs.getD []).lookup c.nameSnake = some a)
    (hv : (a.vkind != vkindOf c.tf.valueType || a.vkind == .unknown) = false) (hkn : a.isKnown = true)
    (hn : NotAlloc c.parentIsOptionalEmbedFieldName st.obj) :
    copyFromFieldWith rec ov c mv msg attrs st =
      copyFromFieldWith rec ov c mv msg attrs
        { st with obj := st.obj.setField c.parentIsOptionalEmbedFieldName (.ptr (some (.struct []))) } := by
  have hp1 : (st.obj.setField c.parentIsOptionalEmbedFieldName (.ptr (some (.struct [])))).field? c.parentIsOptionalEmbedFieldName
      = some (.ptr (some (.struct []))) := field?_setField_same _ _ _ hs
  by_cases hkp : c.kind = .primitive
  · have hob : (c.oneOfName != "") = false := by simp [ho]
    unfold copyFromFieldWith
    simp only [hkp, hl, hv, embedGuard, bne_self_eq_false, Bool.and_false, Bool.false_eq_true, if_false]
    cases a with
    | prim k u n p =>
      have hkn' : known u n = true := by simpa [TfVal.isKnown] using hkn
      simp only []
      cases primDecode c k u n p with
      | ok t =>
        have hpa := allocParent_unalloc c st.obj hn
        unfold allocParent at hpa
        simp only [hob, he, hkn', if_true, Bool.false_eq_true, if_false, hp1, hpa]
      | panic w => rfl
      | stuck w => rfl
    | _ => rfl
  · unfold copyFromFieldWith
    simp only [hl, hv, embedGuard_unalloc c a st.obj he hkp hn, hkn, if_true, Bool.false_eq_true, if_false,
      embedGuard_alloc c a _ _ hp1]

theorem pres_mk (P : String) (a : PAct) (o t : GoVal) (ht : IsStruct t)
    (hp : t.field? P = newParent a.al a.ws (o.field? P))
    (ho : ∀ k, k ≠ P → t.field? k = (applyWrites a.tw o).field? k) :
    PRes P a o (.ok { obj := t, diags := a.d, hooks := a.h }) := ⟨_, rfl, ht, rfl, rfl, hp, ho⟩

/-- the target stays as it is -/
theorem pres_same (P : String) (a : PAct) (o : GoVal) (hs : IsStruct o) (htw : a.tw = [])
    (hp : o.field? P = newParent a.al a.ws (o.field? P)) :
    PRes P a o (.ok { obj := o, diags := a.d, hooks := a.h }) :=
  pres_mk P a o o hs hp (fun k _ => by rw [htw]; rfl)

/-- the parent pointer is assigned -/
theorem pres_set (P : String) (a : PAct) (o v : GoVal) (hs : IsStruct o) (htw : a.tw = [])
    (hp : some v = newParent a.al a.ws (o.field? P)) :
    PRes P a o (.ok { obj := o.setField P v, diags := a.d, hooks := a.h }) :=
  pres_mk P a o _ (isStruct_setField _ _ _ hs) (by rw [field?_setField_same _ _ _ hs]; exact hp)
    (fun k hk => by rw [htw, field?_setField_other' _ _ _ _ hk]; rfl)

theorem newParent_skip (x : Option GoVal) : newParent false [] x = x := by
  unfold newParent
  split <;> rfl

theorem zeroWrite_unembed (c : FieldInfo) : zeroWrite (unembed c) = zeroWrite c := rfl

theorem kindShape_null (c : FieldInfo) (a : TfVal) (hk : c.kind ≠ .custom) (h : KindShape c a) :
    (match (unembed c).kind with
      | .primitive => ∃ k, a.vkind = .prim k
      | .object => a.vkind = .obj
      | .primitiveList | .objectList => a.vkind = .list
      | .primitiveMap | .objectMap => a.vkind = .map
      | .custom => False) := by
  unfold KindShape at h
  have e : (unembed c).kind = c.kind := rfl
  rw [e]
  cases hkind : c.kind <;> simp only [hkind] at h ⊢ <;> first | exact h | exact absurd hkind hk

/-- **the block of a message / scalar / list / map child (no oneof branch) of a nullable embedded message**: a known
value allocates the parent and performs the assignments of the same block of the embedded struct; a null / unknown value
resets the field (`zeroWrite`) if the parent is there and does nothing otherwise -/
theorem child_plain_psem (Zr : String → String → GoVal → Prop) (rec : FromRec) (ov : List (String × String))
    (c : FieldInfo) (mv : Option FieldInfo) (msg : Option MsgInfo) (attrs : Option (List (String × TfVal)))
    (he : c.parentIsOptionalEmbed = true) (hk : c.kind ≠ .custom) (ho : c.oneOfName = "") (hfit : Fits attrs c)
    (hZ : Zr c.parentIsOptionalEmbedFieldName c.name (zeroWrite c))
    (hw : ∀ st, copyFromFieldWith rec ov c mv msg attrs st =
      (copyFromFieldWith rec ov c mv msg attrs { obj := st.obj, diags := [], hooks := [] }).mapO (shiftF st.diags st.hooks)) :
    PSem Zr c.parentIsOptionalEmbedFieldName c.name [] (copyFromFieldWith rec ov c mv msg attrs) := by
  refine ⟨hw, ?_⟩
  cases hl : (attrs.getD []).lookup c.nameSnake with
  | none =>
    refine Or.inl ⟨⟨false, [], [], [.readMissing c.path], []⟩, by simp, by simp, by simp, fun o hs => ?_⟩
    rw [fieldWith_missing rec ov c mv msg attrs _ hk hl]
    exact pres_same _ _ o hs rfl (newParent_skip _).symm
  | some a =>
    by_cases hv : (a.vkind != vkindOf c.tf.valueType || a.vkind == .unknown) = true
    · refine Or.inl ⟨⟨false, [], [], [.readConv c.path c.tf.valueType], []⟩, by simp, by simp, by simp, fun o hs => ?_⟩
      rw [fieldWith_conv rec ov c mv msg attrs _ a hk hl hv]
      exact pres_same _ _ o hs rfl (newParent_skip _).symm
    · have hv' : (a.vkind != vkindOf c.tf.valueType || a.vkind == .unknown) = false := by simpa using hv
      have hwk : wk (unembed c) = c.name := by
        have : (unembed c).oneOfName = "" := ho
        simp [wk, IsBranch, this]
        rfl
      cases hkn : a.isKnown with
      | false =>
        have hsh : KindShape c a := hfit a hl (cond_false hv').1 (cond_false hv').2 hkn
        have hplain : ∀ s, copyFromFieldWith rec ov (unembed c) mv msg attrs { obj := s, diags := [], hooks := [] } =
            .ok { obj := s.setField c.name (zeroWrite c), diags := [], hooks := [] } := fun s =>
          fieldWith_null_resets rec ov (unembed c) mv msg attrs { obj := s, diags := [], hooks := [] } a ho rfl hk hl
            (cond_false hv') (kindShape_null c a hk hsh) hkn
        refine Or.inl ⟨⟨false, [(c.name, zeroWrite c)], [], [], []⟩, by simp, by simp, ?_, fun o hs => ?_⟩
        · intro _ w hw'
          simp only [List.mem_singleton] at hw'
          subst hw'
          exact hZ
        · rcases alloc_or_not c.parentIsOptionalEmbedFieldName o with ⟨s, hp⟩ | hn
          · rw [fieldWith_lift rec ov c mv msg attrs _ s a he hk ho hs hp hl hv']
            rw [show copyFromFieldWith rec ov (unembed c) mv msg attrs { obj := s, diags := [], hooks := [] } = _ from hplain s]
            simp only [liftOut]
            refine pres_set _ _ o _ hs rfl ?_
            rw [hp]
            rfl
          · rw [child_idle rec ov c mv msg attrs _ a he hk ho hl hv' hkn hsh hn]
            refine pres_same _ _ o hs rfl ?_
            rw [newParent_unalloc _ _ _ hn]
            rfl
      | true =>
        rcases fieldWith_uf rec ov (unembed c) mv msg attrs [] [] rfl with ⟨ws, d, h, hkeys, hF⟩ | ⟨m, hF⟩ | ⟨m, hF⟩
        · refine Or.inl ⟨⟨true, ws, [], d, h⟩, fun w hw' => by rw [hkeys w hw', hwk], by simp, by simp, fun o hs => ?_⟩
          rcases alloc_or_not c.parentIsOptionalEmbedFieldName o with ⟨s, hp⟩ | hn
          · rw [fieldWith_lift rec ov c mv msg attrs _ s a he hk ho hs hp hl hv']
            rw [show copyFromFieldWith rec ov (unembed c) mv msg attrs { obj := s, diags := [], hooks := [] } = _ from hF s]
            simp only [liftOut]
            refine pres_set _ _ o _ hs rfl ?_
            rw [hp]
            rfl
          · have hp1 : (o.setField c.parentIsOptionalEmbedFieldName (.ptr (some (.struct [])))).field?
                c.parentIsOptionalEmbedFieldName = some (.ptr (some (.struct []))) := field?_setField_same _ _ _ hs
            rw [child_step rec ov c mv msg attrs _ a he hk ho hs hl hv' hkn hn]
            rw [fieldWith_lift rec ov c mv msg attrs _ (.struct []) a he hk ho (isStruct_setField _ _ _ hs) hp1 hl hv']
            rw [show copyFromFieldWith rec ov (unembed c) mv msg attrs { obj := .struct [], diags := [], hooks := [] } = _
              from hF (.struct [])]
            simp only [liftOut, setField_setField_same]
            refine pres_set _ _ o _ hs rfl ?_
            rw [newParent_unalloc _ _ _ hn]
            rfl
        · refine Or.inr (fun o hs t => ?_)
          rcases alloc_or_not c.parentIsOptionalEmbedFieldName o with ⟨s, hp⟩ | hn
          · rw [fieldWith_lift rec ov c mv msg attrs _ s a he hk ho hs hp hl hv']
            rw [show copyFromFieldWith rec ov (unembed c) mv msg attrs { obj := s, diags := [], hooks := [] } = _ from hF s]
            intro e; cases e
          · have hp1 : (o.setField c.parentIsOptionalEmbedFieldName (.ptr (some (.struct [])))).field?
                c.parentIsOptionalEmbedFieldName = some (.ptr (some (.struct []))) := field?_setField_same _ _ _ hs
            rw [child_step rec ov c mv msg attrs _ a he hk ho hs hl hv' hkn hn]
            rw [fieldWith_lift rec ov c mv msg attrs _ (.struct []) a he hk ho (isStruct_setField _ _ _ hs) hp1 hl hv']
            rw [show copyFromFieldWith rec ov (unembed c) mv msg attrs { obj := .struct [], diags := [], hooks := [] } = _
              from hF (.struct [])]
            intro e; cases e
        · refine Or.inr (fun o hs t => ?_)
          rcases alloc_or_not c.parentIsOptionalEmbedFieldName o with ⟨s, hp⟩ | hn
          · rw [fieldWith_lift rec ov c mv msg attrs _ s a he hk ho hs hp hl hv']
            rw [show copyFromFieldWith rec ov (unembed c) mv msg attrs { obj := s, diags := [], hooks := [] } = _ from hF s]
            intro e; cases e
          · have hp1 : (o.setField c.parentIsOptionalEmbedFieldName (.ptr (some (.struct [])))).field?
                c.parentIsOptionalEmbedFieldName = some (.ptr (some (.struct []))) := field?_setField_same _ _ _ hs
            rw [child_step rec ov c mv msg attrs _ a he hk ho hs hl hv' hkn hn]
            rw [fieldWith_lift rec ov c mv msg attrs _ (.struct []) a he hk ho (isStruct_setField _ _ _ hs) hp1 hl hv']
            rw [show copyFromFieldWith rec ov (unembed c) mv msg attrs { obj := .struct [], diags := [], hooks := [] } = _
              from hF (.struct [])]
            intro e; cases e

theorem newParent_inner (P : String) (ws : List (String × GoVal)) (o : GoVal) :
    newParent true ws (o.field? P) = some (.ptr (some (applyWrites ws (innerOf P o)))) := by
  rcases alloc_or_not P o with ⟨s, hp⟩ | hn
  · rw [innerOf_alloc P o s hp, hp]; rfl
  · rw [innerOf_unalloc P o hn, newParent_unalloc _ _ _ hn]; rfl

/-- **the block of a custom-type child**: the parent is allocated, the hook's value assigned -/
theorem child_custom_psem (Zr : String → String → GoVal → Prop) (rec : FromRec) (ov : List (String × String))
    (c : FieldInfo) (mv : Option FieldInfo) (msg : Option MsgInfo) (attrs : Option (List (String × TfVal)))
    (he : c.parentIsOptionalEmbed = true) (hk : c.kind = .custom)
    (hw : ∀ st, copyFromFieldWith rec ov c mv msg attrs st =
      (copyFromFieldWith rec ov c mv msg attrs { obj := st.obj, diags := [], hooks := [] }).mapO (shiftF st.diags st.hooks)) :
    PSem Zr c.parentIsOptionalEmbedFieldName c.name [] (copyFromFieldWith rec ov c mv msg attrs) := by
  refine ⟨hw, Or.inl ?_⟩
  have key : ∀ (o : GoVal) (v : GoVal) (d : List Diag) (h : List HookCall), IsStruct o →
      copyFromFieldWith rec ov c mv msg attrs { obj := o, diags := [], hooks := [] } =
        .ok { obj := embedSet c.parentIsOptionalEmbedFieldName c.name o v, diags := d, hooks := h } →
      PRes c.parentIsOptionalEmbedFieldName ⟨true, [(c.name, v)], [], d, h⟩ o
        (copyFromFieldWith rec ov c mv msg attrs { obj := o, diags := [], hooks := [] }) := by
    intro o v d h hs e
    rw [e]
    refine pres_set _ ⟨true, [(c.name, v)], [], d, h⟩ o _ hs rfl ?_
    rw [newParent_inner]
    rfl
  cases hl : (attrs.getD []).lookup c.nameSnake with
  | none =>
    refine ⟨⟨true, [(c.name, hookFrom c.isRepeated .nilv)], [], [.readMissing c.path],
      [.copyFrom ("CopyFrom" ++ c.suffix) .nilv]⟩, by simp, by simp, by simp, fun o hs => ?_⟩
    apply key o _ _ _ hs
    unfold copyFromFieldWith embedSet
    rcases alloc_or_not c.parentIsOptionalEmbedFieldName o with ⟨s, hp⟩ | hn
    · simp [hk, hl, he, writeField, allocParent_alloc c _ s hp, hp, innerOf_alloc _ _ s hp, FromSt.diag]
    · simp [hk, hl, he, writeField, allocParent_unalloc c _ hn, innerOf_unalloc _ _ hn, field?_setField_same _ _ _ hs,
        setField_setField_same, FromSt.diag]
  | some a =>
    refine ⟨⟨true, [(c.name, hookFrom c.isRepeated a)], [], [],
      [.copyFrom ("CopyFrom" ++ c.suffix) a]⟩, by simp, by simp, by simp, fun o hs => ?_⟩
    apply key o _ _ _ hs
    have := fieldWith_custom_embed rec ov c mv msg attrs { obj := o, diags := [], hooks := [] } a hk he hs hl
    simpa using this

/-- the other Go field of the target the block of a child assigns: the holder of the group, for a message branch of a
oneof whose attribute is known -/
noncomputable def xkeys (attrs : Option (List (String × TfVal))) (info : FieldInfo) : List String :=
  open Classical in if IsBranch info ∧ Known attrs info then [info.oneOfName] else []

theorem field?_set2_other (o : GoVal) (P q k : String) (v w : GoVal) (hk : k ≠ P) :
    ((o.setField P v).setField q w).field? k = (o.setField q w).field? k := by
  cases o <;> simp only [GoVal.setField, GoVal.field?]
  by_cases e : k = q
  · subst e; rw [lookup_setKey_same, lookup_setKey_same]
  · rw [lookup_setKey_other _ _ _ e, lookup_setKey_other _ _ _ e, lookup_setKey_other _ _ _ hk]

/-- the holder of a oneof group with the message branch `c` active -/
def holderOf (c : FieldInfo) (v : GoVal) : GoVal := .iface (some (lastSegment c.oneOfType, c.name, .ptr (some v)))

/-- **the block of a message branch of a oneof that is a child of a nullable embedded message**: a known value
allocates the parent and assigns the holder of the group (a Go field of the target itself); a null / unknown value does
nothing -/
theorem child_objBranch_psem (Zr : String → String → GoVal → Prop) (rec : FromRec) (ov : List (String × String))
    (c : FieldInfo) (mv : Option FieldInfo) (msg : Option MsgInfo) (attrs : Option (List (String × TfVal)))
    (he : c.parentIsOptionalEmbed = true) (hk : c.kind = .object) (ho : c.oneOfName ≠ "")
    (hP : c.oneOfName ≠ c.parentIsOptionalEmbedFieldName) (hfit : Fits attrs c)
    (hw : ∀ st, copyFromFieldWith rec ov c mv msg attrs st =
      (copyFromFieldWith rec ov c mv msg attrs { obj := st.obj, diags := [], hooks := [] }).mapO (shiftF st.diags st.hooks)) :
    PSem Zr c.parentIsOptionalEmbedFieldName c.name (xkeys attrs c) (copyFromFieldWith rec ov c mv msg attrs) := by
  refine ⟨hw, ?_⟩
  have hkc : c.kind ≠ .custom := by rw [hk]; decide
  have hkp : c.kind ≠ .primitive := by rw [hk]; decide
  have hb : (c.oneOfName == "") = false := by simpa using ho
  cases hl : (attrs.getD []).lookup c.nameSnake with
  | none =>
    refine Or.inl ⟨⟨false, [], [], [.readMissing c.path], []⟩, by simp, by simp, by simp, fun o hs => ?_⟩
    rw [fieldWith_missing rec ov c mv msg attrs _ hkc hl]
    exact pres_same _ _ o hs rfl (newParent_skip _).symm
  | some a =>
    by_cases hv : (a.vkind != vkindOf c.tf.valueType || a.vkind == .unknown) = true
    · refine Or.inl ⟨⟨false, [], [], [.readConv c.path c.tf.valueType], []⟩, by simp, by simp, by simp, fun o hs => ?_⟩
      rw [fieldWith_conv rec ov c mv msg attrs _ a hkc hl hv]
      exact pres_same _ _ o hs rfl (newParent_skip _).symm
    · have hv' : (a.vkind != vkindOf c.tf.valueType || a.vkind == .unknown) = false := by simpa using hv
      cases hkn : a.isKnown with
      | false =>
        have hsh : KindShape c a := hfit a hl (cond_false hv').1 (cond_false hv').2 hkn
        unfold KindShape at hsh
        simp only [hk] at hsh
        refine Or.inl ⟨⟨false, [], [], [], []⟩, by simp, by simp, by simp, fun o hs => ?_⟩
        have e : copyFromFieldWith rec ov c mv msg attrs { obj := o, diags := [], hooks := [] } =
            .ok { obj := o, diags := [], hooks := [] } := by
          rcases alloc_or_not c.parentIsOptionalEmbedFieldName o with ⟨s, hp⟩ | hn
          · cases a <;> simp [TfVal.vkind] at hsh
            rename_i u n as tys
            have hkn' : known u n = false := by simpa [TfVal.isKnown] using hkn
            unfold copyFromFieldWith
            simp only [hl, hv', embedGuard_alloc c _ _ s hp, hk, hb, hkn', Bool.false_eq_true, if_false]
          · unfold copyFromFieldWith
            simp only [hl, hv', embedGuard_unalloc c a o he hkp hn, hkn, Bool.false_eq_true, if_false, hk]
        rw [e]
        exact pres_same _ _ o hs rfl (newParent_skip _).symm
      | true =>
        have hknown : Known attrs c := ⟨a, hl, hkn, (cond_false hv').1, (cond_false hv').2⟩
        have hx : xkeys attrs c = [c.oneOfName] := by
          have hbr : IsBranch c := ⟨ho, Or.inr hk⟩
          simp [xkeys, hbr, hknown]
        -- the struct the rest of the block runs on
        have hguard : ∀ o, IsStruct o → ∃ o', embedGuard c a o = some o' ∧ IsStruct o' ∧
            o'.field? c.parentIsOptionalEmbedFieldName = newParent true [] (o.field? c.parentIsOptionalEmbedFieldName) ∧
            ∀ (w : GoVal) (k : String), k ≠ c.parentIsOptionalEmbedFieldName →
              (o'.setField c.oneOfName w).field? k = (o.setField c.oneOfName w).field? k := by
          intro o hs
          rcases alloc_or_not c.parentIsOptionalEmbedFieldName o with ⟨s, hp⟩ | hn
          · exact ⟨o, embedGuard_alloc c a o s hp, hs, by rw [hp]; rfl, fun _ _ _ => rfl⟩
          · refine ⟨_, by rw [embedGuard_unalloc c a o he hkp hn, hkn]; rfl, isStruct_setField _ _ _ hs, ?_, ?_⟩
            · rw [field?_setField_same _ _ _ hs, newParent_unalloc _ _ _ hn]; rfl
            · intro w k hk'
              exact field?_set2_other o _ _ k _ w hk'
        cases a with
        | obj u n as tys =>
          have hkn' : known u n = true := by simpa [TfVal.isKnown] using hkn
          have hblock : ∀ o o', embedGuard c (.obj u n as tys) o = some o' →
              copyFromFieldWith rec ov c mv msg attrs { obj := o, diags := [], hooks := [] } =
                match (if !isEmptyMsg msg then rec as { obj := .struct [], diags := [], hooks := [] }
                       else .ok { obj := .struct [], diags := [], hooks := [] }) with
                | .panic w => .panic w
                | .stuck w => .stuck w
                | .ok st' => .ok { st' with obj := o'.setField c.oneOfName (holderOf c st'.obj) } := by
            intro o o' hg
            unfold copyFromFieldWith
            simp only [hl, hv', hg, hk, hb, hkn', Bool.false_eq_true, if_false, if_true]
            cases isEmptyMsg msg <;> simp only [Bool.not_true, Bool.not_false, Bool.false_eq_true, if_false, if_true]
            · cases rec as { obj := GoVal.struct [], diags := [], hooks := [] } <;> rfl
            · rfl
          cases hin : (if !isEmptyMsg msg then rec as { obj := .struct [], diags := [], hooks := [] }
                       else .ok { obj := .struct [], diags := [], hooks := [] }) with
          | ok st' =>
            refine Or.inl ⟨⟨true, [], [(c.oneOfName, holderOf c st'.obj)], st'.diags, st'.hooks⟩, by simp, by simp [hx], by simp, fun o hs => ?_⟩
            obtain ⟨o', hg, hs', hp', hoth⟩ := hguard o hs
            rw [hblock o o' hg, hin]
            refine pres_mk _ _ o _ (isStruct_setField _ _ _ hs') ?_ (fun k hk' => hoth _ k hk')
            rw [field?_setField_other' _ _ _ _ (Ne.symm hP)]
            exact hp'
          | panic w =>
            refine Or.inr (fun o hs t => ?_)
            obtain ⟨o', hg, _⟩ := hguard o hs
            rw [hblock o o' hg, hin]
            intro e; cases e
          | stuck w =>
            refine Or.inr (fun o hs t => ?_)
            obtain ⟨o', hg, _⟩ := hguard o hs
            rw [hblock o o' hg, hin]
            intro e; cases e
        | prim _ _ _ _ | list _ _ _ _ | map _ _ _ _ | nilv | foreign _ =>
          refine Or.inr (fun o hs t => ?_)
          obtain ⟨o', hg, _⟩ := hguard o hs
          unfold copyFromFieldWith
          simp only [hl, hv', hg, hk]
          intro e; cases e

/-- the field with the name of its oneof group erased -/
def noOneOf (c : FieldInfo) : FieldInfo := { c with oneOfName := "" }

/-- the blocks of lists and maps do not look at the oneof group -/
theorem fieldWith_noOneOf (rec : FromRec) (ov : List (String × String)) (c : FieldInfo) (mv : Option FieldInfo)
    (msg : Option MsgInfo) (attrs : Option (List (String × TfVal))) (st : FromSt)
    (hk : c.kind = .primitiveList ∨ c.kind = .objectList ∨ c.kind = .primitiveMap ∨ c.kind = .objectMap) :
    copyFromFieldWith rec ov c mv msg attrs st = copyFromFieldWith rec ov (noOneOf c) mv msg attrs st := by
  have e1 : (noOneOf c).kind = c.kind := rfl
  have e2 : embedGuard (noOneOf c) = embedGuard c := rfl
  have e3 : writeField (noOneOf c) = writeField c := rfl
  have e4 : zeroElem (noOneOf c) = zeroElem c := rfl
  have e6 : fromElemBody rec ov (noOneOf c) (noOneOf c) = fromElemBody rec ov c c := rfl
  have e7 : fromElemBody rec ov (noOneOf c) (mv.getD (noOneOf c)) = fromElemBody rec ov c (mv.getD c) := by
    cases mv <;> rfl
  have e8 : (noOneOf c).nameSnake = c.nameSnake := rfl
  have e9 : (noOneOf c).path = c.path := rfl
  have e10 : (noOneOf c).tf = c.tf := rfl
  unfold copyFromFieldWith
  simp only [e1, e2, e3, e4, e6, e7, e8, e9, e10]
  rcases hk with hk | hk | hk | hk <;> simp only [hk] <;>
  · cases (attrs.getD []).lookup c.nameSnake with
    | none => rfl
    | some a =>
      simp only []
      split
      · rfl
      · cases embedGuard c a st.obj with
        | none => rfl
        | some obj0 => cases a <;> rfl

/-- the block of the field reads and writes the pointer to its nullable embedded parent: every child but the scalar
branches of a oneof -/
def TouchesParent (info : FieldInfo) : Prop :=
  info.parentIsOptionalEmbed = true ∧ ¬ (info.oneOfName ≠ "" ∧ info.kind = .primitive)

theorem xkeys_nonbranch (attrs : Option (List (String × TfVal))) (c : FieldInfo) (h : ¬ IsBranch c) : xkeys attrs c = [] := by
  simp [xkeys, h]

/-- **the block of every child of a nullable embedded message that touches the parent pointer is such an action** -/
theorem child_psem (Zr : String → String → GoVal → Prop) (rec : FromRec) (ov : List (String × String))
    (c : FieldInfo) (mv : Option FieldInfo) (msg : Option MsgInfo) (attrs : Option (List (String × TfVal)))
    (ht : TouchesParent c) (hfit : Fits attrs c) (hP : IsBranch c → c.oneOfName ≠ c.parentIsOptionalEmbedFieldName)
    (hZ : c.kind ≠ .custom → Zr c.parentIsOptionalEmbedFieldName c.name (zeroWrite c))
    (hw : ∀ st, copyFromFieldWith rec ov c mv msg attrs st =
      (copyFromFieldWith rec ov c mv msg attrs { obj := st.obj, diags := [], hooks := [] }).mapO (shiftF st.diags st.hooks)) :
    PSem Zr c.parentIsOptionalEmbedFieldName c.name (xkeys attrs c) (copyFromFieldWith rec ov c mv msg attrs) := by
  obtain ⟨he, hnp⟩ := ht
  have viaNoOneOf : (c.kind = .primitiveList ∨ c.kind = .objectList ∨ c.kind = .primitiveMap ∨ c.kind = .objectMap) →
      PSem Zr c.parentIsOptionalEmbedFieldName c.name (xkeys attrs c) (copyFromFieldWith rec ov c mv msg attrs) := by
    intro hk
    have hnb : ¬ IsBranch c := by
      intro hb
      rcases hb.2 with h | h <;> rcases hk with hk | hk | hk | hk <;> rw [h] at hk <;> cases hk
    rw [xkeys_nonbranch attrs c hnb]
    have hfun : copyFromFieldWith rec ov c mv msg attrs = copyFromFieldWith rec ov (noOneOf c) mv msg attrs :=
      funext (fun st => fieldWith_noOneOf rec ov c mv msg attrs st hk)
    rw [hfun]
    have hkc : (noOneOf c).kind ≠ .custom := by
      show c.kind ≠ .custom
      rcases hk with hk | hk | hk | hk <;> rw [hk] <;> decide
    exact child_plain_psem Zr rec ov (noOneOf c) mv msg attrs he hkc rfl hfit (hZ hkc) (by rw [← hfun]; exact hw)
  cases hk : c.kind with
  | custom =>
    rw [xkeys_nonbranch attrs c (by simp [IsBranch, hk])]
    exact child_custom_psem Zr rec ov c mv msg attrs he hk hw
  | primitive =>
    have ho : c.oneOfName = "" := by
      by_cases ho : c.oneOfName = ""
      · exact ho
      · exact absurd ⟨ho, hk⟩ hnp
    rw [xkeys_nonbranch attrs c (by simp [IsBranch, ho])]
    exact child_plain_psem Zr rec ov c mv msg attrs he (by rw [hk]; decide) ho hfit (hZ (by rw [hk]; decide)) hw
  | object =>
    by_cases ho : c.oneOfName = ""
    · rw [xkeys_nonbranch attrs c (by simp [IsBranch, ho])]
      exact child_plain_psem Zr rec ov c mv msg attrs he (by rw [hk]; decide) ho hfit (hZ (by rw [hk]; decide)) hw
    · exact child_objBranch_psem Zr rec ov c mv msg attrs he hk ho (hP ⟨ho, Or.inr hk⟩) hfit hw
  | primitiveList => exact viaNoOneOf (Or.inl hk)
  | objectList => exact viaNoOneOf (Or.inr (Or.inl hk))
  | primitiveMap => exact viaNoOneOf (Or.inr (Or.inr (Or.inl hk)))
  | objectMap => exact viaNoOneOf (Or.inr (Or.inr (Or.inr hk)))

/-- for a child that touches the parent pointer, `keysOf` is the parent pointer and the holder assigned (if any) -/
theorem keysOf_touches (attrs : Option (List (String × TfVal))) (c : FieldInfo) (ht : TouchesParent c) :
    keysOf attrs c = c.parentIsOptionalEmbedFieldName :: xkeys attrs c := by
  obtain ⟨he, hnp⟩ := ht
  by_cases hb : IsBranch c
  · have hk : c.kind = .object := by
      rcases hb.2 with h | h
      · exact absurd ⟨hb.1, h⟩ hnp
      · exact h
    have hkp : c.kind ≠ .primitive := by rw [hk]; decide
    by_cases hn : Known attrs c
    · simp [keysOf, xkeys, touch, hb, hn, he, hkp]
    · simp [keysOf, xkeys, hb, hn, he, hk]
  · simp [keysOf, xkeys, touch, hb, he]

/-- what the normal-form relation needs to know about a child: its block is covered by `child_psem` -/
def GoodChild (attrs : Option (List (String × TfVal))) (info : FieldInfo) : Prop :=
  TouchesParent info ∧ Fits attrs info ∧ (IsBranch info → info.oneOfName ≠ info.parentIsOptionalEmbedFieldName)

theorem block_psem (Zr : String → String → GoVal → Prop) (ov : List (String × String)) (x : Field)
    (attrs : Option (List (String × TfVal))) (hg : GoodChild attrs x.info)
    (hZ : x.info.kind ≠ .custom → Zr x.info.parentIsOptionalEmbedFieldName x.info.name (zeroWrite x.info)) :
    PSem Zr x.info.parentIsOptionalEmbedFieldName x.info.name (xkeys attrs x.info) (blockF ov x attrs) := by
  have hw := blockF_writer ov x attrs
  obtain ⟨info, mv, msg, sub⟩ := x
  by_cases hph : info.isPlaceholder = true
  · refine ⟨hw, Or.inl ⟨⟨false, [], [], [], []⟩, by simp, by simp, by simp, fun o hs => ?_⟩⟩
    have : blockF ov ⟨info, mv, msg, sub⟩ attrs { obj := o, diags := [], hooks := [] } =
        .ok { obj := o, diags := [], hooks := [] } := by simp [blockF, hph]
    rw [this]
    exact pres_same _ _ o hs rfl (newParent_skip _).symm
  · have hph' : info.isPlaceholder = false := by simpa using hph
    have hfun : blockF ov ⟨info, mv, msg, sub⟩ attrs = copyFromFieldWith (recOf ov msg sub) ov info mv msg attrs :=
      funext (fun st => blockF_eq ov info mv msg sub attrs st hph')
    rw [hfun] at hw ⊢
    exact child_psem Zr (recOf ov msg sub) ov info mv msg attrs hg.1 hg.2.1 hg.2.2 hZ hw

theorem block_semR_child {Par Zr} (ov : List (String × String)) (x : Field)
    (attrs : Option (List (String × TfVal))) (hg : GoodChild attrs x.info)
    (hZ : x.info.kind ≠ .custom → Zr x.info.parentIsOptionalEmbedFieldName x.info.name (zeroWrite x.info)) :
    SemR (KeyRel Par Zr) (keysOf attrs x.info) (blockF ov x attrs) := by
  rw [keysOf_touches attrs x.info hg.1]
  exact psem_semR _ _ _ _ (block_psem Zr ov x attrs hg hZ)

theorem block_semR_other {Par Zr} (ov : List (String × String)) (x : Field)
    (attrs : Option (List (String × TfVal))) (hn : ∀ k ∈ keysOf attrs x.info, ¬ Par k) :
    SemR (KeyRel Par Zr) (keysOf attrs x.info) (blockF ov x attrs) := by
  refine semR_of_sem (keyRel_equiv Par Zr) _ _ (blockF_sem ov x attrs) (fun k hk a b h => ?_)
  rcases h with h | ⟨hp, _⟩
  · exact h
  · exact absurd hp (hn k hk)

-- ------------------------------------------------------------------------------------------------------
-- 14. permutations: blocks on disjoint key sets, or siblings under the same nullable embedded message

/-- two children of the same nullable embedded message (their blocks read and write the same parent pointer):
different Go names, the typing hypothesis `Fits`, and the holders they assign (message branches of a oneof) are different
from each other and from the parent pointer -/
def Sibling (attrs : Option (List (String × TfVal))) (f g : Field) : Prop :=
  GoodChild attrs f.info ∧ GoodChild attrs g.info ∧
  f.info.parentIsOptionalEmbedFieldName = g.info.parentIsOptionalEmbedFieldName ∧
  f.info.name ≠ g.info.name ∧
  ∀ k ∈ xkeys attrs f.info, k ∉ xkeys attrs g.info

theorem Sibling.symm {attrs : Option (List (String × TfVal))} {f g : Field} (h : Sibling attrs f g) : Sibling attrs g f :=
  ⟨h.2.1, h.1, h.2.2.1.symm, Ne.symm h.2.2.2.1, fun k hg hf => h.2.2.2.2 k hf hg⟩

/-- two blocks can be swapped: disjoint key sets, or siblings -/
def Compat (attrs : Option (List (String × TfVal))) (f g : Field) : Prop := IndepFull attrs f g ∨ Sibling attrs f g

theorem Compat.symm {attrs : Option (List (String × TfVal))} {f g : Field} (h : Compat attrs f g) : Compat attrs g f := by
  rcases h with h | h
  · exact Or.inl h.symm
  · exact Or.inr h.symm

theorem pairwise_forall_ne {α : Type} {R : α → α → Prop} (hsymm : ∀ a b, R a b → R b a) :
    ∀ {l : List α}, l.Pairwise R → ∀ a ∈ l, ∀ b ∈ l, a ≠ b → R a b
  | [], _, a, ha, _, _, _ => by simp at ha
  | x :: l, h, a, ha, b, hb, hne => by
    obtain ⟨hx, hl⟩ := List.pairwise_cons.mp h
    simp only [List.mem_cons] at ha hb
    rcases ha with ha | ha
    · rcases hb with hb | hb
      · exact absurd (ha.trans hb.symm) hne
      · subst ha; exact hx b hb
    · rcases hb with hb | hb
      · subst hb; exact hsymm _ _ (hx a ha)
      · exact pairwise_forall_ne hsymm hl a ha b hb hne

/-- the pointers to nullable embedded messages that are shared by siblings of the list -/
def ParOf (attrs : Option (List (String × TfVal))) (fs : List Field) (k : String) : Prop :=
  ∃ f g, f ∈ fs ∧ g ∈ fs ∧ Sibling attrs f g ∧ f.info.parentIsOptionalEmbedFieldName = k

/-- the reset values of the children in the list (the hook of a custom type never resets) -/
def ZrOf (fs : List Field) (P n : String) (v : GoVal) : Prop :=
  ∃ f ∈ fs, f.info.parentIsOptionalEmbed = true ∧ f.info.kind ≠ .custom ∧ f.info.parentIsOptionalEmbedFieldName = P ∧
    f.info.name = n ∧ v = zeroWrite f.info

theorem mem_keysOf_parent (attrs : Option (List (String × TfVal))) (c : FieldInfo) (ht : TouchesParent c) :
    c.parentIsOptionalEmbedFieldName ∈ keysOf attrs c := by
  rw [keysOf_touches attrs c ht]; simp

/-- in a list of pairwise compatible blocks, a block that touches a shared parent pointer is a good child -/
theorem good_or_apart (attrs : Option (List (String × TfVal))) (fs : List Field) (hind : fs.Pairwise (Compat attrs))
    (x : Field) (hx : x ∈ fs) : GoodChild attrs x.info ∨ ∀ k ∈ keysOf attrs x.info, ¬ ParOf attrs fs k := by
  by_cases h : ∃ k, k ∈ keysOf attrs x.info ∧ ParOf attrs fs k
  · left
    obtain ⟨k, hk, f, g, hf, hg, hsib, hpk⟩ := h
    have key : ∀ y ∈ fs, y ≠ x → GoodChild attrs y.info → y.info.parentIsOptionalEmbedFieldName = k → GoodChild attrs x.info := by
      intro y hy hne hgy hpy
      rcases pairwise_forall_ne (fun _ _ h => Compat.symm h) hind x hx y hy (Ne.symm hne) with hi | hs
      · exact absurd (hpy ▸ mem_keysOf_parent attrs y.info hgy.1) (hi k hk)
      · exact hs.1
    by_cases e : f = x
    · have hne : g ≠ x := by
        intro e'
        exact hsib.2.2.2.1 (by rw [e, e'])
      exact key g hg hne hsib.2.1 (hsib.2.2.1 ▸ hpk)
    · exact key f hf e hsib.1 hpk
  · exact Or.inr (fun k hk hp => h ⟨k, hk, hp⟩)

theorem copyFromFields_equivR {R : String → Option GoVal → Option GoVal → Prop} (ov : List (String × String))
    (attrs : Option (List (String × TfVal))) :
    ∀ (fs : List Field), (∀ x ∈ fs, SemR R (keysOf attrs x.info) (blockF ov x attrs)) → ∀ (s s' : FromSt), REquivS R s s' →
      OutRel (REquivS R) (copyFromFields ov fs attrs s) (copyFromFields ov fs attrs s')
  | [], _, s, s', h => by simpa [copyFromFields] using h
  | f :: rest, hsem, s, s', h => by
    rw [copyFromFields_cons, copyFromFields_cons]
    exact outRel_bind _ _ _ _ (semR_equiv _ _ (hsem f (by simp)) s s' h)
      (fun t t' ht => copyFromFields_equivR ov attrs rest (fun x hx => hsem x (by simp [hx])) t t' ht)

theorem copyFromFields_perm_equivR {R : String → Option GoVal → Option GoVal → Prop} (hR : KeyEquiv R)
    (ov : List (String × String)) (attrs : Option (List (String × TfVal)))
    (Good : Field → Prop)
    (hsem : ∀ x, Good x → SemR R (keysOf attrs x.info) (blockF ov x attrs))
    (hsw : ∀ x y, Good x → Good y → Sibling attrs y x → ∀ s s', REquivS R s s' →
      OutRel (REquivS R) (obind (blockF ov y attrs s) (blockF ov x attrs)) (obind (blockF ov x attrs s') (blockF ov y attrs)))
    {fs' fs : List Field} (hp : fs'.Perm fs) (hgood : ∀ x ∈ fs', Good x) (hind : fs'.Pairwise (Compat attrs)) :
    ∀ s s', REquivS R s s' → OutRel (REquivS R) (copyFromFields ov fs' attrs s) (copyFromFields ov fs attrs s') := by
  induction hp with
  | nil => intro s s' h; simpa [copyFromFields] using h
  | cons x _ ih =>
    intro s s' h
    rw [copyFromFields_cons, copyFromFields_cons]
    exact outRel_bind _ _ _ _ (semR_equiv _ _ (hsem x (hgood x (by simp))) s s' h)
      (ih (fun y hy => hgood y (by simp [hy])) (List.pairwise_cons.mp hind).2)
  | swap x y l =>
    intro s s' h
    rw [copyFromFields_cons2, copyFromFields_cons2]
    have hyx : Compat attrs y x := (List.pairwise_cons.mp hind).1 x (by simp)
    have gx : Good x := hgood x (by simp)
    have gy : Good y := hgood y (by simp)
    refine outRel_bind _ _ _ _ ?_
      (fun t t' ht => copyFromFields_equivR ov attrs l (fun z hz => hsem z (hgood z (by simp [hz]))) t t' ht)
    rcases hyx with hi | hs
    · exact semR_swap hR _ _ _ _ (hsem y gy) (hsem x gx) hi s s' h
    · exact hsw x y gx gy hs s s' h
  | trans h1 _ ih1 ih2 =>
    intro s s' h
    have hind2 := (h1.pairwise_iff (fun hxy => Compat.symm hxy)).mp hind
    exact OutRel.trans (R := REquivS R) (fun _ _ _ a b => REquivS.trans hR a b) (ih1 hgood hind s s' h)
      (ih2 (fun y hy => hgood y (h1.mem_iff.mpr hy)) hind2 s' s' (REquivS.refl hR _ h.2.1))

-- ------------------------------------------------------------------------------------------------------
-- 15. the theorems

/-- `k` is the pointer to a nullable embedded message with a child in the list -/
def EmbedPar (fs : List Field) (k : String) : Prop :=
  ∃ f ∈ fs, f.info.parentIsOptionalEmbed = true ∧ f.info.parentIsOptionalEmbedFieldName = k

/-- **the normal-form relation on struct values**, relative to the fields `fs` of the message: every Go field holds the
same value in `o` and `o'` – literally – except the pointers to nullable embedded messages with children in `fs`: these
are equal, or both allocated, to structs that agree field by field, where a field `n` that is absent on one side may be
absent or hold the reset value (`zeroWrite`: nil pointer / empty struct, empty slice, empty map, zero scalar) of a
(non-custom) child named `n` on the other -/
def ObjNfRel (fs : List Field) (o o' : GoVal) : Prop :=
  IsStruct o ∧ IsStruct o' ∧ ∀ k, KeyRel (EmbedPar fs) (ZrOf fs) k (o.field? k) (o'.field? k)

theorem ObjNfRel.refl (fs : List Field) (o : GoVal) (h : IsStruct o) : ObjNfRel fs o o := ⟨h, h, fun _ => Or.inl rfl⟩
theorem ObjNfRel.symm {fs : List Field} {o o' : GoVal} (h : ObjNfRel fs o o') : ObjNfRel fs o' o :=
  ⟨h.2.1, h.1, fun k => (keyRel_equiv _ _).symm k _ _ (h.2.2 k)⟩
theorem ObjNfRel.trans {fs : List Field} {a b c : GoVal} (h : ObjNfRel fs a b) (h' : ObjNfRel fs b c) : ObjNfRel fs a c :=
  ⟨h.1, h'.2.1, fun k => (keyRel_equiv _ _).trans k _ _ _ (h.2.2 k) (h'.2.2 k)⟩

/-- the relation depends on the set of fields only -/
theorem objNfRel_perm {fs fs' : List Field} (hp : fs'.Perm fs) (o o' : GoVal) (h : ObjNfRel fs o o') : ObjNfRel fs' o o' := by
  refine ⟨h.1, h.2.1, fun k => keyRel_mono ?_ ?_ k _ _ (h.2.2 k)⟩
  · rintro k ⟨f, hf, h1, h2⟩; exact ⟨f, hp.mem_iff.mpr hf, h1, h2⟩
  · rintro P n v ⟨f, hf, h1⟩; exact ⟨f, hp.mem_iff.mpr hf, h1⟩

/-- the relation, spelled out -/
theorem objNfRel_iff (fs : List Field) (o o' : GoVal) :
    ObjNfRel fs o o' ↔ IsStruct o ∧ IsStruct o' ∧ ∀ k, o.field? k = o'.field? k ∨
      ((∃ f ∈ fs, f.info.parentIsOptionalEmbed = true ∧ f.info.parentIsOptionalEmbedFieldName = k) ∧
        ∃ s s', o.field? k = some (.ptr (some s)) ∧ o'.field? k = some (.ptr (some s')) ∧ IsStruct s ∧ IsStruct s' ∧
          ∀ n, s.field? n = s'.field? n ∨
            ((s.field? n = none ∨ ∃ v, s.field? n = some v ∧ ∃ c ∈ fs, c.info.parentIsOptionalEmbed = true ∧
                c.info.kind ≠ .custom ∧ c.info.parentIsOptionalEmbedFieldName = k ∧ c.info.name = n ∧ v = zeroWrite c.info) ∧
             (s'.field? n = none ∨ ∃ v, s'.field? n = some v ∧ ∃ c ∈ fs, c.info.parentIsOptionalEmbed = true ∧
                c.info.kind ≠ .custom ∧ c.info.parentIsOptionalEmbedFieldName = k ∧ c.info.name = n ∧ v = zeroWrite c.info))) := Iff.rfl

/-- **(1) the blocks of two siblings commute up to the normal form**: `f`, `g` children of the same nullable embedded
message (`Sibling`: different Go names, `Fits`, different holders), members of `fs`.  From two states whose targets are
related (`KeyRel`, e.g. equal struct targets), the two orders both succeed or both fail; after successful runs the
targets are related again, and diagnostics and hook calls agree up to order. -/
theorem blockF_siblings_swap (ov : List (String × String)) (attrs : Option (List (String × TfVal))) (fs : List Field)
    (f g : Field) (hf : f ∈ fs) (hg : g ∈ fs) (hsib : Sibling attrs f g) (s s' : FromSt)
    (h : REquivS (KeyRel (ParOf attrs fs) (ZrOf fs)) s s') :
    OutRel (REquivS (KeyRel (ParOf attrs fs) (ZrOf fs)))
      (obind (blockF ov f attrs s) (blockF ov g attrs)) (obind (blockF ov g attrs s') (blockF ov f attrs)) := by
  obtain ⟨gf, gg, hpp, hne, hx⟩ := hsib
  have pf := block_psem (ZrOf fs) ov f attrs gf (fun hk => ⟨f, hf, gf.1.1, hk, rfl, rfl, rfl⟩)
  have pg := block_psem (ZrOf fs) ov g attrs gg (fun hk => ⟨g, hg, gg.1.1, hk, rfl, rfl, rfl⟩)
  rw [← hpp] at pg
  exact psem_swap f.info.parentIsOptionalEmbedFieldName ⟨f, g, hf, hg, ⟨gf, gg, hpp, hne, hx⟩, rfl⟩ f.info.name g.info.name hne
    _ _ hx _ _ pf pg s s' h

/-- (1), for the two fields alone, from the same struct target -/
theorem blockF_siblings_commute (ov : List (String × String)) (attrs : Option (List (String × TfVal)))
    (f g : Field) (hsib : Sibling attrs f g) (st : FromSt) (hst : IsStruct st.obj) :
    ((∃ t, obind (blockF ov f attrs st) (blockF ov g attrs) = .ok t) ↔
      (∃ t, obind (blockF ov g attrs st) (blockF ov f attrs) = .ok t)) ∧
    ∀ t t', obind (blockF ov f attrs st) (blockF ov g attrs) = .ok t →
      obind (blockF ov g attrs st) (blockF ov f attrs) = .ok t' →
      ObjNfRel [f, g] t.obj t'.obj ∧ t.diags.Perm t'.diags ∧ t.hooks.Perm t'.hooks := by
  have h := blockF_siblings_swap ov attrs [f, g] f g (by simp) (by simp) hsib st st
    (REquivS.refl (keyRel_equiv _ _) st hst)
  refine ⟨outRel_ok_iff h, fun t t' e e' => ?_⟩
  rw [e, e'] at h
  refine ⟨⟨h.1, h.2.1, fun k => keyRel_mono ?_ (fun _ _ _ hz => hz) k _ _ (h.2.2.1 k)⟩, h.2.2.2.1, h.2.2.2.2⟩
  rintro k ⟨a, b, ha, _, hs, hk⟩
  exact ⟨a, ha, hs.1.1.1, hk⟩

theorem copyFromFields_perm_relS (ov : List (String × String)) (attrs : Option (List (String × TfVal)))
    {fs' fs : List Field} (hp : fs'.Perm fs) (hind : fs.Pairwise (Compat attrs)) (s s' : FromSt)
    (h : REquivS (KeyRel (ParOf attrs fs) (ZrOf fs)) s s') :
    OutRel (REquivS (KeyRel (ParOf attrs fs) (ZrOf fs))) (copyFromFields ov fs' attrs s) (copyFromFields ov fs attrs s') := by
  have hind' := (hp.pairwise_iff (fun hxy => Compat.symm hxy)).mpr hind
  refine copyFromFields_perm_equivR (keyRel_equiv _ _) ov attrs (fun x => x ∈ fs) ?_ ?_ hp
    (fun x hx => hp.mem_iff.mp hx) hind' s s' h
  · intro x hx
    rcases good_or_apart attrs fs hind x hx with hg | hn
    · exact block_semR_child ov x attrs hg (fun hk => ⟨x, hx, hg.1.1, hk, rfl, rfl, rfl⟩)
    · exact block_semR_other ov x attrs hn
  · intro x y hx hy hs t t' ht
    exact blockF_siblings_swap ov attrs fs y x hy hx hs t t' ht

/-- **(2) C15, CopyFrom field blocks, siblings under a nullable embedded message included**: `fs'` a permutation of `fs`;
any two blocks of `fs` work on disjoint sets of Go fields of the target (`IndepFull`, as in `copyFromFields_perm_full`) OR
are siblings under the same nullable embedded message (`Sibling`: different Go names; `Fits`: a null / unknown attribute
has the constructor of the field's kind; the holders assigned by message branches of oneofs differ from each other and
from the parent pointer).  Then for every Terraform attribute map and every start state whose target is a struct, the
blocks in the order `fs'` succeed iff they succeed in the order `fs`, and after successful runs the targets are equal up
to the normal form `ObjNfRel fs`, with the same diagnostics and hook calls up to order. -/
theorem copyFromFields_perm_siblings (ov : List (String × String)) (attrs : Option (List (String × TfVal)))
    {fs' fs : List Field} (hp : fs'.Perm fs) (hind : fs.Pairwise (Compat attrs)) (st : FromSt)
    (hst : IsStruct st.obj) :
    ((∃ s', copyFromFields ov fs' attrs st = .ok s') ↔ (∃ s, copyFromFields ov fs attrs st = .ok s)) ∧
    ∀ s' s, copyFromFields ov fs' attrs st = .ok s' → copyFromFields ov fs attrs st = .ok s →
      ObjNfRel fs s'.obj s.obj ∧ s'.diags.Perm s.diags ∧ s'.hooks.Perm s.hooks := by
  have h := copyFromFields_perm_relS ov attrs hp hind st st (REquivS.refl (keyRel_equiv _ _) st hst)
  refine ⟨outRel_ok_iff h, fun s' s e' e => ?_⟩
  rw [e', e] at h
  refine ⟨⟨h.1, h.2.1, fun k => keyRel_mono ?_ (fun _ _ _ hz => hz) k _ _ (h.2.2.1 k)⟩, h.2.2.2.1, h.2.2.2.2⟩
  rintro k ⟨a, b, ha, _, hs, hk⟩
  exact ⟨a, ha, hs.1.1.1, hk⟩

-- ------------------------------------------------------------------------------------------------------
-- 15b. the normal form of the property (`Spec.nfEqFields`) does not distinguish related targets

open PGT.Spec

/-- two values of a field that its normal form does not distinguish: equal; or, for lists and maps, the same elements
(nil ≡ empty) -/
def ValNf (info : FieldInfo) (x x' : GoVal) : Prop :=
  x = x' ∨
  ((info.kind = .primitiveList ∨ info.kind = .objectList) ∧ sliceElems x = sliceElems x') ∨
  ((info.kind = .primitiveMap ∨ info.kind = .objectMap) ∧ mapElems x = mapElems x')

theorem nfEqField_congr (info : FieldInfo) (mv : Option FieldInfo) (msg : Option MsgInfo) (sub : List Field)
    (o o' b b' : GoVal)
    (hpay : info.oneOfName ≠ "" → activePayload info o = activePayload info o' ∧ activePayload info b = activePayload info b')
    (hval : info.oneOfName = "" → ValNf info (getVal info o) (getVal info o') ∧ ValNf info (getVal info b) (getVal info b')) :
    nfEqField ⟨info, mv, msg, sub⟩ o b = nfEqField ⟨info, mv, msg, sub⟩ o' b' := by
  unfold nfEqField
  by_cases ho : info.oneOfName = ""
  · obtain ⟨h1, h2⟩ := hval ho
    have hb : (info.oneOfName != "") = false := by simp [ho]
    simp only [hb, Bool.false_eq_true, if_false]
    rcases h1 with h1 | ⟨hk, h1⟩ | ⟨hk, h1⟩
    · rcases h2 with h2 | ⟨hk, h2⟩ | ⟨hk, h2⟩
      · rw [h1, h2]
      · rw [h1]; rcases hk with hk | hk <;> simp only [hk, h2]
      · rw [h1]; rcases hk with hk | hk <;> simp only [hk, h2]
    · rcases h2 with h2 | ⟨_, h2⟩ | ⟨hk', h2⟩
      · rw [h2]; rcases hk with hk | hk <;> simp only [hk, h1]
      · rcases hk with hk | hk <;> simp only [hk, h1, h2]
      · rcases hk with hk | hk <;> rcases hk' with hk' | hk' <;> rw [hk] at hk' <;> cases hk'
    · rcases h2 with h2 | ⟨hk', h2⟩ | ⟨_, h2⟩
      · rw [h2]; rcases hk with hk | hk <;> simp only [hk, h1]
      · rcases hk with hk | hk <;> rcases hk' with hk' | hk' <;> rw [hk] at hk' <;> cases hk'
      · rcases hk with hk | hk <;> simp only [hk, h1, h2]
  · obtain ⟨h1, h2⟩ := hpay ho
    have hb : (info.oneOfName != "") = true := by simpa using ho
    simp only [hb, if_true, h1, h2]

theorem ValNf.symm {info : FieldInfo} {x x' : GoVal} (h : ValNf info x x') : ValNf info x' x := by
  rcases h with h | ⟨hk, h⟩ | ⟨hk, h⟩
  · exact Or.inl h.symm
  · exact Or.inr (Or.inl ⟨hk, h.symm⟩)
  · exact Or.inr (Or.inr ⟨hk, h.symm⟩)

/-- the zero value and the reset value of a field are the same in normal form -/
theorem valNf_zero (info : FieldInfo) (hk : info.kind ≠ .custom) : ValNf info (zeroGoOf info) (zeroWrite info) := by
  cases hkind : info.kind with
  | custom => exact absurd hkind hk
  | primitive => exact Or.inl (by simp [zeroGoOf, zeroWrite, zeroPrim, hkind])
  | object => exact Or.inl (by simp [zeroGoOf, zeroWrite, hkind])
  | primitiveList => exact Or.inr (Or.inl ⟨Or.inl hkind, by simp [zeroGoOf, zeroWrite, hkind, sliceElems]⟩)
  | objectList => exact Or.inr (Or.inl ⟨Or.inr hkind, by simp [zeroGoOf, zeroWrite, hkind, sliceElems]⟩)
  | primitiveMap => exact Or.inr (Or.inr ⟨Or.inl hkind, by simp [zeroGoOf, zeroWrite, hkind, mapElems]⟩)
  | objectMap => exact Or.inr (Or.inr ⟨Or.inr hkind, by simp [zeroGoOf, zeroWrite, hkind, mapElems]⟩)

/-- "distinct Go field names": a child of a nullable embedded message is determined by its parent and its name; the
pointer to a nullable embedded message is not the Go name of a field (nor of a oneof holder) of the message itself -/
def NamesOK (fs : List Field) : Prop :=
  (∀ f ∈ fs, ∀ g ∈ fs, f.info.parentIsOptionalEmbed = true → g.info.parentIsOptionalEmbed = true →
    f.info.parentIsOptionalEmbedFieldName = g.info.parentIsOptionalEmbedFieldName → f.info.name = g.info.name →
    f.info = g.info) ∧
  (∀ f ∈ fs, f.info.parentIsOptionalEmbed = false → f.info.oneOfName = "" → ¬ EmbedPar fs f.info.name) ∧
  (∀ f ∈ fs, f.info.oneOfName ≠ "" → ¬ EmbedPar fs f.info.oneOfName)

theorem field?_eq_of_not_par {fs : List Field} {o o' : GoVal} (h : ObjNfRel fs o o') (k : String) (hk : ¬ EmbedPar fs k) :
    o.field? k = o'.field? k := by
  rcases h.2.2 k with e | ⟨hp, _⟩
  · exact e
  · exact absurd hp hk

/-- related targets give every field of the list values that its normal form does not distinguish -/
theorem getVal_valNf {fs : List Field} (hn : NamesOK fs) (g : Field) (hg : g ∈ fs) (ho : g.info.oneOfName = "")
    {o o' : GoVal} (h : ObjNfRel fs o o') : ValNf g.info (getVal g.info o) (getVal g.info o') := by
  by_cases he : g.info.parentIsOptionalEmbed = true
  · rw [getVal_embed g.info o he, getVal_embed g.info o' he]
    rcases h.2.2 g.info.parentIsOptionalEmbedFieldName with e | ⟨_, s, s', e1, e2, _, _, hf⟩
    · rw [cfield_congr _ _ o' o e]; exact Or.inl rfl
    · have c1 : cfield g.info.parentIsOptionalEmbedFieldName g.info.name o = s.field? g.info.name := by
        unfold cfield; rw [e1]
      have c2 : cfield g.info.parentIsOptionalEmbedFieldName g.info.name o' = s'.field? g.info.name := by
        unfold cfield; rw [e2]
      rw [c1, c2]
      -- an absent / reset field reads as the zero value or as the reset value of `g`
      have hz : ∀ x : Option GoVal, ZOpt (ZrOf fs) g.info.parentIsOptionalEmbedFieldName g.info.name x →
          x.getD (zeroGoOf g.info) = zeroGoOf g.info ∨ (g.info.kind ≠ .custom ∧ x.getD (zeroGoOf g.info) = zeroWrite g.info) := by
        intro x hx
        rcases hx with hx | ⟨v, hx, c, hc, hce, hck, hcp, hcn, hv⟩
        · subst hx; exact Or.inl rfl
        · have : c.info = g.info := hn.1 c hc g hg hce he hcp hcn
          subst hx
          rw [this] at hck hv
          exact Or.inr ⟨hck, hv⟩
      rcases hf g.info.name with e | ⟨z1, z2⟩
      · rw [e]; exact Or.inl rfl
      · rcases hz _ z1 with a1 | ⟨k1, a1⟩ <;> rcases hz _ z2 with a2 | ⟨k2, a2⟩ <;> rw [a1, a2]
        · exact Or.inl rfl
        · exact valNf_zero g.info k2
        · exact (valNf_zero g.info k1).symm
        · exact Or.inl rfl
  · have he' : g.info.parentIsOptionalEmbed = false := by simpa using he
    have e := field?_eq_of_not_par h g.info.name (hn.2.1 g hg he' ho)
    have hb : (g.info.oneOfName != "") = false := by simp [ho]
    unfold getVal
    simp only [he', Bool.false_eq_true, if_false, hb, e]
    exact Or.inl rfl

theorem activePayload_eq {fs : List Field} (hn : NamesOK fs) (g : Field) (hg : g ∈ fs) (ho : g.info.oneOfName ≠ "")
    {o o' : GoVal} (h : ObjNfRel fs o o') : activePayload g.info o = activePayload g.info o' := by
  unfold activePayload
  rw [field?_eq_of_not_par h g.info.oneOfName (hn.2.2 g hg ho)]

theorem nfEqFields_cons (f : Field) (rest : List Field) (a b : GoVal) :
    nfEqFields (f :: rest) a b = (nfEqField f a b && nfEqFields rest a b) := by
  rw [nfEqFields]

/-- **the normal form of the property (`Spec.nfEqFields`) does not distinguish related targets** -/
theorem nfEqFields_congr {fs : List Field} (hn : NamesOK fs) {o o' b b' : GoVal} (h : ObjNfRel fs o o')
    (h' : ObjNfRel fs b b') : ∀ (gs : List Field), (∀ g ∈ gs, g ∈ fs) → nfEqFields gs o b = nfEqFields gs o' b'
  | [], _ => by simp [nfEqFields]
  | g :: rest, hsub => by
    rw [nfEqFields_cons, nfEqFields_cons, nfEqFields_congr hn h h' rest (fun x hx => hsub x (by simp [hx]))]
    have hg : g ∈ fs := hsub g (by simp)
    have : nfEqField g o b = nfEqField g o' b' := by
      obtain ⟨info, mv, msg, sub⟩ := g
      exact nfEqField_congr info mv msg sub o o' b b'
        (fun ho => ⟨activePayload_eq hn _ hg ho h, activePayload_eq hn _ hg ho h'⟩)
        (fun ho => ⟨getVal_valNf hn _ hg ho h, getVal_valNf hn _ hg ho h'⟩)
    rw [this]

/-- **(2), in terms of `Spec.nfEqFields`**: under the hypotheses of `copyFromFields_perm_siblings` and `NamesOK fs`, if the
result of one order is well-shaped (equal to itself in normal form), the results of the two orders are
`nfEqFields`-equal (in both directions; so the other result is well-shaped too) -/
theorem copyFromFields_perm_siblings_nfEq (ov : List (String × String)) (attrs : Option (List (String × TfVal)))
    {fs' fs : List Field} (hp : fs'.Perm fs) (hind : fs.Pairwise (Compat attrs)) (hn : NamesOK fs) (st : FromSt)
    (hst : IsStruct st.obj) (s' s : FromSt) (e' : copyFromFields ov fs' attrs st = .ok s')
    (e : copyFromFields ov fs attrs st = .ok s) (hself : nfEqFields fs s.obj s.obj = true) :
    nfEqFields fs s'.obj s.obj = true ∧ nfEqFields fs s.obj s'.obj = true ∧ nfEqFields fs s'.obj s'.obj = true ∧
      s'.diags.Perm s.diags ∧ s'.hooks.Perm s.hooks := by
  obtain ⟨hrel, hd, hh⟩ := (copyFromFields_perm_siblings ov attrs hp hind st hst).2 s' s e' e
  have hr := ObjNfRel.refl fs s.obj hrel.2.1
  refine ⟨?_, ?_, ?_, hd, hh⟩
  · rw [nfEqFields_congr hn hrel hr fs (fun _ h => h)]; exact hself
  · rw [nfEqFields_congr hn hr hrel fs (fun _ h => h)]; exact hself
  · rw [nfEqFields_congr hn hrel hrel fs (fun _ h => h)]; exact hself

/-- **C15, `Copy<T>FromTerraform`, siblings included (part 3)**: two messages with the same `MsgInfo` whose field lists
are permutations of each other; blocks pairwise on disjoint key sets or siblings; target a struct. -/
theorem copyFrom_perm_siblings (ov : List (String × String)) (m' m : Msg) (hp : m'.fields.Perm m.fields)
    (hinfo : m'.info = m.info) (tf : TfVal) (obj : GoVal) (hobj : IsStruct obj)
    (hind : ∀ u n attrs atys, tf = .obj u n attrs atys → m.fields.Pairwise (Compat attrs)) :
    ((∃ r', copyFrom ov m' tf obj = .ok r') ↔ (∃ r, copyFrom ov m tf obj = .ok r)) ∧
    ∀ r' r, copyFrom ov m' tf obj = .ok r' → copyFrom ov m tf obj = .ok r →
      ObjNfRel m.fields r'.obj r.obj ∧ r'.diags.Perm r.diags ∧ r'.hooks.Perm r.hooks ∧
      (NamesOK m.fields → nfEqFields m.fields r.obj r.obj = true →
        nfEqFields m.fields r'.obj r.obj = true ∧ nfEqFields m.fields r.obj r'.obj = true) := by
  unfold copyFrom
  cases tf with
  | obj u n attrs atys =>
    simp only [hinfo]
    obtain ⟨hiff, hres⟩ := copyFromFields_perm_siblings ov attrs hp (hind u n attrs atys rfl)
      { obj := resetOneOfs m.info.oneOfNames obj } (isStruct_resetOneOfs _ _ hobj)
    cases h' : copyFromFields ov m'.fields attrs { obj := resetOneOfs m.info.oneOfNames obj } with
    | ok s' =>
      obtain ⟨s, hs⟩ := hiff.mp ⟨s', h'⟩
      rw [hs]
      refine ⟨⟨fun _ => ⟨_, rfl⟩, fun _ => ⟨_, rfl⟩⟩, fun r' r e' e => ?_⟩
      injection e' with e'
      injection e with e
      subst e' e
      obtain ⟨hrel, hd, hh⟩ := hres s' s h' hs
      refine ⟨hrel, hd, hh, fun hn hself => ?_⟩
      have hr := ObjNfRel.refl m.fields s.obj hrel.2.1
      constructor
      · show nfEqFields m.fields s'.obj s.obj = true
        rw [nfEqFields_congr hn hrel hr m.fields (fun _ h => h)]; exact hself
      · show nfEqFields m.fields s.obj s'.obj = true
        rw [nfEqFields_congr hn hr hrel m.fields (fun _ h => h)]; exact hself
    | panic w =>
      have hno : ¬ ∃ s, copyFromFields ov m.fields attrs { obj := resetOneOfs m.info.oneOfNames obj } = .ok s :=
        fun hx => by obtain ⟨s', hs'⟩ := hiff.mpr hx; rw [h'] at hs'; cases hs'
      cases h : copyFromFields ov m.fields attrs { obj := resetOneOfs m.info.oneOfNames obj } with
      | ok s => exact absurd ⟨s, h⟩ hno
      | panic w2 => simp
      | stuck w2 => simp
    | stuck w =>
      have hno : ¬ ∃ s, copyFromFields ov m.fields attrs { obj := resetOneOfs m.info.oneOfNames obj } = .ok s :=
        fun hx => by obtain ⟨s', hs'⟩ := hiff.mpr hx; rw [h'] at hs'; cases hs'
      cases h : copyFromFields ov m.fields attrs { obj := resetOneOfs m.info.oneOfNames obj } with
      | ok s => exact absurd ⟨s, h⟩ hno
      | panic w2 => simp
      | stuck w2 => simp
  | prim _ _ _ _ => simp
  | list _ _ _ _ => simp
  | map _ _ _ _ => simp
  | nilv => simp
  | foreign _ => simp

-- ------------------------------------------------------------------------------------------------------
-- 16. witnesses

namespace SiblingEx

def tyS : String := "github.com/hashicorp/terraform-plugin-framework/types.String"
def tyL : String := "github.com/hashicorp/terraform-plugin-framework/types.List"

/-- a plain string `S` of the message itself -/
def fS : Field := { info :=
  { name := "S", nameSnake := "s", kind := .primitive, protoType := "string",
    tf := { valueType := tyS, elemValueType := tyS, valueCastToType := "string", valueCastFromType := "string", zeroValue := "\"\"" } } }
/-- string child `A` of the nullable embedded message `E` -/
def fA : Field := { info :=
  { name := "A", nameSnake := "a", kind := .primitive, protoType := "string",
    parentIsOptionalEmbed := true, parentIsOptionalEmbedFieldName := "E",
    tf := { valueType := tyS, elemValueType := tyS, valueCastToType := "string", valueCastFromType := "string", zeroValue := "\"\"" } } }
/-- `repeated string` child `L` of the nullable embedded message `E` -/
def fL : Field := { info :=
  { name := "L", nameSnake := "l", kind := .primitiveList, protoType := "string", isRepeated := true,
    parentIsOptionalEmbed := true, parentIsOptionalEmbedFieldName := "E",
    tf := { valueType := tyL, elemValueType := tyS, valueCastToType := "string", valueCastFromType := "string" } } }
/-- an ill-typed child of `E`: a message field whose block asserts `types.List` -/
def fBad : Field := { info :=
  { name := "B", nameSnake := "b", kind := .object, parentIsOptionalEmbed := true, parentIsOptionalEmbedFieldName := "E",
    tf := { valueType := tyL } } }

/-- `s` = "hi", `a` = "x", `l` null, `b` a null list -/
def exAttrs : Option (List (String × TfVal)) :=
  some [("s", .prim .string false false (.str [104, 105])), ("a", .prim .string false false (.str [120])),
    ("l", .list false true none (some (.prim .string))), ("b", .list false true none (some (.prim .string)))]

end SiblingEx

open SiblingEx in
/-- **(3) literal equality fails**: `A` (known) and `L` (null) are children of the nil embedded message `E`.  In the
declaration order `A, L` the block of `A` allocates `E` and the block of `L` then resets `E.L` to an EMPTY slice; in the
order `L, A` the block of `L` finds `E` nil and does nothing, so `E.L` stays NIL (absent).  The two results differ
literally and are equal in the normal form of the property (`Spec.nfEqFields`). -/
theorem siblings_literal_differs :
    (match copyFromFields [] [fA, fL] exAttrs { obj := .struct [] }, copyFromFields [] [fL, fA] exAttrs { obj := .struct [] } with
     | .ok s1, .ok s2 =>
       (match s1.obj, s2.obj with
        | .struct [(e1, .ptr (some (.struct [(a1, .sc (.str x1)), (l1, .slice (some []))])))],
          .struct [(e2, .ptr (some (.struct [(a2, .sc (.str x2))])))] =>
            e1 == "E" && a1 == "A" && l1 == "L" && x1 == [120] && e2 == "E" && a2 == "A" && x2 == [120]
        | _, _ => false) &&
       nfEqFields [fA, fL] s1.obj s2.obj && nfEqFields [fA, fL] s1.obj s1.obj &&
       s1.diags.isEmpty && s2.diags.isEmpty
     | _, _ => false) = true := by
  decide

theorem touches_plainchild (c : FieldInfo) (he : c.parentIsOptionalEmbed = true) (ho : c.oneOfName = "") : TouchesParent c :=
  ⟨he, fun h => h.1 ho⟩

theorem goodChild_plain (attrs : Option (List (String × TfVal))) (c : FieldInfo) (he : c.parentIsOptionalEmbed = true)
    (ho : c.oneOfName = "") (hs : ShapeOK c) : GoodChild attrs c :=
  ⟨touches_plainchild c he ho, fits_of_shapeOK attrs c hs, fun hb => absurd ho hb.1⟩

open SiblingEx in
theorem ex_sibling : Sibling exAttrs fA fL := by
  refine ⟨goodChild_plain _ _ rfl rfl ⟨.string, by decide⟩, goodChild_plain _ _ rfl rfl (by show vkindOf tyL = .list; decide), rfl, by decide, ?_⟩
  intro k hk
  rw [xkeys_nonbranch exAttrs fA.info (fun hb => hb.1 rfl)] at hk
  simp at hk

open SiblingEx in
theorem ex_compat : [fS, fA, fL].Pairwise (Compat exAttrs) := by
  refine List.pairwise_cons.mpr ⟨fun g hg => ?_, List.pairwise_cons.mpr ⟨fun g hg => ?_, List.pairwise_cons.mpr ⟨by simp, List.Pairwise.nil⟩⟩⟩
  · simp only [List.mem_cons, List.not_mem_nil, or_false] at hg
    rcases hg with rfl | rfl
    · exact Or.inl (indepFull_of_touch _ _ _ (by decide))
    · exact Or.inl (indepFull_of_touch _ _ _ (by decide))
  · simp only [List.mem_cons, List.not_mem_nil, or_false] at hg
    subst hg
    exact Or.inr ex_sibling

open SiblingEx in
theorem ex_names : NamesOK [fS, fA, fL] := by
  refine ⟨?_, ?_, ?_⟩
  · intro f hf g hg
    simp only [List.mem_cons, List.not_mem_nil, or_false] at hf hg
    rcases hf with rfl | rfl | rfl <;> rcases hg with rfl | rfl | rfl <;> intro h1 h2 h3 h4 <;>
      first | rfl | (exact absurd h1 (by decide)) | (exact absurd h2 (by decide)) | (exact absurd h4 (by decide))
  · intro f hf he ho
    simp only [List.mem_cons, List.not_mem_nil, or_false] at hf
    rcases hf with rfl | rfl | rfl
    · rintro ⟨g, hg, h1, h2⟩
      simp only [List.mem_cons, List.not_mem_nil, or_false] at hg
      rcases hg with rfl | rfl | rfl
      · exact absurd h1 (by decide)
      · exact absurd h2 (by decide)
      · exact absurd h2 (by decide)
    · exact absurd he (by decide)
    · exact absurd he (by decide)
  · intro f hf ho
    simp only [List.mem_cons, List.not_mem_nil, or_false] at hf
    rcases hf with rfl | rfl | rfl <;> exact absurd rfl ho

open SiblingEx in
/-- **non-vacuity**: the hypotheses of `copyFromFields_perm_siblings` / `…_nfEq` hold for the message `S, A, L` (a plain
field and two siblings under `E`) and the permutation `L, S, A`; both orders run, and the theorem gives
`nfEqFields`-equal results although `E.L` is nil in one and empty in the other (`siblings_literal_differs`). -/
theorem siblings_example :
    ∃ s' s, copyFromFields [] [fL, fS, fA] exAttrs { obj := .struct [] } = .ok s' ∧
      copyFromFields [] [fS, fA, fL] exAttrs { obj := .struct [] } = .ok s ∧
      ObjNfRel [fS, fA, fL] s'.obj s.obj ∧
      nfEqFields [fS, fA, fL] s'.obj s.obj = true ∧ nfEqFields [fS, fA, fL] s.obj s'.obj = true := by
  have hp : [fL, fS, fA].Perm [fS, fA, fL] :=
    (List.Perm.swap fS fL [fA]).trans (List.Perm.cons fS (List.Perm.swap fA fL []))
  have ok' : (match copyFromFields [] [fL, fS, fA] exAttrs { obj := .struct [] } with | .ok _ => true | _ => false) = true := by
    decide
  have ok : (match copyFromFields [] [fS, fA, fL] exAttrs { obj := .struct [] } with
      | .ok s => nfEqFields [fS, fA, fL] s.obj s.obj | _ => false) = true := by decide
  cases e' : copyFromFields [] [fL, fS, fA] exAttrs { obj := .struct [] } with
  | ok s' =>
    cases e : copyFromFields [] [fS, fA, fL] exAttrs { obj := .struct [] } with
    | ok s =>
      have hself : nfEqFields [fS, fA, fL] s.obj s.obj = true := by
        rw [e] at ok
        exact ok
      have h1 := (copyFromFields_perm_siblings [] exAttrs hp ex_compat { obj := .struct [] } trivial).2 s' s e' e
      have h2 := copyFromFields_perm_siblings_nfEq [] exAttrs hp ex_compat ex_names { obj := .struct [] } trivial s' s e' e hself
      exact ⟨s', s, rfl, rfl, h1.1, h2.1, h2.2.1⟩
    | panic w => rw [e] at ok; cases ok
    | stuck w => rw [e] at ok; cases ok
  | panic w => rw [e'] at ok'; cases ok'
  | stuck w => rw [e'] at ok'; cases ok'

open SiblingEx in
/-- **`Fits` is needed**: the ill-typed sibling `B` (a message field whose block asserts a list value) with a null
attribute is skipped while `E` is nil and is stuck once `E` is allocated – whether the blocks succeed depends on the order -/
theorem siblings_need_fits :
    (match copyFromFields [] [fBad, fA] exAttrs { obj := .struct [] }, copyFromFields [] [fA, fBad] exAttrs { obj := .struct [] } with
     | .ok _, .stuck _ => true
     | _, _ => false) = true := by
  decide

/-- two children of the same nullable embedded message, not in a oneof, with different Go names and well-shaped
Terraform types (`ShapeOK`), are siblings – for every attribute map -/
theorem sibling_of_shapeOK (attrs : Option (List (String × TfVal))) (f g : Field)
    (hf : f.info.parentIsOptionalEmbed = true) (hg : g.info.parentIsOptionalEmbed = true)
    (hof : f.info.oneOfName = "") (hog : g.info.oneOfName = "") (hsf : ShapeOK f.info) (hsg : ShapeOK g.info)
    (hp : f.info.parentIsOptionalEmbedFieldName = g.info.parentIsOptionalEmbedFieldName)
    (hne : f.info.name ≠ g.info.name) : Sibling attrs f g := by
  refine ⟨goodChild_plain _ _ hf hof hsf, goodChild_plain _ _ hg hog hsg, hp, hne, ?_⟩
  intro k hk
  rw [xkeys_nonbranch attrs f.info (fun hb => hb.1 hof)] at hk
  simp at hk

namespace SiblingEx
/-- `a` null, `l` = ["y"] -/
def exAttrs2 : Option (List (String × TfVal)) :=
  some [("a", .prim .string false true (.str [])),
    ("l", .list false false (some [.prim .string false false (.str [121])]) (some (.prim .string)))]
end SiblingEx

open SiblingEx in
/-- the same for a scalar child: `L` (known) allocates `E`; the null `A` after it writes the zero value `""` into `E.A`,
before it `E.A` stays absent -/
theorem siblings_literal_differs_scalar :
    (match copyFromFields [] [fL, fA] exAttrs2 { obj := .struct [] }, copyFromFields [] [fA, fL] exAttrs2 { obj := .struct [] } with
     | .ok s1, .ok s2 =>
       (match s1.obj, s2.obj with
        | .struct [(e1, .ptr (some (.struct [(l1, .slice (some [.sc (.str y1)])), (a1, .sc (.str x1))])))],
          .struct [(e2, .ptr (some (.struct [(l2, .slice (some [.sc (.str y2)]))])))] =>
            e1 == "E" && a1 == "A" && l1 == "L" && x1 == [] && y1 == [121] && e2 == "E" && l2 == "L" && y2 == [121]
        | _, _ => false) &&
       nfEqFields [fA, fL] s1.obj s2.obj && s1.diags.isEmpty && s2.diags.isEmpty
     | _, _ => false) = true := by
  decide

/-- the statement of `copyFromFields_perm_siblings_nfEq` WITHOUT the hypothesis that one result is well-shaped -/
def copyFromFields_perm_siblings_nfEq_full : Prop :=
  ∀ (ov : List (String × String)) (attrs : Option (List (String × TfVal))) (fs' fs : List Field), fs'.Perm fs →
    fs.Pairwise (Compat attrs) → NamesOK fs → ∀ (st : FromSt), IsStruct st.obj → ∀ s' s,
    copyFromFields ov fs' attrs st = .ok s' → copyFromFields ov fs attrs st = .ok s →
    nfEqFields fs s'.obj s.obj = true

open SiblingEx in
/-- … is false: `Spec.nfEqFields` is not reflexive on ill-shaped structs (here: a slice left in the string field `S` of
the target by the caller, the attribute missing), already for the identity permutation of a one-field message.  So the
hypothesis `nfEqFields fs s.obj s.obj = true` of `copyFromFields_perm_siblings_nfEq` cannot be dropped; the unconditional
statement is `copyFromFields_perm_siblings` (relation `ObjNfRel`). -/
theorem nfEq_needs_wellshaped : ¬ copyFromFields_perm_siblings_nfEq_full := by
  intro h
  have hn : NamesOK [fS] := by
    refine ⟨?_, ?_, ?_⟩
    · intro f hf g hg
      simp only [List.mem_singleton] at hf hg
      subst hf hg
      intros; rfl
    · intro f hf _ _
      simp only [List.mem_singleton] at hf
      subst hf
      rintro ⟨g, hg, h1, _⟩
      simp only [List.mem_singleton] at hg
      subst hg
      exact absurd h1 (by decide)
    · intro f hf ho
      simp only [List.mem_singleton] at hf
      subst hf
      exact absurd rfl ho
  have hrun : (match copyFromFields [] [fS] none { obj := .struct [("S", .slice none)] } with
      | .ok s => !nfEqFields [fS] s.obj s.obj | _ => false) = true := by decide
  cases e : copyFromFields [] [fS] none { obj := .struct [("S", .slice none)] } with
  | ok s =>
    have := h [] none [fS] [fS] (List.Perm.refl _) (List.pairwise_singleton _ _) hn
      { obj := .struct [("S", .slice none)] } trivial s s e e
    rw [e] at hrun
    simp only [this] at hrun
    cases hrun
  | panic w => rw [e] at hrun; cases hrun
  | stuck w => rw [e] at hrun; cases hrun

end OrderIndep
end PGT

#print axioms PGT.OrderIndep.psem_swap
#print axioms PGT.OrderIndep.child_psem
#print axioms PGT.OrderIndep.blockF_siblings_swap
#print axioms PGT.OrderIndep.blockF_siblings_commute
#print axioms PGT.OrderIndep.copyFromFields_perm_siblings
#print axioms PGT.OrderIndep.nfEqFields_congr
#print axioms PGT.OrderIndep.copyFromFields_perm_siblings_nfEq
#print axioms PGT.OrderIndep.copyFrom_perm_siblings
#print axioms PGT.OrderIndep.siblings_literal_differs
#print axioms PGT.OrderIndep.siblings_literal_differs_scalar
#print axioms PGT.OrderIndep.siblings_example
#print axioms PGT.OrderIndep.siblings_need_fits
#print axioms PGT.OrderIndep.nfEq_needs_wellshaped
