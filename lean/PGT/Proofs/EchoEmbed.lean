import PGT.Proofs.Echo
import PGT.Proofs.RoundTripEmbed
/-
C08 (apply echo) for CHILDREN OF NULLABLE EMBEDDED MESSAGES and for CUSTOM-TYPE fields: decode a plan, encode the struct back
INTO the same plan, decode again (`C08_echo_embed`, conclusion exactly as in `C08_echo` of PGT/Proofs/Echo.lean).

The judgement `PlanOKE` extends `PlanOK` (PGT/Proofs/EchoDecode.lean) by
 (a) children of a nullable embedded message, of every kind (scalar, message, list, map): the child's own judgement is the one
     of its kind (`PlanOK` of the same field without the flag), no relation between the children of one parent is needed;
 (b) custom-type fields (children of a nullable embedded message or not): the attribute is skipped by `echoKeeps`, or it is a
     string / list the hooks of the harness accept (`CustomPlan`);
 (c) nested messages whose own fields include (a), (b), (c) – recursively, at every depth reached through singular message
     fields.

Structure of the proof:
 A. sequencing. `Blk` / `Fin` describe what one CopyFrom block does to the target struct (plain field: the Go field is
    assigned; child of an embedded message: the field of the embedded struct is assigned, or nothing happens) and what the
    struct holds afterwards; `seqFrom` runs all blocks of a message (after `fromFields_reads3`, PGT/Proofs/RoundTripEmbed.lean);
    `seqTo` runs all CopyTo blocks. `FieldEcho` is the echo of one field, stated semantically; `bundle_of` composes the
    `FieldEcho`s of the fields of a message into the echo of the message (`Bundle`).
 B. `FieldEcho` by template: `fieldEcho_plain` (from `decField` / `echoField`), `fieldEcho_custom`, `fieldEcho_prim_embed`,
    `fieldEcho_nonprim_embed` (the CopyTo block of a message / list / map child runs like the block of the same field without
    the flag: `copyToField_unembed`), `fieldEcho_object` (nested message, from the `Bundle` of its fields).
 C. the judgement, the induction over the IR (`planOKE_fieldEcho` / `planOKEs_bundle`), the whole-object theorems
    `C08_echo_embed` / `C08_echo_embed_check`, what remains open (`echo_embed_full`), and the non-vacuity examples.
-/
namespace PGT
open PGT.Spec PGT.Props

-- ------------------------------------------------------------------------------------------------------
-- A. sequencing of field blocks

/-- the parent pointer `P` of the target is nil (absent) or points to a struct -/
def PShapeP (P : String) (o : GoVal) : Prop :=
  o.field? P = none ∨ ∃ s, o.field? P = some (.ptr (some s)) ∧ IsStruct s

def PShape (c : FieldInfo) (o : GoVal) : Prop :=
  c.parentIsOptionalEmbed = true → PShapeP c.parentIsOptionalEmbedFieldName o

theorem parentWF_of_pshape (P : String) (o : GoVal) (h : PShapeP P o) : ParentWF P o := by
  intro s hs
  rcases h with h | ⟨s', h, hs'⟩
  · rw [h] at hs; cases hs
  · rw [h] at hs
    injection hs with hs
    injection hs with hs
    injection hs with hs
    subst hs
    exact hs'

theorem pshapeP_congr (P : String) (o o' : GoVal) (h : o'.field? P = o.field? P) (hp : PShapeP P o) : PShapeP P o' := by
  unfold PShapeP
  rw [h]
  exact hp

theorem pshapeP_embedSet (P n : String) (o y : GoVal) (hs : IsStruct o) (hp : PShapeP P o) : PShapeP P (embedSet P n o y) := by
  right
  exact ⟨_, field?_embedSet_same P n o y hs, isStruct_setField _ _ _ (isStruct_innerOf P o (parentWF_of_pshape P o hp))⟩

/-- the state of field `c` in a decoded struct: for a child of a nullable embedded message the field of the embedded struct
was never assigned (`Qn`) or holds `y` (`Qs y`); otherwise the Go field holds `y` -/
def Fin (c : FieldInfo) (Qn : Prop) (Qs : GoVal → Prop) (o : GoVal) : Prop :=
  (c.parentIsOptionalEmbed = false → ∃ y, o.field? c.name = some y ∧ Qs y) ∧
  (c.parentIsOptionalEmbed = true →
    (cfield c.parentIsOptionalEmbedFieldName c.name o = none ∧ Qn) ∨
      ∃ y, cfield c.parentIsOptionalEmbedFieldName c.name o = some y ∧ Qs y)

/-- the field block of `f` in CopyFrom: it assigns the field (`Qs`), or – child of a nullable embedded message whose
pointer is nil, attribute not known – does nothing (`Qn`); no diagnostic -/
def Blk (ov : List (String × String)) (f : Field) (attrs : Option (List (String × TfVal))) (Qn : Prop) (Qs : GoVal → Prop) : Prop :=
  ∀ st : FromSt, IsStruct st.obj → PShape f.info st.obj →
    (f.info.parentIsOptionalEmbed = false ∧ WritesField3 f.info st (copyFromField ov f attrs st) Qs) ∨
    (f.info.parentIsOptionalEmbed = true ∧
      ((copyFromField ov f attrs st = .ok st ∧ cfield f.info.parentIsOptionalEmbedFieldName f.info.name st.obj = none ∧ Qn) ∨
       ∃ y hs', copyFromField ov f attrs st =
          .ok { obj := embedSet f.info.parentIsOptionalEmbedFieldName f.info.name st.obj y, diags := st.diags, hooks := hs' } ∧ Qs y))

def SepAll : List Field → Prop
  | [] => True
  | f :: rest => (∀ g ∈ rest, SepOK3 f.info g.info) ∧ SepAll rest

theorem sepAll_plain_embed : ∀ (fs : List Field), SepAll fs → ∀ f ∈ fs, ∀ g ∈ fs,
    f.info.parentIsOptionalEmbed = false → g.info.parentIsOptionalEmbed = true → wkey3 f.info ≠ wkey3 g.info
  | [], _, f, hf, _, _, _, _ => by simp at hf
  | x :: rest, hsep, f, hf, g, hg, hef, heg => by
    unfold SepAll at hsep
    simp only [List.mem_cons] at hf hg
    rcases hf with rfl | hf <;> rcases hg with rfl | hg
    · rw [hef] at heg; cases heg
    · exact sep_not_embed _ _ (hsep.1 g hg) hef heg
    · intro e
      rcases hsep.1 f hf e.symm with h | h
      · rw [heg] at h; exact absurd h.1 (by simp)
      · rw [hef] at h; exact absurd h.2.1 (by simp)
    · exact sepAll_plain_embed rest hsep.2 f hf g hg hef heg

theorem seqFrom (ov : List (String × String)) (attrs : Option (List (String × TfVal)))
    (Post : Field → Prop → (GoVal → Prop) → Prop) :
    ∀ (fs : List Field) (st : FromSt), IsStruct st.obj →
      (∀ f ∈ fs, PShape f.info st.obj) → SepAll fs → (∀ f ∈ fs, f.info.oneOfName = "") →
      (∀ f ∈ fs, f.info.isPlaceholder = false → ∃ Qn Qs, Blk ov f attrs Qn Qs ∧ Post f Qn Qs) →
      ∃ o hs', copyFromFields ov fs attrs st = .ok { obj := o, diags := st.diags, hooks := hs' } ∧ IsStruct o ∧
        (∀ f ∈ fs, f.info.isPlaceholder = false → ∃ Qn Qs, Fin f.info Qn Qs o ∧ Post f Qn Qs) ∧
        (∀ key, (∀ f ∈ fs, key ≠ wkey3 f.info) → o.field? key = st.obj.field? key) ∧
        (∀ P n, (∀ f ∈ fs, wkey3 f.info = P → f.info.parentIsOptionalEmbed = true ∧ f.info.name ≠ n) →
          cfield P n o = cfield P n st.obj) ∧
        (∀ P, (∀ f ∈ fs, f.info.parentIsOptionalEmbed = false → wkey3 f.info ≠ P) → PShapeP P st.obj → PShapeP P o)
  | [], st, hs, _, _, _, _ =>
    ⟨st.obj, st.hooks, by simp [copyFromFields], hs, by simp, by simp, by simp, fun _ _ h => h⟩
  | f :: rest, st, hs, hpw, hsep, hone, hblk => by
    unfold SepAll at hsep
    obtain ⟨hsepf, hseprest⟩ := hsep
    have ho := hone f (by simp)
    simp only [copyFromFields]
    by_cases hph : f.info.isPlaceholder = true
    · simp only [hph, if_true]
      obtain ⟨o, hs', hrun, hso, hall, hframe, hcf, hps⟩ := seqFrom ov attrs Post rest st hs
        (fun g hg => hpw g (by simp [hg])) hseprest (fun g hg => hone g (by simp [hg]))
        (fun g hg => hblk g (by simp [hg]))
      refine ⟨o, hs', hrun, hso, ?_, ?_, ?_, ?_⟩
      · intro g hg hgp
        simp only [List.mem_cons] at hg
        rcases hg with rfl | hg
        · rw [hph] at hgp; cases hgp
        · exact hall g hg hgp
      · intro key hkey
        exact hframe key (fun g hg => hkey g (by simp [hg]))
      · intro P n hPn
        exact hcf P n (fun g hg => hPn g (by simp [hg]))
      · intro P hP
        exact hps P (fun g hg => hP g (by simp [hg]))
    · have hph' : f.info.isPlaceholder = false := by simpa using hph
      simp only [hph', Bool.false_eq_true, if_false]
      obtain ⟨Qn, Qs, hb, hpost⟩ := hblk f (by simp) hph'
      rcases hb st hs (hpw f (by simp)) with ⟨he, y, hs1, hrun, hq⟩ | ⟨he, hE⟩
      · -- a plain field
        have wf := wkey3_plain f.info he ho
        simp only [hrun]
        have hpw1 : ∀ g ∈ rest, PShape g.info (st.obj.setField f.info.name y) := by
          intro g hg heg
          refine pshapeP_congr _ _ _ (field?_setField_other _ _ _ _ ?_) (hpw g (by simp [hg]) heg)
          have := sep_not_embed _ _ (hsepf g hg) he heg
          rw [wf, wkey3_embed _ heg] at this
          exact fun e => this e.symm
        obtain ⟨o, hs', hrun2, hso, hall, hframe, hcf, hps⟩ := seqFrom ov attrs Post rest
          { obj := st.obj.setField f.info.name y, diags := st.diags, hooks := hs1 }
          (isStruct_setField _ _ _ hs) hpw1 hseprest (fun g hg => hone g (by simp [hg]))
          (fun g hg => hblk g (by simp [hg]))
        refine ⟨o, hs', hrun2, hso, ?_, ?_, ?_, ?_⟩
        · intro g hg hgp
          simp only [List.mem_cons] at hg
          rcases hg with rfl | hg
          · refine ⟨Qn, Qs, ⟨fun _ => ⟨y, ?_, hq⟩, fun h => by rw [he] at h; cases h⟩, hpost⟩
            rw [hframe g.info.name (fun g' hg' => by
                have := sep_plain _ _ (hsepf g' hg') he ho
                rw [wf] at this
                exact this), field?_setField_same _ _ _ hs]
          · exact hall g hg hgp
        · intro key hkey
          rw [hframe key (fun g hg => hkey g (by simp [hg]))]
          have := hkey f (by simp)
          rw [wf] at this
          exact field?_setField_other _ _ _ _ this
        · intro P n hPn
          rw [hcf P n (fun g hg => hPn g (by simp [hg]))]
          apply cfield_congr
          refine field?_setField_other _ _ _ _ (fun e => ?_)
          have := (hPn f (by simp) (by rw [wf, e])).1
          rw [he] at this
          cases this
        · intro P hP hsh
          refine hps P (fun g hg => hP g (by simp [hg])) ?_
          refine pshapeP_congr _ _ _ (field?_setField_other _ _ _ _ ?_) hsh
          have := hP f (by simp) he
          rw [wf] at this
          exact fun e => this e.symm
      · -- a child of a nullable embedded message
        have wf := wkey3_embed f.info he
        have hpsf := hpw f (by simp) he
        have hpwf := parentWF_of_pshape _ _ hpsf
        have hsame : ∀ g ∈ rest, wkey3 g.info = f.info.parentIsOptionalEmbedFieldName →
            g.info.parentIsOptionalEmbed = true ∧ g.info.name ≠ f.info.name :=
          fun g hg e => sep_embed _ _ (hsepf g hg) he e
        rcases hE with ⟨hrun, hcn, hq⟩ | ⟨y, hs1, hrun, hq⟩
        · simp only [hrun]
          obtain ⟨o, hs', hrun2, hso, hall, hframe, hcf, hps⟩ := seqFrom ov attrs Post rest st hs
            (fun g hg => hpw g (by simp [hg])) hseprest (fun g hg => hone g (by simp [hg]))
            (fun g hg => hblk g (by simp [hg]))
          refine ⟨o, hs', hrun2, hso, ?_, ?_, ?_, ?_⟩
          · intro g hg hgp
            simp only [List.mem_cons] at hg
            rcases hg with rfl | hg
            · refine ⟨Qn, Qs, ⟨(fun h => by rw [he] at h; cases h), fun _ => Or.inl ⟨?_, hq⟩⟩, hpost⟩
              rw [hcf _ _ hsame, hcn]
            · exact hall g hg hgp
          · intro key hkey
            exact hframe key (fun g hg => hkey g (by simp [hg]))
          · intro P n hPn
            exact hcf P n (fun g hg => hPn g (by simp [hg]))
          · intro P hP
            exact hps P (fun g hg => hP g (by simp [hg]))
        · simp only [hrun]
          have hpw1 : ∀ g ∈ rest, PShape g.info
              (embedSet f.info.parentIsOptionalEmbedFieldName f.info.name st.obj y) := by
            intro g hg heg
            by_cases e : g.info.parentIsOptionalEmbedFieldName = f.info.parentIsOptionalEmbedFieldName
            · rw [e]; exact pshapeP_embedSet _ _ _ _ hs hpsf
            · exact pshapeP_congr _ _ _ (field?_embedSet_other _ _ _ _ _ e) (hpw g (by simp [hg]) heg)
          obtain ⟨o, hs', hrun2, hso, hall, hframe, hcf, hps⟩ := seqFrom ov attrs Post rest
            { obj := embedSet f.info.parentIsOptionalEmbedFieldName f.info.name st.obj y, diags := st.diags, hooks := hs1 }
            (isStruct_embedSet _ _ _ _ hs) hpw1 hseprest (fun g hg => hone g (by simp [hg]))
            (fun g hg => hblk g (by simp [hg]))
          refine ⟨o, hs', hrun2, hso, ?_, ?_, ?_, ?_⟩
          · intro g hg hgp
            simp only [List.mem_cons] at hg
            rcases hg with rfl | hg
            · refine ⟨Qn, Qs, ⟨(fun h => by rw [he] at h; cases h), fun _ => Or.inr ⟨y, ?_, hq⟩⟩, hpost⟩
              rw [hcf _ _ hsame, cfield_embedSet_same _ _ _ _ hs hpwf]
            · exact hall g hg hgp
          · intro key hkey
            rw [hframe key (fun g hg => hkey g (by simp [hg]))]
            have := hkey f (by simp)
            rw [wf] at this
            exact field?_embedSet_other _ _ _ _ _ this
          · intro P n hPn
            rw [hcf P n (fun g hg => hPn g (by simp [hg]))]
            by_cases e : P = f.info.parentIsOptionalEmbedFieldName
            · subst e
              have := (hPn f (by simp) wf).2
              exact cfield_embedSet_other _ _ _ _ _ hs (fun e => this e.symm)
            · exact cfield_congr _ _ _ _ (field?_embedSet_other _ _ _ _ _ e)
          · intro P hP hsh
            refine hps P (fun g hg => hP g (by simp [hg])) ?_
            by_cases e : P = f.info.parentIsOptionalEmbedFieldName
            · subst e; exact pshapeP_embedSet _ _ _ _ hs hsh
            · exact pshapeP_congr _ _ _ (field?_embedSet_other _ _ _ _ _ e) hsh


/-- the field block of `f` in CopyTo, on an object that holds `a` in the attribute: it replaces the attribute, no diagnostic -/
def ToBlk (f : Field) (o : GoVal) (atys : List (String × TfTy)) (a : TfVal) (PostV : TfVal → Prop) : Prop :=
  ∀ st : ToSt, st.attrs.lookup f.info.nameSnake = some a →
    ∃ v hs, copyToField f o (some atys) st =
        .ok { attrs := setKey f.info.nameSnake v st.attrs, diags := st.diags, hooks := st.hooks ++ hs } ∧ PostV v

theorem seqTo (o : GoVal) (atys : List (String × TfTy)) (PostV : Field → TfVal → TfVal → Prop) :
    ∀ (fs : List Field) (st : ToSt), (fs.map (·.info.nameSnake)).Nodup →
      (∀ f ∈ fs, ∃ a, st.attrs.lookup f.info.nameSnake = some a ∧ ToBlk f o atys a (PostV f a)) →
      ∃ st', copyToFields fs o (some atys) st = .ok st' ∧ st'.diags = st.diags ∧ (∃ hs, st'.hooks = st.hooks ++ hs) ∧
        st'.attrs.map (·.1) = st.attrs.map (·.1) ∧
        (∀ key, key ∉ fs.map (·.info.nameSnake) → st'.attrs.lookup key = st.attrs.lookup key) ∧
        (∀ f ∈ fs, ∃ a v, st.attrs.lookup f.info.nameSnake = some a ∧ st'.attrs.lookup f.info.nameSnake = some v ∧
          PostV f a v)
  | [], st, _, _ => ⟨st, by simp [copyToFields], rfl, ⟨[], by simp⟩, rfl, by simp, by simp⟩
  | f :: rest, st, hnd, hall => by
    simp only [List.map_cons, List.nodup_cons] at hnd
    obtain ⟨hnS, hndrest⟩ := hnd
    obtain ⟨a, hla, hb⟩ := hall f (by simp)
    obtain ⟨v, hs1, hstep, hev⟩ := hb st hla
    have hne : ∀ g ∈ rest, g.info.nameSnake ≠ f.info.nameSnake := by
      intro g hg e
      exact hnS (by rw [← e]; exact List.mem_map_of_mem hg)
    obtain ⟨st', hrun, hd, ⟨hs2, hh⟩, hkeys, hframe, hall'⟩ := seqTo o atys PostV rest
      { attrs := setKey f.info.nameSnake v st.attrs, diags := st.diags, hooks := st.hooks ++ hs1 } hndrest
      (fun g hg => by
        obtain ⟨a', hla', hb'⟩ := hall g (by simp [hg])
        refine ⟨a', ?_, hb'⟩
        simp only
        rw [lookup_setKey_other _ _ _ (hne g hg)]
        exact hla')
    refine ⟨st', ?_, hd, ⟨hs1 ++ hs2, by simp [hh]⟩, ?_, ?_, ?_⟩
    · simp only [copyToFields, hstep]
      exact hrun
    · rw [hkeys]
      exact keys_setKey_mem _ _ _ (by simp [hla])
    · intro key hkey
      simp only [List.map_cons, List.mem_cons, not_or] at hkey
      rw [hframe key hkey.2]
      exact lookup_setKey_other _ _ _ hkey.1 _
    · intro g hg
      simp only [List.mem_cons] at hg
      rcases hg with rfl | hg
      · refine ⟨a, v, hla, ?_, hev⟩
        rw [hframe _ hnS]
        exact lookup_setKey_same _ _ _
      · obtain ⟨a', v', hla', hlv', hev'⟩ := hall' g hg
        refine ⟨a', v', ?_, hlv', hev'⟩
        simp only at hla'
        rw [lookup_setKey_other _ _ _ (hne g hg)] at hla'
        exact hla'

/-- what the echo of one attribute satisfies, as far as the checks on the attribute map go: nothing unknown at any depth,
and – unless the attribute is named in the skip list of `echoKeeps` – every known planned value kept -/
def EchoW (skN skE : List String) (name : String) (a v : TfVal) : Prop :=
  noUnknownDeep skN v = true ∧ (skE.contains name = true ∨ echoKeeps skE a v = true)

theorem echo_attrsE (X : String → TfVal → Prop) (skN skE : List String)
    (hX : ExtraOK X skN skE) (fs : List Field)
    (A A' : List (String × TfVal)) (hkeys : KeysOK X fs A) (hk' : A'.map (·.1) = A.map (·.1))
    (hframe : ∀ key, key ∉ fs.map (·.info.nameSnake) → A'.lookup key = A.lookup key)
    (hall : ∀ f ∈ fs, ∃ a v, A.lookup f.info.nameSnake = some a ∧ A'.lookup f.info.nameSnake = some v ∧
        EchoW skN skE f.info.nameSnake a v) :
    noUnknownAs skN A' = true ∧ echoKeepsAs skE A A' = true := by
  have hndk : (A'.map (·.1)).Nodup := by rw [hk']; exact hkeys.1
  refine ⟨?_, ?_⟩
  · apply noUnknownAs_of_forall'
    intro kv hkv
    have hl' := lookup_of_mem_nodup A' kv.1 kv.2 hndk hkv
    by_cases hin : kv.1 ∈ fs.map (·.info.nameSnake)
    · obtain ⟨g, hg, hgn⟩ := List.mem_map.mp hin
      obtain ⟨a', v', _, hlv, hev⟩ := hall g hg
      rw [← hgn, hlv] at hl'
      injection hl' with hl'
      subst hl'
      exact Or.inr hev.1
    · rw [hframe kv.1 hin] at hl'
      have hmem := mem_of_lookup _ _ _ hl'
      rcases hkeys.2 (kv.1, kv.2) hmem with h | h
      · exact absurd h hin
      · exact (hX _ _ h).1
  · apply echoKeepsAs_of_forall'
    intro kv hkv
    have hl := lookup_of_mem_nodup A kv.1 kv.2 hkeys.1 hkv
    by_cases hin : kv.1 ∈ fs.map (·.info.nameSnake)
    · obtain ⟨g, hg, hgn⟩ := List.mem_map.mp hin
      obtain ⟨a', v', hla, hlv, hev⟩ := hall g hg
      rw [← hgn] at hl
      rw [hla] at hl
      injection hl with hl
      subst hl
      rcases hev.2 with hc | hk
      · exact Or.inl (by rw [← hgn]; exact hc)
      · exact Or.inr ⟨v', by rw [← hgn]; exact hlv, hk⟩
    · rcases hkeys.2 kv hkv with hin' | hx
      · exact absurd hin' hin
      · rcases (hX _ _ hx).2 with hc | hr
        · exact Or.inl hc
        · exact Or.inr ⟨kv.2, by rw [hframe kv.1 hin]; exact hl, hr⟩

/-- part 2 of `FieldEcho` -/
def EPart (ov : List (String × String)) (skN skE : List String) (f : Field) (a : TfVal) (ty : TfTy)
    (Qn : Prop) (Qs : GoVal → Prop) : Prop :=
  ∀ (o : GoVal) (atys : List (String × TfTy)), IsStruct o → PShape f.info o →
    (f.info.isPlaceholder = false → Fin f.info Qn Qs o) →
    atys.lookup f.info.nameSnake = some ty →
    ToBlk f o atys a (fun v => EchoW skN skE f.info.nameSnake a v ∧
      (f.info.isPlaceholder = false → ∀ attrs2 : Option (List (String × TfVal)),
        (attrs2.getD []).lookup f.info.nameSnake = some v →
        Blk ov f attrs2 (valNfEq f (getVal f.info o) (zeroGoOf f.info) = true)
          (fun y => valNfEq f (getVal f.info o) y = true)))

/-- **the echo of one field**, semantically: there is a description (`Qn`, `Qs`) of what the first decode leaves in the
field such that (1) the CopyFrom block on the planned value `a` establishes it, and (2) on every struct in that state the
CopyTo block on an object holding `a` writes a value `v` with nothing unknown, the known parts of `a` kept, and the CopyFrom
block on `v` gives the field's value back in normal form -/
def FieldEcho (ov : List (String × String)) (skN skE : List String) (f : Field) (a : TfVal) (ty : TfTy) : Prop :=
  ∃ (Qn : Prop) (Qs : GoVal → Prop),
    (f.info.isPlaceholder = false → ∀ attrs : Option (List (String × TfVal)),
      (attrs.getD []).lookup f.info.nameSnake = some a → Blk ov f attrs Qn Qs) ∧
    EPart ov skN skE f a ty Qn Qs

/-- **the echo of the fields of one message**: decode the attribute map `A` into any struct, encode the result into `A`,
decode again into any struct -/
def Bundle (ov : List (String × String)) (skN skE : List String) (fs : List Field) (A : List (String × TfVal))
    (atys : List (String × TfTy)) : Prop :=
  ∀ (attrs : Option (List (String × TfVal))), attrs.getD [] = A →
    ∀ (o0 : GoVal) (ds : List Diag) (hs : List HookCall), IsStruct o0 → (∀ f ∈ fs, PShape f.info o0) →
    ∃ o1 hs1, copyFromFields ov fs attrs { obj := o0, diags := ds, hooks := hs } = .ok { obj := o1, diags := ds, hooks := hs1 } ∧
      IsStruct o1 ∧
      ∀ (tds : List Diag) (ths : List HookCall),
        ∃ A' hs2, copyToFields fs o1 (some atys) { attrs := A, diags := tds, hooks := ths } =
            .ok { attrs := A', diags := tds, hooks := ths ++ hs2 } ∧
          A'.map (·.1) = A.map (·.1) ∧
          noUnknownAs skN A' = true ∧ echoKeepsAs skE A A' = true ∧
          ∀ (attrs2 : Option (List (String × TfVal))), attrs2.getD [] = A' →
            ∀ (o0' : GoVal) (ds3 : List Diag) (hs3 : List HookCall), IsStruct o0' → (∀ f ∈ fs, PShape f.info o0') →
            ∃ o2 hs3', copyFromFields ov fs attrs2 { obj := o0', diags := ds3, hooks := hs3 } =
                .ok { obj := o2, diags := ds3, hooks := hs3' } ∧
              IsStruct o2 ∧ nfEqFields fs o1 o2 = true

theorem getVal_of_fin (c : FieldInfo) (Qn : Prop) (Qs : GoVal → Prop) (o : GoVal) (ho : c.oneOfName = "") (h : Fin c Qn Qs o) :
    (c.parentIsOptionalEmbed = false ∧ ∃ y, getVal c o = y ∧ Qs y) ∨
    (c.parentIsOptionalEmbed = true ∧ ((getVal c o = zeroGoOf c ∧ Qn) ∨ ∃ y, getVal c o = y ∧ Qs y)) := by
  by_cases he : c.parentIsOptionalEmbed = true
  · right
    refine ⟨he, ?_⟩
    rw [getVal_embed c o he]
    rcases h.2 he with ⟨hc, hq⟩ | ⟨y, hc, hq⟩
    · left; rw [hc]; exact ⟨rfl, hq⟩
    · right; rw [hc]; exact ⟨y, rfl, hq⟩
  · have he' : c.parentIsOptionalEmbed = false := by simpa using he
    left
    refine ⟨he', ?_⟩
    obtain ⟨y, hy, hq⟩ := h.1 he'
    rw [getVal_plain c o ho he', hy]
    exact ⟨y, rfl, hq⟩

theorem bundle_of (X : String → TfVal → Prop) (ov : List (String × String)) (skN skE : List String)
    (hX : ExtraOK X skN skE) (fs : List Field) (A : List (String × TfVal)) (atys : List (String × TfTy))
    (hecho : ∀ f ∈ fs, ∃ a ty, A.lookup f.info.nameSnake = some a ∧ atys.lookup f.info.nameSnake = some ty ∧
      FieldEcho ov skN skE f a ty)
    (hsep : SepAll fs) (hone : ∀ f ∈ fs, f.info.oneOfName = "")
    (hphk : ∀ f ∈ fs, f.info.isPlaceholder = true → f.info.kind = .primitive)
    (hnd : (fs.map (·.info.nameSnake)).Nodup) (hkeys : KeysOK X fs A) :
    Bundle ov skN skE fs A atys := by
  intro attrs hattrs o0 ds hs hso0 hpw0
  subst hattrs
  -- first decode
  obtain ⟨o1, hs1, hrun1, hso1, hall1, _, _, hps1⟩ := seqFrom ov attrs
    (fun f Qn Qs => ∃ a ty, (attrs.getD []).lookup f.info.nameSnake = some a ∧ atys.lookup f.info.nameSnake = some ty ∧
      EPart ov skN skE f a ty Qn Qs)
    fs { obj := o0, diags := ds, hooks := hs } hso0 hpw0 hsep hone
    (fun f hf hph => by
      obtain ⟨a, ty, hla, hlt, Qn, Qs, hD, hE⟩ := hecho f hf
      exact ⟨Qn, Qs, hD hph attrs hla, a, ty, hla, hlt, hE⟩)
  refine ⟨o1, hs1, hrun1, hso1, ?_⟩
  have hpw1 : ∀ f ∈ fs, PShape f.info o1 := by
    intro f hf he
    exact hps1 _ (fun g hg heg => by
      have := sepAll_plain_embed fs hsep g hg f hf heg he
      rw [wkey3_embed _ he] at this
      exact this) (hpw0 f hf he)
  intro tds ths
  -- echo
  obtain ⟨st', hrun2, hd2, ⟨hs2, hh2⟩, hk', hframe', hall2⟩ := seqTo o1 atys
    (fun f a v => EchoW skN skE f.info.nameSnake a v ∧
      (f.info.isPlaceholder = false → ∀ attrs2 : Option (List (String × TfVal)),
        (attrs2.getD []).lookup f.info.nameSnake = some v →
        Blk ov f attrs2 (valNfEq f (getVal f.info o1) (zeroGoOf f.info) = true)
          (fun y => valNfEq f (getVal f.info o1) y = true)))
    fs { attrs := attrs.getD [], diags := tds, hooks := ths } hnd
    (fun f hf => by
      by_cases hph : f.info.isPlaceholder = true
      · obtain ⟨a, ty, hla, hlt, Qn, Qs, hD, hE⟩ := hecho f hf
        exact ⟨a, hla, hE o1 atys hso1 (hpw1 f hf) (fun h => by rw [hph] at h; cases h) hlt⟩
      · have hph' : f.info.isPlaceholder = false := by simpa using hph
        obtain ⟨Qn, Qs, hfin, a, ty, hla, hlt, hE⟩ := hall1 f hf hph'
        exact ⟨a, hla, hE o1 atys hso1 (hpw1 f hf) (fun _ => hfin) hlt⟩)
  obtain ⟨hkn, hkeep⟩ := echo_attrsE X skN skE hX fs (attrs.getD []) st'.attrs hkeys hk' hframe'
    (fun f hf => by
      obtain ⟨a, v, hla, hlv, hev, _⟩ := hall2 f hf
      exact ⟨a, v, hla, hlv, hev⟩)
  refine ⟨st'.attrs, hs2, ?_, hk', hkn, hkeep, ?_⟩
  · rw [hrun2]
    cases st'
    simp_all
  -- second decode
  intro attrs2 hattrs2 o0' ds3 hs3 hso0' hpw0'
  obtain ⟨o2, hs3', hrun3, hso2, hall3, _, _, _⟩ := seqFrom ov attrs2
    (fun f Qn Qs => (Qn → valNfEq f (getVal f.info o1) (zeroGoOf f.info) = true) ∧
      (∀ y, Qs y → valNfEq f (getVal f.info o1) y = true))
    fs { obj := o0', diags := ds3, hooks := hs3 } hso0' hpw0' hsep hone
    (fun f hf hph => by
      obtain ⟨a, v, _, hlv, _, hsd⟩ := hall2 f hf
      exact ⟨_, _, hsd hph attrs2 (by rw [hattrs2]; exact hlv), fun h => h, fun _ h => h⟩)
  refine ⟨o2, hs3', hrun3, hso2, ?_⟩
  apply nfEqFields_of_valNfEq
  intro f hf
  refine ⟨hone f hf, ?_⟩
  by_cases hph : f.info.isPlaceholder = true
  · have hk := hphk f hf hph
    obtain ⟨info, mv, msg, sub⟩ := f
    simp only at hph hk
    unfold valNfEq
    simp [hk, hph]
  · have hph' : f.info.isPlaceholder = false := by simpa using hph
    obtain ⟨Qn, Qs, hfin, hqn, hqs⟩ := hall3 f hf hph'
    rcases getVal_of_fin f.info Qn Qs o2 (hone f hf) hfin with ⟨_, y, hy, hq⟩ | ⟨_, ⟨hy, hq⟩ | ⟨y, hy, hq⟩⟩
    · rw [hy]; exact hqs y hq
    · rw [hy]; exact hqn hq
    · rw [hy]; exact hqs y hq


-- ------------------------------------------------------------------------------------------------------
-- B. the echo of one field, by template

theorem planOK_facts (X : String → TfVal → Prop) (f : Field) (a : TfVal) (ty : TfTy) (hp : PlanOK X f a ty) :
    f.info.oneOfName = "" ∧ f.info.parentIsOptionalEmbed = false ∧ (f.info.isPlaceholder = true → f.info.kind = .primitive) := by
  obtain ⟨info, mv, msg, sub⟩ := f
  unfold PlanOK at hp
  exact ⟨hp.1, hp.2.1, hp.2.2.1⟩

/-- the placeholder of a message without fields is typed in every struct -/
theorem placeholder_typed (X : String → TfVal → Prop) (f : Field) (a : TfVal) (ty : TfTy) (hp : PlanOK X f a ty)
    (hph : f.info.isPlaceholder = true) (o : GoVal) : ToOK f o ty ∧ RTOK f o ∧ DecRel f a (getVal f.info o) := by
  obtain ⟨info, mv, msg, sub⟩ := f
  simp only at hph
  unfold PlanOK at hp
  obtain ⟨ho, he, hphk, hEm, hp⟩ := hp
  have hk := hphk hph
  simp only [hk] at hp
  obtain ⟨k, u, n, p, rfl, rfl, hvk, _⟩ := hp
  refine ⟨?_, ?_, ?_⟩
  · unfold ToOK
    simp only [hk]
    exact ⟨⟨k, hvk, rfl⟩, Or.inl hph⟩
  · unfold RTOK
    simp only [hk]
    exact ⟨ho, he, hEm, fun _ => trivial, Or.inl hph⟩
  · unfold DecRel
    simp only [hk]
    exact Or.inl hph

/-- **a field of the plain tree** (`PlanOK`, every depth below): `decField` and `echoField` -/
theorem fieldEcho_plain (X : String → TfVal → Prop) (ov : List (String × String)) (skN skE : List String)
    (hX : ExtraOK X skN skE) (f : Field) (a : TfVal) (ty : TfTy) (hp : PlanOK X f a ty) :
    FieldEcho ov skN skE f a ty := by
  obtain ⟨ho, he, hphk⟩ := planOK_facts X f a ty hp
  refine ⟨True, fun y => (∀ obj, getVal f.info obj = y → ToOK f obj ty ∧ RTOK f obj) ∧ DecRel f a y, ?_, ?_⟩
  · intro hph attrs hl st hs _
    left
    obtain ⟨x, hrun, htyped, hdec⟩ := decField X ov f attrs st a ty hl hp hph
    exact ⟨he, x, st.hooks, hrun, htyped, hdec⟩
  · intro o atys hso _ hfin hty st hcur
    have hfacts : ToOK f o ty ∧ RTOK f o ∧ DecRel f a (getVal f.info o) := by
      by_cases hph : f.info.isPlaceholder = true
      · exact placeholder_typed X f a ty hp hph o
      · have hph' : f.info.isPlaceholder = false := by simpa using hph
        obtain ⟨y, hy, htyped, hdec⟩ := (hfin hph').1 he
        have hg : getVal f.info o = y := by rw [getVal_plain f.info o ho he, hy]; rfl
        obtain ⟨hT, hR⟩ := htyped o hg
        exact ⟨hT, hR, by rw [hg]; exact hdec⟩
    obtain ⟨hT, hR, hdec⟩ := hfacts
    obtain ⟨v, hs, hrun, hkn, hkeep, hsd⟩ := echoField X ov skN skE hX f o atys st a ty hty hcur hp hT hR hdec
    refine ⟨v, hs, hrun, ⟨hkn, Or.inr hkeep⟩, ?_⟩
    intro hph attrs2 hl2 st2 hs2 _
    left
    rcases hsd with hsd | hsd
    · rw [hph] at hsd; cases hsd
    obtain ⟨y, hrun2, hv⟩ := hsd attrs2 st2 hl2
    exact ⟨he, y, st2.hooks, hrun2, hv⟩


-- ------------------------------------------------------------------------------------------------------
-- custom types: the hooks of the harness

/-- a planned value of a custom-type attribute that the hooks of the harness accept: a string (singular) or a list
(repeated), with any flags; a KNOWN string is not null and carries what the `CopyTo<S>` hook writes (`H(..)`); a KNOWN list
is null without elements or not null with at least one element -/
def CustomPlan (rep : Bool) (a : TfVal) : Prop :=
  if rep then
    ∃ u n es ety, a = .list u n es ety ∧
      (u = false → (n = true ∧ es.getD [] = []) ∨ (n = false ∧ ∃ l, es = some l ∧ l ≠ []))
  else ∃ u n p, a = .prim .string u n (.str p) ∧ (u = false → n = false ∧ ∃ s, p = hWrap s)

def hookG (e : TfVal) : GoVal := .sc (.str (unH e))

def hookW (e : GoVal) : TfVal :=
  match e with
  | .sc (.str s) => TfVal.prim .string false false (.str (hWrap s))
  | _ => .nilv

theorem hookG_W_G (e : TfVal) : hookG (hookW (hookG e)) = hookG e := by
  simp [hookG, hookW, unH, hUnwrap_hWrap]

theorem noUnknown_hookW (skN : List String) : ∀ (es : List TfVal), noUnknownList skN ((es.map hookG).map hookW) = true
  | [] => by simp [noUnknownList]
  | e :: rest => by
    simp only [List.map_cons, noUnknownList, Bool.and_eq_true]
    exact ⟨by simp [hookG, hookW, noUnknownDeep], noUnknown_hookW skN rest⟩

theorem custNfEq_refl_G : ∀ (es : List TfVal),
    ((es.map hookG).zip (es.map hookG)).all (fun (p, q) => primNfEq false p q) = true
  | [] => by simp
  | e :: rest => by
    simp only [List.map_cons, List.zip_cons_cons, List.all_cons, Bool.and_eq_true]
    exact ⟨by simp [hookG, primNfEq, scNfEq], custNfEq_refl_G rest⟩

theorem hookTo_slice (l : List GoVal) :
    hookTo true (.slice (some l)) = some (.list false l.isEmpty (some (l.map hookW)) (some (.prim .string))) := by
  simp only [hookTo, Bool.not_true, Bool.false_eq_true, if_false]
  rfl

theorem hookFrom_list (es : List TfVal) (ety : Option TfTy) :
    hookFrom true (.list false false (some es) ety) = .slice (some (es.map hookG)) := by
  simp only [hookFrom, Bool.not_true, Bool.false_eq_true, if_false]
  rfl

/-- the hooks of the harness, echoed: encoding what `CopyFrom<S>` decoded always succeeds, leaves nothing unknown, keeps
accepted planned values, and decoding the result again gives the same Go value -/
theorem hook_echo (rep : Bool) (a : TfVal) (skN skE : List String) :
    ∃ v, hookTo rep (hookFrom rep a) = some v ∧ noUnknownDeep skN v = true ∧
      (CustomPlan rep a → echoKeeps skE a v = true) ∧
      custNfEq rep (hookFrom rep a) (hookFrom rep v) = true := by
  cases rep with
  | false =>
    refine ⟨.prim .string false false (.str (hWrap (unH a))), by simp [hookFrom, hookTo], by simp [noUnknownDeep], ?_, ?_⟩
    · intro hc
      simp only [CustomPlan, Bool.false_eq_true, if_false] at hc
      obtain ⟨u, n, p, rfl, hu⟩ := hc
      cases u with
      | true => simp [echoKeeps]
      | false =>
        obtain ⟨rfl, s, rfl⟩ := hu rfl
        simp [echoKeeps, TfVal.beq, unH, hUnwrap_hWrap]
    · simp [custNfEq, hookFrom, unH, hUnwrap_hWrap, primNfEq, scNfEq]
  | true =>
    have hnil : ∃ v, hookTo true (.slice none) = some v ∧ noUnknownDeep skN v = true ∧
        v = .list false true (some []) (some (.prim .string)) ∧
        custNfEq true (.slice none) (hookFrom true v) = true :=
      ⟨_, by simp [hookTo], by simp [noUnknownDeep, noUnknownList], rfl, by simp [custNfEq, hookFrom, sliceElems]⟩
    have hother : hookFrom true a = .slice none → ((∀ es ety, a ≠ .list false false es ety)) →
        ∃ v, hookTo true (hookFrom true a) = some v ∧ noUnknownDeep skN v = true ∧
          (CustomPlan true a → echoKeeps skE a v = true) ∧
          custNfEq true (hookFrom true a) (hookFrom true v) = true := by
      intro hx hne
      rw [hx]
      obtain ⟨v, h1, h2, rfl, h4⟩ := hnil
      refine ⟨_, h1, h2, ?_, h4⟩
      intro hc
      simp only [CustomPlan, if_true] at hc
      obtain ⟨u, n, es, ety, rfl, hu⟩ := hc
      cases u with
      | true => simp [echoKeeps]
      | false =>
        rcases hu rfl with ⟨rfl, hes⟩ | ⟨rfl, _⟩
        · simp [echoKeeps, hes]
        · exact absurd rfl (hne es ety)
    cases a with
    | list u n es ety =>
      cases u with
      | true => exact hother (by simp [hookFrom]) (by intro es' ety' h; cases h)
      | false =>
        cases n with
        | true => exact hother (by simp [hookFrom]) (by intro es' ety' h; cases h)
        | false =>
          cases es with
          | none =>
            refine ⟨.list false true (some []) (some (.prim .string)), by simp [hookFrom, hookTo], by simp [noUnknownDeep, noUnknownList], ?_,
              by simp [custNfEq, hookFrom, sliceElems]⟩
            intro hc
            simp only [CustomPlan, if_true] at hc
            obtain ⟨u, n, es, ety', he, hu⟩ := hc
            injection he with e1 e2 e3 e4
            subst e1 e2 e3 e4
            rcases hu rfl with ⟨h, _⟩ | ⟨_, l, h, _⟩
            · cases h
            · cases h
          | some l =>
            rw [hookFrom_list, hookTo_slice]
            refine ⟨_, rfl, ?_, ?_, ?_⟩
            · simp only [noUnknownDeep, Bool.not_false, Bool.true_and]
              exact noUnknown_hookW skN l
            · intro hc
              simp only [CustomPlan, if_true] at hc
              obtain ⟨u, n, es, ety', he, hu⟩ := hc
              injection he with e1 e2 e3 e4
              subst e1 e2 e3 e4
              rcases hu rfl with ⟨h, _⟩ | ⟨_, l', h, hne⟩
              · cases h
              · injection h with h
                subst h
                cases l with
                | nil => exact absurd rfl hne
                | cons x xs => simp [echoKeeps]
            · cases l with
              | nil => simp [custNfEq, hookFrom, sliceElems]
              | cons x xs =>
                have : ((x :: xs).map hookG).isEmpty = false := by simp
                rw [this, hookFrom_list]
                have hmap : (((x :: xs).map hookG).map hookW).map hookG = (x :: xs).map hookG := by
                  rw [List.map_map, List.map_map]
                  apply List.map_congr_left
                  intro e _
                  exact hookG_W_G e
                rw [hmap]
                simp only [custNfEq, if_true, sliceElems, beq_self_eq_true, Bool.true_and]
                exact custNfEq_refl_G (x :: xs)
    | prim k u n p => exact hother (by simp [hookFrom]) (by intro es' ety' h; cases h)
    | map u n es ety => exact hother (by simp [hookFrom]) (by intro es' ety' h; cases h)
    | obj u n as tys => exact hother (by simp [hookFrom]) (by intro es' ety' h; cases h)
    | nilv => exact hother (by simp [hookFrom]) (by intro es' ety' h; cases h)
    | foreign t => exact hother (by simp [hookFrom]) (by intro es' ety' h; cases h)


theorem parentIsNil_of_none (info : FieldInfo) (o : GoVal) (h : o.field? info.parentIsOptionalEmbedFieldName = none) :
    parentIsNil info o = true := by
  simp [parentIsNil, h]

theorem parentIsNil_of_alloc (info : FieldInfo) (o s : GoVal)
    (h : o.field? info.parentIsOptionalEmbedFieldName = some (.ptr (some s))) : parentIsNil info o = false := by
  simp [parentIsNil, h]

/-- reading a field of a decoded struct (the parent pointer of a child of a nullable embedded message is nil or set) -/
theorem readField_pshape (info : FieldInfo) (o : GoVal) (ho : info.oneOfName = "") (hp : PShape info o) :
    readField info o = .ok (getVal info o) := by
  by_cases he : info.parentIsOptionalEmbed = true
  · unfold readField getVal
    rcases hp he with h | ⟨s, h, _⟩ <;> simp [he, h]
  · exact readField_plain info o ho (by simpa using he)

/-- the block of a custom-type field (child of a nullable embedded message or not): the hook's value is assigned -/
theorem blk_custom (ov : List (String × String)) (info : FieldInfo) (mv : Option FieldInfo) (msg : Option MsgInfo)
    (sub : List Field) (attrs : Option (List (String × TfVal))) (a : TfVal) (Qn : Prop) (Qs : GoVal → Prop)
    (hk : info.kind = .custom) (hl : (attrs.getD []).lookup info.nameSnake = some a) (hq : Qs (hookFrom info.isRepeated a)) :
    Blk ov ⟨info, mv, msg, sub⟩ attrs Qn Qs := by
  intro st hs _
  simp only [copyFromField]
  by_cases he : info.parentIsOptionalEmbed = true
  · right
    exact ⟨he, Or.inr ⟨_, _, fieldWith_custom_embed _ ov info mv msg attrs st a hk he hs hl, hq⟩⟩
  · have he' : info.parentIsOptionalEmbed = false := by simpa using he
    left
    exact ⟨he', _, _, fieldWith_custom _ ov info mv msg attrs st a hk he' hl, hq⟩

/-- **a custom-type field** (child of a nullable embedded message or not): any planned value; the known parts are kept if the
attribute is skipped by `echoKeeps` or the hooks accept the value -/
theorem fieldEcho_custom (ov : List (String × String)) (skN skE : List String) (info : FieldInfo) (mv : Option FieldInfo)
    (msg : Option MsgInfo) (sub : List Field) (a : TfVal) (ty : TfTy)
    (hk : info.kind = .custom) (ho : info.oneOfName = "") (hph : info.isPlaceholder = false)
    (hkeep : skE.contains info.nameSnake = true ∨ CustomPlan info.isRepeated a) :
    FieldEcho ov skN skE ⟨info, mv, msg, sub⟩ a ty := by
  refine ⟨False, fun y => y = hookFrom info.isRepeated a, ?_, ?_⟩
  · intro _ attrs hl
    exact blk_custom ov info mv msg sub attrs a _ _ hk hl rfl
  · intro o atys hso hps hfin hty st hcur
    simp only at hty hcur hps hfin
    have hg : getVal info o = hookFrom info.isRepeated a := by
      rcases getVal_of_fin info _ _ o ho (hfin hph) with ⟨_, y, hy, hq⟩ | ⟨_, ⟨_, hq⟩ | ⟨y, hy, hq⟩⟩
      · rw [hy, hq]
      · exact hq.elim
      · rw [hy, hq]
    obtain ⟨v, hv, hkn, hke, hnf⟩ := hook_echo info.isRepeated a skN skE
    refine ⟨v, [.copyTo ("CopyTo" ++ info.suffix) (getVal info o) (some ty) (some a |>.getD .nilv)], ?_, ⟨hkn, ?_⟩, ?_⟩
    · unfold copyToField copyToFieldWith
      simp only [Option.getD, hty, hk, readField_pshape info o ho hps, hg, hv, hcur, ToSt.set]
    · rcases hkeep with h | h
      · exact Or.inl h
      · exact Or.inr (hke h)
    · intro _ attrs2 hl2
      refine blk_custom ov info mv msg sub attrs2 v _ _ hk hl2 ?_
      simp only
      rw [hg]
      unfold valNfEq
      simp only [hk]
      exact hnf


-- ------------------------------------------------------------------------------------------------------
-- scalar children of a nullable embedded message

/-- the scalar block of a child of a nullable embedded message: a known value allocates the parent; a null / unknown value is
written only when the parent is there -/
theorem blk_prim_embed (ov : List (String × String)) (c : FieldInfo) (mv : Option FieldInfo) (msg : Option MsgInfo)
    (sub : List Field) (attrs : Option (List (String × TfVal))) (k : PrimK) (u n : Bool) (p : Sc) (y : GoVal)
    (Qn : Prop) (Qs : GoVal → Prop)
    (hk : c.kind = .primitive) (ho : c.oneOfName = "") (he : c.parentIsOptionalEmbed = true)
    (hvt : vkindOf c.tf.valueType = .prim k)
    (hl : (attrs.getD []).lookup c.nameSnake = some (.prim k u n p)) (hd : primDecode c k u n p = .ok y)
    (hqn : known u n = false → Qn) (hqs : Qs y) :
    Blk ov ⟨c, mv, msg, sub⟩ attrs Qn Qs := by
  intro st hs _
  simp only [copyFromField]
  right
  refine ⟨he, ?_⟩
  generalize (fun (as : Option (List (String × TfVal))) (s : FromSt) => copyFromFields ov sub as { s with obj := resetOneOfs ((msg.map (·.oneOfNames)).getD []) s.obj }) = rec
  have hob : (c.oneOfName != "") = false := by simp [ho]
  have hg : embedGuard c (.prim k u n p) st.obj = some st.obj := by simp [embedGuard, hk]
  rcases alloc_or_not c.parentIsOptionalEmbedFieldName st.obj with ⟨s, hp⟩ | hn
  · right
    refine ⟨y, st.hooks, ?_, hqs⟩
    unfold copyFromFieldWith embedSet
    simp only [hk, hl, TfVal.vkind, hvt, hg, hd, hob, he, hp, writeField, innerOf_alloc _ _ s hp]
    cases known u n <;> simp
  · cases hkn : known u n with
    | true =>
      right
      refine ⟨y, st.hooks, ?_, hqs⟩
      unfold copyFromFieldWith embedSet
      simp only [hk, hl, TfVal.vkind, hvt, hg, hd, hob, he, writeField, innerOf_unalloc _ _ hn, hkn]
      have hpa := allocParent_unalloc c st.obj hn
      unfold allocParent at hpa
      simp [hpa, field?_setField_same _ _ _ hs, setField_setField_same]
    | false =>
      left
      refine ⟨?_, cfield_unalloc _ _ _ hn, hqn hkn⟩
      unfold copyFromFieldWith
      simp only [hk, hl, TfVal.vkind, hvt, hg, hd, hob, he, hkn]
      simp
      split
      · rename_i s hs; exact absurd hs (hn s)
      · rfl

theorem assignPrim_unembed (info : FieldInfo) (obj : GoVal) (rd : Outcome GoVal) (v : Bool × Sc)
    (hnil : parentIsNil info obj = false) : assignPrim info obj rd v = assignPrim (unembed info) obj rd v := by
  unfold assignPrim
  have h1 : (unembed info).isPlaceholder = info.isPlaceholder := rfl
  have h2 : (unembed info).isNullable = info.isNullable := rfl
  have h3 : (unembed info).parentIsOptionalEmbed = false := rfl
  have h4 : ∀ s, (unembed info).castTo s = info.castTo s := fun _ => rfl
  simp only [h1, h2, h3, h4, hnil, Bool.false_eq_true, if_false]
  cases info.parentIsOptionalEmbed <;> simp

/-- in place, on a struct whose embedded message is there, the scalar template of a child runs like that of a plain field -/
theorem primBody_unembed (info : FieldInfo) (k : PrimK) (obj : GoVal) (u n : Bool) (p : Sc) (t : Option TfTy)
    (rd : Outcome GoVal) (hk : vkindOf info.tf.elemValueType = .prim k) (hnil : parentIsNil info obj = false) :
    primBody info obj (some (.prim k u n p)) t rd = primBody (unembed info) obj (some (.prim k u n p)) t rd := by
  rw [primBody_inplace info k obj u n p t rd hk, primBody_inplace (unembed info) k obj u n p t rd hk,
    assignPrim_unembed info obj rd (n, p) hnil]

/-- in place, on a struct whose embedded message is nil, the attribute of a scalar child becomes null (payload kept) -/
theorem primBody_nilParent (info : FieldInfo) (k : PrimK) (obj : GoVal) (u n : Bool) (p : Sc) (t : Option TfTy)
    (rd : Outcome GoVal) (hk : vkindOf info.tf.elemValueType = .prim k) (hph : info.isPlaceholder = false)
    (he : info.parentIsOptionalEmbed = true) (hnil : parentIsNil info obj = true) :
    primBody info obj (some (.prim k u n p)) t rd = .ok (.prim k false true p, []) := by
  rw [primBody_inplace info k obj u n p t rd hk]
  simp [assignPrim, hph, he, hnil]

theorem known_false_of (u n : Bool) (h : known u n = false) (hu : u = false) : n = true := by
  subst hu
  cases n <;> simp_all [known]

theorem primDecode_unknown (info : FieldInfo) (k : PrimK) (u n : Bool) (p : Sc) (h : known u n = false) :
    primDecode info k u n p = .ok (zeroPrim info) := by
  simp [primDecode, h]

/-- **a scalar child of a nullable embedded message**; its own judgement is that of a plain scalar field -/
theorem fieldEcho_prim_embed (X : String → TfVal → Prop) (ov : List (String × String)) (skN skE : List String)
    (info : FieldInfo) (mv : Option FieldInfo) (msg : Option MsgInfo) (sub : List Field) (a : TfVal) (ty : TfTy)
    (hk : info.kind = .primitive) (he : info.parentIsOptionalEmbed = true) (hph : info.isPlaceholder = false)
    (hp : PlanOK X ⟨unembed info, mv, msg, sub⟩ a ty) :
    FieldEcho ov skN skE ⟨info, mv, msg, sub⟩ a ty := by
  unfold PlanOK at hp
  obtain ⟨ho, _, _, _, hp⟩ := hp
  have hk' : (unembed info).kind = .primitive := hk
  have hph' : (unembed info).isPlaceholder = false := hph
  have ho' : info.oneOfName = "" := ho
  simp only [hk'] at hp
  obtain ⟨k, u, n, p, rfl, rfl, hvk, hp⟩ := hp
  rcases hp with hp | ⟨hvt, hir, hleaf⟩
  · rw [hph'] at hp; cases hp
  have hvk' : vkindOf info.tf.elemValueType = .prim k := hvk
  have hvt' : vkindOf info.tf.valueType = .prim k := hvt
  obtain ⟨y, hd, _, _⟩ := primDecode_typed (unembed info) k hir u n p hleaf.castable
  have hd' : primDecode info k u n p = .ok y := hd
  have hvnf : ∀ x z, valNfEq ⟨info, mv, msg, sub⟩ x z = primNfEq info.isNullable x z := by
    intro x z
    unfold valNfEq
    simp [hk, hph]
  refine ⟨known u n = false, fun y' => y' = y, ?_, ?_⟩
  · intro _ attrs hl
    exact blk_prim_embed ov info mv msg sub attrs k u n p y _ _ hk ho' he hvt' hl hd' (fun h => h) rfl
  · intro o atys hso hps hfin hty st hcur
    simp only at hty hcur hps hfin
    have hfin := hfin hph
    have hrd := readField_pshape info o ho' hps
    rcases hps he with hnone | ⟨s, hsome, hss⟩
    · -- the embedded message is nil: every child is rendered null
      have hna : NotAlloc info.parentIsOptionalEmbedFieldName o := by
        intro s' hs'; rw [hnone] at hs'; cases hs'
      have hkn : known u n = false := by
        rcases hfin.2 he with ⟨_, h⟩ | ⟨y', hc, _⟩
        · exact h
        · rw [cfield_unalloc _ _ _ hna] at hc; cases hc
      have hnil := parentIsNil_of_none info o hnone
      have hgz : getVal info o = zeroPrim info := by
        rw [getVal_nilParent info o hnil he, zeroGoOf_prim info hk]
      refine ⟨.prim k false true p, [], ?_, ⟨by simp [noUnknownDeep], Or.inr ?_⟩, ?_⟩
      · unfold copyToField copyToFieldWith
        simp only [Option.getD, hty, hk, shadow_id info o ho', hrd, hcur,
          primBody_nilParent info k o u n p _ _ hvk' hph he hnil, ToSt.set]
        simp
      · cases u with
        | true => simp [echoKeeps]
        | false =>
          have := known_false_of false n hkn rfl
          subst this
          simp [echoKeeps, TfVal.beq]
      · intro _ attrs2 hl2
        refine blk_prim_embed ov info mv msg sub attrs2 k false true p (zeroPrim info) _ _ hk ho' he hvt' hl2
          (primDecode_unknown info k false true p rfl) (fun _ => ?_) ?_
        · rw [hvnf, hgz, zeroGoOf_prim info hk]; exact primNfEq_zero info
        · simp only; rw [hvnf, hgz]; exact primNfEq_zero info
    · -- the embedded message is there: the template of a plain scalar field
      have hnil := parentIsNil_of_alloc info o s hsome
      have hg : getVal info o = y := by
        rcases getVal_of_fin info _ _ o ho' hfin with ⟨h, _⟩ | ⟨_, ⟨hy, hkn⟩ | ⟨y', hy, hq⟩⟩
        · rw [he] at h; cases h
        · rw [hy, zeroGoOf_prim info hk]
          rw [primDecode_unknown info k u n p hkn] at hd'
          injection hd'
        · rw [hy, hq]
      obtain ⟨n2, p2, hpb, ⟨y2, hd2, hnf⟩, hex⟩ :=
        primEcho (unembed info) k hir o u n p y (some (.prim k)) hph' rfl hleaf.castable hd
      have hd2' : primDecode info k false n2 p2 = .ok y2 := hd2
      have hnf' : primNfEq info.isNullable y y2 = true := hnf
      refine ⟨.prim k false n2 p2, [], ?_, ⟨by simp [noUnknownDeep], Or.inr ?_⟩, ?_⟩
      · unfold copyToField copyToFieldWith
        simp only [Option.getD, hty, hk, shadow_id info o ho', hrd, hcur, hg,
          primBody_unembed info k o u n p _ _ hvk' hnil, hpb, ToSt.set]
        simp
      · cases u with
        | true => simp [echoKeeps]
        | false =>
          obtain ⟨rfl, rfl⟩ := hex hleaf rfl
          simp [echoKeeps, TfVal.beq]
      · intro _ attrs2 hl2
        refine blk_prim_embed ov info mv msg sub attrs2 k false n2 p2 y2 _ _ hk ho' he hvt' hl2 hd2' (fun hkn => ?_) ?_
        · rw [primDecode_unknown info k false n2 p2 hkn] at hd2'
          injection hd2' with hd2'
          rw [hvnf, hg, zeroGoOf_prim info hk, hd2']
          exact hnf'
        · simp only; rw [hvnf, hg]; exact hnf'


-- ------------------------------------------------------------------------------------------------------
-- message / list / map children of a nullable embedded message: CopyTo runs like the block of the same field without
-- the flag, on a struct that holds the value read through the parent pointer

theorem assignPrim_unembed' (info : FieldInfo) (obj obj' : GoVal) (rd : Outcome GoVal) (v : Bool × Sc)
    (hnil : parentIsNil info obj = false) : assignPrim info obj rd v = assignPrim (unembed info) obj' rd v := by
  unfold assignPrim
  have h1 : (unembed info).isPlaceholder = info.isPlaceholder := rfl
  have h2 : (unembed info).isNullable = info.isNullable := rfl
  have h3 : (unembed info).parentIsOptionalEmbed = false := rfl
  have h4 : ∀ s, (unembed info).castTo s = info.castTo s := fun _ => rfl
  simp only [h1, h2, h3, h4, hnil, Bool.false_eq_true, if_false]
  cases info.parentIsOptionalEmbed <;> simp

theorem primFresh_unembed' (info : FieldInfo) (k : PrimK) (obj obj' : GoVal) (t : Option TfTy) (rd : Outcome GoVal)
    (hnil : parentIsNil info obj = false) : primFresh info k obj t rd = primFresh (unembed info) k obj' t rd := by
  unfold primFresh
  have h1 : (unembed info).isPlaceholder = info.isPlaceholder := rfl
  have h2 : (unembed info).tf = info.tf := rfl
  have h3 : (unembed info).parentIsOptionalEmbed = false := rfl
  have h4 : ∀ s, (unembed info).castTo s = info.castTo s := fun _ => rfl
  have h5 : (unembed info).path = info.path := rfl
  simp only [h1, h2, h3, h4, h5, hnil, Bool.and_false, Bool.false_and, Bool.false_eq_true, if_false]

theorem primBody_unembed' (info : FieldInfo) (obj obj' : GoVal) (cur : Option TfVal) (t : Option TfTy) (rd : Outcome GoVal)
    (hnil : parentIsNil info obj = false) : primBody info obj cur t rd = primBody (unembed info) obj' cur t rd := by
  unfold primBody
  have h2 : (unembed info).tf = info.tf := rfl
  simp only [h2, primFresh_unembed' info _ obj obj' t rd hnil, assignPrim_unembed' info obj obj' rd _ hnil]

theorem elemBodyOf_unembed (rec : ToRec) (info : FieldInfo) (msg : Option MsgInfo) (se : Bool) (obj obj' : GoVal)
    (ety : Option TfTy) (oty : Option (List (String × TfTy)))
    (hnil : (info.kind == .objectList || info.kind == .objectMap) = false → parentIsNil info obj = false) :
    elemBodyOf rec info msg se obj ety oty = elemBodyOf rec (unembed info) msg se obj' ety oty := by
  unfold elemBodyOf
  have h1 : (unembed info).kind = info.kind := rfl
  rw [h1]
  by_cases hk : (info.kind == .objectList || info.kind == .objectMap) = true
  · simp only [hk, if_true]
    rfl
  · have hk' : (info.kind == .objectList || info.kind == .objectMap) = false := by simpa using hk
    simp only [hk', Bool.false_eq_true, if_false]
    funext a diags hooks
    unfold primElemBody
    rw [primBody_unembed' info obj obj' none ety (.ok a) (hnil hk')]

theorem listOrMapBody_unembed (rec : ToRec) (info : FieldInfo) (msg : Option MsgInfo) (se : Bool) (obj obj' : GoVal)
    (cur : Option TfVal) (ety : Option TfTy) (src : GoVal) (st : ToSt)
    (hnil : (info.kind == .objectList || info.kind == .objectMap) = false → parentIsNil info obj = false) :
    listOrMapBody rec info msg se obj cur ety src st = listOrMapBody rec (unembed info) msg se obj' cur ety src st := by
  unfold listOrMapBody
  have h1 : (unembed info).kind = info.kind := rfl
  have h2 : (unembed info).isRepeated = info.isRepeated := rfl
  have h3 : (unembed info).nameSnake = info.nameSnake := rfl
  have h4 : curIsElemKind (unembed info) cur = curIsElemKind info cur := rfl
  simp only [h1, h2, h3, h4]
  have he : ∀ oty, elemBodyOf rec (unembed info) msg se obj' ety oty = elemBodyOf rec info msg se obj ety oty :=
    fun oty => (elemBodyOf_unembed rec info msg se obj obj' ety oty hnil).symm
  simp only [he]

/-- the CopyTo block of a message / list / map child of a nullable embedded message runs like the block of the same field
without the flag on a struct that holds the value read through the parent pointer -/
theorem copyToField_unembed (info : FieldInfo) (mv : Option FieldInfo) (msg : Option MsgInfo) (sub : List Field)
    (o : GoVal) (x : GoVal) (atys : Option (List (String × TfTy))) (st : ToSt)
    (ho : info.oneOfName = "") (hkc : info.kind ≠ .custom) (hkp : info.kind ≠ .primitive)
    (hrd : readField info o = .ok x)
    (hnil : (info.kind == .primitiveList || info.kind == .primitiveMap) = true → parentIsNil info o = false) :
    copyToField ⟨info, mv, msg, sub⟩ o atys st =
      copyToField ⟨unembed info, mv, msg, sub⟩ (.struct [(info.name, x)]) atys st := by
  have hrd' : readField (unembed info) (.struct [(info.name, x)]) = .ok x := by
    simp [readField, unembed, GoVal.field?, List.lookup]
  have ho' : (unembed info).oneOfName = "" := ho
  have h1 : (unembed info).kind = info.kind := rfl
  have h3 : (unembed info).nameSnake = info.nameSnake := rfl
  have h5 : (unembed info).path = info.path := rfl
  have h6 : (unembed info).tf = info.tf := rfl
  have h2 : (unembed info).isRepeated = info.isRepeated := rfl
  have hbody : ∀ cur ety src, (info.kind = .primitiveList ∨ info.kind = .objectList ∨ info.kind = .primitiveMap ∨ info.kind = .objectMap) →
      listOrMapBody (fun o a s => copyToFields sub o a s) info msg sub.isEmpty o cur ety src st =
      listOrMapBody (fun o a s => copyToFields sub o a s) (unembed info) msg sub.isEmpty (.struct [(info.name, x)]) cur ety src st := by
    intro cur ety src hk
    apply listOrMapBody_unembed
    intro h
    apply hnil
    rcases hk with hk | hk | hk | hk <;> simp [hk] at h ⊢
  unfold copyToField copyToFieldWith
  simp only [h1, h3, h5, h6, h2, shadow_id info o ho, shadow_id (unembed info) _ ho', hrd, hrd']
  cases hk : info.kind with
  | primitive => exact absurd hk hkp
  | custom => exact absurd hk hkc
  | object => rfl
  | primitiveList => simp only [hbody _ _ _ (Or.inl hk)]
  | objectList => simp only [hbody _ _ _ (Or.inr (Or.inl hk))]
  | primitiveMap => simp only [hbody _ _ _ (Or.inr (Or.inr (Or.inl hk)))]
  | objectMap => simp only [hbody _ _ _ (Or.inr (Or.inr (Or.inr hk)))]

/-- a nil list is rendered like an empty one -/
theorem listOrMapBody_nil_list (rec : ToRec) (info : FieldInfo) (msg : Option MsgInfo) (se : Bool) (obj obj' : GoVal)
    (cur : Option TfVal) (ety : Option TfTy) (st : ToSt) (oty : Option (List (String × TfTy)))
    (hrep : info.isRepeated = true)
    (hoty : elemObjTy (info.kind == .objectList || info.kind == .objectMap) ety = .ok oty)
    (hcur : curIsElemKind info cur = false) :
    listOrMapBody rec info msg se obj cur ety (.slice none) st =
      listOrMapBody rec (unembed info) msg se obj' cur ety (.slice (some [])) st := by
  unfold listOrMapBody
  have h1 : (unembed info).kind = info.kind := rfl
  have h2 : (unembed info).isRepeated = info.isRepeated := rfl
  have h3 : (unembed info).nameSnake = info.nameSnake := rfl
  have h4 : curIsElemKind (unembed info) cur = curIsElemKind info cur := rfl
  simp [h1, h2, h3, h4, hrep, hoty, hcur, copyToElemsList, ToSt.set]

theorem listOrMapBody_nil_map (rec : ToRec) (info : FieldInfo) (msg : Option MsgInfo) (se : Bool) (obj obj' : GoVal)
    (cur : Option TfVal) (ety : Option TfTy) (st : ToSt) (oty : Option (List (String × TfTy)))
    (hrep : info.isRepeated = false)
    (hoty : elemObjTy (info.kind == .objectList || info.kind == .objectMap) ety = .ok oty)
    (hcur : curIsElemKind info cur = false) :
    listOrMapBody rec info msg se obj cur ety (.map none) st =
      listOrMapBody rec (unembed info) msg se obj' cur ety (.map (some [])) st := by
  unfold listOrMapBody
  have h1 : (unembed info).kind = info.kind := rfl
  have h2 : (unembed info).isRepeated = info.isRepeated := rfl
  have h3 : (unembed info).nameSnake = info.nameSnake := rfl
  have h4 : curIsElemKind (unembed info) cur = curIsElemKind info cur := rfl
  simp [h1, h2, h3, h4, hrep, hoty, hcur, copyToElemsMap, ToSt.set]

/-- a list / map child of a nullable embedded message that reads as nil (the embedded message is nil, or the field of the
embedded struct was never assigned): the block runs like the block of the same field without the flag on an empty list / map -/
theorem copyToField_unembed_nil (info : FieldInfo) (mv : Option FieldInfo) (msg : Option MsgInfo) (sub : List Field)
    (o : GoVal) (atys : List (String × TfTy)) (st : ToSt) (ety : Option TfTy) (oty : Option (List (String × TfTy)))
    (hshape : ((info.kind = .primitiveList ∨ info.kind = .objectList) ∧ info.isRepeated = true ∧
        atys.lookup info.nameSnake = some (.list ety)) ∨
      ((info.kind = .primitiveMap ∨ info.kind = .objectMap) ∧ info.isRepeated = false ∧
        atys.lookup info.nameSnake = some (.map ety)))
    (hrd : readField info o = .ok (zeroGoOf info))
    (hoty : elemObjTy (info.kind == .objectList || info.kind == .objectMap) ety = .ok oty)
    (hcur : curIsElemKind info (st.attrs.lookup info.nameSnake) = false) :
    copyToField ⟨info, mv, msg, sub⟩ o (some atys) st =
      copyToField ⟨unembed info, mv, msg, sub⟩ (.struct [(info.name, zeroWrite info)]) (some atys) st := by
  have hrd' : readField (unembed info) (.struct [(info.name, zeroWrite info)]) = .ok (zeroWrite info) := by
    simp [readField, unembed, GoVal.field?, List.lookup]
  have h1 : (unembed info).kind = info.kind := rfl
  have h3 : (unembed info).nameSnake = info.nameSnake := rfl
  have h2 : (unembed info).isRepeated = info.isRepeated := rfl
  unfold copyToField copyToFieldWith
  simp only [h1, h2, h3, hrd, hrd', Option.getD]
  rcases hshape with ⟨hk, hrep, hty⟩ | ⟨hk, hrep, hty⟩
  · have hz : zeroGoOf info = .slice none := by rcases hk with hk | hk <;> simp [zeroGoOf, hk]
    have hw : zeroWrite info = .slice (some []) := by rcases hk with hk | hk <;> simp [zeroWrite, hk]
    rcases hk with hk | hk <;>
      simp only [hty, hk, hrep, if_true, hz, hw,
        listOrMapBody_nil_list _ info msg sub.isEmpty o (.struct [(info.name, .slice (some []))]) _ ety st oty hrep hoty hcur]
  · have hz : zeroGoOf info = .map none := by rcases hk with hk | hk <;> simp [zeroGoOf, hk]
    have hw : zeroWrite info = .map (some []) := by rcases hk with hk | hk <;> simp [zeroWrite, hk]
    rcases hk with hk | hk <;>
      simp only [hty, hk, hrep, Bool.false_eq_true, if_false, hz, hw,
        listOrMapBody_nil_map _ info msg sub.isEmpty o (.struct [(info.name, .map (some []))]) _ ety st oty hrep hoty hcur]

/-- the CopyFrom block of a message / list / map child of a nullable embedded message: when the parent pointer of the target
is nil and the attribute is not known, nothing happens; otherwise the parent is allocated if need be and the block runs like
the block of the same field without the flag on the embedded struct -/
theorem blk_embed (ov : List (String × String)) (c : FieldInfo) (mv : Option FieldInfo) (msg : Option MsgInfo)
    (sub : List Field) (attrs : Option (List (String × TfVal))) (a : TfVal) (Qn : Prop) (Qs : GoVal → Prop)
    (hpe : c.parentIsOptionalEmbed = true) (hk : c.kind ≠ .custom) (hkp : c.kind ≠ .primitive) (ho : c.oneOfName = "")
    (hl : (attrs.getD []).lookup c.nameSnake = some a)
    (hv : (a.vkind != vkindOf c.tf.valueType || a.vkind == .unknown) = false)
    (hplain : ∀ st' : FromSt, IsStruct st'.obj → ∃ y hs', copyFromField ov ⟨unembed c, mv, msg, sub⟩ attrs st' =
        .ok { obj := st'.obj.setField c.name y, diags := st'.diags, hooks := hs' } ∧ Qs y)
    (hidle : a.isKnown = false → Qn) :
    Blk ov ⟨c, mv, msg, sub⟩ attrs Qn Qs := by
  intro st hs hpsh
  simp only [copyFromField] at hplain ⊢
  right
  refine ⟨hpe, ?_⟩
  generalize (fun (as : Option (List (String × TfVal))) (s : FromSt) =>
    copyFromFields ov sub as { s with obj := resetOneOfs ((msg.map (·.oneOfNames)).getD []) s.obj }) = rec at hplain ⊢
  rcases alloc_or_not c.parentIsOptionalEmbedFieldName st.obj with ⟨s, hp⟩ | hn
  · right
    rw [fieldWith_lift rec ov c mv msg attrs st s a hpe hk ho hs hp hl hv]
    obtain ⟨y, hs', hrun, hy⟩ := hplain { st with obj := s } (parentWF_of_pshape _ _ (hpsh hpe) s hp)
    rw [hrun]
    refine ⟨y, hs', ?_, hy⟩
    simp only [liftOut, embedSet, innerOf_alloc _ _ s hp]
  · cases hkn : a.isKnown with
    | false =>
      left
      refine ⟨?_, cfield_unalloc _ _ _ hn, hidle hkn⟩
      unfold copyFromFieldWith
      simp only [hl, hv, embedGuard_unalloc c a st.obj hpe hkp hn, hkn, Bool.false_eq_true, if_false]
    | true =>
      right
      have hp1 : (st.obj.setField c.parentIsOptionalEmbedFieldName (.ptr (some (.struct [])))).field? c.parentIsOptionalEmbedFieldName
          = some (.ptr (some (.struct []))) := field?_setField_same _ _ _ hs
      have hstep : copyFromFieldWith rec ov c mv msg attrs st =
          copyFromFieldWith rec ov c mv msg attrs
            { st with obj := st.obj.setField c.parentIsOptionalEmbedFieldName (.ptr (some (.struct []))) } := by
        unfold copyFromFieldWith
        simp only [hl, hv, embedGuard_unalloc c a st.obj hpe hkp hn, hkn, if_true, Bool.false_eq_true, if_false,
          embedGuard_alloc c a _ _ hp1]
      rw [hstep, fieldWith_lift rec ov c mv msg attrs _ (.struct []) a hpe hk ho (isStruct_setField _ _ _ hs) hp1 hl hv]
      obtain ⟨y, hs', hrun, hy⟩ := hplain { obj := .struct [], diags := st.diags, hooks := st.hooks } trivial
      refine ⟨y, hs', ?_, hy⟩
      have hrun' : copyFromFieldWith rec ov (unembed c) mv msg attrs
          { obj := GoVal.struct [], diags := st.diags, hooks := st.hooks } =
          .ok { obj := (GoVal.struct []).setField c.name y, diags := st.diags, hooks := hs' } := hrun
      simp only [hrun', liftOut, embedSet, innerOf_unalloc _ _ hn, setField_setField_same]

/-- the shape of a planned value of a message / list / map field and of its attribute type, as far as the transfer to a child
of a nullable embedded message needs it (`planOK_nonprim_shape`) -/
def NonPrimShape (info : FieldInfo) (a : TfVal) (ty : TfTy) : Prop :=
  info.kind ≠ .custom ∧
  (a.vkind = vkindOf info.tf.valueType ∧ a.vkind ≠ .unknown) ∧
  (match info.kind with
    | .primitive => False
    | .object => a.vkind = .obj
    | .primitiveList | .objectList => a.vkind = .list
    | .primitiveMap | .objectMap => a.vkind = .map
    | .custom => False) ∧
  ((info.kind = .primitiveList ∨ info.kind = .objectList) → info.isRepeated = true ∧
    ∃ ety oty, ty = .list ety ∧ elemObjTy (info.kind == .objectList || info.kind == .objectMap) ety = .ok oty ∧
      curIsElemKind info (some a) = false) ∧
  ((info.kind = .primitiveMap ∨ info.kind = .objectMap) → info.isRepeated = false ∧
    ∃ ety oty, ty = .map ety ∧ elemObjTy (info.kind == .objectList || info.kind == .objectMap) ety = .ok oty ∧
      curIsElemKind info (some a) = false)

/-- the shape of a planned value of a message / list / map field -/
theorem planOK_nonprim_shape (X : String → TfVal → Prop) (info : FieldInfo) (mv : Option FieldInfo) (msg : Option MsgInfo)
    (sub : List Field) (a : TfVal) (ty : TfTy) (hp : PlanOK X ⟨info, mv, msg, sub⟩ a ty) (hkp : info.kind ≠ .primitive) :
    NonPrimShape info a ty := by
  unfold NonPrimShape
  unfold PlanOK at hp
  obtain ⟨_, _, _, _, hp⟩ := hp
  cases hk : info.kind with
  | primitive => exact absurd hk hkp
  | custom => simp only [hk] at hp
  | object =>
    simp only [hk] at hp
    obtain ⟨u, n, as, tys, rfl, rfl, hvt, _⟩ := hp
    refine ⟨by simp, ⟨by simp [TfVal.vkind, hvt], by simp [TfVal.vkind]⟩, by simp [TfVal.vkind], by simp, by simp⟩
  | primitiveList =>
    simp only [hk] at hp
    obtain ⟨u, n, es, et, k, rfl, rfl, hvt, hrep, hir, _⟩ := hp
    refine ⟨by simp, ⟨by simp [TfVal.vkind, hvt], by simp [TfVal.vkind]⟩, by simp [TfVal.vkind], ?_, by simp⟩
    intro _
    exact ⟨hrep, _, none, rfl, by simp [elemObjTy], by simp [curIsElemKind, TfVal.vkind, hir.rt.ek]⟩
  | objectList =>
    simp only [hk] at hp
    obtain ⟨u, n, es, et, tys, rfl, rfl, hvt, hevk, hrep, _⟩ := hp
    refine ⟨by simp, ⟨by simp [TfVal.vkind, hvt], by simp [TfVal.vkind]⟩, by simp [TfVal.vkind], ?_, by simp⟩
    intro _
    exact ⟨hrep, _, some tys, rfl, by simp [elemObjTy], by simp [curIsElemKind, TfVal.vkind, hevk]⟩
  | primitiveMap =>
    simp only [hk] at hp
    obtain ⟨u, n, es, et, k, rfl, rfl, hvt, hrep, _, _, _, hir, _⟩ := hp
    refine ⟨by simp, ⟨by simp [TfVal.vkind, hvt], by simp [TfVal.vkind]⟩, by simp [TfVal.vkind], by simp, ?_⟩
    intro _
    exact ⟨hrep, _, none, rfl, by simp [elemObjTy], by simp [curIsElemKind, TfVal.vkind, hir.rt.ek]⟩
  | objectMap =>
    simp only [hk] at hp
    obtain ⟨u, n, es, et, tys, rfl, rfl, hvt, hevk, _, hrep, _⟩ := hp
    refine ⟨by simp, ⟨by simp [TfVal.vkind, hvt], by simp [TfVal.vkind]⟩, by simp [TfVal.vkind], by simp, ?_⟩
    intro _
    exact ⟨hrep, _, some tys, rfl, by simp [elemObjTy], by simp [curIsElemKind, TfVal.vkind, hevk]⟩

theorem setField_inj (o : GoVal) (n : String) (x y : GoVal) (hs : IsStruct o) (h : o.setField n x = o.setField n y) : x = y := by
  have h1 := field?_setField_same o n x hs
  rw [h, field?_setField_same o n y hs] at h1
  injection h1 with h1
  exact h1.symm

/-- a block that assigns the field has passed the type assertion on the attribute -/
theorem vkind_of_writes (rec : FromRec) (ov : List (String × String)) (info : FieldInfo) (mv : Option FieldInfo)
    (msg : Option MsgInfo) (attrs : Option (List (String × TfVal))) (st : FromSt) (v : TfVal) (y : GoVal) (hs' : List HookCall)
    (hkc : info.kind ≠ .custom) (hl : (attrs.getD []).lookup info.nameSnake = some v)
    (h : copyFromFieldWith rec ov info mv msg attrs st =
      .ok { obj := st.obj.setField info.name y, diags := st.diags, hooks := hs' }) :
    (v.vkind != vkindOf info.tf.valueType || v.vkind == .unknown) = false := by
  cases hb : (v.vkind != vkindOf info.tf.valueType || v.vkind == .unknown) with
  | false => rfl
  | true =>
    exfalso
    unfold copyFromFieldWith at h
    cases hk : info.kind <;> first | exact absurd hk hkc | skip
    all_goals
      simp only [hk, hl, hb, if_true, FromSt.diag] at h
      injection h with h
      have := congrArg FromSt.diags h
      simp at this

/-- a plain block that assigns the field on a null / unknown attribute assigns the reset value -/
theorem plain_unknown_value (ov : List (String × String)) (info : FieldInfo) (mv : Option FieldInfo) (msg : Option MsgInfo)
    (sub : List Field) (attrs : Option (List (String × TfVal))) (st : FromSt) (v : TfVal) (x : GoVal) (hs' : List HookCall)
    (ho : info.oneOfName = "") (he : info.parentIsOptionalEmbed = false) (hkc : info.kind ≠ .custom)
    (hl : (attrs.getD []).lookup info.nameSnake = some v)
    (hkind : v.vkind = vkindOf info.tf.valueType ∧ v.vkind ≠ .unknown)
    (hshape : match info.kind with
      | .primitive => ∃ k, v.vkind = .prim k
      | .object => v.vkind = .obj
      | .primitiveList | .objectList => v.vkind = .list
      | .primitiveMap | .objectMap => v.vkind = .map
      | .custom => False)
    (hkn : v.isKnown = false) (hs : IsStruct st.obj)
    (hrun : copyFromField ov ⟨info, mv, msg, sub⟩ attrs st =
      .ok { obj := st.obj.setField info.name x, diags := st.diags, hooks := hs' }) :
    x = zeroWrite info := by
  simp only [copyFromField] at hrun
  rw [fieldWith_null_resets _ ov info mv msg attrs st v ho he hkc hl hkind hshape hkn] at hrun
  injection hrun with hrun
  have := congrArg FromSt.obj hrun
  exact (setField_inj st.obj info.name _ _ hs this).symm

theorem valNfEq_zero_left (info : FieldInfo) (mv : Option FieldInfo) (msg : Option MsgInfo) (sub : List Field) (z : GoVal)
    (hkc : info.kind ≠ .custom) (hkp : info.kind ≠ .primitive) :
    valNfEq ⟨info, mv, msg, sub⟩ (zeroGoOf info) z = valNfEq ⟨info, mv, msg, sub⟩ (zeroWrite info) z := by
  unfold valNfEq
  cases hk : info.kind <;> first | exact absurd hk hkc | exact absurd hk hkp | simp [zeroGoOf, zeroWrite, hk, sliceElems, mapElems]

theorem valNfEq_zero_right (info : FieldInfo) (mv : Option FieldInfo) (msg : Option MsgInfo) (sub : List Field) (x : GoVal)
    (hkc : info.kind ≠ .custom) (hkp : info.kind ≠ .primitive) :
    valNfEq ⟨info, mv, msg, sub⟩ x (zeroGoOf info) = valNfEq ⟨info, mv, msg, sub⟩ x (zeroWrite info) := by
  unfold valNfEq
  cases hk : info.kind <;> first | exact absurd hk hkc | exact absurd hk hkp | simp [zeroGoOf, zeroWrite, hk, sliceElems, mapElems]

theorem alloc_of_cfield (P n : String) (o y : GoVal) (h : cfield P n o = some y) : ∃ s, o.field? P = some (.ptr (some s)) := by
  unfold cfield at h
  split at h
  · rename_i s hs; exact ⟨s, hs⟩
  · cases h

/-- **transfer to a child of a nullable embedded message**: if the message / list / map field echoes without the flag
(`FieldEcho` of the same field outside the embedded message), it echoes as a child of a nullable embedded message. -/
theorem fieldEcho_embed_transfer (ov : List (String × String)) (skN skE : List String)
    (info : FieldInfo) (mv : Option FieldInfo) (msg : Option MsgInfo) (sub : List Field) (a : TfVal) (ty : TfTy)
    (hkp : info.kind ≠ .primitive) (he : info.parentIsOptionalEmbed = true) (hph : info.isPlaceholder = false)
    (ho : info.oneOfName = "") (hshp : NonPrimShape (unembed info) a ty)
    (hU : FieldEcho ov skN skE ⟨unembed info, mv, msg, sub⟩ a ty) :
    FieldEcho ov skN skE ⟨info, mv, msg, sub⟩ a ty := by
  obtain ⟨hkc', ⟨hvk1, hvk2⟩, hsh, hlistS, hmapS⟩ := hshp
  have hkc : info.kind ≠ .custom := hkc'
  have ho' : (unembed info).oneOfName = "" := ho
  have hph' : (unembed info).isPlaceholder = false := hph
  have heU : (unembed info).parentIsOptionalEmbed = false := rfl
  have hv : (a.vkind != vkindOf info.tf.valueType || a.vkind == .unknown) = false := by
    have h1 : a.vkind = vkindOf info.tf.valueType := hvk1
    simp [h1]
    rw [← h1]; exact hvk2
  have hshape : ∀ v : TfVal, v.vkind = vkindOf info.tf.valueType →
      (match (unembed info).kind with
        | .primitive => ∃ k, v.vkind = .prim k
        | .object => v.vkind = .obj
        | .primitiveList | .objectList => v.vkind = .list
        | .primitiveMap | .objectMap => v.vkind = .map
        | .custom => False) := by
    intro v hvv
    have h1 : a.vkind = vkindOf info.tf.valueType := hvk1
    have h2 : (unembed info).kind = info.kind := rfl
    rw [h2] at hsh ⊢
    cases hk : info.kind <;> simp only [hk] at hsh ⊢
    all_goals first | (rw [hvv, ← h1]; exact hsh) | exact hsh | exact False.elim hsh
  obtain ⟨QnU, QsU, hDU, hEU⟩ := hU
  -- the plain block, as an equation
  have hplainU : ∀ (attrs : Option (List (String × TfVal))), (attrs.getD []).lookup info.nameSnake = some a →
      ∀ st' : FromSt, IsStruct st'.obj → ∃ y hs', copyFromField ov ⟨unembed info, mv, msg, sub⟩ attrs st' =
        .ok { obj := st'.obj.setField info.name y, diags := st'.diags, hooks := hs' } ∧ QsU y := by
    intro attrs hl st' hs'
    rcases hDU hph' attrs hl st' hs' (fun h => by rw [heU] at h; cases h) with ⟨_, y, hs2, hrun, hq⟩ | ⟨h, _⟩
    · exact ⟨y, hs2, hrun, hq⟩
    · rw [heU] at h; cases h
  have hQz : a.isKnown = false → QsU (zeroWrite info) := by
    intro hkn
    obtain ⟨x0, hs0, hrun, hq⟩ := hplainU (some [(info.nameSnake, a)]) (by simp) { obj := .struct [] } trivial
    have hx0 := plain_unknown_value ov (unembed info) mv msg sub (some [(info.nameSnake, a)]) { obj := .struct [] } a x0 hs0
      ho' rfl hkc' (by simp [unembed]) ⟨hvk1, hvk2⟩ (hshape a hvk1) hkn trivial hrun
    have hzz : zeroWrite (unembed info) = zeroWrite info := rfl
    rw [hzz] at hx0
    subst hx0
    exact hq
  refine ⟨a.isKnown = false, QsU, ?_, ?_⟩
  · intro _ attrs hl
    exact blk_embed ov info mv msg sub attrs a _ _ he hkc hkp ho hl hv (hplainU attrs hl) (fun h => h)
  · intro o atys hso hps hfin hty st hcur
    simp only at hty hcur hps hfin
    have hrd := readField_pshape info o ho hps
    -- the value the theory of the field without the flag is applied to
    have key : ∃ x', QsU x' ∧
        copyToField ⟨info, mv, msg, sub⟩ o (some atys) st =
          copyToField ⟨unembed info, mv, msg, sub⟩ (.struct [(info.name, x')]) (some atys) st ∧
        (∀ z, valNfEq ⟨info, mv, msg, sub⟩ (getVal info o) z = valNfEq ⟨unembed info, mv, msg, sub⟩ x' z) := by
      rcases (hfin hph).2 he with ⟨hcn, hkn⟩ | ⟨y, hcs, hq⟩
      · -- never assigned: the field reads as the zero value
        have hg : getVal info o = zeroGoOf info := by rw [getVal_embed info o he, hcn]; rfl
        rw [hg] at hrd
        refine ⟨zeroWrite info, hQz hkn, ?_, ?_⟩
        · by_cases hko : info.kind = .object
          · have hzz : zeroWrite info = zeroGoOf info := by simp [zeroWrite, zeroGoOf, hko]
            rw [hzz]
            exact copyToField_unembed info mv msg sub o _ (some atys) st ho hkc hkp hrd (by simp [hko])
          · have hcoll : (info.kind = .primitiveList ∨ info.kind = .objectList) ∨ (info.kind = .primitiveMap ∨ info.kind = .objectMap) := by
              cases hk : info.kind <;> simp_all
            rcases hcoll with hk | hk
            · obtain ⟨hrep, ety, oty, rfl, hoty, hcurk⟩ := hlistS hk
              exact copyToField_unembed_nil info mv msg sub o atys st ety oty (Or.inl ⟨hk, hrep, hty⟩) hrd hoty
                (by rw [hcur]; exact hcurk)
            · obtain ⟨hrep, ety, oty, rfl, hoty, hcurk⟩ := hmapS hk
              exact copyToField_unembed_nil info mv msg sub o atys st ety oty (Or.inr ⟨hk, hrep, hty⟩) hrd hoty
                (by rw [hcur]; exact hcurk)
        · intro z
          rw [hg]
          exact valNfEq_zero_left info mv msg sub z hkc hkp
      · -- assigned: the embedded message is there
        have hg : getVal info o = y := by rw [getVal_embed info o he, hcs]; rfl
        obtain ⟨s, hal⟩ := alloc_of_cfield _ _ _ _ hcs
        rw [hg] at hrd
        refine ⟨y, hq, copyToField_unembed info mv msg sub o y (some atys) st ho hkc hkp hrd
          (fun _ => parentIsNil_of_alloc info o s hal), ?_⟩
        intro z
        rw [hg]
        rfl
    obtain ⟨x', hQ, hcongr, hval⟩ := key
    have hfld : (GoVal.struct [(info.name, x')]).field? (unembed info).name = some x' := by
      simp [unembed, GoVal.field?, List.lookup]
    have hget : getVal (unembed info) (.struct [(info.name, x')]) = x' := by
      rw [getVal_plain (unembed info) _ ho' rfl, hfld]
      rfl
    obtain ⟨v, hs, hrunTo, ⟨hkn, hkeep⟩, hsd⟩ := hEU (.struct [(info.name, x')]) atys trivial
      (fun h => by rw [heU] at h; cases h)
      (fun _ => ⟨fun _ => ⟨x', hfld, hQ⟩, fun h => by rw [heU] at h; cases h⟩) hty st hcur
    refine ⟨v, hs, by rw [hcongr]; exact hrunTo, ⟨hkn, hkeep⟩, ?_⟩
    intro _ attrs2 hl2
    have hsd := hsd hph' attrs2 hl2
    rw [hget] at hsd
    have hplain2 : ∀ st' : FromSt, IsStruct st'.obj → ∃ y hs', copyFromField ov ⟨unembed info, mv, msg, sub⟩ attrs2 st' =
        .ok { obj := st'.obj.setField info.name y, diags := st'.diags, hooks := hs' } ∧
        valNfEq ⟨info, mv, msg, sub⟩ (getVal info o) y = true := by
      intro st' hs'
      rcases hsd st' hs' (fun h => by rw [heU] at h; cases h) with ⟨_, y, hs2, hrun, hnf⟩ | ⟨h, _⟩
      · exact ⟨y, hs2, hrun, by rw [hval]; exact hnf⟩
      · rw [heU] at h; cases h
    obtain ⟨y0, hs0, hrun0, hnf0⟩ := hplain2 { obj := .struct [] } trivial
    have hv2 : (v.vkind != vkindOf info.tf.valueType || v.vkind == .unknown) = false := by
      simp only [copyFromField] at hrun0
      exact vkind_of_writes _ ov (unembed info) mv msg attrs2 _ v y0 hs0 hkc' hl2 hrun0
    refine blk_embed ov info mv msg sub attrs2 v _ _ he hkc hkp ho hl2 hv2 hplain2 ?_
    intro hkn2
    have hvv : v.vkind = vkindOf info.tf.valueType ∧ v.vkind ≠ .unknown := by
      cases h1 : (v.vkind != vkindOf info.tf.valueType) <;> cases h2 : (v.vkind == .unknown) <;> simp [h1, h2] at hv2
      exact ⟨by simpa using h1, by simpa using h2⟩
    have hy := plain_unknown_value ov (unembed info) mv msg sub attrs2 { obj := .struct [] } v y0 hs0
      ho' rfl hkc' hl2 hvv (hshape v hvv.1) hkn2 trivial hrun0
    have hzz : zeroWrite (unembed info) = zeroWrite info := rfl
    rw [hzz] at hy
    subst hy
    rw [valNfEq_zero_right info mv msg sub _ hkc hkp]
    exact hnf0

/-- **a message / list / map child of a nullable embedded message** (plain below); its own judgement is that of the same
field without the flag -/
theorem fieldEcho_nonprim_embed (X : String → TfVal → Prop) (ov : List (String × String)) (skN skE : List String)
    (hX : ExtraOK X skN skE)
    (info : FieldInfo) (mv : Option FieldInfo) (msg : Option MsgInfo) (sub : List Field) (a : TfVal) (ty : TfTy)
    (hkp : info.kind ≠ .primitive) (he : info.parentIsOptionalEmbed = true) (hph : info.isPlaceholder = false)
    (hp : PlanOK X ⟨unembed info, mv, msg, sub⟩ a ty) :
    FieldEcho ov skN skE ⟨info, mv, msg, sub⟩ a ty :=
  fieldEcho_embed_transfer ov skN skE info mv msg sub a ty hkp he hph (planOK_facts X _ a ty hp).1
    (planOK_nonprim_shape X (unembed info) mv msg sub a ty hp hkp)
    (fieldEcho_plain X ov skN skE hX _ a ty hp)

-- ------------------------------------------------------------------------------------------------------
-- nested messages whose fields include children of nullable embedded messages and custom types

theorem field?_resetOneOfs_other (P : String) : ∀ (names : List String) (v : GoVal), P ∉ names →
    (resetOneOfs names v).field? P = v.field? P := by
  unfold resetOneOfs
  intro names
  induction names with
  | nil => intro v _; rfl
  | cons n rest ih =>
    intro v hP
    simp only [List.mem_cons, not_or] at hP
    simp only [List.foldl_cons]
    rw [ih _ hP.2]
    exact field?_setField_other _ _ _ _ hP.1

theorem pshape_fresh (c : FieldInfo) (names : List String) (h : c.parentIsOptionalEmbed = true → c.parentIsOptionalEmbedFieldName ∉ names) :
    PShape c (resetOneOfs names (.struct [])) := by
  intro he
  left
  rw [field?_resetOneOfs_other _ names _ (h he)]
  simp [GoVal.field?, List.lookup]

/-- the block of a nested message (known value, message with fields), the hook log may grow below -/
theorem fromFieldWith_obj_runE (rec : FromRec) (ov : List (String × String)) (info : FieldInfo) (mv : Option FieldInfo)
    (msg : Option MsgInfo) (attrs : Option (List (String × TfVal))) (st : FromSt) (u n : Bool)
    (as : Option (List (String × TfVal))) (tys : Option (List (String × TfTy))) (o : GoVal) (hs' : List HookCall)
    (hk : info.kind = .object) (ho : info.oneOfName = "") (he : info.parentIsOptionalEmbed = false)
    (hvt : vkindOf info.tf.valueType = .obj) (hem : isEmptyMsg msg = false) (hkn : known u n = true)
    (hl : (attrs.getD []).lookup info.nameSnake = some (.obj u n as tys))
    (hrec : rec as { st with obj := .struct [] } = .ok { obj := o, diags := st.diags, hooks := hs' }) :
    copyFromFieldWith rec ov info mv msg attrs st =
      .ok { obj := st.obj.setField info.name (if info.isNullable then .ptr (some o) else o), diags := st.diags, hooks := hs' } := by
  unfold copyFromFieldWith
  simp only [hk, hl, TfVal.vkind, hvt, embedGuard_plain info _ _ he, ho, writeField_plain info _ _ he]
  simp [hkn, hem, hrec, setField_setField_same]


/-- **a nested message** (outside oneof groups and embedded messages, with fields; a null / unknown value only when the
field is a pointer) **whose fields echo** (`Bundle`) -/
theorem fieldEcho_object (ov : List (String × String)) (skN skE : List String) (info : FieldInfo) (mv : Option FieldInfo)
    (msg : Option MsgInfo) (sub : List Field) (u n : Bool) (as : Option (List (String × TfVal))) (tys : List (String × TfTy))
    (hk : info.kind = .object) (ho : info.oneOfName = "") (he : info.parentIsOptionalEmbed = false)
    (hph : info.isPlaceholder = false) (hem : isEmptyMsg msg = false) (hvt : vkindOf info.tf.valueType = .obj) (hsub : sub ≠ [])
    (hkn : known u n = true → Bundle ov skN skE sub (as.getD []) tys ∧
      ∀ g ∈ sub, PShape g.info (resetOneOfs ((msg.map (·.oneOfNames)).getD []) (.struct [])))
    (hunk : known u n = false → as.getD [] = [] ∧ info.isNullable = true) :
    FieldEcho ov skN skE ⟨info, mv, msg, sub⟩ (.obj u n as (some tys)) (.obj (some tys)) := by
  have hse : sub.isEmpty = false := by cases sub <;> simp_all
  refine ⟨True, fun y =>
    (known u n = true → ∃ o' ds hs hs', IsStruct o' ∧ y = (if info.isNullable then GoVal.ptr (some o') else o') ∧
      copyFromFields ov sub as { obj := resetOneOfs ((msg.map (·.oneOfNames)).getD []) (.struct []), diags := ds, hooks := hs } =
        .ok { obj := o', diags := ds, hooks := hs' }) ∧
    (known u n = false → y = .ptr none), ?_, ?_⟩
  · intro _ attrs hl st hs _
    left
    refine ⟨he, ?_⟩
    simp only [copyFromField]
    by_cases hknown : known u n = true
    · obtain ⟨hB, hps⟩ := hkn hknown
      obtain ⟨o1, hs1, hrun1, hso1, _⟩ := hB as rfl (resetOneOfs ((msg.map (·.oneOfNames)).getD []) (.struct [])) st.diags st.hooks
        (isStruct_resetOneOfs _ _ trivial) hps
      refine ⟨_, hs1, fromFieldWith_obj_runE _ ov info mv msg attrs st u n as (some tys) o1 hs1 hk ho he hvt hem hknown hl hrun1, ?_, ?_⟩
      · intro _
        exact ⟨o1, st.diags, st.hooks, hs1, hso1, rfl, hrun1⟩
      · intro h; rw [hknown] at h; cases h
    · have hknown' : known u n = false := by simpa using hknown
      obtain ⟨_, hn⟩ := hunk hknown'
      have hrun := fromFieldWith_unknown_run
        (fun as s => copyFromFields ov sub as { s with obj := resetOneOfs ((msg.map (·.oneOfNames)).getD []) s.obj })
        ov info mv msg attrs st _ ho he hl (Or.inl ⟨hk, u, n, as, some tys, rfl, hknown', hvt⟩)
      have hzw : zeroWrite info = GoVal.ptr none := by simp [zeroWrite, hk, hn]
      rw [hzw] at hrun
      refine ⟨_, st.hooks, hrun, ?_, fun _ => rfl⟩
      intro h; rw [hknown'] at h; cases h
  · intro o atys hso _ hfin hty st hcur
    simp only at hty hcur hfin
    obtain ⟨y, hy, hq1, hq2⟩ := (hfin hph).1 he
    have hg : getVal info o = y := by rw [getVal_plain info o ho he, hy]; rfl
    by_cases hknown : known u n = true
    · obtain ⟨hB, hps⟩ := hkn hknown
      obtain ⟨o', ds, hs, hs', hso', hyo, hrun0⟩ := hq1 hknown
      have hun : u = false ∧ n = false := by cases u <;> cases n <;> simp [known] at hknown ⊢
      obtain ⟨rfl, rfl⟩ := hun
      obtain ⟨o1, hs1, hrun1, hso1, hrest⟩ := hB as rfl (resetOneOfs ((msg.map (·.oneOfNames)).getD []) (.struct [])) ds hs
        (isStruct_resetOneOfs _ _ trivial) hps
      rw [hrun0] at hrun1
      injection hrun1 with hrun1
      injection hrun1 with e1 _ _
      subst e1
      obtain ⟨A', hs2, hrunTo, _, hknA, hkeepA, hsecond⟩ := hrest st.diags st.hooks
      cases o' with
      | struct fs =>
        have hxx : (info.isNullable = true ∧ getVal info o = .ptr (some (.struct fs))) ∨
            (info.isNullable = false ∧ getVal info o = .struct fs) := by
          rw [hg, hyo]
          cases hn : info.isNullable <;> simp
        have hob := objBody_echo (fun o a s => copyToFields sub o a s) info msg (some tys) false false as tys (getVal info o) fs
          st.diags st.hooks A' (st.hooks ++ hs2) (fun h => by rw [hem] at h; cases h) hxx hrunTo
        refine ⟨.obj false false (some A') (some tys), hs2, ?_, ⟨?_, Or.inr ?_⟩, ?_⟩
        · apply copyToField_obj_run info mv msg sub o atys st tys _ _ _ hk ho he hty
          rw [hcur, hse]
          exact hob
        · simp only [noUnknownDeep, Bool.not_false, Bool.true_and]
          exact hknA
        · cases as with
          | none => simp [echoKeeps]
          | some l =>
            simp only [echoKeeps, Bool.false_eq_true, if_false, beq_self_eq_true, Bool.true_and, Bool.false_or, Option.getD_some]
            exact hkeepA
        · intro _ attrs2 hl2 st2 _ _
          left
          refine ⟨he, ?_⟩
          simp only [copyFromField]
          obtain ⟨o2, hs3', hrun3, hso2, hnf⟩ := hsecond (some A') rfl (resetOneOfs ((msg.map (·.oneOfNames)).getD []) (.struct []))
            st2.diags st2.hooks (isStruct_resetOneOfs _ _ trivial) hps
          refine ⟨_, hs3', fromFieldWith_obj_runE _ ov info mv msg attrs2 st2 false false (some A') (some tys) o2 hs3' hk ho he hvt hem
            rfl hl2 hrun3, ?_⟩
          simp only
          rw [hg, hyo]
          unfold valNfEq
          simp only [hk]
          unfold msgNfEq
          cases hn : info.isNullable
          · simp only [Bool.false_eq_true, if_false, structOf_of_isStruct o2 hso2]
            exact hnf
          · simp [isNilPtr, structOf, hnf]
      | sc _ => cases hso'
      | ptr _ => cases hso'
      | slice _ => cases hso'
      | map _ => cases hso'
      | iface _ => cases hso'
    · have hknown' : known u n = false := by simpa using hknown
      obtain ⟨has, hn⟩ := hunk hknown'
      have hyn := hq2 hknown'
      rw [hyn] at hg
      have hnu : u = false → n = true := fun hu => known_false_of u n hknown' hu
      refine ⟨.obj false true (some (as.getD [])) (some tys), [], ?_, ⟨?_, Or.inr ?_⟩, ?_⟩
      · have hob := objBody_echo_nil (fun o a s => copyToFields sub o a s) info msg (some tys) u n as tys st.diags st.hooks hn
        rw [copyToField_obj_run info mv msg sub o atys st tys _ _ _ hk ho he hty (by rw [hcur, hse, hg]; exact hob)]
        simp
      · simp [noUnknownDeep, has, noUnknownAs]
      · cases u with
        | true => cases as <;> simp [echoKeeps]
        | false =>
          have := hnu rfl
          subst this
          cases as <;> simp [echoKeeps]
      · intro _ attrs2 hl2 st2 _ _
        left
        refine ⟨he, .ptr none, st2.hooks, ?_, ?_⟩
        · simp only [copyFromField]
          have := fromFieldWith_unknown_run
            (fun as s => copyFromFields ov sub as { s with obj := resetOneOfs ((msg.map (·.oneOfNames)).getD []) s.obj })
            ov info mv msg attrs2 st2 _ ho he hl2 (Or.inl ⟨hk, false, true, some (as.getD []), some tys, rfl, rfl, hvt⟩)
          have hzw : zeroWrite info = GoVal.ptr none := by simp [zeroWrite, hk, hn]
          rw [hzw] at this
          exact this
        · simp only
          rw [hg]
          unfold valNfEq
          simp [hk, msgNfEq, hn, isNilPtr]


-- ------------------------------------------------------------------------------------------------------
-- the judgement

mutual
/-- `a` is a planned value of field `f` (attribute type `ty`); `PlanOK` extended. One of:
* (plain) a field of the plain tree, plain below: `PlanOK`;
* (a) a **child of a nullable embedded message** (`parentIsOptionalEmbed`, reached through the parent pointer; any kind:
  scalar, message, list, map – plain below): its own judgement is the one of its kind – `PlanOK` of the same field without
  the flag. There is no further relation between the children of one parent: if all of them are null / unknown the first
  decode leaves the parent nil, CopyTo renders all of them null and the second decode leaves the parent nil again; if one of
  them is known the parent is allocated, the others hold zero values, and the second decode allocates it again;
* (b) a **custom-type field** (child of a nullable embedded message or not): any value if the attribute is named in the skip
  list `skE` of `echoKeeps`, else a value the hooks accept (`CustomPlan`);
* (c) a **nested message** (outside oneof groups, with fields; itself a child of a nullable embedded message or not) whose
  fields satisfy `PlanOKEs` – (a), (b), (c) below, recursively; a null / unknown value only when the field is a pointer. -/
def PlanOKE (X : String → TfVal → Prop) (skE : List String) : Field → TfVal → TfTy → Prop
  | ⟨info, mv, msg, sub⟩, a, ty =>
    PlanOK X ⟨info, mv, msg, sub⟩ a ty ∨
    (info.parentIsOptionalEmbed = true ∧ info.isPlaceholder = false ∧ PlanOK X ⟨unembed info, mv, msg, sub⟩ a ty) ∨
    (info.kind = .custom ∧ info.oneOfName = "" ∧ info.isPlaceholder = false ∧
      (skE.contains info.nameSnake = true ∨ CustomPlan info.isRepeated a)) ∨
    (info.kind = .object ∧ info.oneOfName = "" ∧ info.isPlaceholder = false ∧
      isEmptyMsg msg = false ∧
      ∃ u n as tys, a = .obj u n as (some tys) ∧ ty = .obj (some tys) ∧ vkindOf info.tf.valueType = .obj ∧ sub ≠ [] ∧
        (known u n = true → PlanOKEs X skE sub (as.getD []) tys ∧ KeysOK X sub (as.getD []) ∧
          ∀ g ∈ sub, g.info.parentIsOptionalEmbed = true →
            g.info.parentIsOptionalEmbedFieldName ∉ (msg.map (·.oneOfNames)).getD []) ∧
        (known u n = false → as.getD [] = [] ∧ info.isNullable = true))

/-- every field of the message has a planned value in `attrs` and a type in `atys`; attribute names are pairwise distinct;
the field blocks do not interfere (`SepOK3`: different Go fields, or children of the same nullable embedded message with
different names) -/
def PlanOKEs (X : String → TfVal → Prop) (skE : List String) : List Field → List (String × TfVal) → List (String × TfTy) → Prop
  | [], _, _ => True
  | f :: rest, attrs, atys =>
    (∃ a ty, attrs.lookup f.info.nameSnake = some a ∧ atys.lookup f.info.nameSnake = some ty ∧ PlanOKE X skE f a ty) ∧
    f.info.nameSnake ∉ rest.map (·.info.nameSnake) ∧ (∀ g ∈ rest, SepOK3 f.info g.info) ∧
    PlanOKEs X skE rest attrs atys
end

theorem planOKE_facts (X : String → TfVal → Prop) (skE : List String) (f : Field) (a : TfVal) (ty : TfTy)
    (hp : PlanOKE X skE f a ty) :
    f.info.oneOfName = "" ∧ (f.info.isPlaceholder = true → f.info.kind = .primitive) := by
  obtain ⟨info, mv, msg, sub⟩ := f
  unfold PlanOKE at hp
  rcases hp with hp | ⟨_, hph, hp⟩ | ⟨_, ho, hph, _⟩ | ⟨_, ho, hph, _⟩
  · obtain ⟨h1, _, h3⟩ := planOK_facts X _ a ty hp
    exact ⟨h1, h3⟩
  · obtain ⟨h1, _, _⟩ := planOK_facts X _ a ty hp
    exact ⟨h1, fun h => by simp only at h; rw [hph] at h; cases h⟩
  · exact ⟨ho, fun h => by simp only at h; rw [hph] at h; cases h⟩
  · exact ⟨ho, fun h => by simp only at h; rw [hph] at h; cases h⟩

theorem planOKEs_facts (X : String → TfVal → Prop) (skE : List String) : ∀ (fs : List Field) (attrs : List (String × TfVal))
    (atys : List (String × TfTy)), PlanOKEs X skE fs attrs atys →
    SepAll fs ∧ (∀ f ∈ fs, f.info.oneOfName = "") ∧ (∀ f ∈ fs, f.info.isPlaceholder = true → f.info.kind = .primitive) ∧
    (fs.map (·.info.nameSnake)).Nodup
  | [], _, _, _ => ⟨trivial, by simp, by simp, by simp⟩
  | f :: rest, attrs, atys, h => by
    unfold PlanOKEs at h
    obtain ⟨⟨a, ty, _, _, hp⟩, hn, hsep, hrest⟩ := h
    obtain ⟨h1, h2, h3, h4⟩ := planOKEs_facts X skE rest attrs atys hrest
    obtain ⟨ho, hphk⟩ := planOKE_facts X skE f a ty hp
    refine ⟨⟨hsep, h1⟩, ?_, ?_, by simp only [List.map_cons, List.nodup_cons]; exact ⟨hn, h4⟩⟩
    · intro g hg
      simp only [List.mem_cons] at hg
      rcases hg with rfl | hg
      · exact ho
      · exact h2 g hg
    · intro g hg
      simp only [List.mem_cons] at hg
      rcases hg with rfl | hg
      · exact hphk
      · exact h3 g hg

mutual

/-- **the echo of one field** under the judgement -/
theorem planOKE_fieldEcho (X : String → TfVal → Prop) (ov : List (String × String)) (skN skE : List String)
    (hX : ExtraOK X skN skE) : ∀ (f : Field) (a : TfVal) (ty : TfTy), PlanOKE X skE f a ty → FieldEcho ov skN skE f a ty
  | ⟨info, mv, msg, sub⟩, a, ty, hp => by
    unfold PlanOKE at hp
    rcases hp with hp | ⟨he, hph, hp⟩ | ⟨hk, ho, hph, hkeep⟩ | ⟨hk, ho, hph, hem, u, n, as, tys, rfl, rfl, hvt, hsub, hkn, hunk⟩
    · exact fieldEcho_plain X ov skN skE hX _ a ty hp
    · by_cases hk : info.kind = .primitive
      · exact fieldEcho_prim_embed X ov skN skE info mv msg sub a ty hk he hph hp
      · exact fieldEcho_nonprim_embed X ov skN skE hX info mv msg sub a ty hk he hph hp
    · exact fieldEcho_custom ov skN skE info mv msg sub a ty hk ho hph hkeep
    · have hB : known u n = true → Bundle ov skN skE sub (as.getD []) tys ∧
          ∀ g ∈ sub, PShape g.info (resetOneOfs ((msg.map (·.oneOfNames)).getD []) (.struct [])) := by
        intro hknown
        obtain ⟨hP, hkeys, hnames⟩ := hkn hknown
        exact ⟨planOKEs_bundle X ov skN skE hX sub (as.getD []) tys hP hkeys, fun g hg => pshape_fresh g.info _ (hnames g hg)⟩
      by_cases he : info.parentIsOptionalEmbed = true
      · -- the nested message is itself a child of a nullable embedded message
        refine fieldEcho_embed_transfer ov skN skE info mv msg sub _ _ (by simp [hk]) he hph ho ?_
          (fieldEcho_object ov skN skE (unembed info) mv msg sub u n as tys hk ho rfl hph hem hvt hsub hB hunk)
        have hk' : (unembed info).kind = .object := hk
        have hvt' : vkindOf (unembed info).tf.valueType = .obj := hvt
        unfold NonPrimShape
        refine ⟨by simp [hk'], ⟨by simp [TfVal.vkind, hvt'], by simp [TfVal.vkind]⟩, by simp [hk', TfVal.vkind],
          by simp [hk'], by simp [hk']⟩
      · exact fieldEcho_object ov skN skE info mv msg sub u n as tys hk ho (by simpa using he) hph hem hvt hsub hB hunk

theorem planOKEs_echos (X : String → TfVal → Prop) (ov : List (String × String)) (skN skE : List String)
    (hX : ExtraOK X skN skE) : ∀ (fs : List Field) (A : List (String × TfVal)) (atys : List (String × TfTy)),
    PlanOKEs X skE fs A atys →
    ∀ f ∈ fs, ∃ a ty, A.lookup f.info.nameSnake = some a ∧ atys.lookup f.info.nameSnake = some ty ∧ FieldEcho ov skN skE f a ty
  | [], _, _, _ => by simp
  | f :: rest, A, atys, h => by
    unfold PlanOKEs at h
    obtain ⟨⟨a, ty, hla, hlt, hp⟩, _, _, hrest⟩ := h
    intro g hg
    simp only [List.mem_cons] at hg
    rcases hg with rfl | hg
    · exact ⟨a, ty, hla, hlt, planOKE_fieldEcho X ov skN skE hX g a ty hp⟩
    · exact planOKEs_echos X ov skN skE hX rest A atys hrest g hg

/-- **the echo of the fields of one message** under the judgement -/
theorem planOKEs_bundle (X : String → TfVal → Prop) (ov : List (String × String)) (skN skE : List String)
    (hX : ExtraOK X skN skE) : ∀ (fs : List Field) (A : List (String × TfVal)) (atys : List (String × TfTy)),
    PlanOKEs X skE fs A atys → KeysOK X fs A → Bundle ov skN skE fs A atys
  | fs, A, atys, h, hkeys => by
    obtain ⟨hsep, hone, hphk, hnd⟩ := planOKEs_facts X skE fs A atys h
    exact bundle_of X ov skN skE hX fs A atys (planOKEs_echos X ov skN skE hX fs A atys h) hsep hone hphk hnd hkeys

end


-- ------------------------------------------------------------------------------------------------------
-- C08, the whole object

/-- the judgement for a whole plan object of message `m`: as `PlanObj`, with `PlanOKEs`; the parent pointer of a nullable
embedded message is not the holder of a oneof group -/
def PlanObjE (X : String → TfVal → Prop) (skE : List String) (m : Msg) (plan : TfVal) : Prop :=
  ∃ u n as atys, plan = .obj u n as (some atys) ∧ (u = false → n = false) ∧
    PlanOKEs X skE m.fields (as.getD []) atys ∧ KeysOK X m.fields (as.getD []) ∧
    ∀ g ∈ m.fields, g.info.parentIsOptionalEmbed = true → g.info.parentIsOptionalEmbedFieldName ∉ m.info.oneOfNames

/-- **C08, apply echo, with children of nullable embedded messages and custom types** – at the top level and in nested
messages reached through singular message fields, at every depth; everything `C08_echo` covers (the plain tree) elsewhere.
`skN` / `skE` are the skip lists of `Spec.noUnknownDeep` / `Spec.echoKeeps` (any lists); `X` describes the extra attributes.
Conclusion exactly as in `C08_echo`. -/
theorem C08_echo_embed (X : String → TfVal → Prop) (ov : List (String × String)) (m : Msg) (plan : TfVal) (skN skE : List String)
    (hX : ExtraOK X skN skE) (hp : PlanObjE X skE m plan) :
    ∃ s1 e s2, copyFrom ov m plan (.struct []) = .ok s1 ∧ s1.diags = [] ∧
      copyTo m s1.obj plan = .ok e ∧ e.diags = [] ∧
      copyFrom ov m e.tf (.struct []) = .ok s2 ∧ s2.diags = [] ∧
      noUnknownDeep skN e.tf = true ∧ echoKeeps skE plan e.tf = true ∧ nfEqFields m.fields s1.obj s2.obj = true := by
  obtain ⟨u, n, as, atys, rfl, hun, hP, hkeys, hnames⟩ := hp
  have hB := planOKEs_bundle X ov skN skE hX m.fields (as.getD []) atys hP hkeys
  have hps : ∀ g ∈ m.fields, PShape g.info (resetOneOfs m.info.oneOfNames (.struct [])) :=
    fun g hg => pshape_fresh g.info _ (hnames g hg)
  obtain ⟨o1, hs1, hrun1, _, hrest⟩ := hB as rfl (resetOneOfs m.info.oneOfNames (.struct [])) [] []
    (isStruct_resetOneOfs _ _ trivial) hps
  obtain ⟨A', hs2, hrun2, _, hkn, hkeep, hsecond⟩ := hrest [] []
  obtain ⟨o2, hs3, hrun3, _, hnf⟩ := hsecond (some A') rfl (resetOneOfs m.info.oneOfNames (.struct [])) [] []
    (isStruct_resetOneOfs _ _ trivial) hps
  refine ⟨{ obj := o1, diags := [], hooks := hs1 },
    { tf := .obj false false (some A') (some atys), diags := [], hooks := [] ++ hs2 },
    { obj := o2, diags := [], hooks := hs3 }, ?_, rfl, ?_, rfl, ?_, rfl, ?_, ?_, hnf⟩
  · simp [copyFrom, hrun1]
  · simp [copyTo, hrun2]
  · simp [copyFrom, hrun3]
  · simp only [noUnknownDeep, Bool.not_false, Bool.true_and]
    exact hkn
  · cases u with
    | true => cases as <;> simp [echoKeeps]
    | false =>
      have := hun rfl
      subst this
      cases as with
      | none => simp [echoKeeps]
      | some l =>
        simp only [echoKeeps, Bool.false_eq_true, if_false, beq_self_eq_true, Bool.true_and, Bool.false_or, Option.getD_some]
        exact hkeep

/-- **C08 in the shape of `PGT.Props.C08.C08_full`** with the skip lists of `Spec.c08Check`: whatever the three calls return,
they return no diagnostic and `c08Check` holds. (`customNames` is an opaque `partial def`: a custom attribute is either shown
to be in it – first alternative of clause (b) – or carries a value the hooks accept.) -/
theorem C08_echo_embed_check (X : String → TfVal → Prop) (ov : List (String × String)) (m : Msg) (plan : TfVal)
    (s1 : FromResult) (e : ToResult) (s2 : FromResult)
    (hX : ExtraOK X (injectedNames m.fields m.info.injected ++ customNames m.fields) (customNames m.fields))
    (hp : PlanObjE X (customNames m.fields) m plan)
    (h1 : copyFrom ov m plan (.struct []) = .ok s1) (h2 : copyTo m s1.obj plan = .ok e)
    (h3 : copyFrom ov m e.tf (.struct []) = .ok s2) :
    s1.diags = [] ∧ e.diags = [] ∧ s2.diags = [] ∧ c08Check m plan s1.obj e.tf s2.obj = true := by
  obtain ⟨s1', e', s2', h1', hd1, h2', hd2, h3', hd3, hkn, hkeep, hnf⟩ :=
    C08_echo_embed X ov m plan (injectedNames m.fields m.info.injected ++ customNames m.fields) (customNames m.fields) hX hp
  rw [h1] at h1'
  injection h1' with h1'
  subst h1'
  rw [h2] at h2'
  injection h2' with h2'
  subst h2'
  rw [h3] at h3'
  injection h3' with h3'
  subst h3'
  refine ⟨hd1, hd2, hd3, ?_⟩
  simp [c08Check, hkn, hkeep, hnf]


/-- the judgement extends `PlanOKs`: a message of the plain tree satisfies it -/
theorem planOKEs_of_planOKs (X : String → TfVal → Prop) (skE : List String) : ∀ (fs : List Field) (attrs : List (String × TfVal))
    (atys : List (String × TfTy)), PlanOKs X fs attrs atys → PlanOKEs X skE fs attrs atys
  | [], _, _, _ => trivial
  | f :: rest, attrs, atys, h => by
    have hpl := (planOKs_plain X (f :: rest) attrs atys h).1
    unfold PlanOKs at h
    obtain ⟨⟨a, ty, hla, hlt, hp⟩, hnS, hnN, hrest⟩ := h
    unfold PlanOKEs
    refine ⟨⟨a, ty, hla, hlt, ?_⟩, hnS, ?_, planOKEs_of_planOKs X skE rest attrs atys hrest⟩
    · obtain ⟨info, mv, msg, sub⟩ := f
      unfold PlanOKE
      exact Or.inl hp
    · intro g hg e
      exfalso
      obtain ⟨ho, he, _⟩ := hpl f (by simp)
      obtain ⟨ho', he', _⟩ := hpl g (by simp [hg])
      rw [wkey3_plain _ he ho, wkey3_plain _ he' ho'] at e
      exact hnN (by rw [e]; exact List.mem_map_of_mem hg)

/-- `PlanObjE` extends `PlanObj`: `C08_echo` is the special case of `C08_echo_embed` without embedded children and custom types -/
theorem planObjE_of_planObj (X : String → TfVal → Prop) (skE : List String) (m : Msg) (plan : TfVal) (h : PlanObj X m plan) :
    PlanObjE X skE m plan := by
  obtain ⟨u, n, as, atys, rfl, hun, hP, hkeys⟩ := h
  refine ⟨u, n, as, atys, rfl, hun, planOKEs_of_planOKs X skE _ _ _ hP, hkeys, ?_⟩
  intro g hg he
  rw [((planOKs_plain X m.fields _ atys hP).1 g hg).2.1] at he
  cases he

/-- The full statement of C08 (= `PGT.Props.C08.C08_full`, = `echo_full` of PGT/Proofs/Echo.lean): every IR, every plan.
`C08_echo_embed_check` proves it – with "no diagnostics" in addition – for plan objects satisfying `PlanObjE`. What is NOT
covered (beyond what `echo_full` lists for the plain tree: plans outside the judgement – wrong Go type, numbers out of range,
null values with a payload, null / unknown objects with attributes, null lists / maps with elements, duplicate names; lists /
maps of messages without fields; extra attributes outside `ExtraOK`):
* children of nullable embedded messages and custom-type fields **inside the elements of lists / maps of messages** (the
  elements are rebuilt from the element type on every CopyTo: needs the *fresh* rendering of these two templates and its
  read-back for decoded structs – `ToOK` (PGT/Proofs/ToAll.lean) demands `Reachable`, i.e. a non-nil parent, for message /
  list / map / custom children);
* … inside the elements of a list / map child of a nullable embedded message (clause (a) is plain below; a *message* child
  whose fields include (a) / (b) is covered by clause (c));
* … inside a **non-pointer** nested message whose planned value is null / unknown (the zero struct is rendered into an object
  without attributes: fresh rendering again), and inside nested messages without fields;
* oneof groups in the same message (all fields here are outside oneof groups; PGT/Proofs/EchoOneof.lean treats groups with
  the plain tree);
* a custom attribute that is *known* but not what the `CopyTo<S>` hook writes (e.g. a known null string, a known string not
  of the form `H(..)`, a known empty non-null list) and not named in the skip list of `echoKeeps`: the three calls still succeed
  without diagnostics, nothing is unknown and the second decode agrees (`fieldEcho_custom` needs the hypothesis for
  `echoKeeps` only), but `echoKeeps` fails for it – which is why `Spec.c08Check` skips `customNames`; `customNames` is an opaque
  `partial def`, so membership in it cannot be derived in Lean and is a hypothesis (first alternative of clause (b));
* the parent pointer of a nullable embedded message that is also the holder of a oneof group of the message (`PlanObjE`). -/
def echo_embed_full : Prop :=
  ∀ (ov : List (String × String)) (m : Msg) (plan : TfVal) (s1 : FromResult) (e : ToResult) (s2 : FromResult),
    copyFrom ov m plan (.struct []) = .ok s1 → copyTo m s1.obj plan = .ok e → copyFrom ov m e.tf (.struct []) = .ok s2 →
    c08Check m plan s1.obj e.tf s2.obj = true

-- ------------------------------------------------------------------------------------------------------
-- non-vacuity: a message with a string field, a nullable embedded message `Meta` with two string children, and a custom
-- string field; plan 1: one child known, the other unknown; plan 2: one child unknown, the other null

namespace EchoEmbedExample
open EchoExample

theorem rep_congr (i j : FieldInfo) (h1 : j.tf.valueCastFromType = i.tf.valueCastFromType) (hpt : j.protoType = i.protoType) :
    j.rep = i.rep := by
  unfold FieldInfo.rep
  rw [h1, hpt]

theorem castTo_congr (i j : FieldInfo) (h1 : j.tf.valueCastFromType = i.tf.valueCastFromType)
    (h2 : j.tf.valueCastToType = i.tf.valueCastToType) (hpt : j.protoType = i.protoType) (s : Sc) :
    j.castTo s = i.castTo s := by
  unfold FieldInfo.castTo
  rw [h2, rep_congr i j h1 hpt]

theorem castFrom_congr (i j : FieldInfo) (h1 : j.tf.valueCastFromType = i.tf.valueCastFromType) (hpt : j.protoType = i.protoType)
    (k : PrimK) (s : Sc) : j.castFrom k s = i.castFrom k s := by
  unfold FieldInfo.castFrom
  rw [rep_congr i j h1 hpt]

/-- the scalar hypotheses only look at the casts, the zero literal, the element value type, the proto type and the
nullability of a field -/
theorem scalarIR_congr (i j : FieldInfo) (k : PrimK) (h1 : j.tf.valueCastFromType = i.tf.valueCastFromType)
    (h2 : j.tf.valueCastToType = i.tf.valueCastToType) (h3 : j.tf.zeroValue = i.tf.zeroValue)
    (h4 : j.tf.elemValueType = i.tf.elemValueType) (hpt : j.protoType = i.protoType)
    (hn : j.isNullable = i.isNullable) (h : ScalarIR i k) : ScalarIR j k where
  rt := {
    ek := by rw [h4]; exact h.rt.ek
    inv := by
      intro s c hs hc
      rw [rep_congr i j h1 hpt] at hs
      rw [castTo_congr i j h1 h2 hpt] at hc
      simpa [castFrom_congr i j h1 hpt] using h.rt.inv s c hs hc
    invPtr := by
      intro hnn s hs
      rw [rep_congr i j h1 hpt] at hs
      rw [hn] at hnn
      simpa [castFrom_congr i j h1 hpt] using h.rt.invPtr hnn s hs }
  nullZero := by intro hnn; rw [hn] at hnn; rw [h3]; exact h.nullZero hnn
  cast := by
    intro hnn s hs
    rw [hn] at hnn
    rw [rep_congr i j h1 hpt] at hs
    simpa [castTo_congr i j h1 h2 hpt, h3] using h.cast hnn s hs

theorem leafOK_congr (i j : FieldInfo) (k : PrimK) (u n : Bool) (p : Sc) (h1 : j.tf.valueCastFromType = i.tf.valueCastFromType)
    (h2 : j.tf.valueCastToType = i.tf.valueCastToType) (hpt : j.protoType = i.protoType)
    (hn : j.isNullable = i.isNullable) (h : LeafOK i k u n p) : LeafOK j k u n p where
  castable := by simpa [castFrom_congr i j h1 hpt] using h.castable
  range := by simpa [castFrom_congr i j h1 hpt, castTo_congr i j h1 h2 hpt, hn] using h.range
  rangePtr := by simpa [castFrom_congr i j h1 hpt, hn] using h.rangePtr
  nullPayload := by simpa [castTo_congr i j h1 h2 hpt, rep_congr i j h1 hpt, hn] using h.nullPayload

/-- a `string` child of the nullable embedded message `Meta` -/
def child (name snake : String) : FieldInfo :=
  { strField name snake with parentIsOptionalEmbed := true, parentIsOptionalEmbedFieldName := "Meta" }

theorem child_plan (X : String → TfVal → Prop) (name snake : String) (u n : Bool) (v : List UInt8)
    (hnull : u = false → n = true → v = []) :
    PlanOK X ⟨unembed (child name snake), none, none, []⟩ (.prim .string u n (.str v)) (.prim .string) := by
  unfold PlanOK
  refine ⟨rfl, rfl, (fun h => by cases h), emptyOK_none [], ?_⟩
  exact ⟨.string, u, n, .str v, rfl, rfl, vk_string,
    Or.inr ⟨vk_string, scalarIR_congr (strField name snake) _ .string rfl rfl rfl rfl rfl rfl (strField_ir name snake),
      leafOK_congr (strField name snake) _ .string u n (.str v) rfl rfl rfl rfl (strField_leaf name snake u n v hnull)⟩⟩

def custom : FieldInfo := { name := "C", nameSnake := "c", kind := .custom, suffix := "X", protoType := "string" }

def msgE : Msg :=
  { info := { name := "M" },
    fields := [⟨strField "S" "s", none, none, []⟩, ⟨child "A" "a", none, none, []⟩, ⟨child "B" "b", none, none, []⟩,
               ⟨custom, none, none, []⟩] }

def atysE : List (String × TfTy) :=
  [("s", .prim .string), ("a", .prim .string), ("b", .prim .string), ("c", .prim .string)]

/-- `s` known, child `a` known ("hi"), child `b` unknown, the custom attribute `c` known: what the hook writes for "x" -/
def plan1 : TfVal :=
  .obj false false
    (some [("s", .prim .string false false (.str [115])),
           ("a", .prim .string false false (.str [104, 105])), ("b", .prim .string true false (.str [])),
           ("c", .prim .string false false (.str (hWrap [120])))])
    (some atysE)

/-- `s` unknown, child `a` unknown, child `b` null, `c` unknown: the embedded message stays nil -/
def plan2 : TfVal :=
  .obj false false
    (some [("s", .prim .string true false (.str [])),
           ("a", .prim .string true false (.str [])), ("b", .prim .string false true (.str [])),
           ("c", .prim .string true false (.str []))])
    (some atysE)

theorem sep_example : ∀ (f g : FieldInfo), wkey3 f ≠ wkey3 g → SepOK3 f g := fun _ _ h e => absurd e h

theorem planE_ok (s a b c : TfVal)
    (hs : PlanOK NoExtra ⟨strField "S" "s", none, none, []⟩ s (.prim .string))
    (ha : PlanOK NoExtra ⟨unembed (child "A" "a"), none, none, []⟩ a (.prim .string))
    (hb : PlanOK NoExtra ⟨unembed (child "B" "b"), none, none, []⟩ b (.prim .string))
    (hc : CustomPlan false c) :
    PlanObjE NoExtra [] msgE (.obj false false (some [("s", s), ("a", a), ("b", b), ("c", c)]) (some atysE)) := by
  refine ⟨false, false, _, atysE, rfl, fun _ => rfl, ?_, ?_, ?_⟩
  · unfold msgE
    simp only [Option.getD_some]
    unfold PlanOKEs
    refine ⟨⟨s, .prim .string, by rfl, by rfl, ?_⟩, by decide, ?_, ?_⟩
    · unfold PlanOKE
      exact Or.inl hs
    · intro g hg
      simp only [List.mem_cons, List.mem_nil_iff, or_false] at hg
      rcases hg with rfl | rfl | rfl <;> exact sep_example _ _ (by decide)
    unfold PlanOKEs
    refine ⟨⟨a, .prim .string, by rfl, by rfl, ?_⟩, by decide, ?_, ?_⟩
    · unfold PlanOKE
      exact Or.inr (Or.inl ⟨rfl, rfl, ha⟩)
    · intro g hg
      simp only [List.mem_cons, List.mem_nil_iff, or_false] at hg
      rcases hg with rfl | rfl
      · intro _
        exact Or.inr ⟨rfl, rfl, by decide⟩
      · exact sep_example _ _ (by decide)
    unfold PlanOKEs
    refine ⟨⟨b, .prim .string, by rfl, by rfl, ?_⟩, by decide, ?_, ?_⟩
    · unfold PlanOKE
      exact Or.inr (Or.inl ⟨rfl, rfl, hb⟩)
    · intro g hg
      simp only [List.mem_cons, List.mem_nil_iff, or_false] at hg
      subst hg
      exact sep_example _ _ (by decide)
    unfold PlanOKEs
    refine ⟨⟨c, .prim .string, by rfl, by rfl, ?_⟩, by decide, by simp, trivial⟩
    unfold PlanOKE
    exact Or.inr (Or.inr (Or.inl ⟨rfl, rfl, rfl, Or.inr hc⟩))
  · refine ⟨by simp, ?_⟩
    intro kv hkv
    simp only [Option.getD_some, List.mem_cons, List.mem_nil_iff, or_false] at hkv
    rcases hkv with rfl | rfl | rfl | rfl <;> exact Or.inl (by simp [msgE, strField, child, custom])
  · intro g hg _
    simp [msgE]

theorem plan1_ok : PlanObjE NoExtra [] msgE plan1 :=
  planE_ok _ _ _ _ (strField_plan NoExtra "S" "s" none false false [115] (by intro _ h; cases h))
    (child_plan NoExtra "A" "a" false false [104, 105] (by intro _ h; cases h))
    (child_plan NoExtra "B" "b" true false [] (by intro h; cases h))
    ⟨false, false, hWrap [120], rfl, fun _ => ⟨rfl, [120], rfl⟩⟩

theorem plan2_ok : PlanObjE NoExtra [] msgE plan2 :=
  planE_ok _ _ _ _ (strField_plan NoExtra "S" "s" none true false [] (by intro h; cases h))
    (child_plan NoExtra "A" "a" true false [] (by intro h; cases h))
    (child_plan NoExtra "B" "b" false true [] (fun _ _ => rfl))
    ⟨true, false, [], rfl, fun h => by cases h⟩

/-- the main theorem applies to both plans (no skip lists) -/
example : ∃ s1 e s2, copyFrom [] msgE plan1 (.struct []) = .ok s1 ∧ s1.diags = [] ∧
    copyTo msgE s1.obj plan1 = .ok e ∧ e.diags = [] ∧
    copyFrom [] msgE e.tf (.struct []) = .ok s2 ∧ s2.diags = [] ∧
    noUnknownDeep [] e.tf = true ∧ echoKeeps [] plan1 e.tf = true ∧ nfEqFields msgE.fields s1.obj s2.obj = true :=
  C08_echo_embed NoExtra [] msgE plan1 [] [] (extraOK_none [] []) plan1_ok

example : ∃ s1 e s2, copyFrom [] msgE plan2 (.struct []) = .ok s1 ∧ s1.diags = [] ∧
    copyTo msgE s1.obj plan2 = .ok e ∧ e.diags = [] ∧
    copyFrom [] msgE e.tf (.struct []) = .ok s2 ∧ s2.diags = [] ∧
    noUnknownDeep [] e.tf = true ∧ echoKeeps [] plan2 e.tf = true ∧ nfEqFields msgE.fields s1.obj s2.obj = true :=
  C08_echo_embed NoExtra [] msgE plan2 [] [] (extraOK_none [] []) plan2_ok

/-- the three calls, evaluated: no diagnostics, `noUnknownDeep`, `nfEqFields`; `nilAfter`: is the embedded message nil after
the first decode? (`Spec.echoKeeps` is defined by well-founded recursion and does not evaluate in the kernel; it is checked
on the echoed object below) -/
def runEcho (m : Msg) (plan : TfVal) (nilAfter : Bool) : Bool :=
  match copyFrom [] m plan (.struct []) with
  | .ok s1 =>
    match copyTo m s1.obj plan with
    | .ok e =>
      match copyFrom [] m e.tf (.struct []) with
      | .ok s2 =>
        s1.diags.isEmpty && e.diags.isEmpty && s2.diags.isEmpty &&
        noUnknownDeep [] e.tf && nfEqFields m.fields s1.obj s2.obj &&
        ((s1.obj.field? "Meta").isNone == nilAfter)
      | _ => false
    | _ => false
  | _ => false

def echoed (m : Msg) (plan : TfVal) : Option TfVal :=
  match copyFrom [] m plan (.struct []) with
  | .ok s1 =>
    match copyTo m s1.obj plan with
    | .ok e => some e.tf
    | _ => none
  | _ => none

/-- plan 1: the known child allocates the embedded message -/
example : runEcho msgE plan1 false = true := by decide +kernel

/-- … the unknown child `b` comes back known: the zero value of the allocated embedded message is written under the
`Null` flag of the plan (kept in place) -/
theorem echoed1 : echoed msgE plan1 = some (.obj false false
    (some [("s", .prim .string false false (.str [115])),
           ("a", .prim .string false false (.str [104, 105])), ("b", .prim .string false false (.str [])),
           ("c", .prim .string false false (.str (hWrap [120])))])
    (some atysE)) := by rfl

example : echoKeeps [] plan1 (.obj false false
    (some [("s", .prim .string false false (.str [115])),
           ("a", .prim .string false false (.str [104, 105])), ("b", .prim .string false false (.str [])),
           ("c", .prim .string false false (.str (hWrap [120])))])
    (some atysE)) = true := by
  simp [plan1, echoKeeps, echoKeepsAs, TfVal.beq, List.lookup]

/-- plan 2: no child is known, the embedded message stays nil -/
example : runEcho msgE plan2 true = true := by decide +kernel

/-- … CopyTo renders both children null – the known-null one is kept, the unknown one becomes null –, and the second decode
agrees (the embedded message stays nil) -/
theorem echoed2 : echoed msgE plan2 = some (.obj false false
    (some [("s", .prim .string false false (.str [])),
           ("a", .prim .string false true (.str [])), ("b", .prim .string false true (.str [])),
           ("c", .prim .string false false (.str (hWrap [])))])
    (some atysE)) := by rfl

example : echoKeeps [] plan2 (.obj false false
    (some [("s", .prim .string false false (.str [])),
           ("a", .prim .string false true (.str [])), ("b", .prim .string false true (.str [])),
           ("c", .prim .string false false (.str (hWrap [])))])
    (some atysE)) = true := by
  simp [plan2, echoKeeps, echoKeepsAs, TfVal.beq, List.lookup]

-- a deeper example: a nested message `N` (pointer) whose fields are a string child and a string-list child of the nullable
-- embedded message `Meta`, and a custom string field – clauses (a) scalar, (a) list, (b) and (c)

theorem vk_list : vkindOf "types.List" = .list := by decide

/-- a `[]string` child of the nullable embedded message `Meta` -/
def childList (name snake : String) : FieldInfo :=
  { name := name, nameSnake := snake, kind := .primitiveList, isRepeated := true,
    tf := { type := "types.ListType", valueType := "types.List", elemType := "types.StringType",
            elemValueType := "types.String", isElemTypeScalar := true, valueCastToType := "string",
            valueCastFromType := "string", zeroValue := "\"\"" },
    goType := "[]string", goElemType := "string", protoType := "string",
    parentIsOptionalEmbed := true, parentIsOptionalEmbedFieldName := "Meta" }

/-- a planned list of strings: any flags; a known null list has no elements -/
theorem childList_plan (X : String → TfVal → Prop) (name snake : String) (u n : Bool) (es : Option (List TfVal)) (et : Option TfTy)
    (hel : ∀ e ∈ es.getD [], ∃ u' n' v, e = .prim .string u' n' (.str v))
    (hnull : u = false → n = true → es.getD [] = []) :
    PlanOK X ⟨unembed (childList name snake), none, none, []⟩ (.list u n es et) (.list (some (.prim .string))) := by
  have hir : ScalarIR (unembed (childList name snake)) .string :=
    scalarIR_congr (strField name snake) _ .string rfl rfl rfl rfl rfl rfl (strField_ir name snake)
  unfold PlanOK
  refine ⟨rfl, rfl, (fun h => by cases h), emptyOK_none [], ?_⟩
  refine ⟨u, n, es, et, .string, rfl, rfl, vk_list, rfl, hir, ?_, hnull⟩
  intro _ e he
  obtain ⟨u', n', v, rfl⟩ := hel e he
  refine ⟨u', n', .str v, rfl, fun _ => ⟨.str v, ?_⟩⟩
  rw [castFrom_congr (strField name snake) (unembed (childList name snake)) rfl rfl]
  exact strField_castFrom name snake v

def subN : List Field :=
  [⟨child "A" "a", none, none, []⟩, ⟨childList "L" "l", none, none, []⟩, ⟨custom, none, none, []⟩]

def msgD : Msg :=
  { info := { name := "D" },
    fields := [⟨strField "S" "s", none, none, []⟩, ⟨nested, none, some { name := "N" }, subN⟩] }

def tysN : List (String × TfTy) := [("a", .prim .string), ("l", .list (some (.prim .string))), ("c", .prim .string)]
def atysD : List (String × TfTy) := [("s", .prim .string), ("n", .obj (some tysN))]

def planD (n : TfVal) : TfVal :=
  .obj false false (some [("s", .prim .string false false (.str [115])), ("n", n)]) (some atysD)

/-- inside `n`: child `a` unknown, the list child `l` known with one element, `c` known -/
def nD1 : TfVal :=
  .obj false false
    (some [("a", .prim .string true false (.str [])),
           ("l", .list false false (some [.prim .string false false (.str [120])]) (some (.prim .string))),
           ("c", .prim .string false false (.str (hWrap [121])))])
    (some tysN)

/-- inside `n`: child `a` null, the list child `l` null, `c` unknown: the embedded message of `N` stays nil -/
def nD2 : TfVal :=
  .obj false false
    (some [("a", .prim .string false true (.str [])),
           ("l", .list false true none (some (.prim .string))),
           ("c", .prim .string true false (.str []))])
    (some tysN)

/-- `n` unknown -/
def nD3 : TfVal := .obj true false none (some tysN)

theorem subN_ok (a l c : TfVal)
    (ha : PlanOK NoExtra ⟨unembed (child "A" "a"), none, none, []⟩ a (.prim .string))
    (hl : PlanOK NoExtra ⟨unembed (childList "L" "l"), none, none, []⟩ l (.list (some (.prim .string))))
    (hc : CustomPlan false c) :
    PlanOKEs NoExtra [] subN [("a", a), ("l", l), ("c", c)] tysN ∧ KeysOK NoExtra subN [("a", a), ("l", l), ("c", c)] := by
  refine ⟨?_, by simp, ?_⟩
  · unfold subN PlanOKEs
    refine ⟨⟨a, .prim .string, by rfl, by rfl, ?_⟩, by decide, ?_, ?_⟩
    · unfold PlanOKE
      exact Or.inr (Or.inl ⟨rfl, rfl, ha⟩)
    · intro g hg
      simp only [List.mem_cons, List.mem_nil_iff, or_false] at hg
      rcases hg with rfl | rfl
      · intro _
        exact Or.inr ⟨rfl, rfl, by decide⟩
      · exact sep_example _ _ (by decide)
    unfold PlanOKEs
    refine ⟨⟨l, .list (some (.prim .string)), by rfl, by rfl, ?_⟩, by decide, ?_, ?_⟩
    · unfold PlanOKE
      exact Or.inr (Or.inl ⟨rfl, rfl, hl⟩)
    · intro g hg
      simp only [List.mem_cons, List.mem_nil_iff, or_false] at hg
      subst hg
      exact sep_example _ _ (by decide)
    unfold PlanOKEs
    refine ⟨⟨c, .prim .string, by rfl, by rfl, ?_⟩, by decide, by simp, trivial⟩
    unfold PlanOKE
    exact Or.inr (Or.inr (Or.inl ⟨rfl, rfl, rfl, Or.inr hc⟩))
  · intro kv hkv
    simp only [List.mem_cons, List.mem_nil_iff, or_false] at hkv
    rcases hkv with rfl | rfl | rfl <;> exact Or.inl (by simp [subN, child, childList, custom, strField])

theorem planD_ok (n : TfVal) (hn : PlanOKE NoExtra [] ⟨nested, none, some { name := "N" }, subN⟩ n (.obj (some tysN))) :
    PlanObjE NoExtra [] msgD (planD n) := by
  refine ⟨false, false, _, atysD, rfl, fun _ => rfl, ?_, ?_, ?_⟩
  · unfold msgD
    simp only [Option.getD_some]
    unfold PlanOKEs
    refine ⟨⟨_, .prim .string, by rfl, by rfl, ?_⟩, by decide, ?_, ?_⟩
    · unfold PlanOKE
      exact Or.inl (strField_plan NoExtra "S" "s" none false false [115] (by intro _ h; cases h))
    · intro g hg
      simp only [List.mem_cons, List.mem_nil_iff, or_false] at hg
      subst hg
      exact sep_example _ _ (by decide)
    unfold PlanOKEs
    exact ⟨⟨n, .obj (some tysN), by rfl, by rfl, hn⟩, by decide, by simp, trivial⟩
  · refine ⟨by simp, ?_⟩
    intro kv hkv
    simp only [Option.getD_some, List.mem_cons, List.mem_nil_iff, or_false] at hkv
    rcases hkv with rfl | rfl <;> exact Or.inl (by simp [msgD, strField, nested])
  · intro g hg
    simp only [msgD, List.mem_cons, List.mem_nil_iff, or_false] at hg
    rcases hg with rfl | rfl <;> (intro h; cases h)

/-- clause (c) for a known object -/
theorem nested_known (a l c : TfVal)
    (ha : PlanOK NoExtra ⟨unembed (child "A" "a"), none, none, []⟩ a (.prim .string))
    (hl : PlanOK NoExtra ⟨unembed (childList "L" "l"), none, none, []⟩ l (.list (some (.prim .string))))
    (hc : CustomPlan false c) :
    PlanOKE NoExtra [] ⟨nested, none, some { name := "N" }, subN⟩
      (.obj false false (some [("a", a), ("l", l), ("c", c)]) (some tysN)) (.obj (some tysN)) := by
  unfold PlanOKE
  refine Or.inr (Or.inr (Or.inr ⟨rfl, rfl, rfl, rfl, false, false, _, tysN, rfl, rfl, vk_object, by decide, ?_,
    by intro h; cases h⟩))
  intro _
  obtain ⟨h1, h2⟩ := subN_ok a l c ha hl hc
  refine ⟨h1, h2, ?_⟩
  intro g _ _
  simp

theorem planD1_ok : PlanObjE NoExtra [] msgD (planD nD1) :=
  planD_ok _ (nested_known _ _ _ (child_plan NoExtra "A" "a" true false [] (by intro h; cases h))
    (childList_plan NoExtra "L" "l" false false _ _
      (by intro e he; simp only [Option.getD_some, List.mem_singleton] at he; subst he; exact ⟨_, _, _, rfl⟩)
      (by intro _ h; cases h))
    ⟨false, false, hWrap [121], rfl, fun _ => ⟨rfl, [121], rfl⟩⟩)

theorem planD2_ok : PlanObjE NoExtra [] msgD (planD nD2) :=
  planD_ok _ (nested_known _ _ _ (child_plan NoExtra "A" "a" false true [] (fun _ _ => rfl))
    (childList_plan NoExtra "L" "l" false true none _ (by intro e he; simp at he) (fun _ _ => rfl))
    ⟨true, false, [], rfl, fun h => by cases h⟩)

theorem planD3_ok : PlanObjE NoExtra [] msgD (planD nD3) := by
  refine planD_ok _ ?_
  unfold PlanOKE
  exact Or.inr (Or.inr (Or.inr ⟨rfl, rfl, rfl, rfl, true, false, none, tysN, rfl, rfl, vk_object, by decide,
    (by intro h; cases h), fun _ => ⟨rfl, rfl⟩⟩))

/-- the main theorem applies to the three plans -/
example (n : TfVal) (hn : n = nD1 ∨ n = nD2 ∨ n = nD3) :
    ∃ s1 e s2, copyFrom [] msgD (planD n) (.struct []) = .ok s1 ∧ s1.diags = [] ∧
      copyTo msgD s1.obj (planD n) = .ok e ∧ e.diags = [] ∧
      copyFrom [] msgD e.tf (.struct []) = .ok s2 ∧ s2.diags = [] ∧
      noUnknownDeep [] e.tf = true ∧ echoKeeps [] (planD n) e.tf = true ∧ nfEqFields msgD.fields s1.obj s2.obj = true := by
  rcases hn with rfl | rfl | rfl
  · exact C08_echo_embed NoExtra [] msgD _ [] [] (extraOK_none [] []) planD1_ok
  · exact C08_echo_embed NoExtra [] msgD _ [] [] (extraOK_none [] []) planD2_ok
  · exact C08_echo_embed NoExtra [] msgD _ [] [] (extraOK_none [] []) planD3_ok

/-- … evaluated (no diagnostics, `noUnknownDeep`, `nfEqFields`); `metaNil`: is the embedded message of the decoded `N` nil? -/
def runEchoD (plan : TfVal) (metaNil : Bool) : Bool :=
  match copyFrom [] msgD plan (.struct []) with
  | .ok s1 =>
    match copyTo msgD s1.obj plan with
    | .ok e =>
      match copyFrom [] msgD e.tf (.struct []) with
      | .ok s2 =>
        s1.diags.isEmpty && e.diags.isEmpty && s2.diags.isEmpty &&
        noUnknownDeep [] e.tf && nfEqFields msgD.fields s1.obj s2.obj &&
        ((match s1.obj.field? "N" with
          | some (.ptr (some inner)) => (inner.field? "Meta").isNone
          | _ => true) == metaNil)
      | _ => false
    | _ => false
  | _ => false

example : runEchoD (planD nD1) false = true := by decide +kernel
example : runEchoD (planD nD2) true = true := by decide +kernel
example : runEchoD (planD nD3) true = true := by decide +kernel

/-- plan 2 echoed: the null list child of the nil embedded message stays a null list (no elements) -/
example : echoed msgD (planD nD2) = some (.obj false false
    (some [("s", .prim .string false false (.str [115])),
           ("n", .obj false false
              (some [("a", .prim .string false true (.str [])),
                     ("l", .list false true (some []) (some (.prim .string))),
                     ("c", .prim .string false false (.str (hWrap [])))])
              (some tysN))])
    (some atysD)) := by rfl

end EchoEmbedExample

end PGT
