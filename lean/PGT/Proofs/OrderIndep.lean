import PGT.Proofs.ToCongr
import PGT.Proofs.ToWriter
import PGT.Proofs.FromUniform
import PGT.Proofs.FromFrame
/-
C15, behavioural part: the declaration order of the fields of a message never changes what the emitted converters do.

CopyTo (sections 1): `copyToField_swap`, `copyToFields_perm`, `copyTo_perm` – for ALL inputs; hypothesis: pairwise
distinct attribute names.  Outcomes are compared up to `StEquiv`: the same value under every attribute name, diagnostics
and hook calls up to order; "both succeed or both fail" (the failure that is *reported* is the one of the first failing
block in the respective order and may differ: `copyToFields_failure_differs`).

CopyFrom (sections 2-4): the writer law `fromFields_writerF` (diagnostics / hook calls are only appended, every depth);
the normal form `blockF_nf` of a block; `blockF_swap`, `copyFromFields_perm`, `copyFrom_perm` – for every IR without
children of nullable embedded messages (`NoEmbed`), every Terraform value and every target (struct or not).  Hypothesis
`Indep`: two blocks assign different Go fields (`wk`: the holder of the group for oneof branches, else the field
itself) or one of them is a oneof branch whose attribute is not known; `Sep` is the form "at most one branch attribute
of each group is known".  `copyFromFields_oneof_order_matters`: without it the order does matter.

The general case (children of nullable embedded messages included, struct targets) is in OrderIndepEmbed.lean:
`copyFromFields_perm_full`, `copyFrom_perm_full`.
-/
namespace PGT
namespace OrderIndep

-- ------------------------------------------------------------------------------------------------------
-- 0. outcomes up to a relation on states; sequencing

/-- both runs succeed with related states, or both fail (the failure reported may differ: it is the one of the block
that comes first in the respective order) -/
def OutRel {α : Type} (R : α → α → Prop) (r r' : Outcome α) : Prop :=
  match r, r' with
  | .ok s, .ok s' => R s s'
  | .ok _, _ => False
  | _, .ok _ => False
  | _, _ => True

section
variable {α : Type} (R : α → α → Prop)
@[simp] theorem outRel_ok_ok (s s' : α) : OutRel R (.ok s) (.ok s') ↔ R s s' := Iff.rfl
@[simp] theorem outRel_ok_panic (s : α) (w : String) : OutRel R (.ok s) (.panic w) ↔ False := Iff.rfl
@[simp] theorem outRel_ok_stuck (s : α) (w : String) : OutRel R (.ok s) (.stuck w) ↔ False := Iff.rfl
@[simp] theorem outRel_panic_ok (s : α) (w : String) : OutRel R (.panic w) (.ok s) ↔ False := Iff.rfl
@[simp] theorem outRel_stuck_ok (s : α) (w : String) : OutRel R (.stuck w) (.ok s) ↔ False := Iff.rfl
@[simp] theorem outRel_panic_panic (w w' : String) : OutRel R (.panic w : Outcome α) (.panic w') ↔ True := Iff.rfl
@[simp] theorem outRel_panic_stuck (w w' : String) : OutRel R (.panic w : Outcome α) (.stuck w') ↔ True := Iff.rfl
@[simp] theorem outRel_stuck_panic (w w' : String) : OutRel R (.stuck w : Outcome α) (.panic w') ↔ True := Iff.rfl
@[simp] theorem outRel_stuck_stuck (w w' : String) : OutRel R (.stuck w : Outcome α) (.stuck w') ↔ True := Iff.rfl
end

theorem OutRel.refl {α : Type} {R : α → α → Prop} (hR : ∀ a, R a a) (r : Outcome α) : OutRel R r r := by
  cases r <;> simp [hR]

theorem OutRel.trans {α : Type} {R : α → α → Prop} (hR : ∀ a b c, R a b → R b c → R a c) {r r' r'' : Outcome α}
    (h : OutRel R r r') (h' : OutRel R r' r'') : OutRel R r r'' := by
  cases r <;> cases r' <;> cases r'' <;> simp_all
  exact hR _ _ _ h h'

/-- sequencing of blocks -/
def obind {α : Type} (r : Outcome α) (k : α → Outcome α) : Outcome α :=
  match r with
  | .ok t => k t
  | .panic w => .panic w
  | .stuck w => .stuck w

/-- a run continues the same way from related intermediate results -/
theorem outRel_bind {α : Type} {R : α → α → Prop} (r r' : Outcome α) (k k' : α → Outcome α) (h : OutRel R r r')
    (hk : ∀ t t', R t t' → OutRel R (k t) (k' t')) : OutRel R (obind r k) (obind r' k') := by
  cases r <;> cases r' <;> simp only [obind] <;> first | exact hk _ _ h | exact h.elim | trivial

theorem outRel_ok_iff {α : Type} {R : α → α → Prop} {r r' : Outcome α} (h : OutRel R r r') :
    (∃ s, r = .ok s) ↔ (∃ s, r' = .ok s) := by
  cases r <;> cases r' <;> simp_all

-- ------------------------------------------------------------------------------------------------------
-- 1. CopyTo

/-- what one CopyTo block does, abstractly: nothing / store one value under its own attribute name, append diagnostics,
append hook calls – or fail -/
abbrev ToAct := Outcome (Option TfVal × List Diag × List HookCall)

/-- store nothing / one value under `k` -/
def upd (k : String) (w : Option TfVal) (A : List (String × TfVal)) : List (String × TfVal) :=
  match w with
  | none => A
  | some v => setKey k v A

theorem lookup_upd_other (k : String) (w : Option TfVal) (A : List (String × TfVal)) (key : String) (h : key ≠ k) :
    (upd k w A).lookup key = A.lookup key := by
  cases w with
  | none => rfl
  | some v => exact lookup_setKey_other _ _ _ h _

def applyAct (k : String) (a : ToAct) (st : ToSt) : Outcome ToSt :=
  match a with
  | .ok (w, ds, hs) => .ok { attrs := upd k w st.attrs, diags := st.diags ++ ds, hooks := st.hooks ++ hs }
  | .panic w => .panic w
  | .stuck w => .stuck w

theorem applyAct_shift (k : String) (a : ToAct) (st : ToSt) :
    (applyAct k a { attrs := st.attrs, diags := [], hooks := [] }).mapO (shiftSt st.diags st.hooks) = applyAct k a st := by
  cases a with
  | ok r => obtain ⟨w, ds, hs⟩ := r; simp [applyAct, Outcome.mapO, shiftSt]
  | panic w => rfl
  | stuck w => rfl

/-- `F` (a block as a function of the attribute map it starts from, no diagnostics / hook calls yet) is an action on
the attribute `k` -/
def IsAct (k : String) (F : List (String × TfVal) → Outcome ToSt) : Prop :=
  ∃ a : ToAct, ∀ A, F A = applyAct k a { attrs := A, diags := [], hooks := [] }

theorem isAct_same (k : String) (d : List Diag) (h : List HookCall) :
    IsAct k (fun A => .ok { attrs := A, diags := d, hooks := h }) :=
  ⟨.ok (none, d, h), fun A => by simp [applyAct, upd]⟩

theorem isAct_set (k : String) (v : TfVal) (d : List Diag) (h : List HookCall) :
    IsAct k (fun A => .ok { attrs := setKey k v A, diags := d, hooks := h }) :=
  ⟨.ok (some v, d, h), fun A => by simp [applyAct, upd]⟩

theorem isAct_panic (k : String) (w : String) : IsAct k (fun _ => .panic w) := ⟨.panic w, fun _ => rfl⟩
theorem isAct_stuck (k : String) (w : String) : IsAct k (fun _ => .stuck w) := ⟨.stuck w, fun _ => rfl⟩

macro "act_crush" : tactic => `(tactic| repeat' (first
  | exact isAct_same _ _ _ | exact isAct_set _ _ _ _ | exact isAct_panic _ _ | exact isAct_stuck _ _ | split))

theorem listOrMap_isAct (rec : ToRec) (info : FieldInfo) (msg : Option MsgInfo) (se : Bool) (obj0 : GoVal)
    (cur : Option TfVal) (ety : Option TfTy) (src : GoVal) :
    IsAct info.nameSnake
      (fun A => listOrMapBody rec info msg se obj0 cur ety src { attrs := A, diags := [], hooks := [] }) := by
  unfold listOrMapBody
  simp only [ToSt.set]
  act_crush

/-- one block from a state without diagnostics / hook calls: its action is determined by the value found under its own
attribute name -/
theorem fieldWith_nf (rec : ToRec) (info : FieldInfo) (msg : Option MsgInfo) (se : Bool) (obj0 : GoVal)
    (atys : Option (List (String × TfTy))) (cur : Option TfVal) :
    ∃ a : ToAct, ∀ A : List (String × TfVal), A.lookup info.nameSnake = cur →
      copyToFieldWith rec info msg se obj0 atys { attrs := A, diags := [], hooks := [] } =
        applyAct info.nameSnake a { attrs := A, diags := [], hooks := [] } := by
  cases hl : List.lookup info.nameSnake (atys.getD []) with
  | none =>
    refine ⟨.ok (none, [.writeMissing info.path], []), fun A hA => ?_⟩
    unfold copyToFieldWith
    simp only [hl]
    rfl
  | some a =>
    cases hk : info.kind with
    | primitive =>
      cases hp : primBody info (oneOfShadow info obj0) cur (some a) (readField info (oneOfShadow info obj0)) with
      | ok r =>
        refine ⟨.ok (some r.1, r.2, []), fun A hA => ?_⟩
        unfold copyToFieldWith
        simp only [hl, hk, hA, hp]
        simp [applyAct, upd, ToSt.set]
      | panic w =>
        refine ⟨.panic w, fun A hA => ?_⟩
        unfold copyToFieldWith
        simp only [hl, hk, hA, hp]
        rfl
      | stuck w =>
        refine ⟨.stuck w, fun A hA => ?_⟩
        unfold copyToFieldWith
        simp only [hl, hk, hA, hp]
        rfl
    | object =>
      cases a with
      | obj oty =>
        cases hp : objBody rec info msg se cur oty (readField info (oneOfShadow info obj0)) [] [] with
        | ok r =>
          refine ⟨.ok (some r.1, r.2.1, r.2.2), fun A hA => ?_⟩
          unfold copyToFieldWith
          simp only [hl, hk, hA, hp]
          simp [applyAct, upd]
        | panic w =>
          refine ⟨.panic w, fun A hA => ?_⟩
          unfold copyToFieldWith
          simp only [hl, hk, hA, hp]
          rfl
        | stuck w =>
          refine ⟨.stuck w, fun A hA => ?_⟩
          unfold copyToFieldWith
          simp only [hl, hk, hA, hp]
          rfl
      | _ =>
        refine ⟨.ok (none, [.writeConv info.path info.tf.type], []), fun A hA => ?_⟩
        unfold copyToFieldWith
        simp only [hl, hk]
        rfl
    | custom =>
      cases hr : readField info obj0 with
      | ok x =>
        cases hh : hookTo info.isRepeated x with
        | some v =>
          refine ⟨.ok (some v, [], [.copyTo ("CopyTo" ++ info.suffix) x (some a) (cur.getD .nilv)]), fun A hA => ?_⟩
          unfold copyToFieldWith
          simp only [hl, hk, hA, hr, hh]
          simp [applyAct, upd, ToSt.set]
        | none =>
          refine ⟨.stuck "custom value of an unmodelled Go type", fun A hA => ?_⟩
          unfold copyToFieldWith
          simp only [hl, hk, hr, hh]
          rfl
      | panic w =>
        refine ⟨.panic w, fun A hA => ?_⟩
        unfold copyToFieldWith
        simp only [hl, hk, hr]
        rfl
      | stuck w =>
        refine ⟨.stuck w, fun A hA => ?_⟩
        unfold copyToFieldWith
        simp only [hl, hk, hr]
        rfl
    | primitiveList | objectList | primitiveMap | objectMap =>
      by_cases hrep : info.isRepeated = true
      · cases a with
        | list e =>
          cases hr : readField info obj0 with
          | ok src =>
            obtain ⟨a', ha'⟩ := listOrMap_isAct rec info msg se obj0 cur e src
            refine ⟨a', fun A hA => ?_⟩
            unfold copyToFieldWith
            simp only [hl, hk, hA, hr, hrep, if_true]
            exact ha' A
          | panic w =>
            refine ⟨.panic w, fun A hA => ?_⟩
            unfold copyToFieldWith
            simp only [hl, hk, hr, hrep, if_true]
            rfl
          | stuck w =>
            refine ⟨.stuck w, fun A hA => ?_⟩
            unfold copyToFieldWith
            simp only [hl, hk, hr, hrep, if_true]
            rfl
        | _ =>
          refine ⟨.ok (none, [.writeConv info.path info.tf.type], []), fun A hA => ?_⟩
          unfold copyToFieldWith
          simp only [hl, hk, hrep, if_true]
          rfl
      · cases a with
        | map e =>
          cases hr : readField info obj0 with
          | ok src =>
            obtain ⟨a', ha'⟩ := listOrMap_isAct rec info msg se obj0 cur e src
            refine ⟨a', fun A hA => ?_⟩
            unfold copyToFieldWith
            simp only [hl, hk, hA, hr, hrep]
            exact ha' A
          | panic w =>
            refine ⟨.panic w, fun A hA => ?_⟩
            unfold copyToFieldWith
            simp only [hl, hk, hr, hrep]
            rfl
          | stuck w =>
            refine ⟨.stuck w, fun A hA => ?_⟩
            unfold copyToFieldWith
            simp only [hl, hk, hr, hrep]
            rfl
        | _ =>
          refine ⟨.ok (none, [.writeConv info.path info.tf.type], []), fun A hA => ?_⟩
          unfold copyToFieldWith
          simp only [hl, hk, hrep]
          rfl

/-- **normal form of a CopyTo block**: for every value `cur` there is one action such that, from every state holding
`cur` under the block's attribute name, the block performs that action (stores nothing / one value under its own name,
appends diagnostics and hook calls, or fails) -/
theorem copyToField_nf (f : Field) (obj : GoVal) (atys : Option (List (String × TfTy))) (cur : Option TfVal) :
    ∃ a : ToAct, ∀ st : ToSt, st.attrs.lookup f.info.nameSnake = cur →
      copyToField f obj atys st = applyAct f.info.nameSnake a st := by
  obtain ⟨info, mv, msg, sub⟩ := f
  obtain ⟨a, ha⟩ := fieldWith_nf (fun o a s => copyToFields sub o a s) info msg sub.isEmpty obj atys cur
  refine ⟨a, fun st hst => ?_⟩
  rw [copyToField_rebase, ← applyAct_shift]
  simp only [copyToField]
  rw [ha st.attrs hst]

/-- two states of a CopyTo run that cannot be told apart: the same value under every attribute name, the same
diagnostics and hook calls up to order -/
def StEquiv (s s' : ToSt) : Prop :=
  (∀ key, s.attrs.lookup key = s'.attrs.lookup key) ∧ s.diags.Perm s'.diags ∧ s.hooks.Perm s'.hooks

theorem StEquiv.refl (s : ToSt) : StEquiv s s := ⟨fun _ => rfl, List.Perm.refl _, List.Perm.refl _⟩
theorem StEquiv.symm {s s' : ToSt} (h : StEquiv s s') : StEquiv s' s := ⟨fun k => (h.1 k).symm, h.2.1.symm, h.2.2.symm⟩
theorem StEquiv.trans {s s' s'' : ToSt} (h : StEquiv s s') (h' : StEquiv s' s'') : StEquiv s s'' :=
  ⟨fun k => (h.1 k).trans (h'.1 k), h.2.1.trans h'.2.1, h.2.2.trans h'.2.2⟩

/-- both runs succeed with equivalent states, or both fail -/
abbrev OutEquiv (r r' : Outcome ToSt) : Prop := OutRel StEquiv r r'

theorem lookup_setKey_congr (k : String) (v : TfVal) (A A' : List (String × TfVal))
    (h : ∀ key, A.lookup key = A'.lookup key) : ∀ key, (setKey k v A).lookup key = (setKey k v A').lookup key := by
  intro key
  by_cases e : key = k
  · subst e; rw [lookup_setKey_same, lookup_setKey_same]
  · rw [lookup_setKey_other _ _ _ e, lookup_setKey_other _ _ _ e]; exact h key

/-- the same action from two equivalent states -/
theorem applyAct_equiv (k : String) (a : ToAct) (s s' : ToSt) (h : StEquiv s s') :
    OutEquiv (applyAct k a s) (applyAct k a s') := by
  cases a with
  | ok r =>
    obtain ⟨w, ds, hs⟩ := r
    simp only [applyAct, outRel_ok_ok]
    refine ⟨?_, h.2.1.append_right _, h.2.2.append_right _⟩
    cases w with
    | none => exact h.1
    | some v => exact lookup_setKey_congr k v _ _ h.1
  | panic w => simp [applyAct]
  | stuck w => simp [applyAct]

/-- one block respects the equivalence of states -/
theorem copyToField_equiv (f : Field) (obj : GoVal) (atys : Option (List (String × TfTy))) (s s' : ToSt)
    (h : StEquiv s s') : OutEquiv (copyToField f obj atys s) (copyToField f obj atys s') := by
  obtain ⟨a, ha⟩ := copyToField_nf f obj atys (s.attrs.lookup f.info.nameSnake)
  rw [ha s rfl, ha s' (h.1 _).symm]
  exact applyAct_equiv _ a s s' h

theorem copyToFields_cons (f : Field) (rest : List Field) (obj : GoVal) (atys : Option (List (String × TfTy))) (st : ToSt) :
    copyToFields (f :: rest) obj atys st = obind (copyToField f obj atys st) (copyToFields rest obj atys) := by
  simp only [copyToFields, obind]
  cases copyToField f obj atys st <;> rfl

theorem copyToFields_cons2 (f g : Field) (rest : List Field) (obj : GoVal) (atys : Option (List (String × TfTy)))
    (st : ToSt) :
    copyToFields (f :: g :: rest) obj atys st =
      obind (obind (copyToField f obj atys st) (copyToField g obj atys)) (copyToFields rest obj atys) := by
  rw [copyToFields_cons]
  cases copyToField f obj atys st with
  | ok t => simp only [obind]; rw [copyToFields_cons]; rfl
  | panic w => rfl
  | stuck w => rfl

/-- the blocks of a field list respect the equivalence of states -/
theorem copyToFields_equiv (obj : GoVal) (atys : Option (List (String × TfTy))) :
    ∀ (fs : List Field) (s s' : ToSt), StEquiv s s' → OutEquiv (copyToFields fs obj atys s) (copyToFields fs obj atys s')
  | [], s, s', h => by simpa [copyToFields] using h
  | f :: rest, s, s', h => by
    rw [copyToFields_cons, copyToFields_cons]
    exact outRel_bind _ _ _ _ (copyToField_equiv f obj atys s s' h) (fun t t' ht => copyToFields_equiv obj atys rest t t' ht)

theorem lookup_upd_congr (k : String) (w : Option TfVal) (A B : List (String × TfVal)) (key : String)
    (h : A.lookup key = B.lookup key) : (upd k w A).lookup key = (upd k w B).lookup key := by
  cases w with
  | none => exact h
  | some v =>
    simp only [upd]
    by_cases e : key = k
    · subst e; rw [lookup_setKey_same, lookup_setKey_same]
    · rw [lookup_setKey_other _ _ _ e, lookup_setKey_other _ _ _ e]; exact h

theorem lookup_upd_comm (k k' : String) (w w' : Option TfVal) (A A' : List (String × TfVal)) (hne : k ≠ k')
    (h : ∀ key, A.lookup key = A'.lookup key) :
    ∀ key, (upd k' w' (upd k w A)).lookup key = (upd k w (upd k' w' A')).lookup key := by
  intro key
  by_cases e : key = k
  · subst e
    rw [lookup_upd_other _ _ _ _ hne]
    apply lookup_upd_congr
    rw [lookup_upd_other _ _ _ _ hne]
    exact h _
  · rw [lookup_upd_other k _ _ _ e]
    apply lookup_upd_congr
    rw [lookup_upd_other k _ _ _ e]
    exact h _

/-- **two adjacent blocks with different attribute names can be swapped**: both orders succeed or both fail, and the
results of successful runs are equivalent -/
theorem copyToField_swap (f g : Field) (hne : f.info.nameSnake ≠ g.info.nameSnake) (obj : GoVal)
    (atys : Option (List (String × TfTy))) (s s' : ToSt) (h : StEquiv s s') :
    OutEquiv (obind (copyToField f obj atys s) (copyToField g obj atys))
      (obind (copyToField g obj atys s') (copyToField f obj atys)) := by
  obtain ⟨af, haf⟩ := copyToField_nf f obj atys (s.attrs.lookup f.info.nameSnake)
  obtain ⟨ag, hag⟩ := copyToField_nf g obj atys (s.attrs.lookup g.info.nameSnake)
  rw [haf s rfl, hag s' (h.1 _).symm]
  cases af with
  | ok rf =>
    obtain ⟨wf, df, hf⟩ := rf
    simp only [applyAct, obind]
    rw [hag _ (lookup_upd_other _ _ _ _ (Ne.symm hne))]
    cases ag with
    | ok rg =>
      obtain ⟨wg, dg, hg⟩ := rg
      simp only [applyAct]
      rw [haf _ (by rw [lookup_upd_other _ _ _ _ hne]; exact (h.1 _).symm)]
      simp only [applyAct, outRel_ok_ok]
      refine ⟨lookup_upd_comm _ _ _ _ _ _ hne h.1, ?_, ?_⟩
      · show (s.diags ++ df ++ dg).Perm (s'.diags ++ dg ++ df)
        rw [List.append_assoc, List.append_assoc]
        exact h.2.1.append List.perm_append_comm
      · show (s.hooks ++ hf ++ hg).Perm (s'.hooks ++ hg ++ hf)
        rw [List.append_assoc, List.append_assoc]
        exact h.2.2.append List.perm_append_comm
    | panic w => simp [applyAct]
    | stuck w => simp [applyAct]
  | panic w =>
    cases ag with
    | ok rg =>
      obtain ⟨wg, dg, hg⟩ := rg
      simp only [applyAct, obind]
      rw [haf _ (by rw [lookup_upd_other _ _ _ _ hne]; exact (h.1 _).symm)]
      simp [applyAct]
    | panic w => simp [applyAct, obind]
    | stuck w => simp [applyAct, obind]
  | stuck w =>
    cases ag with
    | ok rg =>
      obtain ⟨wg, dg, hg⟩ := rg
      simp only [applyAct, obind]
      rw [haf _ (by rw [lookup_upd_other _ _ _ _ hne]; exact (h.1 _).symm)]
      simp [applyAct]
    | panic w => simp [applyAct, obind]
    | stuck w => simp [applyAct, obind]

/-- **CopyTo, field lists**: permuting blocks with pairwise distinct attribute names gives an equivalent outcome -/
theorem copyToFields_perm_equiv (obj : GoVal) (atys : Option (List (String × TfTy))) {fs' fs : List Field}
    (hp : fs'.Perm fs) (hnd : (fs'.map (·.info.nameSnake)).Nodup) :
    ∀ s s', StEquiv s s' → OutEquiv (copyToFields fs' obj atys s) (copyToFields fs obj atys s') := by
  induction hp with
  | nil => intro s s' h; simpa [copyToFields] using h
  | cons x _ ih =>
    intro s s' h
    simp only [List.map_cons, List.nodup_cons] at hnd
    rw [copyToFields_cons, copyToFields_cons]
    exact outRel_bind _ _ _ _ (copyToField_equiv x obj atys s s' h) (ih hnd.2)
  | swap x y l =>
    intro s s' h
    simp only [List.map_cons, List.nodup_cons, List.mem_cons, not_or] at hnd
    rw [copyToFields_cons2, copyToFields_cons2]
    exact outRel_bind _ _ _ _ (copyToField_swap y x hnd.1.1 obj atys s s' h)
      (fun t t' ht => copyToFields_equiv obj atys l t t' ht)
  | trans h1 _ ih1 ih2 =>
    intro s s' h
    exact OutRel.trans (R := StEquiv) (fun _ _ _ h1 h2 => StEquiv.trans h1 h2) (ih1 hnd s s' h) (ih2 ((h1.map (·.info.nameSnake)).nodup_iff.mp hnd) s' s' (StEquiv.refl _))

/-- **C15, CopyTo field blocks (part 1)**: if `fs'` is a permutation of `fs` and the attribute names of `fs` are pairwise
distinct then, for every struct, every `AttrTypes` and every start state (all inputs, no typing hypotheses),
the blocks in the order `fs'` succeed iff they succeed in the order `fs`, and successful runs leave the same value under
every attribute name, the same diagnostics and the same hook calls up to order.
(When the runs fail the *reported* failure may differ – it is the one of the failing block that comes first in the
respective order, see `copyToFields_failure_differs`.) -/
theorem copyToFields_perm {fs' fs : List Field} (hp : fs'.Perm fs) (hnd : (fs.map (·.info.nameSnake)).Nodup)
    (obj : GoVal) (atys : Option (List (String × TfTy))) (st : ToSt) :
    ((∃ s', copyToFields fs' obj atys st = .ok s') ↔ (∃ s, copyToFields fs obj atys st = .ok s)) ∧
    ∀ s' s, copyToFields fs' obj atys st = .ok s' → copyToFields fs obj atys st = .ok s →
      (∀ key, s'.attrs.lookup key = s.attrs.lookup key) ∧ s'.diags.Perm s.diags ∧ s'.hooks.Perm s.hooks := by
  have hnd' : (fs'.map (·.info.nameSnake)).Nodup := (hp.map (·.info.nameSnake)).nodup_iff.mpr hnd
  have h := copyToFields_perm_equiv obj atys hp hnd' st st (StEquiv.refl _)
  refine ⟨outRel_ok_iff h, fun s' s e' e => ?_⟩
  rw [e', e] at h
  exact h

/-- **C15, `Copy<T>ToTerraform` (part 3)**: two messages whose field lists are permutations of each other (pairwise
distinct attribute names): for every struct and every target, one converter succeeds iff the other does, and then
both return an object with the same `AttrTypes` holding the same value under every attribute name, the same
diagnostics and the same hook calls up to order. (`m'.info = m.info` is not needed: CopyTo does not read it.) -/
theorem copyTo_perm (m' m : Msg) (hp : m'.fields.Perm m.fields) (hnd : (m.fields.map (·.info.nameSnake)).Nodup)
    (obj : GoVal) (tf : TfVal) :
    ((∃ r', copyTo m' obj tf = .ok r') ↔ (∃ r, copyTo m obj tf = .ok r)) ∧
    ∀ r' r, copyTo m' obj tf = .ok r' → copyTo m obj tf = .ok r →
      (∃ as' as atys, r'.tf = .obj false false (some as') atys ∧ r.tf = .obj false false (some as) atys ∧
        ∀ key, as'.lookup key = as.lookup key) ∧
      r'.diags.Perm r.diags ∧ r'.hooks.Perm r.hooks := by
  unfold copyTo
  cases tf with
  | obj u n attrs atys =>
    simp only []
    obtain ⟨hiff, hres⟩ := copyToFields_perm hp hnd obj atys { attrs := attrs.getD [] }
    cases h' : copyToFields m'.fields obj atys { attrs := attrs.getD [] } with
    | ok s' =>
      obtain ⟨s, hs⟩ := hiff.mp ⟨s', h'⟩
      rw [hs]
      refine ⟨⟨fun _ => ⟨_, rfl⟩, fun _ => ⟨_, rfl⟩⟩, fun r' r e' e => ?_⟩
      injection e' with e'
      injection e with e
      subst e' e
      obtain ⟨h1, h2, h3⟩ := hres s' s h' hs
      exact ⟨⟨s'.attrs, s.attrs, atys, rfl, rfl, h1⟩, h2, h3⟩
    | panic w =>
      have hno : ¬ ∃ s, copyToFields m.fields obj atys { attrs := attrs.getD [] } = .ok s :=
        fun hx => by obtain ⟨s', hs'⟩ := hiff.mpr hx; rw [h'] at hs'; cases hs'
      cases h : copyToFields m.fields obj atys { attrs := attrs.getD [] } with
      | ok s => exact absurd ⟨s, h⟩ hno
      | panic w2 => simp
      | stuck w2 => simp
    | stuck w =>
      have hno : ¬ ∃ s, copyToFields m.fields obj atys { attrs := attrs.getD [] } = .ok s :=
        fun hx => by obtain ⟨s', hs'⟩ := hiff.mpr hx; rw [h'] at hs'; cases hs'
      cases h : copyToFields m.fields obj atys { attrs := attrs.getD [] } with
      | ok s => exact absurd ⟨s, h⟩ hno
      | panic w2 => simp
      | stuck w2 => simp
  | prim _ _ _ _ => simp
  | list _ _ _ _ => simp
  | map _ _ _ _ => simp
  | nilv => simp
  | foreign _ => simp

/-- the reported failure does depend on the order: a block that is stuck and a block that panics -/
theorem copyToFields_failure_differs :
    ∃ (f g : Field) (obj : GoVal) (atys : Option (List (String × TfTy))) (st : ToSt) (w w' : String),
      f.info.nameSnake ≠ g.info.nameSnake ∧
      copyToFields [f, g] obj atys st = .stuck w ∧ copyToFields [g, f] obj atys st = .panic w' := by
  refine ⟨{ info := { name := "A", nameSnake := "a", kind := .custom } },
    { info := { name := "B", nameSnake := "b", kind := .objectList, isRepeated := true } },
    .struct [("A", .ptr none), ("B", .slice (some []))],
    some [("a", .prim .string), ("b", .list (some (.prim .string)))], { attrs := [] },
    "custom value of an unmodelled Go type", "assertion", by decide, ?_, ?_⟩
  · simp [copyToFields, copyToField, copyToFieldWith, readField, GoVal.field?, List.lookup, hookTo]
  · simp [copyToFields, copyToField, copyToFieldWith, readField, GoVal.field?, List.lookup, listOrMapBody, elemObjTy]

-- ------------------------------------------------------------------------------------------------------
-- 2. CopyFrom: diagnostics and hook calls are a writer log

/-- prepend `d` / `h` to the diagnostics / hook log of a CopyFrom state -/
def shiftF (d : List Diag) (h : List HookCall) (st : FromSt) : FromSt :=
  { obj := st.obj, diags := d ++ st.diags, hooks := h ++ st.hooks }

/-- the recursive call only appends to diags / hooks -/
def RecWriterF (rec : FromRec) : Prop :=
  ∀ attrs o ds hs d h, rec attrs { obj := o, diags := d ++ ds, hooks := h ++ hs } =
    (rec attrs { obj := o, diags := ds, hooks := hs }).mapO (shiftF d h)

abbrev FromElemBody := TfVal → List Diag → List HookCall → Outcome (Option GoVal × List Diag × List HookCall)

def BodyWriterF (body : FromElemBody) : Prop :=
  ∀ e ds hs d h, body e (d ++ ds) (h ++ hs) = (body e ds hs).mapO (shift3 d h)

theorem fromElemsList_writer (body : FromElemBody) (hb : BodyWriterF body) :
    ∀ (elems : List TfVal) (k : Nat) (acc : List GoVal) (ds : List Diag) (hs : List HookCall) (d : List Diag)
      (h : List HookCall),
      fromElemsList body elems k acc (d ++ ds) (h ++ hs) = (fromElemsList body elems k acc ds hs).mapO (shift3 d h)
  | [], k, acc, ds, hs, d, h => rfl
  | a :: rest, k, acc, ds, hs, d, h => by
    simp only [fromElemsList, hb a ds hs d h]
    cases body a ds hs with
    | ok r =>
      obtain ⟨v, ds', hs'⟩ := r
      cases v with
      | none => exact fromElemsList_writer body hb rest (k + 1) acc ds' hs' d h
      | some v => exact fromElemsList_writer body hb rest (k + 1) _ ds' hs' d h
    | panic w => rfl
    | stuck w => rfl

theorem fromElemsMap_writer (body : FromElemBody) (hb : BodyWriterF body) :
    ∀ (elems : List (String × TfVal)) (acc : List (String × GoVal)) (ds : List Diag) (hs : List HookCall) (d : List Diag)
      (h : List HookCall),
      fromElemsMap body elems acc (d ++ ds) (h ++ hs) = (fromElemsMap body elems acc ds hs).mapO (shift3 d h)
  | [], acc, ds, hs, d, h => rfl
  | (k, a) :: rest, acc, ds, hs, d, h => by
    simp only [fromElemsMap, hb a ds hs d h]
    cases body a ds hs with
    | ok r =>
      obtain ⟨v, ds', hs'⟩ := r
      cases v with
      | none => exact fromElemsMap_writer body hb rest acc ds' hs' d h
      | some v => exact fromElemsMap_writer body hb rest _ ds' hs' d h
    | panic w => rfl
    | stuck w => rfl

theorem fromElemBody_writer (rec : FromRec) (hrec : RecWriterF rec) (ov : List (String × String)) (info vf : FieldInfo) :
    BodyWriterF (fromElemBody rec ov info vf) := by
  intro e ds hs d h
  unfold fromElemBody
  have hr : ∀ attrs o ds hs d h, rec attrs { obj := o, diags := d ++ ds, hooks := h ++ hs } =
    (rec attrs { obj := o, diags := ds, hooks := hs }).mapO (shiftF d h) := hrec
  simp only [hr]
  repeat' (first | rfl | (simp only [Outcome.mapO, shift3, shiftF, List.append_assoc]; done) | split)
  all_goals (simp_all [Outcome.mapO, shift3, shiftF]; try (subst_vars; simp))

theorem fieldWith_writerF (rec : FromRec) (hrec : RecWriterF rec) (ov : List (String × String)) (info : FieldInfo)
    (mv : Option FieldInfo) (msg : Option MsgInfo) (attrs : Option (List (String × TfVal))) (o : GoVal)
    (ds : List Diag) (hs : List HookCall) (d : List Diag) (h : List HookCall) :
    copyFromFieldWith rec ov info mv msg attrs { obj := o, diags := d ++ ds, hooks := h ++ hs } =
      (copyFromFieldWith rec ov info mv msg attrs { obj := o, diags := ds, hooks := hs }).mapO (shiftF d h) := by
  unfold copyFromFieldWith
  have hr : ∀ attrs o ds hs d h, rec attrs { obj := o, diags := d ++ ds, hooks := h ++ hs } =
    (rec attrs { obj := o, diags := ds, hooks := hs }).mapO (shiftF d h) := hrec
  have hl := fun vf => fromElemsList_writer _ (fromElemBody_writer rec hrec ov info vf)
  have hm := fun vf => fromElemsMap_writer _ (fromElemBody_writer rec hrec ov info vf)
  cases hk : info.kind with
  | custom =>
    simp only [FromSt.diag]
    cases (attrs.getD []).lookup info.nameSnake with
    | none =>
      simp only []
      cases info.parentIsOptionalEmbed with
      | true =>
        simp only [if_true]
        generalize writeField info _ _ = r
        cases r <;> simp [Outcome.mapO, shiftF]
      | false =>
        simp only [Bool.false_eq_true, if_false]
        generalize writeField info _ _ = r
        cases r <;> simp [Outcome.mapO, shiftF]
    | some a =>
      simp only []
      cases info.parentIsOptionalEmbed with
      | true =>
        simp only [if_true]
        generalize writeField info _ _ = r
        cases r <;> simp [Outcome.mapO, shiftF]
      | false =>
        simp only [Bool.false_eq_true, if_false]
        generalize writeField info _ _ = r
        cases r <;> simp [Outcome.mapO, shiftF]
  | primitive =>
    simp only [FromSt.diag]
    cases (attrs.getD []).lookup info.nameSnake with
    | none => simp [Outcome.mapO, shiftF]
    | some a =>
      simp only []
      split
      · simp [Outcome.mapO, shiftF]
      · cases embedGuard info a o with
        | none => rfl
        | some obj0 =>
          simp only []
          cases a with
          | prim k unk null p =>
            simp only []
            repeat' (first | rfl | split)
          | _ => rfl
  | object =>
    simp only [FromSt.diag]
    cases (attrs.getD []).lookup info.nameSnake with
    | none => simp [Outcome.mapO, shiftF]
    | some a =>
      simp only []
      split
      · simp [Outcome.mapO, shiftF]
      · cases embedGuard info a o with
        | none => rfl
        | some obj0 =>
          simp only []
          cases a with
          | obj unk null as atys =>
            cases isEmptyMsg msg with
            | true =>
              simp only [Bool.not_true, Bool.and_true, Bool.and_false, Bool.false_eq_true, if_false]
              repeat' (first | rfl | split)
            | false =>
              simp only [hr, Bool.not_false, Bool.and_true, Bool.and_false, Bool.false_eq_true, if_false, if_true]
              generalize rec as { obj := GoVal.struct [], diags := ds, hooks := hs } = rr
              cases rr with
              | ok st' => simp only [Outcome.mapO, shiftF]; repeat' (first | rfl | split)
              | panic w => simp only [Outcome.mapO]; repeat' (first | rfl | split)
              | stuck w => simp only [Outcome.mapO]; repeat' (first | rfl | split)
          | _ => rfl
  | primitiveList =>
    simp only [FromSt.diag]
    cases (attrs.getD []).lookup info.nameSnake with
    | none => simp [Outcome.mapO, shiftF]
    | some a =>
      simp only []
      split
      · simp [Outcome.mapO, shiftF]
      · cases embedGuard info a o with
        | none => rfl
        | some obj0 =>
          simp only []
          cases a with
          | list unk null elems ety =>
            simp only [hl]
            generalize fromElemsList _ _ 0 _ ds hs = rr
            cases rr with
            | ok q =>
              obtain ⟨l, ds', hs'⟩ := q
              simp only [Outcome.mapO, shift3, shiftF]
              repeat' (first | rfl | split)
            | panic w => simp only [Outcome.mapO]; repeat' (first | rfl | split)
            | stuck w => simp only [Outcome.mapO]; repeat' (first | rfl | split)
          | _ => rfl
  | objectList =>
    simp only [FromSt.diag]
    cases (attrs.getD []).lookup info.nameSnake with
    | none => simp [Outcome.mapO, shiftF]
    | some a =>
      simp only []
      split
      · simp [Outcome.mapO, shiftF]
      · cases embedGuard info a o with
        | none => rfl
        | some obj0 =>
          simp only []
          cases a with
          | list unk null elems ety =>
            simp only [hl]
            generalize fromElemsList _ _ 0 _ ds hs = rr
            cases rr with
            | ok q =>
              obtain ⟨l, ds', hs'⟩ := q
              simp only [Outcome.mapO, shift3, shiftF]
              repeat' (first | rfl | split)
            | panic w => simp only [Outcome.mapO]; repeat' (first | rfl | split)
            | stuck w => simp only [Outcome.mapO]; repeat' (first | rfl | split)
          | _ => rfl
  | primitiveMap =>
    simp only [FromSt.diag]
    cases (attrs.getD []).lookup info.nameSnake with
    | none => simp [Outcome.mapO, shiftF]
    | some a =>
      simp only []
      split
      · simp [Outcome.mapO, shiftF]
      · cases embedGuard info a o with
        | none => rfl
        | some obj0 =>
          simp only []
          cases a with
          | map unk null elems ety =>
            simp only [hm]
            generalize fromElemsMap _ _ _ ds hs = rr
            cases rr with
            | ok q =>
              obtain ⟨l, ds', hs'⟩ := q
              simp only [Outcome.mapO, shift3, shiftF]
              repeat' (first | rfl | split)
            | panic w => simp only [Outcome.mapO]; repeat' (first | rfl | split)
            | stuck w => simp only [Outcome.mapO]; repeat' (first | rfl | split)
          | _ => rfl
  | objectMap =>
    simp only [FromSt.diag]
    cases (attrs.getD []).lookup info.nameSnake with
    | none => simp [Outcome.mapO, shiftF]
    | some a =>
      simp only []
      split
      · simp [Outcome.mapO, shiftF]
      · cases embedGuard info a o with
        | none => rfl
        | some obj0 =>
          simp only []
          cases a with
          | map unk null elems ety =>
            simp only [hm]
            generalize fromElemsMap _ _ _ ds hs = rr
            cases rr with
            | ok q =>
              obtain ⟨l, ds', hs'⟩ := q
              simp only [Outcome.mapO, shift3, shiftF]
              repeat' (first | rfl | split)
            | panic w => simp only [Outcome.mapO]; repeat' (first | rfl | split)
            | stuck w => simp only [Outcome.mapO]; repeat' (first | rfl | split)
          | _ => rfl

mutual

/-- **CopyFrom: diagnostics and hook calls are a writer log** (all inputs, every depth) -/
theorem fromFields_writerF (ov : List (String × String)) : ∀ (fs : List Field) (attrs : Option (List (String × TfVal)))
    (o : GoVal) (ds : List Diag) (hs : List HookCall) (d : List Diag) (h : List HookCall),
    copyFromFields ov fs attrs { obj := o, diags := d ++ ds, hooks := h ++ hs } =
      (copyFromFields ov fs attrs { obj := o, diags := ds, hooks := hs }).mapO (shiftF d h)
  | [], _, o, ds, hs, d, h => by simp [copyFromFields, Outcome.mapO, shiftF]
  | f :: rest, attrs, o, ds, hs, d, h => by
    simp only [copyFromFields]
    split
    · exact fromFields_writerF ov rest attrs o ds hs d h
    · rw [fromField_writerF ov f attrs o ds hs d h]
      cases copyFromField ov f attrs { obj := o, diags := ds, hooks := hs } with
      | ok st' => exact fromFields_writerF ov rest attrs st'.obj st'.diags st'.hooks d h
      | panic w => rfl
      | stuck w => rfl

theorem fromField_writerF (ov : List (String × String)) : ∀ (f : Field) (attrs : Option (List (String × TfVal)))
    (o : GoVal) (ds : List Diag) (hs : List HookCall) (d : List Diag) (h : List HookCall),
    copyFromField ov f attrs { obj := o, diags := d ++ ds, hooks := h ++ hs } =
      (copyFromField ov f attrs { obj := o, diags := ds, hooks := hs }).mapO (shiftF d h)
  | ⟨info, mv, msg, sub⟩, attrs, o, ds, hs, d, h => by
    simp only [copyFromField]
    exact fieldWith_writerF
      (fun as s => copyFromFields ov sub as { s with obj := resetOneOfs ((msg.map (·.oneOfNames)).getD []) s.obj })
      (fun as o' ds' hs' d' h' => fromFields_writerF ov sub as _ ds' hs' d' h') ov info mv msg attrs o ds hs d h

end

/-- a block run from any diagnostics / hook log is the run from empty logs, shifted -/
theorem fromField_rebase (ov : List (String × String)) (f : Field) (attrs : Option (List (String × TfVal))) (st : FromSt) :
    copyFromField ov f attrs st =
      (copyFromField ov f attrs { obj := st.obj, diags := [], hooks := [] }).mapO (shiftF st.diags st.hooks) := by
  have := fromField_writerF ov f attrs st.obj [] [] st.diags st.hooks
  simpa using this

-- ------------------------------------------------------------------------------------------------------
-- 3. CopyFrom: what a block does to the target (fields that are not children of a nullable embedded message)

/-- scalar and message branches of a oneof group assign the holder of the group -/
def IsBranch (info : FieldInfo) : Prop := info.oneOfName ≠ "" ∧ (info.kind = .primitive ∨ info.kind = .object)

instance (info : FieldInfo) : Decidable (IsBranch info) := by unfold IsBranch; infer_instance

/-- the Go field the CopyFrom block of a field assigns: the holder for oneof branches, else the field itself -/
def wk (info : FieldInfo) : String := if IsBranch info then info.oneOfName else info.name

/-- `F` (a block as a function of the target struct) performs a fixed list of assignments to the Go field `k`, with
fixed diagnostics and hook calls, or fails – whatever the target holds -/
def UF (k : String) (F : GoVal → Outcome FromSt) : Prop :=
  (∃ ws d h, (∀ w ∈ ws, w.1 = k) ∧ ∀ o, F o = .ok { obj := applyWrites ws o, diags := d, hooks := h }) ∨
  (∃ m, ∀ o, F o = .stuck m) ∨ (∃ m, ∀ o, F o = .panic m)

theorem uf_none (k : String) (d : List Diag) (h : List HookCall) :
    UF k (fun o => .ok { obj := o, diags := d, hooks := h }) :=
  Or.inl ⟨[], d, h, by simp, fun _ => rfl⟩

theorem uf_set (k : String) (y : GoVal) (d : List Diag) (h : List HookCall) :
    UF k (fun o => .ok { obj := o.setField k y, diags := d, hooks := h }) :=
  Or.inl ⟨[(k, y)], d, h, by simp, fun _ => rfl⟩

theorem uf_set2 (k : String) (x y : GoVal) (d : List Diag) (h : List HookCall) :
    UF k (fun o => .ok { obj := (o.setField k x).setField k y, diags := d, hooks := h }) :=
  Or.inl ⟨[(k, x), (k, y)], d, h, by simp, fun _ => rfl⟩

theorem uf_stuck (k : String) (m : String) : UF k (fun _ => .stuck m) := Or.inr (Or.inl ⟨m, fun _ => rfl⟩)
theorem uf_panic (k : String) (m : String) : UF k (fun _ => .panic m) := Or.inr (Or.inr ⟨m, fun _ => rfl⟩)

macro "uf_crush" : tactic => `(tactic| repeat' (first
  | split | exact uf_none _ _ _ | exact uf_set _ _ _ _ | exact uf_set2 _ _ _ _ _
  | exact uf_stuck _ _ | exact uf_panic _ _))

theorem fieldWith_uf_custom (rec : FromRec) (ov : List (String × String)) (info : FieldInfo) (mv : Option FieldInfo)
    (msg : Option MsgInfo) (attrs : Option (List (String × TfVal))) (ds : List Diag) (hs : List HookCall)
    (he : info.parentIsOptionalEmbed = false) (hk : info.kind = .custom) :
    UF (wk info) (fun o => copyFromFieldWith rec ov info mv msg attrs { obj := o, diags := ds, hooks := hs }) := by
  unfold copyFromFieldWith
  simp only [writeField_plain info _ _ he, he, FromSt.diag, hk]
  have hw : wk info = info.name := by simp [wk, IsBranch, hk]
  rw [hw]
  cases (attrs.getD []).lookup info.nameSnake <;> simp only [Bool.false_eq_true, if_false] <;> exact uf_set _ _ _ _

theorem fieldWith_uf_prim_plain (rec : FromRec) (ov : List (String × String)) (info : FieldInfo) (mv : Option FieldInfo)
    (msg : Option MsgInfo) (attrs : Option (List (String × TfVal))) (ds : List Diag) (hs : List HookCall)
    (he : info.parentIsOptionalEmbed = false) (hk : info.kind = .primitive) (ho : info.oneOfName = "") :
    UF (wk info) (fun o => copyFromFieldWith rec ov info mv msg attrs { obj := o, diags := ds, hooks := hs }) := by
  unfold copyFromFieldWith
  simp only [embedGuard_plain info _ _ he, writeField_plain info _ _ he, he, FromSt.diag, hk]
  have hw : wk info = info.name := by simp [wk, IsBranch, ho]
  rw [hw]
  simp only [ho, bne_self_eq_false, Bool.false_eq_true, if_false]
  cases (attrs.getD []).lookup info.nameSnake with
  | none => exact uf_none _ _ _
  | some a => simp only []; cases a <;> simp only [] <;> uf_crush

theorem fieldWith_uf_prim_branch (rec : FromRec) (ov : List (String × String)) (info : FieldInfo) (mv : Option FieldInfo)
    (msg : Option MsgInfo) (attrs : Option (List (String × TfVal))) (ds : List Diag) (hs : List HookCall)
    (he : info.parentIsOptionalEmbed = false) (hk : info.kind = .primitive) (ho : info.oneOfName ≠ "") :
    UF (wk info) (fun o => copyFromFieldWith rec ov info mv msg attrs { obj := o, diags := ds, hooks := hs }) := by
  unfold copyFromFieldWith
  simp only [embedGuard_plain info _ _ he, writeField_plain info _ _ he, he, FromSt.diag, hk]
  have hw : wk info = info.oneOfName := by simp [wk, IsBranch, ho, hk]
  have hb : (info.oneOfName != "") = true := by simpa using ho
  rw [hw]
  simp only [hb, if_true]
  cases (attrs.getD []).lookup info.nameSnake with
  | none => exact uf_none _ _ _
  | some a => simp only []; cases a <;> simp only [] <;> uf_crush

theorem fieldWith_uf_obj_plain (rec : FromRec) (ov : List (String × String)) (info : FieldInfo) (mv : Option FieldInfo)
    (msg : Option MsgInfo) (attrs : Option (List (String × TfVal))) (ds : List Diag) (hs : List HookCall)
    (he : info.parentIsOptionalEmbed = false) (hk : info.kind = .object) (ho : info.oneOfName = "") :
    UF (wk info) (fun o => copyFromFieldWith rec ov info mv msg attrs { obj := o, diags := ds, hooks := hs }) := by
  unfold copyFromFieldWith
  simp only [embedGuard_plain info _ _ he, writeField_plain info _ _ he, he, FromSt.diag, hk]
  have hw : wk info = info.name := by simp [wk, IsBranch, ho]
  rw [hw]
  simp only [ho, beq_self_eq_true, if_true]
  cases (attrs.getD []).lookup info.nameSnake with
  | none => exact uf_none _ _ _
  | some a => simp only []; cases a <;> simp only [] <;> uf_crush

theorem fieldWith_uf_obj_branch (rec : FromRec) (ov : List (String × String)) (info : FieldInfo) (mv : Option FieldInfo)
    (msg : Option MsgInfo) (attrs : Option (List (String × TfVal))) (ds : List Diag) (hs : List HookCall)
    (he : info.parentIsOptionalEmbed = false) (hk : info.kind = .object) (ho : info.oneOfName ≠ "") :
    UF (wk info) (fun o => copyFromFieldWith rec ov info mv msg attrs { obj := o, diags := ds, hooks := hs }) := by
  unfold copyFromFieldWith
  simp only [embedGuard_plain info _ _ he, writeField_plain info _ _ he, he, FromSt.diag, hk]
  have hw : wk info = info.oneOfName := by simp [wk, IsBranch, ho, hk]
  have hb : (info.oneOfName == "") = false := by simpa using ho
  rw [hw]
  simp only [hb, Bool.false_eq_true, if_false]
  cases (attrs.getD []).lookup info.nameSnake with
  | none => exact uf_none _ _ _
  | some a => simp only []; cases a <;> simp only [] <;> uf_crush

theorem fieldWith_uf_primitiveList (rec : FromRec) (ov : List (String × String)) (info : FieldInfo) (mv : Option FieldInfo)
    (msg : Option MsgInfo) (attrs : Option (List (String × TfVal))) (ds : List Diag) (hs : List HookCall)
    (he : info.parentIsOptionalEmbed = false) (hk : info.kind = .primitiveList) :
    UF (wk info) (fun o => copyFromFieldWith rec ov info mv msg attrs { obj := o, diags := ds, hooks := hs }) := by
  unfold copyFromFieldWith
  simp only [embedGuard_plain info _ _ he, writeField_plain info _ _ he, he, FromSt.diag, hk]
  have hw : wk info = info.name := by simp [wk, IsBranch, hk]
  rw [hw]
  cases (attrs.getD []).lookup info.nameSnake with
  | none => exact uf_none _ _ _
  | some a => simp only []; cases a <;> simp only [] <;> uf_crush

theorem fieldWith_uf_objectList (rec : FromRec) (ov : List (String × String)) (info : FieldInfo) (mv : Option FieldInfo)
    (msg : Option MsgInfo) (attrs : Option (List (String × TfVal))) (ds : List Diag) (hs : List HookCall)
    (he : info.parentIsOptionalEmbed = false) (hk : info.kind = .objectList) :
    UF (wk info) (fun o => copyFromFieldWith rec ov info mv msg attrs { obj := o, diags := ds, hooks := hs }) := by
  unfold copyFromFieldWith
  simp only [embedGuard_plain info _ _ he, writeField_plain info _ _ he, he, FromSt.diag, hk]
  have hw : wk info = info.name := by simp [wk, IsBranch, hk]
  rw [hw]
  cases (attrs.getD []).lookup info.nameSnake with
  | none => exact uf_none _ _ _
  | some a => simp only []; cases a <;> simp only [] <;> uf_crush

theorem fieldWith_uf_primitiveMap (rec : FromRec) (ov : List (String × String)) (info : FieldInfo) (mv : Option FieldInfo)
    (msg : Option MsgInfo) (attrs : Option (List (String × TfVal))) (ds : List Diag) (hs : List HookCall)
    (he : info.parentIsOptionalEmbed = false) (hk : info.kind = .primitiveMap) :
    UF (wk info) (fun o => copyFromFieldWith rec ov info mv msg attrs { obj := o, diags := ds, hooks := hs }) := by
  unfold copyFromFieldWith
  simp only [embedGuard_plain info _ _ he, writeField_plain info _ _ he, he, FromSt.diag, hk]
  have hw : wk info = info.name := by simp [wk, IsBranch, hk]
  rw [hw]
  cases (attrs.getD []).lookup info.nameSnake with
  | none => exact uf_none _ _ _
  | some a => simp only []; cases a <;> simp only [] <;> uf_crush

theorem fieldWith_uf_objectMap (rec : FromRec) (ov : List (String × String)) (info : FieldInfo) (mv : Option FieldInfo)
    (msg : Option MsgInfo) (attrs : Option (List (String × TfVal))) (ds : List Diag) (hs : List HookCall)
    (he : info.parentIsOptionalEmbed = false) (hk : info.kind = .objectMap) :
    UF (wk info) (fun o => copyFromFieldWith rec ov info mv msg attrs { obj := o, diags := ds, hooks := hs }) := by
  unfold copyFromFieldWith
  simp only [embedGuard_plain info _ _ he, writeField_plain info _ _ he, he, FromSt.diag, hk]
  have hw : wk info = info.name := by simp [wk, IsBranch, hk]
  rw [hw]
  cases (attrs.getD []).lookup info.nameSnake with
  | none => exact uf_none _ _ _
  | some a => simp only []; cases a <;> simp only [] <;> uf_crush

/-- **uniformity of a CopyFrom block in the target** (the field is not a child of a nullable embedded message; oneof
branches included): a fixed list of assignments to the one Go field `wk info`, fixed diagnostics and hook calls -/
theorem fieldWith_uf (rec : FromRec) (ov : List (String × String)) (info : FieldInfo) (mv : Option FieldInfo)
    (msg : Option MsgInfo) (attrs : Option (List (String × TfVal))) (ds : List Diag) (hs : List HookCall)
    (he : info.parentIsOptionalEmbed = false) :
    UF (wk info) (fun o => copyFromFieldWith rec ov info mv msg attrs { obj := o, diags := ds, hooks := hs }) := by
  cases hk : info.kind with
  | custom => exact fieldWith_uf_custom rec ov info mv msg attrs ds hs he hk
  | primitive =>
    by_cases ho : info.oneOfName = ""
    · exact fieldWith_uf_prim_plain rec ov info mv msg attrs ds hs he hk ho
    · exact fieldWith_uf_prim_branch rec ov info mv msg attrs ds hs he hk ho
  | object =>
    by_cases ho : info.oneOfName = ""
    · exact fieldWith_uf_obj_plain rec ov info mv msg attrs ds hs he hk ho
    · exact fieldWith_uf_obj_branch rec ov info mv msg attrs ds hs he hk ho
  | primitiveList => exact fieldWith_uf_primitiveList rec ov info mv msg attrs ds hs he hk
  | objectList => exact fieldWith_uf_objectList rec ov info mv msg attrs ds hs he hk
  | primitiveMap => exact fieldWith_uf_primitiveMap rec ov info mv msg attrs ds hs he hk
  | objectMap => exact fieldWith_uf_objectMap rec ov info mv msg attrs ds hs he hk

/-- the attribute of the field is there, known, non-null and of the Terraform value type the block asserts
(`BranchKnown` of FromOneof.lean, on the non-recursive part of the field) -/
def Known (attrs : Option (List (String × TfVal))) (info : FieldInfo) : Prop :=
  ∃ a, (attrs.getD []).lookup info.nameSnake = some a ∧ a.isKnown = true ∧ a.vkind = vkindOf info.tf.valueType ∧
    a.vkind ≠ .unknown

/-- `F` leaves the target alone (fixed diagnostics and hook calls) or fails – whatever the target holds -/
def UF0 (F : GoVal → Outcome FromSt) : Prop :=
  (∃ d h, ∀ o, F o = .ok { obj := o, diags := d, hooks := h }) ∨ (∃ m, ∀ o, F o = .stuck m) ∨ (∃ m, ∀ o, F o = .panic m)

theorem uf0_none (d : List Diag) (h : List HookCall) : UF0 (fun o => .ok { obj := o, diags := d, hooks := h }) :=
  Or.inl ⟨d, h, fun _ => rfl⟩
theorem uf0_stuck (m : String) : UF0 (fun _ => .stuck m) := Or.inr (Or.inl ⟨m, fun _ => rfl⟩)
theorem uf0_panic (m : String) : UF0 (fun _ => .panic m) := Or.inr (Or.inr ⟨m, fun _ => rfl⟩)

/-- a oneof branch whose attribute is not known (absent, null, unknown, of another type) assigns nothing -/
theorem fieldWith_silent (rec : FromRec) (ov : List (String × String)) (info : FieldInfo) (mv : Option FieldInfo)
    (msg : Option MsgInfo) (attrs : Option (List (String × TfVal))) (ds : List Diag) (hs : List HookCall)
    (he : info.parentIsOptionalEmbed = false) (hbr : IsBranch info) (hn : ¬ Known attrs info) :
    UF0 (fun o => copyFromFieldWith rec ov info mv msg attrs { obj := o, diags := ds, hooks := hs }) := by
  obtain ⟨ho, hk⟩ := hbr
  unfold copyFromFieldWith
  have hb1 : (info.oneOfName != "") = true := by simpa using ho
  have hb2 : (info.oneOfName == "") = false := by simpa using ho
  rcases hk with hk | hk
  · simp only [embedGuard_plain info _ _ he, FromSt.diag, hk]
    cases hl : (attrs.getD []).lookup info.nameSnake with
    | none => exact uf0_none _ _
    | some a =>
      simp only []
      by_cases hc : (a.vkind != vkindOf info.tf.valueType || a.vkind == .unknown) = true
      · simp only [hc, if_true]; exact uf0_none _ _
      · simp only [hc]
        cases a with
        | prim k u n p =>
          simp only [hb1, if_true]
          cases primDecode info k u n p with
          | ok t =>
            simp only []
            by_cases hkn : known u n = true
            · exfalso
              apply hn
              simp only [Bool.or_eq_true, bne_iff_ne, ne_eq, beq_iff_eq, not_or, Decidable.not_not] at hc
              exact ⟨_, hl, by simpa [TfVal.isKnown] using hkn, hc.1, hc.2⟩
            · simp only [hkn]; exact uf0_none _ _
          | panic w => exact uf0_panic _
          | stuck w => exact uf0_stuck _
        | _ => exact uf0_stuck _
  · simp only [embedGuard_plain info _ _ he, FromSt.diag, hk]
    cases hl : (attrs.getD []).lookup info.nameSnake with
    | none => exact uf0_none _ _
    | some a =>
      simp only []
      by_cases hc : (a.vkind != vkindOf info.tf.valueType || a.vkind == .unknown) = true
      · simp only [hc, if_true]; exact uf0_none _ _
      · simp only [hc]
        cases a with
        | obj u n as atys =>
          simp only [hb2, Bool.false_eq_true, if_false]
          by_cases hkn : known u n = true
          · exfalso
            apply hn
            simp only [Bool.or_eq_true, bne_iff_ne, ne_eq, beq_iff_eq, not_or, Decidable.not_not] at hc
            exact ⟨_, hl, by simpa [TfVal.isKnown] using hkn, hc.1, hc.2⟩
          · simp only [hkn]; exact uf0_none _ _
        | _ => exact uf0_stuck _

-- ------------------------------------------------------------------------------------------------------
-- 4. CopyFrom: normal form of a block, equivalence of targets, swap, permutations

/-- what one CopyFrom block does, abstractly: a list of assignments to Go fields of the target, diagnostics and hook
calls to append – or a failure -/
abbrev FAct := Outcome (List (String × GoVal) × List Diag × List HookCall)

def applyFAct (a : FAct) (st : FromSt) : Outcome FromSt :=
  match a with
  | .ok (ws, dx, hx) => .ok { obj := applyWrites ws st.obj, diags := st.diags ++ dx, hooks := st.hooks ++ hx }
  | .panic w => .panic w
  | .stuck w => .stuck w

/-- one step of `copyFromFields`: the placeholder of a message without fields has no block -/
def blockF (ov : List (String × String)) (f : Field) (attrs : Option (List (String × TfVal))) (st : FromSt) :
    Outcome FromSt :=
  if f.info.isPlaceholder then .ok st else copyFromField ov f attrs st

theorem copyFromFields_cons (ov : List (String × String)) (f : Field) (rest : List Field)
    (attrs : Option (List (String × TfVal))) (st : FromSt) :
    copyFromFields ov (f :: rest) attrs st = obind (blockF ov f attrs st) (copyFromFields ov rest attrs) := by
  simp only [copyFromFields, blockF]
  split
  · rfl
  · simp only [obind]
    cases copyFromField ov f attrs st <;> rfl

theorem copyFromFields_cons2 (ov : List (String × String)) (f g : Field) (rest : List Field)
    (attrs : Option (List (String × TfVal))) (st : FromSt) :
    copyFromFields ov (f :: g :: rest) attrs st =
      obind (obind (blockF ov f attrs st) (blockF ov g attrs)) (copyFromFields ov rest attrs) := by
  rw [copyFromFields_cons]
  cases blockF ov f attrs st with
  | ok t => simp only [obind]; rw [copyFromFields_cons]; rfl
  | panic w => rfl
  | stuck w => rfl

theorem applyFAct_shift (a : FAct) (st : FromSt) :
    (applyFAct a { obj := st.obj, diags := [], hooks := [] }).mapO (shiftF st.diags st.hooks) = applyFAct a st := by
  cases a with
  | ok r => obtain ⟨w, ds, hs⟩ := r; simp [applyFAct, Outcome.mapO, shiftF]
  | panic w => rfl
  | stuck w => rfl

/-- the recursive call of `copyFromField` -/
def recOf (ov : List (String × String)) (msg : Option MsgInfo) (sub : List Field) : FromRec :=
  fun as s => copyFromFields ov sub as { s with obj := resetOneOfs ((msg.map (·.oneOfNames)).getD []) s.obj }

/-- **normal form of a CopyFrom block** (field not a child of a nullable embedded message): one action – assignments to
the single Go field `wk f.info`, none at all for a oneof branch whose attribute is not known – performed on every
target, whatever it holds and whatever was logged before -/
theorem blockF_nf (ov : List (String × String)) (f : Field) (attrs : Option (List (String × TfVal)))
    (he : f.info.parentIsOptionalEmbed = false) :
    ∃ a : FAct,
      (∀ ws dx hx, a = .ok (ws, dx, hx) →
        (∀ w ∈ ws, w.1 = wk f.info) ∧ (IsBranch f.info → ¬ Known attrs f.info → ws = [])) ∧
      ∀ st, blockF ov f attrs st = applyFAct a st := by
  by_cases hph : f.info.isPlaceholder = true
  · refine ⟨.ok ([], [], []), ?_, fun st => ?_⟩
    · intro ws dx hx e
      injection e with e
      simp only [Prod.mk.injEq] at e
      obtain ⟨e1, _, _⟩ := e
      subst e1
      simp
    · simp [blockF, hph, applyFAct, applyWrites]
  · obtain ⟨info, mv, msg, sub⟩ := f
    simp only at he hph
    have hblk : ∀ st, blockF ov ⟨info, mv, msg, sub⟩ attrs st =
        (copyFromFieldWith (recOf ov msg sub) ov info mv msg attrs { obj := st.obj, diags := [], hooks := [] }).mapO
          (shiftF st.diags st.hooks) := by
      intro st
      simp only [blockF, hph, Bool.false_eq_true, if_false]
      rw [fromField_rebase]
      simp only [copyFromField]
      rfl
    by_cases hsil : IsBranch info ∧ ¬ Known attrs info
    · rcases fieldWith_silent (recOf ov msg sub) ov info mv msg attrs [] [] he hsil.1 hsil.2 with
        ⟨d, h, hF⟩ | ⟨m, hF⟩ | ⟨m, hF⟩ <;> dsimp only at hF
      · refine ⟨.ok ([], d, h), ?_, fun st => ?_⟩
        · intro ws dx hx e
          injection e with e
          simp only [Prod.mk.injEq] at e
          obtain ⟨e1, _, _⟩ := e
          subst e1
          simp
        · rw [hblk, hF st.obj, ← applyFAct_shift]; rfl
      · exact ⟨.stuck m, fun ws dx hx e => (by cases e), fun st => by rw [hblk, hF st.obj]; rfl⟩
      · exact ⟨.panic m, fun ws dx hx e => (by cases e), fun st => by rw [hblk, hF st.obj]; rfl⟩
    · rcases fieldWith_uf (recOf ov msg sub) ov info mv msg attrs [] [] he with
        ⟨ws, d, h, hk, hF⟩ | ⟨m, hF⟩ | ⟨m, hF⟩ <;> dsimp only at hF
      · refine ⟨.ok (ws, d, h), ?_, fun st => ?_⟩
        · intro ws' dx hx e
          injection e with e
          simp only [Prod.mk.injEq] at e
          obtain ⟨e1, _, _⟩ := e
          subst e1
          exact ⟨hk, fun hb hn => absurd ⟨hb, hn⟩ hsil⟩
        · rw [hblk, hF st.obj, ← applyFAct_shift]; rfl
      · exact ⟨.stuck m, fun ws dx hx e => (by cases e), fun st => by rw [hblk, hF st.obj]; rfl⟩
      · exact ⟨.panic m, fun ws dx hx e => (by cases e), fun st => by rw [hblk, hF st.obj]; rfl⟩

/-- two targets that cannot be told apart: both structs or both not, the same value in every Go field -/
def ObjEq (o o' : GoVal) : Prop := (IsStruct o ↔ IsStruct o') ∧ ∀ name, o.field? name = o'.field? name

theorem ObjEq.refl (o : GoVal) : ObjEq o o := ⟨Iff.rfl, fun _ => rfl⟩
theorem ObjEq.symm {o o' : GoVal} (h : ObjEq o o') : ObjEq o' o := ⟨h.1.symm, fun n => (h.2 n).symm⟩
theorem ObjEq.trans {a b c : GoVal} (h : ObjEq a b) (h' : ObjEq b c) : ObjEq a c :=
  ⟨h.1.trans h'.1, fun n => (h.2 n).trans (h'.2 n)⟩

theorem isStruct_setField_iff (v : GoVal) (n : String) (x : GoVal) : IsStruct (v.setField n x) ↔ IsStruct v := by
  cases v <;> simp [IsStruct, GoVal.setField]

theorem setField_nonstruct (v : GoVal) (n : String) (x : GoVal) (h : ¬ IsStruct v) : v.setField n x = v := by
  cases v <;> simp_all [IsStruct, GoVal.setField]

theorem isStruct_applyWrites_iff : ∀ (ws : List (String × GoVal)) (o : GoVal), IsStruct (applyWrites ws o) ↔ IsStruct o
  | [], _ => Iff.rfl
  | w :: ws, o => by
    simp only [applyWrites, List.foldl]
    exact (isStruct_applyWrites_iff ws _).trans (isStruct_setField_iff _ _ _)

theorem applyWrites_nonstruct : ∀ (ws : List (String × GoVal)) (o : GoVal), ¬ IsStruct o → applyWrites ws o = o
  | [], _, _ => rfl
  | w :: ws, o, h => by
    simp only [applyWrites, List.foldl]
    rw [setField_nonstruct _ _ _ h]
    exact applyWrites_nonstruct ws o h

/-- the value an assignment list leaves in a Go field depends on the target only through that field -/
theorem applyWrites_field_congr : ∀ (ws : List (String × GoVal)) (o o' : GoVal) (name : String),
    IsStruct o → IsStruct o' → o.field? name = o'.field? name →
    (applyWrites ws o).field? name = (applyWrites ws o').field? name
  | [], _, _, _, _, _, h => h
  | w :: ws, o, o', name, hs, hs', h => by
    simp only [applyWrites, List.foldl]
    apply applyWrites_field_congr ws _ _ name (isStruct_setField _ _ _ hs) (isStruct_setField _ _ _ hs')
    by_cases e : name = w.1
    · subst e; rw [field?_setField_same _ _ _ hs, field?_setField_same _ _ _ hs']
    · rw [field?_setField_other' _ _ _ _ e, field?_setField_other' _ _ _ _ e]; exact h

theorem objEq_applyWrites (ws : List (String × GoVal)) (o o' : GoVal) (h : ObjEq o o') :
    ObjEq (applyWrites ws o) (applyWrites ws o') := by
  refine ⟨(isStruct_applyWrites_iff ws o).trans (h.1.trans (isStruct_applyWrites_iff ws o').symm), fun name => ?_⟩
  by_cases hs : IsStruct o
  · exact applyWrites_field_congr ws o o' name hs (h.1.mp hs) (h.2 name)
  · rw [applyWrites_nonstruct ws o hs, applyWrites_nonstruct ws o' (fun h' => hs (h.1.mpr h'))]
    exact h.2 name

theorem not_mem_keys (ws : List (String × GoVal)) (k name : String) (hk : ∀ w ∈ ws, w.1 = k) (hne : name ≠ k) :
    name ∉ ws.map (·.1) := by
  intro hm
  obtain ⟨w, hw, e⟩ := List.mem_map.mp hm
  exact hne (e ▸ hk w hw)

/-- assignments to two different Go fields commute -/
theorem objEq_applyWrites_comm (ws vs : List (String × GoVal)) (k k' : String) (hk : ∀ w ∈ ws, w.1 = k)
    (hk' : ∀ w ∈ vs, w.1 = k') (hne : k ≠ k') (o o' : GoVal) (h : ObjEq o o') :
    ObjEq (applyWrites vs (applyWrites ws o)) (applyWrites ws (applyWrites vs o')) := by
  refine ⟨by simp only [isStruct_applyWrites_iff]; exact h.1, fun name => ?_⟩
  by_cases hs : IsStruct o
  · have hs' := h.1.mp hs
    by_cases e : name = k
    · subst e
      rw [applyWrites_other vs _ name (not_mem_keys vs k' name hk' hne)]
      apply applyWrites_field_congr ws _ _ name hs ((isStruct_applyWrites_iff _ _).mpr hs')
      rw [applyWrites_other vs _ name (not_mem_keys vs k' name hk' hne)]
      exact h.2 name
    · rw [applyWrites_other ws _ name (not_mem_keys ws k name hk e)]
      apply applyWrites_field_congr vs _ _ name ((isStruct_applyWrites_iff _ _).mpr hs) hs'
      rw [applyWrites_other ws _ name (not_mem_keys ws k name hk e)]
      exact h.2 name
  · have hs' : ¬ IsStruct o' := fun h' => hs (h.1.mpr h')
    rw [applyWrites_nonstruct ws o hs, applyWrites_nonstruct vs o hs, applyWrites_nonstruct vs o' hs',
      applyWrites_nonstruct ws o' hs']
    exact h.2 name

/-- two states of a CopyFrom run that cannot be told apart -/
def FEquiv (s s' : FromSt) : Prop := ObjEq s.obj s'.obj ∧ s.diags.Perm s'.diags ∧ s.hooks.Perm s'.hooks

theorem FEquiv.refl (s : FromSt) : FEquiv s s := ⟨ObjEq.refl _, List.Perm.refl _, List.Perm.refl _⟩
theorem FEquiv.trans {a b c : FromSt} (h : FEquiv a b) (h' : FEquiv b c) : FEquiv a c :=
  ⟨h.1.trans h'.1, h.2.1.trans h'.2.1, h.2.2.trans h'.2.2⟩

theorem applyFAct_equiv (a : FAct) (s s' : FromSt) (h : FEquiv s s') : OutRel FEquiv (applyFAct a s) (applyFAct a s') := by
  cases a with
  | ok r =>
    obtain ⟨ws, dx, hx⟩ := r
    simp only [applyFAct, outRel_ok_ok]
    exact ⟨objEq_applyWrites ws _ _ h.1, h.2.1.append_right _, h.2.2.append_right _⟩
  | panic w => simp [applyFAct]
  | stuck w => simp [applyFAct]

/-- the hypothesis on the IR: no field is a child of a nullable embedded message -/
def NoEmbed (fs : List Field) : Prop := ∀ f ∈ fs, f.info.parentIsOptionalEmbed = false

theorem blockF_equiv (ov : List (String × String)) (f : Field) (attrs : Option (List (String × TfVal)))
    (he : f.info.parentIsOptionalEmbed = false) (s s' : FromSt) (h : FEquiv s s') :
    OutRel FEquiv (blockF ov f attrs s) (blockF ov f attrs s') := by
  obtain ⟨a, _, ha⟩ := blockF_nf ov f attrs he
  rw [ha, ha]
  exact applyFAct_equiv a s s' h

theorem copyFromFields_equiv (ov : List (String × String)) (attrs : Option (List (String × TfVal))) :
    ∀ (fs : List Field), NoEmbed fs → ∀ s s', FEquiv s s' →
      OutRel FEquiv (copyFromFields ov fs attrs s) (copyFromFields ov fs attrs s')
  | [], _, s, s', h => by simpa [copyFromFields] using h
  | f :: rest, hne, s, s', h => by
    rw [copyFromFields_cons, copyFromFields_cons]
    exact outRel_bind _ _ _ _ (blockF_equiv ov f attrs (hne f (by simp)) s s' h)
      (fun t t' ht => copyFromFields_equiv ov attrs rest (fun g hg => hne g (by simp [hg])) t t' ht)

/-- two blocks do not interfere: they assign different Go fields, or one of them is a oneof branch whose attribute is
not known (so it assigns nothing).  For two branches of one oneof group this says: at most one of the two branch
attributes is known. -/
def Indep (attrs : Option (List (String × TfVal))) (f g : Field) : Prop :=
  wk f.info ≠ wk g.info ∨ (IsBranch f.info ∧ ¬ Known attrs f.info) ∨ (IsBranch g.info ∧ ¬ Known attrs g.info)

theorem Indep.symm {attrs : Option (List (String × TfVal))} {f g : Field} (h : Indep attrs f g) : Indep attrs g f := by
  rcases h with h | h | h
  · exact Or.inl (Ne.symm h)
  · exact Or.inr (Or.inr h)
  · exact Or.inr (Or.inl h)

/-- **two adjacent CopyFrom blocks that do not interfere can be swapped** -/
theorem blockF_swap (ov : List (String × String)) (f g : Field) (attrs : Option (List (String × TfVal)))
    (hef : f.info.parentIsOptionalEmbed = false) (heg : g.info.parentIsOptionalEmbed = false)
    (hind : Indep attrs f g) (s s' : FromSt) (h : FEquiv s s') :
    OutRel FEquiv (obind (blockF ov f attrs s) (blockF ov g attrs)) (obind (blockF ov g attrs s') (blockF ov f attrs)) := by
  obtain ⟨af, hpf, haf⟩ := blockF_nf ov f attrs hef
  obtain ⟨ag, hpg, hag⟩ := blockF_nf ov g attrs heg
  rw [haf s, hag s']
  cases af with
  | ok rf =>
    obtain ⟨wf, df, hf⟩ := rf
    cases ag with
    | ok rg =>
      obtain ⟨wg, dg, hg⟩ := rg
      simp only [applyFAct, obind, haf, hag, outRel_ok_ok]
      obtain ⟨hkf, hsf⟩ := hpf wf df hf rfl
      obtain ⟨hkg, hsg⟩ := hpg wg dg hg rfl
      refine ⟨?_, ?_, ?_⟩
      · show ObjEq (applyWrites wg (applyWrites wf s.obj)) (applyWrites wf (applyWrites wg s'.obj))
        rcases hind with hne | ⟨hb, hn⟩ | ⟨hb, hn⟩
        · exact objEq_applyWrites_comm wf wg _ _ hkf hkg hne _ _ h.1
        · rw [hsf hb hn]
          exact objEq_applyWrites wg _ _ h.1
        · rw [hsg hb hn]
          exact objEq_applyWrites wf _ _ h.1
      · show (s.diags ++ df ++ dg).Perm (s'.diags ++ dg ++ df)
        rw [List.append_assoc, List.append_assoc]
        exact h.2.1.append List.perm_append_comm
      · show (s.hooks ++ hf ++ hg).Perm (s'.hooks ++ hg ++ hf)
        rw [List.append_assoc, List.append_assoc]
        exact h.2.2.append List.perm_append_comm
    | panic w => simp [applyFAct, obind, hag]
    | stuck w => simp [applyFAct, obind, hag]
  | panic w =>
    cases ag with
    | ok rg => obtain ⟨wg, dg, hg⟩ := rg; simp [applyFAct, obind, haf]
    | panic w => simp [applyFAct, obind]
    | stuck w => simp [applyFAct, obind]
  | stuck w =>
    cases ag with
    | ok rg => obtain ⟨wg, dg, hg⟩ := rg; simp [applyFAct, obind, haf]
    | panic w => simp [applyFAct, obind]
    | stuck w => simp [applyFAct, obind]

/-- **CopyFrom, field lists**: permuting blocks that pairwise do not interfere gives an equivalent outcome -/
theorem copyFromFields_perm_equiv (ov : List (String × String)) (attrs : Option (List (String × TfVal)))
    {fs' fs : List Field} (hp : fs'.Perm fs) (hne : NoEmbed fs') (hind : fs'.Pairwise (Indep attrs)) :
    ∀ s s', FEquiv s s' → OutRel FEquiv (copyFromFields ov fs' attrs s) (copyFromFields ov fs attrs s') := by
  induction hp with
  | nil => intro s s' h; simpa [copyFromFields] using h
  | cons x _ ih =>
    intro s s' h
    rw [copyFromFields_cons, copyFromFields_cons]
    exact outRel_bind _ _ _ _ (blockF_equiv ov x attrs (hne x (by simp)) s s' h)
      (ih (fun g hg => hne g (by simp [hg])) (List.pairwise_cons.mp hind).2)
  | swap x y l =>
    intro s s' h
    rw [copyFromFields_cons2, copyFromFields_cons2]
    have hxy : Indep attrs y x := (List.pairwise_cons.mp hind).1 x (by simp)
    exact outRel_bind _ _ _ _ (blockF_swap ov y x attrs (hne y (by simp)) (hne x (by simp)) hxy s s' h)
      (fun t t' ht => copyFromFields_equiv ov attrs l (fun g hg => hne g (by simp [hg])) t t' ht)
  | trans h1 _ ih1 ih2 =>
    intro s s' h
    have hne2 : NoEmbed _ := fun g hg => hne g (h1.mem_iff.mpr hg)
    have hind2 := (h1.pairwise_iff (fun hxy => Indep.symm hxy)).mp hind
    exact OutRel.trans (R := FEquiv) (fun _ _ _ a b => FEquiv.trans a b) (ih1 hne hind s s' h)
      (ih2 hne2 hind2 s' s' (FEquiv.refl _))

/-- the hypothesis on oneof groups, as in the task: two fields that assign the same Go field are branches of one oneof
group, and at most one of their two attributes is known -/
def Sep (attrs : Option (List (String × TfVal))) (f g : Field) : Prop :=
  wk f.info = wk g.info → IsBranch f.info ∧ IsBranch g.info ∧ ¬ (Known attrs f.info ∧ Known attrs g.info)

theorem indep_of_sep {attrs : Option (List (String × TfVal))} {f g : Field} (h : Sep attrs f g) : Indep attrs f g := by
  by_cases e : wk f.info = wk g.info
  · obtain ⟨hf, hg, hn⟩ := h e
    by_cases hk : Known attrs f.info
    · exact Or.inr (Or.inr ⟨hg, fun hk' => hn ⟨hk, hk'⟩⟩)
    · exact Or.inr (Or.inl ⟨hf, hk⟩)
  · exact Or.inl e

/-- without oneofs: pairwise distinct Go field names are enough -/
theorem pairwise_indep_of_plain (attrs : Option (List (String × TfVal))) (fs : List Field)
    (ho : ∀ f ∈ fs, f.info.oneOfName = "") (hnd : (fs.map (·.info.name)).Nodup) : fs.Pairwise (Indep attrs) := by
  have hwk : ∀ f ∈ fs, wk f.info = f.info.name := fun f hf => by simp [wk, IsBranch, ho f hf]
  induction fs with
  | nil => exact List.Pairwise.nil
  | cons x l ih =>
    simp only [List.map_cons, List.nodup_cons, List.mem_map, not_exists, not_and] at hnd
    refine List.pairwise_cons.mpr ⟨fun g hg => Or.inl ?_, ih (fun f hf => ho f (by simp [hf])) hnd.2
      (fun f hf => hwk f (by simp [hf]))⟩
    rw [hwk x (by simp), hwk g (by simp [hg])]
    exact fun e => hnd.1 g hg e.symm

/-- **C15, CopyFrom field blocks (part 2)**: `fs'` a permutation of `fs`; no field of `fs` is a child of a nullable
embedded message; the blocks of `fs` pairwise do not interfere (`Indep`: they assign different Go fields – `wk`: the
holder for oneof branches, the field itself otherwise – or one of the two is a oneof branch whose attribute is not
known).  Then for every Terraform attribute map and every start state (any target, struct or not; no typing
hypotheses) the blocks in the order `fs'` succeed iff they succeed in the order `fs`, and after successful runs the
targets hold the same value in every Go field, with the same diagnostics and hook calls up to order. -/
theorem copyFromFields_perm (ov : List (String × String)) (attrs : Option (List (String × TfVal)))
    {fs' fs : List Field} (hp : fs'.Perm fs) (hne : NoEmbed fs) (hind : fs.Pairwise (Indep attrs)) (st : FromSt) :
    ((∃ s', copyFromFields ov fs' attrs st = .ok s') ↔ (∃ s, copyFromFields ov fs attrs st = .ok s)) ∧
    ∀ s' s, copyFromFields ov fs' attrs st = .ok s' → copyFromFields ov fs attrs st = .ok s →
      (∀ name, s'.obj.field? name = s.obj.field? name) ∧ (IsStruct s'.obj ↔ IsStruct s.obj) ∧
      s'.diags.Perm s.diags ∧ s'.hooks.Perm s.hooks := by
  have hne' : NoEmbed fs' := fun g hg => hne g (hp.mem_iff.mp hg)
  have hind' := (hp.pairwise_iff (fun hxy => Indep.symm hxy)).mpr hind
  have h := copyFromFields_perm_equiv ov attrs hp hne' hind' st st (FEquiv.refl _)
  refine ⟨outRel_ok_iff h, fun s' s e' e => ?_⟩
  rw [e', e] at h
  exact ⟨h.1.2, h.1.1, h.2.1, h.2.2⟩

/-- **C15, `Copy<T>FromTerraform` (part 3)**: two messages with the same `MsgInfo` whose field lists are permutations
of each other (hypotheses of `copyFromFields_perm`, for the attribute map of the object passed in): for every
Terraform value and every target, one converter succeeds iff the other does, and then the two structs hold the same
value in every Go field; diagnostics and hook calls agree up to order. -/
theorem copyFrom_perm (ov : List (String × String)) (m' m : Msg) (hp : m'.fields.Perm m.fields)
    (hinfo : m'.info = m.info) (hne : NoEmbed m.fields) (tf : TfVal) (obj : GoVal)
    (hind : ∀ u n attrs atys, tf = .obj u n attrs atys → m.fields.Pairwise (Indep attrs)) :
    ((∃ r', copyFrom ov m' tf obj = .ok r') ↔ (∃ r, copyFrom ov m tf obj = .ok r)) ∧
    ∀ r' r, copyFrom ov m' tf obj = .ok r' → copyFrom ov m tf obj = .ok r →
      (∀ name, r'.obj.field? name = r.obj.field? name) ∧ (IsStruct r'.obj ↔ IsStruct r.obj) ∧
      r'.diags.Perm r.diags ∧ r'.hooks.Perm r.hooks := by
  unfold copyFrom
  cases tf with
  | obj u n attrs atys =>
    simp only [hinfo]
    obtain ⟨hiff, hres⟩ := copyFromFields_perm ov attrs hp hne (hind u n attrs atys rfl)
      { obj := resetOneOfs m.info.oneOfNames obj }
    cases h' : copyFromFields ov m'.fields attrs { obj := resetOneOfs m.info.oneOfNames obj } with
    | ok s' =>
      obtain ⟨s, hs⟩ := hiff.mp ⟨s', h'⟩
      rw [hs]
      refine ⟨⟨fun _ => ⟨_, rfl⟩, fun _ => ⟨_, rfl⟩⟩, fun r' r e' e => ?_⟩
      injection e' with e'
      injection e with e
      subst e' e
      exact hres s' s h' hs
    | panic w =>
      have hno : ¬ ∃ s, copyFromFields ov m.fields attrs { obj := resetOneOfs m.info.oneOfNames obj } = .ok s :=
        fun hx => by obtain ⟨s', hs'⟩ := hiff.mpr hx; rw [h'] at hs'; cases hs'
      cases h : copyFromFields ov m.fields attrs { obj := resetOneOfs m.info.oneOfNames obj } with
      | ok s => exact absurd ⟨s, h⟩ hno
      | panic w2 => simp
      | stuck w2 => simp
    | stuck w =>
      have hno : ¬ ∃ s, copyFromFields ov m.fields attrs { obj := resetOneOfs m.info.oneOfNames obj } = .ok s :=
        fun hx => by obtain ⟨s', hs'⟩ := hiff.mpr hx; rw [h'] at hs'; cases hs'
      cases h : copyFromFields ov m.fields attrs { obj := resetOneOfs m.info.oneOfNames obj } with
      | ok s => exact absurd ⟨s, h⟩ hno
      | panic w2 => simp
      | stuck w2 => simp
  | prim _ _ _ _ => simp
  | list _ _ _ _ => simp
  | map _ _ _ _ => simp
  | nilv => simp
  | foreign _ => simp

/-- why the hypothesis on oneof groups is needed: with two known branches of one group the last one wins, so the
order matters -/
theorem copyFromFields_oneof_order_matters :
    ∃ (f g : Field) (attrs : Option (List (String × TfVal))) (st s1 s2 : FromSt),
      copyFromFields [] [f, g] attrs st = .ok s1 ∧ copyFromFields [] [g, f] attrs st = .ok s2 ∧
      s1.obj.field? "G" ≠ s2.obj.field? "G" := by
  refine ⟨{ info := { name := "A", nameSnake := "a", kind := .object, oneOfName := "G", oneOfType := "T_A",
                      tf := { valueType := "Object" } }, msg := some { name := "M", isEmpty := true } },
    { info := { name := "B", nameSnake := "b", kind := .object, oneOfName := "G", oneOfType := "T_B",
                tf := { valueType := "Object" } }, msg := some { name := "M", isEmpty := true } },
    some [("a", .obj false false none none), ("b", .obj false false none none)], { obj := .struct [] },
    { obj := .struct [("G", .iface (some ("T_B", "B", .ptr (some (.struct [])))))] },
    { obj := .struct [("G", .iface (some ("T_A", "A", .ptr (some (.struct [])))))] }, ?_, ?_, ?_⟩
  · simp [copyFromFields, copyFromField, copyFromFieldWith, List.lookup, TfVal.vkind, vkindOf, lastSegment, embedGuard,
      known, isEmptyMsg]
    rfl
  · simp [copyFromFields, copyFromField, copyFromFieldWith, List.lookup, TfVal.vkind, vkindOf, lastSegment, embedGuard,
      known, isEmptyMsg]
    rfl
  · simp [GoVal.field?, List.lookup]

end OrderIndep
end PGT

#print axioms PGT.OrderIndep.copyToField_swap
#print axioms PGT.OrderIndep.copyToFields_perm
#print axioms PGT.OrderIndep.copyTo_perm
#print axioms PGT.OrderIndep.copyToFields_failure_differs
#print axioms PGT.OrderIndep.fromFields_writerF
#print axioms PGT.OrderIndep.blockF_swap
#print axioms PGT.OrderIndep.copyFromFields_perm
#print axioms PGT.OrderIndep.copyFrom_perm
#print axioms PGT.OrderIndep.copyFromFields_oneof_order_matters
