import PGT.Model.Schema
import PGT.Proofs.ToCongr
import PGT.Proofs.ToTotalAny
import PGT.Proofs.FromFrame
import PGT.Proofs.FromDiags
import PGT.Proofs.SchemaTyped
import PGT.Props.C06
import PGT.Proofs.OrderIndep
import PGT.Proofs.OrderIndepEmbed
/-
C02, "schema, CopyTo and CopyFrom use the SAME attribute name and nest the same way", as theorems about the model - for
every IR (mutual induction over `Field` / `List Field`), every struct value, every Terraform value.  In the model the three
artefacts read `f.info.nameSnake`; the theorems below fail as soon as one of `schemaField`, `copyToFieldWith`,
`copyFromFieldWith` uses another key, or one of the three recursions descends into another list than `f.sub`.

0. `NTree`, `nameTree fs` (`nameTreeG inj fs`): the tree of attribute names of an IR - one node per field, named
   `nameSnake`; below a field of kind object / objectList / objectMap the name tree of `f.sub`.
1. Schema: `schemaAttrs_keys` (one entry per field, in order, keyed by `nameSnake`), `schemaField_nested` /
   `schemaField_nest` / `schemaField_ty_nested` (nested attributes = `schemaAttrs sub ++ injected`), `schema_exactly_one`
   (with `Nodup` names: the name occurs once, `lookup` finds the field's own entry, of type `schemaTy f`),
   `sTree_schemaAttrs` (the schema's attribute tree = `nameTreeG true fs`), `nameTree_ext`, `sTree_schemaAttrs_noinj`.
2. CopyTo: `copyToField_atys_congr` / `copyToFields_atys_congr` (the attribute TYPE is read at `nameSnake` only),
   `copyToField_type_missing`, `copyToFields_keys_sub` / `_mono` (no other key is created, none removed; all inputs),
   `copyToFields_keys_exact` (types present and fitting: key set = old ∪ `fs.map nameSnake`), `copyToFields_keys_fresh`
   (… appended in field order), `copyToFields_key_or_diag`, `tyFits_schemaTy` (the schema's types fit).
   (`copyToField_frame`, `copyToField_own`, `copyToField_act` of ToCongr.lean: the current VALUE is read at `nameSnake` only.)
3. CopyFrom: `copyFromField_attrs_congr` / `copyFromFields_attrs_congr` / `copyFrom_attrs_congr` (the attribute map is read
   at `fs.map nameSnake` only), `copyFromField_reads_own_key` (the key IS read), `copyFromFields_missing_key`,
   `copyFromFields_nested_missing`; at every depth: `AgreeOn`, `copyFromFields_tree_congr`, `copyFrom_tree_congr`;
   whole run, Go side: `copyFromFields_reach_touch`, `copyFromFields_changes_only_touch`, `copyFromFields_own_key_touch`
   (every IR with `EmbedOK`: no oneof branch among the children of a nullable embedded message; children of nullable
   embedded messages themselves are covered) and the `NoEmbed` forms `copyFromFields_changes_only`, `copyFromFields_own_key`.
4. CopyTo's tree: `KeysTree`, `toFields_tree` / `toField_tree`, `copyTo_tree` (every completed run on the schema-typed empty
   object returns, at every depth, exactly the keys of `nameTree`, in order - every source value).
5. Embedding: `embed_flattens` (the builder splices the embedded message's fields into the embedding message),
   `nameTree_markEmbedded`.
6. `C02_same_key`, `C02_same_tree`, `C02_nesting_same`, `C02_copyTo_schema_typed`.  7. a two-level example.

Side conditions, where needed, are explicit: `Nodup` names per level (`schema_exactly_one`, `C02_same_key` part 1,
`copyToFields_keys_fresh`), `TreeWFs` = distinct names per level + `repeated` flag goes with the kind (`copyTo_tree`; implied
by `IRWFs`). The congruences of parts 2 and 3 and `copyFromFields_tree_congr` need no hypothesis at all.
Remarks: (a) injected attributes exist in the schema only - hence `nameTreeG true` / `Ext` for the schema; (b) the
placeholder `active` of a message without fields is in the schema and written (null) by CopyTo, and skipped by CopyFrom:
`copyFromFields_tree_congr` holds for `nameTree` all the same (agreement at the placeholder's node is not used);
(c) open statements: `copyFromFields_reach_full`, `copyTo_tree_inplace_full` at the end of the file.
-/
namespace PGT.SameNames
open PGT PGT.SchemaTyped

-- ======================================================================================================
-- 0. the tree of attribute names of an IR
-- ======================================================================================================

/-- a tree of attribute names -/
inductive NTree
  | node (name : String) (kids : List NTree)
deriving Repr, Inhabited

/-- the kinds whose attribute nests the attributes of the nested message -/
def isNest : Kind → Bool
  | .object | .objectList | .objectMap => true
  | _ => false

/-- the injected attributes of a nested message, as leaves -/
def injLeaves (msg : Option MsgInfo) : List NTree :=
  ((msg.map (·.injected)).getD []).map fun i => NTree.node i.name []

mutual
/-- the tree of attribute names of a field list; `inj`: with the injected attributes of nested messages -/
def nameTreeG (inj : Bool) : List Field → List NTree
  | [] => []
  | f :: rest => nameNodeG inj f :: nameTreeG inj rest
def nameNodeG (inj : Bool) : Field → NTree
  | ⟨info, _, msg, sub⟩ =>
    .node info.nameSnake
      (if isNest info.kind then nameTreeG inj sub ++ (if inj then injLeaves msg else []) else [])
end

/-- **the name tree of an IR**: one node per field, named `nameSnake`; below an object / list of objects / map of objects
the name tree of the nested message's fields -/
abbrev nameTree (fs : List Field) : List NTree := nameTreeG false fs
abbrev nameNode (f : Field) : NTree := nameNodeG false f

def NTree.name : NTree → String
  | .node n _ => n

theorem nameNodeG_name (inj : Bool) (f : Field) : (nameNodeG inj f).name = f.info.nameSnake := by
  obtain ⟨info, mv, msg, sub⟩ := f
  simp [nameNodeG, NTree.name]

theorem nameTreeG_names (inj : Bool) : ∀ fs : List Field, (nameTreeG inj fs).map (·.name) = fs.map (·.info.nameSnake)
  | [] => by simp [nameTreeG]
  | f :: rest => by simp [nameTreeG, nameNodeG_name, nameTreeG_names inj rest]

-- ======================================================================================================
-- 1. the schema: one entry per field, in order, keyed by `nameSnake`; nested entries are those of `sub`
-- ======================================================================================================

/-- the nested attributes of a `tfsdk.Attribute` -/
def nestedOf : SAttr → List (String × SAttr)
  | .mk _ _ _ _ _ _ _ as _ _ _ => as

/-- the nesting mode -/
def nestOf : SAttr → String
  | .mk _ _ _ _ _ _ n _ _ _ _ => n

/-- the injected attributes of a nested message -/
def injectedOf (msg : Option MsgInfo) : List (String × SAttr) := ((msg.map (·.injected)).getD []).map injectedAttr

/-- **one schema entry per field, in order, keyed by the field's `nameSnake`** -/
theorem schemaAttrs_keys : ∀ fs : List Field, (schemaAttrs fs).map (·.1) = fs.map (·.info.nameSnake)
  | [] => by simp [schemaAttrs]
  | f :: rest => by
    rw [schemaAttrs]
    simp only [List.map_cons, schemaField_name, schemaAttrs_keys rest]

theorem schemaAttrs_length (fs : List Field) : (schemaAttrs fs).length = fs.length := by
  have := congrArg List.length (schemaAttrs_keys fs)
  simpa using this

/-- the entries are those `schemaField` generates, position by position -/
theorem schemaAttrs_eq_map : ∀ fs : List Field, schemaAttrs fs = fs.map schemaField
  | [] => by simp [schemaAttrs]
  | f :: rest => by rw [schemaAttrs, schemaAttrs_eq_map rest]; rfl

/-- **nesting**: the entry of an object / list-of-objects / map-of-objects field holds the schema of the nested message's
fields (`schemaAttrs sub`, then the injected attributes) as nested attributes; every other entry holds none -/
theorem schemaField_nested (f : Field) :
    nestedOf (schemaField f).2 = if isNest f.info.kind then schemaAttrs f.sub ++ injectedOf f.msg else [] := by
  obtain ⟨info, mapVal, msg, sub⟩ := f
  rw [schemaField]
  cases hk : info.kind <;> simp [nestedOf, isNest, injectedOf]

/-- the nesting mode goes with the kind (single / list / map nested attributes, else none) -/
theorem schemaField_nest (f : Field) :
    nestOf (schemaField f).2 = (match f.info.kind with
      | .object => "single" | .objectList => "list" | .objectMap => "map" | _ => "none") := by
  obtain ⟨info, mapVal, msg, sub⟩ := f
  rw [schemaField]
  cases hk : info.kind <;> simp [nestOf]

/-- the declared type of a nesting entry is the object type over the types of exactly its nested attributes -/
theorem schemaField_ty_nested (f : Field) (h : isNest f.info.kind = true) :
    schemaTy f = (match f.info.kind with
      | .objectList => TfTy.list (some (.obj (some (tysOf (nestedOf (schemaField f).2)))))
      | .objectMap => TfTy.map (some (.obj (some (tysOf (nestedOf (schemaField f).2)))))
      | _ => TfTy.obj (some (tysOf (nestedOf (schemaField f).2)))) := by
  rw [schemaField_nested, h]
  obtain ⟨info, mapVal, msg, sub⟩ := f
  simp only [isNest] at h
  cases hk : info.kind <;> simp [hk] at h <;> simp [schemaTy, hk, nestedTys, injectedOf]

theorem count_names_eq_one {l : List String} (hnd : l.Nodup) {n : String} (hn : n ∈ l) : l.count n = 1 := by
  induction l with
  | nil => cases hn
  | cons a rest ih =>
    simp only [List.nodup_cons] at hnd
    rcases List.mem_cons.1 hn with rfl | hm
    · simp [List.count_eq_zero.2 hnd.1]
    · have : a ≠ n := fun e => hnd.1 (e ▸ hm)
      simp [this, ih hnd.2 hm]

/-- **exactly one attribute per field**: with pairwise distinct names, the name of a field occurs exactly once among the
keys of the schema of its message, and the entry found under it is the field's own -/
theorem schema_exactly_one (fs : List Field) (extra : List (String × SAttr)) (hnd : (fs.map (·.info.nameSnake)).Nodup)
    (f : Field) (hf : f ∈ fs) :
    ((schemaAttrs fs).map (·.1)).count f.info.nameSnake = 1 ∧
    (schemaAttrs fs ++ extra).lookup f.info.nameSnake = some (schemaField f).2 ∧
    (schemaField f).2.ty = schemaTy f := by
  refine ⟨?_, schema_lookup fs extra hnd f hf, schemaField_ty f⟩
  rw [schemaAttrs_keys]
  exact count_names_eq_one hnd (List.mem_map_of_mem hf)

/-- a key that is no field's name (and no extra attribute's) is not in the schema -/
theorem schema_no_other_key (fs : List Field) (key : String) (h : key ∉ fs.map (·.info.nameSnake)) :
    (schemaAttrs fs).lookup key = none := by
  rw [List.lookup_eq_none_iff]
  intro p hp
  have : p.1 ∈ (schemaAttrs fs).map (·.1) := List.mem_map_of_mem hp
  rw [schemaAttrs_keys] at this
  simp only [bne_iff_ne, ne_eq]
  intro e
  subst e
  exact h this

-- the tree of names of a schema

mutual
/-- the tree of attribute names a walk of a `tfsdk.Schema` / nested attributes sees -/
def sTree : List (String × SAttr) → List NTree
  | [] => []
  | (n, a) :: rest => NTree.node n (sKids a) :: sTree rest
def sKids : SAttr → List NTree
  | .mk _ _ _ _ _ _ _ as _ _ _ => sTree as
end

theorem sKids_eq (a : SAttr) : sKids a = sTree (nestedOf a) := by
  cases a; simp [sKids, nestedOf]

theorem sTree_append : ∀ a b : List (String × SAttr), sTree (a ++ b) = sTree a ++ sTree b
  | [], b => by simp [sTree]
  | (n, x) :: rest, b => by simp [sTree, sTree_append rest b]

theorem sTree_injected (msg : Option MsgInfo) : sTree (injectedOf msg) = injLeaves msg := by
  unfold injectedOf injLeaves
  induction (msg.map (·.injected)).getD [] with
  | nil => simp [sTree]
  | cons i rest ih => simp [sTree, injectedAttr, sKids, ih]

mutual
/-- **the schema's attribute tree is the name tree of the IR** (with the injected attributes of nested messages as
additional leaves) -/
theorem sTree_schemaAttrs : ∀ fs : List Field, sTree (schemaAttrs fs) = nameTreeG true fs
  | [] => by simp [schemaAttrs, sTree, nameTreeG]
  | f :: rest => by
    rw [schemaAttrs, nameTreeG, ← sTree_schemaAttrs rest]
    have := sTree_schemaField f
    generalize schemaField f = p at this
    obtain ⟨n, a⟩ := p
    simp only [sTree, this]
theorem sTree_schemaField : ∀ f : Field, NTree.node (schemaField f).1 (sKids (schemaField f).2) = nameNodeG true f
  | ⟨info, mapVal, msg, sub⟩ => by
    rw [sKids_eq, schemaField_nested, schemaField_name, nameNodeG]
    simp only [if_true]
    cases h : isNest info.kind
    · simp [sTree]
    · simp only [if_true, sTree_append, sTree_injected, sTree_schemaAttrs sub]
end

mutual
/-- `Ext ts ts'`: `ts'` is `ts` with additional trailing nodes at some levels (the injected attributes) -/
inductive Ext : List NTree → List NTree → Prop
  | nil (extra : List NTree) : Ext [] extra
  | cons {t t' : NTree} {ts ts' : List NTree} : ExtN t t' → Ext ts ts' → Ext (t :: ts) (t' :: ts')
inductive ExtN : NTree → NTree → Prop
  | node (n : String) {ks ks' : List NTree} : Ext ks ks' → ExtN (.node n ks) (.node n ks')
end

theorem ext_append_right : ∀ {a b : List NTree} (c : List NTree), Ext a b → Ext a (b ++ c)
  | _, _, _, .nil e => .nil _
  | _, _, c, .cons h t => .cons h (ext_append_right c t)

mutual
/-- the schema's tree extends the name tree by trailing leaves only (the injected attributes): every field node of the
schema's tree is at the same position, under the same name, as in `nameTree` -/
theorem nameTree_ext : ∀ fs : List Field, Ext (nameTree fs) (nameTreeG true fs)
  | [] => by simp only [nameTreeG]; exact .nil _
  | f :: rest => by
    simp only [nameTreeG]
    exact .cons (nameNode_ext f) (nameTree_ext rest)
theorem nameNode_ext : ∀ f : Field, ExtN (nameNode f) (nameNodeG true f)
  | ⟨info, mapVal, msg, sub⟩ => by
    simp only [nameNodeG]
    cases isNest info.kind
    · exact .node _ (.nil _)
    · simp only [if_true, Bool.false_eq_true, if_false, List.append_nil]
      exact .node _ (ext_append_right _ (nameTree_ext sub))
end

mutual
/-- no message nested in the IR has injected attributes -/
def NoNestedInjected : List Field → Prop
  | [] => True
  | f :: rest => NoNestedInjectedF f ∧ NoNestedInjected rest
def NoNestedInjectedF : Field → Prop
  | ⟨info, _, msg, sub⟩ => isNest info.kind = true → (msg.map (·.injected)).getD [] = [] ∧ NoNestedInjected sub
end

mutual
theorem nameTreeG_noinj : ∀ fs : List Field, NoNestedInjected fs → nameTreeG true fs = nameTree fs
  | [], _ => by simp [nameTreeG]
  | f :: rest, h => by
    unfold NoNestedInjected at h
    simp only [nameTreeG]
    rw [nameNodeG_noinj f h.1, nameTreeG_noinj rest h.2]
theorem nameNodeG_noinj : ∀ f : Field, NoNestedInjectedF f → nameNodeG true f = nameNode f
  | ⟨info, mapVal, msg, sub⟩, h => by
    unfold NoNestedInjectedF at h
    simp only [nameNodeG]
    cases hk : isNest info.kind
    · simp
    · obtain ⟨h1, h2⟩ := h hk
      simp [injLeaves, h1, nameTreeG_noinj sub h2]
end

/-- **the schema's attribute tree is `nameTree fs`** when no nested message has injected attributes -/
theorem sTree_schemaAttrs_noinj (fs : List Field) (h : NoNestedInjected fs) : sTree (schemaAttrs fs) = nameTree fs := by
  rw [sTree_schemaAttrs, nameTreeG_noinj fs h]

-- ======================================================================================================
-- 2. CopyTo: reads the attribute TYPE at `nameSnake`, the current VALUE at `nameSnake`, writes `nameSnake` and nothing else
-- ======================================================================================================

/-- the keys of an association list, in order -/
abbrev keys {α} (l : List (String × α)) : List String := l.map (·.1)

theorem mem_keys_iff {α} (k : String) : ∀ l : List (String × α), k ∈ keys l ↔ ∃ v, l.lookup k = some v
  | [] => by simp
  | (k', v') :: rest => by
    simp only [List.map_cons, List.mem_cons, List.lookup_cons]
    by_cases e : k = k'
    · subst e; simp
    · have hb : (k == k') = false := by simpa using e
      simp only [e, false_or, hb]
      exact mem_keys_iff k rest

theorem not_mem_keys_iff {α} (k : String) (l : List (String × α)) : k ∉ keys l ↔ l.lookup k = none := by
  rw [mem_keys_iff]
  cases l.lookup k <;> simp

/-- storing under a new key appends the binding -/
theorem setKey_new {α} (k : String) (v : α) : ∀ l : List (String × α), k ∉ keys l → setKey k v l = l ++ [(k, v)]
  | [], _ => rfl
  | (k', v') :: rest, h => by
    simp only [List.map_cons, List.mem_cons, not_or] at h
    have hb : (k' == k) = false := by simpa using fun e : k' = k => h.1 e.symm
    simp [setKey, hb, setKey_new k v rest h.2]

/-- storing under a key that is bound keeps the keys -/
theorem keys_setKey_old {α} (k : String) (v : α) : ∀ l : List (String × α), k ∈ keys l → keys (setKey k v l) = keys l
  | [], h => by cases h
  | (k', v') :: rest, h => by
    by_cases e : k' = k
    · subst e; simp [setKey]
    · have hb : (k' == k) = false := by simpa using e
      simp only [List.map_cons, List.mem_cons] at h
      rcases h with h | h
      · exact absurd h.symm e
      · simp [setKey, hb, keys_setKey_old k v rest h]

theorem mem_keys_setKey {α} (k key : String) (v : α) (l : List (String × α)) :
    key ∈ keys (setKey k v l) ↔ key ∈ keys l ∨ key = k := by
  by_cases h : k ∈ keys l
  · rw [keys_setKey_old k v l h]
    constructor
    · exact Or.inl
    · rintro (h' | rfl)
      · exact h'
      · exact h
  · rw [setKey_new k v l h]
    simp

-- 2a. the attribute type is read at the field's own name

/-- **the block of a field reads the attribute types only at the field's `nameSnake`**: two type maps that agree at that
key give the same outcome (result state, diagnostics, hooks, panic / stuck) - all inputs -/
theorem copyToField_atys_congr (f : Field) (obj : GoVal) (atys atys' : Option (List (String × TfTy))) (st : ToSt)
    (h : (atys.getD []).lookup f.info.nameSnake = (atys'.getD []).lookup f.info.nameSnake) :
    copyToField f obj atys st = copyToField f obj atys' st := by
  obtain ⟨info, mv, msg, sub⟩ := f
  simp only [copyToField]
  unfold copyToFieldWith
  simp only at h
  rw [h]

/-- … for the blocks of a message: two type maps that agree at the names of the fields give the same outcome -/
theorem copyToFields_atys_congr : ∀ (fs : List Field) (obj : GoVal) (atys atys' : Option (List (String × TfTy))) (st : ToSt),
    (∀ f ∈ fs, (atys.getD []).lookup f.info.nameSnake = (atys'.getD []).lookup f.info.nameSnake) →
    copyToFields fs obj atys st = copyToFields fs obj atys' st
  | [], _, _, _, _, _ => by simp [copyToFields]
  | f :: rest, obj, atys, atys', st, h => by
    simp only [copyToFields]
    rw [copyToField_atys_congr f obj atys atys' st (h f (by simp))]
    cases copyToField f obj atys' st with
    | ok st1 => exact copyToFields_atys_congr rest obj atys atys' st1 (fun g hg => h g (by simp [hg]))
    | panic w => rfl
    | stuck w => rfl

/-- the key matters: without a type under the field's name the block reports `writeMissing` for the field's path and
writes nothing, whatever else the type map holds -/
theorem copyToField_type_missing (f : Field) (obj : GoVal) (atys : Option (List (String × TfTy))) (st : ToSt)
    (h : (atys.getD []).lookup f.info.nameSnake = none) :
    copyToField f obj atys st = .ok (st.diag (.writeMissing f.info.path)) := by
  obtain ⟨info, mv, msg, sub⟩ := f
  simp only [copyToField]
  unfold copyToFieldWith
  simp only at h
  simp only [h]

-- 2b. the keys written

/-- the attribute type fits the field's kind as far as the block's type assertion on it goes (else: `writeConv`) -/
def TyFits (info : FieldInfo) (ty : TfTy) : Prop :=
  match info.kind with
  | .primitive => True
  | .custom => True
  | .object => ∃ oty, ty = .obj oty
  | _ => (∃ e, ty = .list e ∧ info.isRepeated = true) ∨ (∃ e, ty = .map e ∧ info.isRepeated = false)

/-- a block whose attribute type is present and fits stores a value under the field's `nameSnake` when it returns -/
theorem copyToFieldWith_sets (rec : ToRec) (info : FieldInfo) (msg : Option MsgInfo) (se : Bool) (obj0 : GoVal)
    (atys : Option (List (String × TfTy))) (st st' : ToSt) (ty : TfTy)
    (hl : (atys.getD []).lookup info.nameSnake = some ty) (hfit : TyFits info ty)
    (h : copyToFieldWith rec info msg se obj0 atys st = .ok st') :
    ∃ v, st'.attrs = setKey info.nameSnake v st.attrs := by
  unfold copyToFieldWith at h
  unfold TyFits at hfit
  simp only [hl] at h
  cases hk : info.kind
  case primitive =>
    simp only [hk] at h
    split at h
    · injection h with h; subst h; exact ⟨_, rfl⟩
    · cases h
    · cases h
  case object =>
    simp only [hk] at h hfit
    obtain ⟨oty, rfl⟩ := hfit
    simp only [] at h
    split at h
    · injection h with h; subst h; exact ⟨_, rfl⟩
    · cases h
    · cases h
  case custom =>
    simp only [hk] at h
    split at h
    · split at h
      · injection h with h; subst h; exact ⟨_, rfl⟩
      · cases h
    · cases h
    · cases h
  all_goals
    simp only [hk] at h hfit
    rcases hfit with ⟨e, rfl, hr⟩ | ⟨e, rfl, hr⟩ <;> simp only [hr, if_true, Bool.false_eq_true, if_false] at h
    all_goals
      split at h
      · cases h
      · cases h
      · exact listOrMapBody_ok_sets _ _ _ _ _ _ _ _ _ _ h

theorem copyToField_keys (f : Field) (obj : GoVal) (atys : Option (List (String × TfTy))) (st st' : ToSt)
    (h : copyToField f obj atys st = .ok st') (key : String) :
    key ∈ keys st'.attrs → key ∈ keys st.attrs ∨ key = f.info.nameSnake := by
  rcases copyToField_shape f obj atys st st' h with e | ⟨v, e⟩
  · rw [e]; exact Or.inl
  · rw [e, mem_keys_setKey]; exact id

theorem copyToField_keys_mono (f : Field) (obj : GoVal) (atys : Option (List (String × TfTy))) (st st' : ToSt)
    (h : copyToField f obj atys st = .ok st') (key : String) :
    key ∈ keys st.attrs → key ∈ keys st'.attrs := by
  rcases copyToField_shape f obj atys st st' h with e | ⟨v, e⟩
  · rw [e]; exact id
  · rw [e, mem_keys_setKey]; exact Or.inl

/-- **no other key is created**: every key of the attribute map after the blocks of `fs` was there before or is the
`nameSnake` of a field of `fs` (all inputs) -/
theorem copyToFields_keys_sub : ∀ (fs : List Field) (obj : GoVal) (atys : Option (List (String × TfTy))) (st st' : ToSt),
    copyToFields fs obj atys st = .ok st' →
    ∀ key, key ∈ keys st'.attrs → key ∈ keys st.attrs ∨ key ∈ fs.map (·.info.nameSnake)
  | [], _, _, st, st', h, key, hk => by
    simp only [copyToFields] at h; injection h with h; subst h; exact Or.inl hk
  | f :: rest, obj, atys, st, st', h, key, hk => by
    simp only [copyToFields] at h
    cases hm : copyToField f obj atys st with
    | ok m =>
      rw [hm] at h
      rcases copyToFields_keys_sub rest obj atys m st' h key hk with h1 | h1
      · rcases copyToField_keys f obj atys st m hm key h1 with h2 | h2
        · exact Or.inl h2
        · exact Or.inr (by simp [h2])
      · exact Or.inr (by simp only [List.map_cons, List.mem_cons]; exact Or.inr h1)
    | panic w => rw [hm] at h; cases h
    | stuck w => rw [hm] at h; cases h

/-- no key is removed -/
theorem copyToFields_keys_mono : ∀ (fs : List Field) (obj : GoVal) (atys : Option (List (String × TfTy))) (st st' : ToSt),
    copyToFields fs obj atys st = .ok st' → ∀ key, key ∈ keys st.attrs → key ∈ keys st'.attrs
  | [], _, _, st, st', h, key, hk => by
    simp only [copyToFields] at h; injection h with h; subst h; exact hk
  | f :: rest, obj, atys, st, st', h, key, hk => by
    simp only [copyToFields] at h
    cases hm : copyToField f obj atys st with
    | ok m =>
      rw [hm] at h
      exact copyToFields_keys_mono rest obj atys m st' h key (copyToField_keys_mono f obj atys st m hm key hk)
    | panic w => rw [hm] at h; cases h
    | stuck w => rw [hm] at h; cases h

/-- in place: a target that already holds the names of the fields keeps its key list (order included) - all inputs -/
theorem copyToFields_keys_inplace : ∀ (fs : List Field) (obj : GoVal) (atys : Option (List (String × TfTy))) (st st' : ToSt),
    (∀ f ∈ fs, f.info.nameSnake ∈ keys st.attrs) → copyToFields fs obj atys st = .ok st' →
    keys st'.attrs = keys st.attrs
  | [], _, _, st, st', _, h => by
    simp only [copyToFields] at h; injection h with h; subst h; rfl
  | f :: rest, obj, atys, st, st', hin, h => by
    simp only [copyToFields] at h
    cases hm : copyToField f obj atys st with
    | ok m =>
      rw [hm] at h
      have e : keys m.attrs = keys st.attrs := by
        rcases copyToField_shape f obj atys st m hm with e | ⟨v, e⟩
        · rw [e]
        · rw [e]; exact keys_setKey_old _ _ _ (hin f (by simp))
      rw [copyToFields_keys_inplace rest obj atys m st' (fun g hg => by rw [e]; exact hin g (by simp [hg])) h, e]
    | panic w => rw [hm] at h; cases h
    | stuck w => rw [hm] at h; cases h

/-- a block whose attribute type is present and fits stores a value under the field's `nameSnake` -/
theorem copyToField_sets (f : Field) (obj : GoVal) (atys : Option (List (String × TfTy))) (st st' : ToSt) (ty : TfTy)
    (hl : (atys.getD []).lookup f.info.nameSnake = some ty) (hfit : TyFits f.info ty)
    (h : copyToField f obj atys st = .ok st') :
    ∃ v, st'.attrs = setKey f.info.nameSnake v st.attrs := by
  obtain ⟨info, mv, msg, sub⟩ := f
  simp only [copyToField] at h
  exact copyToFieldWith_sets _ info msg _ obj atys st st' ty hl hfit h

/-- **CopyTo writes exactly the keys `fs.map nameSnake`**: when every field has its attribute type in the target and the
type fits the kind, the key set after the run is `keys before ∪ fs.map nameSnake` -/
theorem copyToFields_keys_exact : ∀ (fs : List Field) (obj : GoVal) (atys : Option (List (String × TfTy))) (st st' : ToSt),
    (∀ f ∈ fs, ∃ ty, (atys.getD []).lookup f.info.nameSnake = some ty ∧ TyFits f.info ty) →
    copyToFields fs obj atys st = .ok st' →
    ∀ key, key ∈ keys st'.attrs ↔ key ∈ keys st.attrs ∨ key ∈ fs.map (·.info.nameSnake)
  | [], _, _, st, st', _, h, key => by
    simp only [copyToFields] at h; injection h with h; subst h; simp
  | f :: rest, obj, atys, st, st', hty, h, key => by
    simp only [copyToFields] at h
    cases hm : copyToField f obj atys st with
    | ok m =>
      rw [hm] at h
      obtain ⟨ty, hl, hfit⟩ := hty f (by simp)
      obtain ⟨v, e⟩ := copyToField_sets f obj atys st m ty hl hfit hm
      rw [copyToFields_keys_exact rest obj atys m st' (fun g hg => hty g (by simp [hg])) h key, e, mem_keys_setKey]
      simp only [List.map_cons, List.mem_cons]
      constructor
      · rintro ((h1 | h1) | h1)
        · exact Or.inl h1
        · exact Or.inr (Or.inl h1)
        · exact Or.inr (Or.inr h1)
      · rintro (h1 | h1 | h1)
        · exact Or.inl (Or.inl h1)
        · exact Or.inl (Or.inr h1)
        · exact Or.inr h1
    | panic w => rw [hm] at h; cases h
    | stuck w => rw [hm] at h; cases h

/-- … and in order: on a target that holds none of the names (e.g. the empty object), with pairwise distinct names, the
run appends one binding per field, in field order -/
theorem copyToFields_keys_fresh : ∀ (fs : List Field) (obj : GoVal) (atys : Option (List (String × TfTy))) (st st' : ToSt),
    (∀ f ∈ fs, ∃ ty, (atys.getD []).lookup f.info.nameSnake = some ty ∧ TyFits f.info ty) →
    (fs.map (·.info.nameSnake)).Nodup → (∀ n ∈ fs.map (·.info.nameSnake), n ∉ keys st.attrs) →
    copyToFields fs obj atys st = .ok st' →
    ∃ new : List (String × TfVal), st'.attrs = st.attrs ++ new ∧ keys new = fs.map (·.info.nameSnake)
  | [], _, _, st, st', _, _, _, h => by
    simp only [copyToFields] at h; injection h with h; subst h; exact ⟨[], by simp, rfl⟩
  | f :: rest, obj, atys, st, st', hty, hnd, hdis, h => by
    simp only [copyToFields] at h
    simp only [List.map_cons, List.nodup_cons] at hnd
    cases hm : copyToField f obj atys st with
    | ok m =>
      rw [hm] at h
      obtain ⟨ty, hl, hfit⟩ := hty f (by simp)
      obtain ⟨v, e⟩ := copyToField_sets f obj atys st m ty hl hfit hm
      rw [setKey_new _ _ _ (hdis _ (by simp))] at e
      have hdis' : ∀ n ∈ rest.map (·.info.nameSnake), n ∉ keys m.attrs := by
        intro n hn
        rw [e]
        simp only [List.map_append, List.map_cons, List.map_nil, List.mem_append, List.mem_singleton, not_or]
        exact ⟨hdis n (by simp only [List.map_cons, List.mem_cons]; exact Or.inr hn), fun e' => hnd.1 (e' ▸ hn)⟩
      obtain ⟨new, e2, hk⟩ := copyToFields_keys_fresh rest obj atys m st' (fun g hg => hty g (by simp [hg])) hnd.2 hdis' h
      refine ⟨(f.info.nameSnake, v) :: new, ?_, ?_⟩
      · rw [e2, e]; simp
      · simp [hk]
    | panic w => rw [hm] at h; cases h
    | stuck w => rw [hm] at h; cases h

/-- **each field's key is present or its diagnostic is** (all inputs; `copyToFields_diag_half` of ToTotalAny.lean, on
keys): after a completed run, a field whose attribute type is missing has its `writeMissing` diagnostic; every other
field's `nameSnake` is a key of the result or the field has its `writeConv` diagnostic -/
theorem copyToFields_key_or_diag (fs : List Field) (obj : GoVal) (atys : Option (List (String × TfTy))) (st st' : ToSt)
    (h : copyToFields fs obj atys st = .ok st') (f : Field) (hf : f ∈ fs) :
    ((atys.getD []).lookup f.info.nameSnake = none → Diag.writeMissing f.info.path ∈ st'.diags) ∧
    (∀ ty, (atys.getD []).lookup f.info.nameSnake = some ty →
      f.info.nameSnake ∈ keys st'.attrs ∨ Diag.writeConv f.info.path f.info.tf.type ∈ st'.diags) := by
  obtain ⟨h1, h2⟩ := copyToFields_diag_half fs obj atys st st' h f hf
  refine ⟨h1, fun ty hl => ?_⟩
  rcases h2 ty hl with hv | hd
  · exact Or.inl ((mem_keys_iff _ _).2 hv)
  · exact Or.inr hd

-- 2c. the schema's types fit

/-- the repeated flag goes with the kind (what `BuildField` establishes: `kindOf`) -/
def KindRep (info : FieldInfo) : Prop :=
  match info.kind with
  | .primitiveList | .objectList => info.isRepeated = true
  | .primitiveMap | .objectMap => info.isRepeated = false
  | _ => True

theorem kindRep_of_irwf (f : Field) (h : IRWF f) : KindRep f.info := by
  obtain ⟨info, mv, msg, sub⟩ := f
  unfold IRWF at h
  unfold KindRep
  obtain ⟨_, h⟩ := h
  simp only
  cases hk : info.kind <;> simp only [hk] at h ⊢ <;> first | trivial | exact h.1

/-- the type the schema declares for a field fits the field's kind -/
theorem tyFits_schemaTy (f : Field) (h : KindRep f.info) : TyFits f.info (schemaTy f) := by
  obtain ⟨info, mv, msg, sub⟩ := f
  unfold KindRep at h
  unfold TyFits
  simp only at h ⊢
  cases hk : info.kind <;> simp only [hk, schemaTy] at h ⊢
  · exact Or.inl ⟨_, rfl, h⟩
  · exact ⟨_, rfl⟩
  · exact Or.inl ⟨_, rfl, h⟩
  · exact Or.inr ⟨_, rfl, h⟩
  · exact Or.inr ⟨_, rfl, h⟩

-- ======================================================================================================
-- 3. CopyFrom: reads the attribute map at `nameSnake` and nowhere else
-- ======================================================================================================

/-- **the block of a field reads the attribute map only at the field's `nameSnake`**: two attribute maps that agree at
that key give the same outcome (struct, diagnostics, hooks, panic / stuck) - all inputs -/
theorem copyFromField_attrs_congr (ov : List (String × String)) (f : Field) (attrs attrs' : Option (List (String × TfVal)))
    (st : FromSt) (h : (attrs.getD []).lookup f.info.nameSnake = (attrs'.getD []).lookup f.info.nameSnake) :
    copyFromField ov f attrs st = copyFromField ov f attrs' st := by
  obtain ⟨info, mv, msg, sub⟩ := f
  simp only [copyFromField]
  unfold copyFromFieldWith
  simp only at h
  rw [h]

/-- **the blocks of a message read the attribute map only at `fs.map nameSnake`** -/
theorem copyFromFields_attrs_congr (ov : List (String × String)) : ∀ (fs : List Field)
    (attrs attrs' : Option (List (String × TfVal))) (st : FromSt),
    (∀ f ∈ fs, (attrs.getD []).lookup f.info.nameSnake = (attrs'.getD []).lookup f.info.nameSnake) →
    copyFromFields ov fs attrs st = copyFromFields ov fs attrs' st
  | [], _, _, _, _ => by simp [copyFromFields]
  | f :: rest, attrs, attrs', st, h => by
    simp only [copyFromFields]
    have ih := fun st1 => copyFromFields_attrs_congr ov rest attrs attrs' st1 (fun g hg => h g (by simp [hg]))
    rw [copyFromField_attrs_congr ov f attrs attrs' st (h f (by simp)), ih st]
    cases copyFromField ov f attrs' st with
    | ok st1 => simp only [ih st1]
    | panic w => rfl
    | stuck w => rfl

/-- the whole converter: the object's attribute types, its null / unknown flags and every attribute that is not named by
a field of the message are not read -/
theorem copyFrom_attrs_congr (ov : List (String × String)) (m : Msg) (u n u' n' : Bool)
    (attrs attrs' : Option (List (String × TfVal))) (tys tys' : Option (List (String × TfTy))) (obj : GoVal)
    (h : ∀ f ∈ m.fields, (attrs.getD []).lookup f.info.nameSnake = (attrs'.getD []).lookup f.info.nameSnake) :
    copyFrom ov m (.obj u n attrs tys) obj = copyFrom ov m (.obj u' n' attrs' tys') obj := by
  simp only [copyFrom]
  rw [copyFromFields_attrs_congr ov m.fields attrs attrs' _ h]

/-- the key matters (every kind but custom): without a value under the field's name the block reports `readMissing` for
the field's path; with a nil value under it, `readConv` - two maps that differ only at `nameSnake` are told apart -/
theorem copyFromField_reads_own_key (ov : List (String × String)) (f : Field) (rest : List (String × TfVal)) (st : FromSt)
    (hk : f.info.kind ≠ .custom) (hrest : rest.lookup f.info.nameSnake = none) :
    copyFromField ov f (some rest) st = .ok (st.diag (.readMissing f.info.path)) ∧
    copyFromField ov f (some ((f.info.nameSnake, .nilv) :: rest)) st = .ok (st.diag (.readConv f.info.path f.info.tf.valueType)) ∧
    copyFromField ov f (some rest) st ≠ copyFromField ov f (some ((f.info.nameSnake, .nilv) :: rest)) st := by
  obtain ⟨info, mv, msg, sub⟩ := f
  simp only at hk hrest
  have h1 : copyFromField ov ⟨info, mv, msg, sub⟩ (some rest) st = .ok (st.diag (.readMissing info.path)) := by
    simp only [copyFromField]
    exact PGT.Props.C06.C06_missing _ ov info mv msg (some rest) st hk hrest
  have h2 : copyFromField ov ⟨info, mv, msg, sub⟩ (some ((info.nameSnake, .nilv) :: rest)) st =
      .ok (st.diag (.readConv info.path info.tf.valueType)) := by
    simp only [copyFromField]
    exact PGT.Props.C06.C06_wrong_type _ ov info mv msg _ st .nilv hk (by simp) (Or.inr rfl)
  refine ⟨h1, h2, ?_⟩
  rw [h1, h2]
  intro e
  injection e with e
  have := congrArg FromSt.diags e
  simp [FromSt.diag] at this

/-- **the missing-attribute diagnostic names the field whose key is absent** (`missing_diag`, FromDiags.lean): whenever
the blocks of a message run to completion on a map without a binding for the `nameSnake` of `f`, the diagnostic
`readMissing f.path` is among the result's (every kind, custom included) -/
theorem copyFromFields_missing_key (ov : List (String × String)) (fs : List Field) (attrs : Option (List (String × TfVal)))
    (st st' : FromSt) (f : Field) (hf : f ∈ fs) (hp : f.info.isPlaceholder = false)
    (hl : f.info.nameSnake ∉ keys (attrs.getD [])) (h : copyFromFields ov fs attrs st = .ok st') :
    .readMissing f.info.path ∈ st'.diags :=
  missing_diag ov fs attrs st st' f hf hp ((not_mem_keys_iff _ _).1 hl) h

-- 3b. at every depth: nested objects are read from the value found at the key, and only at the names of `sub`

/-- pointwise relation of two lists of the same length -/
def All2 {α β} (P : α → β → Prop) : List α → List β → Prop
  | [], [] => True
  | a :: as, b :: bs => P a b ∧ All2 P as bs
  | _, _ => False

theorem All2.length_eq {α β} {P : α → β → Prop} : ∀ {l : List α} {l' : List β}, All2 P l l' → l.length = l'.length
  | [], [], _ => rfl
  | _ :: as, _ :: bs, h => by simp [All2.length_eq (l := as) (l' := bs) h.2]
  | [], _ :: _, h => by cases h
  | _ :: _, [], h => by cases h

theorem All2.refl {α} {P : α → α → Prop} (hP : ∀ a, P a a) : ∀ l : List α, All2 P l l
  | [] => trivial
  | a :: as => ⟨hP a, All2.refl hP as⟩

/-- two element values (or singular values) look the same to CopyFrom when they are equal, or are objects with the same
flags whose attribute maps are related by `R` (the attribute types an object carries are not read) -/
def ElemAgree (R : List (String × TfVal) → List (String × TfVal) → Prop) (e e' : TfVal) : Prop :=
  e = e' ∨ ∃ u n as as' t t', e = .obj u n as t ∧ e' = .obj u n as' t' ∧ R (as.getD []) (as'.getD [])

/-- … two attribute values: also lists / maps with the same flags (and keys) whose elements look the same (the element
type a list / map carries is not read, nor is the difference between nil and empty `Elems`) -/
def ValAgree (R : List (String × TfVal) → List (String × TfVal) → Prop) (v v' : TfVal) : Prop :=
  ElemAgree R v v' ∨
  (∃ u n es es' t t', v = .list u n es t ∧ v' = .list u n es' t' ∧ All2 (ElemAgree R) (es.getD []) (es'.getD [])) ∨
  (∃ u n es es' t t', v = .map u n es t ∧ v' = .map u n es' t' ∧
    All2 (fun p p' => p.1 = p'.1 ∧ ElemAgree R p.2 p'.2) (es.getD []) (es'.getD []))

mutual
/-- **agreement of two attribute maps on a name tree**: at every node the two maps hold the same value under the node's
name, or - below a node with children - values that differ only in what is stored under other names than the children's
(at any depth), in attribute / element types carried by the values, or in nil-vs-empty containers -/
def AgreeOn : List NTree → List (String × TfVal) → List (String × TfVal) → Prop
  | [], _, _ => True
  | t :: ts, a, a' => AgreeAt t a a' ∧ AgreeOn ts a a'
def AgreeAt : NTree → List (String × TfVal) → List (String × TfVal) → Prop
  | .node n kids, a, a' =>
    a.lookup n = a'.lookup n ∨
    (kids ≠ [] ∧ ∃ v v', a.lookup n = some v ∧ a'.lookup n = some v' ∧ ValAgree (AgreeOn kids) v v')
end

theorem embedGuard_flags (info : FieldInfo) (a a' : TfVal) (o : GoVal) (h : a.isKnown = a'.isKnown) :
    embedGuard info a o = embedGuard info a' o := by
  unfold embedGuard
  rw [h]

theorem fromElemBody_congr (rec : FromRec) (R : List (String × TfVal) → List (String × TfVal) → Prop)
    (hrec : ∀ as as' st, R (as.getD []) (as'.getD []) → rec as st = rec as' st)
    (ov : List (String × String)) (info vf : FieldInfo) (e e' : TfVal) (h : ElemAgree R e e')
    (ds : List Diag) (hs : List HookCall) :
    fromElemBody rec ov info vf e ds hs = fromElemBody rec ov info vf e' ds hs := by
  rcases h with rfl | ⟨u, n, as, as', t, t', rfl, rfl, hR⟩
  · rfl
  · have hr : ∀ st, rec as st = rec as' st := fun st => hrec as as' st hR
    unfold fromElemBody
    simp only [TfVal.vkind, hr]
    rfl

theorem fromElemsList_congr (body : TfVal → List Diag → List HookCall → Outcome (Option GoVal × List Diag × List HookCall)) :
    ∀ (es es' : List TfVal), All2 (fun e e' => ∀ ds hs, body e ds hs = body e' ds hs) es es' →
    ∀ k acc ds hs, fromElemsList body es k acc ds hs = fromElemsList body es' k acc ds hs
  | [], [], _, _, _, _, _ => rfl
  | e :: es, e' :: es', h, k, acc, ds, hs => by
    simp only [fromElemsList, h.1]
    have ih := fromElemsList_congr body es es' h.2
    cases body e' ds hs with
    | ok r =>
      obtain ⟨o, ds1, hs1⟩ := r
      cases o <;> simp only [ih]
    | panic w => rfl
    | stuck w => rfl
  | [], _ :: _, h, _, _, _, _ => by cases h
  | _ :: _, [], h, _, _, _, _ => by cases h

theorem fromElemsMap_congr (body : TfVal → List Diag → List HookCall → Outcome (Option GoVal × List Diag × List HookCall)) :
    ∀ (es es' : List (String × TfVal)),
    All2 (fun p p' => p.1 = p'.1 ∧ ∀ ds hs, body p.2 ds hs = body p'.2 ds hs) es es' →
    ∀ acc ds hs, fromElemsMap body es acc ds hs = fromElemsMap body es' acc ds hs
  | [], [], _, _, _, _ => rfl
  | (k, e) :: es, (k', e') :: es', h, acc, ds, hs => by
    obtain ⟨⟨hk, he⟩, ht⟩ := h
    simp only at hk he
    subst hk
    simp only [fromElemsMap, he]
    have ih := fromElemsMap_congr body es es' ht
    cases body e' ds hs with
    | ok r =>
      obtain ⟨o, ds1, hs1⟩ := r
      cases o <;> simp only [ih]
    | panic w => rfl
    | stuck w => rfl
  | [], _ :: _, h, _, _, _ => by cases h
  | _ :: _, [], h, _, _, _ => by cases h

theorem All2.imp {α β} {P Q : α → β → Prop} (hPQ : ∀ a b, P a b → Q a b) : ∀ {l : List α} {l' : List β}, All2 P l l' → All2 Q l l'
  | [], [], _ => trivial
  | _ :: as, _ :: bs, h => ⟨hPQ _ _ h.1, All2.imp hPQ (l := as) (l' := bs) h.2⟩
  | [], _ :: _, h => by cases h
  | _ :: _, [], h => by cases h

/-- one block of a message-valued kind, on two values that look the same up to `R` below -/
theorem fromFieldWith_val_congr (rec : FromRec) (R : List (String × TfVal) → List (String × TfVal) → Prop)
    (hrec : ∀ as as' st, R (as.getD []) (as'.getD []) → rec as st = rec as' st)
    (ov : List (String × String)) (info : FieldInfo) (mv : Option FieldInfo) (msg : Option MsgInfo)
    (attrs attrs' : Option (List (String × TfVal))) (st : FromSt) (v v' : TfVal)
    (hk : isNest info.kind = true)
    (hl : (attrs.getD []).lookup info.nameSnake = some v) (hl' : (attrs'.getD []).lookup info.nameSnake = some v')
    (hv : ValAgree R v v') :
    copyFromFieldWith rec ov info mv msg attrs st = copyFromFieldWith rec ov info mv msg attrs' st := by
  unfold copyFromFieldWith
  simp only [hl, hl']
  rcases hv with (rfl | ⟨u, n, as, as', t, t', rfl, rfl, hR⟩) | ⟨u, n, es, es', t, t', rfl, rfl, hF⟩ |
    ⟨u, n, es, es', t, t', rfl, rfl, hF⟩
  · rfl
  · have hr : ∀ st, rec as st = rec as' st := fun st => hrec as as' st hR
    have hg : ∀ o, embedGuard info (.obj u n as t) o = embedGuard info (.obj u n as' t') o :=
      fun o => embedGuard_flags info _ _ o rfl
    cases hkind : info.kind <;> simp [isNest, hkind] at hk <;> simp only [TfVal.vkind, hg, hr] <;> rfl
  · have hlen : (es.getD []).length = (es'.getD []).length := hF.length_eq
    have hloop : ∀ vf k acc ds hs, fromElemsList (fromElemBody rec ov info vf) (es.getD []) k acc ds hs =
        fromElemsList (fromElemBody rec ov info vf) (es'.getD []) k acc ds hs := fun vf =>
      fromElemsList_congr _ _ _ (All2.imp (fun e e' h ds hs => fromElemBody_congr rec R hrec ov info vf e e' h ds hs) hF)
    have hg : ∀ o, embedGuard info (.list u n es t) o = embedGuard info (.list u n es' t') o :=
      fun o => embedGuard_flags info _ _ o rfl
    cases hkind : info.kind <;> simp [isNest, hkind] at hk <;> simp only [TfVal.vkind, hg, hlen, hloop] <;> rfl
  · have hloop : ∀ vf acc ds hs, fromElemsMap (fromElemBody rec ov info vf) (es.getD []) acc ds hs =
        fromElemsMap (fromElemBody rec ov info vf) (es'.getD []) acc ds hs := fun vf =>
      fromElemsMap_congr _ _ _ (All2.imp (fun p p' h =>
        ⟨h.1, fun ds hs => fromElemBody_congr rec R hrec ov info vf p.2 p'.2 h.2 ds hs⟩) hF)
    have hg : ∀ o, embedGuard info (.map u n es t) o = embedGuard info (.map u n es' t') o :=
      fun o => embedGuard_flags info _ _ o rfl
    cases hkind : info.kind <;> simp [isNest, hkind] at hk <;> simp only [TfVal.vkind, hg, hloop] <;> rfl

mutual
/-- **CopyFrom reads exactly the name tree, at every depth**: two attribute maps that agree on `nameTree fs` (`AgreeOn`:
same value under every field's name, or - for message-valued fields - objects / lists / maps of objects that agree, in
turn, on the name tree of the nested message) give the same outcome: same struct, diagnostics, hook log, panic / stuck.
Every IR, every pair of maps, every start state; no distinctness hypothesis. -/
theorem copyFromFields_tree_congr (ov : List (String × String)) : ∀ (fs : List Field)
    (attrs attrs' : Option (List (String × TfVal))) (st : FromSt),
    AgreeOn (nameTree fs) (attrs.getD []) (attrs'.getD []) →
    copyFromFields ov fs attrs st = copyFromFields ov fs attrs' st
  | [], _, _, _, _ => by simp [copyFromFields]
  | f :: rest, attrs, attrs', st, h => by
    simp only [nameTreeG, AgreeOn] at h
    simp only [copyFromFields]
    have ih := fun st1 => copyFromFields_tree_congr ov rest attrs attrs' st1 h.2
    rw [copyFromField_tree_congr ov f attrs attrs' st h.1, ih st]
    cases copyFromField ov f attrs' st with
    | ok st1 => simp only [ih st1]
    | panic w => rfl
    | stuck w => rfl
theorem copyFromField_tree_congr (ov : List (String × String)) : ∀ (f : Field)
    (attrs attrs' : Option (List (String × TfVal))) (st : FromSt),
    AgreeAt (nameNode f) (attrs.getD []) (attrs'.getD []) →
    copyFromField ov f attrs st = copyFromField ov f attrs' st
  | ⟨info, mv, msg, sub⟩, attrs, attrs', st, h => by
    simp only [nameNodeG, AgreeAt] at h
    rcases h with h | ⟨hne, v, v', hl, hl', hv⟩
    · exact copyFromField_attrs_congr ov ⟨info, mv, msg, sub⟩ attrs attrs' st h
    · cases hk : isNest info.kind
      · simp [hk] at hne
      · simp only [hk, if_true, Bool.false_eq_true, if_false, List.append_nil] at hv
        simp only [copyFromField]
        refine fromFieldWith_val_congr _ (AgreeOn (nameTree sub)) ?_ ov info mv msg attrs attrs' st v v' hk hl hl' hv
        intro as as' s hR
        exact copyFromFields_tree_congr ov sub as as' _ hR
end

/-- the whole converter reads the source object through the name tree of the message only -/
theorem copyFrom_tree_congr (ov : List (String × String)) (m : Msg) (u n u' n' : Bool)
    (attrs attrs' : Option (List (String × TfVal))) (tys tys' : Option (List (String × TfTy))) (obj : GoVal)
    (h : AgreeOn (nameTree m.fields) (attrs.getD []) (attrs'.getD [])) :
    copyFrom ov m (.obj u n attrs tys) obj = copyFrom ov m (.obj u' n' attrs' tys') obj := by
  simp only [copyFrom]
  rw [copyFromFields_tree_congr ov m.fields attrs attrs' _ h]

/-- agreement at the names of the fields is agreement on the tree (the one-level congruence is the special case) -/
theorem agreeOn_of_lookups : ∀ (ts : List NTree) (a a' : List (String × TfVal)),
    (∀ t ∈ ts, a.lookup t.name = a'.lookup t.name) → AgreeOn ts a a'
  | [], _, _, _ => by simp [AgreeOn]
  | .node n kids :: ts, a, a', h => by
    simp only [AgreeOn, AgreeAt]
    exact ⟨Or.inl (h (.node n kids) (by simp)), agreeOn_of_lookups ts a a' (fun t ht => h t (by simp [ht]))⟩

theorem agreeOn_refl (ts : List NTree) (a : List (String × TfVal)) : AgreeOn ts a a :=
  agreeOn_of_lookups ts a a (fun _ _ => rfl)

-- ======================================================================================================
-- 3c. CopyFrom, whole run: which Go fields a change of the attribute map can reach
-- ======================================================================================================

open PGT.OrderIndep in
/-- generalised over two start states and a set `D` of keys on which the two attribute maps may differ: the results agree
on every Go field that is not the target (`wk`: the field's own Go name, or the oneof holder for a branch) of a field whose
`nameSnake` is in `D`.  Fields that are not children of a nullable embedded message (`NoEmbed`; those share the embedded
struct's pointer as a second target). -/
theorem copyFromFields_reach_gen (ov : List (String × String)) (D : String → Prop) (G : String → Prop)
    (attrs attrs' : Option (List (String × TfVal)))
    (hD : ∀ key, ¬ D key → (attrs.getD []).lookup key = (attrs'.getD []).lookup key) :
    ∀ (fs : List Field) (s1 s2 t1 t2 : FromSt), NoEmbed fs →
    (∀ f ∈ fs, D f.info.nameSnake → G (wk f.info)) →
    IsStruct s1.obj → IsStruct s2.obj → (∀ g, ¬ G g → s1.obj.field? g = s2.obj.field? g) →
    copyFromFields ov fs attrs s1 = .ok t1 → copyFromFields ov fs attrs' s2 = .ok t2 →
    ∀ g, ¬ G g → t1.obj.field? g = t2.obj.field? g
  | [], s1, s2, t1, t2, _, _, _, _, hs, h1, h2 => by
    simp only [copyFromFields] at h1 h2
    injection h1 with h1; injection h2 with h2; subst h1; subst h2; exact hs
  | f :: rest, s1, s2, t1, t2, hne, hG, hs1, hs2, hs, h1, h2 => by
    rw [copyFromFields_cons] at h1 h2
    have he : f.info.parentIsOptionalEmbed = false := hne f (by simp)
    obtain ⟨a, hwa, ha⟩ := blockF_nf ov f attrs he
    obtain ⟨a', hwa', ha'⟩ := blockF_nf ov f attrs' he
    rw [ha] at h1
    rw [ha'] at h2
    cases a with
    | panic w => simp [applyFAct, obind] at h1
    | stuck w => simp [applyFAct, obind] at h1
    | ok r =>
      cases a' with
      | panic w => simp [applyFAct, obind] at h2
      | stuck w => simp [applyFAct, obind] at h2
      | ok r' =>
        obtain ⟨ws, dx, hx⟩ := r
        obtain ⟨ws', dx', hx'⟩ := r'
        simp only [applyFAct, obind] at h1 h2
        refine copyFromFields_reach_gen ov D G attrs attrs' hD rest _ _ t1 t2 (fun g hg => hne g (by simp [hg]))
          (fun g hg => hG g (by simp [hg])) (isStruct_applyWrites ws _ hs1) (isStruct_applyWrites ws' _ hs2) ?_ h1 h2
        intro g hg
        simp only
        by_cases hd : D f.info.nameSnake
        · -- the block of a field whose attribute may differ: both runs assign `wk f.info` only
          have hne' : g ≠ wk f.info := fun e => hg (e ▸ hG f (by simp) hd)
          rw [applyWrites_other ws _ g (not_mem_keys ws _ g (hwa ws dx hx rfl).1 hne'),
            applyWrites_other ws' _ g (not_mem_keys ws' _ g (hwa' ws' dx' hx' rfl).1 hne')]
          exact hs g hg
        · -- the same attribute value: the same action
          have hsame : blockF ov f attrs' s2 = blockF ov f attrs s2 := by
            simp only [blockF]
            rw [copyFromField_attrs_congr ov f attrs attrs' s2 (hD _ hd)]
          have e2 := ha' s2
          rw [hsame, ha s2] at e2
          simp only [applyFAct] at e2
          injection e2 with e2
          have e3 := congrArg FromSt.obj e2
          simp only at e3
          rw [← e3]
          exact applyWrites_field_congr ws _ _ g hs1 hs2 (hs g hg)

open PGT.OrderIndep in
/-- **changing the attribute under one key changes at most the Go fields of the fields of that name**: two attribute
maps that agree on every key but `k0`, same start struct, completed runs - the results agree on every Go field that is
not the target of a field named `k0` -/
theorem copyFromFields_changes_only (ov : List (String × String)) (k0 : String) (fs : List Field)
    (attrs attrs' : Option (List (String × TfVal))) (st t1 t2 : FromSt) (hne : NoEmbed fs) (hst : IsStruct st.obj)
    (hagree : ∀ key, key ≠ k0 → (attrs.getD []).lookup key = (attrs'.getD []).lookup key)
    (h1 : copyFromFields ov fs attrs st = .ok t1) (h2 : copyFromFields ov fs attrs' st = .ok t2) :
    ∀ g, (∀ f ∈ fs, f.info.nameSnake = k0 → g ≠ wk f.info) → t1.obj.field? g = t2.obj.field? g := by
  intro g hg
  refine copyFromFields_reach_gen ov (· = k0) (fun g' => ∃ f ∈ fs, f.info.nameSnake = k0 ∧ g' = wk f.info) attrs attrs'
    (fun key hk => hagree key hk) fs st st t1 t2 hne (fun f hf hd => ⟨f, hf, hd, rfl⟩) hst hst (fun _ _ => rfl) h1 h2 g ?_
  rintro ⟨f, hf, hd, e⟩
  exact hg f hf hd e

open PGT.OrderIndep in
/-- **the Go field of `f` depends on the attribute map only through the key `f.nameSnake`**: two attribute maps that agree
at that key (and differ arbitrarily elsewhere), same start struct, completed runs - the results hold the same value in the
Go field `f` is stored in, provided no field of another name is stored in the same Go field -/
theorem copyFromFields_own_key (ov : List (String × String)) (fs : List Field) (f : Field)
    (attrs attrs' : Option (List (String × TfVal))) (st t1 t2 : FromSt) (hne : NoEmbed fs) (hst : IsStruct st.obj)
    (hagree : (attrs.getD []).lookup f.info.nameSnake = (attrs'.getD []).lookup f.info.nameSnake)
    (hgo : ∀ g ∈ fs, g.info.nameSnake ≠ f.info.nameSnake → wk g.info ≠ wk f.info)
    (h1 : copyFromFields ov fs attrs st = .ok t1) (h2 : copyFromFields ov fs attrs' st = .ok t2) :
    t1.obj.field? (wk f.info) = t2.obj.field? (wk f.info) := by
  refine copyFromFields_reach_gen ov (· ≠ f.info.nameSnake)
    (fun g' => ∃ g ∈ fs, g.info.nameSnake ≠ f.info.nameSnake ∧ g' = wk g.info) attrs attrs'
    (fun key hk => by
      have : key = f.info.nameSnake := Classical.not_not.1 hk
      rw [this]; exact hagree)
    fs st st t1 t2 hne (fun g hg hd => ⟨g, hg, hd, rfl⟩) hst hst (fun _ _ => rfl) h1 h2 _ ?_
  rintro ⟨g, hg, hd, e⟩
  exact hgo g hg hd e.symm

-- 3d. … children of nullable embedded messages included (through `blockF_sem`, OrderIndepEmbed.lean)

open PGT.OrderIndep in
/-- a block that is a local update of `K`, run to completion from a struct: the result is a struct and keeps every Go field
outside `K` -/
theorem sem_run (K : List String) (B : FromSt → Outcome FromSt) (hB : Sem K B) (s t : FromSt) (hs : IsStruct s.obj)
    (h : B s = .ok t) : IsStruct t.obj ∧ ∀ k, k ∉ K → t.obj.field? k = s.obj.field? k := by
  rw [hB.1 s] at h
  cases hr : B { obj := s.obj, diags := [], hooks := [] } with
  | ok t0 =>
    rw [hr] at h
    simp only [Outcome.mapO] at h
    injection h with h
    subst h
    rcases hB.2 s.obj s.obj hs hs (fun _ _ => rfl) with ⟨t1, t2, e1, _, h1, _, _, h3, _, _, _⟩ | ⟨hn, _⟩
    · rw [hr] at e1
      injection e1 with e1
      subst e1
      exact ⟨h1, h3⟩
    · exact absurd hr (hn t0)
  | panic w => rw [hr] at h; simp [Outcome.mapO] at h
  | stuck w => rw [hr] at h; simp [Outcome.mapO] at h

open PGT.OrderIndep in
/-- … run from two structs that agree on `K`: the results agree on `K` -/
theorem sem_run2 (K : List String) (B : FromSt → Outcome FromSt) (hB : Sem K B) (s1 s2 t1 t2 : FromSt)
    (hs1 : IsStruct s1.obj) (hs2 : IsStruct s2.obj) (hag : ∀ k ∈ K, s1.obj.field? k = s2.obj.field? k)
    (h1 : B s1 = .ok t1) (h2 : B s2 = .ok t2) : ∀ k ∈ K, t1.obj.field? k = t2.obj.field? k := by
  rw [hB.1 s1] at h1
  rw [hB.1 s2] at h2
  rcases hB.2 s1.obj s2.obj hs1 hs2 hag with ⟨u1, u2, e1, e2, _, _, h3, _, _, _, _⟩ | ⟨hn, _⟩
  · rw [e1] at h1
    rw [e2] at h2
    simp only [Outcome.mapO] at h1 h2
    injection h1 with h1
    injection h2 with h2
    subst h1; subst h2
    exact h3
  · cases hr : B { obj := s1.obj, diags := [], hooks := [] } with
    | ok t0 => exact absurd hr (hn t0)
    | panic w => rw [hr] at h1; simp [Outcome.mapO] at h1
    | stuck w => rw [hr] at h1; simp [Outcome.mapO] at h1

open PGT.OrderIndep in
/-- **which Go fields a change of the attribute map can reach - every IR.** `D`: the keys on which the two attribute maps
may differ; `G`: Go fields that contain everything the fields named in `D` touch (`touch`: the field itself, the oneof
holder of a branch, the pointer to the nullable embedded parent of a child); what a field named outside `D` touches lies
entirely inside or entirely outside `G` (automatic when it touches one Go field: `touch_single`).
From start structs that agree outside `G`, two completed runs give structs that agree outside `G`. -/
theorem copyFromFields_reach_touch (ov : List (String × String)) (D : String → Prop) (G : String → Prop)
    (attrs attrs' : Option (List (String × TfVal)))
    (hD : ∀ key, ¬ D key → (attrs.getD []).lookup key = (attrs'.getD []).lookup key) :
    ∀ (fs : List Field) (s1 s2 t1 t2 : FromSt),
    (∀ f ∈ fs, D f.info.nameSnake → ∀ k ∈ touch f.info, G k) →
    (∀ f ∈ fs, ¬ D f.info.nameSnake → (∀ k ∈ touch f.info, G k) ∨ (∀ k ∈ touch f.info, ¬ G k)) →
    IsStruct s1.obj → IsStruct s2.obj → (∀ g, ¬ G g → s1.obj.field? g = s2.obj.field? g) →
    copyFromFields ov fs attrs s1 = .ok t1 → copyFromFields ov fs attrs' s2 = .ok t2 →
    ∀ g, ¬ G g → t1.obj.field? g = t2.obj.field? g
  | [], s1, s2, t1, t2, _, _, _, _, hs, h1, h2 => by
    simp only [copyFromFields] at h1 h2
    injection h1 with h1; injection h2 with h2; subst h1; subst h2; exact hs
  | f :: rest, s1, s2, t1, t2, hG, hsep, hs1, hs2, hs, h1, h2 => by
    rw [copyFromFields_cons] at h1 h2
    cases hm1 : blockF ov f attrs s1 with
    | panic w => rw [hm1] at h1; simp [obind] at h1
    | stuck w => rw [hm1] at h1; simp [obind] at h1
    | ok m1 =>
      cases hm2 : blockF ov f attrs' s2 with
      | panic w => rw [hm2] at h2; simp [obind] at h2
      | stuck w => rw [hm2] at h2; simp [obind] at h2
      | ok m2 =>
        rw [hm1] at h1
        rw [hm2] at h2
        simp only [obind] at h1 h2
        have hB := blockF_sem ov f attrs
        have hB' := blockF_sem ov f attrs'
        obtain ⟨hm1s, hfr1⟩ := sem_run _ _ hB s1 m1 hs1 hm1
        obtain ⟨hm2s, hfr2⟩ := sem_run _ _ hB' s2 m2 hs2 hm2
        refine copyFromFields_reach_touch ov D G attrs attrs' hD rest m1 m2 t1 t2 (fun g hg => hG g (by simp [hg]))
          (fun g hg => hsep g (by simp [hg])) hm1s hm2s ?_ h1 h2
        intro g hg
        by_cases hd : D f.info.nameSnake
        · -- the blocks of a field whose attribute may differ touch Go fields in `G` only
          have hk1 : g ∉ OrderIndep.keysOf attrs f.info := fun hk => hg (hG f (by simp) hd g (keysOf_subset _ _ g hk))
          have hk2 : g ∉ OrderIndep.keysOf attrs' f.info := fun hk => hg (hG f (by simp) hd g (keysOf_subset _ _ g hk))
          rw [hfr1 g hk1, hfr2 g hk2]
          exact hs g hg
        · -- the same attribute value: the same block, a local update of Go fields outside `G`
          have hsame : blockF ov f attrs' s2 = blockF ov f attrs s2 := by
            simp only [blockF]
            rw [copyFromField_attrs_congr ov f attrs attrs' s2 (hD _ hd)]
          rw [hsame] at hm2
          obtain ⟨_, hfr2'⟩ := sem_run _ _ hB s2 m2 hs2 hm2
          by_cases hk : g ∈ OrderIndep.keysOf attrs f.info
          · rcases hsep f (by simp) hd with hin | hout
            · exact absurd (hin g (keysOf_subset _ _ g hk)) hg
            · refine sem_run2 _ _ hB s1 s2 m1 m2 hs1 hs2 ?_ hm1 hm2 g hk
              intro k hkk
              exact hs k (hout k (keysOf_subset _ _ k hkk))
          · rw [hfr1 g hk, hfr2' g hk]
            exact hs g hg

open PGT.OrderIndep in
/-- a field that is not both a child of a nullable embedded message and a branch of a oneof touches one Go field -/
theorem touch_single (info : FieldInfo) (h : EmbedOK info) : ∃ k, touch info = [k] := by
  unfold touch
  by_cases he : info.parentIsOptionalEmbed = true
  · have hb : ¬ IsBranch info := fun hb => hb.1 (h he)
    simp only [he, if_true, hb, if_false]
    exact ⟨_, rfl⟩
  · simp only [he, Bool.false_eq_true, if_false]
    exact ⟨_, rfl⟩

open PGT.OrderIndep in
theorem split_of_single (G : String → Prop) (info : FieldInfo) (h : EmbedOK info) :
    (∀ k ∈ touch info, G k) ∨ (∀ k ∈ touch info, ¬ G k) := by
  obtain ⟨k, e⟩ := touch_single info h
  rw [e]
  by_cases hk : G k
  · exact Or.inl (fun k' hk' => by rw [List.mem_singleton.1 hk']; exact hk)
  · exact Or.inr (fun k' hk' => by rw [List.mem_singleton.1 hk']; exact hk)

open PGT.OrderIndep in
/-- **changing the attribute under one key changes at most the Go fields touched by the fields of that name** - every IR
without oneof branches among the children of nullable embedded messages (`EmbedOK`), children of nullable embedded
messages included; every pair of attribute maps, every start struct -/
theorem copyFromFields_changes_only_touch (ov : List (String × String)) (k0 : String) (fs : List Field)
    (attrs attrs' : Option (List (String × TfVal))) (st t1 t2 : FromSt) (hst : IsStruct st.obj)
    (hagree : ∀ key, key ≠ k0 → (attrs.getD []).lookup key = (attrs'.getD []).lookup key)
    (hok : ∀ f ∈ fs, EmbedOK f.info)
    (h1 : copyFromFields ov fs attrs st = .ok t1) (h2 : copyFromFields ov fs attrs' st = .ok t2) :
    ∀ g, (∀ f ∈ fs, f.info.nameSnake = k0 → g ∉ touch f.info) → t1.obj.field? g = t2.obj.field? g := by
  intro g hg
  refine copyFromFields_reach_touch ov (· = k0) (fun g' => ∃ f ∈ fs, f.info.nameSnake = k0 ∧ g' ∈ touch f.info) attrs attrs'
    (fun key hk => hagree key hk) fs st st t1 t2 (fun f hf hd k hk => ⟨f, hf, hd, hk⟩)
    (fun f hf _ => split_of_single _ f.info (hok f hf)) hst hst (fun _ _ => rfl) h1 h2 g ?_
  rintro ⟨f, hf, hd, e⟩
  exact hg f hf hd e

open PGT.OrderIndep in
/-- **the Go field `f` touches depends on the attribute map only through the key `f.nameSnake`**: two attribute maps that
agree at that key (and differ arbitrarily elsewhere), same start struct, completed runs - the results hold the same value
in every Go field `f` touches that no field of another name touches.  Every IR with `EmbedOK`. -/
theorem copyFromFields_own_key_touch (ov : List (String × String)) (fs : List Field) (f : Field)
    (attrs attrs' : Option (List (String × TfVal))) (st t1 t2 : FromSt) (hst : IsStruct st.obj)
    (hagree : (attrs.getD []).lookup f.info.nameSnake = (attrs'.getD []).lookup f.info.nameSnake)
    (hok : ∀ g ∈ fs, EmbedOK g.info)
    (h1 : copyFromFields ov fs attrs st = .ok t1) (h2 : copyFromFields ov fs attrs' st = .ok t2) :
    ∀ k ∈ touch f.info, (∀ g ∈ fs, g.info.nameSnake ≠ f.info.nameSnake → k ∉ touch g.info) →
      t1.obj.field? k = t2.obj.field? k := by
  intro k _ hgo
  refine copyFromFields_reach_touch ov (· ≠ f.info.nameSnake)
    (fun g' => ∃ g ∈ fs, g.info.nameSnake ≠ f.info.nameSnake ∧ g' ∈ touch g.info) attrs attrs'
    (fun key hk => by
      have : key = f.info.nameSnake := Classical.not_not.1 hk
      rw [this]; exact hagree)
    fs st st t1 t2 (fun g hg hd k hk => ⟨g, hg, hd, hk⟩)
    (fun g hg _ => split_of_single _ g.info (hok g hg)) hst hst (fun _ _ => rfl) h1 h2 k ?_
  rintro ⟨g, hg, hd, e⟩
  exact hgo g hg hd e

-- ======================================================================================================
-- 4. the tree of keys CopyTo writes
-- ======================================================================================================

/-- what CopyTo leaves in an element (or singular) value, relative to `R` = "this attribute map is what the blocks of the
nested message produce": an object holds such a map, or is the null object without attributes (nil pointer in the
source); values of other Go types hold no attributes -/
def ElemKeys (R : List (String × TfVal) → Prop) : TfVal → Prop
  | .obj _ null as _ => ∃ l, as = some l ∧ (R l ∨ (null = true ∧ l = []))
  | _ => True

/-- … in an attribute value: through the elements of lists and maps -/
def ValKeys (R : List (String × TfVal) → Prop) : TfVal → Prop
  | .list _ _ es _ => ∀ e ∈ es.getD [], ElemKeys R e
  | .map _ _ es _ => ∀ p ∈ es.getD [], ElemKeys R p.2
  | v => ElemKeys R v

mutual
/-- **the attribute map holds exactly the keys of the tree, in order, at every depth** (nested objects that stand for nil
pointers hold none) -/
def KeysTree : List NTree → List (String × TfVal) → Prop
  | [], as => as = []
  | _ :: _, [] => False
  | t :: ts, (k, v) :: rest => NodeKeys t k v ∧ KeysTree ts rest
def NodeKeys : NTree → String → TfVal → Prop
  | .node n kids, k, v => k = n ∧ ValKeys (KeysTree kids) v
end

theorem keysTree_keys : ∀ (ts : List NTree) (as : List (String × TfVal)), KeysTree ts as → keys as = ts.map (·.name)
  | [], as, h => by simp only [KeysTree] at h; subst h; rfl
  | _ :: _, [], h => by simp [KeysTree] at h
  | .node n kids :: ts, (k, v) :: rest, h => by
    simp only [KeysTree, NodeKeys] at h
    simp [NTree.name, h.1.1, keysTree_keys ts rest h.2]

theorem keysTree_append_one : ∀ (ts : List NTree) (as : List (String × TfVal)) (t : NTree) (k : String) (v : TfVal),
    KeysTree ts as → NodeKeys t k v → KeysTree (ts ++ [t]) (as ++ [(k, v)])
  | [], as, t, k, v, h, hn => by
    simp only [KeysTree] at h; subst h
    simp only [List.nil_append, KeysTree]; exact ⟨hn, trivial⟩
  | _ :: _, [], _, _, _, h, _ => by simp [KeysTree] at h
  | t0 :: ts, (k0, v0) :: rest, t, k, v, h, hn => by
    simp only [KeysTree] at h
    simp only [List.cons_append, KeysTree]
    exact ⟨h.1, keysTree_append_one ts rest t k v h.2 hn⟩

theorem keysTree_cons (t : NTree) (ts : List NTree) (k : String) (v : TfVal) (rest : List (String × TfVal))
    (h1 : NodeKeys t k v) (h2 : KeysTree ts rest) : KeysTree (t :: ts) ((k, v) :: rest) := by
  simp only [KeysTree]; exact ⟨h1, h2⟩

-- loops

theorem copyToElemsList_all (body : ElemBody) (P : TfVal → Prop)
    (hb : ∀ a ds hs v ds' hs', body a ds hs = .ok (v, ds', hs') → P v) :
    ∀ (elems : List GoVal) (k : Nat) (acc : List TfVal) (ds : List Diag) (hs : List HookCall) es ds' hs',
      (∀ e ∈ acc, P e) → copyToElemsList body elems k acc ds hs = .ok (es, ds', hs') → ∀ e ∈ es, P e
  | [], k, acc, ds, hs, es, ds', hs', hacc, h => by
    simp only [copyToElemsList] at h
    injection h with h
    simp only [Prod.mk.injEq] at h
    rw [← h.1]; exact hacc
  | a :: rest, k, acc, ds, hs, es, ds', hs', hacc, h => by
    simp only [copyToElemsList] at h
    cases hr : body a ds hs with
    | ok r =>
      obtain ⟨v, ds1, hs1⟩ := r
      rw [hr] at h
      refine copyToElemsList_all body P hb rest (k + 1) _ ds1 hs1 es ds' hs' ?_ h
      intro e he
      rcases List.mem_or_eq_of_mem_set he with h1 | h1
      · exact hacc e h1
      · rw [h1]; exact hb _ _ _ _ _ _ hr
    | panic w => rw [hr] at h; cases h
    | stuck w => rw [hr] at h; cases h

theorem mem_setKey {α} (k : String) (v : α) : ∀ (l : List (String × α)) (p : String × α),
    p ∈ setKey k v l → p ∈ l ∨ p = (k, v)
  | [], p, h => by simp [setKey] at h; exact Or.inr h
  | (k', v') :: rest, p, h => by
    simp only [setKey] at h
    split at h
    · simp only [List.mem_cons] at h
      rcases h with h | h
      · exact Or.inr h
      · exact Or.inl (by simp [h])
    · simp only [List.mem_cons] at h
      rcases h with h | h
      · exact Or.inl (by simp [h])
      · rcases mem_setKey k v rest p h with h1 | h1
        · exact Or.inl (by simp [h1])
        · exact Or.inr h1

theorem copyToElemsMap_all (body : ElemBody) (P : TfVal → Prop)
    (hb : ∀ a ds hs v ds' hs', body a ds hs = .ok (v, ds', hs') → P v) :
    ∀ (elems : List (String × GoVal)) (acc : List (String × TfVal)) (ds : List Diag) (hs : List HookCall) es ds' hs',
      (∀ p ∈ acc, P p.2) → copyToElemsMap body elems acc ds hs = .ok (es, ds', hs') → ∀ p ∈ es, P p.2
  | [], acc, ds, hs, es, ds', hs', hacc, h => by
    simp only [copyToElemsMap] at h
    injection h with h
    simp only [Prod.mk.injEq] at h
    rw [← h.1]; exact hacc
  | (k, a) :: rest, acc, ds, hs, es, ds', hs', hacc, h => by
    simp only [copyToElemsMap] at h
    cases hr : body a ds hs with
    | ok r =>
      obtain ⟨v, ds1, hs1⟩ := r
      rw [hr] at h
      refine copyToElemsMap_all body P hb rest _ ds1 hs1 es ds' hs' ?_ h
      intro p hp
      rcases mem_setKey k v acc p hp with h1 | h1
      · exact hacc p h1
      · rw [h1]; exact hb _ _ _ _ _ _ hr
    | panic w => rw [hr] at h; cases h
    | stuck w => rw [hr] at h; cases h

/-- the object a message-valued block (or element body) builds from scratch -/
theorem objBody_keys (rec : ToRec) (R : List (String × TfVal) → Prop) (info : FieldInfo) (msg : Option MsgInfo) (se : Bool)
    (oty : Option (List (String × TfTy))) (x : Outcome GoVal) (ds : List Diag) (hs : List HookCall)
    (v : TfVal) (ds' : List Diag) (hs' : List HookCall)
    (hrec : ∀ o ds hs st', rec o oty { attrs := [], diags := ds, hooks := hs } = .ok st' → R st'.attrs)
    (hse : se = true → R [])
    (h : objBody rec info msg se none oty x ds hs = .ok (v, ds', hs')) :
    ∃ n l t, v = .obj false n (some l) t ∧ (R l ∨ (n = true ∧ l = [])) := by
  unfold objBody at h
  simp only [] at h
  have copy : ∀ s : GoVal,
      (if se = true then Outcome.ok (TfVal.obj false false (some []) oty, ds, hs)
       else match rec (if isEmptyMsg msg = true then GoVal.struct [] else s) oty { attrs := [], diags := ds, hooks := hs } with
        | .ok st => Outcome.ok (TfVal.obj false false (some st.attrs) oty, st.diags, st.hooks)
        | .panic w => .panic w
        | .stuck w => .stuck w) = .ok (v, ds', hs') →
        ∃ n l t, v = .obj false n (some l) t ∧ (R l ∨ (n = true ∧ l = [])) := by
    intro s hc
    split at hc
    · rename_i hs1
      injection hc with hc
      simp only [Prod.mk.injEq] at hc
      rw [← hc.1]
      exact ⟨_, [], _, rfl, Or.inl (hse hs1)⟩
    · split at hc
      · rename_i st hr
        injection hc with hc
        simp only [Prod.mk.injEq] at hc
        rw [← hc.1]
        exact ⟨_, st.attrs, _, rfl, Or.inl (hrec _ _ _ _ hr)⟩
      · cases hc
      · cases hc
  split at h
  · exact copy _ h
  · cases x with
    | panic w => cases h
    | stuck w => cases h
    | ok xv =>
      simp only [] at h
      split at h
      · split at h
        · injection h with h
          simp only [Prod.mk.injEq] at h
          rw [← h.1]
          exact ⟨_, [], _, rfl, Or.inr ⟨rfl, rfl⟩⟩
        · exact copy _ h
        · cases h
      · split at h
        · exact copy _ h
        · cases h

theorem primBody_prim (f : FieldInfo) (obj : GoVal) (cur : Option TfVal) (t : Option TfTy) (rd : Outcome GoVal)
    (v : TfVal) (ds : List Diag) (h : primBody f obj cur t rd = .ok (v, ds)) : ∃ k u n p, v = .prim k u n p := by
  unfold primBody at h
  split at h
  · simp only [] at h
    split at h
    · split at h
      · injection h with h; simp only [Prod.mk.injEq] at h; exact ⟨_, _, _, _, h.1.symm⟩
      · cases h
      · cases h
    · cases h
    · cases h
  · cases h

theorem elemKeys_prim (R : List (String × TfVal) → Prop) (k : PrimK) (u n : Bool) (p : Sc) : ElemKeys R (.prim k u n p) := by
  simp [ElemKeys]

theorem elemBodyOf_keys (rec : ToRec) (R : List (String × TfVal) → Prop) (info : FieldInfo) (msg : Option MsgInfo) (se : Bool)
    (obj0 : GoVal) (ety : Option TfTy) (oty : Option (List (String × TfTy)))
    (hrec : (info.kind == .objectList || info.kind == .objectMap) = true →
      ∀ o ds hs st', rec o oty { attrs := [], diags := ds, hooks := hs } = .ok st' → R st'.attrs)
    (hse : se = true → R []) :
    ∀ a ds hs v ds' hs', elemBodyOf rec info msg se obj0 ety oty a ds hs = .ok (v, ds', hs') → ElemKeys R v := by
  intro a ds hs v ds' hs' h
  unfold elemBodyOf at h
  split at h
  · rename_i hk
    obtain ⟨n, l, t, e, hR⟩ := objBody_keys rec R info msg se oty (.ok a) ds hs v ds' hs' (hrec hk) hse h
    rw [e]
    exact ⟨l, rfl, hR⟩
  · unfold primElemBody at h
    cases hp : primBody info obj0 none ety (.ok a) with
    | ok r =>
      obtain ⟨v1, ds1⟩ := r
      rw [hp] at h
      injection h with h
      simp only [Prod.mk.injEq] at h
      obtain ⟨k, u, n, p, e⟩ := primBody_prim _ _ _ _ _ _ _ hp
      rw [← h.1, e]
      exact elemKeys_prim R k u n p
    | panic w => rw [hp] at h; cases h
    | stuck w => rw [hp] at h; cases h

theorem elemKeys_nilv (R : List (String × TfVal) → Prop) : ElemKeys R .nilv := by simp [ElemKeys]

theorem listOrMapBody_keys (rec : ToRec) (R : List (String × TfVal) → Prop) (info : FieldInfo) (msg : Option MsgInfo)
    (se : Bool) (obj0 : GoVal) (ety : Option TfTy) (src : GoVal) (st st' : ToSt)
    (hrec : (info.kind == .objectList || info.kind == .objectMap) = true →
      ∀ oty, elemObjTy true ety = .ok oty →
      ∀ o ds hs st', rec o oty { attrs := [], diags := ds, hooks := hs } = .ok st' → R st'.attrs)
    (hse : se = true → R [])
    (h : listOrMapBody rec info msg se obj0 none ety src st = .ok st') :
    ∃ v, st'.attrs = setKey info.nameSnake v st.attrs ∧ ValKeys R v := by
  unfold listOrMapBody at h
  simp only [] at h
  split at h
  · split at h
    · injection h with h; subst h
      refine ⟨_, rfl, ?_⟩
      simp only [ValKeys, reuseList, Option.getD]
      intro e he
      rw [List.eq_of_mem_replicate he]; exact elemKeys_nilv R
    · split at h
      · cases h
      · cases h
      · rename_i oty hoty
        split at h
        · cases h
        · split at h
          · rename_i es ds1 hs1 hloop
            injection h with h; subst h
            refine ⟨_, rfl, ?_⟩
            simp only [ValKeys, Option.getD]
            refine copyToElemsList_all _ (ElemKeys R)
              (elemBodyOf_keys rec R info msg se obj0 ety oty
                (fun hk => hrec hk oty (by rw [hk] at hoty; exact hoty)) hse)
              _ _ _ _ _ _ _ _ ?_ hloop
            intro e he
            simp only [reuseList] at he
            rw [List.eq_of_mem_replicate he]; exact elemKeys_nilv R
          · cases h
          · cases h
  · split at h
    · injection h with h; subst h
      refine ⟨_, rfl, ?_⟩
      simp only [ValKeys, reuseMap, Option.getD]
      intro p hp
      cases hp
    · split at h
      · cases h
      · cases h
      · rename_i oty hoty
        split at h
        · cases h
        · split at h
          · rename_i es ds1 hs1 hloop
            injection h with h; subst h
            refine ⟨_, rfl, ?_⟩
            simp only [ValKeys, Option.getD]
            refine copyToElemsMap_all _ (ElemKeys R)
              (elemBodyOf_keys rec R info msg se obj0 ety oty
                (fun hk => hrec hk oty (by rw [hk] at hoty; exact hoty)) hse)
              _ _ _ _ _ _ _ ?_ hloop
            intro p hp
            simp only [reuseMap] at hp
            cases hp
          · cases h
          · cases h

theorem hookTo_keys (R : List (String × TfVal) → Prop) (r : Bool) (x : GoVal) (v : TfVal) (h : hookTo r x = some v) :
    ValKeys R v := by
  unfold hookTo at h
  split at h
  · split at h
    · injection h with h; subst h; simp [ValKeys, ElemKeys]
    · cases h
  · split at h
    · injection h with h; subst h; simp [ValKeys]
    · injection h with h; subst h
      simp only [ValKeys, Option.getD, List.mem_map]
      rintro e ⟨a, _, rfl⟩
      split <;> simp [ElemKeys]
    · cases h

mutual
/-- what the tree statement needs from the IR: at every level reached through message-valued fields, pairwise distinct
names and a `repeated` flag that goes with the kind (both established by `BuildField`; both follow from `IRWFs`) -/
def TreeWF : Field → Prop
  | ⟨info, _, _, sub⟩ => KindRep info ∧ (isNest info.kind = true → TreeWFs sub)
def TreeWFs : List Field → Prop
  | [] => True
  | f :: rest => TreeWF f ∧ f.info.nameSnake ∉ rest.map (·.info.nameSnake) ∧ TreeWFs rest
end

theorem treeWFs_nodup : ∀ fs : List Field, TreeWFs fs → (fs.map (·.info.nameSnake)).Nodup
  | [], _ => by simp
  | f :: rest, h => by
    unfold TreeWFs at h
    simp only [List.map_cons, List.nodup_cons]
    exact ⟨h.2.1, treeWFs_nodup rest h.2.2⟩

mutual
theorem treeWF_of_irwf : ∀ f : Field, IRWF f → TreeWF f
  | ⟨info, mapVal, msg, sub⟩, h => by
    have hkr := kindRep_of_irwf _ h
    unfold IRWF at h
    unfold TreeWF
    refine ⟨hkr, ?_⟩
    obtain ⟨_, h⟩ := h
    intro hn
    cases hk : info.kind <;> simp only [hk, isNest] at h hn <;> try cases hn
    · exact treeWFs_of_irwfs sub h.2
    · exact treeWFs_of_irwfs sub h.2.2.2.2.2
    · exact treeWFs_of_irwfs sub h.2.2.2.2.2
theorem treeWFs_of_irwfs : ∀ fs : List Field, IRWFs fs → TreeWFs fs
  | [], _ => by unfold TreeWFs; trivial
  | f :: rest, h => by
    unfold IRWFs at h
    unfold TreeWFs
    exact ⟨treeWF_of_irwf f h.1, h.2.1, treeWFs_of_irwfs rest h.2.2⟩
end

/-- one block on a target that does not hold the field's attribute, with the schema's type under the field's name -/
theorem toFieldWith_tree (rec : ToRec) (R : List (String × TfVal) → Prop) (info : FieldInfo) (mv : Option FieldInfo)
    (msg : Option MsgInfo) (sub : List Field) (se : Bool) (obj0 : GoVal) (atys : Option (List (String × TfTy)))
    (st st' : ToSt)
    (hrec : isNest info.kind = true →
      ∀ o ds hs st', rec o (some (nestedTys msg sub)) { attrs := [], diags := ds, hooks := hs } = .ok st' → R st'.attrs)
    (hse : se = true → R [])
    (hl : (atys.getD []).lookup info.nameSnake = some (schemaTy ⟨info, mv, msg, sub⟩))
    (hkr : KindRep info) (hcur : st.attrs.lookup info.nameSnake = none)
    (h : copyToFieldWith rec info msg se obj0 atys st = .ok st') :
    ∃ v, st'.attrs = setKey info.nameSnake v st.attrs ∧ ValKeys R v := by
  unfold copyToFieldWith at h
  unfold KindRep at hkr
  simp only [hl, hcur] at h
  cases hk : info.kind <;> simp only [hk, schemaTy, isNest] at h hkr hrec
  case primitive =>
    split at h
    · rename_i v ds hp
      injection h with h; subst h
      obtain ⟨k, u, n, p, e⟩ := primBody_prim _ _ _ _ _ _ _ hp
      exact ⟨v, rfl, by rw [e]; simp [ValKeys, ElemKeys]⟩
    · cases h
    · cases h
  case object =>
    split at h
    · rename_i v ds hs hp
      injection h with h; subst h
      obtain ⟨n, l, t, e, hR⟩ := objBody_keys rec R info msg se _ _ _ _ v ds hs (hrec trivial) hse hp
      exact ⟨v, rfl, by rw [e]; exact ⟨l, rfl, hR⟩⟩
    · cases h
    · cases h
  case custom =>
    split at h
    · split at h
      · rename_i x _ v hv
        injection h with h; subst h
        exact ⟨v, rfl, hookTo_keys R _ _ _ hv⟩
      · cases h
    · cases h
    · cases h
  all_goals
    simp only [hkr, if_true, Bool.false_eq_true, if_false] at h
    split at h
    · cases h
    · cases h
    · refine listOrMapBody_keys rec R info msg se obj0 _ _ st st' ?_ hse h
      intro hko oty hoty
      first
        | (simp [hk] at hko; done)
        | (simp only [elemObjTy, if_true] at hoty
           injection hoty with hoty
           subst hoty
           exact hrec trivial)

mutual
/-- **the tree of keys CopyTo writes is the name tree** (generalised over the start state): on a target that holds none
of the names, with the schema's attribute type under every field's name, a completed run of the blocks of `fs` appends
an attribute map whose keys are - at every depth - those of `nameTree fs`, in order. Every source value (typed or not). -/
theorem toFields_tree : ∀ (fs : List Field) (obj : GoVal) (atys : List (String × TfTy)) (st st' : ToSt), TreeWFs fs →
    (∀ f ∈ fs, atys.lookup f.info.nameSnake = some (schemaTy f)) →
    (∀ n ∈ fs.map (·.info.nameSnake), n ∉ keys st.attrs) →
    copyToFields fs obj (some atys) st = .ok st' →
    ∃ new : List (String × TfVal), st'.attrs = st.attrs ++ new ∧ KeysTree (nameTree fs) new
  | [], _, _, st, st', _, _, _, h => by
    simp only [copyToFields] at h; injection h with h; subst h
    exact ⟨[], by simp, by simp [nameTreeG, KeysTree]⟩
  | f :: rest, obj, atys, st, st', hwf, hl, hdis, h => by
    unfold TreeWFs at hwf
    simp only [copyToFields] at h
    cases hm : copyToField f obj (some atys) st with
    | ok m =>
      rw [hm] at h
      obtain ⟨v, e, hv⟩ := toField_tree f obj atys st m hwf.1 (hl f (by simp)) (hdis _ (by simp)) hm
      have hdis' : ∀ n ∈ rest.map (·.info.nameSnake), n ∉ keys m.attrs := by
        intro n hn
        rw [e]
        simp only [List.map_append, List.map_cons, List.map_nil, List.mem_append, List.mem_singleton, not_or]
        exact ⟨hdis n (by simp only [List.map_cons, List.mem_cons]; exact Or.inr hn), fun e' => hwf.2.1 (e' ▸ hn)⟩
      obtain ⟨new, e2, hk⟩ := toFields_tree rest obj atys m st' hwf.2.2 (fun g hg => hl g (by simp [hg])) hdis' h
      refine ⟨(f.info.nameSnake, v) :: new, ?_, ?_⟩
      · rw [e2, e]; simp
      · simp only [nameTreeG]
        exact keysTree_cons _ _ _ _ _ hv hk
    | panic w => rw [hm] at h; cases h
    | stuck w => rw [hm] at h; cases h
theorem toField_tree : ∀ (f : Field) (obj : GoVal) (atys : List (String × TfTy)) (st st' : ToSt), TreeWF f →
    atys.lookup f.info.nameSnake = some (schemaTy f) → f.info.nameSnake ∉ keys st.attrs →
    copyToField f obj (some atys) st = .ok st' →
    ∃ v, st'.attrs = st.attrs ++ [(f.info.nameSnake, v)] ∧ NodeKeys (nameNode f) f.info.nameSnake v
  | ⟨info, mv, msg, sub⟩, obj, atys, st, st', hwf, hl, hcur, h => by
    unfold TreeWF at hwf
    simp only [copyToField] at h
    simp only at hl hcur
    have hrec : isNest info.kind = true → ∀ o ds hs st1,
        copyToFields sub o (some (nestedTys msg sub)) { attrs := [], diags := ds, hooks := hs } = .ok st1 →
        KeysTree (if isNest info.kind then nameTree sub else []) st1.attrs := by
      intro hn o ds hs st1 h1
      obtain ⟨new, e, hk⟩ := toFields_tree sub o (nestedTys msg sub) _ st1 (hwf.2 hn)
        (lookup_tysOf sub _ (treeWFs_nodup sub (hwf.2 hn))) (by simp) h1
      simp only [List.nil_append] at e
      rw [hn, e]
      exact hk
    have hse : sub.isEmpty = true → KeysTree (if isNest info.kind then nameTree sub else []) [] := by
      intro he
      have : sub = [] := by simpa using he
      subst this
      cases isNest info.kind <;> simp [nameTreeG, KeysTree]
    obtain ⟨v, e, hv⟩ := toFieldWith_tree (fun o a s => copyToFields sub o a s) _ info mv msg sub sub.isEmpty obj
      (some atys) st st' hrec hse hl hwf.1 ((not_mem_keys_iff _ _).1 hcur) h
    refine ⟨v, ?_, ?_⟩
    · rw [e, setKey_new _ _ _ hcur]
    · simp only [nameNodeG, NodeKeys, Bool.false_eq_true, if_false, List.append_nil, true_and]
      exact hv
end

/-- **the whole converter, schema-typed empty target**: every completed run of `Copy<T>ToTerraform` on the object that
carries the schema's attribute types and no values returns an object whose attribute keys are, at every depth, those of
the name tree of the message - for every source value; IR with distinct names per level and `repeated` flags that go with
the kinds (`TreeWFs`, implied by `IRWFs`) -/
theorem copyTo_tree (m : Msg) (obj : GoVal) (u n : Bool) (r : ToResult) (hwf : TreeWFs m.fields)
    (h : copyTo m obj (.obj u n none (some (attrTypesOf m))) = .ok r) :
    ∃ as, r.tf = .obj false false (some as) (some (attrTypesOf m)) ∧ KeysTree (nameTree m.fields) as ∧
      keys as = m.fields.map (·.info.nameSnake) := by
  unfold copyTo at h
  simp only [] at h
  cases hm : copyToFields m.fields obj (some (attrTypesOf m)) { attrs := (none : Option (List (String × TfVal))).getD [] } with
  | ok st =>
    rw [hm] at h
    injection h with h
    subst h
    obtain ⟨new, e, hk⟩ := toFields_tree m.fields obj (attrTypesOf m) _ st hwf
      (attrTypesOf_lookup_field m (treeWFs_nodup _ hwf)) (by simp) hm
    simp only [Option.getD, List.nil_append] at e
    refine ⟨st.attrs, rfl, by rw [e]; exact hk, ?_⟩
    rw [e, keysTree_keys _ _ hk, nameTreeG_names]
  | panic w => rw [hm] at h; cases h
  | stuck w => rw [hm] at h; cases h

-- ======================================================================================================
-- 5. embedded messages are flattened by the builder: their fields are ordinary members of the embedding message
-- ======================================================================================================

/-- **an embedded message field contributes the fields of the embedded message, not a nested attribute**: when
`BuildField` succeeds on an embedded, message-typed, non-excluded field, its result is the list of the embedded message's
own fields (built with the embedding message's path as their base path) - unchanged when the Go field is a value,
marked with the parent pointer (`markEmbedded`: `parentIsOptionalEmbed`, the Go field to go through) when it is a
pointer. No `Field` for the embedded field itself exists, hence no attribute, no CopyTo / CopyFrom block and no node of
the name tree: the children are nodes of the embedding message's level. -/
theorem embed_flattens (fuel : Nat) (cfg : CfgView) (req : Request) (ctx : MsgCtx) (f : FieldD) (keys : Keys)
    (goType : String) (isRep hasComment : Bool) (tf : TfType) (fs : List Field)
    (hex : cfg.excluded keys = false)
    (htf : getTerraformType cfg f false isRep goType keys.path = .ok tf) (hm : tf.isMessage = true)
    (he : f.embed = true)
    (h : buildFieldCore (fuel + 1) cfg req ctx f keys goType false isRep hasComment = .ok fs) :
    ∃ d m, req.findMessage f.typeName = some d ∧ buildMessage fuel cfg req d false keys.path = .ok m ∧
      (fs = m.fields ∨ ∃ full short, fs = m.fields.map (markEmbedded full short)) := by
  unfold buildFieldCore at h
  simp only [hex, htf, hm, he] at h
  cases hfind : req.findMessage f.typeName with
  | none => simp [hfind] at h
  | some d =>
    cases hb : buildMessage fuel cfg req d false keys.path with
    | error e => simp [hfind, hb] at h
    | ok m =>
      refine ⟨d, m, rfl, hb, ?_⟩
      simp only [hfind, hb] at h
      simp at h
      split at h
      · injection h with h
        exact Or.inr ⟨_, _, h.symm⟩
      · injection h with h
        exact Or.inl h.symm

theorem markEmbedded_nameSnake (full short : String) (c : Field) : (markEmbedded full short c).info.nameSnake = c.info.nameSnake := rfl
theorem markEmbedded_sub (full short : String) (c : Field) : (markEmbedded full short c).sub = c.sub := rfl
theorem markEmbedded_kind (full short : String) (c : Field) : (markEmbedded full short c).info.kind = c.info.kind := rfl

/-- marking the children of a nullable embedded message changes no name, at any depth: the name tree (and with it the
schema's tree, the keys CopyTo writes and the keys CopyFrom reads) of the flattened children is that of the embedded
message's fields -/
theorem nameTree_markEmbedded (inj : Bool) (full short : String) :
    ∀ fs : List Field, nameTreeG inj (fs.map (markEmbedded full short)) = nameTreeG inj fs
  | [] => rfl
  | ⟨info, mv, msg, sub⟩ :: rest => by
    simp only [List.map_cons, nameTreeG, nameTree_markEmbedded inj full short rest]
    simp [markEmbedded, nameNodeG]

-- ======================================================================================================
-- 6. C02: the three artefacts use the same key for a field, and the same tree of keys
-- ======================================================================================================

/-- **C02, one field, three artefacts, one key.** For a field `f` of a message whose attribute names are pairwise distinct,
with `n = f.info.nameSnake` and `T = tysOf (schemaAttrs fs ++ extra)` the attribute types of the generated schema
(`extra`: the injected attributes):
1. *schema*: `n` occurs exactly once among the schema's keys; the entry under `n` is `schemaField f`, of type `schemaTy f`;
   the type map the schema hands to CopyTo holds `schemaTy f` under `n`;
2. *CopyTo reads the type under `n`*: on any type map that holds `schemaTy f` under `n` the block of `f` behaves as on `T`;
   if `n` is removed from the type map the block reports `writeMissing f.path` and writes nothing;
3. *CopyTo writes `n` and nothing else*: a completed block leaves every other key alone, and (when the `repeated` flag
   goes with the kind) stores a value under `n`; the value stored depends on the start state only through the value
   found under `n`;
4. *CopyFrom reads `n` and nothing else*: the block of `f` gives the same outcome on two attribute maps that agree at `n`;
   it tells a map without `n` from a map with a nil value under `n` (kinds other than custom). -/
theorem C02_same_key (fs : List Field) (extra : List (String × SAttr)) (hnd : (fs.map (·.info.nameSnake)).Nodup)
    (f : Field) (hf : f ∈ fs) :
    -- 1. schema
    (((schemaAttrs fs).map (·.1)).count f.info.nameSnake = 1 ∧
     (schemaAttrs fs ++ extra).lookup f.info.nameSnake = some (schemaField f).2 ∧
     (schemaField f).2.ty = schemaTy f ∧
     (tysOf (schemaAttrs fs ++ extra)).lookup f.info.nameSnake = some (schemaTy f)) ∧
    -- 2. CopyTo reads the attribute type under the same key
    ((∀ (obj : GoVal) (atys : List (String × TfTy)) (st : ToSt), atys.lookup f.info.nameSnake = some (schemaTy f) →
        copyToField f obj (some atys) st = copyToField f obj (some (tysOf (schemaAttrs fs ++ extra))) st) ∧
     (∀ (obj : GoVal) (atys : List (String × TfTy)) (st : ToSt), atys.lookup f.info.nameSnake = none →
        copyToField f obj (some atys) st = .ok (st.diag (.writeMissing f.info.path)))) ∧
    -- 3. CopyTo writes under the same key and nowhere else
    ((∀ (obj : GoVal) (st st' : ToSt), copyToField f obj (some (tysOf (schemaAttrs fs ++ extra))) st = .ok st' →
        (∀ key, key ≠ f.info.nameSnake → st'.attrs.lookup key = st.attrs.lookup key) ∧
        (KindRep f.info → ∃ v, st'.attrs = setKey f.info.nameSnake v st.attrs)) ∧
     (∀ (obj : GoVal) (atys : Option (List (String × TfTy))) (s1 s2 t1 t2 : ToSt),
        s1.attrs.lookup f.info.nameSnake = s2.attrs.lookup f.info.nameSnake →
        copyToField f obj atys s1 = .ok t1 → copyToField f obj atys s2 = .ok t2 →
        t1.attrs.lookup f.info.nameSnake = t2.attrs.lookup f.info.nameSnake)) ∧
    -- 4. CopyFrom reads under the same key and nowhere else
    ((∀ (ov : List (String × String)) (attrs attrs' : Option (List (String × TfVal))) (st : FromSt),
        (attrs.getD []).lookup f.info.nameSnake = (attrs'.getD []).lookup f.info.nameSnake →
        copyFromField ov f attrs st = copyFromField ov f attrs' st) ∧
     (f.info.kind ≠ .custom → ∀ (ov : List (String × String)) (rest : List (String × TfVal)) (st : FromSt),
        rest.lookup f.info.nameSnake = none →
        copyFromField ov f (some rest) st ≠ copyFromField ov f (some ((f.info.nameSnake, .nilv) :: rest)) st)) := by
  have hT := lookup_tysOf fs extra hnd f hf
  refine ⟨⟨(schema_exactly_one fs extra hnd f hf).1, schema_lookup fs extra hnd f hf, schemaField_ty f, hT⟩,
    ⟨?_, ?_⟩, ⟨?_, ?_⟩, ⟨?_, ?_⟩⟩
  · intro obj atys st hl
    exact copyToField_atys_congr f obj _ _ st (by simp only [Option.getD]; rw [hl, hT])
  · intro obj atys st hl
    exact copyToField_type_missing f obj _ st hl
  · intro obj st st' h
    exact ⟨copyToField_frame f obj _ st st' h,
      fun hk => copyToField_sets f obj (some (tysOf (schemaAttrs fs ++ extra))) st st' (schemaTy f) hT (tyFits_schemaTy f hk) h⟩
  · intro obj atys s1 s2 t1 t2 hc h1 h2
    exact copyToField_own f obj atys s1 s2 t1 t2 hc h1 h2
  · intro ov attrs attrs' st h
    exact copyFromField_attrs_congr ov f attrs attrs' st h
  · intro hk ov rest st hr
    exact (copyFromField_reads_own_key ov f rest st hk hr).2.2

/-- **C02, the nesting, three artefacts, one tree.** For a message whose IR has distinct names per level and `repeated`
flags that go with the kinds (`TreeWFs`; implied by `IRWFs`):
1. *schema*: the tree of attribute names of `GenSchema<T>` is the name tree of the IR with the injected attributes of
   nested messages as additional trailing leaves (`Ext`), and equal to it when no nested message has injected attributes;
2. *CopyTo*: every completed run on the schema-typed empty object returns an object whose keys are, at every depth, those
   of the name tree, in order (objects standing for nil pointers hold none) - every source value;
3. *CopyFrom*: two source objects whose attribute maps agree on the name tree (whatever they hold under other names at
   any depth, whatever attribute / element types they carry) give the same outcome - every target struct. -/
theorem C02_same_tree (m : Msg) (hwf : TreeWFs m.fields) :
    (sTree (schemaAttrs m.fields) = nameTreeG true m.fields ∧
     Ext (nameTree m.fields) (sTree (schemaAttrs m.fields)) ∧
     (NoNestedInjected m.fields → sTree (schemaAttrs m.fields) = nameTree m.fields)) ∧
    (∀ (obj : GoVal) (u n : Bool) (r : ToResult), copyTo m obj (.obj u n none (some (attrTypesOf m))) = .ok r →
      ∃ as, r.tf = .obj false false (some as) (some (attrTypesOf m)) ∧ KeysTree (nameTree m.fields) as ∧
        keys as = m.fields.map (·.info.nameSnake)) ∧
    (∀ (ov : List (String × String)) (u n u' n' : Bool) (attrs attrs' : Option (List (String × TfVal)))
      (tys tys' : Option (List (String × TfTy))) (obj : GoVal),
      AgreeOn (nameTree m.fields) (attrs.getD []) (attrs'.getD []) →
      copyFrom ov m (.obj u n attrs tys) obj = copyFrom ov m (.obj u' n' attrs' tys') obj) := by
  refine ⟨⟨sTree_schemaAttrs _, ?_, sTree_schemaAttrs_noinj _⟩, ?_, ?_⟩
  · rw [sTree_schemaAttrs]; exact nameTree_ext _
  · intro obj u n r h
    exact copyTo_tree m obj u n r hwf h
  · intro ov u n u' n' attrs attrs' tys tys' obj h
    exact copyFrom_tree_congr ov m u n u' n' attrs attrs' tys tys' obj h

/-- … for a well-formed IR and a typed value the run of part 2 exists, reports nothing and the stored attributes render
the value (`C03_schema_typed`), so the tree statement is about an actual result -/
theorem C02_copyTo_schema_typed (m : Msg) (obj : GoVal) (hwf : IRWFs m.fields) (hv : ValOKs m.fields obj) :
    ∃ r as, copyTo m obj (.obj false false none (some (attrTypesOf m))) = .ok r ∧ r.diags = [] ∧
      r.tf = .obj false false (some as) (some (attrTypesOf m)) ∧
      Spec.rendersFields m.fields obj as = true ∧
      KeysTree (nameTree m.fields) as ∧ keys as = m.fields.map (·.info.nameSnake) := by
  obtain ⟨r, as, hrun, hd, htf, hren⟩ := C03_schema_typed m obj hwf hv
  obtain ⟨as', htf', hk, hkeys⟩ := copyTo_tree m obj false false r (treeWFs_of_irwfs _ hwf) hrun
  rw [htf] at htf'
  injection htf' with _ _ e _
  injection e with e
  subst e
  exact ⟨r, as, hrun, hd, htf, hren, hk, hkeys⟩

/-- the nesting, one field: for a message-valued field the nested schema attributes are the schema of `f.sub` (then the
injected ones), the node of the name tree holds `nameTree f.sub`, the block of CopyTo leaves under the field's key a value
whose nested keys are those of `nameTree f.sub`, and the block of CopyFrom reads the value found under the key through
`nameTree f.sub` only -/
theorem C02_nesting_same (f : Field) (hn : isNest f.info.kind = true) (hwf : TreeWF f) :
    nestedOf (schemaField f).2 = schemaAttrs f.sub ++ injectedOf f.msg ∧
    nameNode f = .node f.info.nameSnake (nameTree f.sub) ∧
    (∀ (obj : GoVal) (atys : List (String × TfTy)) (st st' : ToSt),
      atys.lookup f.info.nameSnake = some (schemaTy f) → f.info.nameSnake ∉ keys st.attrs →
      copyToField f obj (some atys) st = .ok st' →
      ∃ v, st'.attrs = st.attrs ++ [(f.info.nameSnake, v)] ∧ ValKeys (KeysTree (nameTree f.sub)) v) ∧
    (∀ (ov : List (String × String)) (attrs attrs' : Option (List (String × TfVal))) (st : FromSt) (v v' : TfVal),
      (attrs.getD []).lookup f.info.nameSnake = some v → (attrs'.getD []).lookup f.info.nameSnake = some v' →
      ValAgree (AgreeOn (nameTree f.sub)) v v' →
      copyFromField ov f attrs st = copyFromField ov f attrs' st) := by
  refine ⟨by rw [schemaField_nested, hn]; rfl, ?_, ?_, ?_⟩
  · obtain ⟨info, mv, msg, sub⟩ := f
    simp only at hn
    simp [nameNodeG, hn]
  · intro obj atys st st' hl hc h
    obtain ⟨v, e, hv⟩ := toField_tree f obj atys st st' hwf hl hc h
    refine ⟨v, e, ?_⟩
    obtain ⟨info, mv, msg, sub⟩ := f
    simp only at hn
    simp only [nameNodeG, NodeKeys, hn, if_true, Bool.false_eq_true, if_false, List.append_nil, true_and] at hv
    exact hv
  · intro ov attrs attrs' st v v' hl hl' hv
    obtain ⟨info, mv, msg, sub⟩ := f
    simp only at hn hl hl' hv
    simp only [copyFromField]
    refine fromFieldWith_val_congr _ (AgreeOn (nameTree sub)) ?_ ov info mv msg attrs attrs' st v v' hn hl hl' hv
    intro as as' s hR
    exact copyFromFields_tree_congr ov sub as as' _ hR

/-- the keys of a nested message are read where the object found under the field's key holds them: a nested attribute
missing from a known, non-null object under the key of an object field is reported with the nested field's path
(`siteAt_diag`, FromDiags.lean) -/
theorem copyFromFields_nested_missing (ov : List (String × String)) (fs : List Field) (attrs : Option (List (String × TfVal)))
    (st st' : FromSt) (f g : Field) (as : Option (List (String × TfVal))) (t : Option (List (String × TfTy)))
    (hf : f ∈ fs) (hp : f.info.isPlaceholder = false) (hk : f.info.kind = .object)
    (hl : (attrs.getD []).lookup f.info.nameSnake = some (.obj false false as t))
    (ht : RightType f.info (.obj false false as t)) (hE : isEmptyMsg f.msg = false)
    (hg : g ∈ f.sub) (hgp : g.info.isPlaceholder = false) (hgl : g.info.nameSnake ∉ keys (as.getD []))
    (h : copyFromFields ov fs attrs st = .ok st') :
    .readMissing g.info.path ∈ st'.diags :=
  siteAt_diag ov fs attrs st st' _
    (.inObject f as t hf hp hk hl ht hE (.missing g hg hgp ((not_mem_keys_iff _ _).1 hgl))) h

-- ======================================================================================================
-- 7. non-vacuity: the two-level message of SchemaTyped.lean (`s`, `l`, `n { m }`, injected `id` and `n.rev`)
-- ======================================================================================================

namespace Example
open PGT.SchemaTyped.Example

/-- the name tree of the example: three fields, the third with the nested message's one field below it -/
theorem nameTree_example :
    nameTree msg.fields = [.node "s" [], .node "l" [], .node "n" [.node "m" []]] := by
  rfl

/-- the schema's tree: the same, plus the attribute injected into the nested message -/
theorem sTree_example :
    sTree (schemaAttrs msg.fields) = [.node "s" [], .node "l" [], .node "n" [.node "m" [], .node "rev" []]] := by
  rfl

theorem treeWFs_example : TreeWFs msg.fields := treeWFs_of_irwfs _ irwfs

/-- the hypotheses of `C02_copyTo_schema_typed` hold for the example: the run exists, renders the value, and its keys are
those of the name tree at both levels -/
theorem copyTo_example : ∃ r as, copyTo msg val (.obj false false none (some (attrTypesOf msg))) = .ok r ∧ r.diags = [] ∧
    r.tf = .obj false false (some as) (some (attrTypesOf msg)) ∧ Spec.rendersFields msg.fields val as = true ∧
    KeysTree (nameTree msg.fields) as ∧ keys as = ["s", "l", "n"] :=
  C02_copyTo_schema_typed msg val irwfs valoks

/-- … and the model, evaluated, agrees: keys `s, l, n` at the top, `m` below `n` (the injected `id` / `rev` are not written) -/
theorem copyTo_example_runs :
    (match copyTo msg val (.obj false false none (some (attrTypesOf msg))) with
     | .ok r => (match r.tf with
        | .obj _ _ (some as) _ =>
          keys as == ["s", "l", "n"] &&
          (match as.lookup "n" with
           | some (.obj _ false (some as2) _) => keys as2 == ["m"]
           | _ => false)
        | _ => false)
     | _ => false) = true := by
  decide

/-- on a nil nested pointer the object under `n` is the null object without keys - the second alternative of `ElemKeys` -/
theorem copyTo_example_nil_runs :
    (match copyTo msg (.struct [("S", .sc (.str [104])), ("N", .ptr none)]) (.obj false false none (some (attrTypesOf msg))) with
     | .ok r => (match r.tf with
        | .obj _ _ (some as) _ =>
          keys as == ["s", "l", "n"] &&
          (match as.lookup "n" with
           | some (.obj _ true (some as2) _) => as2.isEmpty
           | _ => false)
        | _ => false)
     | _ => false) = true := by
  decide

def mapV : TfVal := .map false false (some [("k", .prim .string false false (.str [118]))]) (some (.prim .string))

/-- a source object as CopyTo produces it -/
def src1 : List (String × TfVal) :=
  [("s", .prim .string false false (.str [104, 105])),
   ("l", .list false false (some [.prim .int64 false false (.w64 7)]) (some (.prim .int64))),
   ("n", .obj false false (some [("m", mapV)]) (some [("m", .map (some (.prim .string)))]))]

/-- the same values under the names of the tree; other keys at both levels, other attribute types carried -/
def src2 : List (String × TfVal) :=
  [("zzz", .nilv),
   ("s", .prim .string false false (.str [104, 105])),
   ("l", .list false false (some [.prim .int64 false false (.w64 7)]) (some (.prim .int64))),
   ("n", .obj false false (some [("junk", .foreign "x"), ("m", mapV), ("rev", .nilv)]) none),
   ("id", .prim .string false true (.str []))]

theorem agree_example : AgreeOn (nameTree msg.fields) src1 src2 := by
  rw [nameTree_example]
  simp only [AgreeOn, AgreeAt, and_true]
  refine ⟨Or.inl rfl, Or.inl rfl, Or.inr ⟨by simp, _, _, rfl, rfl, Or.inl (Or.inr ⟨_, _, _, _, _, _, rfl, rfl, ?_⟩)⟩⟩
  exact Or.inl rfl

/-- CopyFrom cannot tell the two apart (theorem) … -/
theorem copyFrom_example (ov : List (String × String)) (obj : GoVal) :
    copyFrom ov msg (.obj false false (some src1) none) obj = copyFrom ov msg (.obj true true (some src2) (some [])) obj :=
  copyFrom_tree_congr ov msg _ _ _ _ _ _ _ _ obj agree_example

/-- … and both runs succeed without diagnostics and fill `S`, `L` and `N.M` (evaluation) -/
theorem copyFrom_example_runs :
    (match copyFrom [] msg (.obj true true (some src2) (some [])) (.struct []) with
     | .ok r => r.diags.isEmpty &&
        (match r.obj.field? "S", r.obj.field? "N" with
         | some (.sc (.str s)), some (.ptr (some n)) =>
           s == [104, 105] && (match n.field? "M" with | some (.map (some [(k, _)])) => k == "k" | _ => false)
         | _, _ => false)
     | _ => false) = true := by
  decide

/-- the keys of the tree ARE read: dropping `m` below `n` (a key of the second level) is reported with the nested field's
path, dropping `s` with the top-level field's (evaluation; the theorems are `copyFromFields_nested_missing`,
`copyFromFields_missing_key`) -/
theorem copyFrom_example_sensitive :
    (match copyFrom [] msg (.obj false false (some [("s", .prim .string false false (.str [])),
          ("l", .list false true none none), ("n", .obj false false (some []) none)]) none) (.struct []) with
     | .ok r => r.diags == [.readMissing iM.path]
     | _ => false) = true ∧
    (match copyFrom [] msg (.obj false false (some [("l", .list false true none none), ("n", .obj false true none none)]) none)
        (.struct []) with
     | .ok r => r.diags == [.readMissing iS.path]
     | _ => false) = true := by
  decide

/-- the nested-message field `n` of the example -/
def fN : Field :=
  { info := iN, sub := inner,
    msg := some { name := "Inner", injected := [{ name := "rev", type := "github.com/hashicorp/terraform-plugin-framework/types.Int64Type" }] } }

/-- `C02_same_key` applies to it (first component of part 4: the CopyFrom block of `n` reads the key `"n"` only) -/
theorem same_key_example (ov : List (String × String)) (attrs attrs' : Option (List (String × TfVal))) (st : FromSt)
    (h : (attrs.getD []).lookup "n" = (attrs'.getD []).lookup "n") :
    copyFromField ov fN attrs st = copyFromField ov fN attrs' st :=
  (C02_same_key msg.fields (msg.info.injected.map injectedAttr) (irwfs_nodup _ irwfs) fN (by simp [msg, fields, fN])).2.2.2.1
    ov attrs attrs' st h

/-- a second shape: a list of messages with two fields (`xs [ { a, b } ]`) -/
def tObjList : TfType :=
  { type := "github.com/hashicorp/terraform-plugin-framework/types.ListType",
    valueType := "github.com/hashicorp/terraform-plugin-framework/types.List",
    elemType := "github.com/hashicorp/terraform-plugin-framework/types.ObjectType",
    elemValueType := "github.com/hashicorp/terraform-plugin-framework/types.Object", isMessage := true }

def fXs : Field :=
  { info := { name := "Xs", nameSnake := "xs", kind := .objectList, isRepeated := true, tf := tObjList },
    msg := some { name := "Elem" },
    sub := [{ info := { iS with name := "A", nameSnake := "a" } }, { info := { iS with name := "B", nameSnake := "b" } }] }

def msg2 : Msg := { info := { name := "M2", isRoot := true }, fields := [fXs] }

theorem nameTree_example2 : nameTree msg2.fields = [.node "xs" [.node "a" [], .node "b" []]] := rfl

theorem sTree_example2 : sTree (schemaAttrs msg2.fields) = nameTree msg2.fields := rfl

theorem treeWFs_example2 : TreeWFs msg2.fields := by
  simp [msg2, fXs, TreeWFs, TreeWF, KindRep, isNest, iS]

def val2 : GoVal :=
  .struct [("Xs", .slice (some [.struct [("A", .sc (.str [49])), ("B", .sc (.str [50]))], .struct [("B", .sc (.str [51]))]]))]

/-- `copyTo_tree` applies to every completed run on it … -/
theorem copyTo_example2 (r : ToResult) (h : copyTo msg2 val2 (.obj false false none (some (attrTypesOf msg2))) = .ok r) :
    ∃ as, r.tf = .obj false false (some as) (some (attrTypesOf msg2)) ∧ KeysTree (nameTree msg2.fields) as ∧ keys as = ["xs"] :=
  copyTo_tree msg2 val2 false false r treeWFs_example2 h

/-- … there is one, and every element of the list under `xs` holds the keys `a, b` (evaluation) -/
theorem copyTo_example2_runs :
    (match copyTo msg2 val2 (.obj false false none (some (attrTypesOf msg2))) with
     | .ok r => (match r.tf with
        | .obj _ _ (some [("xs", .list _ false (some es) _)]) _ =>
          es.length == 2 && es.all fun e => match e with
            | .obj _ false (some as2) _ => keys as2 == ["a", "b"]
            | _ => false
        | _ => false)
     | _ => false) = true := by
  decide

/-- CopyFrom reads the elements through `a`, `b` only: junk keys inside an element and other element types are not seen -/
theorem copyFrom_example2 (ov : List (String × String)) (obj : GoVal) (x y : TfVal) :
    copyFrom ov msg2 (.obj false false (some [("xs", .list false false (some [.obj false false (some [("a", x), ("b", y)]) none]) none)]) none) obj =
    copyFrom ov msg2 (.obj false false (some [("xs", .list false false
        (some [.obj false false (some [("c", .nilv), ("a", x), ("b", y), ("a", .nilv)]) (some [])]) (some (.prim .bool)))]) none) obj := by
  refine copyFrom_tree_congr ov msg2 _ _ _ _ _ _ _ _ obj ?_
  rw [nameTree_example2]
  refine ⟨Or.inr ⟨by simp, _, _, rfl, rfl, Or.inr (Or.inl ⟨_, _, _, _, _, _, rfl, rfl, ?_⟩)⟩, trivial⟩
  exact ⟨Or.inr ⟨_, _, _, _, _, _, rfl, rfl, Or.inl rfl, Or.inl rfl, trivial⟩, trivial⟩

end Example

-- ======================================================================================================
-- 8. stated, not proved
-- ======================================================================================================

open PGT.OrderIndep in
/-- `copyFromFields_reach_touch` without its third hypothesis, i.e. also for IRs in which a oneof branch is a child of a
nullable embedded message (it touches two Go fields, the embedded parent's pointer and the oneof holder, of which one may
be in `G` and the other not).  NOT PROVED (and not refuted); proved for every IR with `EmbedOK`
(`copyFromFields_changes_only_touch`, `copyFromFields_own_key_touch`).
Missing: locality of a CopyFrom block *per Go field* ("the value a completed block leaves in a Go field `k` depends on the
target only through `k`"); `blockF_sem` (OrderIndepEmbed.lean) gives locality for the block's whole key set only, which
does not apply when the two targets differ on a part of it. -/
def copyFromFields_reach_full : Prop :=
  ∀ (ov : List (String × String)) (D : String → Prop) (G : String → Prop) (attrs attrs' : Option (List (String × TfVal))),
    (∀ key, ¬ D key → (attrs.getD []).lookup key = (attrs'.getD []).lookup key) →
    ∀ (fs : List Field) (s1 s2 t1 t2 : FromSt),
    (∀ f ∈ fs, D f.info.nameSnake → ∀ k ∈ touch f.info, G k) →
    IsStruct s1.obj → IsStruct s2.obj → (∀ g, ¬ G g → s1.obj.field? g = s2.obj.field? g) →
    copyFromFields ov fs attrs s1 = .ok t1 → copyFromFields ov fs attrs' s2 = .ok t2 →
    ∀ g, ¬ G g → t1.obj.field? g = t2.obj.field? g

/-- `copyTo_tree` for a target that already holds values (in-place update): the keys *added* are those of the name tree and
the nested objects re-used from the target are filled through `nameTree f.sub`.  NOT PROVED: `toFields_tree` is for targets
that hold none of the names (`cur = none` in every block); for a re-used object the attribute types are those stored in
the VALUE (`objBody`), not the schema's, so the statement needs a typing invariant of the target (`AttrsOK` of
ToTotalAny.lean plus "the stored types are the schema's").  NOT REFUTED either.  What IS proved for every target:
`copyToFields_keys_sub`, `copyToFields_keys_mono`, `copyToFields_keys_exact`, `copyToFields_keys_inplace` (top level: a
target that holds all the names keeps its key list) and the frame / own-key lemmas of ToCongr.lean. -/
def copyTo_tree_inplace_full : Prop :=
  ∀ (m : Msg) (obj : GoVal) (u n : Bool) (as0 : List (String × TfVal)) (r : ToResult), TreeWFs m.fields →
    KeysTree (nameTree m.fields) as0 →
    copyTo m obj (.obj u n (some as0) (some (attrTypesOf m))) = .ok r →
    ∃ as, r.tf = .obj false false (some as) (some (attrTypesOf m)) ∧ KeysTree (nameTree m.fields) as

end PGT.SameNames

section
open PGT.SameNames
#print axioms schemaAttrs_keys
#print axioms schemaField_nested
#print axioms schema_exactly_one
#print axioms sTree_schemaAttrs
#print axioms nameTree_ext
#print axioms copyToField_atys_congr
#print axioms copyToFields_atys_congr
#print axioms copyToFields_keys_sub
#print axioms copyToFields_keys_exact
#print axioms copyToFields_keys_fresh
#print axioms copyToFields_key_or_diag
#print axioms copyFromField_attrs_congr
#print axioms copyFromFields_attrs_congr
#print axioms copyFromField_reads_own_key
#print axioms copyFromFields_missing_key
#print axioms copyFromFields_nested_missing
#print axioms copyFromFields_tree_congr
#print axioms copyFrom_tree_congr
#print axioms copyFromFields_reach_touch
#print axioms copyFromFields_changes_only_touch
#print axioms copyFromFields_own_key_touch
#print axioms copyFromFields_changes_only
#print axioms copyFromFields_own_key
#print axioms toFields_tree
#print axioms copyTo_tree
#print axioms embed_flattens
#print axioms nameTree_markEmbedded
#print axioms C02_same_key
#print axioms C02_same_tree
#print axioms C02_nesting_same
#print axioms C02_copyTo_schema_typed
#print axioms Example.copyTo_example
#print axioms Example.copyTo_example_runs
#print axioms Example.copyFrom_example
#print axioms Example.copyFrom_example_runs
#print axioms Example.copyFrom_example_sensitive
end
