import PGT.Model.CopyTo
import PGT.Proofs.Store
import PGT.Proofs.FromTotal
/-
`Copy<T>ToTerraform` never panics on a target that carries attribute types and no values – for **every** struct value
(typed or not: an ill-typed harness value makes the model `stuck`, never `panic`) and every sub-family of attribute
types (missing types are reported as diagnostics), provided the element types that are present are well formed:
lists / maps have an element type, lists / maps of messages an object element type (`TysOK`). Those are the only
run-time panics left in the emitted CopyTo code: `t.ValueFromTerraform` on a nil element type and the single-value
assertion `o.ElemType.(types.ObjectType)`.
-/
namespace PGT

mutual
/-- the attribute type `ty` of field `f` is well formed as far as the emitted code relies on it without checking -/
def TyOK : Field → TfTy → Prop
  | ⟨info, _, _, sub⟩, ty =>
    match info.kind with
    | .object => ∀ as, ty = .obj as → TysOK sub as
    | .primitiveList | .primitiveMap => ∀ e, (ty = .list e ∨ ty = .map e) → e ≠ none
    | .objectList | .objectMap => ∀ e, (ty = .list e ∨ ty = .map e) → ∃ as, e = some (.obj as) ∧ TysOK sub as
    | _ => True

/-- … for all fields of a message; attribute names pairwise distinct -/
def TysOK : List Field → Option (List (String × TfTy)) → Prop
  | [], _ => True
  | f :: rest, atys =>
    (∀ ty, (atys.getD []).lookup f.info.nameSnake = some ty → TyOK f ty) ∧
    f.info.nameSnake ∉ rest.map (·.info.nameSnake) ∧ TysOK rest atys
end

/-- a field block neither panics nor touches attributes of other names -/
def ToSafe (name : String) (st : ToSt) (o : Outcome ToSt) : Prop :=
  NoPanic o ∧ ∀ st', o = .ok st' → ∀ key, key ≠ name → st'.attrs.lookup key = st.attrs.lookup key

theorem toSafe_ok_same (name : String) (st st' : ToSt) (h : st'.attrs = st.attrs) : ToSafe name st (.ok st') :=
  ⟨fun w => by simp, fun s e key _ => by injection e with e; subst e; rw [h]⟩

theorem toSafe_ok_set (name : String) (st st' : ToSt) (v : TfVal) (h : st'.attrs = setKey name v st.attrs) :
    ToSafe name st (.ok st') :=
  ⟨fun w => by simp, fun s e key hk => by injection e with e; subst e; rw [h]; exact lookup_setKey_other _ _ _ hk _⟩

theorem toSafe_stuck (name : String) (st : ToSt) (w : String) : ToSafe name st (.stuck w) :=
  ⟨fun w => by simp, fun s e => by cases e⟩

theorem readField_noPanic (f : FieldInfo) (obj : GoVal) : NoPanic (readField f obj) := by
  intro w
  unfold readField
  split
  · split <;> simp
  · simp

/-- the recursive call never panics on a fresh attribute map when the attribute types satisfy `P` -/
def RecNP (rec : ToRec) (P : Option (List (String × TfTy)) → Prop) : Prop :=
  ∀ o as diags hooks, P as → NoPanic (rec o as { attrs := [], diags := diags, hooks := hooks })

theorem objBody_noPanic (rec : ToRec) (P : Option (List (String × TfTy)) → Prop) (hrec : RecNP rec P)
    (info : FieldInfo) (msg : Option MsgInfo) (se : Bool) (oty : Option (List (String × TfTy))) (x : Outcome GoVal)
    (diags : List Diag) (hooks : List HookCall) (hx : NoPanic x) (hP : P oty) :
    NoPanic (objBody rec info msg se none oty x diags hooks) := by
  intro w
  unfold objBody
  simp only []
  split
  · split
    · simp
    · generalize hr : rec _ _ _ = r
      have hnp : NoPanic r := by rw [← hr]; exact hrec _ _ _ _ hP
      cases r with
      | ok st => simp
      | panic w' => exact absurd rfl (hnp w')
      | stuck w' => simp
  · cases x with
    | panic w' => exact absurd rfl (hx w')
    | stuck w' => simp
    | ok xv =>
      simp only []
      split
      · split
        · simp
        · split
          · simp
          · generalize hr : rec _ _ _ = r
            have hnp : NoPanic r := by rw [← hr]; exact hrec _ _ _ _ hP
            cases r with
            | ok st => simp
            | panic w' => exact absurd rfl (hnp w')
            | stuck w' => simp
        · simp
      · split
        · split
          · simp
          · generalize hr : rec _ _ _ = r
            have hnp : NoPanic r := by rw [← hr]; exact hrec _ _ _ _ hP
            cases r with
            | ok st => simp
            | panic w' => exact absurd rfl (hnp w')
            | stuck w' => simp
        · simp

/-- close `… ≠ .panic w` goals about nests of `if` / `match` whose leaves are `.ok` / `.stuck` -/
macro "np_crush" : tactic => `(tactic| repeat' (first | (simp; done) | contradiction | split))

theorem assignPrim_noPanic (f : FieldInfo) (obj : GoVal) (rd : Outcome GoVal) (v : Bool × Sc) (hrd : NoPanic rd) :
    NoPanic (assignPrim f obj rd v) := by
  intro w
  unfold assignPrim
  cases rd with
  | panic w' => exact absurd rfl (hrd w')
  | stuck w' => simp only []; np_crush
  | ok x => simp only []; np_crush

theorem primStart_noPanic (k : PrimK) (cur : Option TfVal) : NoPanic (primStart k cur) := by
  intro w
  unfold primStart
  repeat' (first | (intro h; cases h) | split)

theorem primFresh_noPanic (f : FieldInfo) (k : PrimK) (obj : GoVal) (ty : TfTy) (rd : Outcome GoVal) (hrd : NoPanic rd) :
    NoPanic (primFresh f k obj (some ty) rd) := by
  intro w
  unfold primFresh
  cases rd with
  | panic w' => exact absurd rfl (hrd w')
  | stuck w' => simp only []; repeat' (first | (intro h; cases h) | contradiction | split)
  | ok x => simp only []; repeat' (first | (intro h; cases h) | contradiction | split)

theorem primBody_noPanic (f : FieldInfo) (obj : GoVal) (cur : Option TfVal) (ty : TfTy) (rd : Outcome GoVal)
    (hrd : NoPanic rd) : NoPanic (primBody f obj cur (some ty) rd) := by
  intro w
  unfold primBody
  split
  · rename_i k _
    simp only []
    split
    · generalize ha : assignPrim f obj rd _ = a
      have hna : NoPanic a := by rw [← ha]; exact assignPrim_noPanic f obj rd _ hrd
      cases a with
      | panic w' => exact absurd rfl (hna w')
      | stuck w' => simp
      | ok q => simp
    · rename_i w' heq
      exfalso
      revert heq
      repeat' split
      all_goals first
        | exact primStart_noPanic k _ w'
        | exact primFresh_noPanic f k obj ty rd hrd w'
    · simp
  · simp

theorem copyToElemsList_noPanic (body : ElemBody) (hb : ∀ a ds hs, NoPanic (body a ds hs)) :
    ∀ (elems : List GoVal) (k : Nat) (acc : List TfVal) (ds : List Diag) (hs : List HookCall),
      NoPanic (copyToElemsList body elems k acc ds hs)
  | [], _, _, _, _ => by intro w; simp [copyToElemsList]
  | a :: rest, k, acc, ds, hs => by
    intro w
    simp only [copyToElemsList]
    split
    · exact copyToElemsList_noPanic body hb rest _ _ _ _ w
    · rename_i w' heq
      exact absurd heq (hb a ds hs w')
    · simp

theorem copyToElemsMap_noPanic (body : ElemBody) (hb : ∀ a ds hs, NoPanic (body a ds hs)) :
    ∀ (elems : List (String × GoVal)) (acc : List (String × TfVal)) (ds : List Diag) (hs : List HookCall),
      NoPanic (copyToElemsMap body elems acc ds hs)
  | [], _, _, _ => by intro w; simp [copyToElemsMap]
  | (k, a) :: rest, acc, ds, hs => by
    intro w
    simp only [copyToElemsMap]
    split
    · exact copyToElemsMap_noPanic body hb rest _ _ _ w
    · rename_i w' heq
      exact absurd heq (hb a ds hs w')
    · simp

/-- the element type of a list / map attribute is usable: present, and an object type for lists / maps of messages -/
def ElemTyOK (info : FieldInfo) (P : Option (List (String × TfTy)) → Prop) (ety : Option TfTy) : Prop :=
  if info.kind == .objectList || info.kind == .objectMap then ∃ as, ety = some (.obj as) ∧ P as
  else ety ≠ none

theorem elemBody_noPanic (rec : ToRec) (P : Option (List (String × TfTy)) → Prop) (hrec : RecNP rec P)
    (info : FieldInfo) (msg : Option MsgInfo) (se : Bool) (obj0 : GoVal) (ety : Option TfTy)
    (oty : Option (List (String × TfTy))) (hety : ElemTyOK info P ety)
    (hoty : elemObjTy (info.kind == .objectList || info.kind == .objectMap) ety = .ok oty) :
    ∀ a ds hs, NoPanic (elemBodyOf rec info msg se obj0 ety oty a ds hs) := by
  intro a ds hs
  unfold elemBodyOf
  unfold ElemTyOK at hety
  split
  · rename_i hobj
    simp only [hobj, if_true] at hety
    obtain ⟨as, rfl, hP⟩ := hety
    have : oty = as := by simpa [elemObjTy, hobj] using hoty.symm
    subst this
    exact objBody_noPanic rec P hrec info msg se oty (.ok a) ds hs (fun w => by simp) hP
  · rename_i hobj
    simp only [hobj] at hety
    cases ety with
    | none => exact absurd rfl hety
    | some ty =>
      intro w
      unfold primElemBody
      have := primBody_noPanic info obj0 none ty (.ok a) (fun w => by simp)
      cases hb : primBody info obj0 none (some ty) (.ok a) with
      | panic w' => exact absurd hb (this w')
      | stuck w' => simp
      | ok r => simp

theorem listOrMapBody_safe (rec : ToRec) (P : Option (List (String × TfTy)) → Prop) (hrec : RecNP rec P)
    (info : FieldInfo) (msg : Option MsgInfo) (se : Bool) (obj0 : GoVal) (ety : Option TfTy) (src : GoVal) (st : ToSt)
    (hety : ElemTyOK info P ety) :
    ToSafe info.nameSnake st (listOrMapBody rec info msg se obj0 none ety src st) := by
  have hoty : ∃ oty, elemObjTy (info.kind == .objectList || info.kind == .objectMap) ety = .ok oty := by
    unfold ElemTyOK at hety
    unfold elemObjTy
    split
    · rename_i hobj
      simp only [hobj, if_true] at hety
      obtain ⟨as, rfl, _⟩ := hety
      exact ⟨as, rfl⟩
    · exact ⟨none, rfl⟩
  obtain ⟨oty, hoty⟩ := hoty
  have hb := elemBody_noPanic rec P hrec info msg se obj0 ety oty hety hoty
  unfold listOrMapBody
  simp only [hoty, curIsElemKind]
  split
  · split
    · exact toSafe_ok_set _ _ _ _ rfl
    · rename_i elems _
      simp only [Bool.false_eq_true, if_false]
      generalize hl : copyToElemsList _ _ _ _ _ _ = lr
      have hlr : NoPanic lr := by rw [← hl]; exact copyToElemsList_noPanic _ hb _ _ _ _ _
      cases lr with
      | panic w => exact absurd rfl (hlr w)
      | stuck w => exact toSafe_stuck _ _ _
      | ok r =>
        obtain ⟨es, ds, hs⟩ := r
        exact toSafe_ok_set _ _ _ _ rfl
  · split
    · exact toSafe_ok_set _ _ _ _ rfl
    · rename_i elems _
      simp only [Bool.false_eq_true, if_false]
      generalize hl : copyToElemsMap _ _ _ _ _ = lr
      have hlr : NoPanic lr := by rw [← hl]; exact copyToElemsMap_noPanic _ hb _ _ _ _
      cases lr with
      | panic w => exact absurd rfl (hlr w)
      | stuck w => exact toSafe_stuck _ _ _
      | ok r =>
        obtain ⟨es, ds, hs⟩ := r
        exact toSafe_ok_set _ _ _ _ rfl

/-- `TyOK` with the nested message's condition abstracted to `P` -/
def FieldTyOK (info : FieldInfo) (P : Option (List (String × TfTy)) → Prop) (ty : TfTy) : Prop :=
  match info.kind with
  | .object => ∀ as, ty = .obj as → P as
  | .primitiveList | .primitiveMap | .objectList | .objectMap => ∀ e, (ty = .list e ∨ ty = .map e) → ElemTyOK info P e
  | _ => True

theorem toFieldWith_safe (rec : ToRec) (P : Option (List (String × TfTy)) → Prop) (hrec : RecNP rec P)
    (info : FieldInfo) (msg : Option MsgInfo) (se : Bool) (obj0 : GoVal) (atys : Option (List (String × TfTy))) (st : ToSt)
    (hcur : st.attrs.lookup info.nameSnake = none)
    (hty : ∀ ty, (atys.getD []).lookup info.nameSnake = some ty → FieldTyOK info P ty) :
    ToSafe info.nameSnake st (copyToFieldWith rec info msg se obj0 atys st) := by
  unfold copyToFieldWith
  cases hl : List.lookup info.nameSnake (atys.getD []) with
  | none => exact toSafe_ok_same _ _ _ rfl
  | some a =>
    have hfa := hty a hl
    unfold FieldTyOK at hfa
    simp only [hcur]
    cases hk : info.kind with
    | primitive =>
      simp only []
      generalize hp : primBody _ _ _ _ _ = pr
      have hnp : NoPanic pr := by rw [← hp]; exact primBody_noPanic _ _ _ _ _ (readField_noPanic _ _)
      cases pr with
      | panic w => exact absurd rfl (hnp w)
      | stuck w => exact toSafe_stuck _ _ _
      | ok r => obtain ⟨v, ds⟩ := r; exact toSafe_ok_set _ _ _ v rfl
    | object =>
      simp only [hk] at hfa
      simp only []
      cases a with
      | obj oty =>
        simp only []
        generalize hp : objBody _ _ _ _ _ _ _ _ _ = pr
        have hnp : NoPanic pr := by
          rw [← hp]
          exact objBody_noPanic rec P hrec info msg se oty _ _ _ (readField_noPanic _ _) (hfa oty rfl)
        cases pr with
        | panic w => exact absurd rfl (hnp w)
        | stuck w => exact toSafe_stuck _ _ _
        | ok r => obtain ⟨v, ds, hs⟩ := r; exact toSafe_ok_set _ _ _ v rfl
      | prim _ => exact toSafe_ok_same _ _ _ rfl
      | list _ => exact toSafe_ok_same _ _ _ rfl
      | map _ => exact toSafe_ok_same _ _ _ rfl
      | other _ => exact toSafe_ok_same _ _ _ rfl
    | custom =>
      simp only []
      have hnp := readField_noPanic info obj0
      cases hr : readField info obj0 with
      | panic w => exact absurd hr (hnp w)
      | stuck w => exact toSafe_stuck _ _ _
      | ok x =>
        simp only []
        cases hookTo info.isRepeated x with
        | none => exact toSafe_stuck _ _ _
        | some v => exact toSafe_ok_set _ _ _ v rfl
    | primitiveList =>
      simp only [hk] at hfa
      simp only []
      have hnp := readField_noPanic info obj0
      cases a with
      | list e =>
        simp only []
        split
        · exact toSafe_ok_same _ _ _ rfl
        · rename_i ety heq
          have he : ety = e := by
            split at heq
            · injection heq with heq; exact heq.symm
            · cases heq
          subst he
          cases hr : readField info obj0 with
          | panic w => exact absurd hr (hnp w)
          | stuck w => exact toSafe_stuck _ _ _
          | ok src => exact listOrMapBody_safe rec P hrec info msg se obj0 ety src st (hfa ety (Or.inl rfl))
      | map e =>
        simp only []
        split
        · exact toSafe_ok_same _ _ _ rfl
        · rename_i ety heq
          have he : ety = e := by
            split at heq
            · cases heq
            · injection heq with heq; exact heq.symm
          subst he
          cases hr : readField info obj0 with
          | panic w => exact absurd hr (hnp w)
          | stuck w => exact toSafe_stuck _ _ _
          | ok src => exact listOrMapBody_safe rec P hrec info msg se obj0 ety src st (hfa ety (Or.inr rfl))
      | prim _ => exact toSafe_ok_same _ _ _ rfl
      | obj _ => exact toSafe_ok_same _ _ _ rfl
      | other _ => exact toSafe_ok_same _ _ _ rfl
    | objectList =>
      simp only [hk] at hfa
      simp only []
      have hnp := readField_noPanic info obj0
      cases a with
      | list e =>
        simp only []
        split
        · exact toSafe_ok_same _ _ _ rfl
        · rename_i ety heq
          have he : ety = e := by
            split at heq
            · injection heq with heq; exact heq.symm
            · cases heq
          subst he
          cases hr : readField info obj0 with
          | panic w => exact absurd hr (hnp w)
          | stuck w => exact toSafe_stuck _ _ _
          | ok src => exact listOrMapBody_safe rec P hrec info msg se obj0 ety src st (hfa ety (Or.inl rfl))
      | map e =>
        simp only []
        split
        · exact toSafe_ok_same _ _ _ rfl
        · rename_i ety heq
          have he : ety = e := by
            split at heq
            · cases heq
            · injection heq with heq; exact heq.symm
          subst he
          cases hr : readField info obj0 with
          | panic w => exact absurd hr (hnp w)
          | stuck w => exact toSafe_stuck _ _ _
          | ok src => exact listOrMapBody_safe rec P hrec info msg se obj0 ety src st (hfa ety (Or.inr rfl))
      | prim _ => exact toSafe_ok_same _ _ _ rfl
      | obj _ => exact toSafe_ok_same _ _ _ rfl
      | other _ => exact toSafe_ok_same _ _ _ rfl
    | primitiveMap =>
      simp only [hk] at hfa
      simp only []
      have hnp := readField_noPanic info obj0
      cases a with
      | list e =>
        simp only []
        split
        · exact toSafe_ok_same _ _ _ rfl
        · rename_i ety heq
          have he : ety = e := by
            split at heq
            · injection heq with heq; exact heq.symm
            · cases heq
          subst he
          cases hr : readField info obj0 with
          | panic w => exact absurd hr (hnp w)
          | stuck w => exact toSafe_stuck _ _ _
          | ok src => exact listOrMapBody_safe rec P hrec info msg se obj0 ety src st (hfa ety (Or.inl rfl))
      | map e =>
        simp only []
        split
        · exact toSafe_ok_same _ _ _ rfl
        · rename_i ety heq
          have he : ety = e := by
            split at heq
            · cases heq
            · injection heq with heq; exact heq.symm
          subst he
          cases hr : readField info obj0 with
          | panic w => exact absurd hr (hnp w)
          | stuck w => exact toSafe_stuck _ _ _
          | ok src => exact listOrMapBody_safe rec P hrec info msg se obj0 ety src st (hfa ety (Or.inr rfl))
      | prim _ => exact toSafe_ok_same _ _ _ rfl
      | obj _ => exact toSafe_ok_same _ _ _ rfl
      | other _ => exact toSafe_ok_same _ _ _ rfl
    | objectMap =>
      simp only [hk] at hfa
      simp only []
      have hnp := readField_noPanic info obj0
      cases a with
      | list e =>
        simp only []
        split
        · exact toSafe_ok_same _ _ _ rfl
        · rename_i ety heq
          have he : ety = e := by
            split at heq
            · injection heq with heq; exact heq.symm
            · cases heq
          subst he
          cases hr : readField info obj0 with
          | panic w => exact absurd hr (hnp w)
          | stuck w => exact toSafe_stuck _ _ _
          | ok src => exact listOrMapBody_safe rec P hrec info msg se obj0 ety src st (hfa ety (Or.inl rfl))
      | map e =>
        simp only []
        split
        · exact toSafe_ok_same _ _ _ rfl
        · rename_i ety heq
          have he : ety = e := by
            split at heq
            · cases heq
            · injection heq with heq; exact heq.symm
          subst he
          cases hr : readField info obj0 with
          | panic w => exact absurd hr (hnp w)
          | stuck w => exact toSafe_stuck _ _ _
          | ok src => exact listOrMapBody_safe rec P hrec info msg se obj0 ety src st (hfa ety (Or.inr rfl))
      | prim _ => exact toSafe_ok_same _ _ _ rfl
      | obj _ => exact toSafe_ok_same _ _ _ rfl
      | other _ => exact toSafe_ok_same _ _ _ rfl

theorem fieldTyOK_of_tyOK (info : FieldInfo) (mv : Option FieldInfo) (msg : Option MsgInfo) (sub : List Field) (ty : TfTy)
    (h : TyOK ⟨info, mv, msg, sub⟩ ty) : FieldTyOK info (TysOK sub) ty := by
  unfold TyOK at h
  unfold FieldTyOK
  cases hk : info.kind <;> simp only [hk] at h ⊢
  · intro e he; unfold ElemTyOK; simp only [hk]; exact h e he
  · exact h
  · intro e he; unfold ElemTyOK; simp only [hk]; simpa using h e he
  · intro e he; unfold ElemTyOK; simp only [hk]; exact h e he
  · intro e he; unfold ElemTyOK; simp only [hk]; simpa using h e he

mutual

theorem toFields_safe : ∀ (fs : List Field) (obj : GoVal) (atys : Option (List (String × TfTy))) (st : ToSt),
    TysOK fs atys → (∀ f ∈ fs, st.attrs.lookup f.info.nameSnake = none) → NoPanic (copyToFields fs obj atys st)
  | [], _, _, _, _, _ => by intro w; simp [copyToFields]
  | f :: rest, obj, atys, st, hok, hnone => by
    unfold TysOK at hok
    obtain ⟨hf, hnotin, hrest⟩ := hok
    have h1 := toField_safe f obj atys st hf (hnone f (by simp))
    intro w
    simp only [copyToFields]
    cases hs : copyToField f obj atys st with
    | panic w' => exact absurd hs (h1.1 w')
    | stuck w' => simp
    | ok st' =>
      simp only []
      refine toFields_safe rest obj atys st' hrest ?_ w
      intro g hg
      have hne : g.info.nameSnake ≠ f.info.nameSnake := by
        intro e
        exact hnotin (by rw [← e]; exact List.mem_map_of_mem hg)
      rw [h1.2 st' hs _ hne]
      exact hnone g (by simp [hg])

theorem toField_safe : ∀ (f : Field) (obj : GoVal) (atys : Option (List (String × TfTy))) (st : ToSt),
    (∀ ty, (atys.getD []).lookup f.info.nameSnake = some ty → TyOK f ty) → st.attrs.lookup f.info.nameSnake = none →
    ToSafe f.info.nameSnake st (copyToField f obj atys st)
  | ⟨info, mv, msg, sub⟩, obj, atys, st, hty, hcur => by
    simp only [copyToField]
    apply toFieldWith_safe (P := TysOK sub)
    · intro o as ds hs hP
      exact toFields_safe sub o as _ hP (by intro g _; simp [List.lookup])
    · exact hcur
    · intro ty hl
      exact fieldTyOK_of_tyOK info mv msg sub ty (hty ty hl)

end

/-- **`Copy<T>ToTerraform` never panics on a target that carries types and no values**: every IR, every struct value,
every sub-family of the attribute types (at every depth) whose list / map element types are well formed. -/
theorem copyTo_noPanic (m : Msg) (obj : GoVal) (u n : Bool) (atys : Option (List (String × TfTy)))
    (h : TysOK m.fields atys) (w : String) : copyTo m obj (.obj u n none atys) ≠ .panic w := by
  unfold copyTo
  simp only [Option.getD]
  have := toFields_safe m.fields obj atys { attrs := [] } h (by intro f _; simp [List.lookup])
  cases hr : copyToFields m.fields obj atys { attrs := [] } with
  | panic w' => exact absurd hr (this w')
  | stuck w' => simp
  | ok st => simp

end PGT
