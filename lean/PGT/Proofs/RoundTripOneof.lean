import PGT.Proofs.RoundTrip
import PGT.Proofs.FromOneof
/-
C04 with oneof groups: the round trip CopyTo ; CopyFrom for messages whose fields are the templates of the plain tree
*and* branches of oneof groups (scalar branches and message branches), at every nesting depth.
A oneof whose payload is the zero value reads back as unset (the documented normal form).
-/
namespace PGT
open PGT.Spec PGT.Props

/-- the holder of the branch's group, if it holds this branch's wrapper, holds it under this branch's field name -/
def HolderWF (info : FieldInfo) (obj : GoVal) : Prop :=
  ∀ w fn p, obj.field? info.oneOfName = some (.iface (some (w, fn, p))) → w = lastSegment info.oneOfType → fn = info.name

/-- what CopyTo reads for a branch: the payload when the branch is active, else the zero value -/
theorem getVal_branch (info : FieldInfo) (obj : GoVal) (ho : info.oneOfName ≠ "") (he : info.parentIsOptionalEmbed = false)
    (hw : HolderWF info obj) : getVal info obj = (activePayload info obj).getD (zeroGoOf info) := by
  have hob : (info.oneOfName != "") = true := by simpa using ho
  have hoe : (info.oneOfName == "") = false := by simpa using ho
  unfold getVal
  simp only [he, Bool.false_eq_true, if_false, hob, if_true]
  unfold oneOfShadow activePayload
  simp only [hoe, Bool.false_eq_true, if_false]
  cases hf : obj.field? info.oneOfName with
  | none => simp [GoVal.field?, List.lookup]
  | some v =>
    cases v with
    | iface o =>
      cases o with
      | none => simp [GoVal.field?, List.lookup]
      | some t =>
        obtain ⟨w, fn, payload⟩ := t
        by_cases hwm : (w == lastSegment info.oneOfType) = true
        · have hfn : fn = info.name := hw w fn payload hf (by simpa using hwm)
          subst hfn
          simp [hwm, GoVal.field?, List.lookup]
        · simp [hwm, GoVal.field?, List.lookup]
    | sc _ => simp [GoVal.field?, List.lookup]
    | ptr _ => simp [GoVal.field?, List.lookup]
    | struct _ => simp [GoVal.field?, List.lookup]
    | slice _ => simp [GoVal.field?, List.lookup]
    | map _ => simp [GoVal.field?, List.lookup]

/-- a scalar branch: a zero value (which is what an inactive branch reads as) renders null and is not read back; a non-zero
value is read back into the branch's wrapper -/
theorem fieldWith_prim_branch (rec : FromRec) (ov : List (String × String)) (info : FieldInfo) (mv : Option FieldInfo)
    (msg : Option MsgInfo) (attrs : Option (List (String × TfVal))) (st : FromSt) (a : TfVal) (x : GoVal)
    (hk : info.kind = .primitive) (ho : info.oneOfName ≠ "") (he : info.parentIsOptionalEmbed = false)
    (hn : info.isNullable = false) (hz : info.tf.zeroValue ≠ "")
    (k : PrimK) (hrt : PrimRT info k) (hvt : vkindOf info.tf.valueType = .prim k) (hx : PrimVal info x)
    (hl : (attrs.getD []).lookup info.nameSnake = some a) (hr : primRenders info x a = true) :
    ∃ s, x = .sc s ∧
      ((scIsZero s = true ∧ copyFromFieldWith rec ov info mv msg attrs st = .ok st) ∨
       (scIsZero s = false ∧ ∃ y, copyFromFieldWith rec ov info mv msg attrs st =
            .ok { st with obj := st.obj.setField info.oneOfName (.iface (some (lastSegment info.oneOfType, info.name, y))) } ∧
          primNfEq false x y = true)) := by
  have hob : (info.oneOfName != "") = true := by simpa using ho
  cases a with
  | prim k' u n p =>
    obtain ⟨rfl, y, hd, hy⟩ := primDecode_renders info k hrt x hx k' u n p hr
    unfold PrimVal at hx
    simp only [hn, Bool.false_eq_true, if_false] at hx hy
    obtain ⟨s, rfl, hs⟩ := hx
    refine ⟨s, rfl, ?_⟩
    -- null-ness of the rendering is the zero test
    have hnz : u = false ∧ n = scIsZero s := by
      unfold primRenders at hr
      have hzv : (info.tf.zeroValue != "") = true := by simpa using hz
      simp only [hn, Bool.false_eq_true, if_false, hzv, if_true, Bool.and_eq_true, Bool.not_eq_true', beq_iff_eq] at hr
      exact ⟨hr.1.1, hr.2.2⟩
    obtain ⟨hu, hnn⟩ := hnz
    subst hu
    cases hzs : scIsZero s with
    | true =>
      left
      refine ⟨rfl, ?_⟩
      rw [hzs] at hnn
      subst hnn
      unfold copyFromFieldWith
      simp [hk, hl, TfVal.vkind, hvt, embedGuard_plain info _ _ he, hd, hob, known]
    | false =>
      right
      refine ⟨rfl, y, ?_, hy⟩
      rw [hzs] at hnn
      subst hnn
      unfold copyFromFieldWith
      simp [hk, hl, TfVal.vkind, hvt, embedGuard_plain info _ _ he, hd, hob, known]
  | list _ _ _ _ => simp [primRenders] at hr
  | map _ _ _ _ => simp [primRenders] at hr
  | obj _ _ _ _ => simp [primRenders] at hr
  | nilv => simp [primRenders] at hr
  | foreign _ => simp [primRenders] at hr

/-- a message branch (pointer): nil (which is what an inactive branch reads as) renders null and is not read back; a non-nil
message is read back into the branch's wrapper -/
theorem fieldWith_obj_branch (rec : FromRec) (ov : List (String × String)) (info : FieldInfo) (mv : Option FieldInfo)
    (msg : Option MsgInfo) (sub : List Field) (attrs : Option (List (String × TfVal))) (st : FromSt) (a : TfVal) (x : GoVal)
    (P : GoVal → Prop) (hrec : RecReads rec sub P)
    (hk : info.kind = .object) (ho : info.oneOfName ≠ "") (he : info.parentIsOptionalEmbed = false)
    (hn : info.isNullable = true) (hem : EmptyOK msg sub) (hvt : vkindOf info.tf.valueType = .obj)
    (hx : MsgTyped true P x)
    (hl : (attrs.getD []).lookup info.nameSnake = some a)
    (hr : objRenders true (fun o as => rendersFields sub o as) x a = true) :
    (x = .ptr none ∧ copyFromFieldWith rec ov info mv msg attrs st = .ok st) ∨
    (∃ fs o, x = .ptr (some (.struct fs)) ∧ copyFromFieldWith rec ov info mv msg attrs st =
        .ok { st with obj := st.obj.setField info.oneOfName (.iface (some (lastSegment info.oneOfType, info.name, .ptr (some o)))) } ∧
      nfEqFields sub (.struct fs) (structOf (.ptr (some o))) = true) := by
  have hoe : (info.oneOfName == "") = false := by simpa using ho
  cases a with
  | obj u n as atys =>
    unfold objRenders at hr
    simp only [if_true, Bool.and_eq_true, Bool.not_eq_true', beq_iff_eq, Bool.or_eq_true] at hr
    obtain ⟨hu, hnn, hR⟩ := hr
    subst hu
    unfold MsgTyped at hx
    simp only [if_true] at hx
    rcases hx with rfl | ⟨fs, rfl, hP⟩
    · left
      have : n = true := by simpa [isNilPtr] using hnn
      subst this
      refine ⟨rfl, ?_⟩
      unfold copyFromFieldWith
      simp [hk, hl, TfVal.vkind, hvt, embedGuard_plain info _ _ he, hoe, known]
    · right
      have : n = false := by simpa [isNilPtr] using hnn
      subst this
      have hR' : rendersFields sub (.struct fs) (as.getD []) = true := by simpa [isNilPtr, structOf] using hR
      cases hE : isEmptyMsg msg with
      | true =>
        refine ⟨fs, .struct [], rfl, ?_, ?_⟩
        · unfold copyFromFieldWith
          simp [hk, hl, TfVal.vkind, hvt, embedGuard_plain info _ _ he, hoe, known, hE]
        · exact nfEqFields_placeholders sub _ _ (hem hE)
      | false =>
        obtain ⟨o, hrun, _, hnf⟩ := hrec (.struct fs) as st.diags st.hooks hR' hP
        refine ⟨fs, o, rfl, ?_, by simpa [structOf] using hnf⟩
        unfold copyFromFieldWith
        simp [hk, hl, TfVal.vkind, hvt, embedGuard_plain info _ _ he, hoe, known, hE, hrun]
  | prim _ _ _ _ => simp [objRenders] at hr
  | list _ _ _ _ => simp [objRenders] at hr
  | map _ _ _ _ => simp [objRenders] at hr
  | nilv => simp [objRenders] at hr
  | foreign _ => simp [objRenders] at hr

-- ------------------------------------------------------------------------------------------------------
-- hypotheses on the IR and the value (plain tree + oneof branches)

/-- the Go field a block assigns: the field itself, or the holder of its oneof group -/
def wkey (info : FieldInfo) : String := if info.oneOfName = "" then info.name else info.oneOfName

/-- two fields of one message do not interfere: they assign different Go fields, unless they are branches of the same
group – then their wrapper types differ -/
def SepOK (f g : FieldInfo) : Prop :=
  wkey f = wkey g → f.oneOfName ≠ "" ∧ g.oneOfName = f.oneOfName ∧ lastSegment f.oneOfType ≠ lastSegment g.oneOfType

mutual
def RT2OK : Field → GoVal → Prop
  | ⟨info, mapVal, msg, sub⟩, obj =>
    info.parentIsOptionalEmbed = false ∧ EmptyOK msg sub ∧
    (info.isPlaceholder = true → info.kind = .primitive ∧ info.oneOfName = "") ∧
    ((info.oneOfName = "" ∧
      match info.kind with
      | .primitive =>
        info.isPlaceholder = true ∨
          ∃ k, PrimRT info k ∧ vkindOf info.tf.valueType = .prim k ∧ PrimVal info (getVal info obj)
      | .object =>
        vkindOf info.tf.valueType = .obj ∧ MsgTyped info.isNullable (fun s => RT2OKs sub s) (getVal info obj)
      | .primitiveList =>
        vkindOf info.tf.valueType = .list ∧ info.isPlaceholder = false ∧
          ∃ k, PrimRT info k ∧ ∀ e ∈ sliceElems (getVal info obj), PrimVal info e
      | .objectList =>
        vkindOf info.tf.valueType = .list ∧ vkindOf info.tf.elemValueType = .obj ∧
          ∀ e ∈ sliceElems (getVal info obj), MsgTyped info.isNullable (fun s => RT2OKs sub s) e
      | .primitiveMap =>
        vkindOf info.tf.valueType = .map ∧ info.isPlaceholder = false ∧
          (mapVal.getD info).tf.elemValueType = info.tf.elemValueType ∧
          ((mapElems (getVal info obj)).map (·.1)).Nodup ∧
          ∃ k, PrimRT info k ∧ ∀ e ∈ mapElems (getVal info obj), PrimVal info e.2
      | .objectMap =>
        vkindOf info.tf.valueType = .map ∧ vkindOf (mapVal.getD info).tf.elemValueType = .obj ∧
          ((mapElems (getVal info obj)).map (·.1)).Nodup ∧
          ∀ e ∈ mapElems (getVal info obj), MsgTyped info.isNullable (fun s => RT2OKs sub s) e.2
      | .custom => False) ∨
     (info.oneOfName ≠ "" ∧ HolderWF info obj ∧
      match info.kind with
      | .primitive =>
        info.isNullable = false ∧ info.tf.zeroValue ≠ "" ∧
          ∃ k, PrimRT info k ∧ vkindOf info.tf.valueType = .prim k ∧ PrimVal info (getVal info obj)
      | .object =>
        info.isNullable = true ∧ vkindOf info.tf.valueType = .obj ∧
          MsgTyped true (fun s => RT2OKs sub s) (getVal info obj)
      | _ => False))

def RT2OKs : List Field → GoVal → Prop
  | [], _ => True
  | f :: rest, obj => RT2OK f obj ∧ (∀ g ∈ rest, SepOK f.info g.info) ∧ RT2OKs rest obj
end

/-- a branch that contributes nothing: it reads as the zero value (inactive, or active with a zero payload) -/
def BranchIdle (f : Field) (obj : GoVal) : Prop :=
  match f.info.kind with
  | .primitive => ∃ s, getVal f.info obj = .sc s ∧ scIsZero s = true
  | .object => getVal f.info obj = .ptr none
  | _ => False

/-- the holder `h` carries branch `f` read back from `obj` -/
def BranchSet (f : Field) (obj : GoVal) (h : Option GoVal) : Prop :=
  match f with
  | ⟨info, _, _, sub⟩ =>
    match info.kind with
    | .primitive =>
      ∃ s y, getVal info obj = .sc s ∧ scIsZero s = false ∧
        h = some (.iface (some (lastSegment info.oneOfType, info.name, y))) ∧ primNfEq false (.sc s) y = true
    | .object =>
      ∃ fs o, getVal info obj = .ptr (some (.struct fs)) ∧
        h = some (.iface (some (lastSegment info.oneOfType, info.name, .ptr (some o)))) ∧ nfEqFields sub (.struct fs) o = true
    | _ => False

/-- the holder of group `g` after the blocks of `fs`: set by a non-idle branch, or every branch of the group in `fs` is idle
and the holder is what it was -/
def HolderSpec (g : String) (fs : List Field) (obj o0 o : GoVal) : Prop :=
  (∃ f0 ∈ fs, f0.info.oneOfName = g ∧ BranchSet f0 obj (o.field? g)) ∨
  ((∀ f ∈ fs, f.info.oneOfName = g → BranchIdle f obj) ∧ o.field? g = o0.field? g)

-- ------------------------------------------------------------------------------------------------------
-- from the holder specification to the comparison of C04

theorem scIsZero_zeroOfRep (r : GoRep) : scIsZero (zeroOfRep r) = true := by
  cases r <;> simp [zeroOfRep, scIsZero] <;> decide

theorem nan32_nonzero (x : BitVec 32) (h : F.isNaN32 x = true) : ((x &&& 0x7fffffff#32) == 0#32) = false := by
  unfold F.isNaN32 at h
  simp only [Bool.and_eq_true, bne_iff_ne, ne_eq] at h
  simp only [beq_eq_false_iff_ne, ne_eq]
  intro hz
  apply h.2
  have : x &&& 0x7fffff#32 = (x &&& 0x7fffffff#32) &&& 0x7fffff#32 := by
    rw [BitVec.and_assoc]
    congr 1
  rw [this, hz]
  simp

theorem nan64_nonzero (x : BitVec 64) (h : F.isNaN64 x = true) : F.isZero64 x = false := by
  unfold F.isNaN64 at h
  unfold F.isZero64
  simp only [Bool.and_eq_true, bne_iff_ne, ne_eq] at h
  simp only [beq_eq_false_iff_ne, ne_eq]
  intro hz
  apply h.2
  have : x &&& 0xfffffffffffff#64 = (x &&& 0x7fffffffffffffff#64) &&& 0xfffffffffffff#64 := by
    rw [BitVec.and_assoc]
    congr 1
  rw [this, hz]
  simp

theorem scNfEq_isZero (a b : Sc) (h : scNfEq a b = true) : scIsZero a = scIsZero b := by
  cases a <;> cases b <;> simp only [scNfEq] at h <;> try (simp at h)
  all_goals first
    | (subst h; rfl)
    | (simp only [scIsZero]; simp_all; done)
    | skip
  · rename_i x y
    rcases h with (h | ⟨h1, h2⟩) | ⟨h1, h2⟩
    · subst h; rfl
    · simp only [scIsZero] at h1 h2 ⊢; rw [h1, h2]
    · simp only [scIsZero]
      have e1 := nan32_nonzero x h1
      have e2 := nan32_nonzero y h2
      exact e1.trans e2.symm
  · rename_i x y
    rcases h with (h | ⟨h1, h2⟩) | ⟨h1, h2⟩
    · subst h; rfl
    · simp only [scIsZero]; rw [h1, h2]
    · simp only [scIsZero]; rw [nan64_nonzero x h1, nan64_nonzero y h2]

/-- two members of a well-separated field list that are branches of the same group are the same field or have different wrappers -/
theorem mem_sep : ∀ (fs : List Field) (obj : GoVal), RT2OKs fs obj → ∀ f ∈ fs, ∀ f0 ∈ fs,
    f.info.oneOfName ≠ "" → f0.info.oneOfName = f.info.oneOfName →
    f = f0 ∨ lastSegment f.info.oneOfType ≠ lastSegment f0.info.oneOfType
  | [], _, _, f, hf, _, _, _, _ => by simp at hf
  | x :: rest, obj, hok, f, hf, f0, hf0, hne, hsame => by
    unfold RT2OKs at hok
    obtain ⟨_, hsep, hrest⟩ := hok
    simp only [List.mem_cons] at hf hf0
    have hwk : ∀ (a b : FieldInfo), a.oneOfName ≠ "" → b.oneOfName = a.oneOfName → wkey a = wkey b := by
      intro a b ha hb
      have hb' : b.oneOfName ≠ "" := by rw [hb]; exact ha
      simp [wkey, ha, hb', hb]
    rcases hf with rfl | hf <;> rcases hf0 with rfl | hf0
    · exact Or.inl rfl
    · right
      exact (hsep f0 hf0 (hwk _ _ hne hsame)).2.2
    · right
      have hne0 : f0.info.oneOfName ≠ "" := by rw [hsame]; exact hne
      have := (hsep f hf (hwk _ _ hne0 hsame.symm)).2.2
      exact fun e => this e.symm
    · exact mem_sep rest obj hrest f hf f0 hf0 hne hsame

theorem activePayload_field (info : FieldInfo) (b : GoVal) (w fn : String) (p : GoVal)
    (h : b.field? info.oneOfName = some (.iface (some (w, fn, p)))) :
    activePayload info b = if w == lastSegment info.oneOfType then some p else none := by
  unfold activePayload
  simp [h]

theorem activePayload_init (info : FieldInfo) (b : GoVal)
    (h : b.field? info.oneOfName = none ∨ b.field? info.oneOfName = some (.iface none)) : activePayload info b = none := by
  unfold activePayload
  rcases h with h | h <;> simp [h]

/-- if a branch reads a non-default value, it is the active branch: the holder carries its wrapper -/
theorem holder_of_getVal (info : FieldInfo) (obj : GoVal) (ho : info.oneOfName ≠ "") (he : info.parentIsOptionalEmbed = false)
    (hw : HolderWF info obj) (h : getVal info obj ≠ zeroGoOf info) :
    ∃ fn, obj.field? info.oneOfName = some (.iface (some (lastSegment info.oneOfType, fn, getVal info obj))) := by
  have hg := getVal_branch info obj ho he hw
  unfold activePayload at hg
  cases hf : obj.field? info.oneOfName with
  | none => simp [hf] at hg; exact absurd hg h
  | some v =>
    cases v with
    | iface o =>
      cases o with
      | none => simp [hf] at hg; exact absurd hg h
      | some t =>
        obtain ⟨w, fn, payload⟩ := t
        simp only [hf] at hg
        by_cases hwm : (w == lastSegment info.oneOfType) = true
        · simp only [hwm, if_true, Option.getD] at hg
          have : w = lastSegment info.oneOfType := by simpa using hwm
          subst this
          exact ⟨fn, by rw [hg]⟩
        · simp [hwm] at hg
          exact absurd hg h
    | sc _ => simp [hf] at hg; exact absurd hg h
    | ptr _ => simp [hf] at hg; exact absurd hg h
    | struct _ => simp [hf] at hg; exact absurd hg h
    | slice _ => simp [hf] at hg; exact absurd hg h
    | map _ => simp [hf] at hg; exact absurd hg h

theorem rt2oks_mem : ∀ (fs : List Field) (obj : GoVal), RT2OKs fs obj → ∀ f ∈ fs, RT2OK f obj
  | [], _, _, f, hf => by simp at hf
  | x :: rest, obj, hok, f, hf => by
    unfold RT2OKs at hok
    rcases List.mem_cons.1 hf with rfl | hf
    · exact hok.1
    · exact rt2oks_mem rest obj hok.2.2 f hf

/-- what the typing judgement says about a branch -/
structure BranchFacts (f : Field) (obj : GoVal) : Prop where
  he : f.info.parentIsOptionalEmbed = false
  hw : HolderWF f.info obj
  kind : (f.info.kind = .primitive ∧ f.info.isNullable = false ∧ ∃ s, getVal f.info obj = .sc s) ∨
         (f.info.kind = .object ∧ f.info.isNullable = true ∧
            (getVal f.info obj = .ptr none ∨ ∃ fs, getVal f.info obj = .ptr (some (.struct fs))))

theorem branchFacts_of (f : Field) (obj : GoVal) (h : RT2OK f obj) (ho : f.info.oneOfName ≠ "") : BranchFacts f obj := by
  obtain ⟨info, mv, msg, sub⟩ := f
  unfold RT2OK at h
  obtain ⟨he, _, _, hcase⟩ := h
  rcases hcase with ⟨h0, _⟩ | ⟨_, hw, hm⟩
  · exact absurd h0 ho
  · refine ⟨he, hw, ?_⟩
    cases hk : info.kind <;> simp only [hk] at hm
    · obtain ⟨hn, _, k, _, _, hv⟩ := hm
      left
      unfold PrimVal at hv
      simp only [hn, Bool.false_eq_true, if_false] at hv
      obtain ⟨s, hs, _⟩ := hv
      exact ⟨rfl, hn, s, hs⟩
    · obtain ⟨hn, _, hv⟩ := hm
      right
      unfold MsgTyped at hv
      simp only [if_true] at hv
      refine ⟨rfl, hn, ?_⟩
      rcases hv with hv | ⟨fs, hv, _⟩
      · exact Or.inl hv
      · exact Or.inr ⟨fs, hv⟩

/-- the source side of the comparison, scalar branch -/
theorem px_prim (f : Field) (obj : GoVal) (ho : f.info.oneOfName ≠ "") (bf : BranchFacts f obj)
    (hk : f.info.kind = .primitive) (hn : f.info.isNullable = false) (s : Sc) (hv : getVal f.info obj = .sc s) :
    (activePayload f.info obj).filter (fun p => !primIsZero p) = if scIsZero s then none else some (.sc s) := by
  have hg := getVal_branch f.info obj ho bf.he bf.hw
  rw [hv] at hg
  cases hap : activePayload f.info obj with
  | none =>
    simp only [hap, Option.getD, zeroGoOf, hk, hn, Bool.false_eq_true, if_false] at hg
    injection hg with hg
    subst hg
    simp [scIsZero_zeroOfRep]
  | some p =>
    simp only [hap, Option.getD] at hg
    subst hg
    cases hz : scIsZero s <;> simp [Option.filter, primIsZero, hz]

/-- the source side of the comparison, message branch -/
theorem px_obj (f : Field) (obj : GoVal) (ho : f.info.oneOfName ≠ "") (bf : BranchFacts f obj)
    (hk : f.info.kind = .object) (hn : f.info.isNullable = true) :
    (activePayload f.info obj).filter (fun p => !isNilPtr p) =
      if isNilPtr (getVal f.info obj) then none else some (getVal f.info obj) := by
  have hg := getVal_branch f.info obj ho bf.he bf.hw
  cases hap : activePayload f.info obj with
  | none =>
    simp only [hap, Option.getD, zeroGoOf, hk, hn, if_true] at hg
    rw [hg]
    simp [isNilPtr]
  | some p =>
    simp only [hap, Option.getD] at hg
    rw [hg]
    cases hz : isNilPtr p <;> simp [Option.filter, hz]

/-- the group's holder is unset in the target before the round trip's CopyFrom -/
def InitNone (o0 : GoVal) (g : String) : Prop := o0.field? g = none ∨ o0.field? g = some (.iface none)

theorem idle_of_inactive (f : Field) (obj : GoVal) (ho : f.info.oneOfName ≠ "") (bf : BranchFacts f obj)
    (hap : activePayload f.info obj = none) : BranchIdle f obj := by
  have hg := getVal_branch f.info obj ho bf.he bf.hw
  simp only [hap, Option.getD] at hg
  unfold BranchIdle
  rcases bf.kind with ⟨hk, hn, _⟩ | ⟨hk, hn, _⟩
  · simp only [hk]
    exact ⟨zeroOfRep f.info.rep, by rw [hg]; simp [zeroGoOf, hk, hn], scIsZero_zeroOfRep _⟩
  · simp only [hk]
    rw [hg]; simp [zeroGoOf, hk, hn]

theorem set_nonzero (f : Field) (obj : GoVal) (h : Option GoVal) (bf : BranchFacts f obj) (hs : BranchSet f obj h) :
    getVal f.info obj ≠ zeroGoOf f.info ∧ ∃ y, h = some (.iface (some (lastSegment f.info.oneOfType, f.info.name, y))) := by
  obtain ⟨info, mv, msg, sub⟩ := f
  unfold BranchSet at hs
  rcases bf.kind with ⟨hk, hn, _⟩ | ⟨hk, hn, _⟩
  · simp only at hk hn
    simp only [hk] at hs
    obtain ⟨s, y, hv, hz, hh, _⟩ := hs
    refine ⟨?_, y, hh⟩
    simp only [hv, zeroGoOf, hk, hn, Bool.false_eq_true, if_false]
    intro e
    injection e with e
    rw [e, scIsZero_zeroOfRep] at hz
    exact Bool.noConfusion hz
  · simp only at hk hn
    simp only [hk] at hs
    obtain ⟨fs, o, hv, hh, _⟩ := hs
    refine ⟨?_, _, hh⟩
    simp [hv, zeroGoOf, hk, hn]

theorem nfEq_of_idle (f : Field) (obj o : GoVal) (ho : f.info.oneOfName ≠ "") (bf : BranchFacts f obj)
    (hi : BranchIdle f obj) (hap : activePayload f.info o = none) : nfEqField f obj o = true := by
  have hob : (f.info.oneOfName != "") = true := by simpa using ho
  rcases bf.kind with ⟨hk, hn, s, hv⟩ | ⟨hk, hn, _⟩
  · have hpx := px_prim f obj ho bf hk hn s hv
    unfold BranchIdle at hi
    simp only [hk] at hi
    obtain ⟨s', hv', hz⟩ := hi
    rw [hv] at hv'
    injection hv' with hv'
    subst hv'
    obtain ⟨info, mv, msg, sub⟩ := f
    simp only at hk hn hob hpx hap
    unfold nfEqField
    simp only [hob, if_true, hk]
    rw [hpx, hap]
    simp [hz, Option.filter]
  · have hpx := px_obj f obj ho bf hk hn
    unfold BranchIdle at hi
    simp only [hk] at hi
    obtain ⟨info, mv, msg, sub⟩ := f
    simp only at hk hn hob hpx hap hi
    unfold nfEqField
    simp only [hob, if_true, hk]
    rw [hpx, hap, hi]
    simp [isNilPtr, Option.filter]

theorem nfEq_of_set (f : Field) (obj o : GoVal) (ho : f.info.oneOfName ≠ "") (bf : BranchFacts f obj)
    (hs : BranchSet f obj (o.field? f.info.oneOfName)) : nfEqField f obj o = true := by
  have hob : (f.info.oneOfName != "") = true := by simpa using ho
  rcases bf.kind with ⟨hk, hn, s0, hv0⟩ | ⟨hk, hn, _⟩
  · have hpx := px_prim f obj ho bf hk hn
    obtain ⟨info, mv, msg, sub⟩ := f
    simp only at hk hn hob hpx hs
    unfold BranchSet at hs
    simp only [hk] at hs
    obtain ⟨s, y, hv, hz, hh, hnf⟩ := hs
    have hpx := hpx s hv
    have hap := activePayload_field info o _ _ _ hh
    simp only [beq_self_eq_true, if_true] at hap
    unfold primNfEq at hnf
    simp only [Bool.false_eq_true, if_false] at hnf
    cases y with
    | sc t =>
      simp only at hnf
      have hzt : scIsZero t = false := by rw [← scNfEq_isZero s t hnf]; exact hz
      unfold nfEqField
      simp only [hob, if_true, hk]
      rw [hpx, hap]
      simp only [hz, Option.filter, primIsZero, hzt, Bool.not_false, Bool.false_eq_true, if_false, if_true]
      unfold primNfEq
      simp only [hn, Bool.false_eq_true, if_false]
      exact hnf
    | ptr _ => simp at hnf
    | struct _ => simp at hnf
    | slice _ => simp at hnf
    | map _ => simp at hnf
    | iface _ => simp at hnf
  · have hpx := px_obj f obj ho bf hk hn
    obtain ⟨info, mv, msg, sub⟩ := f
    simp only at hk hn hob hpx hs
    unfold BranchSet at hs
    simp only [hk] at hs
    obtain ⟨fs, o', hv, hh, hnf⟩ := hs
    have hap := activePayload_field info o _ _ _ hh
    simp only [beq_self_eq_true, if_true] at hap
    unfold nfEqField
    simp only [hob, if_true, hk]
    rw [hpx, hap, hv]
    simp only [Option.filter, isNilPtr, Bool.not_false, Bool.false_eq_true, if_false, if_true, structOf]
    exact hnf

/-- from the specification of the holder after the CopyFrom blocks to the comparison of the branch -/
theorem branch_nfEq (fs : List Field) (obj o0 o : GoVal) (hok : RT2OKs fs obj) (f : Field) (hf : f ∈ fs)
    (ho : f.info.oneOfName ≠ "") (hinit : InitNone o0 f.info.oneOfName)
    (hspec : HolderSpec f.info.oneOfName fs obj o0 o) : nfEqField f obj o = true := by
  have bf := branchFacts_of f obj (rt2oks_mem fs obj hok f hf) ho
  rcases hspec with ⟨f0, hf0, hg0, hset⟩ | ⟨hidle, hsame⟩
  · rcases mem_sep fs obj hok f hf f0 hf0 ho hg0 with rfl | hne
    · exact nfEq_of_set f obj o ho bf hset
    · have ho0 : f0.info.oneOfName ≠ "" := by rw [hg0]; exact ho
      have bf0 := branchFacts_of f0 obj (rt2oks_mem fs obj hok f0 hf0) ho0
      obtain ⟨hnz, y, hh⟩ := set_nonzero f0 obj _ bf0 hset
      obtain ⟨fn, hobj⟩ := holder_of_getVal f0.info obj ho0 bf0.he bf0.hw hnz
      have hne' : (lastSegment f0.info.oneOfType == lastSegment f.info.oneOfType) = false := by
        simpa using fun e => hne e.symm
      refine nfEq_of_idle f obj o ho bf (idle_of_inactive f obj ho bf ?_) ?_
      · rw [hg0] at hobj
        rw [activePayload_field f.info obj _ _ _ hobj, hne']; rfl
      · rw [activePayload_field f.info o _ _ _ hh, hne']; rfl
  · refine nfEq_of_idle f obj o ho bf (hidle f hf rfl) (activePayload_init f.info o ?_)
    rw [hsame]; exact hinit

theorem initNone_reset (names : List String) (g : String) :
    ∀ v, IsStruct v → InitNone v g → InitNone (resetOneOfs names v) g := by
  unfold resetOneOfs
  induction names with
  | nil => intro v _ h; simpa using h
  | cons n rest ih =>
    intro v hs h
    simp only [List.foldl_cons]
    apply ih _ (isStruct_setField _ _ _ hs)
    by_cases e : g = n
    · subst e; right; exact field?_setField_same _ _ _ hs
    · unfold InitNone; rw [field?_setField_other _ _ _ _ e]; exact h

theorem initNone_empty (g : String) : InitNone (.struct []) g := Or.inl (by simp [GoVal.field?, List.lookup])

theorem nfEqFields_of_forall : ∀ (fs : List Field) (a b : GoVal), (∀ f ∈ fs, nfEqField f a b = true) → nfEqFields fs a b = true
  | [], _, _, _ => by simp [nfEqFields]
  | f :: rest, a, b, h => by
    unfold nfEqFields
    rw [h f (by simp), nfEqFields_of_forall rest a b (fun g hg => h g (by simp [hg]))]
    rfl

/-- no plain field is named like the holder of a group that has a branch in the list -/
theorem no_plain_named : ∀ (fs : List Field) (obj : GoVal), RT2OKs fs obj → ∀ f ∈ fs, f.info.oneOfName ≠ "" →
    ∀ f' ∈ fs, f'.info.oneOfName = "" → f'.info.name ≠ f.info.oneOfName
  | [], _, _, f, hf, _, _, _, _ => by simp at hf
  | x :: rest, obj, hok, f, hf, hne, f', hf', hp => by
    unfold RT2OKs at hok
    obtain ⟨_, hsep, hrest⟩ := hok
    simp only [List.mem_cons] at hf hf'
    rcases hf with rfl | hf <;> rcases hf' with rfl | hf'
    · exact absurd hp hne
    · intro e
      have := hsep f' hf' (by simp [wkey, hne, hp, e])
      exact this.1 (by rw [← this.2.1]; exact hp)
    · intro e
      have := hsep f hf (by simp [wkey, hne, hp, e])
      exact this.1 hp
    · exact no_plain_named rest obj hrest f hf hne f' hf' hp

theorem holderSpec_cons_other (g : String) (f : Field) (rest : List Field) (obj o0 o1 o : GoVal)
    (hne : f.info.oneOfName ≠ g) (h01 : o1.field? g = o0.field? g) (h : HolderSpec g rest obj o1 o) :
    HolderSpec g (f :: rest) obj o0 o := by
  rcases h with ⟨f0, hf0, hg0, hs⟩ | ⟨hi, he⟩
  · exact Or.inl ⟨f0, by simp [hf0], hg0, hs⟩
  · refine Or.inr ⟨?_, he.trans h01⟩
    intro f' hf' hg'
    simp only [List.mem_cons] at hf'
    rcases hf' with rfl | hf'
    · exact absurd hg' hne
    · exact hi f' hf' hg'

theorem holderSpec_cons_idle (g : String) (f : Field) (rest : List Field) (obj o0 o : GoVal)
    (hidle : BranchIdle f obj) (h : HolderSpec g rest obj o0 o) : HolderSpec g (f :: rest) obj o0 o := by
  rcases h with ⟨f0, hf0, hg0, hs⟩ | ⟨hi, he⟩
  · exact Or.inl ⟨f0, by simp [hf0], hg0, hs⟩
  · refine Or.inr ⟨?_, he⟩
    intro f' hf' hg'
    simp only [List.mem_cons] at hf'
    rcases hf' with rfl | hf'
    · exact hidle
    · exact hi f' hf' hg'

theorem holderSpec_cons_set (g : String) (f : Field) (rest : List Field) (obj o0 o1 o : GoVal) (h1 : GoVal)
    (hg : f.info.oneOfName = g) (h01 : o1.field? g = some h1) (hset : BranchSet f obj (some h1))
    (h : HolderSpec g rest obj o1 o) : HolderSpec g (f :: rest) obj o0 o := by
  rcases h with ⟨f0, hf0, hg0, hs⟩ | ⟨_, he⟩
  · exact Or.inl ⟨f0, by simp [hf0], hg0, hs⟩
  · exact Or.inl ⟨f, by simp, hg, by rw [he, h01]; exact hset⟩

-- ------------------------------------------------------------------------------------------------------
-- the induction over the IR

mutual

theorem fromField_reads2 (ov : List (String × String)) : ∀ (f : Field) (obj : GoVal) (attrs : Option (List (String × TfVal)))
    (st : FromSt) (a : TfVal),
    (attrs.getD []).lookup f.info.nameSnake = some a → rendersVal f obj a = true → RT2OK f obj → f.info.isPlaceholder = false →
    (f.info.oneOfName = "" ∧ ∃ y, copyFromField ov f attrs st = .ok { st with obj := st.obj.setField f.info.name y } ∧
      valNfEq f (getVal f.info obj) y = true) ∨
    (f.info.oneOfName ≠ "" ∧
      ((BranchIdle f obj ∧ copyFromField ov f attrs st = .ok st) ∨
       (∃ h, copyFromField ov f attrs st = .ok { st with obj := st.obj.setField f.info.oneOfName h } ∧
          BranchSet f obj (some h))))
  | ⟨info, mv, msg, sub⟩, obj, attrs, st, a, hl, hr, hok, hph => by
    simp only at hl hph
    unfold RT2OK at hok
    obtain ⟨he, hem, _, hok⟩ := hok
    have hrec : RecReads (fun as s => copyFromFields ov sub as { s with obj := resetOneOfs ((msg.map (·.oneOfNames)).getD []) s.obj }) sub (fun s => RT2OKs sub s) := by
      intro s as ds hs hR hP
      obtain ⟨o, hrun, hso, hall, hspec, _⟩ := fromFields_reads2 ov sub s as
        { obj := resetOneOfs ((msg.map (·.oneOfNames)).getD []) (.struct []), diags := ds, hooks := hs } hR hP
        (isStruct_resetOneOfs _ _ trivial)
      refine ⟨o, hrun, hso, ?_⟩
      apply nfEqFields_of_forall
      intro f hf
      by_cases ho : f.info.oneOfName = ""
      · rw [nfEqField_eq_valNfEq f s o ho]; exact hall f hf ho
      · exact branch_nfEq sub s _ o hP f hf ho (initNone_reset _ _ (.struct []) trivial (initNone_empty _))
          (hspec _ ho (no_plain_named sub s hP f hf ho))
    simp only [copyFromField]
    unfold rendersVal at hr
    rcases hok with ⟨ho, hok⟩ | ⟨ho, hw, hok⟩
    · left
      refine ⟨ho, ?_⟩
      unfold valNfEq
      cases hk : info.kind with
      | primitive =>
        simp only [hk, hph, Bool.false_eq_true, if_false] at hok hr ⊢
        have hnn : (info.parentIsOptionalEmbed && parentIsNil info obj) = false := by simp [he]
        simp only [hnn, Bool.false_eq_true, if_false] at hr
        rcases hok with hp | ⟨k, hrt, hvt, hx⟩
        · exact absurd hp (by simp)
        · exact fieldWith_prim _ ov info mv msg attrs st a _ hk ho he k hrt hvt hx hl hr
      | object =>
        simp only [hk] at hok hr ⊢
        exact fieldWith_obj _ ov info mv msg sub attrs st a _ _ hrec hk ho he hem hok.1 hok.2 hl hr
      | primitiveList =>
        simp only [hk] at hok hr ⊢
        obtain ⟨hvt, _, k, hrt, hT⟩ := hok
        exact fieldWith_list _ ov info mv msg attrs st a _ _ _ _ (elemReads_prim _ ov info info k hrt hrt.ek (Or.inl hk))
          (Or.inl hk) ho he hvt hT hl hr
      | objectList =>
        simp only [hk] at hok hr ⊢
        obtain ⟨hvt, hev, hT⟩ := hok
        exact fieldWith_list _ ov info mv msg attrs st a _ _ _ _ (elemReads_obj _ ov info info sub _ hrec hev (Or.inl hk))
          (Or.inr hk) ho he hvt hT hl hr
      | primitiveMap =>
        simp only [hk] at hok hr ⊢
        obtain ⟨hvt, _, hev, hnd, k, hrt, hT⟩ := hok
        have hb := elemReads_prim (fun as s => copyFromFields ov sub as { s with obj := resetOneOfs ((msg.map (·.oneOfNames)).getD []) s.obj })
          ov info (mv.getD info) k hrt (by rw [hev]; exact hrt.ek) (Or.inr hk)
        exact fieldWith_map _ ov info mv msg attrs st a _ _ _ _ hb (Or.inl hk) ho he hvt hnd hT hl hr
      | objectMap =>
        simp only [hk] at hok hr ⊢
        obtain ⟨hvt, hev, hnd, hT⟩ := hok
        exact fieldWith_map _ ov info mv msg attrs st a _ _ _ _ (elemReads_obj _ ov info (mv.getD info) sub _ hrec hev (Or.inr hk))
          (Or.inr hk) ho he hvt hnd hT hl hr
      | custom =>
        simp only [hk] at hok
    · right
      refine ⟨ho, ?_⟩
      cases hk : info.kind with
      | primitive =>
        simp only [hk, hph, Bool.false_eq_true, if_false] at hok hr
        have hnn : (info.parentIsOptionalEmbed && parentIsNil info obj) = false := by simp [he]
        simp only [hnn, Bool.false_eq_true, if_false] at hr
        obtain ⟨hn, hz, k, hrt, hvt, hx⟩ := hok
        obtain ⟨s, hxs, hcase⟩ := fieldWith_prim_branch _ ov info mv msg attrs st a _ hk ho he hn hz k hrt hvt hx hl hr
        rcases hcase with ⟨hzs, hrun⟩ | ⟨hzs, y, hrun, hnf⟩
        · left
          refine ⟨?_, hrun⟩
          unfold BranchIdle
          simp only [hk]
          exact ⟨s, hxs, hzs⟩
        · right
          refine ⟨_, hrun, ?_⟩
          unfold BranchSet
          simp only [hk]
          rw [hxs] at hnf
          exact ⟨s, y, hxs, hzs, rfl, hnf⟩
      | object =>
        simp only [hk] at hok hr
        obtain ⟨hn, hvt, hx⟩ := hok
        rw [hn] at hr
        rcases fieldWith_obj_branch _ ov info mv msg sub attrs st a _ _ hrec hk ho he hn hem hvt hx hl hr with
          ⟨hxn, hrun⟩ | ⟨fs, o, hxs, hrun, hnf⟩
        · left
          refine ⟨?_, hrun⟩
          unfold BranchIdle
          simp only [hk]
          exact hxn
        · right
          refine ⟨_, hrun, ?_⟩
          unfold BranchSet
          simp only [hk]
          exact ⟨fs, o, hxs, rfl, by simpa [structOf] using hnf⟩
      | primitiveList => simp only [hk] at hok
      | objectList => simp only [hk] at hok
      | primitiveMap => simp only [hk] at hok
      | objectMap => simp only [hk] at hok
      | custom => simp only [hk] at hok

theorem fromFields_reads2 (ov : List (String × String)) : ∀ (fs : List Field) (obj : GoVal) (attrs : Option (List (String × TfVal)))
    (st : FromSt), rendersFields fs obj (attrs.getD []) = true → RT2OKs fs obj → IsStruct st.obj →
    ∃ o, copyFromFields ov fs attrs st = .ok { st with obj := o } ∧ IsStruct o ∧
      (∀ f ∈ fs, f.info.oneOfName = "" → valNfEq f (getVal f.info obj) (getVal f.info o) = true) ∧
      (∀ g, g ≠ "" → (∀ f ∈ fs, f.info.oneOfName = "" → f.info.name ≠ g) → HolderSpec g fs obj st.obj o) ∧
      (∀ key, (∀ f ∈ fs, key ≠ wkey f.info) → o.field? key = st.obj.field? key)
  | [], _, _, st, _, _, hs =>
    ⟨st.obj, by simp [copyFromFields], hs, by simp, fun g _ _ => Or.inr ⟨by simp, rfl⟩, by simp⟩
  | f :: rest, obj, attrs, st, hR, hok, hs => by
    unfold RT2OKs at hok
    obtain ⟨hf, hsep, hrest⟩ := hok
    unfold rendersFields at hR
    simp only [Bool.and_eq_true] at hR
    obtain ⟨hRf, hRrest⟩ := hR
    have hfo : f.info.parentIsOptionalEmbed = false ∧ (f.info.isPlaceholder = true → f.info.kind = .primitive ∧ f.info.oneOfName = "") := by
      obtain ⟨info, mv, msg, sub⟩ := f
      unfold RT2OK at hf
      exact ⟨hf.1, hf.2.2.1⟩
    -- the Go field the head block assigns is not assigned by a later block, unless both are branches of one group
    have hplainkey : f.info.oneOfName = "" → ∀ g ∈ rest, f.info.name ≠ wkey g.info := by
      intro ho g hg e
      exact (hsep g hg (by simpa [wkey, ho] using e)).1 ho
    simp only [copyFromFields]
    by_cases hph : f.info.isPlaceholder = true
    · -- the placeholder is skipped
      simp only [hph, if_true]
      obtain ⟨o, hrun, hso, hall, hspec, hframe⟩ := fromFields_reads2 ov rest obj attrs st hRrest hrest hs
      refine ⟨o, hrun, hso, ?_, ?_, ?_⟩
      · intro g hg hgo
        simp only [List.mem_cons] at hg
        rcases hg with rfl | hg
        · obtain ⟨info, mv, msg, sub⟩ := g
          simp only at hph hfo
          unfold valNfEq
          simp [(hfo.2 hph).1, hph]
        · exact hall g hg hgo
      · intro g hg hnp
        refine holderSpec_cons_other g f rest obj st.obj st.obj o ?_ rfl
          (hspec g hg (fun f' hf' => hnp f' (by simp [hf'])))
        rw [(hfo.2 hph).2]; exact fun e => hg e.symm
      · intro key hkey
        exact hframe key (fun g hg => hkey g (by simp [hg]))
    · have hph' : f.info.isPlaceholder = false := by simpa using hph
      simp only [hph', Bool.false_eq_true, if_false]
      cases hla : (attrs.getD []).lookup f.info.nameSnake with
      | none => simp [hla] at hRf
      | some a =>
        simp only [hla] at hRf
        rcases fromField_reads2 ov f obj attrs st a hla hRf hf hph' with ⟨ho, y, hrun, hv⟩ | ⟨ho, hcase⟩
        · -- a field outside oneof groups
          simp only [hrun]
          obtain ⟨o, hrun2, hso, hall, hspec, hframe⟩ := fromFields_reads2 ov rest obj attrs
            { st with obj := st.obj.setField f.info.name y } hRrest hrest (isStruct_setField _ _ _ hs)
          refine ⟨o, hrun2, hso, ?_, ?_, ?_⟩
          · intro g hg hgo
            simp only [List.mem_cons] at hg
            rcases hg with rfl | hg
            · rw [getVal_plain g.info o ho hfo.1, hframe g.info.name (hplainkey ho),
                field?_setField_same _ _ _ hs]
              exact hv
            · exact hall g hg hgo
          · intro g hg hnp
            refine holderSpec_cons_other g f rest obj st.obj _ o (by rw [ho]; exact fun e => hg e.symm) ?_
              (hspec g hg (fun f' hf' => hnp f' (by simp [hf'])))
            exact field?_setField_other _ _ _ _ (fun e => hnp f (by simp) ho e.symm)
          · intro key hkey
            rw [hframe key (fun g hg => hkey g (by simp [hg]))]
            have := hkey f (by simp)
            simp only [wkey, ho, if_true] at this
            exact field?_setField_other _ _ _ _ this
        · rcases hcase with ⟨hidle, hrun⟩ | ⟨h1, hrun, hset⟩
          · -- an idle branch: nothing happens
            simp only [hrun]
            obtain ⟨o, hrun2, hso, hall, hspec, hframe⟩ := fromFields_reads2 ov rest obj attrs st hRrest hrest hs
            refine ⟨o, hrun2, hso, ?_, ?_, ?_⟩
            · intro g hg hgo
              simp only [List.mem_cons] at hg
              rcases hg with rfl | hg
              · exact absurd hgo ho
              · exact hall g hg hgo
            · intro g hg hnp
              exact holderSpec_cons_idle g f rest obj st.obj o hidle (hspec g hg (fun f' hf' => hnp f' (by simp [hf'])))
            · intro key hkey
              exact hframe key (fun g hg => hkey g (by simp [hg]))
          · -- a branch that is read back into the holder
            simp only [hrun]
            obtain ⟨o, hrun2, hso, hall, hspec, hframe⟩ := fromFields_reads2 ov rest obj attrs
              { st with obj := st.obj.setField f.info.oneOfName h1 } hRrest hrest (isStruct_setField _ _ _ hs)
            refine ⟨o, hrun2, hso, ?_, ?_, ?_⟩
            · intro g hg hgo
              simp only [List.mem_cons] at hg
              rcases hg with rfl | hg
              · exact absurd hgo ho
              · exact hall g hg hgo
            · intro g hg hnp
              have hrest' := hspec g hg (fun f' hf' => hnp f' (by simp [hf']))
              by_cases e : f.info.oneOfName = g
              · exact holderSpec_cons_set g f rest obj st.obj _ o h1 e
                  (by rw [← e]; exact field?_setField_same _ _ _ hs) hset hrest'
              · exact holderSpec_cons_other g f rest obj st.obj _ o e
                  (field?_setField_other _ _ _ _ (fun e' => e e'.symm)) hrest'
            · intro key hkey
              rw [hframe key (fun g hg => hkey g (by simp [hg]))]
              have := hkey f (by simp)
              simp only [wkey, ho, if_false] at this
              exact field?_setField_other _ _ _ _ this

end

end PGT
