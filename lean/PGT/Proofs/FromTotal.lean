import PGT.Model.CopyFrom
import PGT.Proofs.Store
/-
`Copy<T>FromTerraform` never panics: for **every** IR, **every** Terraform value (well-formed or not, any kinds, nil
containers, missing attributes, payloads under Null / Unknown) and **every** prior content of the target struct.
The only run-time panic the emitted CopyFrom code can raise is a write through a nil embedded pointer; the
invariant is "whenever a field of a nullable embedded message is written, the embedded message has been allocated".
-/
namespace PGT

def IsStruct : GoVal → Prop
  | .struct _ => True
  | _ => False

theorem isStruct_setField (v : GoVal) (n : String) (x : GoVal) (h : IsStruct v) : IsStruct (v.setField n x) := by
  cases v <;> simp_all [IsStruct, GoVal.setField]

theorem field?_setField_same (v : GoVal) (n : String) (x : GoVal) (h : IsStruct v) :
    (v.setField n x).field? n = some x := by
  cases v <;> simp_all [IsStruct, GoVal.setField, GoVal.field?]
  exact lookup_setKey_same _ _ _

theorem isStruct_resetOneOfs (names : List String) : ∀ (v : GoVal), IsStruct v → IsStruct (resetOneOfs names v) := by
  unfold resetOneOfs
  induction names with
  | nil => intro v h; simpa using h
  | cons n rest ih =>
    intro v h
    simp only [List.foldl]
    exact ih _ (isStruct_setField v n _ h)

/-- a field of a nullable embedded message can be written: the embedded message is there -/
def ParentSet (f : FieldInfo) (obj : GoVal) : Prop :=
  f.parentIsOptionalEmbed = true → ∃ s, obj.field? f.parentIsOptionalEmbedFieldName = some (.ptr (some s))

def NoPanic {α : Type} (o : Outcome α) : Prop := ∀ w, o ≠ .panic w

/-- an invariant of the target struct that the writes of the field block of `f` preserve: writes go to the field itself,
to its oneof holder, or to its embedded parent -/
structure WriteInv (f : FieldInfo) (I : GoVal → Prop) : Prop where
  struct : ∀ o, I o → IsStruct o
  set : ∀ o k x, I o → (k = f.name ∨ k = f.oneOfName ∨ k = f.parentIsOptionalEmbedFieldName) → I (o.setField k x)

theorem writeInv_isStruct (f : FieldInfo) : WriteInv f IsStruct :=
  ⟨fun _ h => h, fun o k x h _ => isStruct_setField o k x h⟩

theorem writeField_ok (f : FieldInfo) (I : GoVal → Prop) (hI : WriteInv f I) (obj x : GoVal) (hs : I obj) (hp : ParentSet f obj) :
    ∃ o, writeField f obj x = .ok o ∧ I o ∧ ParentSet f o := by
  unfold writeField
  by_cases he : f.parentIsOptionalEmbed = true
  · obtain ⟨s, hsome⟩ := hp he
    refine ⟨obj.setField f.parentIsOptionalEmbedFieldName (.ptr (some (s.setField f.name x))),
      by simp only [he, if_true, hsome], hI.set _ _ _ hs (Or.inr (Or.inr rfl)), ?_⟩
    intro _
    exact ⟨_, field?_setField_same _ _ _ (hI.struct _ hs)⟩
  · have he' : f.parentIsOptionalEmbed = false := by simpa using he
    refine ⟨obj.setField f.name x, by simp only [he', Bool.false_eq_true, if_false], hI.set _ _ _ hs (Or.inl rfl), ?_⟩
    intro h
    rw [he'] at h
    cases h

theorem writeField_ok' {f : FieldInfo} {I : GoVal → Prop} (hI : WriteInv f I) {obj x : GoVal} {r : Outcome GoVal}
    (h : writeField f obj x = r) (hs : I obj) (hp : ParentSet f obj) : ∃ o, r = .ok o ∧ I o ∧ ParentSet f o := by
  obtain ⟨o, ho, h1, h2⟩ := writeField_ok f I hI obj x hs hp
  exact ⟨o, by rw [← h, ho], h1, h2⟩

theorem allocParent_ok (f : FieldInfo) (I : GoVal → Prop) (hI : WriteInv f I) (obj : GoVal) (hs : I obj) :
    I (allocParent f obj) ∧ ∃ s, (allocParent f obj).field? f.parentIsOptionalEmbedFieldName = some (.ptr (some s)) := by
  unfold allocParent
  split
  · rename_i s heq
    exact ⟨hs, s, heq⟩
  · exact ⟨hI.set _ _ _ hs (Or.inr (Or.inr rfl)), _, field?_setField_same _ _ _ (hI.struct _ hs)⟩

theorem embedGuard_ok (f : FieldInfo) (I : GoVal → Prop) (hI : WriteInv f I) (a : TfVal) (obj obj0 : GoVal) (hs : I obj)
    (h : embedGuard f a obj = some obj0) : I obj0 ∧ (f.kind ≠ .primitive → ParentSet f obj0) := by
  unfold embedGuard at h
  split at h
  · rename_i hc
    split at h
    · rename_i s heq
      injection h with h
      subst h
      exact ⟨hs, fun _ _ => ⟨s, heq⟩⟩
    · split at h
      · injection h with h
        subst h
        have := allocParent_ok f I hI obj hs
        exact ⟨this.1, fun _ _ => this.2⟩
      · cases h
  · rename_i hc
    injection h with h
    subst h
    refine ⟨hs, ?_⟩
    intro hk he
    exfalso
    apply hc
    simp [he, hk]

-- ------------------------------------------------------------------------------------------------------
-- element loops

theorem fromElemsList_noPanic
    (body : TfVal → List Diag → List HookCall → Outcome (Option GoVal × List Diag × List HookCall))
    (hb : ∀ a ds hs, NoPanic (body a ds hs)) :
    ∀ (elems : List TfVal) (k : Nat) (acc : List GoVal) (ds : List Diag) (hs : List HookCall),
      NoPanic (fromElemsList body elems k acc ds hs)
  | [], _, _, _, _ => by intro w; simp [fromElemsList]
  | a :: rest, k, acc, ds, hs => by
    intro w
    simp only [fromElemsList]
    split
    · exact fromElemsList_noPanic body hb rest _ _ _ _ w
    · exact fromElemsList_noPanic body hb rest _ _ _ _ w
    · rename_i w' heq
      exact absurd heq (hb a ds hs w')
    · simp

theorem fromElemsMap_noPanic
    (body : TfVal → List Diag → List HookCall → Outcome (Option GoVal × List Diag × List HookCall))
    (hb : ∀ a ds hs, NoPanic (body a ds hs)) :
    ∀ (elems : List (String × TfVal)) (acc : List (String × GoVal)) (ds : List Diag) (hs : List HookCall),
      NoPanic (fromElemsMap body elems acc ds hs)
  | [], _, _, _ => by intro w; simp [fromElemsMap]
  | (k, a) :: rest, acc, ds, hs => by
    intro w
    simp only [fromElemsMap]
    split
    · exact fromElemsMap_noPanic body hb rest _ _ _ w
    · exact fromElemsMap_noPanic body hb rest _ _ _ w
    · rename_i w' heq
      exact absurd heq (hb a ds hs w')
    · simp

theorem primDecode_noPanic (f : FieldInfo) (k : PrimK) (unk null : Bool) (p : Sc) : NoPanic (primDecode f k unk null p) := by
  intro w
  unfold primDecode
  split
  · split <;> simp
  · simp

/-- what the recursive call on a nested message must satisfy, and what every field block satisfies -/
def Safe (I : GoVal → Prop) (o : Outcome FromSt) : Prop := NoPanic o ∧ ∀ st', o = .ok st' → I st'.obj

def RecSafe (rec : FromRec) : Prop := ∀ attrs st, IsStruct st.obj → Safe IsStruct (rec attrs st)

theorem safe_ok {I : GoVal → Prop} (st : FromSt) (h : I st.obj) : Safe I (.ok st) :=
  ⟨fun w => by simp, fun st' e => by injection e with e; subst e; exact h⟩

theorem safe_stuck {I : GoVal → Prop} (w : String) : Safe I (.stuck w) :=
  ⟨fun w => by simp, fun st' e => by cases e⟩

theorem fromElemBody_noPanic (rec : FromRec) (hrec : RecSafe rec) (ov : List (String × String)) (info vf : FieldInfo) :
    ∀ a ds hs, NoPanic (fromElemBody rec ov info vf a ds hs) := by
  intro e ds hs' w
  unfold fromElemBody
  split
  · simp
  · cases e with
    | prim k u nl p' =>
      simp only []
      split
      · cases hd : primDecode info k u nl p' with
        | panic w' => exact absurd hd (primDecode_noPanic info k u nl p' w')
        | stuck w' => simp
        | ok t => simp
      · simp
    | obj u nl as' atys' =>
      simp only []
      split
      · split
        · have hrs := hrec as' { obj := GoVal.struct [], diags := ds, hooks := hs' } trivial
          cases hrc : rec as' { obj := GoVal.struct [], diags := ds, hooks := hs' } with
          | panic w' => exact absurd hrc (hrs.1 w')
          | stuck w' => simp
          | ok st' => simp
        · simp
      · simp
    | list _ _ _ _ => simp
    | map _ _ _ _ => simp
    | nilv => simp
    | foreign _ => simp

theorem fieldWith_safe (rec : FromRec) (hrec : RecSafe rec) (ov : List (String × String)) (info : FieldInfo)
    (I : GoVal → Prop) (hI : WriteInv info I)
    (mv : Option FieldInfo) (msg : Option MsgInfo) (attrs : Option (List (String × TfVal))) (st : FromSt)
    (hs : I st.obj) : Safe I (copyFromFieldWith rec ov info mv msg attrs st) := by
  unfold copyFromFieldWith
  cases hk : info.kind with
  | custom =>
    simp only []
    cases hl : List.lookup info.nameSnake (attrs.getD []) with
    | none =>
      simp only []
      cases he : info.parentIsOptionalEmbed with
      | true =>
        simp only [if_true]
        generalize hr : writeField _ _ _ = r
        obtain ⟨o, rfl, hso, _⟩ := writeField_ok' hI hr (allocParent_ok info I hI _ (by simpa [FromSt.diag] using hs)).1
          (fun _ => (allocParent_ok info I hI _ (by simpa [FromSt.diag] using hs)).2)
        exact safe_ok _ hso
      | false =>
        simp only [Bool.false_eq_true, if_false]
        generalize hr : writeField _ _ _ = r
        obtain ⟨o, rfl, hso, _⟩ := writeField_ok' hI hr (by simpa [FromSt.diag] using hs) (fun h => by rw [he] at h; cases h)
        exact safe_ok _ hso
    | some a =>
      simp only []
      cases he : info.parentIsOptionalEmbed with
      | true =>
        simp only [if_true]
        generalize hr : writeField _ _ _ = r
        obtain ⟨o, rfl, hso, _⟩ := writeField_ok' hI hr (allocParent_ok info I hI _ (by simpa [FromSt.diag] using hs)).1
          (fun _ => (allocParent_ok info I hI _ (by simpa [FromSt.diag] using hs)).2)
        exact safe_ok _ hso
      | false =>
        simp only [Bool.false_eq_true, if_false]
        generalize hr : writeField _ _ _ = r
        obtain ⟨o, rfl, hso, _⟩ := writeField_ok' hI hr (by simpa [FromSt.diag] using hs) (fun h => by rw [he] at h; cases h)
        exact safe_ok _ hso
  | primitive =>
    simp only []
    cases hl : List.lookup info.nameSnake (attrs.getD []) with
    | none => exact safe_ok _ (by simpa [FromSt.diag] using hs)
    | some a =>
      simp only []
      split
      · exact safe_ok _ (by simpa [FromSt.diag] using hs)
      · cases hg : embedGuard info a st.obj with
        | none => exact safe_ok _ hs
        | some obj0 =>
          simp only []
          obtain ⟨hs0, _⟩ := embedGuard_ok info I hI a st.obj obj0 hs hg
          cases a with
          | prim k unk null p =>
            simp only []
            cases hd : primDecode info k unk null p with
            | panic w => exact absurd hd (primDecode_noPanic info k unk null p w)
            | stuck w => exact safe_stuck _
            | ok t =>
              simp only []
              split
              · split
                · exact safe_ok _ (hI.set _ _ _ hs0 (by first | exact Or.inl rfl | exact Or.inr (Or.inl rfl) | exact Or.inr (Or.inr rfl)))
                · exact safe_ok _ hs0
              · split
                · rename_i he
                  split
                  · generalize hr : writeField _ _ _ = r
                    obtain ⟨o, rfl, hso, _⟩ := writeField_ok' hI hr (allocParent_ok info I hI obj0 hs0).1
                      (fun _ => (allocParent_ok info I hI obj0 hs0).2)
                    exact safe_ok _ hso
                  · split
                    · rename_i val heq
                      generalize hr : writeField _ _ _ = r
                      obtain ⟨o, rfl, hso, _⟩ := writeField_ok' hI hr hs0 (fun _ => ⟨val, heq⟩)
                      exact safe_ok _ hso
                    · exact safe_ok _ hs0
                · exact safe_ok _ (hI.set _ _ _ hs0 (by first | exact Or.inl rfl | exact Or.inr (Or.inl rfl) | exact Or.inr (Or.inr rfl)))
          | list _ _ _ _ => exact safe_stuck _
          | map _ _ _ _ => exact safe_stuck _
          | obj _ _ _ _ => exact safe_stuck _
          | nilv => exact safe_stuck _
          | foreign _ => exact safe_stuck _
  | object =>
    simp only []
    cases hl : List.lookup info.nameSnake (attrs.getD []) with
    | none => exact safe_ok _ (by simpa [FromSt.diag] using hs)
    | some a =>
      simp only []
      split
      · exact safe_ok _ (by simpa [FromSt.diag] using hs)
      · cases hg : embedGuard info a st.obj with
        | none => exact safe_ok _ hs
        | some obj0 =>
          simp only []
          obtain ⟨hs0, hp0'⟩ := embedGuard_ok info I hI a st.obj obj0 hs hg
          have hp0 : ParentSet info obj0 := hp0' (by rw [hk]; simp)
          cases a with
          | obj unk null as atys =>
            simp only []
            split
            · -- not a oneof branch
              generalize hr : writeField _ _ _ = r
              obtain ⟨o, rfl, hso, hpo⟩ := writeField_ok' hI hr hs0 hp0
              simp only []
              split
              · generalize hr2 : writeField _ _ _ = r2
                obtain ⟨o2, rfl, hso2, _⟩ := writeField_ok' hI hr2 hso hpo
                exact safe_ok _ hso2
              · split
                · have hrs := hrec as { obj := .struct [], diags := st.diags, hooks := st.hooks } trivial
                  cases hrc : rec as { obj := .struct [], diags := st.diags, hooks := st.hooks } with
                  | panic w => exact absurd hrc (hrs.1 w)
                  | stuck w => exact safe_stuck _
                  | ok st' =>
                    simp only []
                    generalize hr2 : writeField _ _ _ = r2
                    obtain ⟨o2, rfl, hso2, _⟩ := writeField_ok' hI hr2 hso hpo
                    exact safe_ok _ hso2
                · exact safe_ok _ hso
            · -- oneof branch
              split
              · generalize hin : (if (!isEmptyMsg msg) = true then rec as { obj := GoVal.struct [], diags := st.diags, hooks := st.hooks }
                    else Outcome.ok { obj := GoVal.struct [], diags := st.diags, hooks := st.hooks }) = inner
                have hinner : NoPanic inner := by
                  rw [← hin]
                  split
                  · exact (hrec as { obj := GoVal.struct [], diags := st.diags, hooks := st.hooks } trivial).1
                  · intro w; simp
                cases inner with
                | panic w => exact absurd rfl (hinner w)
                | stuck w => exact safe_stuck _
                | ok st' => exact safe_ok _ (hI.set _ _ _ hs0 (by first | exact Or.inl rfl | exact Or.inr (Or.inl rfl) | exact Or.inr (Or.inr rfl)))
              · exact safe_ok _ hs0
          | prim _ _ _ _ => exact safe_stuck _
          | list _ _ _ _ => exact safe_stuck _
          | map _ _ _ _ => exact safe_stuck _
          | nilv => exact safe_stuck _
          | foreign _ => exact safe_stuck _
  | primitiveList =>
    simp only []
    cases hl : List.lookup info.nameSnake (attrs.getD []) with
    | none => exact safe_ok _ (by simpa [FromSt.diag] using hs)
    | some a =>
      simp only []
      split
      · exact safe_ok _ (by simpa [FromSt.diag] using hs)
      · cases hg : embedGuard info a st.obj with
        | none => exact safe_ok _ hs
        | some obj0 =>
          simp only []
          obtain ⟨hs0, hp0'⟩ := embedGuard_ok info I hI a st.obj obj0 hs hg
          have hp0 : ParentSet info obj0 := hp0' (by rw [hk]; simp)
          cases a with
          | list unk null elems ety =>
            simp only []
            generalize hr : writeField _ _ _ = r
            obtain ⟨o, rfl, hso, hpo⟩ := writeField_ok' hI hr hs0 hp0
            simp only []
            split
            · generalize hloop : fromElemsList _ _ _ _ _ _ = lr
              have hlr : NoPanic lr := by
                rw [← hloop]
                apply fromElemsList_noPanic
                exact fromElemBody_noPanic rec hrec ov info _
              cases lr with
              | panic w => exact absurd rfl (hlr w)
              | stuck w => exact safe_stuck _
              | ok res =>
                obtain ⟨l, ds, hs'⟩ := res
                simp only []
                generalize hr2 : writeField _ _ _ = r2
                obtain ⟨o2, rfl, hso2, _⟩ := writeField_ok' hI hr2 hso hpo
                exact safe_ok _ hso2
            · exact safe_ok _ hso
          | prim _ _ _ _ => exact safe_stuck _
          | obj _ _ _ _ => exact safe_stuck _
          | map _ _ _ _ => exact safe_stuck _
          | nilv => exact safe_stuck _
          | foreign _ => exact safe_stuck _
  | objectList =>
    simp only []
    cases hl : List.lookup info.nameSnake (attrs.getD []) with
    | none => exact safe_ok _ (by simpa [FromSt.diag] using hs)
    | some a =>
      simp only []
      split
      · exact safe_ok _ (by simpa [FromSt.diag] using hs)
      · cases hg : embedGuard info a st.obj with
        | none => exact safe_ok _ hs
        | some obj0 =>
          simp only []
          obtain ⟨hs0, hp0'⟩ := embedGuard_ok info I hI a st.obj obj0 hs hg
          have hp0 : ParentSet info obj0 := hp0' (by rw [hk]; simp)
          cases a with
          | list unk null elems ety =>
            simp only []
            generalize hr : writeField _ _ _ = r
            obtain ⟨o, rfl, hso, hpo⟩ := writeField_ok' hI hr hs0 hp0
            simp only []
            split
            · generalize hloop : fromElemsList _ _ _ _ _ _ = lr
              have hlr : NoPanic lr := by
                rw [← hloop]
                apply fromElemsList_noPanic
                exact fromElemBody_noPanic rec hrec ov info _
              cases lr with
              | panic w => exact absurd rfl (hlr w)
              | stuck w => exact safe_stuck _
              | ok res =>
                obtain ⟨l, ds, hs'⟩ := res
                simp only []
                generalize hr2 : writeField _ _ _ = r2
                obtain ⟨o2, rfl, hso2, _⟩ := writeField_ok' hI hr2 hso hpo
                exact safe_ok _ hso2
            · exact safe_ok _ hso
          | prim _ _ _ _ => exact safe_stuck _
          | obj _ _ _ _ => exact safe_stuck _
          | map _ _ _ _ => exact safe_stuck _
          | nilv => exact safe_stuck _
          | foreign _ => exact safe_stuck _
  | primitiveMap =>
    simp only []
    cases hl : List.lookup info.nameSnake (attrs.getD []) with
    | none => exact safe_ok _ (by simpa [FromSt.diag] using hs)
    | some a =>
      simp only []
      split
      · exact safe_ok _ (by simpa [FromSt.diag] using hs)
      · cases hg : embedGuard info a st.obj with
        | none => exact safe_ok _ hs
        | some obj0 =>
          simp only []
          obtain ⟨hs0, hp0'⟩ := embedGuard_ok info I hI a st.obj obj0 hs hg
          have hp0 : ParentSet info obj0 := hp0' (by rw [hk]; simp)
          cases a with
          | map unk null elems ety =>
            simp only []
            generalize hr : writeField _ _ _ = r
            obtain ⟨o, rfl, hso, hpo⟩ := writeField_ok' hI hr hs0 hp0
            simp only []
            split
            · generalize hloop : fromElemsMap _ _ _ _ _ = lr
              have hlr : NoPanic lr := by
                rw [← hloop]
                apply fromElemsMap_noPanic
                exact fromElemBody_noPanic rec hrec ov info _
              cases lr with
              | panic w => exact absurd rfl (hlr w)
              | stuck w => exact safe_stuck _
              | ok res =>
                obtain ⟨l, ds, hs'⟩ := res
                simp only []
                generalize hr2 : writeField _ _ _ = r2
                obtain ⟨o2, rfl, hso2, _⟩ := writeField_ok' hI hr2 hso hpo
                exact safe_ok _ hso2
            · exact safe_ok _ hso
          | prim _ _ _ _ => exact safe_stuck _
          | obj _ _ _ _ => exact safe_stuck _
          | list _ _ _ _ => exact safe_stuck _
          | nilv => exact safe_stuck _
          | foreign _ => exact safe_stuck _
  | objectMap =>
    simp only []
    cases hl : List.lookup info.nameSnake (attrs.getD []) with
    | none => exact safe_ok _ (by simpa [FromSt.diag] using hs)
    | some a =>
      simp only []
      split
      · exact safe_ok _ (by simpa [FromSt.diag] using hs)
      · cases hg : embedGuard info a st.obj with
        | none => exact safe_ok _ hs
        | some obj0 =>
          simp only []
          obtain ⟨hs0, hp0'⟩ := embedGuard_ok info I hI a st.obj obj0 hs hg
          have hp0 : ParentSet info obj0 := hp0' (by rw [hk]; simp)
          cases a with
          | map unk null elems ety =>
            simp only []
            generalize hr : writeField _ _ _ = r
            obtain ⟨o, rfl, hso, hpo⟩ := writeField_ok' hI hr hs0 hp0
            simp only []
            split
            · generalize hloop : fromElemsMap _ _ _ _ _ = lr
              have hlr : NoPanic lr := by
                rw [← hloop]
                apply fromElemsMap_noPanic
                exact fromElemBody_noPanic rec hrec ov info _
              cases lr with
              | panic w => exact absurd rfl (hlr w)
              | stuck w => exact safe_stuck _
              | ok res =>
                obtain ⟨l, ds, hs'⟩ := res
                simp only []
                generalize hr2 : writeField _ _ _ = r2
                obtain ⟨o2, rfl, hso2, _⟩ := writeField_ok' hI hr2 hso hpo
                exact safe_ok _ hso2
            · exact safe_ok _ hso
          | prim _ _ _ _ => exact safe_stuck _
          | obj _ _ _ _ => exact safe_stuck _
          | list _ _ _ _ => exact safe_stuck _
          | nilv => exact safe_stuck _
          | foreign _ => exact safe_stuck _

mutual

theorem fromFields_safe (ov : List (String × String)) : ∀ (fs : List Field) (attrs : Option (List (String × TfVal))) (st : FromSt),
    IsStruct st.obj → Safe IsStruct (copyFromFields ov fs attrs st)
  | [], _, st, hs => by
    simp only [copyFromFields]
    exact safe_ok st hs
  | f :: rest, attrs, st, hs => by
    simp only [copyFromFields]
    split
    · exact fromFields_safe ov rest attrs st hs
    · have h1 := fromField_safe ov f attrs st hs
      cases hf : copyFromField ov f attrs st with
      | ok st' => exact fromFields_safe ov rest attrs st' (h1.2 st' hf)
      | panic w => exact absurd hf (h1.1 w)
      | stuck w => exact safe_stuck w

theorem fromField_safe (ov : List (String × String)) : ∀ (f : Field) (attrs : Option (List (String × TfVal))) (st : FromSt),
    IsStruct st.obj → Safe IsStruct (copyFromField ov f attrs st)
  | ⟨info, mapVal, msg, sub⟩, attrs, st, hs => by
    simp only [copyFromField]
    apply fieldWith_safe (I := IsStruct) (hI := writeInv_isStruct info)
    · intro as s hs'
      exact fromFields_safe ov sub as _ (isStruct_resetOneOfs _ _ hs')
    · exact hs

end

/-- **`Copy<T>FromTerraform` never panics** – for every message IR (every template, every nesting depth, any number of
fields), every Terraform value `tf` whatsoever (missing attributes, values of the wrong Go type, nil interface values,
nil `Attrs` / `Elems`, payloads under Null / Unknown), every prior content `fs` of the target struct. -/
theorem copyFrom_noPanic (ov : List (String × String)) (m : Msg) (tf : TfVal) (fs : List (String × GoVal)) (w : String) :
    copyFrom ov m tf (.struct fs) ≠ .panic w := by
  unfold copyFrom
  split
  · rename_i attrs _
    have h := fromFields_safe ov m.fields attrs { obj := resetOneOfs m.info.oneOfNames (.struct fs) }
      (isStruct_resetOneOfs _ _ trivial)
    split
    · simp
    · rename_i w' heq
      exact absurd heq (h.1 w')
    · simp
  · simp

end PGT
