import PGT.Proofs.ToRender
/-
From "the object renders the struct" to the null-ness statement of C20 (mutual induction over the IR).
-/
namespace PGT
open PGT.Spec

theorem primRenders_c20 (info : FieldInfo) (x : GoVal) (a : TfVal) (h : primRenders info x a = true) :
    c20Prim info x a = true := by
  unfold c20Prim
  unfold primRenders at h
  cases a with
  | prim k u n p =>
    simp only [Bool.and_eq_true] at h
    obtain ⟨_, h⟩ := h
    by_cases hn : info.isNullable = true
    · simp only [hn, if_true] at h ⊢
      cases x with
      | ptr o =>
        cases o with
        | none => simp at h; simp [isNull, isNilPtr, h]
        | some v =>
          cases v <;> simp at h
          simp [isNull, isNilPtr, h.1]
      | _ => simp at h
    · have hn' : info.isNullable = false := by simpa using hn
      simp only [hn', Bool.false_eq_true, if_false] at h ⊢
      cases x with
      | sc s =>
        simp only [Bool.and_eq_true] at h
        obtain ⟨_, hz⟩ := h
        by_cases hzv : (info.tf.zeroValue != "") = true
        · simp only [hzv, if_true] at hz ⊢
          simpa [isNull] using hz
        · simp only [hzv] at hz ⊢
          simpa [isNull] using hz
      | _ => simp at h
  | _ => simp at h

mutual
theorem rendersVal_c20 : ∀ (f : Field) (obj : GoVal) (attrs : List (String × TfVal)) (a : TfVal),
    attrs.lookup f.info.nameSnake = some a → rendersVal f obj a = true → c20Field f obj false attrs = true
  | ⟨info, mapVal, msg, sub⟩, obj, attrs, a, hl, hr => by
    simp only at hl
    unfold c20Field
    simp only [hl]
    unfold rendersVal at hr
    cases hkind : info.kind with
    | primitive =>
      simp only [hkind] at hr ⊢
      by_cases hph : info.isPlaceholder = true
      · simp only [hph, if_true] at hr ⊢
        simp only [Bool.and_eq_true] at hr
        exact hr.1
      · have hph' : info.isPlaceholder = false := by simpa using hph
        simp only [hph', Bool.false_eq_true, if_false] at hr ⊢
        by_cases hen : (info.parentIsOptionalEmbed && parentIsNil info obj) = true
        · simp only [hen, if_true] at hr ⊢
          simp only [Bool.and_eq_true] at hr
          exact hr.1
        · simp only [hen] at hr ⊢
          exact primRenders_c20 info (getVal info obj) a hr
    | custom => simp [hkind]
    | object =>
      simp only [hkind] at hr ⊢
      unfold objRenders at hr
      cases a with
      | obj u n as tys =>
        simp only [Bool.and_eq_true] at hr
        obtain ⟨_, hr⟩ := hr
        by_cases hn : info.isNullable = true
        · simp only [hn, if_true, Bool.and_eq_true, Bool.or_eq_true] at hr ⊢
          refine ⟨by simpa [isNull] using hr.1, ?_⟩
          rcases hr.2 with h | h
          · exact Or.inl h
          · exact Or.inr (rendersFields_c20 sub _ _ h)
        · have hn' : info.isNullable = false := by simpa using hn
          simp only [hn', Bool.false_eq_true, if_false, Bool.and_eq_true] at hr ⊢
          exact ⟨by simpa [isNull] using hr.1, rendersFields_c20 sub _ _ hr.2⟩
      | _ => simp at hr
    | primitiveList =>
      simp only [hkind] at hr ⊢
      cases a with
      | list u n es t =>
        simp only [Bool.and_eq_true] at hr
        simpa [isNull] using hr.1.1.2
      | _ => simp at hr
    | objectList =>
      simp only [hkind] at hr ⊢
      cases a with
      | list u n es t =>
        simp only [Bool.and_eq_true] at hr
        simpa [isNull] using hr.1.1.2
      | _ => simp at hr
    | primitiveMap =>
      simp only [hkind] at hr ⊢
      cases a with
      | map u n es t =>
        simp only [Bool.and_eq_true] at hr
        simpa [isNull] using hr.1.1.2
      | _ => simp at hr
    | objectMap =>
      simp only [hkind] at hr ⊢
      cases a with
      | map u n es t =>
        simp only [Bool.and_eq_true] at hr
        simpa [isNull] using hr.1.1.2
      | _ => simp at hr

theorem rendersFields_c20 : ∀ (fs : List Field) (obj : GoVal) (attrs : List (String × TfVal)),
    rendersFields fs obj attrs = true → c20Attrs fs obj false attrs = true
  | [], _, _, _ => by simp [c20Attrs]
  | f :: rest, obj, attrs, h => by
    unfold rendersFields at h
    unfold c20Attrs
    simp only [Bool.and_eq_true] at h ⊢
    obtain ⟨hf, hrest⟩ := h
    refine ⟨?_, rendersFields_c20 rest obj attrs hrest⟩
    cases hl : attrs.lookup f.info.nameSnake with
    | none => simp [hl] at hf
    | some a =>
      simp only [hl] at hf
      exact rendersVal_c20 f obj attrs a hl hf
end

end PGT
