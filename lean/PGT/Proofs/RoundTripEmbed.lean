import PGT.Proofs.RoundTripOneof
/-
C04 – the round trip CopyTo ; CopyFrom – extended to children of NULLABLE EMBEDDED messages (every kind) and to CUSTOM types,
at every nesting depth (`roundtrip_embed`). Three parts:
 1. the hooks of the harness round-trip; the rendering relation `rendersFields3`; CopyTo establishes it;
 2. the field blocks of CopyFrom read a rendering back (hook log free; the custom block; the blocks of children of a nullable
    embedded message run like the block of the same field of the embedded struct – `fieldWith_lift`);
 3. the judgement `RT3OK` / `RT3OKs`, the induction over the IR, the whole-message theorem, the witness
    `embed_zero_children_witness` and examples.
-/

/-
C04 for children of nullable embedded messages and for custom types, part 1: the hooks of the harness round-trip, the
rendering relation `rendersFields3` (as `Spec.rendersFields`, and it says what the attribute of a custom field and of a
scalar child of a nil embedded message is), and CopyTo establishes it (`toFields_renders3`, the analogue of
`toFields_renders`).
-/
namespace PGT
open PGT.Spec PGT.Props

-- ------------------------------------------------------------------------------------------------------
-- the hooks of the harness

theorem hUnwrap_hWrap (s : List UInt8) : hUnwrap (hWrap s) = s := by
  unfold hUnwrap hWrap
  have h1 : ([72, 40] ++ s ++ [41] : List UInt8).length ≥ 3 := by simp
  have h2 : ([72, 40] ++ s ++ [41] : List UInt8).take 2 = [72, 40] := by simp
  have h3 : ([72, 40] ++ s ++ [41] : List UInt8).getLast? = some 41 := by rw [List.getLast?_append]; simp
  have h4 : (([72, 40] ++ s ++ [41] : List UInt8).drop 2).dropLast = s := by
    have : ([72, 40] ++ s ++ [41] : List UInt8).drop 2 = s ++ [41] := by simp
    rw [this]
    simp
  simp only [h1, h2, h3, h4, decide_true, beq_self_eq_true, Bool.and_self, if_true]

/-- the comparison of C04 on two values of a custom field (`Spec.nfEqField`, case `.custom`) -/
def custNfEq (rep : Bool) (x y : GoVal) : Bool :=
  if rep then
    (sliceElems x).length == (sliceElems y).length &&
      ((sliceElems x).zip (sliceElems y)).all fun (p, q) => primNfEq false p q
  else primNfEq false x y

/-- one string-like value and the attribute value the `CopyTo<S>` hook makes of it -/
def hookElemRenders (e : GoVal) (v : TfVal) : Bool :=
  match e with
  | .sc (.str s) => (match v with | .prim .string false false (.str p) => p == hWrap s | _ => false)
  | _ => (match v with | .nilv => true | _ => false)

/-- the attribute value `a` is what the `CopyTo<S>` hook of the harness returns for the Go value `x` -/
def custRenders (rep : Bool) (x : GoVal) (a : TfVal) : Bool :=
  if rep then
    match a with
    | .list false n (some es) _ =>
      n == (sliceElems x).isEmpty && es.length == (sliceElems x).length &&
        ((sliceElems x).zip es).all fun (e, v) => hookElemRenders e v
    | _ => false
  else
    match x with
    | .sc (.str _) => hookElemRenders x a
    | _ => false

theorem hookElems_render : ∀ (l : List GoVal),
    (l.zip (l.map fun e => match e with
        | .sc (.str s) => TfVal.prim .string false false (.str (hWrap s))
        | _ => .nilv)).all (fun (e, v) => hookElemRenders e v) = true
  | [] => by simp
  | e :: rest => by
    simp only [List.map_cons, List.zip_cons_cons, List.all_cons, Bool.and_eq_true]
    refine ⟨?_, hookElems_render rest⟩
    cases e with
    | sc s => cases s <;> simp [hookElemRenders]
    | _ => simp [hookElemRenders]

/-- **the `CopyTo<S>` hook renders**: whatever it returns is described by `custRenders` -/
theorem hookTo_custRenders (rep : Bool) (x : GoVal) (v : TfVal) (h : hookTo rep x = some v) : custRenders rep x v = true := by
  unfold hookTo at h
  unfold custRenders
  cases rep with
  | false =>
    simp only [Bool.not_false, if_true] at h
    simp only [Bool.false_eq_true, if_false]
    cases x with
    | sc s =>
      cases s <;> simp at h
      subst h
      simp [hookElemRenders]
    | _ => simp at h
  | true =>
    simp only [Bool.not_true, Bool.false_eq_true, if_false] at h
    simp only [if_true]
    cases x with
    | slice o =>
      cases o with
      | none =>
        simp at h
        subst h
        simp [sliceElems]
      | some l =>
        simp only [Option.some.injEq] at h
        subst h
        simp only [sliceElems, List.length_map, beq_self_eq_true, Bool.and_true, Bool.true_and]
        exact hookElems_render l
    | _ => simp at h

/-- the Go value of a custom field is string-like (what the hooks of the harness convert) -/
def CustomTyped (rep : Bool) (x : GoVal) : Prop :=
  if rep then ∀ e ∈ sliceElems x, ∃ s, e = .sc (.str s) else True

theorem hookElems_back : ∀ (l : List GoVal) (es : List TfVal), es.length = l.length →
    (l.zip es).all (fun (e, v) => hookElemRenders e v) = true → (∀ e ∈ l, ∃ s, e = GoVal.sc (.str s)) →
    (l.zip (es.map fun e => GoVal.sc (.str (unH e)))).all (fun (p, q) => primNfEq false p q) = true
  | [], _, _, _, _ => by simp
  | e :: rest, [], hl, _, _ => by simp at hl
  | e :: rest, v :: vs, hl, hall, ht => by
    simp only [List.zip_cons_cons, List.all_cons, Bool.and_eq_true] at hall
    simp only [List.map_cons, List.zip_cons_cons, List.all_cons, Bool.and_eq_true]
    refine ⟨?_, hookElems_back rest vs (by simpa using hl) hall.2 (fun e' he' => ht e' (by simp [he']))⟩
    obtain ⟨s, rfl⟩ := ht e (by simp)
    have h1 := hall.1
    unfold hookElemRenders at h1
    simp only at h1
    split at h1
    · rename_i p
      have : p = hWrap s := by simpa using h1
      subst this
      simp [unH, hUnwrap_hWrap, primNfEq, scNfEq]
    · cases h1

/-- **the hooks of the harness round-trip** on string-like values: reading what the `CopyTo<S>` hook wrote gives the value
back in the normal form of C04 (nil ≡ empty list) -/
theorem hook_roundtrip (rep : Bool) (x : GoVal) (a : TfVal) (ht : CustomTyped rep x) (h : custRenders rep x a = true) :
    custNfEq rep x (hookFrom rep a) = true := by
  unfold custRenders at h
  unfold custNfEq hookFrom
  cases rep with
  | false =>
    simp only [Bool.false_eq_true, if_false] at h
    simp only [Bool.not_false, if_true, Bool.false_eq_true, if_false]
    cases x with
    | sc s =>
      cases s with
      | str s =>
        simp only at h
        unfold hookElemRenders at h
        simp only at h
        split at h
        · rename_i p
          have : p = hWrap s := by simpa using h
          subst this
          simp [unH, hUnwrap_hWrap, primNfEq, scNfEq]
        · cases h
      | _ => simp at h
    | _ => simp at h
  | true =>
    simp only [if_true] at h
    simp only [Bool.not_true, Bool.false_eq_true, if_false, if_true]
    unfold CustomTyped at ht
    simp only [if_true] at ht
    split at h
    · rename_i n es ety
      simp only [Bool.and_eq_true, beq_iff_eq] at h
      obtain ⟨⟨hn, hlen⟩, hall⟩ := h
      cases n with
      | true =>
        have hx : sliceElems x = [] := by
          have : (sliceElems x).isEmpty = true := hn.symm
          simpa using this
        simp only [hx]
        simp [sliceElems]
      | false =>
        simp only [sliceElems, List.length_map, Bool.and_eq_true, beq_iff_eq]
        exact ⟨hlen.symm, hookElems_back (sliceElems x) es hlen hall ht⟩
    · cases h

-- ------------------------------------------------------------------------------------------------------
-- the rendering relation

mutual
def rendersFields3 (fs : List Field) (obj : GoVal) (attrs : List (String × TfVal)) : Bool :=
  match fs with
  | [] => true
  | f :: rest =>
    (match attrs.lookup f.info.nameSnake with
     | none => false
     | some a => rendersVal3 f obj a) && rendersFields3 rest obj attrs

/-- as `Spec.rendersVal`, and: the attribute of a scalar child of a nil embedded message is a null value of the attribute's
kind; the attribute of a custom field is what the hook returns -/
def rendersVal3 (f : Field) (obj : GoVal) (a : TfVal) : Bool :=
  match f with
  | ⟨info, mapVal, _, sub⟩ =>
    let _ := mapVal
    let x := getVal info obj
    match info.kind with
    | .primitive =>
      if info.isPlaceholder then isNull a && noUnknownFlat a
      else if info.parentIsOptionalEmbed && parentIsNil info obj then
        (match a with
         | .prim k u n _ => !u && n && primKindOf info == some k
         | _ => false)
      else primRenders info x a
    | .custom => custRenders info.isRepeated x a
    | .object => objRenders info.isNullable (fun o as => rendersFields3 sub o as) x a
    | .primitiveList =>
      (match a with
       | .list u n es _ =>
         !u && n == (sliceElems x).isEmpty && (es.getD []).length == (sliceElems x).length &&
           ((sliceElems x).zip (es.getD [])).all fun (e, v) => primRenders info e v
       | _ => false)
    | .objectList =>
      (match a with
       | .list u n es _ =>
         !u && n == (sliceElems x).isEmpty && (es.getD []).length == (sliceElems x).length &&
           ((sliceElems x).zip (es.getD [])).all fun (e, v) =>
             objRenders info.isNullable (fun o as => rendersFields3 sub o as) e v
       | _ => false)
    | .primitiveMap =>
      (match a with
       | .map u n es _ =>
         !u && n == (mapElems x).isEmpty && (es.getD []).length == (mapElems x).length &&
           (mapElems x).all fun (k, e) => match (es.getD []).lookup k with
             | some v => primRenders info e v
             | none => false
       | _ => false)
    | .objectMap =>
      (match a with
       | .map u n es _ =>
         !u && n == (mapElems x).isEmpty && (es.getD []).length == (mapElems x).length &&
           (mapElems x).all fun (k, e) => match (es.getD []).lookup k with
             | some v => objRenders info.isNullable (fun o as => rendersFields3 sub o as) e v
             | none => false
       | _ => false)
end

-- ------------------------------------------------------------------------------------------------------
-- CopyTo establishes it (the induction of `ToRender.lean` with the stronger relation)

mutual

theorem toField_renders3 : ∀ (f : Field) (obj : GoVal) (atys : List (String × TfTy)) (st : ToSt) (ty : TfTy),
    atys.lookup f.info.nameSnake = some ty → ToOK f obj ty → st.attrs.lookup f.info.nameSnake = none →
    ∃ v hs, copyToField f obj (some atys) st =
        .ok { attrs := setKey f.info.nameSnake v st.attrs, diags := st.diags, hooks := st.hooks ++ hs } ∧
      rendersVal3 f obj v = true
  | ⟨info, mapVal, msg, sub⟩, obj, atys, st, ty, hty, hok, hcur => by
    simp only at hty hcur
    unfold ToOK at hok
    unfold copyToField copyToFieldWith
    simp only [Option.getD, hty, hcur]
    cases hkind : info.kind with
    | primitive =>
      simp only [hkind] at hok
      obtain ⟨⟨k, hk, rfl⟩, hcases⟩ := hok
      rcases hcases with hph | ⟨hpe, hpn, hoo⟩ | ⟨hreach, htyped⟩
      · -- placeholder
        refine ⟨.prim k false true k.zeroSc, [], ?_, ?_⟩
        · simp [primBody, primFresh, hk, nullOfTy, hph, assignPrim, ToSt.set]
        · simp [rendersVal3, hkind, hph, isNull, noUnknownFlat]
      · -- child of a nil embedded message
        have hsh := shadow_id info obj hoo
        by_cases hph : info.isPlaceholder = true
        · refine ⟨.prim k false true k.zeroSc, [], ?_, ?_⟩
          · simp [primBody, primFresh, hk, nullOfTy, hph, assignPrim, ToSt.set]
          · simp [rendersVal3, hkind, hph, isNull, noUnknownFlat]
        · have hph' : info.isPlaceholder = false := by simpa using hph
          refine ⟨.prim k false true k.zeroSc, [], ?_, ?_⟩
          · rw [hsh]
            unfold primBody
            simp only [hk, primFresh, nullOfTy, hph', hpe, hpn]
            by_cases hzv : (info.tf.zeroValue != "") = true
            · simp [hzv, assignPrim, hph', hpe, hpn, ToSt.set]
            · simp [hzv, assignPrim, hph', hpe, hpn, ToSt.set]
          · simp [rendersVal3, hkind, hph', hpe, hpn, primKindOf, hk]
      · by_cases hph : info.isPlaceholder = true
        · refine ⟨.prim k false true k.zeroSc, [], ?_, ?_⟩
          · simp [primBody, primFresh, hk, nullOfTy, hph, assignPrim, ToSt.set]
          · simp [rendersVal3, hkind, hph, isNull, noUnknownFlat]
        · have hph' : info.isPlaceholder = false := by simpa using hph
          have hne : info.parentIsOptionalEmbed = false ∨ info.oneOfName = "" := by
            by_cases hp : info.parentIsOptionalEmbed = true
            · exact Or.inr (hreach hp).2.1
            · exact Or.inl (by simpa using hp)
          have hrd := readField_getVal info obj hreach hne
          have hnil0 := not_nil_of_reachable info obj hreach
          have hnil : ¬ (info.parentIsOptionalEmbed = true ∧ parentIsNil info (oneOfShadow info obj) = true) := by
            intro ⟨hp, hn⟩
            have hoo := (hreach hp).2.1
            rw [shadow_id info obj hoo] at hn
            exact hnil0 ⟨hp, hn⟩
          obtain ⟨v, hrun, hr⟩ := primBody_fresh_renders info k (oneOfShadow info obj) (getVal info obj) hk hph' hnil htyped
          refine ⟨v, [], ?_, ?_⟩
          · rw [hrd, hrun]; simp [ToSt.set]
          · have hnn : (info.parentIsOptionalEmbed && parentIsNil info obj) = false := by
              cases h1 : info.parentIsOptionalEmbed <;> cases h2 : parentIsNil info obj <;> simp_all
            simp [rendersVal3, hkind, hph', hnn, hr]
    | custom =>
      simp only [hkind] at hok
      obtain ⟨hoo, hreach, v, hv⟩ := hok
      have hrd := readField_getVal info obj hreach (Or.inr hoo)
      rw [shadow_id info obj hoo] at hrd
      refine ⟨v, [.copyTo ("CopyTo" ++ info.suffix) (getVal info obj) (some ty) .nilv], ?_, ?_⟩
      · simp [hrd, hv, ToSt.set]
      · simp only [rendersVal3, hkind]
        exact hookTo_custRenders _ _ _ hv
    | object =>
      simp only [hkind] at hok
      obtain ⟨hreach, as, rfl, hsub, hE, htyped⟩ := hok
      have hne : info.parentIsOptionalEmbed = false ∨ info.oneOfName = "" := by
        by_cases hp : info.parentIsOptionalEmbed = true
        · exact Or.inr (hreach hp).2.1
        · exact Or.inl (by simpa using hp)
      have hrd := readField_getVal info obj hreach hne
      have hse : sub.isEmpty = false := by cases sub <;> simp_all
      have hrec : RecSpec (fun o a s => copyToFields sub o a s) (some as) (fun s => ToOKs sub s as)
          (fun o as' => rendersFields3 sub o as') := by
        intro s diags hooks hP
        obtain ⟨st', hrun, hd, ⟨hs, hh⟩, hr, _⟩ :=
          toFields_renders3 sub s as { attrs := [], diags := diags, hooks := hooks } hP (by intro f _; simp [List.lookup])
        refine ⟨st'.attrs, hs, ?_, hr⟩
        show copyToFields sub s (some as) _ = _
        rw [hrun]
        cases st'
        simp_all
      obtain ⟨v, hs, hrun, hr⟩ :=
        objBody_fresh (fun o a s => copyToFields sub o a s) info msg (some as) (getVal info obj) st.diags st.hooks
          (fun s => ToOKs sub s as) (fun o as' => rendersFields3 sub o as') hrec hE htyped
      refine ⟨v, hs, ?_, ?_⟩
      · dsimp only
        rw [hrd, hse, hrun]
      · simp only [rendersVal3, hkind]
        exact hr
    | primitiveList =>
      simp only [hkind] at hok
      obtain ⟨hrep, hoo, hnp, hreach, k, hk, rfl, hval⟩ := hok
      have hrd := readField_getVal info obj hreach (Or.inr hoo)
      rw [shadow_id info obj hoo] at hrd
      simp only [hrep, if_true]
      rw [hrd]
      rcases hval with hnil | ⟨es, hes, htyped⟩
      · rw [hnil]
        refine ⟨.list false true (some []) (some (.prim k)), [], ?_, ?_⟩
        · simp [listOrMapBody, hrep, reuseList, ToSt.set]
        · simp [rendersVal3, hkind, hnil, sliceElems]
      · rw [hes]
        have hoty : elemObjTy (info.kind == .objectList || info.kind == .objectMap) (some (.prim k)) = .ok none := by
          simp [elemObjTy, hkind]
        have hbody : elemBodyOf (fun o a s => copyToFields sub o a s) info msg sub.isEmpty obj (some (.prim k)) none =
            primElemBody info obj (some (.prim k)) := by simp [elemBodyOf, hkind]
        have hb := primElem_spec info k obj es hk hnp (not_nil_of_reachable info obj hreach) htyped
        rw [← hbody] at hb
        obtain ⟨r, hs, hrun, hlen, hall⟩ :=
          listBody_fresh (fun o a s => copyToFields sub o a s) info msg sub.isEmpty obj (some (.prim k)) es st none
            (fun e v => primRenders info e v) hrep hoty hb
        refine ⟨_, hs, hrun, ?_⟩
        simp [rendersVal3, hkind, hes, sliceElems, hlen, hall]
    | primitiveMap =>
      simp only [hkind] at hok
      obtain ⟨hrep, hoo, hnp, hreach, hzv, k, hk, rfl, hval⟩ := hok
      have hrd := readField_getVal info obj hreach (Or.inr hoo)
      rw [shadow_id info obj hoo] at hrd
      simp only [hrep, Bool.false_eq_true, if_false]
      rw [hrd]
      rcases hval with hnil | ⟨es, hes, hnd, htyped⟩
      · rw [hnil]
        refine ⟨.map false true (some []) (some (.prim k)), [], ?_, ?_⟩
        · simp [listOrMapBody, hrep, reuseMap, ToSt.set]
        · simp [rendersVal3, hkind, hnil, mapElems]
      · rw [hes]
        have hoty : elemObjTy (info.kind == .objectList || info.kind == .objectMap) (some (.prim k)) = .ok none := by
          simp [elemObjTy, hkind]
        have hbody : elemBodyOf (fun o a s => copyToFields sub o a s) info msg sub.isEmpty obj (some (.prim k)) none =
            primElemBody info obj (some (.prim k)) := by simp [elemBodyOf, hkind]
        have hb := primElem_spec info k obj (es.map (·.2)) hk hnp (not_nil_of_reachable info obj hreach)
          (by intro e he; simp at he; obtain ⟨a, ha⟩ := he; exact htyped _ ha)
        rw [← hbody] at hb
        obtain ⟨r, hs, hrun, hlen, hall⟩ :=
          mapBody_fresh (fun o a s => copyToFields sub o a s) info msg sub.isEmpty obj (some (.prim k)) es st none
            (fun e v => primRenders info e v) hrep hoty hnd hb
        refine ⟨_, hs, hrun, ?_⟩
        simp only [rendersVal3, hkind, hes, mapElems, Option.getD]
        simp [hlen]
        intro a b hab
        obtain ⟨v, hv, hq⟩ := hall (a, b) hab
        simp [hv, hq]
    | objectList =>
      simp only [hkind] at hok
      obtain ⟨hrep, hoo, hreach, _, as, rfl, hsub, hne, hval⟩ := hok
      have hrd := readField_getVal info obj hreach (Or.inr hoo)
      rw [shadow_id info obj hoo] at hrd
      have hse : sub.isEmpty = false := by cases sub <;> simp_all
      simp only [hrep, if_true]
      rw [hrd]
      rcases hval with hnil | ⟨es, hes, htyped⟩
      · rw [hnil]
        refine ⟨.list false true (some []) (some (.obj (some as))), [], ?_, ?_⟩
        · simp [listOrMapBody, hrep, reuseList, ToSt.set]
        · simp [rendersVal3, hkind, hnil, sliceElems]
      · rw [hes]
        have hoty : elemObjTy (info.kind == .objectList || info.kind == .objectMap) (some (.obj (some as))) = .ok (some as) := by
          simp [elemObjTy, hkind]
        have hrec : RecSpec (fun o a s => copyToFields sub o a s) (some as) (fun s => ToOKs sub s as)
            (fun o as' => rendersFields3 sub o as') := by
          intro s diags hooks hP
          obtain ⟨st', hrun, hd, ⟨hs, hh⟩, hr, _⟩ :=
            toFields_renders3 sub s as { attrs := [], diags := diags, hooks := hooks } hP (by intro f _; simp [List.lookup])
          refine ⟨st'.attrs, hs, ?_, hr⟩
          show copyToFields sub s (some as) _ = _
          rw [hrun]
          cases st'
          simp_all
        have hb : BodySpec (elemBodyOf (fun o a s => copyToFields sub o a s) info msg sub.isEmpty obj (some (.obj (some as))) (some as))
            (fun e v => objRenders info.isNullable (fun o as' => rendersFields3 sub o as') e v) es := by
          intro a ha diags hooks
          have hE : isEmptyMsg msg = true → ∀ fs, a = .ptr (some (.struct fs)) ∨ a = .struct fs → fs = [] := by
            intro h; rw [hne] at h; cases h
          obtain ⟨v, hs, hrun, hr⟩ := objBody_fresh (fun o a s => copyToFields sub o a s) info msg (some as) a diags hooks
            (fun s => ToOKs sub s as) (fun o as' => rendersFields3 sub o as') hrec hE (htyped a ha)
          refine ⟨v, hs, ?_, hr⟩
          simp only [elemBodyOf, hkind, hse]
          simpa using hrun
        obtain ⟨r, hs, hrun, hlen, hall⟩ :=
          listBody_fresh (fun o a s => copyToFields sub o a s) info msg sub.isEmpty obj (some (.obj (some as))) es st (some as)
            _ hrep hoty hb
        refine ⟨_, hs, hrun, ?_⟩
        simp [rendersVal3, hkind, hes, sliceElems, hlen, hall]
    | objectMap =>
      simp only [hkind] at hok
      obtain ⟨hrep, hoo, hreach, _, as, rfl, hsub, hne, hval⟩ := hok
      have hrd := readField_getVal info obj hreach (Or.inr hoo)
      rw [shadow_id info obj hoo] at hrd
      have hse : sub.isEmpty = false := by cases sub <;> simp_all
      simp only [hrep, Bool.false_eq_true, if_false]
      rw [hrd]
      rcases hval with hnil | ⟨es, hes, hnd, htyped⟩
      · rw [hnil]
        refine ⟨.map false true (some []) (some (.obj (some as))), [], ?_, ?_⟩
        · simp [listOrMapBody, hrep, reuseMap, ToSt.set]
        · simp [rendersVal3, hkind, hnil, mapElems]
      · rw [hes]
        have hoty : elemObjTy (info.kind == .objectList || info.kind == .objectMap) (some (.obj (some as))) = .ok (some as) := by
          simp [elemObjTy, hkind]
        have hrec : RecSpec (fun o a s => copyToFields sub o a s) (some as) (fun s => ToOKs sub s as)
            (fun o as' => rendersFields3 sub o as') := by
          intro s diags hooks hP
          obtain ⟨st', hrun, hd, ⟨hs, hh⟩, hr, _⟩ :=
            toFields_renders3 sub s as { attrs := [], diags := diags, hooks := hooks } hP (by intro f _; simp [List.lookup])
          refine ⟨st'.attrs, hs, ?_, hr⟩
          show copyToFields sub s (some as) _ = _
          rw [hrun]
          cases st'
          simp_all
        have hb : BodySpec (elemBodyOf (fun o a s => copyToFields sub o a s) info msg sub.isEmpty obj (some (.obj (some as))) (some as))
            (fun e v => objRenders info.isNullable (fun o as' => rendersFields3 sub o as') e v) (es.map (·.2)) := by
          intro a ha diags hooks
          simp at ha
          obtain ⟨key, hka⟩ := ha
          have hE : isEmptyMsg msg = true → ∀ fs, a = .ptr (some (.struct fs)) ∨ a = .struct fs → fs = [] := by
            intro h; rw [hne] at h; cases h
          obtain ⟨v, hs, hrun, hr⟩ := objBody_fresh (fun o a s => copyToFields sub o a s) info msg (some as) a diags hooks
            (fun s => ToOKs sub s as) (fun o as' => rendersFields3 sub o as') hrec hE (htyped _ hka)
          refine ⟨v, hs, ?_, hr⟩
          simp only [elemBodyOf, hkind, hse]
          simpa using hrun
        obtain ⟨r, hs, hrun, hlen, hall⟩ :=
          mapBody_fresh (fun o a s => copyToFields sub o a s) info msg sub.isEmpty obj (some (.obj (some as))) es st (some as)
            _ hrep hoty hnd hb
        refine ⟨_, hs, hrun, ?_⟩
        simp only [rendersVal3, hkind, hes, mapElems, Option.getD]
        simp [hlen]
        intro a b hab
        obtain ⟨v, hv, hq⟩ := hall (a, b) hab
        simp [hv, hq]

theorem toFields_renders3 : ∀ (fs : List Field) (obj : GoVal) (atys : List (String × TfTy)) (st : ToSt),
    ToOKs fs obj atys → (∀ f ∈ fs, st.attrs.lookup f.info.nameSnake = none) →
    ∃ st', copyToFields fs obj (some atys) st = .ok st' ∧ st'.diags = st.diags ∧ (∃ hs, st'.hooks = st.hooks ++ hs) ∧
      rendersFields3 fs obj st'.attrs = true ∧
      (∀ key, key ∉ fs.map (·.info.nameSnake) → st'.attrs.lookup key = st.attrs.lookup key)
  | [], obj, atys, st, _, _ => ⟨st, by simp [copyToFields], rfl, ⟨[], by simp⟩, by simp [rendersFields3], by simp⟩
  | f :: rest, obj, atys, st, hok, hnone => by
    unfold ToOKs at hok
    obtain ⟨⟨ty, hty, hf⟩, hnotin, hrest⟩ := hok
    obtain ⟨v, hs1, hstep, hr⟩ := toField_renders3 f obj atys st ty hty hf (hnone f (by simp))
    have hnone1 : ∀ g ∈ rest, (setKey f.info.nameSnake v st.attrs).lookup g.info.nameSnake = none := by
      intro g hg
      have hne : g.info.nameSnake ≠ f.info.nameSnake := by
        intro e
        exact hnotin (by rw [← e]; exact List.mem_map_of_mem hg)
      rw [lookup_setKey_other _ _ _ hne]
      exact hnone g (by simp [hg])
    obtain ⟨st', hrun, hd, ⟨hs2, hh⟩, hrr, hframe⟩ :=
      toFields_renders3 rest obj atys { attrs := setKey f.info.nameSnake v st.attrs, diags := st.diags, hooks := st.hooks ++ hs1 }
        hrest hnone1
    refine ⟨st', ?_, hd, ⟨hs1 ++ hs2, by simp [hh]⟩, ?_, ?_⟩
    · simp only [copyToFields, hstep]
      exact hrun
    · simp only [rendersFields3]
      have : st'.attrs.lookup f.info.nameSnake = some v := by
        rw [hframe _ hnotin]
        exact lookup_setKey_same _ _ _
      simp [this, hr, hrr]
    · intro key hkey
      simp at hkey
      rw [hframe key (by simpa using hkey.2)]
      exact lookup_setKey_other _ _ _ hkey.1 _

end

/-- **CopyTo renders, strong form** (`C03_total` with `rendersFields3`) -/
theorem copyTo_renders3 (m : Msg) (obj : GoVal) (atys : List (String × TfTy)) (h : ToOKs m.fields obj atys) :
    ∃ r as, copyTo m obj (.obj false false none (some atys)) = .ok r ∧ r.diags = [] ∧
      r.tf = .obj false false (some as) (some atys) ∧ rendersFields3 m.fields obj as = true := by
  obtain ⟨st', hrun, hd, _, hr, _⟩ :=
    toFields_renders3 m.fields obj atys { attrs := [] } h (by intro f _; simp [List.lookup])
  refine ⟨{ tf := .obj false false (some st'.attrs) (some atys), diags := st'.diags, hooks := st'.hooks }, st'.attrs, ?_, ?_, rfl, hr⟩
  · simp [copyTo, hrun]
  · simpa using hd

end PGT

/-
C04 for children of nullable embedded messages and for custom types, part 2: the field blocks of CopyFrom read a rendering
back – the lemmas of `RoundTrip.lean` with the rendering relation of the nested message abstracted and the hook log free
(custom fields log their hook calls), the custom block, and the blocks of children of a nullable embedded message (they run
like the block of the same field of the embedded struct).
-/
namespace PGT
open PGT.Spec PGT.Props

/-- what the recursive call on the nested message does with a rendering (`RecReads` with the rendering relation abstracted;
the hook log may grow) -/
def RecReads3 (rec : FromRec) (R : GoVal → List (String × TfVal) → Bool) (sub : List Field) (P : GoVal → Prop) : Prop :=
  ∀ (s : GoVal) (as : Option (List (String × TfVal))) (ds : List Diag) (hs : List HookCall),
    R s (as.getD []) = true → P s →
    ∃ o hs', rec as { obj := .struct [], diags := ds, hooks := hs } = .ok { obj := o, diags := ds, hooks := hs' } ∧
      IsStruct o ∧ nfEqFields sub s o = true

/-- result of a field block: the field is assigned `y`, the hook log may grow, nothing else happens -/
def WritesField3 (info : FieldInfo) (st : FromSt) (o : Outcome FromSt) (P : GoVal → Prop) : Prop :=
  ∃ y hs', o = .ok { obj := st.obj.setField info.name y, diags := st.diags, hooks := hs' } ∧ P y

theorem writesField3_of (info : FieldInfo) (st : FromSt) (o : Outcome FromSt) (P : GoVal → Prop)
    (h : WritesField info st o P) : WritesField3 info st o P := by
  obtain ⟨y, ho, hy⟩ := h
  exact ⟨y, st.hooks, ho, hy⟩

theorem fieldWith_obj3 (rec : FromRec) (ov : List (String × String)) (info : FieldInfo) (mv : Option FieldInfo)
    (msg : Option MsgInfo) (sub : List Field) (attrs : Option (List (String × TfVal))) (st : FromSt) (a : TfVal) (x : GoVal)
    (R : GoVal → List (String × TfVal) → Bool) (P : GoVal → Prop) (hrec : RecReads3 rec R sub P)
    (hk : info.kind = .object) (ho : info.oneOfName = "") (he : info.parentIsOptionalEmbed = false)
    (hem : EmptyOK msg sub) (hvt : vkindOf info.tf.valueType = .obj)
    (hx : MsgTyped info.isNullable P x)
    (hl : (attrs.getD []).lookup info.nameSnake = some a)
    (hr : objRenders info.isNullable R x a = true) :
    WritesField3 info st (copyFromFieldWith rec ov info mv msg attrs st)
      (fun y => msgNfEq info.isNullable sub x y = true) := by
  cases a with
  | obj u n as atys =>
    unfold objRenders at hr
    simp only [Bool.and_eq_true, Bool.not_eq_true'] at hr
    obtain ⟨hu, hr⟩ := hr
    subst hu
    unfold MsgTyped at hx
    unfold copyFromFieldWith WritesField3
    simp only [hk, hl, TfVal.vkind, hvt, embedGuard_plain info _ _ he, ho, writeField_plain info _ _ he]
    by_cases hn : info.isNullable = true
    · simp only [hn, if_true] at hx hr ⊢
      simp only [Bool.and_eq_true, beq_iff_eq, Bool.or_eq_true] at hr
      rcases hx with rfl | ⟨fs, rfl, hP⟩
      · have : n = true := by simpa [isNilPtr] using hr.1
        subst this
        refine ⟨.ptr none, st.hooks, by simp [known], by simp [msgNfEq, isNilPtr]⟩
      · have hnn : n = false := by simpa [isNilPtr] using hr.1
        subst hnn
        have hR : R (.struct fs) (as.getD []) = true := by simpa [isNilPtr, structOf] using hr.2
        cases hE : isEmptyMsg msg with
        | true =>
          refine ⟨.ptr (some (.struct [])), st.hooks, by simp [known, setField_setField_same], ?_⟩
          simp [msgNfEq, isNilPtr, structOf, nfEqFields_placeholders sub _ _ (hem hE)]
        | false =>
          obtain ⟨o, hs', hrun, _, hnf⟩ := hrec (.struct fs) as st.diags st.hooks hR hP
          refine ⟨.ptr (some o), hs', ?_, ?_⟩
          · simp [known, hrun, setField_setField_same]
          · simp [msgNfEq, isNilPtr, structOf, hnf]
    · have hn' : info.isNullable = false := by simpa using hn
      simp only [hn', Bool.false_eq_true, if_false] at hx hr ⊢
      simp only [Bool.and_eq_true, Bool.not_eq_true'] at hr
      obtain ⟨fs, rfl, hP⟩ := hx
      obtain ⟨hnn, hR⟩ := hr
      subst hnn
      have hR' : R (.struct fs) (as.getD []) = true := by simpa [structOf] using hR
      cases hE : isEmptyMsg msg with
      | true =>
        refine ⟨.struct [], st.hooks, by simp [known, setField_setField_same], ?_⟩
        simp [msgNfEq, structOf, nfEqFields_placeholders sub _ _ (hem hE)]
      | false =>
        obtain ⟨o, hs', hrun, hso, hnf⟩ := hrec (.struct fs) as st.diags st.hooks hR' hP
        refine ⟨o, hs', ?_, ?_⟩
        · simp [known, hrun, setField_setField_same]
        · have hso' : structOf o = o := by cases o <;> simp_all [IsStruct, structOf]
          simp only [msgNfEq, Bool.false_eq_true, if_false, hso']
          simpa [structOf] using hnf
  | prim _ _ _ _ => simp [objRenders] at hr
  | list _ _ _ _ => simp [objRenders] at hr
  | map _ _ _ _ => simp [objRenders] at hr
  | nilv => simp [objRenders] at hr
  | foreign _ => simp [objRenders] at hr

/-- a message branch of a oneof group (`fieldWith_obj_branch` with the rendering relation abstracted) -/
theorem fieldWith_obj_branch3 (rec : FromRec) (ov : List (String × String)) (info : FieldInfo) (mv : Option FieldInfo)
    (msg : Option MsgInfo) (sub : List Field) (attrs : Option (List (String × TfVal))) (st : FromSt) (a : TfVal) (x : GoVal)
    (R : GoVal → List (String × TfVal) → Bool) (P : GoVal → Prop) (hrec : RecReads3 rec R sub P)
    (hk : info.kind = .object) (ho : info.oneOfName ≠ "") (he : info.parentIsOptionalEmbed = false)
    (_hn : info.isNullable = true) (hem : EmptyOK msg sub) (hvt : vkindOf info.tf.valueType = .obj)
    (hx : MsgTyped true P x)
    (hl : (attrs.getD []).lookup info.nameSnake = some a)
    (hr : objRenders true R x a = true) :
    (x = .ptr none ∧ copyFromFieldWith rec ov info mv msg attrs st = .ok st) ∨
    (∃ fs o hs', x = .ptr (some (.struct fs)) ∧ copyFromFieldWith rec ov info mv msg attrs st =
        .ok { obj := st.obj.setField info.oneOfName (.iface (some (lastSegment info.oneOfType, info.name, .ptr (some o)))),
              diags := st.diags, hooks := hs' } ∧
      nfEqFields sub (.struct fs) (structOf (.ptr (some o))) = true) := by
  have hoe : (info.oneOfName == "") = false := by simpa using ho
  cases a with
  | obj u n as atys =>
    unfold objRenders at hr
    simp only [if_true, Bool.and_eq_true, Bool.not_eq_true', beq_iff_eq, Bool.or_eq_true] at hr
    obtain ⟨hu, hnn, hR⟩ := hr
    subst hu
    unfold MsgTyped at hx
    simp only [if_true] at hx
    rcases hx with rfl | ⟨fs, rfl, hP⟩
    · left
      have : n = true := by simpa [isNilPtr] using hnn
      subst this
      refine ⟨rfl, ?_⟩
      unfold copyFromFieldWith
      simp [hk, hl, TfVal.vkind, hvt, embedGuard_plain info _ _ he, hoe, known]
    · right
      have : n = false := by simpa [isNilPtr] using hnn
      subst this
      have hR' : R (.struct fs) (as.getD []) = true := by simpa [isNilPtr, structOf] using hR
      cases hE : isEmptyMsg msg with
      | true =>
        refine ⟨fs, .struct [], st.hooks, rfl, ?_, ?_⟩
        · unfold copyFromFieldWith
          simp [hk, hl, TfVal.vkind, hvt, embedGuard_plain info _ _ he, hoe, known, hE]
        · exact nfEqFields_placeholders sub _ _ (hem hE)
      | false =>
        obtain ⟨o, hs', hrun, _, hnf⟩ := hrec (.struct fs) as st.diags st.hooks hR' hP
        refine ⟨fs, o, hs', rfl, ?_, by simpa [structOf] using hnf⟩
        unfold copyFromFieldWith
        simp [hk, hl, TfVal.vkind, hvt, embedGuard_plain info _ _ he, hoe, known, hE, hrun]
  | prim _ _ _ _ => simp [objRenders] at hr
  | list _ _ _ _ => simp [objRenders] at hr
  | map _ _ _ _ => simp [objRenders] at hr
  | nilv => simp [objRenders] at hr
  | foreign _ => simp [objRenders] at hr

-- ------------------------------------------------------------------------------------------------------
-- element loops

/-- the element body reads the rendering `v` of a typed element `e` back as some `y` related to `e` by `Q` (the hook log
may grow) -/
def ElemReads3 (body : TfVal → List Diag → List HookCall → Outcome (Option GoVal × List Diag × List HookCall))
    (T : GoVal → Prop) (R : GoVal → TfVal → Bool) (Q : GoVal → GoVal → Bool) : Prop :=
  ∀ e v ds hs, T e → R e v = true → ∃ y hs', body v ds hs = .ok (some y, ds, hs') ∧ Q e y = true

theorem elemReads3_of (body : TfVal → List Diag → List HookCall → Outcome (Option GoVal × List Diag × List HookCall))
    (T : GoVal → Prop) (R : GoVal → TfVal → Bool) (Q : GoVal → GoVal → Bool) (h : ElemReads body T R Q) :
    ElemReads3 body T R Q := by
  intro e v ds hs hT hR
  obtain ⟨y, hrun, hq⟩ := h e v ds hs hT hR
  exact ⟨y, hs, hrun, hq⟩

theorem fromElemsList_reads3 (body : TfVal → List Diag → List HookCall → Outcome (Option GoVal × List Diag × List HookCall))
    (T : GoVal → Prop) (R : GoVal → TfVal → Bool) (Q : GoVal → GoVal → Bool) (hb : ElemReads3 body T R Q)
    (ds : List Diag) :
    ∀ (vs : List TfVal) (xs : List GoVal) (pre post : List GoVal) (hs : List HookCall),
      vs.length = xs.length → (xs.zip vs).all (fun (e, v) => R e v) = true → (∀ e ∈ xs, T e) → post.length = vs.length →
      ∃ ys hs', fromElemsList body vs pre.length (pre ++ post) ds hs = .ok (pre ++ ys, ds, hs') ∧ ys.length = xs.length ∧
        (xs.zip ys).all (fun (e, y) => Q e y) = true
  | [], xs, pre, post, hs, hl, _, _, hp => by
    have hx : xs = [] := by cases xs <;> simp_all
    have hpost : post = [] := by simpa using hp
    subst hx hpost
    exact ⟨[], hs, by simp [fromElemsList], rfl, by simp⟩
  | v :: vs, xs, pre, post, hs, hl, hall, hT, hp => by
    cases xs with
    | nil => simp at hl
    | cons e xs =>
      cases post with
      | nil => simp at hp
      | cons p0 post' =>
        simp only [List.zip_cons_cons, List.all_cons, Bool.and_eq_true] at hall
        obtain ⟨y, hs1, hrun, hq⟩ := hb e v ds hs (hT e (by simp)) hall.1
        have hset : (pre ++ p0 :: post').set pre.length y = (pre ++ [y]) ++ post' := by
          simp [List.set_append_right]
        obtain ⟨ys, hs2, hrun2, hlen, hall2⟩ := fromElemsList_reads3 body T R Q hb ds vs xs (pre ++ [y]) post' hs1
          (by simpa using hl) hall.2 (fun e' he' => hT e' (by simp [he'])) (by simpa using hp)
        refine ⟨y :: ys, hs2, ?_, by simp [hlen], by simp [hq, hall2]⟩
        simp only [fromElemsList, hrun, hset]
        have : (pre ++ [y]).length = pre.length + 1 := by simp
        rw [this] at hrun2
        rw [hrun2]
        simp

theorem elemReads_obj3 (rec : FromRec) (ov : List (String × String)) (info vf : FieldInfo) (sub : List Field)
    (R : GoVal → List (String × TfVal) → Bool) (P : GoVal → Prop) (hrec : RecReads3 rec R sub P)
    (hvf : vkindOf vf.tf.elemValueType = .obj) (hk : info.kind = .objectList ∨ info.kind = .objectMap) :
    ElemReads3 (fromElemBody rec ov info vf) (MsgTyped info.isNullable P)
      (fun e v => objRenders info.isNullable R e v)
      (fun e y => msgNfEq info.isNullable sub e y) := by
  intro e v ds hs hT hR
  cases v with
  | obj u n as atys =>
    unfold objRenders at hR
    simp only [Bool.and_eq_true, Bool.not_eq_true'] at hR
    obtain ⟨hu, hR⟩ := hR
    subst hu
    unfold MsgTyped at hT
    unfold fromElemBody
    have hkk : (info.kind == .objectList || info.kind == .objectMap) = true := by rcases hk with hk | hk <;> simp [hk]
    simp only [TfVal.vkind, hvf, hkk, if_true]
    by_cases hn : info.isNullable = true
    · simp only [hn, if_true] at hT hR ⊢
      simp only [Bool.and_eq_true, beq_iff_eq, Bool.or_eq_true] at hR
      rcases hT with rfl | ⟨fs, rfl, hP⟩
      · have : n = true := by simpa [isNilPtr] using hR.1
        subst this
        exact ⟨.ptr none, hs, by simp [known, zeroMsg, hn], by simp [msgNfEq, isNilPtr]⟩
      · have hnn : n = false := by simpa [isNilPtr] using hR.1
        subst hnn
        have hR' : R (.struct fs) (as.getD []) = true := by simpa [isNilPtr, structOf] using hR.2
        obtain ⟨o, hs', hrun, _, hnf⟩ := hrec (.struct fs) as ds hs hR' hP
        refine ⟨.ptr (some o), hs', by simp [known, hrun], ?_⟩
        simp [msgNfEq, isNilPtr, structOf, hnf]
    · have hn' : info.isNullable = false := by simpa using hn
      simp only [hn', Bool.false_eq_true, if_false] at hT hR ⊢
      simp only [Bool.and_eq_true, Bool.not_eq_true'] at hR
      obtain ⟨fs, rfl, hP⟩ := hT
      obtain ⟨hnn, hR⟩ := hR
      subst hnn
      have hR' : R (.struct fs) (as.getD []) = true := by simpa [structOf] using hR
      obtain ⟨o, hs', hrun, hso, hnf⟩ := hrec (.struct fs) as ds hs hR' hP
      refine ⟨o, hs', by simp [known, hrun], ?_⟩
      have hso' : structOf o = o := by cases o <;> simp_all [IsStruct, structOf]
      simp only [msgNfEq, Bool.false_eq_true, if_false, hso']
      simpa [structOf] using hnf
  | prim _ _ _ _ => simp [objRenders] at hR
  | list _ _ _ _ => simp [objRenders] at hR
  | map _ _ _ _ => simp [objRenders] at hR
  | nilv => simp [objRenders] at hR
  | foreign _ => simp [objRenders] at hR

theorem fieldWith_list3 (rec : FromRec) (ov : List (String × String)) (info : FieldInfo) (mv : Option FieldInfo)
    (msg : Option MsgInfo) (attrs : Option (List (String × TfVal))) (st : FromSt) (a : TfVal) (x : GoVal)
    (T : GoVal → Prop) (R : GoVal → TfVal → Bool) (Q : GoVal → GoVal → Bool)
    (hb : ElemReads3 (fromElemBody rec ov info info) T R Q)
    (hk : info.kind = .primitiveList ∨ info.kind = .objectList) (_ho : info.oneOfName = "")
    (he : info.parentIsOptionalEmbed = false) (hvt : vkindOf info.tf.valueType = .list)
    (hT : ∀ e ∈ sliceElems x, T e)
    (hl : (attrs.getD []).lookup info.nameSnake = some a) (hr : listRenders R x a = true) :
    WritesField3 info st (copyFromFieldWith rec ov info mv msg attrs st)
      (fun y => ((sliceElems x).length == (sliceElems y).length &&
        ((sliceElems x).zip (sliceElems y)).all fun (p, q) => Q p q) = true) := by
  cases a with
  | list u n es ety =>
    unfold listRenders at hr
    simp only [Bool.and_eq_true, Bool.not_eq_true', beq_iff_eq] at hr
    obtain ⟨⟨⟨hu, hn⟩, hlen⟩, hall⟩ := hr
    subst hu
    unfold copyFromFieldWith WritesField3
    cases n with
    | true =>
      have hx : sliceElems x = [] := by
        have : (sliceElems x).isEmpty = true := hn.symm
        simpa using this
      refine ⟨.slice (some []), st.hooks, ?_, by simp only [hx]; simp [sliceElems]⟩
      rcases hk with hk | hk <;>
        simp [hk, hl, TfVal.vkind, hvt, embedGuard_plain info _ _ he, writeField_plain info _ _ he, known]
    | false =>
      obtain ⟨ys, hs', hrun, hlen2, hall2⟩ := fromElemsList_reads3 (fromElemBody rec ov info info) T R Q hb st.diags
        (es.getD []) (sliceElems x) [] (List.replicate (es.getD []).length (zeroElem info)) st.hooks hlen hall hT (by simp)
      simp only [List.length_nil, List.nil_append] at hrun
      refine ⟨.slice (some ys), hs', ?_, by
        have hsl : sliceElems (GoVal.slice (some ys)) = ys := rfl
        simp only [hsl]
        simp [hlen2, hall2]⟩
      rcases hk with hk | hk <;>
        simp [hk, hl, TfVal.vkind, hvt, embedGuard_plain info _ _ he, writeField_plain info _ _ he, known, hrun,
          setField_setField_same]
  | prim _ _ _ _ => simp [listRenders] at hr
  | obj _ _ _ _ => simp [listRenders] at hr
  | map _ _ _ _ => simp [listRenders] at hr
  | nilv => simp [listRenders] at hr
  | foreign _ => simp [listRenders] at hr

theorem fromElemsMap_reads3 (body : TfVal → List Diag → List HookCall → Outcome (Option GoVal × List Diag × List HookCall))
    (T : GoVal → Prop) (R : GoVal → TfVal → Bool) (Q : GoVal → GoVal → Bool) (hb : ElemReads3 body T R Q)
    (X : List (String × GoVal)) (ds : List Diag) :
    ∀ (vs : List (String × TfVal)) (acc : List (String × GoVal)) (hs : List HookCall),
      (vs.map (·.1)).Nodup → (∀ kv ∈ vs, acc.lookup kv.1 = none) →
      (∀ kv ∈ vs, ∃ e, X.lookup kv.1 = some e ∧ T e ∧ R e kv.2 = true) →
      ∃ ys hs', fromElemsMap body vs acc ds hs = .ok (ys, ds, hs') ∧ ys.length = acc.length + vs.length ∧
        (∀ kv ∈ vs, ∃ e y, X.lookup kv.1 = some e ∧ ys.lookup kv.1 = some y ∧ Q e y = true) ∧
        (∀ key, key ∉ vs.map (·.1) → ys.lookup key = acc.lookup key)
  | [], acc, hs, _, _, _ => ⟨acc, hs, by simp [fromElemsMap], by simp, by simp, by simp⟩
  | (k, v) :: rest, acc, hs, hnd, hnone, hsrc => by
    simp only [List.map_cons, List.nodup_cons] at hnd
    obtain ⟨e, hxe, hTe, hRe⟩ := hsrc (k, v) (by simp)
    obtain ⟨y, hs1, hrun, hq⟩ := hb e v ds hs hTe hRe
    have hnone' : ∀ kv ∈ rest, (setKey k y acc).lookup kv.1 = none := by
      intro kv hkv
      have hne : kv.1 ≠ k := by
        intro h
        exact hnd.1 (by rw [← h]; exact List.mem_map_of_mem (f := (·.1)) hkv)
      rw [lookup_setKey_other _ _ _ hne]
      exact hnone kv (by simp [hkv])
    obtain ⟨ys, hs2, hrun2, hlen, hall, hframe⟩ := fromElemsMap_reads3 body T R Q hb X ds rest (setKey k y acc) hs1 hnd.2 hnone'
      (fun kv hkv => hsrc kv (by simp [hkv]))
    refine ⟨ys, hs2, ?_, ?_, ?_, ?_⟩
    · simp only [fromElemsMap, hrun]
      exact hrun2
    · rw [hlen, length_setKey_new k y acc (hnone (k, v) (by simp))]
      simp; omega
    · intro kv hkv
      simp only [List.mem_cons] at hkv
      rcases hkv with rfl | hkv
      · refine ⟨e, y, hxe, ?_, hq⟩
        rw [hframe k hnd.1]
        exact lookup_setKey_same _ _ _
      · exact hall kv hkv
    · intro key hkey
      simp only [List.map_cons, List.mem_cons, not_or] at hkey
      rw [hframe key hkey.2]
      exact lookup_setKey_other _ _ _ hkey.1 _

theorem fieldWith_map3 (rec : FromRec) (ov : List (String × String)) (info : FieldInfo) (mv : Option FieldInfo)
    (msg : Option MsgInfo) (attrs : Option (List (String × TfVal))) (st : FromSt) (a : TfVal) (x : GoVal)
    (T : GoVal → Prop) (R : GoVal → TfVal → Bool) (Q : GoVal → GoVal → Bool)
    (hb : ElemReads3 (fromElemBody rec ov info (mv.getD info)) T R Q)
    (hk : info.kind = .primitiveMap ∨ info.kind = .objectMap) (_ho : info.oneOfName = "")
    (he : info.parentIsOptionalEmbed = false) (hvt : vkindOf info.tf.valueType = .map)
    (hnd : ((mapElems x).map (·.1)).Nodup) (hT : ∀ e ∈ mapElems x, T e.2)
    (hl : (attrs.getD []).lookup info.nameSnake = some a) (hr : mapRenders R x a = true) :
    WritesField3 info st (copyFromFieldWith rec ov info mv msg attrs st)
      (fun y => ((mapElems x).length == (mapElems y).length &&
        (mapElems x).all fun (k, p) => match (mapElems y).lookup k with | some q => Q p q | none => false) = true) := by
  cases a with
  | map u n es ety =>
    unfold mapRenders at hr
    simp only [Bool.and_eq_true, Bool.not_eq_true', beq_iff_eq] at hr
    obtain ⟨⟨⟨hu, hn⟩, hlen⟩, hall⟩ := hr
    subst hu
    unfold copyFromFieldWith WritesField3
    cases n with
    | true =>
      have hx : mapElems x = [] := by
        have : (mapElems x).isEmpty = true := hn.symm
        simpa using this
      refine ⟨.map (some []), st.hooks, ?_, by simp only [hx]; simp [mapElems]⟩
      rcases hk with hk | hk <;>
        simp [hk, hl, TfVal.vkind, hvt, embedGuard_plain info _ _ he, writeField_plain info _ _ he, known]
    | false =>
      have hsome : ∀ kv ∈ mapElems x, ((es.getD []).lookup kv.1).isSome = true := by
        intro kv hkv
        have := List.all_eq_true.mp hall kv hkv
        cases hlk : (es.getD []).lookup kv.1 with
        | none => simp [hlk] at this
        | some v => rfl
      obtain ⟨hnd2, hkeys⟩ := keys_match (mapElems x) (es.getD []) hnd hsome hlen
      have hsrc : ∀ kv ∈ es.getD [], ∃ e, (mapElems x).lookup kv.1 = some e ∧ T e ∧ R e kv.2 = true := by
        intro kv hkv
        obtain ⟨xe, hxe, hk1⟩ := List.mem_map.mp (hkeys kv hkv)
        have hlx := lookup_of_mem_nodup (mapElems x) xe.1 xe.2 hnd hxe
        have := List.all_eq_true.mp hall xe hxe
        have hle := lookup_of_mem_nodup (es.getD []) kv.1 kv.2 hnd2 hkv
        rw [hk1] at this hlx
        simp only [hle] at this
        exact ⟨xe.2, hlx, hT xe hxe, this⟩
      obtain ⟨ys, hs', hrun, hlen2, hall2, _⟩ := fromElemsMap_reads3 (fromElemBody rec ov info (mv.getD info)) T R Q hb (mapElems x)
        st.diags (es.getD []) [] st.hooks hnd2 (by intro kv _; simp [List.lookup]) hsrc
      refine ⟨.map (some ys), hs', ?_, ?_⟩
      · rcases hk with hk | hk <;>
          simp [hk, hl, TfVal.vkind, hvt, embedGuard_plain info _ _ he, writeField_plain info _ _ he, known, hrun,
            setField_setField_same]
      · have hml : mapElems (GoVal.map (some ys)) = ys := rfl
        simp only [hml, Bool.and_eq_true, beq_iff_eq, List.all_eq_true]
        refine ⟨by simp at hlen2; omega, ?_⟩
        intro xe hxe
        have hmem : xe.1 ∈ (es.getD []).map (·.1) := by
          have := hsome xe hxe
          cases hlk : (es.getD []).lookup xe.1 with
          | none => simp [hlk] at this
          | some v => exact mem_keys_of_lookup _ _ _ hlk
        obtain ⟨kv, hkv, hk1⟩ := List.mem_map.mp hmem
        obtain ⟨e, y, hxl, hyl, hq⟩ := hall2 kv hkv
        have hlx := lookup_of_mem_nodup (mapElems x) xe.1 xe.2 hnd hxe
        rw [hk1] at hxl hyl
        rw [hlx] at hxl
        injection hxl with hxl
        subst hxl
        simp [hyl, hq]
  | prim _ _ _ _ => simp [mapRenders] at hr
  | obj _ _ _ _ => simp [mapRenders] at hr
  | list _ _ _ _ => simp [mapRenders] at hr
  | nilv => simp [mapRenders] at hr
  | foreign _ => simp [mapRenders] at hr

-- ------------------------------------------------------------------------------------------------------
-- the custom block

theorem fieldWith_custom (rec : FromRec) (ov : List (String × String)) (info : FieldInfo) (mv : Option FieldInfo)
    (msg : Option MsgInfo) (attrs : Option (List (String × TfVal))) (st : FromSt) (a : TfVal)
    (hk : info.kind = .custom) (he : info.parentIsOptionalEmbed = false)
    (hl : (attrs.getD []).lookup info.nameSnake = some a) :
    copyFromFieldWith rec ov info mv msg attrs st =
      .ok { obj := st.obj.setField info.name (hookFrom info.isRepeated a), diags := st.diags,
            hooks := st.hooks ++ [.copyFrom ("CopyFrom" ++ info.suffix) a] } := by
  unfold copyFromFieldWith
  simp [hk, hl, he, writeField]

-- ------------------------------------------------------------------------------------------------------
-- children of a nullable embedded message: the struct behind the parent pointer of the target

/-- the embedded struct of the target (the empty struct when the parent pointer is nil) -/
def innerOf (P : String) (o : GoVal) : GoVal :=
  match o.field? P with
  | some (.ptr (some s)) => s
  | _ => .struct []

/-- field `n` of the embedded struct behind `o.P` is assigned `y` (the parent is allocated if it was nil) -/
def embedSet (P n : String) (o y : GoVal) : GoVal := o.setField P (.ptr (some ((innerOf P o).setField n y)))

/-- field `n` of the embedded struct behind `o.P` -/
def cfield (P n : String) (o : GoVal) : Option GoVal :=
  match o.field? P with
  | some (.ptr (some s)) => s.field? n
  | _ => none

/-- if the parent pointer is set, it points to a struct -/
def ParentWF (P : String) (o : GoVal) : Prop := ∀ s, o.field? P = some (.ptr (some s)) → IsStruct s

def NotAlloc (P : String) (o : GoVal) : Prop := ∀ s, o.field? P ≠ some (.ptr (some s))

theorem alloc_or_not (P : String) (o : GoVal) : (∃ s, o.field? P = some (.ptr (some s))) ∨ NotAlloc P o := by
  by_cases h : ∃ s, o.field? P = some (.ptr (some s))
  · exact Or.inl h
  · exact Or.inr (fun s e => h ⟨s, e⟩)

theorem innerOf_alloc (P : String) (o s : GoVal) (h : o.field? P = some (.ptr (some s))) : innerOf P o = s := by
  simp [innerOf, h]

theorem innerOf_unalloc (P : String) (o : GoVal) (h : NotAlloc P o) : innerOf P o = .struct [] := by
  unfold innerOf
  split
  · rename_i s hs; exact absurd hs (h s)
  · rfl

theorem cfield_unalloc (P n : String) (o : GoVal) (h : NotAlloc P o) : cfield P n o = none := by
  unfold cfield
  split
  · rename_i s hs; exact absurd hs (h s)
  · rfl

theorem allocParent_unalloc (c : FieldInfo) (o : GoVal) (h : NotAlloc c.parentIsOptionalEmbedFieldName o) :
    allocParent c o = o.setField c.parentIsOptionalEmbedFieldName (.ptr (some (.struct []))) := by
  unfold allocParent
  split
  · rename_i s hs; exact absurd hs (h s)
  · rfl

theorem allocParent_alloc (c : FieldInfo) (o s : GoVal) (h : o.field? c.parentIsOptionalEmbedFieldName = some (.ptr (some s))) :
    allocParent c o = o := by
  simp [allocParent, h]

theorem embedGuard_unalloc (c : FieldInfo) (a : TfVal) (o : GoVal) (hpe : c.parentIsOptionalEmbed = true)
    (hk : c.kind ≠ .primitive) (h : NotAlloc c.parentIsOptionalEmbedFieldName o) :
    embedGuard c a o = if a.isKnown then some (o.setField c.parentIsOptionalEmbedFieldName (.ptr (some (.struct [])))) else none := by
  have hk' : (c.kind != .primitive) = true := by simpa using hk
  unfold embedGuard
  simp only [hpe, hk', Bool.and_self, if_true]
  split
  · rename_i s hs; exact absurd hs (h s)
  · rw [allocParent_unalloc c o h]

theorem cfield_congr (P n : String) (o o' : GoVal) (h : o'.field? P = o.field? P) : cfield P n o' = cfield P n o := by
  unfold cfield
  rw [h]

theorem isStruct_innerOf (P : String) (o : GoVal) (h : ParentWF P o) : IsStruct (innerOf P o) := by
  rcases alloc_or_not P o with ⟨s, hs⟩ | hn
  · rw [innerOf_alloc P o s hs]; exact h s hs
  · rw [innerOf_unalloc P o hn]; trivial

theorem isStruct_embedSet (P n : String) (o y : GoVal) (h : IsStruct o) : IsStruct (embedSet P n o y) :=
  isStruct_setField _ _ _ h

theorem field?_embedSet_other (P n : String) (o y : GoVal) (key : String) (h : key ≠ P) :
    (embedSet P n o y).field? key = o.field? key :=
  field?_setField_other _ _ _ _ h

theorem field?_embedSet_same (P n : String) (o y : GoVal) (h : IsStruct o) :
    (embedSet P n o y).field? P = some (.ptr (some ((innerOf P o).setField n y))) :=
  field?_setField_same _ _ _ h

theorem parentWF_embedSet (P n : String) (o y : GoVal) (h : IsStruct o) (hw : ParentWF P o) : ParentWF P (embedSet P n o y) := by
  intro s hs
  rw [field?_embedSet_same P n o y h] at hs
  injection hs with hs
  injection hs with hs
  injection hs with hs
  subst hs
  exact isStruct_setField _ _ _ (isStruct_innerOf P o hw)

theorem cfield_embedSet_same (P n : String) (o y : GoVal) (h : IsStruct o) (hw : ParentWF P o) :
    cfield P n (embedSet P n o y) = some y := by
  unfold cfield
  rw [field?_embedSet_same P n o y h]
  exact field?_setField_same _ _ _ (isStruct_innerOf P o hw)

theorem cfield_embedSet_other (P n m : String) (o y : GoVal) (h : IsStruct o) (hm : m ≠ n) :
    cfield P m (embedSet P n o y) = cfield P m o := by
  unfold cfield
  rw [field?_embedSet_same P n o y h]
  simp only
  rw [field?_setField_other _ _ _ _ hm]
  rcases alloc_or_not P o with ⟨s, hs⟩ | hn
  · rw [innerOf_alloc P o s hs, hs]
  · rw [innerOf_unalloc P o hn]
    have := cfield_unalloc P m o hn
    unfold cfield at this
    rw [this]
    simp [GoVal.field?, List.lookup]

/-- reading a child of a nullable embedded message -/
theorem getVal_embed (info : FieldInfo) (o : GoVal) (he : info.parentIsOptionalEmbed = true) :
    getVal info o = (cfield info.parentIsOptionalEmbedFieldName info.name o).getD (zeroGoOf info) := by
  unfold getVal cfield
  simp only [he, if_true]
  split <;> simp_all

/-- result of the field block of a child of a nullable embedded message: nothing happens (the parent pointer is nil and stays
nil, the field reads as its zero value), or the field of the embedded struct is assigned `y` -/
def EmbedWrites (c : FieldInfo) (st : FromSt) (r : Outcome FromSt) (Q : GoVal → Prop) : Prop :=
  (r = .ok st ∧ cfield c.parentIsOptionalEmbedFieldName c.name st.obj = none ∧ Q (zeroGoOf c)) ∨
  (∃ y hs', r = .ok { obj := embedSet c.parentIsOptionalEmbedFieldName c.name st.obj y, diags := st.diags, hooks := hs' } ∧ Q y)

/-- the custom block of a child: the parent is allocated, the hook's value assigned -/
theorem fieldWith_custom_embed (rec : FromRec) (ov : List (String × String)) (c : FieldInfo) (mv : Option FieldInfo)
    (msg : Option MsgInfo) (attrs : Option (List (String × TfVal))) (st : FromSt) (a : TfVal)
    (hk : c.kind = .custom) (he : c.parentIsOptionalEmbed = true) (hs : IsStruct st.obj)
    (hl : (attrs.getD []).lookup c.nameSnake = some a) :
    copyFromFieldWith rec ov c mv msg attrs st =
      .ok { obj := embedSet c.parentIsOptionalEmbedFieldName c.name st.obj (hookFrom c.isRepeated a), diags := st.diags,
            hooks := st.hooks ++ [.copyFrom ("CopyFrom" ++ c.suffix) a] } := by
  unfold copyFromFieldWith embedSet
  rcases alloc_or_not c.parentIsOptionalEmbedFieldName st.obj with ⟨s, hp⟩ | hn
  · simp [hk, hl, he, writeField, allocParent_alloc c _ s hp, hp, innerOf_alloc _ _ s hp]
  · simp [hk, hl, he, writeField, allocParent_unalloc c _ hn, innerOf_unalloc _ _ hn, field?_setField_same _ _ _ hs,
      setField_setField_same]

/-- the scalar block of a child: a known value allocates the parent; a null value is written only when the parent is there -/
theorem fieldWith_prim_embed (rec : FromRec) (ov : List (String × String)) (c : FieldInfo) (mv : Option FieldInfo)
    (msg : Option MsgInfo) (attrs : Option (List (String × TfVal))) (st : FromSt) (k : PrimK) (u n : Bool) (p : Sc) (y : GoVal)
    (hk : c.kind = .primitive) (ho : c.oneOfName = "") (he : c.parentIsOptionalEmbed = true) (hs : IsStruct st.obj)
    (hvt : vkindOf c.tf.valueType = .prim k)
    (hl : (attrs.getD []).lookup c.nameSnake = some (.prim k u n p)) (hd : primDecode c k u n p = .ok y)
    (Q : GoVal → Prop) (hy : Q y) :
    EmbedWrites c st (copyFromFieldWith rec ov c mv msg attrs st) Q := by
  have hob : (c.oneOfName != "") = false := by simp [ho]
  have hg : embedGuard c (.prim k u n p) st.obj = some st.obj := by simp [embedGuard, hk]
  unfold EmbedWrites
  rcases alloc_or_not c.parentIsOptionalEmbedFieldName st.obj with ⟨s, hp⟩ | hn
  · right
    refine ⟨y, st.hooks, ?_, hy⟩
    unfold copyFromFieldWith embedSet
    simp only [hk, hl, TfVal.vkind, hvt, hg, hd, hob, he, hp, writeField, innerOf_alloc _ _ s hp]
    cases known u n <;> simp
  · cases hkn : known u n with
    | true =>
      right
      refine ⟨y, st.hooks, ?_, hy⟩
      unfold copyFromFieldWith embedSet
      simp only [hk, hl, TfVal.vkind, hvt, hg, hd, hob, he, writeField, innerOf_unalloc _ _ hn, hkn]
      have hpa := allocParent_unalloc c st.obj hn
      unfold allocParent at hpa
      simp [hpa, field?_setField_same _ _ _ hs, setField_setField_same]
    | false =>
      left
      have hyz : y = zeroGoOf c := by
        unfold primDecode at hd
        simp only [hkn, Bool.false_eq_true, if_false] at hd
        injection hd with hd
        rw [← hd]
        simp [zeroPrim, zeroGoOf, hk]
      refine ⟨?_, cfield_unalloc _ _ _ hn, by rw [← hyz]; exact hy⟩
      unfold copyFromFieldWith
      simp only [hk, hl, TfVal.vkind, hvt, hg, hd, hob, he, hkn]
      simp
      split
      · rename_i s hs; exact absurd hs (hn s)
      · rfl

def unembed (c : FieldInfo) : FieldInfo := { c with parentIsOptionalEmbed := false }

def liftOut (P : String) (st : FromSt) : Outcome FromSt → Outcome FromSt
  | .ok st' => .ok { st' with obj := st.obj.setField P (.ptr (some st'.obj)) }
  | .panic w => .panic w
  | .stuck w => .stuck w

theorem fieldWith_lift (rec : FromRec) (ov : List (String × String)) (c : FieldInfo) (mv : Option FieldInfo)
    (msg : Option MsgInfo) (attrs : Option (List (String × TfVal))) (st : FromSt) (s : GoVal) (a : TfVal)
    (hpe : c.parentIsOptionalEmbed = true) (hk : c.kind ≠ .custom) (ho : c.oneOfName = "")
    (hs : IsStruct st.obj) (hp : st.obj.field? c.parentIsOptionalEmbedFieldName = some (.ptr (some s)))
    (hl : (attrs.getD []).lookup c.nameSnake = some a)
    (hv : (a.vkind != vkindOf c.tf.valueType || a.vkind == .unknown) = false) :
    copyFromFieldWith rec ov c mv msg attrs st =
      liftOut c.parentIsOptionalEmbedFieldName st (copyFromFieldWith rec ov (unembed c) mv msg attrs { st with obj := s }) := by
  have hg : embedGuard c a st.obj = some st.obj := by simp [embedGuard, hp]
  have hg' : embedGuard (unembed c) a s = some s := by simp [embedGuard, unembed]
  have hl' : (attrs.getD []).lookup (unembed c).nameSnake = some a := hl
  have hv' : ((a.vkind != vkindOf (unembed c).tf.valueType || a.vkind == .unknown)) = false := hv
  have hfs := field?_setField_same st.obj c.parentIsOptionalEmbedFieldName
  have e1 : (unembed c).name = c.name := rfl
  have e2 : (unembed c).oneOfName = "" := ho
  have e3 : (unembed c).isNullable = c.isNullable := rfl
  have e4 : (unembed c).parentIsOptionalEmbed = false := rfl
  have e5 : zeroElem (unembed c) = zeroElem c := rfl
  have e6 : fromElemBody rec ov (unembed c) (unembed c) = fromElemBody rec ov c c := rfl
  have e7 : fromElemBody rec ov (unembed c) (mv.getD (unembed c)) = fromElemBody rec ov c (mv.getD c) := by
    cases mv <;> rfl
  unfold copyFromFieldWith
  simp only [hl, hl', hv, hv', hg, hg', Bool.false_eq_true, if_false]
  cases hkind : c.kind with
  | custom => exact absurd hkind hk
  | primitive =>
    have hkind' : (unembed c).kind = .primitive := hkind
    simp only [hkind']
    cases a with
    | prim k u n p =>
      simp only
      have : primDecode (unembed c) k u n p = primDecode c k u n p := rfl
      rw [this]
      cases hd : primDecode c k u n p with
      | ok t => simp [e1, e2, e4, ho, hpe, hp, writeField, liftOut]
      | panic w => simp [liftOut]
      | stuck w => simp [liftOut]
    | _ => simp [liftOut]
  | object =>
    have hkind' : (unembed c).kind = .object := hkind
    simp only [hkind']
    cases a with
    | obj u n as tys =>
      simp only
      simp only [e1, e2, e3, e4, ho, hpe, hp, writeField, liftOut, beq_self_eq_true, if_true, Bool.false_eq_true, if_false, hfs _ hs]
      by_cases h1 : (known u n && isEmptyMsg msg) = true
      · simp [h1, setField_setField_same]
      · by_cases h2 : (known u n && !isEmptyMsg msg) = true
        · simp only [h1, h2, if_true, Bool.false_eq_true, if_false]
          cases rec as { obj := GoVal.struct [], diags := st.diags, hooks := st.hooks } <;> simp [setField_setField_same]
        · simp [h1, h2]
    | _ => simp [liftOut]
  | primitiveList =>
    have hkind' : (unembed c).kind = .primitiveList := hkind
    simp only [hkind']
    cases a with
    | list u n es ety =>
      simp only
      simp only [e1, e4, e5, e6, hpe, hp, writeField, liftOut, if_true, Bool.false_eq_true, if_false, hfs _ hs]
      by_cases h1 : known u n = true
      · simp only [h1, if_true]
        cases fromElemsList (fromElemBody rec ov c c) (es.getD []) 0 (List.replicate (es.getD []).length (zeroElem c)) st.diags st.hooks with
        | ok r => obtain ⟨l, ds, hs'⟩ := r; simp [setField_setField_same]
        | panic w => simp
        | stuck w => simp
      · simp [h1]
    | _ => simp [liftOut]
  | objectList =>
    have hkind' : (unembed c).kind = .objectList := hkind
    simp only [hkind']
    cases a with
    | list u n es ety =>
      simp only
      simp only [e1, e4, e5, e6, hpe, hp, writeField, liftOut, if_true, Bool.false_eq_true, if_false, hfs _ hs]
      by_cases h1 : known u n = true
      · simp only [h1, if_true]
        cases fromElemsList (fromElemBody rec ov c c) (es.getD []) 0 (List.replicate (es.getD []).length (zeroElem c)) st.diags st.hooks with
        | ok r => obtain ⟨l, ds, hs'⟩ := r; simp [setField_setField_same]
        | panic w => simp
        | stuck w => simp
      · simp [h1]
    | _ => simp [liftOut]
  | primitiveMap =>
    have hkind' : (unembed c).kind = .primitiveMap := hkind
    simp only [hkind']
    cases a with
    | map u n es ety =>
      simp only
      simp only [e1, e4, e7, hpe, hp, writeField, liftOut, if_true, Bool.false_eq_true, if_false, hfs _ hs]
      by_cases h1 : known u n = true
      · simp only [h1, if_true]
        cases fromElemsMap (fromElemBody rec ov c (mv.getD c)) (es.getD []) [] st.diags st.hooks with
        | ok r => obtain ⟨l, ds, hs'⟩ := r; simp [setField_setField_same]
        | panic w => simp
        | stuck w => simp
      · simp [h1]
    | _ => simp [liftOut]
  | objectMap =>
    have hkind' : (unembed c).kind = .objectMap := hkind
    simp only [hkind']
    cases a with
    | map u n es ety =>
      simp only
      simp only [e1, e4, e7, hpe, hp, writeField, liftOut, if_true, Bool.false_eq_true, if_false, hfs _ hs]
      by_cases h1 : known u n = true
      · simp only [h1, if_true]
        cases fromElemsMap (fromElemBody rec ov c (mv.getD c)) (es.getD []) [] st.diags st.hooks with
        | ok r => obtain ⟨l, ds, hs'⟩ := r; simp [setField_setField_same]
        | panic w => simp
        | stuck w => simp
      · simp [h1]
    | _ => simp [liftOut]



theorem embedGuard_alloc (c : FieldInfo) (a : TfVal) (o s : GoVal)
    (h : o.field? c.parentIsOptionalEmbedFieldName = some (.ptr (some s))) : embedGuard c a o = some o := by
  simp [embedGuard, h]

/-- the block of a message / list / map child of a nullable embedded message: when the parent pointer of the target is nil
and the attribute is null, nothing happens; otherwise the parent is allocated if need be and the block runs like the block
of the same field of the embedded struct -/
theorem fieldWith_embed (rec : FromRec) (ov : List (String × String)) (c : FieldInfo) (mv : Option FieldInfo)
    (msg : Option MsgInfo) (attrs : Option (List (String × TfVal))) (st : FromSt) (a : TfVal) (Q : GoVal → Prop)
    (hpe : c.parentIsOptionalEmbed = true) (hk : c.kind ≠ .custom) (hkp : c.kind ≠ .primitive) (ho : c.oneOfName = "")
    (hs : IsStruct st.obj) (hl : (attrs.getD []).lookup c.nameSnake = some a)
    (hv : (a.vkind != vkindOf c.tf.valueType || a.vkind == .unknown) = false)
    (hplain : ∀ s, WritesField3 (unembed c) { st with obj := s }
      (copyFromFieldWith rec ov (unembed c) mv msg attrs { st with obj := s }) Q)
    (hidle : a.isKnown = false → Q (zeroGoOf c)) :
    EmbedWrites c st (copyFromFieldWith rec ov c mv msg attrs st) Q := by
  unfold EmbedWrites
  rcases alloc_or_not c.parentIsOptionalEmbedFieldName st.obj with ⟨s, hp⟩ | hn
  · right
    rw [fieldWith_lift rec ov c mv msg attrs st s a hpe hk ho hs hp hl hv]
    obtain ⟨y, hs', hrun, hy⟩ := hplain s
    rw [hrun]
    refine ⟨y, hs', ?_, hy⟩
    simp only [liftOut, embedSet, innerOf_alloc _ _ s hp]
    rfl
  · cases hkn : a.isKnown with
    | false =>
      left
      refine ⟨?_, cfield_unalloc _ _ _ hn, hidle hkn⟩
      unfold copyFromFieldWith
      simp only [hl, hv, embedGuard_unalloc c a st.obj hpe hkp hn, hkn, Bool.false_eq_true, if_false]
    | true =>
      right
      have hp1 : (st.obj.setField c.parentIsOptionalEmbedFieldName (.ptr (some (.struct [])))).field? c.parentIsOptionalEmbedFieldName
          = some (.ptr (some (.struct []))) := field?_setField_same _ _ _ hs
      have hstep : copyFromFieldWith rec ov c mv msg attrs st =
          copyFromFieldWith rec ov c mv msg attrs
            { st with obj := st.obj.setField c.parentIsOptionalEmbedFieldName (.ptr (some (.struct []))) } := by
        unfold copyFromFieldWith
        simp only [hl, hv, embedGuard_unalloc c a st.obj hpe hkp hn, hkn, if_true, Bool.false_eq_true, if_false,
          embedGuard_alloc c a _ _ hp1]
      rw [hstep, fieldWith_lift rec ov c mv msg attrs _ (.struct []) a hpe hk ho (isStruct_setField _ _ _ hs) hp1 hl hv]
      obtain ⟨y, hs', hrun, hy⟩ := hplain (.struct [])
      refine ⟨y, hs', ?_, hy⟩
      have hrun' : copyFromFieldWith rec ov (unembed c) mv msg attrs
          { obj := GoVal.struct [], diags := st.diags, hooks := st.hooks } =
          .ok { obj := (GoVal.struct []).setField c.name y, diags := st.diags, hooks := hs' } := hrun
      simp only [hrun', liftOut, embedSet, innerOf_unalloc _ _ hn, setField_setField_same]

end PGT

/-
C04 for children of nullable embedded messages and for custom types, part 3: the judgement `RT3OK` / `RT3OKs`, the induction
over the IR (`fromField_reads3` / `fromFields_reads3`) and the whole-message theorem `roundtrip_embed`.
-/
namespace PGT
open PGT.Spec PGT.Props

-- ------------------------------------------------------------------------------------------------------
-- hypotheses on the IR and the value (plain tree + oneof branches + children of nullable embedded messages + custom types)

/-- the Go field of the target a block assigns: the field itself, the holder of its oneof group, or – for a child of a nullable
embedded message – the parent pointer -/
def wkey3 (info : FieldInfo) : String :=
  if info.parentIsOptionalEmbed then info.parentIsOptionalEmbedFieldName else wkey info

/-- two fields of one message do not interfere: they assign different Go fields, unless they are branches of the same group
– then their wrapper types differ – or children of the same nullable embedded message – then their names differ -/
def SepOK3 (f g : FieldInfo) : Prop :=
  wkey3 f = wkey3 g →
    (f.parentIsOptionalEmbed = false ∧ g.parentIsOptionalEmbed = false ∧ f.oneOfName ≠ "" ∧ g.oneOfName = f.oneOfName ∧
      lastSegment f.oneOfType ≠ lastSegment g.oneOfType) ∨
    (f.parentIsOptionalEmbed = true ∧ g.parentIsOptionalEmbed = true ∧ f.name ≠ g.name)

mutual
/-- field `f` of struct `obj` can be read back. As `RT2OK`, and: the field may be a child of a nullable embedded message
(`parentIsOptionalEmbed`, any kind; it is not a oneof branch; its value is read through the parent pointer by `getVal`), and
it may be of a custom type whose Go value is string-like (`CustomTyped`: what the hooks of the harness convert) -/
def RT3OK : Field → GoVal → Prop
  | ⟨info, mapVal, msg, sub⟩, obj =>
    EmptyOK msg sub ∧
    (info.isPlaceholder = true → info.kind = .primitive ∧ info.oneOfName = "") ∧
    ((info.oneOfName = "" ∧
      match info.kind with
      | .primitive =>
        info.isPlaceholder = true ∨
          ∃ k, PrimRT info k ∧ vkindOf info.tf.valueType = .prim k ∧ PrimVal info (getVal info obj)
      | .object =>
        vkindOf info.tf.valueType = .obj ∧ MsgTyped info.isNullable (fun s => RT3OKs sub s) (getVal info obj)
      | .primitiveList =>
        vkindOf info.tf.valueType = .list ∧ info.isPlaceholder = false ∧
          ∃ k, PrimRT info k ∧ ∀ e ∈ sliceElems (getVal info obj), PrimVal info e
      | .objectList =>
        vkindOf info.tf.valueType = .list ∧ vkindOf info.tf.elemValueType = .obj ∧
          ∀ e ∈ sliceElems (getVal info obj), MsgTyped info.isNullable (fun s => RT3OKs sub s) e
      | .primitiveMap =>
        vkindOf info.tf.valueType = .map ∧ info.isPlaceholder = false ∧
          (mapVal.getD info).tf.elemValueType = info.tf.elemValueType ∧
          ((mapElems (getVal info obj)).map (·.1)).Nodup ∧
          ∃ k, PrimRT info k ∧ ∀ e ∈ mapElems (getVal info obj), PrimVal info e.2
      | .objectMap =>
        vkindOf info.tf.valueType = .map ∧ vkindOf (mapVal.getD info).tf.elemValueType = .obj ∧
          ((mapElems (getVal info obj)).map (·.1)).Nodup ∧
          ∀ e ∈ mapElems (getVal info obj), MsgTyped info.isNullable (fun s => RT3OKs sub s) e.2
      | .custom => CustomTyped info.isRepeated (getVal info obj)) ∨
     (info.oneOfName ≠ "" ∧ info.parentIsOptionalEmbed = false ∧ HolderWF info obj ∧
      match info.kind with
      | .primitive =>
        info.isNullable = false ∧ info.tf.zeroValue ≠ "" ∧
          ∃ k, PrimRT info k ∧ vkindOf info.tf.valueType = .prim k ∧ PrimVal info (getVal info obj)
      | .object =>
        info.isNullable = true ∧ vkindOf info.tf.valueType = .obj ∧
          MsgTyped true (fun s => RT3OKs sub s) (getVal info obj)
      | _ => False))

def RT3OKs : List Field → GoVal → Prop
  | [], _ => True
  | f :: rest, obj => RT3OK f obj ∧ (∀ g ∈ rest, SepOK3 f.info g.info) ∧ RT3OKs rest obj
end

theorem rt3oks_mem : ∀ (fs : List Field) (obj : GoVal), RT3OKs fs obj → ∀ f ∈ fs, RT3OK f obj
  | [], _, _, f, hf => by simp at hf
  | x :: rest, obj, hok, f, hf => by
    unfold RT3OKs at hok
    rcases List.mem_cons.1 hf with rfl | hf
    · exact hok.1
    · exact rt3oks_mem rest obj hok.2.2 f hf

/-- a oneof branch is not a child of a nullable embedded message -/
theorem rt3ok_branch_plain (f : Field) (obj : GoVal) (h : RT3OK f obj) (ho : f.info.oneOfName ≠ "") :
    f.info.parentIsOptionalEmbed = false := by
  obtain ⟨info, mv, msg, sub⟩ := f
  unfold RT3OK at h
  rcases h.2.2 with ⟨h0, _⟩ | ⟨_, he, _⟩
  · exact absurd h0 ho
  · exact he

theorem rt3ok_placeholder (f : Field) (obj : GoVal) (h : RT3OK f obj) (hp : f.info.isPlaceholder = true) :
    f.info.kind = .primitive ∧ f.info.oneOfName = "" := by
  obtain ⟨info, mv, msg, sub⟩ := f
  unfold RT3OK at h
  exact h.2.1 hp

theorem wkey3_branch (a : FieldInfo) (he : a.parentIsOptionalEmbed = false) (ho : a.oneOfName ≠ "") : wkey3 a = a.oneOfName := by
  simp [wkey3, wkey, he, ho]

theorem wkey3_plain (a : FieldInfo) (he : a.parentIsOptionalEmbed = false) (ho : a.oneOfName = "") : wkey3 a = a.name := by
  simp [wkey3, wkey, he, ho]

theorem wkey3_embed (a : FieldInfo) (he : a.parentIsOptionalEmbed = true) : wkey3 a = a.parentIsOptionalEmbedFieldName := by
  simp [wkey3, he]

theorem branchFacts_of3 (f : Field) (obj : GoVal) (h : RT3OK f obj) (ho : f.info.oneOfName ≠ "") : BranchFacts f obj := by
  obtain ⟨info, mv, msg, sub⟩ := f
  unfold RT3OK at h
  obtain ⟨_, _, hcase⟩ := h
  rcases hcase with ⟨h0, _⟩ | ⟨_, he, hw, hm⟩
  · exact absurd h0 ho
  · refine ⟨he, hw, ?_⟩
    cases hk : info.kind <;> simp only [hk] at hm
    · obtain ⟨hn, _, k, _, _, hv⟩ := hm
      left
      unfold PrimVal at hv
      simp only [hn, Bool.false_eq_true, if_false] at hv
      obtain ⟨s, hs, _⟩ := hv
      exact ⟨rfl, hn, s, hs⟩
    · obtain ⟨hn, _, hv⟩ := hm
      right
      unfold MsgTyped at hv
      simp only [if_true] at hv
      refine ⟨rfl, hn, ?_⟩
      rcases hv with hv | ⟨fs, hv, _⟩
      · exact Or.inl hv
      · exact Or.inr ⟨fs, hv⟩

/-- two members of a well-separated field list that are branches of the same group are the same field or have different wrappers -/
theorem mem_sep3 : ∀ (fs : List Field) (obj : GoVal), RT3OKs fs obj → ∀ f ∈ fs, ∀ f0 ∈ fs,
    f.info.oneOfName ≠ "" → f0.info.oneOfName = f.info.oneOfName →
    f = f0 ∨ lastSegment f.info.oneOfType ≠ lastSegment f0.info.oneOfType
  | [], _, _, f, hf, _, _, _, _ => by simp at hf
  | x :: rest, obj, hok, f, hf, f0, hf0, hne, hsame => by
    have hne0 : f0.info.oneOfName ≠ "" := by rw [hsame]; exact hne
    have hef := rt3ok_branch_plain f obj (rt3oks_mem _ obj hok f hf) hne
    have hef0 := rt3ok_branch_plain f0 obj (rt3oks_mem _ obj hok f0 hf0) hne0
    have hwk : wkey3 f.info = wkey3 f0.info := by
      rw [wkey3_branch _ hef hne, wkey3_branch _ hef0 hne0, hsame]
    unfold RT3OKs at hok
    obtain ⟨_, hsep, hrest⟩ := hok
    simp only [List.mem_cons] at hf hf0
    rcases hf with rfl | hf <;> rcases hf0 with rfl | hf0
    · exact Or.inl rfl
    · right
      rcases hsep f0 hf0 hwk with h | h
      · exact h.2.2.2.2
      · rw [hef] at h; exact absurd h.1 (by simp)
    · right
      rcases hsep f hf hwk.symm with h | h
      · exact fun e => h.2.2.2.2 e.symm
      · rw [hef0] at h; exact absurd h.1 (by simp)
    · exact mem_sep3 rest obj hrest f hf f0 hf0 hne hsame

/-- from the specification of the holder after the CopyFrom blocks to the comparison of the branch -/
theorem branch_nfEq3 (fs : List Field) (obj o0 o : GoVal) (hok : RT3OKs fs obj) (f : Field) (hf : f ∈ fs)
    (ho : f.info.oneOfName ≠ "") (hinit : InitNone o0 f.info.oneOfName)
    (hspec : HolderSpec f.info.oneOfName fs obj o0 o) : nfEqField f obj o = true := by
  have bf := branchFacts_of3 f obj (rt3oks_mem fs obj hok f hf) ho
  rcases hspec with ⟨f0, hf0, hg0, hset⟩ | ⟨hidle, hsame⟩
  · rcases mem_sep3 fs obj hok f hf f0 hf0 ho hg0 with rfl | hne
    · exact nfEq_of_set f obj o ho bf hset
    · have ho0 : f0.info.oneOfName ≠ "" := by rw [hg0]; exact ho
      have bf0 := branchFacts_of3 f0 obj (rt3oks_mem fs obj hok f0 hf0) ho0
      obtain ⟨hnz, y, hh⟩ := set_nonzero f0 obj _ bf0 hset
      obtain ⟨fn, hobj⟩ := holder_of_getVal f0.info obj ho0 bf0.he bf0.hw hnz
      have hne' : (lastSegment f0.info.oneOfType == lastSegment f.info.oneOfType) = false := by
        simpa using fun e => hne e.symm
      refine nfEq_of_idle f obj o ho bf (idle_of_inactive f obj ho bf ?_) ?_
      · rw [hg0] at hobj
        rw [activePayload_field f.info obj _ _ _ hobj, hne']; rfl
      · rw [activePayload_field f.info o _ _ _ hh, hne']; rfl
  · refine nfEq_of_idle f obj o ho bf (hidle f hf rfl) (activePayload_init f.info o ?_)
    rw [hsame]; exact hinit

/-- no block of a field outside oneof groups assigns the holder of a group that has a branch in the list -/
theorem no_plain_named3 : ∀ (fs : List Field) (obj : GoVal), RT3OKs fs obj → ∀ f ∈ fs, f.info.oneOfName ≠ "" →
    ∀ f' ∈ fs, f'.info.oneOfName = "" → wkey3 f'.info ≠ f.info.oneOfName
  | [], _, _, f, hf, _, _, _, _ => by simp at hf
  | x :: rest, obj, hok, f, hf, hne, f', hf', hp => by
    have hef := rt3ok_branch_plain f obj (rt3oks_mem _ obj hok f hf) hne
    have hwf := wkey3_branch _ hef hne
    unfold RT3OKs at hok
    obtain ⟨_, hsep, hrest⟩ := hok
    simp only [List.mem_cons] at hf hf'
    rcases hf with rfl | hf <;> rcases hf' with rfl | hf'
    · exact absurd hp hne
    · intro e
      rcases hsep f' hf' (by rw [hwf, e]) with h | h
      · exact hne (by rw [← h.2.2.2.1]; exact hp)
      · rw [hef] at h; exact absurd h.1 (by simp)
    · intro e
      rcases hsep f hf (by rw [hwf, e]) with h | h
      · exact h.2.2.1 hp
      · rw [hef] at h; exact absurd h.2.1 (by simp)
    · exact no_plain_named3 rest obj hrest f hf hne f' hf' hp

-- ------------------------------------------------------------------------------------------------------
-- small facts

theorem unembed_of_plain (info : FieldInfo) (he : info.parentIsOptionalEmbed = false) : unembed info = info := by
  cases info
  simp_all [unembed]

theorem primRT_unembed (info : FieldInfo) (k : PrimK) (h : PrimRT info k) : PrimRT (unembed info) k :=
  ⟨h.ek, h.inv, h.invPtr⟩

theorem getVal_nilParent (info : FieldInfo) (obj : GoVal) (hn : parentIsNil info obj = true) (he : info.parentIsOptionalEmbed = true) :
    getVal info obj = zeroGoOf info := by
  unfold getVal
  unfold parentIsNil at hn
  simp only [he, if_true]
  split
  · rename_i s hs
    rw [hs] at hn
    simp at hn
  · rfl

theorem primNfEq_zero (info : FieldInfo) : primNfEq info.isNullable (zeroPrim info) (zeroPrim info) = true := by
  unfold primNfEq zeroPrim
  cases info.isNullable <;> simp [scNfEq_refl']

theorem zeroGoOf_prim (info : FieldInfo) (hk : info.kind = .primitive) : zeroGoOf info = zeroPrim info := by
  simp [zeroGoOf, zeroPrim, hk]

theorem parentWF_congr (P : String) (o o' : GoVal) (h : o'.field? P = o.field? P) (hw : ParentWF P o) : ParentWF P o' := by
  intro s hs
  rw [h] at hs
  exact hw s hs

theorem isKnown_false_of (u n : Bool) (hu : u = false) (h : known u n = false) : n = true := by
  subst hu
  cases n <;> simp_all [known]

/-- a null list attribute renders an empty list -/
theorem list_idle (R : GoVal → TfVal → Bool) (x : GoVal) (a : TfVal) (hr : listRenders R x a = true) (hk : a.isKnown = false) :
    sliceElems x = [] := by
  cases a with
  | list u n es ety =>
    unfold listRenders at hr
    simp only [Bool.and_eq_true, Bool.not_eq_true', beq_iff_eq] at hr
    obtain ⟨⟨⟨hu, hn⟩, _⟩, _⟩ := hr
    have := isKnown_false_of u n hu hk
    subst this
    have : (sliceElems x).isEmpty = true := hn.symm
    simpa using this
  | _ => simp [listRenders] at hr

theorem map_idle (R : GoVal → TfVal → Bool) (x : GoVal) (a : TfVal) (hr : mapRenders R x a = true) (hk : a.isKnown = false) :
    mapElems x = [] := by
  cases a with
  | map u n es ety =>
    unfold mapRenders at hr
    simp only [Bool.and_eq_true, Bool.not_eq_true', beq_iff_eq] at hr
    obtain ⟨⟨⟨hu, hn⟩, _⟩, _⟩ := hr
    have := isKnown_false_of u n hu hk
    subst this
    have : (mapElems x).isEmpty = true := hn.symm
    simpa using this
  | _ => simp [mapRenders] at hr

/-- a null object attribute renders a nil pointer -/
theorem obj_idle (nullable : Bool) (R : GoVal → List (String × TfVal) → Bool) (x : GoVal) (a : TfVal)
    (hr : objRenders nullable R x a = true) (hk : a.isKnown = false) : nullable = true ∧ isNilPtr x = true := by
  cases a with
  | obj u n as tys =>
    unfold objRenders at hr
    simp only [Bool.and_eq_true, Bool.not_eq_true'] at hr
    obtain ⟨hu, hr⟩ := hr
    have hn := isKnown_false_of u n hu hk
    subst hn
    cases nullable with
    | true =>
      simp only [if_true, Bool.and_eq_true, beq_iff_eq] at hr
      exact ⟨rfl, hr.1.symm⟩
    | false => simp at hr
  | _ => simp [objRenders] at hr

theorem vkind_ok (a : TfVal) (v : VKind) (h : a.vkind = v) (hv : v ≠ .unknown) :
    (a.vkind != v || a.vkind == .unknown) = false := by
  rw [h]
  simp [hv]

theorem listRenders_vkind (R : GoVal → TfVal → Bool) (x : GoVal) (a : TfVal) (hr : listRenders R x a = true) : a.vkind = .list := by
  cases a <;> simp [listRenders] at hr <;> rfl

theorem mapRenders_vkind (R : GoVal → TfVal → Bool) (x : GoVal) (a : TfVal) (hr : mapRenders R x a = true) : a.vkind = .map := by
  cases a <;> simp [mapRenders] at hr <;> rfl

theorem objRenders_vkind (nullable : Bool) (R : GoVal → List (String × TfVal) → Bool) (x : GoVal) (a : TfVal)
    (hr : objRenders nullable R x a = true) : a.vkind = .obj := by
  cases a <;> simp [objRenders] at hr <;> rfl

theorem parentWF_init (names : List String) (P : String) : ParentWF P (resetOneOfs names (.struct [])) := by
  intro s hs
  rcases initNone_reset names P (.struct []) trivial (initNone_empty P) with h | h
  · rw [h] at hs; cases hs
  · rw [h] at hs; cases hs

theorem fromElemBody_unembed_map (rec : FromRec) (ov : List (String × String)) (info : FieldInfo) (mv : Option FieldInfo) :
    fromElemBody rec ov (unembed info) (mv.getD (unembed info)) = fromElemBody rec ov info (mv.getD info) := by
  cases mv <;> rfl

/-- a message / list / map block outside oneof groups: on a plain field it assigns the field, on a child of a nullable embedded
message it assigns the field of the embedded struct (or nothing happens) -/
theorem plain_or_embed (rec : FromRec) (ov : List (String × String)) (info : FieldInfo) (mv : Option FieldInfo)
    (msg : Option MsgInfo) (attrs : Option (List (String × TfVal))) (st : FromSt) (a : TfVal) (Q : GoVal → Prop)
    (ho : info.oneOfName = "") (hk : info.kind ≠ .custom) (hkp : info.kind ≠ .primitive)
    (hs : IsStruct st.obj) (hl : (attrs.getD []).lookup info.nameSnake = some a)
    (hv : (a.vkind != vkindOf info.tf.valueType || a.vkind == .unknown) = false)
    (hplain : ∀ st', WritesField3 (unembed info) st' (copyFromFieldWith rec ov (unembed info) mv msg attrs st') Q)
    (hidle : a.isKnown = false → Q (zeroGoOf info)) :
    (info.parentIsOptionalEmbed = false ∧ WritesField3 info st (copyFromFieldWith rec ov info mv msg attrs st) Q) ∨
    (info.parentIsOptionalEmbed = true ∧ EmbedWrites info st (copyFromFieldWith rec ov info mv msg attrs st) Q) := by
  by_cases he : info.parentIsOptionalEmbed = true
  · right
    exact ⟨he, fieldWith_embed rec ov info mv msg attrs st a Q he hk hkp ho hs hl hv (fun s => hplain _) hidle⟩
  · left
    have he' : info.parentIsOptionalEmbed = false := by simpa using he
    have := hplain st
    rw [unembed_of_plain info he'] at this
    exact ⟨he', this⟩

/-- a field that is not a child of a nullable embedded message never assigns the parent pointer of one that is -/
theorem sep_not_embed (f g : FieldInfo) (hsep : SepOK3 f g) (hef : f.parentIsOptionalEmbed = false)
    (heg : g.parentIsOptionalEmbed = true) : wkey3 f ≠ wkey3 g := by
  intro e
  rcases hsep e with h | h
  · rw [heg] at h; exact absurd h.2.1 (by simp)
  · rw [hef] at h; exact absurd h.1 (by simp)

/-- a field outside oneof groups and embedded messages assigns a Go field no other block assigns -/
theorem sep_plain (f g : FieldInfo) (hsep : SepOK3 f g) (hef : f.parentIsOptionalEmbed = false) (hof : f.oneOfName = "") :
    wkey3 f ≠ wkey3 g := by
  intro e
  rcases hsep e with h | h
  · exact h.2.2.1 hof
  · rw [hef] at h; exact absurd h.1 (by simp)

/-- a later block that assigns the parent pointer of a child is the block of another child of the same parent -/
theorem sep_embed (f g : FieldInfo) (hsep : SepOK3 f g) (hef : f.parentIsOptionalEmbed = true)
    (h : wkey3 g = f.parentIsOptionalEmbedFieldName) : g.parentIsOptionalEmbed = true ∧ g.name ≠ f.name := by
  rcases hsep (by rw [wkey3_embed f hef, h]) with h | h
  · rw [hef] at h; exact absurd h.1 (by simp)
  · exact ⟨h.2.1, fun e => h.2.2 e.symm⟩

-- ------------------------------------------------------------------------------------------------------
-- the induction over the IR

mutual

theorem fromField_reads3 (ov : List (String × String)) : ∀ (f : Field) (obj : GoVal) (attrs : Option (List (String × TfVal)))
    (st : FromSt) (a : TfVal),
    (attrs.getD []).lookup f.info.nameSnake = some a → rendersVal3 f obj a = true → RT3OK f obj → f.info.isPlaceholder = false →
    IsStruct st.obj →
    (f.info.oneOfName = "" ∧ f.info.parentIsOptionalEmbed = false ∧
      WritesField3 f.info st (copyFromField ov f attrs st) (fun y => valNfEq f (getVal f.info obj) y = true)) ∨
    (f.info.oneOfName = "" ∧ f.info.parentIsOptionalEmbed = true ∧
      EmbedWrites f.info st (copyFromField ov f attrs st) (fun y => valNfEq f (getVal f.info obj) y = true)) ∨
    (f.info.oneOfName ≠ "" ∧ f.info.parentIsOptionalEmbed = false ∧
      ((BranchIdle f obj ∧ copyFromField ov f attrs st = .ok st) ∨
       (∃ h hs', copyFromField ov f attrs st =
            .ok { obj := st.obj.setField f.info.oneOfName h, diags := st.diags, hooks := hs' } ∧
          BranchSet f obj (some h))))
  | ⟨info, mv, msg, sub⟩, obj, attrs, st, a, hl, hr, hok, hph, hs => by
    simp only at hl hph
    unfold RT3OK at hok
    obtain ⟨hem, _, hok⟩ := hok
    have hrec : RecReads3 (fun as s => copyFromFields ov sub as { s with obj := resetOneOfs ((msg.map (·.oneOfNames)).getD []) s.obj })
        (fun o as => rendersFields3 sub o as) sub (fun s => RT3OKs sub s) := by
      intro s as ds hs0 hR hP
      obtain ⟨o, hs', hrun, hso, hall, hspec, _, _⟩ := fromFields_reads3 ov sub s as
        { obj := resetOneOfs ((msg.map (·.oneOfNames)).getD []) (.struct []), diags := ds, hooks := hs0 } hR hP
        (isStruct_resetOneOfs _ _ trivial) (fun g _ _ => parentWF_init _ _)
      refine ⟨o, hs', hrun, hso, ?_⟩
      apply nfEqFields_of_forall
      intro f hf
      by_cases ho : f.info.oneOfName = ""
      · rw [nfEqField_eq_valNfEq f s o ho]; exact hall f hf ho
      · exact branch_nfEq3 sub s _ o hP f hf ho (initNone_reset _ _ (.struct []) trivial (initNone_empty _))
          (hspec _ ho (no_plain_named3 sub s hP f hf ho))
    simp only [copyFromField]
    unfold rendersVal3 at hr
    rcases hok with ⟨ho, hok⟩ | ⟨ho, he, hw, hok⟩
    · -- outside oneof groups
      suffices h : (info.parentIsOptionalEmbed = false ∧
          WritesField3 info st (copyFromFieldWith (fun as s => copyFromFields ov sub as { s with obj := resetOneOfs ((msg.map (·.oneOfNames)).getD []) s.obj }) ov info mv msg attrs st)
            (fun y => valNfEq ⟨info, mv, msg, sub⟩ (getVal info obj) y = true)) ∨
          (info.parentIsOptionalEmbed = true ∧
          EmbedWrites info st (copyFromFieldWith (fun as s => copyFromFields ov sub as { s with obj := resetOneOfs ((msg.map (·.oneOfNames)).getD []) s.obj }) ov info mv msg attrs st)
            (fun y => valNfEq ⟨info, mv, msg, sub⟩ (getVal info obj) y = true)) from
        h.elim (fun h => Or.inl ⟨ho, h⟩) (fun h => Or.inr (Or.inl ⟨ho, h⟩))
      unfold valNfEq
      cases hk : info.kind with
      | primitive =>
        simp only [hk, hph, Bool.false_eq_true, if_false] at hok hr ⊢
        rcases hok with hp | ⟨k, hrt, hvt, hx⟩
        · exact absurd hp (by simp)
        by_cases he : info.parentIsOptionalEmbed = true
        · right
          refine ⟨he, ?_⟩
          by_cases hnil : parentIsNil info obj = true
          · simp only [he, hnil, Bool.and_self, if_true] at hr
            cases a with
            | prim k' u n p =>
              simp only [Bool.and_eq_true, Bool.not_eq_true', beq_iff_eq] at hr
              obtain ⟨⟨hu, hn⟩, hkk⟩ := hr
              have hk' : k' = k := by
                unfold primKindOf at hkk
                rw [hrt.ek] at hkk
                injection hkk with hkk
                exact hkk.symm
              subst hk' hu hn
              refine fieldWith_prim_embed _ ov info mv msg attrs st k' false true p (zeroPrim info) hk ho he hs hvt hl
                (by simp [primDecode, known]) _ ?_
              rw [getVal_nilParent info obj hnil he, zeroGoOf_prim info hk]
              exact primNfEq_zero info
            | list _ _ _ _ => simp at hr
            | map _ _ _ _ => simp at hr
            | obj _ _ _ _ => simp at hr
            | nilv => simp at hr
            | foreign _ => simp at hr
          · have hnn : (info.parentIsOptionalEmbed && parentIsNil info obj) = false := by simp [hnil]
            simp only [hnn, Bool.false_eq_true, if_false] at hr
            cases a with
            | prim k' u n p =>
              obtain ⟨rfl, y, hd, hy⟩ := primDecode_renders info k hrt _ hx k' u n p hr
              exact fieldWith_prim_embed _ ov info mv msg attrs st k' u n p y hk ho he hs hvt hl hd _ hy
            | list _ _ _ _ => simp [primRenders] at hr
            | map _ _ _ _ => simp [primRenders] at hr
            | obj _ _ _ _ => simp [primRenders] at hr
            | nilv => simp [primRenders] at hr
            | foreign _ => simp [primRenders] at hr
        · left
          have he' : info.parentIsOptionalEmbed = false := by simpa using he
          refine ⟨he', ?_⟩
          have hnn : (info.parentIsOptionalEmbed && parentIsNil info obj) = false := by simp [he']
          simp only [hnn, Bool.false_eq_true, if_false] at hr
          exact writesField3_of _ _ _ _ (fieldWith_prim _ ov info mv msg attrs st a _ hk ho he' k hrt hvt hx hl hr)
      | custom =>
        simp only [hk] at hok hr ⊢
        have hq := hook_roundtrip info.isRepeated _ a hok hr
        by_cases he : info.parentIsOptionalEmbed = true
        · right
          exact ⟨he, Or.inr ⟨_, _, fieldWith_custom_embed _ ov info mv msg attrs st a hk he hs hl, hq⟩⟩
        · left
          have he' : info.parentIsOptionalEmbed = false := by simpa using he
          exact ⟨he', _, _, fieldWith_custom _ ov info mv msg attrs st a hk he' hl, hq⟩
      | object =>
        simp only [hk] at hok hr ⊢
        obtain ⟨hvt, hx⟩ := hok
        have hv := vkind_ok a .obj (objRenders_vkind _ _ _ _ hr) (by decide)
        rw [← hvt] at hv
        refine plain_or_embed _ ov info mv msg attrs st a _ ho (by simp [hk]) (by simp [hk]) hs hl hv ?_ ?_
        · intro st'
          exact fieldWith_obj3 _ ov (unembed info) mv msg sub attrs st' a _ _ _ hrec hk ho rfl hem hvt hx hl hr
        · intro hkn
          obtain ⟨hn, hnil⟩ := obj_idle _ _ _ _ hr hkn
          simp only [msgNfEq, hn, if_true, hnil]
          simp [zeroGoOf, hk, hn, isNilPtr]
      | primitiveList =>
        simp only [hk] at hok hr ⊢
        obtain ⟨hvt, _, k, hrt, hT⟩ := hok
        have hv := vkind_ok a .list (listRenders_vkind _ _ _ hr) (by decide)
        rw [← hvt] at hv
        have hb := elemReads3_of _ _ _ _ (elemReads_prim
          (fun as s => copyFromFields ov sub as { s with obj := resetOneOfs ((msg.map (·.oneOfNames)).getD []) s.obj })
          ov info info k hrt hrt.ek (Or.inl hk))
        refine plain_or_embed _ ov info mv msg attrs st a _ ho (by simp [hk]) (by simp [hk]) hs hl hv ?_ ?_
        · intro st'
          exact fieldWith_list3 _ ov (unembed info) mv msg attrs st' a _ _ _ _ hb (Or.inl hk) ho rfl hvt hT hl hr
        · intro hkn
          have := list_idle _ _ _ hr hkn
          simp only [this]
          simp [zeroGoOf, hk, sliceElems]
      | objectList =>
        simp only [hk] at hok hr ⊢
        obtain ⟨hvt, hev, hT⟩ := hok
        have hv := vkind_ok a .list (listRenders_vkind _ _ _ hr) (by decide)
        rw [← hvt] at hv
        have hb := elemReads_obj3 _ ov info info sub _ _ hrec hev (Or.inl hk)
        refine plain_or_embed _ ov info mv msg attrs st a _ ho (by simp [hk]) (by simp [hk]) hs hl hv ?_ ?_
        · intro st'
          exact fieldWith_list3 _ ov (unembed info) mv msg attrs st' a _ _ _ _ hb (Or.inr hk) ho rfl hvt hT hl hr
        · intro hkn
          have := list_idle _ _ _ hr hkn
          simp only [this]
          simp [zeroGoOf, hk, sliceElems]
      | primitiveMap =>
        simp only [hk] at hok hr ⊢
        obtain ⟨hvt, _, hev, hnd, k, hrt, hT⟩ := hok
        have hv := vkind_ok a .map (mapRenders_vkind _ _ _ hr) (by decide)
        rw [← hvt] at hv
        have hb := elemReads3_of _ _ _ _ (elemReads_prim
          (fun as s => copyFromFields ov sub as { s with obj := resetOneOfs ((msg.map (·.oneOfNames)).getD []) s.obj })
          ov info (mv.getD info) k hrt (by rw [hev]; exact hrt.ek) (Or.inr hk))
        rw [← fromElemBody_unembed_map] at hb
        refine plain_or_embed _ ov info mv msg attrs st a _ ho (by simp [hk]) (by simp [hk]) hs hl hv ?_ ?_
        · intro st'
          exact fieldWith_map3 _ ov (unembed info) mv msg attrs st' a _ _ _ _ hb (Or.inl hk) ho rfl hvt hnd hT hl hr
        · intro hkn
          have := map_idle _ _ _ hr hkn
          simp only [this]
          simp [zeroGoOf, hk, mapElems]
      | objectMap =>
        simp only [hk] at hok hr ⊢
        obtain ⟨hvt, hev, hnd, hT⟩ := hok
        have hv := vkind_ok a .map (mapRenders_vkind _ _ _ hr) (by decide)
        rw [← hvt] at hv
        have hb := elemReads_obj3 _ ov info (mv.getD info) sub _ _ hrec hev (Or.inr hk)
        rw [← fromElemBody_unembed_map] at hb
        refine plain_or_embed _ ov info mv msg attrs st a _ ho (by simp [hk]) (by simp [hk]) hs hl hv ?_ ?_
        · intro st'
          exact fieldWith_map3 _ ov (unembed info) mv msg attrs st' a _ _ _ _ hb (Or.inr hk) ho rfl hvt hnd hT hl hr
        · intro hkn
          have := map_idle _ _ _ hr hkn
          simp only [this]
          simp [zeroGoOf, hk, mapElems]
    · -- a branch of a oneof group
      right; right
      refine ⟨ho, he, ?_⟩
      cases hk : info.kind with
      | primitive =>
        simp only [hk, hph, Bool.false_eq_true, if_false] at hok hr
        have hnn : (info.parentIsOptionalEmbed && parentIsNil info obj) = false := by simp [he]
        simp only [hnn, Bool.false_eq_true, if_false] at hr
        obtain ⟨hn, hz, k, hrt, hvt, hx⟩ := hok
        obtain ⟨s, hxs, hcase⟩ := fieldWith_prim_branch _ ov info mv msg attrs st a _ hk ho he hn hz k hrt hvt hx hl hr
        rcases hcase with ⟨hzs, hrun⟩ | ⟨hzs, y, hrun, hnf⟩
        · left
          refine ⟨?_, hrun⟩
          unfold BranchIdle
          simp only [hk]
          exact ⟨s, hxs, hzs⟩
        · right
          refine ⟨_, st.hooks, hrun, ?_⟩
          unfold BranchSet
          simp only [hk]
          rw [hxs] at hnf
          exact ⟨s, y, hxs, hzs, rfl, hnf⟩
      | object =>
        simp only [hk] at hok hr
        obtain ⟨hn, hvt, hx⟩ := hok
        rw [hn] at hr
        rcases fieldWith_obj_branch3 _ ov info mv msg sub attrs st a _ _ _ hrec hk ho he hn hem hvt hx hl hr with
          ⟨hxn, hrun⟩ | ⟨fs, o, hs', hxs, hrun, hnf⟩
        · left
          refine ⟨?_, hrun⟩
          unfold BranchIdle
          simp only [hk]
          exact hxn
        · right
          refine ⟨_, hs', hrun, ?_⟩
          unfold BranchSet
          simp only [hk]
          exact ⟨fs, o, hxs, rfl, by simpa [structOf] using hnf⟩
      | primitiveList => simp only [hk] at hok
      | objectList => simp only [hk] at hok
      | primitiveMap => simp only [hk] at hok
      | objectMap => simp only [hk] at hok
      | custom => simp only [hk] at hok

theorem fromFields_reads3 (ov : List (String × String)) : ∀ (fs : List Field) (obj : GoVal) (attrs : Option (List (String × TfVal)))
    (st : FromSt), rendersFields3 fs obj (attrs.getD []) = true → RT3OKs fs obj → IsStruct st.obj →
    (∀ f ∈ fs, f.info.parentIsOptionalEmbed = true → ParentWF f.info.parentIsOptionalEmbedFieldName st.obj) →
    ∃ o hs', copyFromFields ov fs attrs st = .ok { obj := o, diags := st.diags, hooks := hs' } ∧ IsStruct o ∧
      (∀ f ∈ fs, f.info.oneOfName = "" → valNfEq f (getVal f.info obj) (getVal f.info o) = true) ∧
      (∀ g, g ≠ "" → (∀ f ∈ fs, f.info.oneOfName = "" → wkey3 f.info ≠ g) → HolderSpec g fs obj st.obj o) ∧
      (∀ key, (∀ f ∈ fs, key ≠ wkey3 f.info) → o.field? key = st.obj.field? key) ∧
      (∀ P n, (∀ f ∈ fs, wkey3 f.info = P → f.info.parentIsOptionalEmbed = true ∧ f.info.name ≠ n) →
        cfield P n o = cfield P n st.obj)
  | [], _, _, st, _, _, hs, _ =>
    ⟨st.obj, st.hooks, by simp [copyFromFields], hs, by simp, fun g _ _ => Or.inr ⟨by simp, rfl⟩, by simp, by simp⟩
  | f :: rest, obj, attrs, st, hR, hok, hs, hpw => by
    unfold RT3OKs at hok
    obtain ⟨hf, hsep, hrest⟩ := hok
    unfold rendersFields3 at hR
    simp only [Bool.and_eq_true] at hR
    obtain ⟨hRf, hRrest⟩ := hR
    simp only [copyFromFields]
    by_cases hph : f.info.isPlaceholder = true
    · -- the placeholder is skipped
      simp only [hph, if_true]
      obtain ⟨hkp, hop⟩ := rt3ok_placeholder f obj hf hph
      obtain ⟨o, hs', hrun, hso, hall, hspec, hframe, hcf⟩ := fromFields_reads3 ov rest obj attrs st hRrest hrest hs
        (fun g hg => hpw g (by simp [hg]))
      refine ⟨o, hs', hrun, hso, ?_, ?_, ?_, ?_⟩
      · intro g hg hgo
        simp only [List.mem_cons] at hg
        rcases hg with rfl | hg
        · obtain ⟨info, mv, msg, sub⟩ := g
          simp only at hph hkp
          unfold valNfEq
          simp [hkp, hph]
        · exact hall g hg hgo
      · intro g hg hnp
        refine holderSpec_cons_other g f rest obj st.obj st.obj o ?_ rfl
          (hspec g hg (fun f' hf' => hnp f' (by simp [hf'])))
        rw [hop]; exact fun e => hg e.symm
      · intro key hkey
        exact hframe key (fun g hg => hkey g (by simp [hg]))
      · intro P n hPn
        exact hcf P n (fun g hg => hPn g (by simp [hg]))
    · have hph' : f.info.isPlaceholder = false := by simpa using hph
      simp only [hph', Bool.false_eq_true, if_false]
      cases hla : (attrs.getD []).lookup f.info.nameSnake with
      | none => simp [hla] at hRf
      | some a =>
        simp only [hla] at hRf
        rcases fromField_reads3 ov f obj attrs st a hla hRf hf hph' hs with
          ⟨ho, he, y, hs1, hrun, hv⟩ | ⟨ho, he, hE⟩ | ⟨ho, he, hcase⟩
        · -- a field outside oneof groups and embedded messages
          have wf := wkey3_plain f.info he ho
          simp only [hrun]
          have hpw1 : ∀ g ∈ rest, g.info.parentIsOptionalEmbed = true →
              ParentWF g.info.parentIsOptionalEmbedFieldName (st.obj.setField f.info.name y) := by
            intro g hg heg
            refine parentWF_congr _ _ _ (field?_setField_other _ _ _ _ ?_) (hpw g (by simp [hg]) heg)
            have := sep_not_embed _ _ (hsep g hg) he heg
            rw [wf, wkey3_embed _ heg] at this
            exact fun e => this e.symm
          obtain ⟨o, hs', hrun2, hso, hall, hspec, hframe, hcf⟩ := fromFields_reads3 ov rest obj attrs
            { obj := st.obj.setField f.info.name y, diags := st.diags, hooks := hs1 } hRrest hrest
            (isStruct_setField _ _ _ hs) hpw1
          refine ⟨o, hs', hrun2, hso, ?_, ?_, ?_, ?_⟩
          · intro g hg hgo
            simp only [List.mem_cons] at hg
            rcases hg with rfl | hg
            · rw [getVal_plain g.info o ho he, hframe g.info.name (fun g' hg' => by
                  have := sep_plain _ _ (hsep g' hg') he ho
                  rw [wf] at this
                  exact this), field?_setField_same _ _ _ hs]
              exact hv
            · exact hall g hg hgo
          · intro g hg hnp
            refine holderSpec_cons_other g f rest obj st.obj _ o (by rw [ho]; exact fun e => hg e.symm) ?_
              (hspec g hg (fun f' hf' => hnp f' (by simp [hf'])))
            have := hnp f (by simp) ho
            rw [wf] at this
            exact field?_setField_other _ _ _ _ (fun e => this e.symm)
          · intro key hkey
            rw [hframe key (fun g hg => hkey g (by simp [hg]))]
            have := hkey f (by simp)
            rw [wf] at this
            exact field?_setField_other _ _ _ _ this
          · intro P n hPn
            rw [hcf P n (fun g hg => hPn g (by simp [hg]))]
            apply cfield_congr
            refine field?_setField_other _ _ _ _ (fun e => ?_)
            have := (hPn f (by simp) (by rw [wf, e])).1
            rw [he] at this
            cases this
        · -- a child of a nullable embedded message
          have wf := wkey3_embed f.info he
          have hpwf := hpw f (by simp) he
          have hsame : ∀ g ∈ rest, wkey3 g.info = f.info.parentIsOptionalEmbedFieldName →
              g.info.parentIsOptionalEmbed = true ∧ g.info.name ≠ f.info.name :=
            fun g hg e => sep_embed _ _ (hsep g hg) he e
          rcases hE with ⟨hrun, hcn, hq⟩ | ⟨y, hs1, hrun, hq⟩
          · -- nothing happens
            simp only [hrun]
            obtain ⟨o, hs', hrun2, hso, hall, hspec, hframe, hcf⟩ := fromFields_reads3 ov rest obj attrs st hRrest hrest hs
              (fun g hg => hpw g (by simp [hg]))
            refine ⟨o, hs', hrun2, hso, ?_, ?_, ?_, ?_⟩
            · intro g hg hgo
              simp only [List.mem_cons] at hg
              rcases hg with rfl | hg
              · rw [getVal_embed g.info o he, hcf _ _ hsame, hcn]
                exact hq
              · exact hall g hg hgo
            · intro g hg hnp
              refine holderSpec_cons_other g f rest obj st.obj st.obj o (by rw [ho]; exact fun e => hg e.symm) rfl
                (hspec g hg (fun f' hf' => hnp f' (by simp [hf'])))
            · intro key hkey
              exact hframe key (fun g hg => hkey g (by simp [hg]))
            · intro P n hPn
              exact hcf P n (fun g hg => hPn g (by simp [hg]))
          · -- the field of the embedded struct is assigned
            simp only [hrun]
            have hpw1 : ∀ g ∈ rest, g.info.parentIsOptionalEmbed = true →
                ParentWF g.info.parentIsOptionalEmbedFieldName
                  (embedSet f.info.parentIsOptionalEmbedFieldName f.info.name st.obj y) := by
              intro g hg heg
              by_cases e : g.info.parentIsOptionalEmbedFieldName = f.info.parentIsOptionalEmbedFieldName
              · rw [e]; exact parentWF_embedSet _ _ _ _ hs hpwf
              · exact parentWF_congr _ _ _ (field?_embedSet_other _ _ _ _ _ e) (hpw g (by simp [hg]) heg)
            obtain ⟨o, hs', hrun2, hso, hall, hspec, hframe, hcf⟩ := fromFields_reads3 ov rest obj attrs
              { obj := embedSet f.info.parentIsOptionalEmbedFieldName f.info.name st.obj y, diags := st.diags, hooks := hs1 }
              hRrest hrest (isStruct_embedSet _ _ _ _ hs) hpw1
            refine ⟨o, hs', hrun2, hso, ?_, ?_, ?_, ?_⟩
            · intro g hg hgo
              simp only [List.mem_cons] at hg
              rcases hg with rfl | hg
              · rw [getVal_embed g.info o he, hcf _ _ hsame, cfield_embedSet_same _ _ _ _ hs hpwf]
                exact hq
              · exact hall g hg hgo
            · intro g hg hnp
              refine holderSpec_cons_other g f rest obj st.obj _ o (by rw [ho]; exact fun e => hg e.symm) ?_
                (hspec g hg (fun f' hf' => hnp f' (by simp [hf'])))
              have := hnp f (by simp) ho
              rw [wf] at this
              exact field?_embedSet_other _ _ _ _ _ (fun e => this e.symm)
            · intro key hkey
              rw [hframe key (fun g hg => hkey g (by simp [hg]))]
              have := hkey f (by simp)
              rw [wf] at this
              exact field?_embedSet_other _ _ _ _ _ this
            · intro P n hPn
              rw [hcf P n (fun g hg => hPn g (by simp [hg]))]
              by_cases e : P = f.info.parentIsOptionalEmbedFieldName
              · subst e
                have := (hPn f (by simp) wf).2
                exact cfield_embedSet_other _ _ _ _ _ hs (fun e => this e.symm)
              · exact cfield_congr _ _ _ _ (field?_embedSet_other _ _ _ _ _ e)
        · -- a branch of a oneof group
          have wf := wkey3_branch f.info he ho
          rcases hcase with ⟨hidle, hrun⟩ | ⟨h1, hs1, hrun, hset⟩
          · -- an idle branch: nothing happens
            simp only [hrun]
            obtain ⟨o, hs', hrun2, hso, hall, hspec, hframe, hcf⟩ := fromFields_reads3 ov rest obj attrs st hRrest hrest hs
              (fun g hg => hpw g (by simp [hg]))
            refine ⟨o, hs', hrun2, hso, ?_, ?_, ?_, ?_⟩
            · intro g hg hgo
              simp only [List.mem_cons] at hg
              rcases hg with rfl | hg
              · exact absurd hgo ho
              · exact hall g hg hgo
            · intro g hg hnp
              exact holderSpec_cons_idle g f rest obj st.obj o hidle (hspec g hg (fun f' hf' => hnp f' (by simp [hf'])))
            · intro key hkey
              exact hframe key (fun g hg => hkey g (by simp [hg]))
            · intro P n hPn
              exact hcf P n (fun g hg => hPn g (by simp [hg]))
          · -- a branch that is read back into the holder
            simp only [hrun]
            have hpw1 : ∀ g ∈ rest, g.info.parentIsOptionalEmbed = true →
                ParentWF g.info.parentIsOptionalEmbedFieldName (st.obj.setField f.info.oneOfName h1) := by
              intro g hg heg
              refine parentWF_congr _ _ _ (field?_setField_other _ _ _ _ ?_) (hpw g (by simp [hg]) heg)
              have := sep_not_embed _ _ (hsep g hg) he heg
              rw [wf, wkey3_embed _ heg] at this
              exact fun e => this e.symm
            obtain ⟨o, hs', hrun2, hso, hall, hspec, hframe, hcf⟩ := fromFields_reads3 ov rest obj attrs
              { obj := st.obj.setField f.info.oneOfName h1, diags := st.diags, hooks := hs1 } hRrest hrest
              (isStruct_setField _ _ _ hs) hpw1
            refine ⟨o, hs', hrun2, hso, ?_, ?_, ?_, ?_⟩
            · intro g hg hgo
              simp only [List.mem_cons] at hg
              rcases hg with rfl | hg
              · exact absurd hgo ho
              · exact hall g hg hgo
            · intro g hg hnp
              have hrest' := hspec g hg (fun f' hf' => hnp f' (by simp [hf']))
              by_cases e : f.info.oneOfName = g
              · exact holderSpec_cons_set g f rest obj st.obj _ o h1 e
                  (by rw [← e]; exact field?_setField_same _ _ _ hs) hset hrest'
              · exact holderSpec_cons_other g f rest obj st.obj _ o e
                  (field?_setField_other _ _ _ _ (fun e' => e e'.symm)) hrest'
            · intro key hkey
              rw [hframe key (fun g hg => hkey g (by simp [hg]))]
              have := hkey f (by simp)
              rw [wf] at this
              exact field?_setField_other _ _ _ _ this
            · intro P n hPn
              rw [hcf P n (fun g hg => hPn g (by simp [hg]))]
              apply cfield_congr
              refine field?_setField_other _ _ _ _ (fun e => ?_)
              have := (hPn f (by simp) (by rw [wf, e])).1
              rw [he] at this
              cases this

end

-- ------------------------------------------------------------------------------------------------------
-- the whole message

/-- **C04 with children of nullable embedded messages and custom types, every depth.** As `C04_roundtrip_oneof`, and fields may
be children of a nullable embedded message (every kind: scalars, messages, lists, maps, custom) and may be of a custom type
(string-like values, the hooks of the harness), at every nesting depth. Proof: `copyTo_renders3` (CopyTo renders, with what
`Spec.rendersVal` leaves open for these two templates) composed with `fromFields_reads3`. -/
theorem roundtrip_embed (ov : List (String × String)) (m : Msg) (obj : GoVal) (atys : List (String × TfTy))
    (hto : ToOKs m.fields obj atys) (hrt : RT3OKs m.fields obj) :
    ∃ r b, copyTo m obj (.obj false false none (some atys)) = .ok r ∧ r.diags = [] ∧
      copyFrom ov m r.tf (.struct []) = .ok b ∧ b.diags = [] ∧ c04Check m obj b.obj = true := by
  obtain ⟨r, as, hrun, hd, htf, hren⟩ := copyTo_renders3 m obj atys hto
  obtain ⟨o, hs', hfrom, _, hall, hspec, _, _⟩ := fromFields_reads3 ov m.fields obj (some as)
    { obj := resetOneOfs m.info.oneOfNames (.struct []) } hren hrt (isStruct_resetOneOfs _ _ trivial)
    (fun g _ _ => parentWF_init _ _)
  refine ⟨r, { obj := o, diags := [], hooks := hs' }, hrun, hd, ?_, rfl, ?_⟩
  · rw [htf]
    simp [copyFrom, hfrom]
  · unfold c04Check
    apply nfEqFields_of_forall
    intro f hf
    by_cases ho : f.info.oneOfName = ""
    · rw [nfEqField_eq_valNfEq f obj o ho]; exact hall f hf ho
    · exact branch_nfEq3 m.fields obj _ o hrt f hf ho (initNone_reset _ _ (.struct []) trivial (initNone_empty _))
        (hspec _ ho (no_plain_named3 m.fields obj hrt f hf ho))

-- ------------------------------------------------------------------------------------------------------
-- `RT3OK` extends `RT2OK`

theorem msgTyped_mono (n : Bool) (P Q : GoVal → Prop) (h : ∀ s, P s → Q s) (x : GoVal) (hx : MsgTyped n P x) :
    MsgTyped n Q x := by
  unfold MsgTyped at hx ⊢
  cases n with
  | true =>
    simp only [if_true] at hx ⊢
    rcases hx with hx | ⟨fs, hx, hp⟩
    · exact Or.inl hx
    · exact Or.inr ⟨fs, hx, h _ hp⟩
  | false =>
    simp only [Bool.false_eq_true, if_false] at hx ⊢
    obtain ⟨fs, hx, hp⟩ := hx
    exact ⟨fs, hx, h _ hp⟩

theorem rt2ok_plain (f : Field) (obj : GoVal) (h : RT2OK f obj) : f.info.parentIsOptionalEmbed = false := by
  obtain ⟨info, mv, msg, sub⟩ := f
  unfold RT2OK at h
  exact h.1

mutual

theorem rt3ok_of_rt2ok : ∀ (f : Field) (obj : GoVal), RT2OK f obj → RT3OK f obj
  | ⟨info, mv, msg, sub⟩, obj, h => by
    unfold RT2OK at h
    unfold RT3OK
    obtain ⟨he, hem, hp, hc⟩ := h
    refine ⟨hem, hp, ?_⟩
    rcases hc with ⟨ho, hm⟩ | ⟨ho, hw, hm⟩
    · left
      refine ⟨ho, ?_⟩
      cases hk : info.kind <;> simp only [hk] at hm ⊢ <;> first
        | exact hm
        | exact ⟨hm.1, msgTyped_mono _ _ _ (fun s hs => rt3oks_of_rt2oks sub s hs) _ hm.2⟩
        | exact ⟨hm.1, hm.2.1, fun e he' => msgTyped_mono _ _ _ (fun s hs => rt3oks_of_rt2oks sub s hs) _ (hm.2.2 e he')⟩
        | exact ⟨hm.1, hm.2.1, hm.2.2.1, fun e he' => msgTyped_mono _ _ _ (fun s hs => rt3oks_of_rt2oks sub s hs) _ (hm.2.2.2 e he')⟩
    · right
      refine ⟨ho, he, hw, ?_⟩
      cases hk : info.kind <;> simp only [hk] at hm ⊢ <;> first
        | exact hm
        | exact ⟨hm.1, hm.2.1, msgTyped_mono _ _ _ (fun s hs => rt3oks_of_rt2oks sub s hs) _ hm.2.2⟩

theorem rt3oks_of_rt2oks : ∀ (fs : List Field) (obj : GoVal), RT2OKs fs obj → RT3OKs fs obj
  | [], _, _ => by unfold RT3OKs; trivial
  | f :: rest, obj, h => by
    unfold RT2OKs at h
    unfold RT3OKs
    refine ⟨rt3ok_of_rt2ok f obj h.1, ?_, rt3oks_of_rt2oks rest obj h.2.2⟩
    intro g hg hw
    have hef := rt2ok_plain f obj h.1
    have heg := rt2ok_plain g obj (rt2oks_mem rest obj h.2.2 g hg)
    have hw' : wkey f.info = wkey g.info := by simpa [wkey3, hef, heg] using hw
    obtain ⟨h1, h2, h3⟩ := h.2.1 g hg hw'
    exact Or.inl ⟨hef, heg, h1, h2, h3⟩

end

/-- `roundtrip_embed` contains `C04_roundtrip_oneof` (and with it `C04_roundtrip_plain`) -/
theorem roundtrip_embed_rt2 (ov : List (String × String)) (m : Msg) (obj : GoVal) (atys : List (String × TfTy))
    (hto : ToOKs m.fields obj atys) (hrt : RT2OKs m.fields obj) :
    ∃ r b, copyTo m obj (.obj false false none (some atys)) = .ok r ∧ r.diags = [] ∧
      copyFrom ov m r.tf (.struct []) = .ok b ∧ b.diags = [] ∧ c04Check m obj b.obj = true :=
  roundtrip_embed ov m obj atys hto (rt3oks_of_rt2oks m.fields obj hrt)

-- ------------------------------------------------------------------------------------------------------
-- the parent pointer itself is not part of the normal form

namespace EmbedEx

def tyS : String := "github.com/hashicorp/terraform-plugin-framework/types.String"
def tyI : String := "github.com/hashicorp/terraform-plugin-framework/types.Int64"

/-- a plain string `S` -/
def fS : FieldInfo :=
  { name := "S", nameSnake := "s", kind := .primitive, protoType := "string",
    tf := { valueType := tyS, elemValueType := tyS, valueCastToType := "string", valueCastFromType := "string", zeroValue := "\"\"" } }
/-- string child `A` of the nullable embedded message `P` -/
def fA : FieldInfo :=
  { name := "A", nameSnake := "a", kind := .primitive, protoType := "string",
    parentIsOptionalEmbed := true, parentIsOptionalEmbedFieldName := "P",
    tf := { valueType := tyS, elemValueType := tyS, valueCastToType := "string", valueCastFromType := "string", zeroValue := "\"\"" } }
/-- int32 child `B` of the nullable embedded message `P` -/
def fB : FieldInfo :=
  { name := "B", nameSnake := "b", kind := .primitive, protoType := "int32",
    parentIsOptionalEmbed := true, parentIsOptionalEmbedFieldName := "P",
    tf := { valueType := tyI, elemValueType := tyI, valueCastToType := "int64", valueCastFromType := "int32", zeroValue := "0" } }
/-- a custom (string-like) field `C` -/
def fC : FieldInfo := { name := "C", nameSnake := "c", kind := .custom, suffix := "X", protoType := "string" }

def exFields : List Field := [{ info := fS }, { info := fA }, { info := fB }, { info := fC }]
def exMsg : Msg := { info := { name := "M" }, fields := exFields }
def exTys : List (String × TfTy) := [("s", .prim .string), ("a", .prim .string), ("b", .prim .int64), ("c", .prim .string)]

/-- `P` is set, `A` is "x", `B` is 0 -/
def exObj : GoVal :=
  .struct [("S", .sc (.str [104, 105])), ("P", .ptr (some (.struct [("A", .sc (.str [120])), ("B", .sc (.w32 0))]))),
    ("C", .sc (.str [99]))]

/-- `P` is set, and both children are zero -/
def zeroObj : GoVal :=
  .struct [("S", .sc (.str [104, 105])), ("P", .ptr (some (.struct [("A", .sc (.str [])), ("B", .sc (.w32 0))]))),
    ("C", .sc (.str [99]))]

end EmbedEx

open EmbedEx in
/-- **A non-nil embedded message whose children are all zero comes back as a nil pointer.** CopyTo renders every child null
(C20), so CopyFrom never allocates the parent: in the struct read back `P` is nil, in the original it is not. The round trip is
still the identity *in the normal form of C04*: `Spec.nfEqField` compares the children through `Spec.getVal`, which reads a
child through a nil parent as its zero value, and the IR has no field for the parent pointer itself – `c04Check` is `true`
(so `roundtrip_embed` needs no hypothesis that excludes this value). "nil embedded message ≡ embedded message with zero
children" is part of the normal form, next to "nil ≡ empty list". -/
theorem embed_zero_children_witness :
    (match copyTo exMsg zeroObj (.obj false false none (some exTys)) with
     | .ok r => (match copyFrom [] exMsg r.tf (.struct []) with
        | .ok b => c04Check exMsg zeroObj b.obj && b.diags.isEmpty && r.diags.isEmpty &&
            -- the parent pointer: set in the original, nil in the struct read back
            !parentIsNil fA zeroObj && parentIsNil fA b.obj &&
            (match b.obj.field? "P" with | none => true | _ => false)
        | _ => false)
     | _ => false) = true := by
  decide

open EmbedEx in
/-- non-vacuity: `P` with one non-zero child. The parent is allocated by the block of `A`, the null attribute of `B` then
writes the zero value through it, the custom field `C` goes through the hooks. -/
theorem embed_example_runs :
    (match copyTo exMsg exObj (.obj false false none (some exTys)) with
     | .ok r => (match copyFrom [] exMsg r.tf (.struct []) with
        | .ok b => c04Check exMsg exObj b.obj && b.diags.isEmpty && r.diags.isEmpty &&
            !parentIsNil fA b.obj &&
            (match getVal fA b.obj, getVal fB b.obj, getVal fC b.obj with
             | .sc (.str a), .sc (.w32 x), .sc (.str c) => a == [120] && x == 0 && c == [99]
             | _, _, _ => false)
        | _ => false)
     | _ => false) = true := by
  decide

namespace EmbedEx

theorem fS_rt : PrimRT fS .string :=
  primRT_of_row fS .string (by decide) (by decide) (by decide) (by decide) (by decide)
theorem fA_rt : PrimRT fA .string :=
  primRT_of_row fA .string (by decide) (by decide) (by decide) (by decide) (by decide)
theorem fB_rt : PrimRT fB .int64 :=
  primRT_of_row fB .int64 (by decide) (by decide) (by decide) (by decide) (by decide)

theorem getS : getVal fS exObj = .sc (.str [104, 105]) := by
  simp [getVal, fS, exObj, GoVal.field?, List.lookup]
theorem getA : getVal fA exObj = .sc (.str [120]) := by
  simp [getVal, fA, exObj, GoVal.field?, List.lookup]
theorem getB : getVal fB exObj = .sc (.w32 0) := by
  simp [getVal, fB, exObj, GoVal.field?, List.lookup]
theorem getC : getVal fC exObj = .sc (.str [99]) := by
  simp [getVal, fC, exObj, GoVal.field?, List.lookup]

theorem okS : RT3OK { info := fS } exObj := by
  unfold RT3OK
  refine ⟨by simp [EmptyOK, isEmptyMsg], by decide, Or.inl ⟨rfl, ?_⟩⟩
  simp only [show fS.kind = .primitive from rfl]
  right
  refine ⟨.string, fS_rt, by decide, ?_⟩
  unfold PrimVal
  simp only [show fS.isNullable = false from rfl, Bool.false_eq_true, if_false]
  exact ⟨_, getS, by simp [fS, FieldInfo.rep, repOfGoType, C19.HasRep]⟩

theorem okA : RT3OK { info := fA } exObj := by
  unfold RT3OK
  refine ⟨by simp [EmptyOK, isEmptyMsg], by decide, Or.inl ⟨rfl, ?_⟩⟩
  simp only [show fA.kind = .primitive from rfl]
  right
  refine ⟨.string, fA_rt, by decide, ?_⟩
  unfold PrimVal
  simp only [show fA.isNullable = false from rfl, Bool.false_eq_true, if_false]
  exact ⟨_, getA, by simp [fA, FieldInfo.rep, repOfGoType, C19.HasRep]⟩

theorem okB : RT3OK { info := fB } exObj := by
  unfold RT3OK
  refine ⟨by simp [EmptyOK, isEmptyMsg], by decide, Or.inl ⟨rfl, ?_⟩⟩
  simp only [show fB.kind = .primitive from rfl]
  right
  refine ⟨.int64, fB_rt, by decide, ?_⟩
  unfold PrimVal
  simp only [show fB.isNullable = false from rfl, Bool.false_eq_true, if_false]
  exact ⟨_, getB, by simp [fB, FieldInfo.rep, repOfGoType, C19.HasRep]⟩

theorem okC : RT3OK { info := fC } exObj := by
  unfold RT3OK
  refine ⟨by simp [EmptyOK, isEmptyMsg], by decide, Or.inl ⟨rfl, ?_⟩⟩
  simp only [show fC.kind = .custom from rfl]
  simp [CustomTyped, fC]

/-- the hypothesis `RT3OKs` of `roundtrip_embed` for the example: `A` and `B` assign through the same parent pointer `P` and
have different names; all other pairs assign different Go fields -/
theorem embed_example_hyp : RT3OKs exFields exObj := by
  unfold exFields
  unfold RT3OKs
  refine ⟨okS, ?_, ?_⟩
  · intro g hg
    simp only [List.mem_cons, List.mem_nil_iff, or_false] at hg
    rcases hg with rfl | rfl | rfl <;> (intro h; exact absurd h (by decide))
  · unfold RT3OKs
    refine ⟨okA, ?_, ?_⟩
    · intro g hg
      simp only [List.mem_cons, List.mem_nil_iff, or_false] at hg
      rcases hg with rfl | rfl
      · intro _
        exact Or.inr ⟨rfl, rfl, by decide⟩
      · intro h; exact absurd h (by decide)
    · unfold RT3OKs
      refine ⟨okB, ?_, ?_⟩
      · intro g hg
        simp only [List.mem_cons, List.mem_nil_iff, or_false] at hg
        subst hg
        intro h; exact absurd h (by decide)
      · unfold RT3OKs
        refine ⟨okC, by simp, ?_⟩
        unfold RT3OKs
        trivial

def exInner : GoVal := .struct [("A", .sc (.str [120])), ("B", .sc (.w32 0))]

theorem reachA : Reachable fA exObj := by
  intro _
  exact ⟨by decide, rfl, exInner, by simp [fA, exObj, exInner, GoVal.field?, List.lookup]⟩
theorem reachB : Reachable fB exObj := by
  intro _
  exact ⟨by decide, rfl, exInner, by simp [fB, exObj, exInner, GoVal.field?, List.lookup]⟩

theorem toS : ToOK { info := fS } exObj (.prim .string) := by
  unfold ToOK
  simp only [show fS.kind = .primitive from rfl]
  refine ⟨⟨.string, by decide, rfl⟩, Or.inr (Or.inr ⟨(fun h => by cases h), ?_⟩)⟩
  unfold PrimTyped
  simp only [show fS.isNullable = false from rfl, Bool.false_eq_true, if_false]
  exact ⟨_, .str [104, 105], getS, by decide, fun _ => ⟨false, by decide, by decide⟩⟩

theorem toA : ToOK { info := fA } exObj (.prim .string) := by
  unfold ToOK
  simp only [show fA.kind = .primitive from rfl]
  refine ⟨⟨.string, by decide, rfl⟩, Or.inr (Or.inr ⟨reachA, ?_⟩)⟩
  unfold PrimTyped
  simp only [show fA.isNullable = false from rfl, Bool.false_eq_true, if_false]
  exact ⟨_, .str [120], getA, by decide, fun _ => ⟨false, by decide, by decide⟩⟩

theorem toB : ToOK { info := fB } exObj (.prim .int64) := by
  unfold ToOK
  simp only [show fB.kind = .primitive from rfl]
  refine ⟨⟨.int64, by decide, rfl⟩, Or.inr (Or.inr ⟨reachB, ?_⟩)⟩
  unfold PrimTyped
  simp only [show fB.isNullable = false from rfl, Bool.false_eq_true, if_false]
  exact ⟨_, .w64 0, getB, by decide, fun _ => ⟨true, by decide, by decide⟩⟩

theorem toC : ToOK { info := fC } exObj (.prim .string) := by
  unfold ToOK
  simp only [show fC.kind = .custom from rfl]
  refine ⟨rfl, (fun h => by cases h), ?_⟩
  rw [getC]
  exact ⟨_, rfl⟩

/-- the hypothesis `ToOKs` of `roundtrip_embed` for the example -/
theorem embed_example_to : ToOKs exFields exObj exTys := by
  unfold exFields
  unfold ToOKs
  refine ⟨⟨_, rfl, toS⟩, by decide, ?_⟩
  unfold ToOKs
  refine ⟨⟨_, rfl, toA⟩, by decide, ?_⟩
  unfold ToOKs
  refine ⟨⟨_, rfl, toB⟩, by decide, ?_⟩
  unfold ToOKs
  refine ⟨⟨_, rfl, toC⟩, by decide, ?_⟩
  unfold ToOKs
  trivial

/-- `roundtrip_embed` applies to the example -/
theorem embed_example_roundtrip (ov : List (String × String)) :
    ∃ r b, copyTo exMsg exObj (.obj false false none (some exTys)) = .ok r ∧ r.diags = [] ∧
      copyFrom ov exMsg r.tf (.struct []) = .ok b ∧ b.diags = [] ∧ c04Check exMsg exObj b.obj = true :=
  roundtrip_embed ov exMsg exObj exTys embed_example_to embed_example_hyp

end EmbedEx

namespace EmbedEx

def tyL : String := "github.com/hashicorp/terraform-plugin-framework/types.List"
def tyO : String := "github.com/hashicorp/terraform-plugin-framework/types.Object"

/-- string child `K` of the nullable embedded message `Q` of the nested message -/
def dK : FieldInfo :=
  { name := "K", nameSnake := "k", kind := .primitive, protoType := "string",
    parentIsOptionalEmbed := true, parentIsOptionalEmbedFieldName := "Q",
    tf := { valueType := tyS, elemValueType := tyS, valueCastToType := "string", valueCastFromType := "string", zeroValue := "\"\"" } }
/-- list child `L` of `Q` -/
def dL : FieldInfo :=
  { name := "L", nameSnake := "l", kind := .primitiveList, isRepeated := true, protoType := "int32",
    parentIsOptionalEmbed := true, parentIsOptionalEmbedFieldName := "Q",
    tf := { valueType := tyL, elemValueType := tyI, valueCastToType := "int64", valueCastFromType := "int32", zeroValue := "0" } }
/-- a repeated custom field of the nested message -/
def dR : FieldInfo := { name := "R", nameSnake := "r", kind := .custom, isRepeated := true, suffix := "Y", protoType := "string" }
def dN : FieldInfo := { name := "N", nameSnake := "n", kind := .object, isNullable := true, tf := { valueType := tyO, elemValueType := tyO } }
def deepFields : List Field :=
  [{ info := fS }, { info := dN, msg := some { name := "Inner" }, sub := [{ info := dK }, { info := dL }, { info := dR }] }]
def deepMsg : Msg := { info := { name := "M" }, fields := deepFields }
def deepTys : List (String × TfTy) :=
  [("s", .prim .string),
   ("n", .obj (some [("k", .prim .string), ("l", .list (some (.prim .int64))), ("r", .list (some (.prim .string)))]))]
def deepObj : GoVal :=
  .struct [("S", .sc (.str [104, 105])),
    ("N", .ptr (some (.struct [("Q", .ptr (some (.struct [("L", .slice (some [.sc (.w32 7)]))]))),
      ("R", .slice (some [.sc (.str [1]), .sc (.str [])]))])))]

/-- one level down: the null attribute of `K` is skipped (the parent `Q` of the fresh nested struct is nil), the list `L`
allocates `Q` and is read back through it, the repeated custom field goes through the hooks -/
theorem embed_deep_example_runs :
    (match copyTo deepMsg deepObj (.obj false false none (some deepTys)) with
     | .ok r => (match copyFrom [] deepMsg r.tf (.struct []) with
        | .ok b => c04Check deepMsg deepObj b.obj && b.diags.isEmpty && r.diags.isEmpty &&
            !parentIsNil dL (structOf (getVal dN b.obj)) &&
            (sliceElems (getVal dL (structOf (getVal dN b.obj)))).length == 1 &&
            (sliceElems (getVal dR (structOf (getVal dN b.obj)))).length == 2 && b.hooks.length == 1
        | _ => false)
     | _ => false) = true := by
  decide +kernel

end EmbedEx

end PGT
