import PGT.Model.CopyTo
import PGT.Model.Spec
import PGT.Proofs.Store
/-
`CopyTo` reads a struct only through the field a block is generated for, writes only that block's attribute, and what it
writes does not depend on the diagnostics / hook log accumulated so far.  Consequence (property C02, "writing a
distinctive value into one field changes exactly that attribute"): changing one field of the source changes at most the
attribute of that name.  All statements hold for ALL inputs (no typing hypotheses).
-/
namespace PGT

-- ------------------------------------------------------------------------------------------------------
-- 1. congruence: a block sees the struct only through its own field

/-- what the block of a field sees of the struct `obj` (the minimal view, by `Kind`):
the value read (through the oneof wrapper for singular fields) and, where the template tests it, the nil-ness of the
nullable embedded parent. -/
def fieldView (info : FieldInfo) (obj : GoVal) : Outcome GoVal × Bool :=
  match info.kind with
  | .primitive => (readField info (oneOfShadow info obj), parentIsNil info (oneOfShadow info obj))
  | .object => (readField info (oneOfShadow info obj), false)
  | .primitiveList => (readField info obj, parentIsNil info obj)
  | .primitiveMap => (readField info obj, parentIsNil info obj)
  | .objectList => (readField info obj, false)
  | .objectMap => (readField info obj, false)
  | .custom => (readField info obj, false)

/-- `primBody` uses the enclosing struct only for the `obj.<Parent> == nil` test -/
theorem primBody_congr (info : FieldInfo) (obj obj' : GoVal) (cur : Option TfVal) (t : Option TfTy) (rd : Outcome GoVal)
    (h : parentIsNil info obj = parentIsNil info obj') :
    primBody info obj cur t rd = primBody info obj' cur t rd := by
  unfold primBody assignPrim primFresh
  rw [h]

theorem primElemBody_congr (info : FieldInfo) (obj obj' : GoVal) (ety : Option TfTy)
    (h : parentIsNil info obj = parentIsNil info obj') :
    primElemBody info obj ety = primElemBody info obj' ety := by
  unfold primElemBody
  funext a diags hooks
  rw [primBody_congr info obj obj' none ety (.ok a) h]

theorem elemBodyOf_congr (rec : ToRec) (info : FieldInfo) (msg : Option MsgInfo) (se : Bool) (obj obj' : GoVal)
    (ety : Option TfTy) (oty : Option (List (String × TfTy)))
    (h : (info.kind == .objectList || info.kind == .objectMap) = false → parentIsNil info obj = parentIsNil info obj') :
    elemBodyOf rec info msg se obj ety oty = elemBodyOf rec info msg se obj' ety oty := by
  unfold elemBodyOf
  cases hk : (info.kind == .objectList || info.kind == .objectMap) with
  | true => simp
  | false => simp [primElemBody_congr info obj obj' ety (h hk)]

theorem listOrMapBody_congr (rec : ToRec) (info : FieldInfo) (msg : Option MsgInfo) (se : Bool) (obj obj' : GoVal)
    (cur : Option TfVal) (ety : Option TfTy) (src : GoVal) (st : ToSt)
    (h : (info.kind == .objectList || info.kind == .objectMap) = false → parentIsNil info obj = parentIsNil info obj') :
    listOrMapBody rec info msg se obj cur ety src st = listOrMapBody rec info msg se obj' cur ety src st := by
  unfold listOrMapBody
  simp only [elemBodyOf_congr rec info msg se obj obj' ety _ h]

theorem copyToFieldWith_congr (rec : ToRec) (info : FieldInfo) (msg : Option MsgInfo) (se : Bool) (obj obj' : GoVal)
    (atys : Option (List (String × TfTy))) (st : ToSt) (h : fieldView info obj = fieldView info obj') :
    copyToFieldWith rec info msg se obj atys st = copyToFieldWith rec info msg se obj' atys st := by
  unfold copyToFieldWith
  unfold fieldView at h
  cases hk : info.kind <;> simp only [hk, Prod.mk.injEq, and_true] at h ⊢
  · -- primitive
    obtain ⟨h1, h2⟩ := h
    simp only [h1, primBody_congr info _ _ _ _ _ h2]
  · -- primitiveList
    obtain ⟨h1, h2⟩ := h
    rw [h1]
    simp only [listOrMapBody_congr rec info msg se obj obj' _ _ _ st (fun _ => h2)]
  · -- object
    rw [h]
  · -- objectList
    rw [h]
    simp only [listOrMapBody_congr rec info msg se obj obj' _ _ _ st (fun e => by simp [hk] at e)]
  · -- primitiveMap
    obtain ⟨h1, h2⟩ := h
    rw [h1]
    simp only [listOrMapBody_congr rec info msg se obj obj' _ _ _ st (fun _ => h2)]
  · -- objectMap
    rw [h]
    simp only [listOrMapBody_congr rec info msg se obj obj' _ _ _ st (fun e => by simp [hk] at e)]
  · -- custom
    rw [h]

/-- **a field block reads the struct only through its own field**: two structs that give the same view of `f`
(`fieldView`) are indistinguishable to the block of `f` - same result state, diagnostics, hook log, same panic / stuck;
no condition on any other field, none on the nested messages (they are reached through the value read). -/
theorem copyToField_congr (f : Field) (obj obj' : GoVal) (atys : Option (List (String × TfTy))) (st : ToSt)
    (h : fieldView f.info obj = fieldView f.info obj') :
    copyToField f obj atys st = copyToField f obj' atys st := by
  obtain ⟨info, mv, msg, sub⟩ := f
  simp only [copyToField]
  exact copyToFieldWith_congr _ info msg _ obj obj' atys st h

/-- the view equalities named in the task imply the minimal one -/
theorem fieldView_of_eqs (info : FieldInfo) (obj obj' : GoVal)
    (h1 : readField info (oneOfShadow info obj) = readField info (oneOfShadow info obj'))
    (h2 : parentIsNil info (oneOfShadow info obj) = parentIsNil info (oneOfShadow info obj'))
    (h3 : readField info obj = readField info obj')
    (h4 : parentIsNil info obj = parentIsNil info obj') :
    fieldView info obj = fieldView info obj' := by
  unfold fieldView
  cases info.kind <;> simp only [h1, h2, h3, h4]

/-- the congruence under the four plain view equalities -/
theorem copyToField_congr' (f : Field) (obj obj' : GoVal) (atys : Option (List (String × TfTy))) (st : ToSt)
    (h1 : readField f.info (oneOfShadow f.info obj) = readField f.info (oneOfShadow f.info obj'))
    (h2 : parentIsNil f.info (oneOfShadow f.info obj) = parentIsNil f.info (oneOfShadow f.info obj'))
    (h3 : readField f.info obj = readField f.info obj')
    (h4 : parentIsNil f.info obj = parentIsNil f.info obj') :
    copyToField f obj atys st = copyToField f obj' atys st :=
  copyToField_congr f obj obj' atys st (fieldView_of_eqs f.info obj obj' h1 h2 h3 h4)

/-- a field outside any oneof: the view is `obj.<Name>` and the nil-ness of the embedded parent -/
theorem copyToField_congr_plain (f : Field) (obj obj' : GoVal) (atys : Option (List (String × TfTy))) (st : ToSt)
    (h0 : f.info.oneOfName = "")
    (h3 : readField f.info obj = readField f.info obj')
    (h4 : parentIsNil f.info obj = parentIsNil f.info obj') :
    copyToField f obj atys st = copyToField f obj' atys st := by
  have e : ∀ o, oneOfShadow f.info o = o := by intro o; simp [oneOfShadow, h0]
  exact copyToField_congr' f obj obj' atys st (by rw [e, e]; exact h3) (by rw [e, e]; exact h4) h3 h4

-- ------------------------------------------------------------------------------------------------------
-- 2. / 3. infrastructure

/-- map over the result of an outcome (panic / stuck reasons kept) -/
def omap {α β} (g : α → β) : Outcome α → Outcome β
  | .ok a => .ok (g a)
  | .panic w => .panic w
  | .stuck w => .stuck w

@[simp] theorem omap_ok {α β} (g : α → β) (a : α) : omap g (.ok a) = .ok (g a) := rfl
@[simp] theorem omap_panic {α β} (g : α → β) (w : String) : omap g (.panic w : Outcome α) = .panic w := rfl
@[simp] theorem omap_stuck {α β} (g : α → β) (w : String) : omap g (.stuck w : Outcome α) = .stuck w := rfl

/-- the attribute map a recursive call produces (and whether / how it fails) depends on the start state only through
its attribute map, not through the diagnostics and the hook log ("write-only" diagnostics / hooks) -/
def WriteOnly (rec : ToRec) : Prop :=
  ∀ o a s1 s2, s1.attrs = s2.attrs → omap ToSt.attrs (rec o a s1) = omap ToSt.attrs (rec o a s2)

theorem wo_leaf (r1 r2 : Outcome ToSt) (g : List (String × TfVal) → TfVal) :
    omap ToSt.attrs r1 = omap ToSt.attrs r2 →
    omap (fun x : TfVal × List Diag × List HookCall => x.1)
        (match r1 with
         | .ok st => .ok (g st.attrs, st.diags, st.hooks)
         | .panic w => .panic w
         | .stuck w => .stuck w) =
      omap (fun x : TfVal × List Diag × List HookCall => x.1)
        (match r2 with
         | .ok st => .ok (g st.attrs, st.diags, st.hooks)
         | .panic w => .panic w
         | .stuck w => .stuck w) := by
  intro h
  cases r1 <;> cases r2 <;> simp_all

theorem objBody_wo (rec : ToRec) (hrec : WriteOnly rec) (info : FieldInfo) (msg : Option MsgInfo) (se : Bool)
    (cur : Option TfVal) (oty : Option (List (String × TfTy))) (x : Outcome GoVal)
    (d1 d2 : List Diag) (h1 h2 : List HookCall) :
    omap (·.1) (objBody rec info msg se cur oty x d1 h1) = omap (·.1) (objBody rec info msg se cur oty x d2 h2) := by
  unfold objBody
  split
  rename_i null attrs atys hm
  clear hm
  have leaf : ∀ o, _ := fun o =>
    wo_leaf _ _ (fun as => TfVal.obj false null (some as) atys) (hrec o atys ⟨attrs, d1, h1⟩ ⟨attrs, d2, h2⟩ rfl)
  by_cases c1 : (!info.isNullable && (se || isEmptyMsg msg)) = true
  · simp only [c1, if_true]
    by_cases c2 : se = true
    · simp [c2]
    · simp only [c2, Bool.false_eq_true, if_false]
      exact leaf _
  · simp only [c1]
    cases x with
    | panic w => rfl
    | stuck w => rfl
    | ok xv =>
      simp only []
      by_cases c3 : info.isNullable = true
      · simp only [c3, if_true]
        cases xv with
        | ptr o =>
          cases o with
          | none => simp
          | some s =>
            simp only []
            by_cases c2 : se = true
            · simp [c2]
            · simp only [c2, Bool.false_eq_true, if_false]
              exact leaf _
        | _ => rfl
      · simp only [c3]
        cases xv with
        | struct fs =>
          simp only []
          by_cases c2 : se = true
          · simp [c2]
          · simp only [c2, Bool.false_eq_true, if_false]
            exact leaf _
        | _ => rfl

/-- the value an element body produces does not depend on the diagnostics / hook log -/
def BodyWO (body : ElemBody) : Prop :=
  ∀ a d1 h1 d2 h2, omap (·.1) (body a d1 h1) = omap (·.1) (body a d2 h2)

theorem copyToElemsList_wo (body : ElemBody) (hb : BodyWO body) :
    ∀ (elems : List GoVal) (k : Nat) (acc : List TfVal) (d1 d2 : List Diag) (h1 h2 : List HookCall),
      omap (·.1) (copyToElemsList body elems k acc d1 h1) = omap (·.1) (copyToElemsList body elems k acc d2 h2)
  | [], k, acc, d1, d2, h1, h2 => by simp [copyToElemsList]
  | a :: rest, k, acc, d1, d2, h1, h2 => by
    simp only [copyToElemsList]
    have hh := hb a d1 h1 d2 h2
    generalize body a d1 h1 = r1 at hh ⊢
    generalize body a d2 h2 = r2 at hh ⊢
    cases r1 <;> cases r2 <;> simp at hh ⊢
    · rename_i x1 x2
      obtain ⟨v1, ds1, hs1⟩ := x1
      obtain ⟨v2, ds2, hs2⟩ := x2
      simp only at hh
      subst hh
      exact copyToElemsList_wo body hb rest (k + 1) _ ds1 ds2 hs1 hs2
    · exact hh
    · exact hh

theorem copyToElemsMap_wo (body : ElemBody) (hb : BodyWO body) :
    ∀ (elems : List (String × GoVal)) (acc : List (String × TfVal)) (d1 d2 : List Diag) (h1 h2 : List HookCall),
      omap (·.1) (copyToElemsMap body elems acc d1 h1) = omap (·.1) (copyToElemsMap body elems acc d2 h2)
  | [], acc, d1, d2, h1, h2 => by simp [copyToElemsMap]
  | (k, a) :: rest, acc, d1, d2, h1, h2 => by
    simp only [copyToElemsMap]
    have hh := hb a d1 h1 d2 h2
    generalize body a d1 h1 = r1 at hh ⊢
    generalize body a d2 h2 = r2 at hh ⊢
    cases r1 <;> cases r2 <;> simp at hh ⊢
    · rename_i x1 x2
      obtain ⟨v1, ds1, hs1⟩ := x1
      obtain ⟨v2, ds2, hs2⟩ := x2
      simp only at hh
      subst hh
      exact copyToElemsMap_wo body hb rest _ ds1 ds2 hs1 hs2
    · exact hh
    · exact hh

theorem elemBodyOf_wo (rec : ToRec) (hrec : WriteOnly rec) (info : FieldInfo) (msg : Option MsgInfo) (se : Bool)
    (obj0 : GoVal) (ety : Option TfTy) (oty : Option (List (String × TfTy))) :
    BodyWO (elemBodyOf rec info msg se obj0 ety oty) := by
  intro a d1 h1 d2 h2
  unfold elemBodyOf
  split
  · exact objBody_wo rec hrec info msg se none oty (.ok a) d1 d2 h1 h2
  · unfold primElemBody
    cases primBody info obj0 none ety (.ok a) <;> simp

/-- two runs of a block from two start states do "the same thing" to the attribute `k`: both leave the attribute map
alone, or both store the same value under `k`, or both fail in the same way -/
def SameAct (k : String) (s1 s2 : ToSt) (r1 r2 : Outcome ToSt) : Prop :=
  (∃ t1 t2, r1 = .ok t1 ∧ r2 = .ok t2 ∧ t1.attrs = s1.attrs ∧ t2.attrs = s2.attrs) ∨
  (∃ t1 t2 v, r1 = .ok t1 ∧ r2 = .ok t2 ∧ t1.attrs = setKey k v s1.attrs ∧ t2.attrs = setKey k v s2.attrs) ∨
  (∃ w, r1 = .panic w ∧ r2 = .panic w) ∨ (∃ w, r1 = .stuck w ∧ r2 = .stuck w)

theorem sameAct_same (k : String) (s1 s2 t1 t2 : ToSt) (e1 : t1.attrs = s1.attrs) (e2 : t2.attrs = s2.attrs) :
    SameAct k s1 s2 (.ok t1) (.ok t2) := Or.inl ⟨t1, t2, rfl, rfl, e1, e2⟩

theorem sameAct_set (k : String) (s1 s2 t1 t2 : ToSt) (v : TfVal) (e1 : t1.attrs = setKey k v s1.attrs)
    (e2 : t2.attrs = setKey k v s2.attrs) : SameAct k s1 s2 (.ok t1) (.ok t2) :=
  Or.inr (Or.inl ⟨t1, t2, v, rfl, rfl, e1, e2⟩)

theorem sameAct_panic (k : String) (s1 s2 : ToSt) (w : String) : SameAct k s1 s2 (.panic w) (.panic w) :=
  Or.inr (Or.inr (Or.inl ⟨w, rfl, rfl⟩))

theorem sameAct_stuck (k : String) (s1 s2 : ToSt) (w : String) : SameAct k s1 s2 (.stuck w) (.stuck w) :=
  Or.inr (Or.inr (Or.inr ⟨w, rfl, rfl⟩))

theorem listOrMapBody_act (rec : ToRec) (hrec : WriteOnly rec) (info : FieldInfo) (msg : Option MsgInfo) (se : Bool)
    (obj0 : GoVal) (cur : Option TfVal) (ety : Option TfTy) (src : GoVal) (s1 s2 : ToSt) :
    SameAct info.nameSnake s1 s2 (listOrMapBody rec info msg se obj0 cur ety src s1)
      (listOrMapBody rec info msg se obj0 cur ety src s2) := by
  unfold listOrMapBody
  simp only []
  by_cases hr : info.isRepeated = true
  · simp only [hr, if_true]
    split
    · exact sameAct_set _ _ _ _ _ _ rfl rfl
    · rename_i elems _
      generalize reuseList cur _ ety = c
      cases elemObjTy (info.kind == Kind.objectList || info.kind == Kind.objectMap) ety with
      | panic w => exact sameAct_panic _ _ _ w
      | stuck w => exact sameAct_stuck _ _ _ w
      | ok oty =>
        simp only []
        by_cases hc : curIsElemKind info cur = true
        · simp only [hc, if_true]
          exact sameAct_stuck _ _ _ _
        · simp only [hc]
          have hh := copyToElemsList_wo _ (elemBodyOf_wo rec hrec info msg se obj0 ety oty) elems 0 c.2.1
            s1.diags s2.diags s1.hooks s2.hooks
          generalize copyToElemsList _ elems 0 c.2.1 s1.diags s1.hooks = r1 at hh ⊢
          generalize copyToElemsList _ elems 0 c.2.1 s2.diags s2.hooks = r2 at hh ⊢
          cases r1 <;> cases r2 <;> simp at hh
          · rename_i x1 x2
            obtain ⟨v1, ds1, hs1⟩ := x1
            obtain ⟨v2, ds2, hs2⟩ := x2
            simp only at hh
            subst hh
            exact sameAct_set _ _ _ _ _ _ rfl rfl
          · subst hh; exact sameAct_panic _ _ _ _
          · subst hh; exact sameAct_stuck _ _ _ _
  · simp only [hr]
    generalize reuseMap cur ety = c
    cases src with
    | map o =>
      cases o with
      | none => exact sameAct_set _ _ _ _ _ _ rfl rfl
      | some elems =>
        simp only []
        cases elemObjTy (info.kind == Kind.objectList || info.kind == Kind.objectMap) ety with
        | panic w => exact sameAct_panic _ _ _ w
        | stuck w => exact sameAct_stuck _ _ _ w
        | ok oty =>
          simp only []
          by_cases hc : curIsElemKind info cur = true
          · simp only [hc, if_true]
            exact sameAct_stuck _ _ _ _
          · simp only [hc]
            have hh := copyToElemsMap_wo _ (elemBodyOf_wo rec hrec info msg se obj0 ety oty) elems c.2.1
              s1.diags s2.diags s1.hooks s2.hooks
            generalize copyToElemsMap _ elems c.2.1 s1.diags s1.hooks = r1 at hh ⊢
            generalize copyToElemsMap _ elems c.2.1 s2.diags s2.hooks = r2 at hh ⊢
            cases r1 <;> cases r2 <;> simp at hh
            · rename_i x1 x2
              obtain ⟨v1, ds1, hs1⟩ := x1
              obtain ⟨v2, ds2, hs2⟩ := x2
              simp only at hh
              subst hh
              exact sameAct_set _ _ _ _ _ _ rfl rfl
            · subst hh; exact sameAct_panic _ _ _ _
            · subst hh; exact sameAct_stuck _ _ _ _
    | _ => exact sameAct_set _ _ _ _ _ _ rfl rfl

/-- one field block, run from two start states that hold the same value under the block's own attribute name (and
may differ everywhere else, diagnostics and hook log included), does the same thing to that attribute -/
theorem copyToFieldWith_act (rec : ToRec) (hrec : WriteOnly rec) (info : FieldInfo) (msg : Option MsgInfo) (se : Bool)
    (obj0 : GoVal) (atys : Option (List (String × TfTy))) (s1 s2 : ToSt)
    (hcur : s1.attrs.lookup info.nameSnake = s2.attrs.lookup info.nameSnake) :
    SameAct info.nameSnake s1 s2 (copyToFieldWith rec info msg se obj0 atys s1)
      (copyToFieldWith rec info msg se obj0 atys s2) := by
  unfold copyToFieldWith
  simp only [hcur]
  generalize List.lookup info.nameSnake s2.attrs = cur
  cases List.lookup info.nameSnake (atys.getD []) with
  | none => exact sameAct_same _ _ _ _ _ rfl rfl
  | some a =>
    simp only []
    cases info.kind with
    | primitive =>
      simp only []
      cases primBody info (oneOfShadow info obj0) cur (some a) (readField info (oneOfShadow info obj0)) with
      | ok r => obtain ⟨v, ds⟩ := r; exact sameAct_set _ _ _ _ _ v rfl rfl
      | panic w => exact sameAct_panic _ _ _ w
      | stuck w => exact sameAct_stuck _ _ _ w
    | object =>
      simp only []
      cases a with
      | obj oty =>
        simp only []
        have hh := objBody_wo rec hrec info msg se cur oty (readField info (oneOfShadow info obj0))
          s1.diags s2.diags s1.hooks s2.hooks
        generalize objBody rec info msg se cur oty _ s1.diags s1.hooks = r1 at hh ⊢
        generalize objBody rec info msg se cur oty _ s2.diags s2.hooks = r2 at hh ⊢
        cases r1 <;> cases r2 <;> simp at hh
        · rename_i x1 x2
          obtain ⟨v1, ds1, hs1⟩ := x1
          obtain ⟨v2, ds2, hs2⟩ := x2
          simp only at hh
          subst hh
          exact sameAct_set _ _ _ _ _ v1 rfl rfl
        · subst hh; exact sameAct_panic _ _ _ _
        · subst hh; exact sameAct_stuck _ _ _ _
      | _ => exact sameAct_same _ _ _ _ _ rfl rfl
    | custom =>
      simp only []
      cases readField info obj0 with
      | ok x =>
        simp only []
        cases hookTo info.isRepeated x with
        | some v => exact sameAct_set _ _ _ _ _ v rfl rfl
        | none => exact sameAct_stuck _ _ _ _
      | panic w => exact sameAct_panic _ _ _ w
      | stuck w => exact sameAct_stuck _ _ _ w
    | _ =>
      simp only []
      split
      · exact sameAct_same _ _ _ _ _ rfl rfl
      · cases readField info obj0 with
        | ok src => exact listOrMapBody_act rec hrec info msg se obj0 cur _ src s1 s2
        | panic w => exact sameAct_panic _ _ _ w
        | stuck w => exact sameAct_stuck _ _ _ w

mutual

/-- **diagnostics and the hook log are write-only**: the attribute map a message's field blocks produce (and whether /
how they fail) depends on the start state only through its attribute map; every IR, every depth -/
theorem copyToFields_wo : ∀ (fs : List Field) (obj : GoVal) (atys : Option (List (String × TfTy))) (s1 s2 : ToSt),
    s1.attrs = s2.attrs → omap ToSt.attrs (copyToFields fs obj atys s1) = omap ToSt.attrs (copyToFields fs obj atys s2)
  | [], _, _, s1, s2, h => by simp [copyToFields, h]
  | f :: rest, obj, atys, s1, s2, h => by
    simp only [copyToFields]
    rcases copyToField_act f obj atys s1 s2 (by rw [h]) with
      ⟨t1, t2, e1, e2, a1, a2⟩ | ⟨t1, t2, v, e1, e2, a1, a2⟩ | ⟨w, e1, e2⟩ | ⟨w, e1, e2⟩
    · rw [e1, e2]
      exact copyToFields_wo rest obj atys t1 t2 (by rw [a1, a2, h])
    · rw [e1, e2]
      exact copyToFields_wo rest obj atys t1 t2 (by rw [a1, a2, h])
    · rw [e1, e2]
    · rw [e1, e2]

/-- one field block of the IR, run from two start states that hold the same value under the block's own attribute
name, does the same thing to that attribute (leaves the map alone / stores the same value / fails the same way) -/
theorem copyToField_act : ∀ (f : Field) (obj : GoVal) (atys : Option (List (String × TfTy))) (s1 s2 : ToSt),
    s1.attrs.lookup f.info.nameSnake = s2.attrs.lookup f.info.nameSnake →
    SameAct f.info.nameSnake s1 s2 (copyToField f obj atys s1) (copyToField f obj atys s2)
  | ⟨info, mv, msg, sub⟩, obj, atys, s1, s2, h => by
    simp only [copyToField]
    exact copyToFieldWith_act _ (fun o a t1 t2 e => copyToFields_wo sub o a t1 t2 e) info msg _ obj atys s1 s2 h

end

-- ------------------------------------------------------------------------------------------------------
-- 2. frame: a block writes only its own attribute

/-- a successful block leaves the attribute map alone or stores one value under its own attribute name -/
theorem copyToField_shape (f : Field) (obj : GoVal) (atys : Option (List (String × TfTy))) (st st' : ToSt)
    (h : copyToField f obj atys st = .ok st') :
    st'.attrs = st.attrs ∨ ∃ v, st'.attrs = setKey f.info.nameSnake v st.attrs := by
  rcases copyToField_act f obj atys st st rfl with
    ⟨t1, t2, e1, e2, a1, a2⟩ | ⟨t1, t2, v, e1, e2, a1, a2⟩ | ⟨w, e1, e2⟩ | ⟨w, e1, e2⟩
  · rw [h] at e1; injection e1 with e1; subst e1; exact Or.inl a1
  · rw [h] at e1; injection e1 with e1; subst e1; exact Or.inr ⟨v, a1⟩
  · rw [h] at e1; cases e1
  · rw [h] at e1; cases e1

/-- **a field block writes only its own attribute** (all inputs) -/
theorem copyToField_frame (f : Field) (obj : GoVal) (atys : Option (List (String × TfTy))) (st st' : ToSt)
    (h : copyToField f obj atys st = .ok st') :
    ∀ key, key ≠ f.info.nameSnake → st'.attrs.lookup key = st.attrs.lookup key := by
  intro key hk
  rcases copyToField_shape f obj atys st st' h with e | ⟨v, e⟩
  · rw [e]
  · rw [e]; exact lookup_setKey_other _ _ _ hk _

/-- the blocks of a field list write only the attributes named by the list -/
theorem copyToFields_frame : ∀ (fs : List Field) (obj : GoVal) (atys : Option (List (String × TfTy))) (st st' : ToSt),
    copyToFields fs obj atys st = .ok st' →
    ∀ key, (∀ f ∈ fs, key ≠ f.info.nameSnake) → st'.attrs.lookup key = st.attrs.lookup key
  | [], _, _, st, st', h, key, _ => by
    simp only [copyToFields] at h; injection h with h; subst h; rfl
  | f :: rest, obj, atys, st, st', h, key, hk => by
    simp only [copyToFields] at h
    cases hm : copyToField f obj atys st with
    | ok m =>
      rw [hm] at h
      rw [copyToFields_frame rest obj atys m st' h key (fun g hg => hk g (by simp [hg])),
        copyToField_frame f obj atys st m hm key (hk f (by simp))]
    | panic w => rw [hm] at h; cases h
    | stuck w => rw [hm] at h; cases h

/-- the value a block leaves under its own attribute name depends on the start state only through the value found
there (not on other attributes, the diagnostics or the hook log) -/
theorem copyToField_own (f : Field) (obj : GoVal) (atys : Option (List (String × TfTy))) (s1 s2 t1 t2 : ToSt)
    (hcur : s1.attrs.lookup f.info.nameSnake = s2.attrs.lookup f.info.nameSnake)
    (h1 : copyToField f obj atys s1 = .ok t1) (h2 : copyToField f obj atys s2 = .ok t2) :
    t1.attrs.lookup f.info.nameSnake = t2.attrs.lookup f.info.nameSnake := by
  rcases copyToField_act f obj atys s1 s2 hcur with
    ⟨u1, u2, e1, e2, a1, a2⟩ | ⟨u1, u2, v, e1, e2, a1, a2⟩ | ⟨w, e1, e2⟩ | ⟨w, e1, e2⟩
  · rw [h1] at e1; rw [h2] at e2
    injection e1 with e1; injection e2 with e2; subst e1; subst e2
    rw [a1, a2]; exact hcur
  · rw [h1] at e1; rw [h2] at e2
    injection e1 with e1; injection e2 with e2; subst e1; subst e2
    rw [a1, a2, lookup_setKey_same, lookup_setKey_same]
  · rw [h1] at e1; cases e1
  · rw [h1] at e1; cases e1

-- ------------------------------------------------------------------------------------------------------
-- 3. changing one field of the source changes at most that field's attribute

/-- generalised over two start states that agree on every attribute except `k0` (diagnostics / hooks arbitrary) -/
theorem copyToFields_changes_only_gen (k0 : String) (obj obj' : GoVal) (atys : Option (List (String × TfTy))) :
    ∀ (fs : List Field) (s1 s2 t1 t2 : ToSt),
    (∀ f ∈ fs, f.info.nameSnake ≠ k0 → fieldView f.info obj = fieldView f.info obj') →
    (∀ key, key ≠ k0 → s1.attrs.lookup key = s2.attrs.lookup key) →
    copyToFields fs obj atys s1 = .ok t1 → copyToFields fs obj' atys s2 = .ok t2 →
    ∀ key, key ≠ k0 → t1.attrs.lookup key = t2.attrs.lookup key
  | [], s1, s2, t1, t2, _, hs, h1, h2 => by
    simp only [copyToFields] at h1 h2
    injection h1 with h1; injection h2 with h2; subst h1; subst h2; exact hs
  | f :: rest, s1, s2, t1, t2, hv, hs, h1, h2 => by
    simp only [copyToFields] at h1 h2
    cases hm1 : copyToField f obj atys s1 with
    | panic w => rw [hm1] at h1; cases h1
    | stuck w => rw [hm1] at h1; cases h1
    | ok m1 =>
      cases hm2 : copyToField f obj' atys s2 with
      | panic w => rw [hm2] at h2; cases h2
      | stuck w => rw [hm2] at h2; cases h2
      | ok m2 =>
        rw [hm1] at h1; rw [hm2] at h2
        refine copyToFields_changes_only_gen k0 obj obj' atys rest m1 m2 t1 t2
          (fun g hg => hv g (by simp [hg])) ?_ h1 h2
        intro key hk
        by_cases hf : f.info.nameSnake = k0
        · have hkf : key ≠ f.info.nameSnake := by rw [hf]; exact hk
          rw [copyToField_frame f obj atys s1 m1 hm1 key hkf, copyToField_frame f obj' atys s2 m2 hm2 key hkf]
          exact hs key hk
        · rw [← copyToField_congr f obj obj' atys s2 (hv f (by simp) hf)] at hm2
          by_cases hkf : key = f.info.nameSnake
          · subst hkf
            exact copyToField_own f obj atys s1 s2 m1 m2 (hs _ hf) hm1 hm2
          · rw [copyToField_frame f obj atys s1 m1 hm1 key hkf, copyToField_frame f obj atys s2 m2 hm2 key hkf]
            exact hs key hk

/-- **changing one field of the source changes at most that field's attribute**: if `obj` and `obj'` give the same view
(`fieldView`) of every field of `fs` whose attribute name differs from `f0`'s, then the attribute maps the two runs
produce from the same start state agree on every key other than `f0`'s attribute name.  (Diagnostics / hooks may
differ.)  All inputs; pairwise distinctness of the attribute names is NOT needed. -/
theorem copyToFields_changes_only (fs : List Field) (f0 : Field) (obj obj' : GoVal)
    (atys : Option (List (String × TfTy))) (st s1 s2 : ToSt)
    (hagree : ∀ f ∈ fs, f.info.nameSnake ≠ f0.info.nameSnake → fieldView f.info obj = fieldView f.info obj')
    (h1 : copyToFields fs obj atys st = .ok s1) (h2 : copyToFields fs obj' atys st = .ok s2) :
    ∀ key, key ≠ f0.info.nameSnake → s1.attrs.lookup key = s2.attrs.lookup key :=
  copyToFields_changes_only_gen f0.info.nameSnake obj obj' atys fs st st s1 s2 hagree (fun _ _ => rfl) h1 h2

/-- the statement in the shape of the task: agreement on every field other than `f0`, attribute names pairwise
distinct (the distinctness hypothesis is not used: a field whose name differs from `f0`'s is a field other than `f0`) -/
theorem copyToFields_changes_only' (fs : List Field) (f0 : Field) (obj obj' : GoVal)
    (atys : Option (List (String × TfTy))) (st s1 s2 : ToSt)
    (_hdistinct : (fs.map (·.info.nameSnake)).Nodup)
    (hagree : ∀ f ∈ fs, f ≠ f0 →
      readField f.info (oneOfShadow f.info obj) = readField f.info (oneOfShadow f.info obj') ∧
      parentIsNil f.info (oneOfShadow f.info obj) = parentIsNil f.info (oneOfShadow f.info obj') ∧
      readField f.info obj = readField f.info obj' ∧ parentIsNil f.info obj = parentIsNil f.info obj')
    (h1 : copyToFields fs obj atys st = .ok s1) (h2 : copyToFields fs obj' atys st = .ok s2) :
    ∀ key, key ≠ f0.info.nameSnake → s1.attrs.lookup key = s2.attrs.lookup key := by
  refine copyToFields_changes_only fs f0 obj obj' atys st s1 s2 ?_ h1 h2
  intro f hf hne
  obtain ⟨a, b, c, d⟩ := hagree f hf (fun e => hne (by rw [e]))
  exact fieldView_of_eqs f.info obj obj' a b c d

/-- the whole converter: on the same target, two sources that differ only in the view of `f0` give objects that agree
on every attribute other than `f0`'s -/
theorem copyTo_changes_only (m : Msg) (f0 : Field) (obj obj' : GoVal) (tf : TfVal) (r1 r2 : ToResult)
    (hagree : ∀ f ∈ m.fields, f.info.nameSnake ≠ f0.info.nameSnake → fieldView f.info obj = fieldView f.info obj')
    (h1 : copyTo m obj tf = .ok r1) (h2 : copyTo m obj' tf = .ok r2) :
    ∃ as1 as2 atys, r1.tf = .obj false false (some as1) atys ∧ r2.tf = .obj false false (some as2) atys ∧
      ∀ key, key ≠ f0.info.nameSnake → as1.lookup key = as2.lookup key := by
  unfold copyTo at h1 h2
  cases tf with
  | obj u n attrs atys =>
    simp only [] at h1 h2
    cases hm1 : copyToFields m.fields obj atys { attrs := attrs.getD [] } with
    | panic w => rw [hm1] at h1; cases h1
    | stuck w => rw [hm1] at h1; cases h1
    | ok m1 =>
      cases hm2 : copyToFields m.fields obj' atys { attrs := attrs.getD [] } with
      | panic w => rw [hm2] at h2; cases h2
      | stuck w => rw [hm2] at h2; cases h2
      | ok m2 =>
        rw [hm1] at h1; rw [hm2] at h2
        injection h1 with h1; injection h2 with h2; subst h1; subst h2
        exact ⟨m1.attrs, m2.attrs, atys, rfl, rfl,
          copyToFields_changes_only m.fields f0 obj obj' atys _ m1 m2 hagree hm1 hm2⟩
  | _ => cases h1

-- ------------------------------------------------------------------------------------------------------
-- the concrete change: `obj.<Name> = x`

theorem field?_setField_other (obj : GoVal) (n m : String) (x : GoVal) (h : m ≠ n) :
    (obj.setField n x).field? m = obj.field? m := by
  cases obj <;> simp only [GoVal.setField, GoVal.field?]
  exact lookup_setKey_other _ _ _ h _

/-- assigning a Go struct field that `f` does not mention (not its own name, not its oneof holder, not its nullable
embedded parent) does not change the view of `f` -/
theorem fieldView_setField (info : FieldInfo) (obj : GoVal) (n : String) (x : GoVal)
    (hn : info.name ≠ n) (ho : info.oneOfName ≠ n) (hp : info.parentIsOptionalEmbedFieldName ≠ n) :
    fieldView info (obj.setField n x) = fieldView info obj := by
  have hr : readField info (obj.setField n x) = readField info obj := by
    unfold readField
    rw [field?_setField_other obj n _ x hn, field?_setField_other obj n _ x hp]
  have hq : parentIsNil info (obj.setField n x) = parentIsNil info obj := by
    unfold parentIsNil
    rw [field?_setField_other obj n _ x hp]
  apply fieldView_of_eqs info _ _ _ _ hr hq
  all_goals
    by_cases h0 : (info.oneOfName == "") = true
    · simp only [oneOfShadow, h0, if_true]
      first | exact hr | exact hq
    · have : oneOfShadow info (obj.setField n x) = oneOfShadow info obj := by
        simp only [oneOfShadow, h0, Bool.false_eq_true, if_false]
        rw [field?_setField_other obj n _ x ho]
      rw [this]

/-- **writing a value into one Go field changes at most the attributes of the fields that mention it**: if every field
of `fs` that mentions the Go name `n` (as its own name, oneof holder or nullable embedded parent) has the attribute name
of `f0`, then `obj.<n> = x` changes at most the attribute of `f0`. -/
theorem copyToFields_setField_changes_only (fs : List Field) (f0 : Field) (obj : GoVal) (n : String) (x : GoVal)
    (atys : Option (List (String × TfTy))) (st s1 s2 : ToSt)
    (hfs : ∀ f ∈ fs, f.info.nameSnake ≠ f0.info.nameSnake →
      f.info.name ≠ n ∧ f.info.oneOfName ≠ n ∧ f.info.parentIsOptionalEmbedFieldName ≠ n)
    (h1 : copyToFields fs obj atys st = .ok s1) (h2 : copyToFields fs (obj.setField n x) atys st = .ok s2) :
    ∀ key, key ≠ f0.info.nameSnake → s1.attrs.lookup key = s2.attrs.lookup key := by
  refine copyToFields_changes_only fs f0 obj (obj.setField n x) atys st s1 s2 ?_ h1 h2
  intro f hf hne
  obtain ⟨a, b, c⟩ := hfs f hf hne
  exact (fieldView_setField f.info obj n x a b c).symm

end PGT

section
open PGT
#print axioms copyToField_congr
#print axioms copyToField_frame
#print axioms copyToFields_wo
#print axioms copyToFields_changes_only
#print axioms copyToFields_changes_only'
#print axioms copyTo_changes_only
#print axioms copyToFields_setField_changes_only
end
