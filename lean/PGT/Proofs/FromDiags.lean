import PGT.Proofs.FromTotal
import PGT.Proofs.ToWriter
import PGT.Model.Spec
/-
Diagnostics of `Copy<T>FromTerraform` (property C06, CopyFrom side: "malformed input becomes diagnostics, never a
panic ... at any nesting depth ... and conversion of the rest continues"), for ALL IRs, ALL Terraform values (well-formed
or not) and ALL prior states, by mutual structural induction over the IR. No typing hypotheses anywhere in 1.–3.

1. WRITER LAW / APPEND-ONLY (`copyFromFields_writer`, `copyFromFields_append`, … for one field, the element loops, the
   loop body): the diagnostics and the hook log are never read, only appended to; the struct, the status and what is
   appended do not depend on them.
2. EXACT CENSUS (`fromFields_diags`, `copyFrom_diags`): a run that returns has appended exactly `fromDiagsFields`, in
   order – one "missing" per attribute absent from a visited object, one "conv" per attribute / list element / map
   value of the wrong Go type (nil included), at every depth CopyFrom visits.
3. SITES (`SiteAt`, `siteAt_diag`, `missing_diag`, `wrongType_diag`, `wrongListElem_diag`, `wrongMapElem_diag`,
   `copyFrom_sites`): the diagnostic of every malformed site, at any depth, is in the result.
4. EXECUTABLE CENSUS (`census_keys_fields`, `copyFrom_c06FromCheck`, `c06Fields_sound`, `c06Fields_complete`): the
   (kind, path) keys of the diagnostics are exactly `Spec.c06Fields`; every run of the model that returns passes the
   check `Spec.c06FromCheck` the driver evaluates on the real generated code. Only here a hypothesis on the IR is
   needed (`VFOKs`: the census reads the element type of list fields through `mapVal.getD info`, the emitted code
   through the field itself; built IRs carry a `mapVal` on map fields only).
-/
namespace PGT

-- ======================================================================================================
-- 1. writer law
-- ======================================================================================================

/-- prepend `d` / `h` to the diagnostics / hook log of a CopyFrom state; the struct is untouched -/
def shiftF (d : List Diag) (h : List HookCall) (st : FromSt) : FromSt :=
  { obj := st.obj, diags := d ++ st.diags, hooks := h ++ st.hooks }

abbrev FromBody := TfVal → List Diag → List HookCall → Outcome (Option GoVal × List Diag × List HookCall)

/-- the recursive call only appends to diags / hooks -/
def RecWriterF (rec : FromRec) : Prop :=
  ∀ attrs st d h, rec attrs (shiftF d h st) = (rec attrs st).mapO (shiftF d h)

/-- an element body only appends to diags / hooks -/
def BodyWriterF (body : FromBody) : Prop :=
  ∀ a diags hooks d h, body a (d ++ diags) (h ++ hooks) = (body a diags hooks).mapO (shift3 d h)

theorem fromElemsList_writer (body : FromBody) (hb : BodyWriterF body) :
    ∀ (elems : List TfVal) (k : Nat) (acc : List GoVal) (diags : List Diag) (hooks : List HookCall)
      (d : List Diag) (h : List HookCall),
      fromElemsList body elems k acc (d ++ diags) (h ++ hooks) =
        (fromElemsList body elems k acc diags hooks).mapO (shift3 d h)
  | [], k, acc, diags, hooks, d, h => rfl
  | a :: rest, k, acc, diags, hooks, d, h => by
    simp only [fromElemsList, hb a diags hooks d h]
    generalize body a diags hooks = r
    cases r with
    | ok q =>
      obtain ⟨v, ds, hs⟩ := q
      cases v with
      | some v => exact fromElemsList_writer body hb rest (k + 1) (acc.set k v) ds hs d h
      | none => exact fromElemsList_writer body hb rest (k + 1) acc ds hs d h
    | panic w => rfl
    | stuck w => rfl

theorem fromElemsMap_writer (body : FromBody) (hb : BodyWriterF body) :
    ∀ (elems : List (String × TfVal)) (acc : List (String × GoVal)) (diags : List Diag) (hooks : List HookCall)
      (d : List Diag) (h : List HookCall),
      fromElemsMap body elems acc (d ++ diags) (h ++ hooks) =
        (fromElemsMap body elems acc diags hooks).mapO (shift3 d h)
  | [], acc, diags, hooks, d, h => rfl
  | (k, a) :: rest, acc, diags, hooks, d, h => by
    simp only [fromElemsMap, hb a diags hooks d h]
    generalize body a diags hooks = r
    cases r with
    | ok q =>
      obtain ⟨v, ds, hs⟩ := q
      cases v with
      | some v => exact fromElemsMap_writer body hb rest (setKey k v acc) ds hs d h
      | none => exact fromElemsMap_writer body hb rest acc ds hs d h
    | panic w => rfl
    | stuck w => rfl

theorem fromElemBody_writer (rec : FromRec) (hrec : RecWriterF rec) (ov : List (String × String)) (info vf : FieldInfo) :
    BodyWriterF (fromElemBody rec ov info vf) := by
  intro e diags hooks d h
  have hr : ∀ as, rec as { obj := .struct [], diags := d ++ diags, hooks := h ++ hooks } =
      (rec as { obj := .struct [], diags := diags, hooks := hooks }).mapO (shiftF d h) :=
    fun as => hrec as ⟨.struct [], diags, hooks⟩ d h
  unfold fromElemBody
  split
  · simp [Outcome.mapO, shift3]
  · cases e with
    | prim k u nl p =>
      simp only []
      split
      · generalize primDecode info k u nl p = r
        cases r <;> rfl
      · rfl
    | obj u nl as atys =>
      simp only []
      split
      · split
        · rw [hr]
          generalize rec as _ = r
          cases r <;> rfl
        · rfl
      · rfl
    | list _ _ _ _ => rfl
    | map _ _ _ _ => rfl
    | nilv => rfl
    | foreign _ => rfl

theorem copyFromFieldWith_writer (rec : FromRec) (hrec : RecWriterF rec) (ov : List (String × String)) (info : FieldInfo)
    (mv : Option FieldInfo) (msg : Option MsgInfo) (attrs : Option (List (String × TfVal))) (st : FromSt)
    (d : List Diag) (h : List HookCall) :
    copyFromFieldWith rec ov info mv msg attrs (shiftF d h st) =
      (copyFromFieldWith rec ov info mv msg attrs st).mapO (shiftF d h) := by
  have hr : ∀ as o, rec as { obj := o, diags := d ++ st.diags, hooks := h ++ st.hooks } =
      (rec as { obj := o, diags := st.diags, hooks := st.hooks }).mapO (shiftF d h) :=
    fun as o => hrec as ⟨o, st.diags, st.hooks⟩ d h
  have ho : (shiftF d h st).obj = st.obj := rfl
  have hd : (shiftF d h st).diags = d ++ st.diags := rfl
  have hh : (shiftF d h st).hooks = h ++ st.hooks := rfl
  unfold copyFromFieldWith
  cases hk : info.kind with
  | custom =>
    simp only []
    cases hl : List.lookup info.nameSnake (attrs.getD []) with
    | none =>
      simp only []
      cases he : info.parentIsOptionalEmbed with
      | true =>
        simp only [if_true, FromSt.diag, ho, hd, hh]
        generalize writeField _ _ _ = r
        cases r <;> simp [Outcome.mapO, shiftF]
      | false =>
        simp only [Bool.false_eq_true, if_false, FromSt.diag, ho, hd, hh]
        generalize writeField _ _ _ = r
        cases r <;> simp [Outcome.mapO, shiftF]
    | some a =>
      simp only []
      cases he : info.parentIsOptionalEmbed with
      | true =>
        simp only [if_true, ho, hd, hh]
        generalize writeField _ _ _ = r
        cases r <;> simp [Outcome.mapO, shiftF]
      | false =>
        simp only [Bool.false_eq_true, if_false, ho, hd, hh]
        generalize writeField _ _ _ = r
        cases r <;> simp [Outcome.mapO, shiftF]
  | primitive =>
    simp only []
    cases hl : List.lookup info.nameSnake (attrs.getD []) with
    | none => simp [Outcome.mapO, shiftF, FromSt.diag]
    | some a =>
      simp only [ho]
      split
      · simp [Outcome.mapO, shiftF, FromSt.diag]
      · cases hg : embedGuard info a st.obj with
        | none => rfl
        | some obj0 =>
          simp only [hd, hh]
          cases a with
          | prim k unk null p =>
            simp only []
            generalize primDecode info k unk null p = r
            cases r with
            | panic w => rfl
            | stuck w => rfl
            | ok t =>
              simp only []
              repeat' (first | rfl | split)
          | list _ _ _ _ => rfl
          | map _ _ _ _ => rfl
          | obj _ _ _ _ => rfl
          | nilv => rfl
          | foreign _ => rfl
  | object =>
    simp only []
    cases hl : List.lookup info.nameSnake (attrs.getD []) with
    | none => simp [Outcome.mapO, shiftF, FromSt.diag]
    | some a =>
      simp only [ho]
      split
      · simp [Outcome.mapO, shiftF, FromSt.diag]
      · cases hg : embedGuard info a st.obj with
        | none => rfl
        | some obj0 =>
          simp only [hd, hh]
          cases a with
          | obj unk null as atys =>
            simp only [hr]
            generalize rec as _ = r
            have e3 : ∀ w, Outcome.mapO (shiftF d h) (Outcome.panic w) = Outcome.panic w := fun _ => rfl
            have e4 : ∀ w, Outcome.mapO (shiftF d h) (Outcome.stuck w) = Outcome.stuck w := fun _ => rfl
            cases hE : isEmptyMsg msg <;>
              simp only [Bool.not_true, Bool.not_false, Bool.and_true, Bool.and_false, Bool.false_eq_true, if_true, if_false]
            all_goals cases r with
            | panic w => (try simp only [e3]); repeat' (first | rfl | split)
            | stuck w => (try simp only [e4]); repeat' (first | rfl | split)
            | ok s =>
              have e1 : Outcome.mapO (shiftF d h) (Outcome.ok s) = Outcome.ok (shiftF d h s) := rfl
              have e2 : (shiftF d h s).obj = s.obj := rfl
              try simp only [e1, e2]
              repeat' (first | rfl | split)
          | list _ _ _ _ => rfl
          | map _ _ _ _ => rfl
          | prim _ _ _ _ => rfl
          | nilv => rfl
          | foreign _ => rfl
  | primitiveList =>
    simp only []
    cases hl : List.lookup info.nameSnake (attrs.getD []) with
    | none => simp [Outcome.mapO, shiftF, FromSt.diag]
    | some a =>
      simp only [ho]
      split
      · simp [Outcome.mapO, shiftF, FromSt.diag]
      · cases hg : embedGuard info a st.obj with
        | none => rfl
        | some obj0 =>
          simp only [hd, hh]
          cases a with
          | list unk null elems ety =>
            simp only [fromElemsList_writer _ (fromElemBody_writer rec hrec ov info info)]
            generalize fromElemsList _ _ _ _ _ _ = lr
            cases lr with
            | panic w => repeat' (first | rfl | split)
            | stuck w => repeat' (first | rfl | split)
            | ok q =>
              obtain ⟨l, ds, hs⟩ := q
              have e1 : Outcome.mapO (shift3 d h) (Outcome.ok (l, ds, hs)) = Outcome.ok (l, d ++ ds, h ++ hs) := rfl
              simp only [e1]
              repeat' (first | rfl | split)
          | prim _ _ _ _ => rfl
          | obj _ _ _ _ => rfl
          | map _ _ _ _ => rfl
          | nilv => rfl
          | foreign _ => rfl
  | objectList =>
    simp only []
    cases hl : List.lookup info.nameSnake (attrs.getD []) with
    | none => simp [Outcome.mapO, shiftF, FromSt.diag]
    | some a =>
      simp only [ho]
      split
      · simp [Outcome.mapO, shiftF, FromSt.diag]
      · cases hg : embedGuard info a st.obj with
        | none => rfl
        | some obj0 =>
          simp only [hd, hh]
          cases a with
          | list unk null elems ety =>
            simp only [fromElemsList_writer _ (fromElemBody_writer rec hrec ov info info)]
            generalize fromElemsList _ _ _ _ _ _ = lr
            cases lr with
            | panic w => repeat' (first | rfl | split)
            | stuck w => repeat' (first | rfl | split)
            | ok q =>
              obtain ⟨l, ds, hs⟩ := q
              have e1 : Outcome.mapO (shift3 d h) (Outcome.ok (l, ds, hs)) = Outcome.ok (l, d ++ ds, h ++ hs) := rfl
              simp only [e1]
              repeat' (first | rfl | split)
          | prim _ _ _ _ => rfl
          | obj _ _ _ _ => rfl
          | map _ _ _ _ => rfl
          | nilv => rfl
          | foreign _ => rfl
  | primitiveMap =>
    simp only []
    cases hl : List.lookup info.nameSnake (attrs.getD []) with
    | none => simp [Outcome.mapO, shiftF, FromSt.diag]
    | some a =>
      simp only [ho]
      split
      · simp [Outcome.mapO, shiftF, FromSt.diag]
      · cases hg : embedGuard info a st.obj with
        | none => rfl
        | some obj0 =>
          simp only [hd, hh]
          cases a with
          | map unk null elems ety =>
            simp only [fromElemsMap_writer _ (fromElemBody_writer rec hrec ov info (mv.getD info))]
            generalize fromElemsMap _ _ _ _ _ = lr
            cases lr with
            | panic w => repeat' (first | rfl | split)
            | stuck w => repeat' (first | rfl | split)
            | ok q =>
              obtain ⟨l, ds, hs⟩ := q
              have e1 : Outcome.mapO (shift3 d h) (Outcome.ok (l, ds, hs)) = Outcome.ok (l, d ++ ds, h ++ hs) := rfl
              simp only [e1]
              repeat' (first | rfl | split)
          | prim _ _ _ _ => rfl
          | obj _ _ _ _ => rfl
          | list _ _ _ _ => rfl
          | nilv => rfl
          | foreign _ => rfl
  | objectMap =>
    simp only []
    cases hl : List.lookup info.nameSnake (attrs.getD []) with
    | none => simp [Outcome.mapO, shiftF, FromSt.diag]
    | some a =>
      simp only [ho]
      split
      · simp [Outcome.mapO, shiftF, FromSt.diag]
      · cases hg : embedGuard info a st.obj with
        | none => rfl
        | some obj0 =>
          simp only [hd, hh]
          cases a with
          | map unk null elems ety =>
            simp only [fromElemsMap_writer _ (fromElemBody_writer rec hrec ov info (mv.getD info))]
            generalize fromElemsMap _ _ _ _ _ = lr
            cases lr with
            | panic w => repeat' (first | rfl | split)
            | stuck w => repeat' (first | rfl | split)
            | ok q =>
              obtain ⟨l, ds, hs⟩ := q
              have e1 : Outcome.mapO (shift3 d h) (Outcome.ok (l, ds, hs)) = Outcome.ok (l, d ++ ds, h ++ hs) := rfl
              simp only [e1]
              repeat' (first | rfl | split)
          | prim _ _ _ _ => rfl
          | obj _ _ _ _ => rfl
          | list _ _ _ _ => rfl
          | nilv => rfl
          | foreign _ => rfl

mutual

/-- **writer law, all fields of a message**: prepending `d` / `h` to the initial diagnostics / hook log prepends them to
the result's and changes nothing else – same struct, same ok / panic / stuck status with the same message -/
theorem copyFromFields_writer (ov : List (String × String)) : ∀ (fs : List Field) (attrs : Option (List (String × TfVal)))
    (st : FromSt) (d : List Diag) (h : List HookCall),
    copyFromFields ov fs attrs (shiftF d h st) = (copyFromFields ov fs attrs st).mapO (shiftF d h)
  | [], attrs, st, d, h => by simp [copyFromFields, Outcome.mapO]
  | f :: rest, attrs, st, d, h => by
    simp only [copyFromFields]
    split
    · exact copyFromFields_writer ov rest attrs st d h
    · rw [copyFromField_writer ov f attrs st d h]
      generalize copyFromField ov f attrs st = r
      cases r with
      | ok st' => exact copyFromFields_writer ov rest attrs st' d h
      | panic w => rfl
      | stuck w => rfl

theorem copyFromField_writer (ov : List (String × String)) : ∀ (f : Field) (attrs : Option (List (String × TfVal)))
    (st : FromSt) (d : List Diag) (h : List HookCall),
    copyFromField ov f attrs (shiftF d h st) = (copyFromField ov f attrs st).mapO (shiftF d h)
  | ⟨info, mv, msg, sub⟩, attrs, st, d, h => by
    simp only [copyFromField]
    apply copyFromFieldWith_writer
    intro as s d h
    exact copyFromFields_writer ov sub as { s with obj := resetOneOfs ((msg.map (·.oneOfNames)).getD []) s.obj } d h

end

-- ------------------------------------------------------------------------------------------------------
-- corollaries: rebase, independence, append-only

theorem shiftF_empty (st : FromSt) : shiftF st.diags st.hooks { obj := st.obj, diags := [], hooks := [] } = st := by
  cases st; simp [shiftF]

/-- a run from any state is the run from empty diags / hooks with the initial diags / hooks prepended -/
theorem copyFromFields_rebase (ov : List (String × String)) (fs : List Field) (attrs : Option (List (String × TfVal)))
    (st : FromSt) :
    copyFromFields ov fs attrs st =
      (copyFromFields ov fs attrs { obj := st.obj, diags := [], hooks := [] }).mapO (shiftF st.diags st.hooks) := by
  rw [← copyFromFields_writer, shiftF_empty]

theorem copyFromField_rebase (ov : List (String × String)) (f : Field) (attrs : Option (List (String × TfVal)))
    (st : FromSt) :
    copyFromField ov f attrs st =
      (copyFromField ov f attrs { obj := st.obj, diags := [], hooks := [] }).mapO (shiftF st.diags st.hooks) := by
  rw [← copyFromField_writer, shiftF_empty]

/-- the resulting struct and the ok / panic / stuck status (with its message) do not depend on the initial
diags / hooks: diagnostics are never read -/
theorem copyFromFields_obj_indep (ov : List (String × String)) (fs : List Field) (attrs : Option (List (String × TfVal)))
    (st1 st2 : FromSt) (h : st1.obj = st2.obj) :
    (copyFromFields ov fs attrs st1).mapO (·.obj) = (copyFromFields ov fs attrs st2).mapO (·.obj) := by
  rw [copyFromFields_rebase ov fs attrs st1, copyFromFields_rebase ov fs attrs st2, h, Outcome.mapO_mapO, Outcome.mapO_mapO]
  rfl

/-- generic step from a writer law to "append-only" -/
theorem append_of_writer (F : FromSt → Outcome FromSt)
    (hF : ∀ st d h, F (shiftF d h st) = (F st).mapO (shiftF d h)) (st st' : FromSt) (h : F st = .ok st') :
    ∃ ds hs, st'.diags = st.diags ++ ds ∧ st'.hooks = st.hooks ++ hs ∧
      ∀ d k, F { obj := st.obj, diags := d, hooks := k } = .ok { obj := st'.obj, diags := d ++ ds, hooks := k ++ hs } := by
  have hb : ∀ s : FromSt, F s = (F { obj := s.obj, diags := [], hooks := [] }).mapO (shiftF s.diags s.hooks) := by
    intro s; rw [← hF, shiftF_empty]
  rw [hb st] at h
  generalize hr : F { obj := st.obj, diags := [], hooks := [] } = r at h
  cases r with
  | ok s0 =>
    simp only [Outcome.mapO, Outcome.ok.injEq] at h
    subst h
    refine ⟨s0.diags, s0.hooks, rfl, rfl, ?_⟩
    intro d k
    rw [hb, hr]
    rfl
  | panic w => simp [Outcome.mapO] at h
  | stuck w => simp [Outcome.mapO] at h

/-- **APPEND-ONLY, all fields of a message**: the result's diagnostics / hook log are the initial ones followed by what
the run appended, and what is appended (and the struct) does not depend on the initial diagnostics / hook log -/
theorem copyFromFields_append (ov : List (String × String)) (fs : List Field) (attrs : Option (List (String × TfVal)))
    (st st' : FromSt) (h : copyFromFields ov fs attrs st = .ok st') :
    ∃ ds hs, st'.diags = st.diags ++ ds ∧ st'.hooks = st.hooks ++ hs ∧
      ∀ d k, copyFromFields ov fs attrs { obj := st.obj, diags := d, hooks := k } =
        .ok { obj := st'.obj, diags := d ++ ds, hooks := k ++ hs } :=
  append_of_writer _ (copyFromFields_writer ov fs attrs) st st' h

/-- **APPEND-ONLY, one field block** -/
theorem copyFromField_append (ov : List (String × String)) (f : Field) (attrs : Option (List (String × TfVal)))
    (st st' : FromSt) (h : copyFromField ov f attrs st = .ok st') :
    ∃ ds hs, st'.diags = st.diags ++ ds ∧ st'.hooks = st.hooks ++ hs ∧
      ∀ d k, copyFromField ov f attrs { obj := st.obj, diags := d, hooks := k } =
        .ok { obj := st'.obj, diags := d ++ ds, hooks := k ++ hs } :=
  append_of_writer _ (copyFromField_writer ov f attrs) st st' h

/-- **APPEND-ONLY, one field block over any recursive call that is itself a writer** -/
theorem copyFromFieldWith_append (rec : FromRec) (hrec : RecWriterF rec) (ov : List (String × String)) (info : FieldInfo)
    (mv : Option FieldInfo) (msg : Option MsgInfo) (attrs : Option (List (String × TfVal)))
    (st st' : FromSt) (h : copyFromFieldWith rec ov info mv msg attrs st = .ok st') :
    ∃ ds hs, st'.diags = st.diags ++ ds ∧ st'.hooks = st.hooks ++ hs ∧
      ∀ d k, copyFromFieldWith rec ov info mv msg attrs { obj := st.obj, diags := d, hooks := k } =
        .ok { obj := st'.obj, diags := d ++ ds, hooks := k ++ hs } :=
  append_of_writer _ (copyFromFieldWith_writer rec hrec ov info mv msg attrs) st st' h

/-- the recursive call the emitted code makes on a nested message is a writer -/
theorem recWriterF_fields (ov : List (String × String)) (sub : List Field) (names : List String) :
    RecWriterF (fun attrs s => copyFromFields ov sub attrs { s with obj := resetOneOfs names s.obj }) := by
  intro as s d h
  exact copyFromFields_writer ov sub as { s with obj := resetOneOfs names s.obj } d h

/-- generic step from a writer law to "append-only" for (value, diags, hooks) triples -/
theorem append3_of_writer {α : Type} (F : List Diag → List HookCall → Outcome (α × List Diag × List HookCall))
    (hF : ∀ diags hooks d h, F (d ++ diags) (h ++ hooks) = (F diags hooks).mapO (shift3 d h))
    (diags : List Diag) (hooks : List HookCall) (r : α) (diags' : List Diag) (hooks' : List HookCall)
    (h : F diags hooks = .ok (r, diags', hooks')) :
    ∃ ds hs, diags' = diags ++ ds ∧ hooks' = hooks ++ hs ∧ ∀ d k, F d k = .ok (r, d ++ ds, k ++ hs) := by
  have hb : ∀ d k, F d k = (F [] []).mapO (shift3 d k) := by
    intro d k
    have := hF [] [] d k
    simpa using this
  rw [hb diags hooks] at h
  generalize hr : F [] [] = q at h
  cases q with
  | ok s0 =>
    obtain ⟨v, ds, hs⟩ := s0
    simp only [Outcome.mapO, shift3, Outcome.ok.injEq, Prod.mk.injEq] at h
    obtain ⟨rfl, rfl, rfl⟩ := h
    refine ⟨ds, hs, rfl, rfl, ?_⟩
    intro d k
    rw [hb, hr]
    rfl
  | panic w => simp [Outcome.mapO] at h
  | stuck w => simp [Outcome.mapO] at h

/-- **APPEND-ONLY, body of the element loops** -/
theorem fromElemBody_append (rec : FromRec) (hrec : RecWriterF rec) (ov : List (String × String)) (info vf : FieldInfo)
    (e : TfVal) (diags : List Diag) (hooks : List HookCall) (r : Option GoVal) (diags' : List Diag) (hooks' : List HookCall)
    (h : fromElemBody rec ov info vf e diags hooks = .ok (r, diags', hooks')) :
    ∃ ds hs, diags' = diags ++ ds ∧ hooks' = hooks ++ hs ∧
      ∀ d k, fromElemBody rec ov info vf e d k = .ok (r, d ++ ds, k ++ hs) :=
  append3_of_writer _ (fun diags hooks d h => fromElemBody_writer rec hrec ov info vf e diags hooks d h) diags hooks r diags' hooks' h

/-- **APPEND-ONLY, element loop of lists** (any body that is a writer) -/
theorem fromElemsList_append (body : FromBody) (hb : BodyWriterF body) (elems : List TfVal) (k : Nat) (acc : List GoVal)
    (diags : List Diag) (hooks : List HookCall) (l : List GoVal) (diags' : List Diag) (hooks' : List HookCall)
    (h : fromElemsList body elems k acc diags hooks = .ok (l, diags', hooks')) :
    ∃ ds hs, diags' = diags ++ ds ∧ hooks' = hooks ++ hs ∧
      ∀ d k', fromElemsList body elems k acc d k' = .ok (l, d ++ ds, k' ++ hs) :=
  append3_of_writer _ (fun diags hooks d h => fromElemsList_writer body hb elems k acc diags hooks d h) diags hooks l diags' hooks' h

/-- **APPEND-ONLY, element loop of maps** (any body that is a writer) -/
theorem fromElemsMap_append (body : FromBody) (hb : BodyWriterF body) (elems : List (String × TfVal))
    (acc : List (String × GoVal))
    (diags : List Diag) (hooks : List HookCall) (l : List (String × GoVal)) (diags' : List Diag) (hooks' : List HookCall)
    (h : fromElemsMap body elems acc diags hooks = .ok (l, diags', hooks')) :
    ∃ ds hs, diags' = diags ++ ds ∧ hooks' = hooks ++ hs ∧
      ∀ d k', fromElemsMap body elems acc d k' = .ok (l, d ++ ds, k' ++ hs) :=
  append3_of_writer _ (fun diags hooks d h => fromElemsMap_writer body hb elems acc diags hooks d h) diags hooks l diags' hooks' h

-- ======================================================================================================
-- 2. the diagnostics CopyFrom appends, exactly
-- ======================================================================================================

/-- diagnostics of one round of an element loop: a conversion diagnostic for an element of the wrong Go type (this
includes a nil element), else the diagnostics of the nested message for a known object element -/
def elemDiagsWith (recD : List (String × TfVal) → List Diag) (ov : List (String × String)) (info vf : FieldInfo)
    (e : TfVal) : List Diag :=
  if Spec.wrongElem vf e then [.readConv info.path (withType ov vf.tf.elemValueType)] else
  match e with
  | .obj u n as _ => if !u && !n && (info.kind == .objectList || info.kind == .objectMap) then recD (as.getD []) else []
  | _ => []

/-- diagnostics below an attribute value of the right Go type -/
def valDiagsWith (recD : List (String × TfVal) → List Diag) (ov : List (String × String)) (info : FieldInfo)
    (mapVal : Option FieldInfo) (msg : Option MsgInfo) (a : TfVal) : List Diag :=
  match a with
  | .obj u n as _ => if !u && !n && info.kind == .object && !isEmptyMsg msg then recD (as.getD []) else []
  | .list u n es _ => if u || n then [] else (es.getD []).flatMap (elemDiagsWith recD ov info info)
  | .map u n es _ => if u || n then [] else (es.getD []).flatMap fun (_, e) => elemDiagsWith recD ov info (mapVal.getD info) e
  | _ => []

/-- diagnostics of one field block, given those of the nested message -/
def fieldDiagsWith (recD : List (String × TfVal) → List Diag) (ov : List (String × String)) (info : FieldInfo)
    (mapVal : Option FieldInfo) (msg : Option MsgInfo) (attrs : List (String × TfVal)) : List Diag :=
  match attrs.lookup info.nameSnake with
  | none => [.readMissing info.path]
  | some a =>
    if info.kind == .custom then [] else
    if a.vkind != vkindOf info.tf.valueType || a.vkind == .unknown then [.readConv info.path info.tf.valueType] else
    valDiagsWith recD ov info mapVal msg a

mutual
/-- **the diagnostics `Copy<T>FromTerraform` appends, in order, at every depth** (a `Diag`-valued, order-preserving
refinement of the executable census `Spec.c06Fields`) -/
def fromDiagsFields (ov : List (String × String)) (fs : List Field) (attrs : List (String × TfVal)) : List Diag :=
  match fs with
  | [] => []
  | f :: rest => fromDiagsField ov f attrs ++ fromDiagsFields ov rest attrs

def fromDiagsField (ov : List (String × String)) (f : Field) (attrs : List (String × TfVal)) : List Diag :=
  match f with
  | ⟨info, mapVal, msg, sub⟩ =>
    if info.isPlaceholder then [] else
    fieldDiagsWith (fun as => fromDiagsFields ov sub as) ov info mapVal msg attrs
end

def RecDiags (rec : FromRec) (recD : List (String × TfVal) → List Diag) : Prop :=
  ∀ attrs st st', rec attrs st = .ok st' → st'.diags = st.diags ++ recD (attrs.getD [])

def BodyDiags (body : FromBody) (ed : TfVal → List Diag) : Prop :=
  ∀ e ds hs r ds' hs', body e ds hs = .ok (r, ds', hs') → ds' = ds ++ ed e

theorem fromElemsList_diags (body : FromBody) (ed : TfVal → List Diag) (hb : BodyDiags body ed) :
    ∀ (elems : List TfVal) (k : Nat) (acc : List GoVal) (ds : List Diag) (hs : List HookCall)
      (l : List GoVal) (ds' : List Diag) (hs' : List HookCall),
      fromElemsList body elems k acc ds hs = .ok (l, ds', hs') → ds' = ds ++ elems.flatMap ed
  | [], k, acc, ds, hs, l, ds', hs', h => by
    simp only [fromElemsList, Outcome.ok.injEq, Prod.mk.injEq] at h
    simp [h.2.1]
  | a :: rest, k, acc, ds, hs, l, ds', hs', h => by
    simp only [fromElemsList] at h
    split at h
    · rename_i v ds1 hs1 heq
      rw [fromElemsList_diags body ed hb rest _ _ _ _ _ _ _ h, hb _ _ _ _ _ _ heq]
      simp
    · rename_i ds1 hs1 heq
      rw [fromElemsList_diags body ed hb rest _ _ _ _ _ _ _ h, hb _ _ _ _ _ _ heq]
      simp
    · cases h
    · cases h

theorem fromElemsMap_diags (body : FromBody) (ed : TfVal → List Diag) (hb : BodyDiags body ed) :
    ∀ (elems : List (String × TfVal)) (acc : List (String × GoVal)) (ds : List Diag) (hs : List HookCall)
      (l : List (String × GoVal)) (ds' : List Diag) (hs' : List HookCall),
      fromElemsMap body elems acc ds hs = .ok (l, ds', hs') → ds' = ds ++ elems.flatMap fun (_, e) => ed e
  | [], acc, ds, hs, l, ds', hs', h => by
    simp only [fromElemsMap, Outcome.ok.injEq, Prod.mk.injEq] at h
    simp [h.2.1]
  | (k, a) :: rest, acc, ds, hs, l, ds', hs', h => by
    simp only [fromElemsMap] at h
    split at h
    · rename_i v ds1 hs1 heq
      rw [fromElemsMap_diags body ed hb rest _ _ _ _ _ _ h, hb _ _ _ _ _ _ heq]
      simp
    · rename_i ds1 hs1 heq
      rw [fromElemsMap_diags body ed hb rest _ _ _ _ _ _ h, hb _ _ _ _ _ _ heq]
      simp
    · cases h
    · cases h

theorem primDecode_cases (f : FieldInfo) (k : PrimK) (u n : Bool) (p : Sc) :
    (∃ t, primDecode f k u n p = .ok t) ∨ (∃ w, primDecode f k u n p = .stuck w) := by
  cases hd : primDecode f k u n p with
  | ok t => exact Or.inl ⟨t, rfl⟩
  | stuck w => exact Or.inr ⟨w, rfl⟩
  | panic w => exact absurd hd (primDecode_noPanic f k u n p w)

theorem fromElemBody_diags (rec : FromRec) (recD : List (String × TfVal) → List Diag) (hrec : RecDiags rec recD)
    (ov : List (String × String)) (info vf : FieldInfo) :
    BodyDiags (fromElemBody rec ov info vf) (elemDiagsWith recD ov info vf) := by
  intro e ds hs r ds' hs' h
  revert h
  unfold fromElemBody elemDiagsWith Spec.wrongElem
  cases hw : (e.vkind != vkindOf vf.tf.elemValueType || e.vkind == .unknown)
  case true =>
    simp only [if_true, Outcome.ok.injEq, Prod.mk.injEq]
    intro h
    exact h.2.1.symm
  case false =>
    simp only [Bool.false_eq_true, if_false]
    intro h
    cases e with
    | prim k u nl p =>
      simp only [] at h
      split at h
      · rcases primDecode_cases info k u nl p with ⟨t, ht⟩ | ⟨w, hw'⟩
        · rw [ht] at h
          simp only [Outcome.ok.injEq, Prod.mk.injEq] at h
          simp [h.2.1]
        · rw [hw'] at h; cases h
      · cases h
    | obj u nl as atys =>
      simp only [] at h
      split at h
      · rename_i hkind
        split at h
        · rename_i hkn
          have hkn' : (!u && !nl) = true := by
            cases u <;> cases nl <;> simp_all [known]
          simp only [hkn', hkind, Bool.and_self, if_true]
          cases hrc : rec as { obj := .struct [], diags := ds, hooks := hs } with
          | ok st' =>
            rw [hrc] at h
            simp only [Outcome.ok.injEq, Prod.mk.injEq] at h
            rw [← h.2.1]
            exact hrec _ _ _ hrc
          | panic w => rw [hrc] at h; cases h
          | stuck w => rw [hrc] at h; cases h
        · rename_i hkn
          have hkn' : (!u && !nl) = false := by
            cases u <;> cases nl <;> simp_all [known]
          simp only [Outcome.ok.injEq, Prod.mk.injEq] at h
          simp [hkn', h.2.1]
      · cases h
    | list _ _ _ _ => cases h
    | map _ _ _ _ => cases h
    | nilv => cases h
    | foreign _ => cases h

def DiagsOK (base D : List Diag) (o : Outcome FromSt) : Prop := ∀ st', o = .ok st' → st'.diags = base ++ D

theorem diagsOK_ok (base D : List Diag) (st : FromSt) (h : st.diags = base ++ D) : DiagsOK base D (.ok st) := by
  intro st' e; cases e; exact h

theorem diagsOK_stuck (base D : List Diag) (w : String) : DiagsOK base D (.stuck w) := by
  intro st' e; cases e

theorem diagsOK_panic (base D : List Diag) (w : String) : DiagsOK base D (.panic w) := by
  intro st' e; cases e

theorem embedGuard_none {f : FieldInfo} {a : TfVal} {obj : GoVal} (h : embedGuard f a obj = none) : a.isKnown = false := by
  unfold embedGuard at h
  split at h
  · split at h
    · cases h
    · split at h
      · cases h
      · rename_i hk; simpa using hk
  · cases h

theorem valDiags_unknown (recD : List (String × TfVal) → List Diag) (ov : List (String × String)) (info : FieldInfo)
    (mv : Option FieldInfo) (msg : Option MsgInfo) (a : TfVal) (h : a.isKnown = false) :
    valDiagsWith recD ov info mv msg a = [] := by
  cases a with
  | obj u n as t => cases u <;> cases n <;> simp_all [valDiagsWith, TfVal.isKnown, known]
  | list u n es t => cases u <;> cases n <;> simp_all [valDiagsWith, TfVal.isKnown, known]
  | map u n es t => cases u <;> cases n <;> simp_all [valDiagsWith, TfVal.isKnown, known]
  | prim _ _ _ _ => rfl
  | nilv => rfl
  | foreign _ => rfl

theorem valDiags_obj (recD : List (String × TfVal) → List Diag) (ov : List (String × String)) (info : FieldInfo)
    (mv : Option FieldInfo) (msg : Option MsgInfo) (u n : Bool) (as : Option (List (String × TfVal)))
    (t : Option (List (String × TfTy))) (hk : info.kind = .object) :
    valDiagsWith recD ov info mv msg (.obj u n as t) = if known u n && !isEmptyMsg msg then recD (as.getD []) else [] := by
  cases u <;> cases n <;> simp [valDiagsWith, known, hk]

theorem valDiags_list (recD : List (String × TfVal) → List Diag) (ov : List (String × String)) (info : FieldInfo)
    (mv : Option FieldInfo) (msg : Option MsgInfo) (u n : Bool) (es : Option (List TfVal)) (t : Option TfTy) :
    valDiagsWith recD ov info mv msg (.list u n es t) =
      if known u n then (es.getD []).flatMap (elemDiagsWith recD ov info info) else [] := by
  cases u <;> cases n <;> simp [valDiagsWith, known]

theorem valDiags_map (recD : List (String × TfVal) → List Diag) (ov : List (String × String)) (info : FieldInfo)
    (mv : Option FieldInfo) (msg : Option MsgInfo) (u n : Bool) (es : Option (List (String × TfVal))) (t : Option TfTy) :
    valDiagsWith recD ov info mv msg (.map u n es t) =
      if known u n then (es.getD []).flatMap (fun (_, e) => elemDiagsWith recD ov info (mv.getD info) e) else [] := by
  cases u <;> cases n <;> simp [valDiagsWith, known]

theorem fieldDiags_val (recD : List (String × TfVal) → List Diag) (ov : List (String × String)) (info : FieldInfo)
    (mv : Option FieldInfo) (msg : Option MsgInfo) (attrs : List (String × TfVal)) (a : TfVal)
    (hl : attrs.lookup info.nameSnake = some a) (hk : (info.kind == .custom) = false)
    (hw : (a.vkind != vkindOf info.tf.valueType || a.vkind == .unknown) = false) :
    fieldDiagsWith recD ov info mv msg attrs = valDiagsWith recD ov info mv msg a := by
  simp only [fieldDiagsWith, hl, hk, hw, Bool.false_eq_true, if_false]

/-- **one field block appends exactly `fieldDiagsWith`** (over any recursive call that appends exactly `recD`) -/
theorem fieldWith_diags (rec : FromRec) (recD : List (String × TfVal) → List Diag) (hrec : RecDiags rec recD)
    (ov : List (String × String)) (info : FieldInfo) (mv : Option FieldInfo) (msg : Option MsgInfo)
    (attrs : Option (List (String × TfVal))) (st : FromSt) :
    DiagsOK st.diags (fieldDiagsWith recD ov info mv msg (attrs.getD [])) (copyFromFieldWith rec ov info mv msg attrs st) := by
  unfold copyFromFieldWith
  cases hk : info.kind with
  | custom =>
    simp only []
    cases hl : List.lookup info.nameSnake (attrs.getD []) with
    | none =>
      simp only []
      generalize writeField _ _ _ = r
      cases r with
      | panic w => exact diagsOK_panic _ _ _
      | stuck w => exact diagsOK_stuck _ _ _
      | ok o =>
        apply diagsOK_ok
        cases info.parentIsOptionalEmbed <;> simp [FromSt.diag, fieldDiagsWith, hl]
    | some a =>
      simp only []
      generalize writeField _ _ _ = r
      cases r with
      | panic w => exact diagsOK_panic _ _ _
      | stuck w => exact diagsOK_stuck _ _ _
      | ok o =>
        apply diagsOK_ok
        cases info.parentIsOptionalEmbed <;> simp [fieldDiagsWith, hl, hk]
  | primitive =>
    simp only []
    cases hl : List.lookup info.nameSnake (attrs.getD []) with
    | none => exact diagsOK_ok _ _ _ (by simp [FromSt.diag, fieldDiagsWith, hl])
    | some a =>
      simp only []
      cases hw : (a.vkind != vkindOf info.tf.valueType || a.vkind == .unknown)
      case true => exact diagsOK_ok _ _ _ (by simp [FromSt.diag, fieldDiagsWith, hl, hw, hk])
      case false =>
        rw [fieldDiags_val recD ov info mv msg _ a hl (by rw [hk]; decide) hw]
        simp only [Bool.false_eq_true, if_false]
        cases hg : embedGuard info a st.obj with
        | none => exact diagsOK_ok _ _ _ (by simp [valDiags_unknown recD ov info mv msg a (embedGuard_none hg)])
        | some obj0 =>
          simp only []
          cases a with
          | prim k unk null p =>
            simp only [valDiagsWith]
            intro st' h
            have : st'.diags = st.diags := by
              revert h
              generalize primDecode info k unk null p = r
              cases r with
              | panic w => intro h; cases h
              | stuck w => intro h; cases h
              | ok t =>
                simp only []
                repeat' (first | (intro h; cases h; done) | (intro h; cases h; rfl) | split)
            simp [this]
          | list _ _ _ _ => exact diagsOK_stuck _ _ _
          | map _ _ _ _ => exact diagsOK_stuck _ _ _
          | obj _ _ _ _ => exact diagsOK_stuck _ _ _
          | nilv => exact diagsOK_stuck _ _ _
          | foreign _ => exact diagsOK_stuck _ _ _
  | object =>
    simp only []
    cases hl : List.lookup info.nameSnake (attrs.getD []) with
    | none => exact diagsOK_ok _ _ _ (by simp [FromSt.diag, fieldDiagsWith, hl])
    | some a =>
      simp only []
      cases hw : (a.vkind != vkindOf info.tf.valueType || a.vkind == .unknown)
      case true => exact diagsOK_ok _ _ _ (by simp [FromSt.diag, fieldDiagsWith, hl, hw, hk])
      case false =>
        rw [fieldDiags_val recD ov info mv msg _ a hl (by rw [hk]; decide) hw]
        simp only [Bool.false_eq_true, if_false]
        cases hg : embedGuard info a st.obj with
        | none => exact diagsOK_ok _ _ _ (by simp [valDiags_unknown recD ov info mv msg a (embedGuard_none hg)])
        | some obj0 =>
          simp only []
          cases a with
          | obj unk null as atys =>
            simp only [valDiags_obj recD ov info mv msg unk null as atys hk]
            have hrs : ∀ s', rec as { obj := .struct [], diags := st.diags, hooks := st.hooks } = .ok s' →
                s'.diags = st.diags ++ recD (as.getD []) := fun s' e => hrec as ⟨.struct [], st.diags, st.hooks⟩ s' e
            generalize rec as { obj := .struct [], diags := st.diags, hooks := st.hooks } = rr at hrs
            cases hkn : known unk null <;> cases hE : isEmptyMsg msg <;>
              simp only [Bool.not_true, Bool.not_false, Bool.and_true, Bool.and_false, Bool.false_eq_true, if_true, if_false,
                Bool.and_self]
            all_goals
              intro st' h
              revert h
              cases rr with
              | panic w => repeat' (first | (intro h; cases h; done) | (intro h; cases h; simp; done) | split)
              | stuck w => repeat' (first | (intro h; cases h; done) | (intro h; cases h; simp; done) | split)
              | ok s' =>
                have := hrs s' rfl
                try simp only []
                repeat' (first | (intro h; cases h; done) | (intro h; cases h; simp; done) | (intro h; cases h; exact this) | split)
          | list _ _ _ _ => exact diagsOK_stuck _ _ _
          | map _ _ _ _ => exact diagsOK_stuck _ _ _
          | prim _ _ _ _ => exact diagsOK_stuck _ _ _
          | nilv => exact diagsOK_stuck _ _ _
          | foreign _ => exact diagsOK_stuck _ _ _
  | primitiveList =>
    simp only []
    cases hl : List.lookup info.nameSnake (attrs.getD []) with
    | none => exact diagsOK_ok _ _ _ (by simp [FromSt.diag, fieldDiagsWith, hl])
    | some a =>
      simp only []
      cases hw : (a.vkind != vkindOf info.tf.valueType || a.vkind == .unknown)
      case true => exact diagsOK_ok _ _ _ (by simp [FromSt.diag, fieldDiagsWith, hl, hw, hk])
      case false =>
        rw [fieldDiags_val recD ov info mv msg _ a hl (by rw [hk]; decide) hw]
        simp only [Bool.false_eq_true, if_false]
        cases hg : embedGuard info a st.obj with
        | none => exact diagsOK_ok _ _ _ (by simp [valDiags_unknown recD ov info mv msg a (embedGuard_none hg)])
        | some obj0 =>
          simp only []
          cases a with
          | list unk null elems ety =>
            simp only [valDiags_list]
            generalize writeField _ _ _ = r
            cases r with
            | panic w => exact diagsOK_panic _ _ _
            | stuck w => exact diagsOK_stuck _ _ _
            | ok o =>
              simp only []
              cases hkn : known unk null with
              | false => exact diagsOK_ok _ _ _ (by simp)
              | true =>
                simp only [if_true]
                generalize hloop : fromElemsList _ _ _ _ _ _ = lr
                cases lr with
                | panic w => exact diagsOK_panic _ _ _
                | stuck w => exact diagsOK_stuck _ _ _
                | ok q =>
                  obtain ⟨l, ds, hs⟩ := q
                  simp only []
                  have hds := fromElemsList_diags _ _ (fromElemBody_diags rec recD hrec ov info info) _ _ _ _ _ _ _ _ hloop
                  generalize writeField _ _ _ = r2
                  cases r2 with
                  | panic w => exact diagsOK_panic _ _ _
                  | stuck w => exact diagsOK_stuck _ _ _
                  | ok o2 => exact diagsOK_ok _ _ _ hds
          | prim _ _ _ _ => exact diagsOK_stuck _ _ _
          | obj _ _ _ _ => exact diagsOK_stuck _ _ _
          | map _ _ _ _ => exact diagsOK_stuck _ _ _
          | nilv => exact diagsOK_stuck _ _ _
          | foreign _ => exact diagsOK_stuck _ _ _
  | objectList =>
    simp only []
    cases hl : List.lookup info.nameSnake (attrs.getD []) with
    | none => exact diagsOK_ok _ _ _ (by simp [FromSt.diag, fieldDiagsWith, hl])
    | some a =>
      simp only []
      cases hw : (a.vkind != vkindOf info.tf.valueType || a.vkind == .unknown)
      case true => exact diagsOK_ok _ _ _ (by simp [FromSt.diag, fieldDiagsWith, hl, hw, hk])
      case false =>
        rw [fieldDiags_val recD ov info mv msg _ a hl (by rw [hk]; decide) hw]
        simp only [Bool.false_eq_true, if_false]
        cases hg : embedGuard info a st.obj with
        | none => exact diagsOK_ok _ _ _ (by simp [valDiags_unknown recD ov info mv msg a (embedGuard_none hg)])
        | some obj0 =>
          simp only []
          cases a with
          | list unk null elems ety =>
            simp only [valDiags_list]
            generalize writeField _ _ _ = r
            cases r with
            | panic w => exact diagsOK_panic _ _ _
            | stuck w => exact diagsOK_stuck _ _ _
            | ok o =>
              simp only []
              cases hkn : known unk null with
              | false => exact diagsOK_ok _ _ _ (by simp)
              | true =>
                simp only [if_true]
                generalize hloop : fromElemsList _ _ _ _ _ _ = lr
                cases lr with
                | panic w => exact diagsOK_panic _ _ _
                | stuck w => exact diagsOK_stuck _ _ _
                | ok q =>
                  obtain ⟨l, ds, hs⟩ := q
                  simp only []
                  have hds := fromElemsList_diags _ _ (fromElemBody_diags rec recD hrec ov info info) _ _ _ _ _ _ _ _ hloop
                  generalize writeField _ _ _ = r2
                  cases r2 with
                  | panic w => exact diagsOK_panic _ _ _
                  | stuck w => exact diagsOK_stuck _ _ _
                  | ok o2 => exact diagsOK_ok _ _ _ hds
          | prim _ _ _ _ => exact diagsOK_stuck _ _ _
          | obj _ _ _ _ => exact diagsOK_stuck _ _ _
          | map _ _ _ _ => exact diagsOK_stuck _ _ _
          | nilv => exact diagsOK_stuck _ _ _
          | foreign _ => exact diagsOK_stuck _ _ _
  | primitiveMap =>
    simp only []
    cases hl : List.lookup info.nameSnake (attrs.getD []) with
    | none => exact diagsOK_ok _ _ _ (by simp [FromSt.diag, fieldDiagsWith, hl])
    | some a =>
      simp only []
      cases hw : (a.vkind != vkindOf info.tf.valueType || a.vkind == .unknown)
      case true => exact diagsOK_ok _ _ _ (by simp [FromSt.diag, fieldDiagsWith, hl, hw, hk])
      case false =>
        rw [fieldDiags_val recD ov info mv msg _ a hl (by rw [hk]; decide) hw]
        simp only [Bool.false_eq_true, if_false]
        cases hg : embedGuard info a st.obj with
        | none => exact diagsOK_ok _ _ _ (by simp [valDiags_unknown recD ov info mv msg a (embedGuard_none hg)])
        | some obj0 =>
          simp only []
          cases a with
          | map unk null elems ety =>
            simp only [valDiags_map]
            generalize writeField _ _ _ = r
            cases r with
            | panic w => exact diagsOK_panic _ _ _
            | stuck w => exact diagsOK_stuck _ _ _
            | ok o =>
              simp only []
              cases hkn : known unk null with
              | false => exact diagsOK_ok _ _ _ (by simp)
              | true =>
                simp only [if_true]
                generalize hloop : fromElemsMap _ _ _ _ _ = lr
                cases lr with
                | panic w => exact diagsOK_panic _ _ _
                | stuck w => exact diagsOK_stuck _ _ _
                | ok q =>
                  obtain ⟨l, ds, hs⟩ := q
                  simp only []
                  have hds := fromElemsMap_diags _ _ (fromElemBody_diags rec recD hrec ov info (mv.getD info)) _ _ _ _ _ _ _ hloop
                  generalize writeField _ _ _ = r2
                  cases r2 with
                  | panic w => exact diagsOK_panic _ _ _
                  | stuck w => exact diagsOK_stuck _ _ _
                  | ok o2 => exact diagsOK_ok _ _ _ hds
          | prim _ _ _ _ => exact diagsOK_stuck _ _ _
          | obj _ _ _ _ => exact diagsOK_stuck _ _ _
          | list _ _ _ _ => exact diagsOK_stuck _ _ _
          | nilv => exact diagsOK_stuck _ _ _
          | foreign _ => exact diagsOK_stuck _ _ _
  | objectMap =>
    simp only []
    cases hl : List.lookup info.nameSnake (attrs.getD []) with
    | none => exact diagsOK_ok _ _ _ (by simp [FromSt.diag, fieldDiagsWith, hl])
    | some a =>
      simp only []
      cases hw : (a.vkind != vkindOf info.tf.valueType || a.vkind == .unknown)
      case true => exact diagsOK_ok _ _ _ (by simp [FromSt.diag, fieldDiagsWith, hl, hw, hk])
      case false =>
        rw [fieldDiags_val recD ov info mv msg _ a hl (by rw [hk]; decide) hw]
        simp only [Bool.false_eq_true, if_false]
        cases hg : embedGuard info a st.obj with
        | none => exact diagsOK_ok _ _ _ (by simp [valDiags_unknown recD ov info mv msg a (embedGuard_none hg)])
        | some obj0 =>
          simp only []
          cases a with
          | map unk null elems ety =>
            simp only [valDiags_map]
            generalize writeField _ _ _ = r
            cases r with
            | panic w => exact diagsOK_panic _ _ _
            | stuck w => exact diagsOK_stuck _ _ _
            | ok o =>
              simp only []
              cases hkn : known unk null with
              | false => exact diagsOK_ok _ _ _ (by simp)
              | true =>
                simp only [if_true]
                generalize hloop : fromElemsMap _ _ _ _ _ = lr
                cases lr with
                | panic w => exact diagsOK_panic _ _ _
                | stuck w => exact diagsOK_stuck _ _ _
                | ok q =>
                  obtain ⟨l, ds, hs⟩ := q
                  simp only []
                  have hds := fromElemsMap_diags _ _ (fromElemBody_diags rec recD hrec ov info (mv.getD info)) _ _ _ _ _ _ _ hloop
                  generalize writeField _ _ _ = r2
                  cases r2 with
                  | panic w => exact diagsOK_panic _ _ _
                  | stuck w => exact diagsOK_stuck _ _ _
                  | ok o2 => exact diagsOK_ok _ _ _ hds
          | prim _ _ _ _ => exact diagsOK_stuck _ _ _
          | obj _ _ _ _ => exact diagsOK_stuck _ _ _
          | list _ _ _ _ => exact diagsOK_stuck _ _ _
          | nilv => exact diagsOK_stuck _ _ _
          | foreign _ => exact diagsOK_stuck _ _ _

theorem fromDiagsField_eq (ov : List (String × String)) (f : Field) (attrs : List (String × TfVal)) :
    fromDiagsField ov f attrs =
      if f.info.isPlaceholder then [] else
      fieldDiagsWith (fun as => fromDiagsFields ov f.sub as) ov f.info f.mapVal f.msg attrs := by
  cases f; simp only [fromDiagsField]

mutual

/-- **the diagnostics of the field blocks of a message are exactly the census** `fromDiagsFields`, appended in order to
the diagnostics present before – every IR, every Terraform value, every prior state -/
theorem fromFields_diags (ov : List (String × String)) : ∀ (fs : List Field) (attrs : Option (List (String × TfVal)))
    (st st' : FromSt), copyFromFields ov fs attrs st = .ok st' →
      st'.diags = st.diags ++ fromDiagsFields ov fs (attrs.getD [])
  | [], attrs, st, st', h => by
    simp only [copyFromFields, Outcome.ok.injEq] at h
    simp [fromDiagsFields, h]
  | f :: rest, attrs, st, st', h => by
    simp only [copyFromFields] at h
    simp only [fromDiagsFields]
    split at h
    · rename_i hp
      rw [fromFields_diags ov rest attrs st st' h, fromDiagsField_eq]
      simp [hp]
    · rename_i hp
      cases hf : copyFromField ov f attrs st with
      | ok s1 =>
        rw [hf] at h
        rw [fromFields_diags ov rest attrs s1 st' h, fromField_diags ov f attrs st s1 (by simpa using hp) hf]
        simp
      | panic w => rw [hf] at h; cases h
      | stuck w => rw [hf] at h; cases h

theorem fromField_diags (ov : List (String × String)) : ∀ (f : Field) (attrs : Option (List (String × TfVal)))
    (st st' : FromSt), f.info.isPlaceholder = false → copyFromField ov f attrs st = .ok st' →
      st'.diags = st.diags ++ fromDiagsField ov f (attrs.getD [])
  | ⟨info, mv, msg, sub⟩, attrs, st, st', hp, h => by
    simp only [copyFromField] at h
    simp only [] at hp
    simp only [fromDiagsField, hp, Bool.false_eq_true, if_false]
    exact fieldWith_diags
      (fun as s => copyFromFields ov sub as { s with obj := resetOneOfs ((msg.map (·.oneOfNames)).getD []) s.obj })
      (fun as => fromDiagsFields ov sub as)
      (fun as s s' e => fromFields_diags ov sub as
        { s with obj := resetOneOfs ((msg.map (·.oneOfNames)).getD []) s.obj } s' e) ov info mv msg attrs st st' h

end

/-- **`Copy<T>FromTerraform` reports exactly the census**: the source is an object and the diagnostics returned are
`fromDiagsFields` of its attributes -/
theorem copyFrom_diags (ov : List (String × String)) (m : Msg) (tf : TfVal) (obj : GoVal) (r : FromResult)
    (h : copyFrom ov m tf obj = .ok r) :
    ∃ u n as tys, tf = .obj u n as tys ∧ r.diags = fromDiagsFields ov m.fields (as.getD []) := by
  unfold copyFrom at h
  split at h
  · rename_i u n as tys
    refine ⟨u, n, as, tys, rfl, ?_⟩
    split at h
    · rename_i st heq
      have := fromFields_diags ov m.fields as _ st heq
      simp only [Outcome.ok.injEq] at h
      subst h
      simpa using this
    · cases h
    · cases h
  · cases h

-- ======================================================================================================
-- 3. malformed sites
-- ======================================================================================================

/-- the value has the Go type the field block asserts (`v, ok := a.(ValueType)` succeeds) -/
def RightType (info : FieldInfo) (a : TfVal) : Prop :=
  (a.vkind != vkindOf info.tf.valueType || a.vkind == .unknown) = false

/-- **a malformed site at any depth.** `SiteAt ov fs attrs d`: running the field blocks `fs` on an object with
attributes `attrs` meets a site whose diagnostic is `d` – a missing attribute, an attribute of the wrong Go type, or a
list element / map value of the wrong Go type (a nil value is of the wrong type) – either at this level or in a
nested message reached through a known non-null object attribute, an element of a known non-null list, or a value of
a known non-null map: exactly the positions `Copy<T>FromTerraform` visits. -/
inductive SiteAt (ov : List (String × String)) : List Field → List (String × TfVal) → Diag → Prop
  /-- an attribute of the visited object is missing (every kind, custom included) -/
  | missing {fs attrs} (f : Field) (hf : f ∈ fs) (hp : f.info.isPlaceholder = false)
      (hl : attrs.lookup f.info.nameSnake = none) : SiteAt ov fs attrs (.readMissing f.info.path)
  /-- an attribute holds a value of another Go type than the schema's (including a nil interface value) -/
  | wrongType {fs attrs} (f : Field) (a : TfVal) (hf : f ∈ fs) (hp : f.info.isPlaceholder = false)
      (hk : f.info.kind ≠ .custom) (hl : attrs.lookup f.info.nameSnake = some a)
      (hw : a.vkind ≠ vkindOf f.info.tf.valueType ∨ a.vkind = .unknown) :
      SiteAt ov fs attrs (.readConv f.info.path f.info.tf.valueType)
  /-- an element of a known non-null list is of another Go type than the element type (including nil) -/
  | wrongListElem {fs attrs} (f : Field) (es : Option (List TfVal)) (t : Option TfTy) (e : TfVal) (hf : f ∈ fs)
      (hp : f.info.isPlaceholder = false) (hk : f.info.kind ≠ .custom)
      (hl : attrs.lookup f.info.nameSnake = some (.list false false es t)) (ht : RightType f.info (.list false false es t))
      (he : e ∈ es.getD []) (hw : Spec.wrongElem f.info e = true) :
      SiteAt ov fs attrs (.readConv f.info.path (withType ov f.info.tf.elemValueType))
  /-- a value of a known non-null map is of another Go type than the map value type (including nil) -/
  | wrongMapElem {fs attrs} (f : Field) (es : Option (List (String × TfVal))) (t : Option TfTy) (k : String) (e : TfVal)
      (hf : f ∈ fs) (hp : f.info.isPlaceholder = false) (hk : f.info.kind ≠ .custom)
      (hl : attrs.lookup f.info.nameSnake = some (.map false false es t)) (ht : RightType f.info (.map false false es t))
      (he : (k, e) ∈ es.getD []) (hw : Spec.wrongElem (f.mapVal.getD f.info) e = true) :
      SiteAt ov fs attrs (.readConv f.info.path (withType ov (f.mapVal.getD f.info).tf.elemValueType))
  /-- a site inside the known non-null object held by a message attribute -/
  | inObject {fs attrs d} (f : Field) (as : Option (List (String × TfVal))) (t : Option (List (String × TfTy)))
      (hf : f ∈ fs) (hp : f.info.isPlaceholder = false) (hk : f.info.kind = .object)
      (hl : attrs.lookup f.info.nameSnake = some (.obj false false as t)) (ht : RightType f.info (.obj false false as t))
      (hE : isEmptyMsg f.msg = false) (hd : SiteAt ov f.sub (as.getD []) d) : SiteAt ov fs attrs d
  /-- a site inside a known non-null object element of a known non-null list of messages -/
  | inListElem {fs attrs d} (f : Field) (es : Option (List TfVal)) (t : Option TfTy)
      (as : Option (List (String × TfVal))) (t' : Option (List (String × TfTy)))
      (hf : f ∈ fs) (hp : f.info.isPlaceholder = false) (hk : f.info.kind = .objectList)
      (hl : attrs.lookup f.info.nameSnake = some (.list false false es t)) (ht : RightType f.info (.list false false es t))
      (he : .obj false false as t' ∈ es.getD []) (hw : Spec.wrongElem f.info (.obj false false as t') = false)
      (hd : SiteAt ov f.sub (as.getD []) d) : SiteAt ov fs attrs d
  /-- a site inside a known non-null object value of a known non-null map of messages -/
  | inMapElem {fs attrs d} (f : Field) (es : Option (List (String × TfVal))) (t : Option TfTy) (k : String)
      (as : Option (List (String × TfVal))) (t' : Option (List (String × TfTy)))
      (hf : f ∈ fs) (hp : f.info.isPlaceholder = false) (hk : f.info.kind = .objectMap)
      (hl : attrs.lookup f.info.nameSnake = some (.map false false es t)) (ht : RightType f.info (.map false false es t))
      (he : (k, .obj false false as t') ∈ es.getD [])
      (hw : Spec.wrongElem (f.mapVal.getD f.info) (.obj false false as t') = false)
      (hd : SiteAt ov f.sub (as.getD []) d) : SiteAt ov fs attrs d

theorem mem_fromDiagsFields (ov : List (String × String)) (attrs : List (String × TfVal)) (d : Diag) (f : Field) :
    ∀ (fs : List Field), f ∈ fs → d ∈ fromDiagsField ov f attrs → d ∈ fromDiagsFields ov fs attrs
  | [], hf, _ => by cases hf
  | g :: rest, hf, hd => by
    simp only [fromDiagsFields, List.mem_append]
    rcases List.mem_cons.mp hf with rfl | hf'
    · exact Or.inl hd
    · exact Or.inr (mem_fromDiagsFields ov attrs d f rest hf' hd)

theorem wrong_true {info : FieldInfo} {a : TfVal} (hw : a.vkind ≠ vkindOf info.tf.valueType ∨ a.vkind = .unknown) :
    (a.vkind != vkindOf info.tf.valueType || a.vkind == .unknown) = true := by
  rcases hw with h | h <;> simp [h]

theorem custom_false {info : FieldInfo} (hk : info.kind ≠ .custom) : (info.kind == .custom) = false := by
  cases h : info.kind <;> first | exact absurd h hk | rfl

/-- **every malformed site is in the census** -/
theorem siteAt_mem_census (ov : List (String × String)) {fs : List Field} {attrs : List (String × TfVal)} {d : Diag}
    (h : SiteAt ov fs attrs d) : d ∈ fromDiagsFields ov fs attrs := by
  induction h with
  | missing f hf hp hl =>
    apply mem_fromDiagsFields ov _ _ f _ hf
    simp [fromDiagsField_eq, hp, fieldDiagsWith, hl]
  | wrongType f a hf hp hk hl hw =>
    apply mem_fromDiagsFields ov _ _ f _ hf
    simp [fromDiagsField_eq, hp, fieldDiagsWith, hl, custom_false hk, wrong_true hw]
  | wrongListElem f es t e hf hp hk hl ht he hw =>
    apply mem_fromDiagsFields ov _ _ f _ hf
    rw [fromDiagsField_eq, hp]
    simp only [Bool.false_eq_true, if_false]
    rw [fieldDiags_val _ ov f.info f.mapVal f.msg _ _ hl (custom_false hk) ht]
    simp only [valDiagsWith, Bool.or_self, Bool.false_eq_true, if_false, List.mem_flatMap]
    exact ⟨e, he, by simp [elemDiagsWith, hw]⟩
  | wrongMapElem f es t k e hf hp hk hl ht he hw =>
    apply mem_fromDiagsFields ov _ _ f _ hf
    rw [fromDiagsField_eq, hp]
    simp only [Bool.false_eq_true, if_false]
    rw [fieldDiags_val _ ov f.info f.mapVal f.msg _ _ hl (custom_false hk) ht]
    simp only [valDiagsWith, Bool.or_self, Bool.false_eq_true, if_false, List.mem_flatMap]
    exact ⟨(k, e), he, by simp [elemDiagsWith, hw]⟩
  | inObject f as t hf hp hk hl ht hE hd ih =>
    apply mem_fromDiagsFields ov _ _ f _ hf
    rw [fromDiagsField_eq, hp]
    simp only [Bool.false_eq_true, if_false]
    rw [fieldDiags_val _ ov f.info f.mapVal f.msg _ _ hl (by rw [hk]; decide) ht]
    simpa [valDiagsWith, hk, hE] using ih
  | inListElem f es t as t' hf hp hk hl ht he hw hd ih =>
    apply mem_fromDiagsFields ov _ _ f _ hf
    rw [fromDiagsField_eq, hp]
    simp only [Bool.false_eq_true, if_false]
    rw [fieldDiags_val _ ov f.info f.mapVal f.msg _ _ hl (by rw [hk]; decide) ht]
    simp only [valDiagsWith, Bool.or_self, Bool.false_eq_true, if_false, List.mem_flatMap]
    exact ⟨_, he, by simpa [elemDiagsWith, hw, hk] using ih⟩
  | inMapElem f es t k as t' hf hp hk hl ht he hw hd ih =>
    apply mem_fromDiagsFields ov _ _ f _ hf
    rw [fromDiagsField_eq, hp]
    simp only [Bool.false_eq_true, if_false]
    rw [fieldDiags_val _ ov f.info f.mapVal f.msg _ _ hl (by rw [hk]; decide) ht]
    simp only [valDiagsWith, Bool.or_self, Bool.false_eq_true, if_false, List.mem_flatMap]
    exact ⟨(k, _), he, by simpa [elemDiagsWith, hw, hk] using ih⟩

/-- **SITE ⇒ DIAGNOSTIC, ANY DEPTH**: whenever the field blocks of a message run to completion, the diagnostic of every
malformed site – at this level or at any nesting depth – is among the resulting diagnostics -/
theorem siteAt_diag (ov : List (String × String)) (fs : List Field) (attrs : Option (List (String × TfVal)))
    (st st' : FromSt) (d : Diag) (hs : SiteAt ov fs (attrs.getD []) d) (h : copyFromFields ov fs attrs st = .ok st') :
    d ∈ st'.diags := by
  rw [fromFields_diags ov fs attrs st st' h]
  exact List.mem_append_right _ (siteAt_mem_census ov hs)

/-- **SITE ⇒ DIAGNOSTIC, top level, missing attribute** (every kind, custom included) -/
theorem missing_diag (ov : List (String × String)) (fs : List Field) (attrs : Option (List (String × TfVal)))
    (st st' : FromSt) (f : Field) (hf : f ∈ fs) (hp : f.info.isPlaceholder = false)
    (hl : (attrs.getD []).lookup f.info.nameSnake = none) (h : copyFromFields ov fs attrs st = .ok st') :
    .readMissing f.info.path ∈ st'.diags :=
  siteAt_diag ov fs attrs st st' _ (.missing f hf hp hl) h

/-- **SITE ⇒ DIAGNOSTIC, top level, attribute of the wrong Go type** (a nil interface value is of the wrong type) -/
theorem wrongType_diag (ov : List (String × String)) (fs : List Field) (attrs : Option (List (String × TfVal)))
    (st st' : FromSt) (f : Field) (a : TfVal) (hf : f ∈ fs) (hp : f.info.isPlaceholder = false)
    (hk : f.info.kind ≠ .custom) (hl : (attrs.getD []).lookup f.info.nameSnake = some a)
    (hw : a.vkind ≠ vkindOf f.info.tf.valueType ∨ a.vkind = .unknown) (h : copyFromFields ov fs attrs st = .ok st') :
    .readConv f.info.path f.info.tf.valueType ∈ st'.diags :=
  siteAt_diag ov fs attrs st st' _ (.wrongType f a hf hp hk hl hw) h

/-- a nil element (or a foreign value) is of the wrong Go type, whatever the element type -/
theorem wrongElem_nil (vf : FieldInfo) : Spec.wrongElem vf .nilv = true ∧ ∀ t, Spec.wrongElem vf (.foreign t) = true := by
  simp [Spec.wrongElem, TfVal.vkind]

/-- **SITE ⇒ DIAGNOSTIC, top level, wrong / nil element of a known non-null list** -/
theorem wrongListElem_diag (ov : List (String × String)) (fs : List Field) (attrs : Option (List (String × TfVal)))
    (st st' : FromSt) (f : Field) (es : Option (List TfVal)) (t : Option TfTy) (e : TfVal) (hf : f ∈ fs)
    (hp : f.info.isPlaceholder = false) (hk : f.info.kind ≠ .custom)
    (hl : (attrs.getD []).lookup f.info.nameSnake = some (.list false false es t))
    (ht : RightType f.info (.list false false es t)) (he : e ∈ es.getD []) (hw : Spec.wrongElem f.info e = true)
    (h : copyFromFields ov fs attrs st = .ok st') :
    .readConv f.info.path (withType ov f.info.tf.elemValueType) ∈ st'.diags :=
  siteAt_diag ov fs attrs st st' _ (.wrongListElem f es t e hf hp hk hl ht he hw) h

/-- **SITE ⇒ DIAGNOSTIC, top level, wrong / nil value of a known non-null map** -/
theorem wrongMapElem_diag (ov : List (String × String)) (fs : List Field) (attrs : Option (List (String × TfVal)))
    (st st' : FromSt) (f : Field) (es : Option (List (String × TfVal))) (t : Option TfTy) (k : String) (e : TfVal)
    (hf : f ∈ fs) (hp : f.info.isPlaceholder = false) (hk : f.info.kind ≠ .custom)
    (hl : (attrs.getD []).lookup f.info.nameSnake = some (.map false false es t))
    (ht : RightType f.info (.map false false es t)) (he : (k, e) ∈ es.getD [])
    (hw : Spec.wrongElem (f.mapVal.getD f.info) e = true) (h : copyFromFields ov fs attrs st = .ok st') :
    .readConv f.info.path (withType ov (f.mapVal.getD f.info).tf.elemValueType) ∈ st'.diags :=
  siteAt_diag ov fs attrs st st' _ (.wrongMapElem f es t k e hf hp hk hl ht he hw) h

/-- **C06, CopyFrom side, for the whole converter**: for every IR, every Terraform value and every prior struct,
`Copy<T>FromTerraform` never panics, and when it returns, the diagnostics are exactly the census of the source's
attributes – in particular the diagnostic of every malformed site at any depth is reported, and each site is
reported although other sites before it were (conversion of the rest continues). -/
theorem copyFrom_sites (ov : List (String × String)) (m : Msg) (tf : TfVal) (prior : List (String × GoVal)) :
    (∀ w, copyFrom ov m tf (.struct prior) ≠ .panic w) ∧
    ∀ r, copyFrom ov m tf (.struct prior) = .ok r →
      ∃ u n as tys, tf = .obj u n as tys ∧ r.diags = fromDiagsFields ov m.fields (as.getD []) ∧
        ∀ d, SiteAt ov m.fields (as.getD []) d → d ∈ r.diags := by
  refine ⟨copyFrom_noPanic ov m tf prior, ?_⟩
  intro r h
  obtain ⟨u, n, as, tys, rfl, hd⟩ := copyFrom_diags ov m tf _ r h
  exact ⟨u, n, as, tys, rfl, hd, fun d hs => hd ▸ siteAt_mem_census ov hs⟩

-- ======================================================================================================
-- 4. the executable census of `PGT/Model/Spec.lean`
-- ======================================================================================================

def elemKeysWith (recK : List (String × TfVal) → List (String × String)) (info vf : FieldInfo) (e : TfVal) :
    List (String × String) :=
  if Spec.wrongElem vf e then [("conv", info.path)] else
  match e with
  | .obj u n as _ => if !u && !n && (info.kind == .objectList || info.kind == .objectMap) then recK (as.getD []) else []
  | _ => []

def fieldKeysWith (recK : List (String × TfVal) → List (String × String)) (info : FieldInfo) (mapVal : Option FieldInfo)
    (msg : Option MsgInfo) (attrs : List (String × TfVal)) : List (String × String) :=
  match attrs.lookup info.nameSnake with
  | none => [("missing", info.path)]
  | some a =>
    if info.kind == .custom then [] else
    if a.vkind != vkindOf info.tf.valueType || a.vkind == .unknown then [("conv", info.path)] else
    match a with
    | .obj u n as _ => if !u && !n && info.kind == .object && !isEmptyMsg msg then recK (as.getD []) else []
    | .list u n es _ => if u || n then [] else (es.getD []).flatMap (elemKeysWith recK info (mapVal.getD info))
    | .map u n es _ => if u || n then [] else (es.getD []).flatMap fun (_, e) => elemKeysWith recK info (mapVal.getD info) e
    | _ => []

theorem c06Field_eq (info : FieldInfo) (mv : Option FieldInfo) (msg : Option MsgInfo) (sub : List Field)
    (attrs : List (String × TfVal)) :
    Spec.c06Field ⟨info, mv, msg, sub⟩ attrs =
      if info.isPlaceholder then [] else fieldKeysWith (fun as => Spec.c06Fields sub as) info mv msg attrs := by
  rw [Spec.c06Field]
  rfl

theorem filterMap_flatMap_eq {α β γ : Type} (g : β → Option γ) (f : α → List β) (f' : α → List γ)
    (h : ∀ x, (f x).filterMap g = f' x) : ∀ (l : List α), (l.flatMap f).filterMap g = l.flatMap f'
  | [] => rfl
  | x :: rest => by
    simp only [List.flatMap_cons, List.filterMap_append, h x, filterMap_flatMap_eq g f f' h rest]

theorem elemKeys_of_diags (recD : List (String × TfVal) → List Diag) (recK : List (String × TfVal) → List (String × String))
    (hrec : ∀ as, (recD as).filterMap Spec.diagKey = recK as) (ov : List (String × String)) (info vf vf' : FieldInfo)
    (hvf : vf'.tf.elemValueType = vf.tf.elemValueType) (e : TfVal) :
    (elemDiagsWith recD ov info vf e).filterMap Spec.diagKey = elemKeysWith recK info vf' e := by
  have hwe : Spec.wrongElem vf' e = Spec.wrongElem vf e := by simp only [Spec.wrongElem, hvf]
  unfold elemDiagsWith elemKeysWith
  rw [hwe]
  cases Spec.wrongElem vf e
  case true => simp [Spec.diagKey]
  case false =>
    simp only [Bool.false_eq_true, if_false]
    cases e with
    | obj u n as t =>
      simp only []
      split
      · exact hrec _
      · rfl
    | _ => rfl

/-- where the attribute's value type is `List`, the map value field (if the IR carries one) has the element value
type of the field itself; built IRs carry a map value field on map fields only -/
def VFOKInfo (info : FieldInfo) (mv : Option FieldInfo) : Prop :=
  vkindOf info.tf.valueType = .list → (mv.getD info).tf.elemValueType = info.tf.elemValueType

theorem fieldKeys_of_diags (recD : List (String × TfVal) → List Diag) (recK : List (String × TfVal) → List (String × String))
    (hrec : ∀ as, (recD as).filterMap Spec.diagKey = recK as) (ov : List (String × String)) (info : FieldInfo)
    (mv : Option FieldInfo) (msg : Option MsgInfo) (hvf : VFOKInfo info mv) (attrs : List (String × TfVal)) :
    (fieldDiagsWith recD ov info mv msg attrs).filterMap Spec.diagKey = fieldKeysWith recK info mv msg attrs := by
  unfold fieldDiagsWith fieldKeysWith
  cases attrs.lookup info.nameSnake with
  | none => simp [Spec.diagKey]
  | some a =>
    simp only []
    cases (info.kind == .custom)
    case true => simp
    case false =>
      simp only [Bool.false_eq_true, if_false]
      cases hw : (a.vkind != vkindOf info.tf.valueType || a.vkind == .unknown)
      case true => simp [Spec.diagKey]
      case false =>
        simp only [Bool.false_eq_true, if_false]
        cases a with
        | obj u n as t =>
          simp only [valDiagsWith]
          split
          · exact hrec _
          · rfl
        | list u n es t =>
          have hty : vkindOf info.tf.valueType = .list := by
            simp only [TfVal.vkind, Bool.or_eq_false_iff, bne_eq_false_iff_eq] at hw
            exact hw.1.symm
          simp only [valDiagsWith]
          split
          · rfl
          · exact filterMap_flatMap_eq _ _ _ (elemKeys_of_diags recD recK hrec ov info info (mv.getD info) (hvf hty)) _
        | map u n es t =>
          simp only [valDiagsWith]
          split
          · rfl
          · exact filterMap_flatMap_eq _ _ _
              (fun x => by
                obtain ⟨k, e⟩ := x
                exact elemKeys_of_diags recD recK hrec ov info (mv.getD info) (mv.getD info) rfl e) _
        | prim _ _ _ _ => rfl
        | nilv => rfl
        | foreign _ => rfl

mutual
/-- `VFOKInfo` for every field at every depth -/
def VFOKs : List Field → Prop
  | [] => True
  | f :: rest => VFOK f ∧ VFOKs rest
def VFOK : Field → Prop
  | ⟨info, mv, _, sub⟩ => VFOKInfo info mv ∧ VFOKs sub
end

mutual

/-- **the executable census `Spec.c06Fields` is the key projection of the diagnostics census** -/
theorem census_keys_fields (ov : List (String × String)) : ∀ (fs : List Field), VFOKs fs → ∀ attrs,
    (fromDiagsFields ov fs attrs).filterMap Spec.diagKey = Spec.c06Fields fs attrs
  | [], _, attrs => by simp [fromDiagsFields, Spec.c06Fields]
  | f :: rest, h, attrs => by
    simp only [VFOKs] at h
    simp only [fromDiagsFields, Spec.c06Fields, List.filterMap_append, census_keys_field ov f h.1 attrs,
      census_keys_fields ov rest h.2 attrs]

theorem census_keys_field (ov : List (String × String)) : ∀ (f : Field), VFOK f → ∀ attrs,
    (fromDiagsField ov f attrs).filterMap Spec.diagKey = Spec.c06Field f attrs
  | ⟨info, mv, msg, sub⟩, h, attrs => by
    simp only [VFOK] at h
    rw [c06Field_eq, fromDiagsField]
    cases info.isPlaceholder
    case true => rfl
    case false =>
      simp only [Bool.false_eq_true, if_false]
      exact fieldKeys_of_diags _ _ (fun as => census_keys_fields ov sub h.2 as) ov info mv msg h.1 attrs

end

/-- the top-level census `Spec.c06FromLevel` is part of the diagnostics census -/
theorem fromLevel_sub_census (ov : List (String × String)) (fs : List Field) (attrs : List (String × TfVal)) (d : Diag)
    (h : d ∈ Spec.c06FromLevel fs attrs) : d ∈ fromDiagsFields ov fs attrs := by
  unfold Spec.c06FromLevel at h
  obtain ⟨f, hf, hd⟩ := List.mem_filterMap.mp h
  apply mem_fromDiagsFields ov attrs d f fs hf
  rw [fromDiagsField_eq]
  revert hd
  unfold fieldDiagsWith
  cases f.info.isPlaceholder
  case true => intro hd; simp at hd
  case false =>
    simp only [Bool.false_eq_true, if_false]
    cases attrs.lookup f.info.nameSnake with
    | none =>
      simp only [Option.some.injEq]
      intro hd
      simp [hd]
    | some a =>
      simp only []
      cases (f.info.kind == .custom)
      case true => simp
      case false =>
        simp only [Bool.false_eq_true, if_false]
        cases (a.vkind != vkindOf f.info.tf.valueType || a.vkind == .unknown)
        case true =>
          simp only [if_true, Option.some.injEq]
          intro hd
          simp [hd]
        case false => simp

theorem all_contains_self {α : Type} [BEq α] [LawfulBEq α] (l : List α) : (l.all fun d => l.contains d) = true := by
  simp [List.all_eq_true]

/-- **soundness and completeness of the executable census w.r.t. the model**: every successful run of
`Copy<T>FromTerraform` passes the check `Spec.c06FromCheck` the driver evaluates on the real generated code – the
diagnostics contain the top-level census, and their (kind, path) keys are exactly `Spec.c06Fields` at every depth -/
theorem copyFrom_c06FromCheck (ov : List (String × String)) (m : Msg) (tf : TfVal) (obj : GoVal) (r : FromResult)
    (hvf : VFOKs m.fields) (h : copyFrom ov m tf obj = .ok r) : Spec.c06FromCheck m tf false r.diags = true := by
  obtain ⟨u, n, as, tys, rfl, hd⟩ := copyFrom_diags ov m tf obj r h
  have hk := census_keys_fields ov m.fields hvf (as.getD [])
  unfold Spec.c06FromCheck
  simp only [Bool.not_false, Bool.true_and, Bool.and_eq_true]
  refine ⟨?_, ?_⟩
  · rw [List.all_eq_true]
    intro d hdm
    rw [hd]
    simpa using fromLevel_sub_census ov m.fields (as.getD []) d hdm
  · rw [hd, hk]
    exact ⟨all_contains_self _, all_contains_self _⟩

/-- soundness of the executable census, element-wise: every (kind, path) the census `Spec.c06Fields` lists is the key
of a diagnostic the run reports -/
theorem c06Fields_sound (ov : List (String × String)) (fs : List Field) (attrs : Option (List (String × TfVal)))
    (st st' : FromSt) (hvf : VFOKs fs) (h : copyFromFields ov fs attrs st = .ok st') (k : String × String)
    (hk : k ∈ Spec.c06Fields fs (attrs.getD [])) : ∃ d ∈ st'.diags, Spec.diagKey d = some k := by
  rw [← census_keys_fields ov fs hvf] at hk
  obtain ⟨d, hd, hdk⟩ := List.mem_filterMap.mp hk
  exact ⟨d, by rw [fromFields_diags ov fs attrs st st' h]; exact List.mem_append_right _ hd, hdk⟩

/-- … and conversely every read diagnostic the run appends has its key in the census -/
theorem c06Fields_complete (ov : List (String × String)) (fs : List Field) (attrs : Option (List (String × TfVal)))
    (st st' : FromSt) (hvf : VFOKs fs) (h : copyFromFields ov fs attrs st = .ok st') :
    st'.diags.filterMap Spec.diagKey = st.diags.filterMap Spec.diagKey ++ Spec.c06Fields fs (attrs.getD []) := by
  rw [fromFields_diags ov fs attrs st st' h, List.filterMap_append, census_keys_fields ov fs hvf]

-- ------------------------------------------------------------------------------------------------------
-- non-vacuity: a list of messages holding a nil element, an object without the attribute `a`, and an object whose `a`
-- is of the wrong Go type

def exFromA : Field :=
  { info := { name := "A", nameSnake := "a", kind := .primitive, protoType := "string", path := "M.L.A",
              tf := { valueType := "github.com/hashicorp/terraform-plugin-framework/types.String",
                      elemValueType := "github.com/hashicorp/terraform-plugin-framework/types.String",
                      valueCastToType := "string", valueCastFromType := "string", zeroValue := "\"\"" } } }

def exFromL : Field :=
  { info := { name := "L", nameSnake := "l", kind := .objectList, isRepeated := true, isNullable := true, path := "M.L",
              tf := { valueType := "github.com/hashicorp/terraform-plugin-framework/types.List",
                      elemValueType := "github.com/hashicorp/terraform-plugin-framework/types.Object" } },
    msg := some { name := "Inner" },
    sub := [exFromA] }

def exFromFields : List Field := [exFromL]

def exFromEs : List TfVal :=
  [.nilv, .obj false false (some []) none, .obj false false (some [("a", .prim .int64 false false (.w64 1))]) none]

def exFromAttrs : List (String × TfVal) := [("l", .list false false (some exFromEs) none)]

/-- the run completes and reports the three sites, in order -/
theorem exFrom_runs :
    (match copyFrom [] { info := { name := "M" }, fields := exFromFields } (.obj false false (some exFromAttrs) none) (.struct []) with
     | .ok r => r.diags == [.readConv "M.L" (withType [] "github.com/hashicorp/terraform-plugin-framework/types.Object"),
          .readMissing "M.L.A", .readConv "M.L.A" "github.com/hashicorp/terraform-plugin-framework/types.String"]
     | _ => false) = true := by
  decide

/-- the missing attribute inside the second element is a site in the sense of `SiteAt` (depth 2) -/
theorem exFrom_site : SiteAt [] exFromFields exFromAttrs (.readMissing "M.L.A") := by
  refine SiteAt.inListElem exFromL (some exFromEs) none (some []) none (List.mem_singleton.mpr rfl) (by decide) (by decide)
    (by rfl) (by unfold RightType; decide) (by simp [exFromEs]) (by decide) ?_
  exact SiteAt.missing exFromA (List.mem_singleton.mpr rfl) (by decide) (by decide)

/-- the nil element is a site too (depth 1) -/
theorem exFrom_site_nil : SiteAt [] exFromFields exFromAttrs
    (.readConv "M.L" (withType [] "github.com/hashicorp/terraform-plugin-framework/types.Object")) :=
  SiteAt.wrongListElem exFromL (some exFromEs) none .nilv (List.mem_singleton.mpr rfl) (by decide) (by decide)
    (by rfl) (by unfold RightType; decide) (by simp [exFromEs]) (wrongElem_nil _).1

theorem exFrom_vfok : VFOKs exFromFields := by
  simp [exFromFields, exFromL, exFromA, VFOKs, VFOK, VFOKInfo]

end PGT

#print axioms PGT.copyFromFields_writer
#print axioms PGT.copyFromFields_append
#print axioms PGT.copyFromField_append
#print axioms PGT.fromElemBody_append
#print axioms PGT.fromElemsList_append
#print axioms PGT.fromElemsMap_append
#print axioms PGT.copyFromFields_obj_indep
#print axioms PGT.fromFields_diags
#print axioms PGT.copyFrom_diags
#print axioms PGT.siteAt_diag
#print axioms PGT.missing_diag
#print axioms PGT.wrongType_diag
#print axioms PGT.wrongListElem_diag
#print axioms PGT.wrongMapElem_diag
#print axioms PGT.copyFrom_sites
#print axioms PGT.census_keys_fields
#print axioms PGT.copyFrom_c06FromCheck
#print axioms PGT.c06Fields_sound
#print axioms PGT.c06Fields_complete
