import PGT.Model.Build
import PGT.Props.C11
import PGT.Proofs.BuildErrors
/-
P14 / C11 - field-addressed options hit exactly the addressed fields: paths are unique, and what is not addressed is
not touched.

  0. `dot_split_unique`, `pathOf_inj`            string lemmas: the last `'.'` splits uniquely; dotted paths with dot-free
                                                 segments are injective in the segment sequence
  1. `keysOf_path`, `keysOf_typeName`, `Walk`, `walk_path`, `occurrence_path`
                                                 PATH FORMULA: `Keys.path` of an occurrence = root name followed by the names
                                                 of the NON-EMBEDDED fields on the way (embedded fields keep the parent's path;
                                                 map values keep the keys of the map field); `typeName = Message.field`
  2. `paths_eq_iff_segs_eq`, `different_names_different_paths`, `path_selects_at_most_one`, `typeName_key_inj`
                                                 INJECTIVITY: a full path selects at most one occurrence
  3. `coreStep_congr`                            one block: same result when the views agree at the occurrence's two keys and
                                                 the nested results are the same
  4. `ctxKeys` / `occKeys`, `build_congr`        all keys below a message / an occurrence (decidable enumeration); views that
                                                 agree on them build the same IR (induction over the fuel)
  5. `DiffersOnlyAt`, `untouched_unless_addressed` (+ `_field`, `_root`), `exclusion_untouched`, `computed_untouched`, …,
     `viewOf_exclude_cons`                       MAIN: configurations that differ only in entries under key `p` build the same IR
                                                 for every tree without an occurrence addressed by `p`
  6. `exclusion_surgical_message`, `exclusion_surgical`
                                                 the message that does contain addressed fields: exactly their blocks are cut out
  7. `built_msg_path`, `built_field_path`, `declared_field_path`
                                                 the IR nodes record these paths
  8. `exclusion_prunes_full`                     NOT proved (and not true without more side conditions): node-by-node pruning of
                                                 the IR at every depth - see the comment there
  9. `Example`                                   the side conditions hold for a concrete descriptor
-/

namespace PGT.Proofs.PathUnique
open PGT PGT.Props.C11 PGT.Proofs.BuildErrors

/-! ## 0. string lemmas -/


/-- `root ++ "." ++ n1 ++ "." ++ … ++ "." ++ nk` -/
def pathOf (root : String) (names : List String) : String := names.foldl (fun acc n => acc ++ "." ++ n) root

theorem pathOf_nil (r : String) : pathOf r [] = r := rfl
theorem pathOf_cons (r n : String) (ns : List String) : pathOf r (n :: ns) = pathOf (r ++ "." ++ n) ns := rfl
theorem pathOf_snoc (r : String) (ns : List String) (n : String) : pathOf r (ns ++ [n]) = pathOf r ns ++ "." ++ n := by
  simp [pathOf, List.foldl_append]
theorem pathOf_append (r : String) (ns ms : List String) : pathOf r (ns ++ ms) = pathOf (pathOf r ns) ms := by
  simp [pathOf, List.foldl_append]

/-- the characters a name sequence adds to the root name -/
def flat (ns : List String) : List Char := ns.flatMap fun n => '.' :: n.toList

theorem pathOf_toList : ∀ (ns : List String) (r : String), (pathOf r ns).toList = r.toList ++ flat ns
  | [], r => by simp [pathOf, flat]
  | n :: ns, r => by
    rw [pathOf_cons, pathOf_toList ns]
    have hd : ".".toList = ['.'] := rfl
    simp [flat, String.toList_append, hd]

theorem flat_shape (ns : List String) : flat ns = [] ∨ ∃ a, flat ns = '.' :: a := by
  cases ns with
  | nil => exact Or.inl rfl
  | cons n ns => exact Or.inr ⟨_, rfl⟩

theorem list_split_unique {α} (c : α) : ∀ (x y a b : List α), c ∉ x → c ∉ y → x ++ c :: a = y ++ c :: b → x = y ∧ a = b
  | [], [], a, b, _, _, h => by simpa using h
  | [], y0 :: y, a, b, _, hy, h => by
    simp only [List.nil_append, List.cons_append, List.cons.injEq] at h
    exact absurd (h.1 ▸ List.mem_cons_self) hy
  | x0 :: x, [], a, b, hx, _, h => by
    simp only [List.nil_append, List.cons_append, List.cons.injEq] at h
    exact absurd (h.1 ▸ List.mem_cons_self) hx
  | x0 :: x, y0 :: y, a, b, hx, hy, h => by
    simp only [List.cons_append, List.cons.injEq] at h
    obtain ⟨h0, h⟩ := h
    have := list_split_unique c x y a b (fun hm => hx (List.mem_cons_of_mem _ hm)) (fun hm => hy (List.mem_cons_of_mem _ hm)) h
    exact ⟨by rw [h0, this.1], this.2⟩

/-- a separator-free segment followed by "nothing or a separator" splits uniquely -/
theorem seg_split {α} (c : α) (x y A B : List α) (hx : c ∉ x) (hy : c ∉ y)
    (hA : A = [] ∨ ∃ a, A = c :: a) (hB : B = [] ∨ ∃ b, B = c :: b) (h : x ++ A = y ++ B) : x = y ∧ A = B := by
  rcases hA with rfl | ⟨a, rfl⟩ <;> rcases hB with rfl | ⟨b, rfl⟩
  · simpa using h
  · simp only [List.append_nil] at h
    exact absurd (h ▸ (List.mem_append_right y List.mem_cons_self)) hx
  · simp only [List.append_nil] at h
    exact absurd (h ▸ (List.mem_append_right x List.mem_cons_self)) hy
  · have := list_split_unique c x y a b hx hy h
    exact ⟨this.1, by rw [this.2]⟩

def dotFree (s : String) : Bool := !s.toList.contains '.'

theorem dotFree_iff (s : String) : dotFree s = true ↔ '.' ∉ s.toList := by
  simp [dotFree]

theorem flat_inj : ∀ (ns ms : List String), (∀ n ∈ ns, dotFree n = true) → (∀ m ∈ ms, dotFree m = true) →
    flat ns = flat ms → ns = ms
  | [], [], _, _, _ => rfl
  | [], m :: ms, _, _, h => by simp [flat] at h
  | n :: ns, [], _, _, h => by simp [flat] at h
  | n :: ns, m :: ms, hn, hm, h => by
    have h' : n.toList ++ flat ns = m.toList ++ flat ms := by
      simpa [flat] using h
    have := seg_split '.' n.toList m.toList (flat ns) (flat ms)
      ((dotFree_iff n).mp (hn n List.mem_cons_self)) ((dotFree_iff m).mp (hm m List.mem_cons_self))
      (flat_shape ns) (flat_shape ms) h'
    have ih := flat_inj ns ms (fun x hx => hn x (List.mem_cons_of_mem _ hx)) (fun x hx => hm x (List.mem_cons_of_mem _ hx)) this.2
    rw [String.toList_injective this.1, ih]

/-- **Injectivity of the path formula** (same root): different dot-free name sequences give different paths. -/
theorem pathOf_inj (r : String) (ns ms : List String) (hn : ∀ n ∈ ns, dotFree n = true) (hm : ∀ m ∈ ms, dotFree m = true)
    (h : pathOf r ns = pathOf r ms) : ns = ms := by
  have h' := congrArg String.toList h
  rw [pathOf_toList, pathOf_toList] at h'
  exact flat_inj ns ms hn hm (List.append_cancel_left h')

/-- … and with dot-free root names also the roots agree -/
theorem pathOf_inj_root (r r' : String) (ns ms : List String) (hr : dotFree r = true) (hr' : dotFree r' = true)
    (hn : ∀ n ∈ ns, dotFree n = true) (hm : ∀ m ∈ ms, dotFree m = true)
    (h : pathOf r ns = pathOf r' ms) : r = r' ∧ ns = ms := by
  have h' := congrArg String.toList h
  rw [pathOf_toList, pathOf_toList] at h'
  have := seg_split '.' r.toList r'.toList (flat ns) (flat ms) ((dotFree_iff r).mp hr) ((dotFree_iff r').mp hr')
    (flat_shape ns) (flat_shape ms) h'
  exact ⟨String.toList_injective this.1, flat_inj ns ms hn hm this.2⟩

/-- the LAST separator splits uniquely when the two suffixes are separator-free -/
theorem list_split_unique_right {α} (c : α) (a b x y : List α) (hx : c ∉ x) (hy : c ∉ y)
    (h : a ++ c :: x = b ++ c :: y) : a = b ∧ x = y := by
  have h' := congrArg List.reverse h
  simp only [List.reverse_append, List.reverse_cons, List.append_assoc, List.singleton_append] at h'
  have := list_split_unique c x.reverse y.reverse a.reverse b.reverse (by simpa using hx) (by simpa using hy) h'
  exact ⟨List.reverse_inj.mp this.2, List.reverse_inj.mp this.1⟩

/-- **String lemma.** `a ++ "." ++ x = b ++ "." ++ y`, no `'.'` in `x`, `y` ⟹ `a = b ∧ x = y`. -/
theorem dot_split_unique (a b x y : String) (hx : dotFree x = true) (hy : dotFree y = true)
    (h : a ++ "." ++ x = b ++ "." ++ y) : a = b ∧ x = y := by
  have h' := congrArg String.toList h
  simp only [String.toList_append] at h'
  have hd : ".".toList = ['.'] := rfl
  rw [hd, List.append_assoc, List.append_assoc] at h'
  have := list_split_unique_right '.' a.toList b.toList x.toList y.toList ((dotFree_iff x).mp hx) ((dotFree_iff y).mp hy) h'
  exact ⟨String.toList_injective this.1, String.toList_injective this.2⟩

/-! ## 1. the path formula -/

theorem keysOf_typeName (ctx : MsgCtx) (f : FieldD) : (keysOf ctx f).typeName = ctx.desc.name ++ "." ++ f.name := rfl

theorem keysOf_path (ctx : MsgCtx) (f : FieldD) :
    (keysOf ctx f).path = if f.embed then ctx.path else ctx.path ++ "." ++ f.name := rfl

theorem keysOf_path_plain (ctx : MsgCtx) (f : FieldD) (h : f.embed = false) :
    (keysOf ctx f).path = ctx.path ++ "." ++ f.name := by simp [keysOf, h]

theorem keysOf_path_embed (ctx : MsgCtx) (f : FieldD) (h : f.embed = true) : (keysOf ctx f).path = ctx.path := by
  simp [keysOf, h]

/-- what `buildFieldCore` passes down (restating `BuildErrors.buildFieldCore_succ`): the nested message is built with
`isRoot = false` and `path = keys.path`, so its context path is the `Keys.path` of the field occurrence; the value field of
a map is built in the SAME context with the SAME keys (it is not a separately addressable occurrence) -/
theorem child_calls (fuel' : Nat) (cfg : CfgView) (req : Request) (ctx : MsgCtx) (f : FieldD) (keys : Keys)
    (goType : String) (isMap isRep hasComment : Bool) :
    buildFieldCore (fuel' + 1) cfg req ctx f keys goType isMap isRep hasComment =
      coreStep cfg req ctx f keys goType isMap isRep hasComment
        (fun d => buildMessage fuel' cfg req d false keys.path)
        (buildFieldCore fuel' cfg req ctx f.mapValueField keys (mapValueGoType cfg f) false false false) :=
  buildFieldCore_succ fuel' cfg req ctx f keys goType isMap isRep hasComment

/-- the context `buildMessage` works in: the root's path is its name, a nested message's path is the `path` argument -/
theorem ctx_path (desc : MsgD) (isRoot : Bool) (path : String) :
    (ctxOf desc isRoot path).path = if isRoot then desc.name else path := rfl

/-- the messages `findMessage` can return -/
def reqMsgs (req : Request) : List MsgD := req.file.messages ++ req.deps.flatMap (·.messages)

theorem findMessage_mem {req : Request} {n : String} {d : MsgD} (h : req.findMessage n = some d) : d ∈ reqMsgs req :=
  List.mem_of_find?_eq_some h

/-- the path segments a sequence of declared fields contributes: embedded fields contribute none -/
def segs (fs : List FieldD) : List String := (fs.filter fun f => !f.embed).map (·.name)

theorem segs_cons (f : FieldD) (fs : List FieldD) : segs (f :: fs) = if f.embed then segs fs else f.name :: segs fs := by
  cases h : f.embed <;> simp [segs, List.filter, h]

theorem segs_append (fs gs : List FieldD) : segs (fs ++ gs) = segs fs ++ segs gs := by
  simp [segs]

theorem segs_noEmbed (fs : List FieldD) (h : ∀ f ∈ fs, f.embed = false) : segs fs = fs.map (·.name) := by
  unfold segs
  rw [List.filter_eq_self.mpr]
  intro f hf; simp [h f hf]

/-- `Walk req c0 fs c`: starting in message context `c0` and following the declared fields `fs` (each one a field of the
message reached so far, whose type name resolves in the request) leads to the message context `c`, where the context of
a nested message is the one `buildFieldCore` passes to `buildMessage`: path = the `Keys.path` of the field occurrence.
Map fields are followed to the message of their values (`mapValueField` keeps the keys and the type name). -/
inductive Walk (req : Request) : MsgCtx → List FieldD → MsgCtx → Prop
  | nil (c : MsgCtx) : Walk req c [] c
  | cons {c0 : MsgCtx} {f : FieldD} {d : MsgD} {fs : List FieldD} {c : MsgCtx}
      (hf : f ∈ c0.desc.fields) (hfind : req.findMessage f.typeName = some d)
      (rest : Walk req { desc := d, path := (keysOf c0 f).path } fs c) : Walk req c0 (f :: fs) c

/-- **Path formula** for message contexts. -/
theorem walk_path {req : Request} {c0 c : MsgCtx} {fs : List FieldD} (h : Walk req c0 fs c) :
    c.path = pathOf c0.path (segs fs) := by
  induction h with
  | nil c => rfl
  | @cons c0 f d fs c hf hfind rest ih =>
    rw [ih, segs_cons, keysOf_path]
    cases f.embed <;> simp [pathOf_cons]

/-- **Path formula** for field occurrences: the `Keys.path` of the occurrence of `f` reached from the root message `root`
through the fields `fs` is `root.name ++ "." ++ n1 ++ … ++ "." ++ nk`, the `ni` being the names of the non-embedded
fields among `fs ++ [f]`. -/
theorem occurrence_path {req : Request} {c0 c : MsgCtx} {fs : List FieldD} (h : Walk req c0 fs c) (f : FieldD) :
    (keysOf c f).path = pathOf c0.path (segs (fs ++ [f])) := by
  rw [segs_append, keysOf_path, walk_path h]
  cases hf : f.embed
  · simp [segs, hf, pathOf_snoc]
  · simp [segs, hf]

theorem occurrence_typeName {req : Request} {c0 c : MsgCtx} {fs : List FieldD} (_h : Walk req c0 fs c) (f : FieldD) :
    (keysOf c f).typeName = c.desc.name ++ "." ++ f.name := rfl

/-- a property of all fields of the start message and of all request messages holds along a walk -/
theorem walk_all {req : Request} (P : FieldD → Prop) (hP : ∀ m ∈ reqMsgs req, ∀ f ∈ m.fields, P f)
    {c0 c : MsgCtx} {fs : List FieldD} (h : Walk req c0 fs c) (hP0 : ∀ f ∈ c0.desc.fields, P f) :
    (∀ f ∈ fs, P f) ∧ (∀ f ∈ c.desc.fields, P f) := by
  induction h with
  | nil c => exact ⟨by simp, hP0⟩
  | @cons c0 f d fs c hf hfind rest ih =>
    obtain ⟨h1, h2⟩ := ih (hP d (findMessage_mem hfind))
    refine ⟨?_, h2⟩
    intro g hg
    rcases List.mem_cons.mp hg with rfl | hg
    · exact hP0 _ hf
    · exact h1 g hg

/-- the message reached by a walk is the start message or a message of the request -/
theorem walk_desc_mem {req : Request} {c0 c : MsgCtx} {fs : List FieldD} (hw : Walk req c0 fs c) :
    c.desc = c0.desc ∨ c.desc ∈ reqMsgs req := by
  induction hw with
  | nil c => exact Or.inl rfl
  | cons hf hfind rest ih =>
    rcases ih with ih | ih
    · exact Or.inr (ih ▸ findMessage_mem hfind)
    · exact Or.inr ih

/-- field names pairwise distinct -/
def namesDistinct : List FieldD → Bool
  | [] => true
  | f :: fs => fs.all (fun g => g.name != f.name) && namesDistinct fs

theorem namesDistinct_inj : ∀ (l : List FieldD), namesDistinct l = true → ∀ f ∈ l, ∀ g ∈ l, f.name = g.name → f = g
  | [], _, f, hf, _, _, _ => by cases hf
  | x :: l, h, f, hf, g, hg, hn => by
    simp only [namesDistinct, Bool.and_eq_true, List.all_eq_true, bne_iff_ne, ne_eq] at h
    rcases List.mem_cons.mp hf with rfl | hf' <;> rcases List.mem_cons.mp hg with rfl | hg'
    · rfl
    · exact absurd hn.symm (h.1 g hg')
    · exact absurd hn (h.1 f hf')
    · exact namesDistinct_inj l h.2 f hf' g hg' hn

/-- a walk is determined by the names of its fields -/
theorem walk_unique {req : Request} (hD : ∀ m ∈ reqMsgs req, namesDistinct m.fields = true)
    {c0 c : MsgCtx} {fs : List FieldD} (h : Walk req c0 fs c) :
    ∀ {gs : List FieldD} {c' : MsgCtx}, Walk req c0 gs c' → namesDistinct c0.desc.fields = true →
      fs.map (·.name) = gs.map (·.name) → fs = gs ∧ c = c' := by
  induction h with
  | nil c =>
    intro gs c' h' _ hn
    cases h' with
    | nil => exact ⟨rfl, rfl⟩
    | cons hf hfind rest => simp at hn
  | @cons c0 f d fs c hf hfind rest ih =>
    intro gs c' h' hD0 hn
    cases h' with
    | nil => simp at hn
    | @cons _ g d' gs' _ hg hfind' rest' =>
      simp only [List.map_cons, List.cons.injEq] at hn
      have hfg : f = g := namesDistinct_inj _ hD0 f hf g hg hn.1
      subst hfg
      have hdd : d = d' := by rw [hfind] at hfind'; injection hfind'
      subst hdd
      obtain ⟨h1, h2⟩ := ih rest' (hD d (findMessage_mem hfind)) hn.2
      exact ⟨by rw [h1], h2⟩


/-! ## 2. injectivity: a full path selects at most one occurrence -/

/-- the context `buildMessage … desc true _` builds for the root message -/
def rootCtx (root : MsgD) : MsgCtx := { desc := root, path := root.name }

theorem rootCtx_eq (root : MsgD) (path : String) : ctxOf root true path = rootCtx root := rfl

/-- decidable side condition: `q` holds for every declared field of the root and of every message of the request -/
def allFields (req : Request) (root : MsgD) (q : FieldD → Bool) : Bool :=
  (root :: reqMsgs req).all fun m => m.fields.all q

/-- no field name contains `'.'` -/
def NamesDotFree (req : Request) (root : MsgD) : Bool := allFields req root fun f => dotFree f.name
/-- no field is embedded -/
def NoEmbed (req : Request) (root : MsgD) : Bool := allFields req root fun f => !f.embed
/-- within each message the field names are pairwise distinct -/
def NamesDistinct (req : Request) (root : MsgD) : Bool := (root :: reqMsgs req).all fun m => namesDistinct m.fields

theorem allFields_spec {req : Request} {root : MsgD} {q : FieldD → Bool} (h : allFields req root q = true) :
    (∀ f ∈ root.fields, q f = true) ∧ (∀ m ∈ reqMsgs req, ∀ f ∈ m.fields, q f = true) := by
  simp only [allFields, List.all_cons, Bool.and_eq_true, List.all_eq_true] at h
  exact ⟨h.1, h.2⟩

/-- every field on a walk from the root, and every field of the message reached, satisfies a checked condition -/
theorem walk_allFields {req : Request} {root : MsgD} {q : FieldD → Bool} (h : allFields req root q = true)
    {fs : List FieldD} {c : MsgCtx} (hw : Walk req (rootCtx root) fs c) :
    (∀ f ∈ fs, q f = true) ∧ (∀ f ∈ c.desc.fields, q f = true) :=
  walk_all (fun f => q f = true) (allFields_spec h).2 hw (allFields_spec h).1

/-- **Paths are equal exactly when the segment sequences are** (field names dot-free; embedded fields allowed).
Two occurrences reached from the same root have the same `Keys.path` iff the names of the non-embedded fields on the two
ways (including the fields themselves) coincide. -/
theorem paths_eq_iff_segs_eq {req : Request} {root : MsgD} (hdf : NamesDotFree req root = true)
    {fs gs : List FieldD} {c c' : MsgCtx} {f g : FieldD}
    (h1 : Walk req (rootCtx root) fs c) (hf : f ∈ c.desc.fields)
    (h2 : Walk req (rootCtx root) gs c') (hg : g ∈ c'.desc.fields) :
    (keysOf c f).path = (keysOf c' g).path ↔ segs (fs ++ [f]) = segs (gs ++ [g]) := by
  rw [occurrence_path h1 f, occurrence_path h2 g]
  constructor
  · intro h
    have a1 := walk_allFields hdf h1
    have a2 := walk_allFields hdf h2
    have hs : ∀ (l : List FieldD), (∀ x ∈ l, dotFree x.name = true) → ∀ n ∈ segs l, dotFree n = true := by
      intro l hl n hn
      simp only [segs, List.mem_map, List.mem_filter] at hn
      obtain ⟨x, ⟨hx, _⟩, rfl⟩ := hn
      exact hl x hx
    refine pathOf_inj _ _ _ (hs _ ?_) (hs _ ?_) h
    · intro x hx
      rcases List.mem_append.mp hx with hx | hx
      · exact a1.1 x hx
      · rw [List.mem_singleton.mp hx]; exact a1.2 f hf
    · intro x hx
      rcases List.mem_append.mp hx with hx | hx
      · exact a2.1 x hx
      · rw [List.mem_singleton.mp hx]; exact a2.2 g hg
  · intro h; rw [h]

/-- **Different name sequences, different paths** (no embedded fields). -/
theorem different_names_different_paths {req : Request} {root : MsgD}
    (hdf : NamesDotFree req root = true) (hne : NoEmbed req root = true)
    {fs gs : List FieldD} {c c' : MsgCtx} {f g : FieldD}
    (h1 : Walk req (rootCtx root) fs c) (hf : f ∈ c.desc.fields)
    (h2 : Walk req (rootCtx root) gs c') (hg : g ∈ c'.desc.fields)
    (hdiff : (fs ++ [f]).map (·.name) ≠ (gs ++ [g]).map (·.name)) :
    (keysOf c f).path ≠ (keysOf c' g).path := by
  intro h
  have hs := (paths_eq_iff_segs_eq hdf h1 hf h2 hg).mp h
  have a1 := walk_allFields hne h1
  have a2 := walk_allFields hne h2
  have e1 : ∀ x ∈ fs ++ [f], x.embed = false := by
    intro x hx
    rcases List.mem_append.mp hx with hx | hx
    · simpa using a1.1 x hx
    · rw [List.mem_singleton.mp hx]; simpa using a1.2 f hf
  have e2 : ∀ x ∈ gs ++ [g], x.embed = false := by
    intro x hx
    rcases List.mem_append.mp hx with hx | hx
    · simpa using a2.1 x hx
    · rw [List.mem_singleton.mp hx]; simpa using a2.2 g hg
  rw [segs_noEmbed _ e1, segs_noEmbed _ e2] at hs
  exact hdiff hs

/-- **A full path selects at most one occurrence of the tree**: with dot-free, pairwise distinct field names and no
embedded fields, two occurrences reached from the same root that have the same `Keys.path` are the same occurrence - same
way from the root, same message context, same declared field. -/
theorem path_selects_at_most_one {req : Request} {root : MsgD}
    (hdf : NamesDotFree req root = true) (hne : NoEmbed req root = true) (hnd : NamesDistinct req root = true)
    {fs gs : List FieldD} {c c' : MsgCtx} {f g : FieldD}
    (h1 : Walk req (rootCtx root) fs c) (hf : f ∈ c.desc.fields)
    (h2 : Walk req (rootCtx root) gs c') (hg : g ∈ c'.desc.fields)
    (h : (keysOf c f).path = (keysOf c' g).path) : fs = gs ∧ c = c' ∧ f = g := by
  have hnames : (fs ++ [f]).map (·.name) = (gs ++ [g]).map (·.name) := by
    apply Classical.byContradiction
    intro hdiff
    exact different_names_different_paths hdf hne h1 hf h2 hg hdiff h
  simp only [List.map_append, List.map_cons, List.map_nil] at hnames
  obtain ⟨hn1, hn2⟩ := List.append_inj' hnames rfl
  simp only [List.cons.injEq, and_true] at hn2
  simp only [NamesDistinct, List.all_cons, Bool.and_eq_true, List.all_eq_true] at hnd
  obtain ⟨e1, e2⟩ := walk_unique hnd.2 h1 h2 hnd.1 hn1
  subst e1
  subst e2
  have hdist : namesDistinct c.desc.fields = true := by
    rcases walk_desc_mem h1 with hr | hr
    · rw [hr]; exact hnd.1
    · exact hnd.2 _ hr
  exact ⟨rfl, rfl, namesDistinct_inj _ hdist f hf g hg hn2⟩

/-- the `Message.field` key determines the message name and the field name (dot-free field names) -/
theorem typeName_key_inj (c c' : MsgCtx) (f g : FieldD) (hf : dotFree f.name = true) (hg : dotFree g.name = true)
    (h : (keysOf c f).typeName = (keysOf c' g).typeName) : c.desc.name = c'.desc.name ∧ f.name = g.name :=
  dot_split_unique _ _ _ _ hf hg h

/-! ## 3. one block -/


/-- the settings of a view that are not indexed by a field key -/
structure SameGlobals (V V' : CfgView) : Prop where
  injected : V.injected = V'.injected
  importOverride : V.importOverride = V'.importOverride
  defaultPackageName : V.defaultPackageName = V'.defaultPackageName
  durationCustomType : V.durationCustomType = V'.durationCustomType
  sort : V.sort = V'.sort
  timeType : V.timeType = V'.timeType
  durationType : V.durationType = V'.durationType

theorem getTerraformType_globals {V V' : CfgView} (hg : SameGlobals V V') (f : FieldD) (isMap isRep : Bool) (goType path : String) :
    getTerraformType V' f isMap isRep goType path = getTerraformType V f isMap isRep goType path := by
  have hr : rowMatches V' f isMap = rowMatches V f isMap := by
    funext r; simp only [rowMatches, hg.durationCustomType]
  unfold getTerraformType
  simp only [hr, hg.timeType, hg.durationType]

theorem goTypeOf_globals {V V' : CfgView} (hg : SameGlobals V V') (ctx : MsgCtx) (f : FieldD) :
    goTypeOf V' ctx f = goTypeOf V ctx f := by
  simp only [goTypeOf, hg.importOverride, hg.defaultPackageName]

theorem mapValueGoType_globals {V V' : CfgView} (hg : SameGlobals V V') (f : FieldD) :
    mapValueGoType V' f = mapValueGoType V f := by
  simp only [mapValueGoType, hg.importOverride, hg.defaultPackageName]

theorem msgStep_globals {V V' : CfgView} (hg : SameGlobals V V') (desc : MsgD) (isRoot : Bool) (path : String)
    (c : Except BuildError (List Field)) : msgStep V' desc isRoot path c = msgStep V desc isRoot path c := by
  simp only [msgStep, msgGoType, hg.sort, hg.injected, hg.defaultPackageName]

/-- **One block.** The result of `buildFieldCore` for one occurrence (the body `coreStep`, recursive calls abstracted) is the
same under two views that agree at the occurrence's own two keys, provided the nested results are the same. -/
theorem coreStep_congr {V V' : CfgView} (hg : SameGlobals V V') (req : Request) (ctx : MsgCtx) (f : FieldD) (keys : Keys)
    (goType : String) (isMap isRep hasComment : Bool) (h : AgreeAt V V' keys)
    (bm bm' : MsgD → Except BuildError Msg) (bv bv' : Except BuildError (List Field))
    (hbm : isMap = false → ∀ d, req.findMessage f.typeName = some d → bm' d = bm d) (hbv : isMap = true → bv' = bv) :
    coreStep V' req ctx f keys goType isMap isRep hasComment bm' bv' =
    coreStep V req ctx f keys goType isMap isRep hasComment bm bv := by
  obtain ⟨h1, h2, h3, h4⟩ := C11_local V V' f keys h
  have htf := getTerraformType_globals hg f isMap isRep goType keys.path
  unfold coreStep
  cases isMap with
  | false =>
    cases hfind : req.findMessage f.typeName with
    | none =>
      simp only [← h.excluded, ← h.computed, ← h.required, ← h.sensitive, ← h.validators, ← h1, ← h2, ← h3, ← h4, htf,
        ← hg.importOverride, ← hg.defaultPackageName, msgGoType, Bool.false_eq_true, if_false]
    | some d =>
      have := hbm rfl d hfind
      simp only [← h.excluded, ← h.computed, ← h.required, ← h.sensitive, ← h.validators, ← h1, ← h2, ← h3, ← h4, htf,
        ← hg.importOverride, ← hg.defaultPackageName, msgGoType, this, Bool.false_eq_true, if_false]
  | true =>
    have := hbv rfl
    subst this
    simp only [← h.excluded, ← h.computed, ← h.required, ← h.sensitive, ← h.validators, ← h1, ← h2, ← h3, ← h4, htf,
      ← hg.importOverride, ← hg.defaultPackageName, msgGoType, Bool.not_true, Bool.and_false, Bool.false_eq_true, if_false]

/-! ## 4. all keys of a tree; views that agree on them build the same IR -/

mutual
/-- the option keys of every field occurrence `buildMessage fuel` can visit below the message context `ctx`: every declared
field, and recursively the fields of the message its type name resolves to (whatever its proto type - an
over-approximation that does not depend on the configuration) -/
def ctxKeys : Nat → Request → MsgCtx → List Keys
  | 0, _, _ => []
  | n + 1, req, ctx => ctx.desc.fields.flatMap fun f => occKeys n req (keysOf ctx f) f.typeName (f.card == .map)
/-- the option keys `buildFieldCore fuel … keys … isMap …` can consult for a field with type name `tn`: its own keys, then
for a map field those of its value field (same keys, one unit of fuel less), otherwise those below the nested message
(built at path `keys.path`) -/
def occKeys : Nat → Request → Keys → String → Bool → List Keys
  | 0, _, _, _, _ => []
  | n + 1, req, keys, tn, isMap =>
    keys :: (if isMap then occKeys n req keys tn false
             else match req.findMessage tn with
              | none => []
              | some d => ctxKeys n req { desc := d, path := keys.path })
end

theorem ctxOf_false (d : MsgD) (p : String) : ctxOf d false p = { desc := d, path := p } := rfl
theorem ctxOf_true (d : MsgD) (p : String) : ctxOf d true p = { desc := d, path := d.name } := rfl

theorem mem_occKeys_self (n : Nat) (req : Request) (keys : Keys) (tn : String) (isMap : Bool) :
    keys ∈ occKeys (n + 1) req keys tn isMap := by
  rw [occKeys]; exact List.mem_cons_self

theorem mem_occKeys_nested {n : Nat} {req : Request} {keys : Keys} {tn : String} {d : MsgD} {k : Keys}
    (hfind : req.findMessage tn = some d) (hk : k ∈ ctxKeys n req { desc := d, path := keys.path }) :
    k ∈ occKeys (n + 1) req keys tn false := by
  rw [occKeys]
  simp only [hfind, Bool.false_eq_true, if_false]
  exact List.mem_cons_of_mem _ hk

theorem mem_occKeys_value {n : Nat} {req : Request} {keys : Keys} {tn : String} {k : Keys}
    (hk : k ∈ occKeys n req keys tn false) : k ∈ occKeys (n + 1) req keys tn true := by
  rw [occKeys]
  exact List.mem_cons_of_mem _ hk

theorem mem_ctxKeys {n : Nat} {req : Request} {ctx : MsgCtx} {f : FieldD} {k : Keys}
    (hf : f ∈ ctx.desc.fields) (hk : k ∈ occKeys n req (keysOf ctx f) f.typeName (f.card == .map)) :
    k ∈ ctxKeys (n + 1) req ctx := by
  rw [ctxKeys]
  exact List.mem_flatMap.mpr ⟨f, hf, hk⟩

/-- **Untouched unless addressed (view level).** Two views that agree on the key-independent settings and at the two keys
of every field occurrence of the tree build the same IR - same fields, same errors - for every fuel. -/
theorem build_congr {V V' : CfgView} (hg : SameGlobals V V') (req : Request) : ∀ n : Nat,
    (∀ desc isRoot path, (∀ k ∈ ctxKeys n req (ctxOf desc isRoot path), AgreeAt V V' k) →
        buildMessage n V' req desc isRoot path = buildMessage n V req desc isRoot path) ∧
    (∀ ctx f keys goType isMap isRep hasComment, (∀ k ∈ occKeys n req keys f.typeName isMap, AgreeAt V V' k) →
        buildFieldCore n V' req ctx f keys goType isMap isRep hasComment =
        buildFieldCore n V req ctx f keys goType isMap isRep hasComment) := by
  intro n
  induction n with
  | zero =>
    constructor
    · intro desc isRoot path _; rw [buildMessage_zero, buildMessage_zero]
    · intro ctx f keys goType isMap isRep hc _; rw [buildFieldCore_zero, buildFieldCore_zero]
  | succ n ih =>
    obtain ⟨ihM, ihF⟩ := ih
    constructor
    · intro desc isRoot path hk
      rw [buildMessage_succ, buildMessage_succ, msgStep_globals hg]
      congr 1
      congr 1
      apply List.map_congr_left
      intro f hf
      simp only [fieldCall]
      rw [goTypeOf_globals hg]
      exact ihF _ f _ _ _ _ _ (fun k hk' => hk k (mem_ctxKeys hf hk'))
    · intro ctx f keys goType isMap isRep hc hk
      rw [buildFieldCore_succ, buildFieldCore_succ]
      refine coreStep_congr hg req ctx f keys goType isMap isRep hc (hk _ (mem_occKeys_self ..)) _ _ _ _ ?_ ?_
      · intro hm d hfind
        subst hm
        exact ihM d false keys.path (fun k hk' => hk k (mem_occKeys_nested hfind hk'))
      · intro hm
        subst hm
        rw [mapValueGoType_globals hg]
        exact ihF ctx f.mapValueField keys _ false false false (fun k hk' => hk k (mem_occKeys_value hk'))


/-! ## 4b. the enumerated keys are keys of occurrences; a path addresses at most one of them -/

/-- every enumerated key is the key pair of an occurrence reached by a walk -/
theorem keys_sound (req : Request) : ∀ n : Nat,
    (∀ c k, k ∈ ctxKeys n req c → ∃ fs c' f, Walk req c fs c' ∧ f ∈ c'.desc.fields ∧ k = keysOf c' f) ∧
    (∀ c f b k, f ∈ c.desc.fields → k ∈ occKeys n req (keysOf c f) f.typeName b →
        ∃ fs c' f', Walk req c fs c' ∧ f' ∈ c'.desc.fields ∧ k = keysOf c' f') := by
  intro n
  induction n with
  | zero =>
    constructor
    · intro c k hk; rw [ctxKeys] at hk; cases hk
    · intro c f b k _ hk; rw [occKeys] at hk; cases hk
  | succ n ih =>
    obtain ⟨ihC, ihF⟩ := ih
    constructor
    · intro c k hk
      rw [ctxKeys] at hk
      obtain ⟨f, hf, hk⟩ := List.mem_flatMap.mp hk
      exact ihF c f _ k hf hk
    · intro c f b k hf hk
      rw [occKeys] at hk
      rcases List.mem_cons.mp hk with rfl | hk
      · exact ⟨[], c, f, .nil c, hf, rfl⟩
      · cases b with
        | true =>
          simp only [if_true] at hk
          exact ihF c f false k hf hk
        | false =>
          simp only [Bool.false_eq_true, if_false] at hk
          cases hfind : req.findMessage f.typeName with
          | none => simp only [hfind] at hk; cases hk
          | some d =>
            simp only [hfind] at hk
            obtain ⟨fs, c', f', hw, hf', rfl⟩ := ihC _ k hk
            exact ⟨f :: fs, c', f', .cons hf hfind hw, hf', rfl⟩

/-- **An option entry keyed by a full path addresses at most one occurrence of the tree**: two enumerated occurrences of
the tree below the root with the same path have the same key pair (they are the same occurrence, `path_selects_at_most_one`). -/
theorem path_addresses_at_most_one {req : Request} {root : MsgD}
    (hdf : NamesDotFree req root = true) (hne : NoEmbed req root = true) (hnd : NamesDistinct req root = true)
    (n : Nat) (k1 k2 : Keys) (h1 : k1 ∈ ctxKeys n req (rootCtx root)) (h2 : k2 ∈ ctxKeys n req (rootCtx root))
    (h : k1.path = k2.path) : k1 = k2 := by
  obtain ⟨fs, c, f, hw, hf, rfl⟩ := (keys_sound req n).1 _ k1 h1
  obtain ⟨gs, c', g, hw', hg, rfl⟩ := (keys_sound req n).1 _ k2 h2
  obtain ⟨_, e2, e3⟩ := path_selects_at_most_one hdf hne hnd hw hf hw' hg h
  rw [e2, e3]

/-- every enumerated path obeys the path formula -/
theorem enumerated_path_formula (req : Request) (root : MsgD) (n : Nat) (k : Keys) (hk : k ∈ ctxKeys n req (rootCtx root)) :
    ∃ fs c f, Walk req (rootCtx root) fs c ∧ f ∈ c.desc.fields ∧
      k.path = pathOf root.name (segs (fs ++ [f])) ∧ k.typeName = c.desc.name ++ "." ++ f.name := by
  obtain ⟨fs, c, f, hw, hf, rfl⟩ := (keys_sound req n).1 _ k hk
  exact ⟨fs, c, f, hw, hf, occurrence_path hw f, rfl⟩

/-- the occurrence with keys `k` is addressed by the option key `p` (by its path or by `Message.field`) -/
def keyed (p : String) (k : Keys) : Bool := k.path == p || k.typeName == p

theorem keyed_false_iff (p : String) (k : Keys) : keyed p k = false ↔ k.path ≠ p ∧ k.typeName ≠ p := by
  simp [keyed]

/-- no key of the list is addressed by `p` -/
def keyFree (p : String) (ks : List Keys) : Bool := ks.all fun k => !keyed p k

theorem keyFree_mem {p : String} {ks : List Keys} (h : keyFree p ks = true) {k : Keys} (hk : k ∈ ks) :
    k.path ≠ p ∧ k.typeName ≠ p := by
  simp only [keyFree, List.all_eq_true] at h
  have := h k hk
  exact (keyed_false_iff p k).mp (by simpa using this)

theorem lookupKeys_flag : lookupKeyExprs "GetFlagValue" = ["c.GetNameWithTypeName()", "c.GetPath()"] := by decide

/-- `GetFlagValue` spelled out: membership of `Message.field` or of the path -/
theorem flagValue_eq (set : List String) (k : Keys) :
    flagValue set k = (set.contains k.typeName || set.contains k.path) := by
  simp [flagValue, lookupKeys_flag, Keys.eval]

/-- the exact effect of one more entry in a flag set: the occurrences addressed by `p` get the flag, nothing else changes -/
theorem flagValue_cons (p : String) (set : List String) (k : Keys) :
    flagValue (p :: set) k = (keyed p k || flagValue set k) := by
  simp only [flagValue_eq, keyed, List.contains_cons]
  cases (k.path == p) <;> cases (k.typeName == p) <;> cases (List.contains set k.typeName) <;> simp

theorem flagValue_off (p : String) (s s' : List String) (hs : ∀ key, key ≠ p → s'.contains key = s.contains key)
    (k : Keys) (h1 : k.path ≠ p) (h2 : k.typeName ≠ p) : flagValue s k = flagValue s' k := by
  rw [flagValue_eq, flagValue_eq, hs _ h1, hs _ h2]

theorem firstLookup_off {α} (fn : String) (p : String) (m m' : List (String × α))
    (hm : ∀ key, key ≠ p → m'.lookup key = m.lookup key)
    (k : Keys) (h1 : k.path ≠ p) (h2 : k.typeName ≠ p) : firstLookup fn m k = firstLookup fn m' k := by
  unfold firstLookup
  congr 1
  funext e
  cases he : k.eval e with
  | none => rfl
  | some key' =>
    have hne : key' ≠ p := by
      unfold Keys.eval at he
      split at he
      · injection he with he; subst he; exact h1
      · split at he
        · injection he with he; subst he; exact h2
        · simp at he
    exact (hm key' hne).symm

/-- `cfg'` differs from `cfg` at most in the entries stored under the option key `p` (added, removed or changed, in any of
the four flag sets and the four option maps); `types` and `targetPackageName` are not constrained (the front end does not
read them through `viewOf`) -/
structure DiffersOnlyAt (p : String) (cfg cfg' : Config) : Prop where
  excludeFields : ∀ key, key ≠ p → cfg'.excludeFields.contains key = cfg.excludeFields.contains key
  computedFields : ∀ key, key ≠ p → cfg'.computedFields.contains key = cfg.computedFields.contains key
  requiredFields : ∀ key, key ≠ p → cfg'.requiredFields.contains key = cfg.requiredFields.contains key
  sensitiveFields : ∀ key, key ≠ p → cfg'.sensitiveFields.contains key = cfg.sensitiveFields.contains key
  nameOverrides : ∀ key, key ≠ p → cfg'.nameOverrides.lookup key = cfg.nameOverrides.lookup key
  validators : ∀ key, key ≠ p → cfg'.validators.lookup key = cfg.validators.lookup key
  planModifiers : ∀ key, key ≠ p → cfg'.planModifiers.lookup key = cfg.planModifiers.lookup key
  customTypes : ∀ key, key ≠ p → cfg'.customTypes.lookup key = cfg.customTypes.lookup key
  suffixes : cfg'.suffixes = cfg.suffixes
  injectedFields : cfg'.injectedFields = cfg.injectedFields
  importPathOverrides : cfg'.importPathOverrides = cfg.importPathOverrides
  defaultPackageName : cfg'.defaultPackageName = cfg.defaultPackageName
  durationCustomType : cfg'.durationCustomType = cfg.durationCustomType
  sort : cfg'.sort = cfg.sort
  useStateForUnknownByDefault : cfg'.useStateForUnknownByDefault = cfg.useStateForUnknownByDefault
  timeType : cfg'.timeType = cfg.timeType
  durationType : cfg'.durationType = cfg.durationType

theorem DiffersOnlyAt.refl (p : String) (cfg : Config) : DiffersOnlyAt p cfg cfg := by
  constructor <;> intros <;> rfl

theorem viewOf_globals {p : String} {cfg cfg' : Config} (h : DiffersOnlyAt p cfg cfg') :
    SameGlobals (viewOf cfg) (viewOf cfg') := by
  constructor <;>
    simp [viewOf, h.injectedFields, h.importPathOverrides, h.defaultPackageName, h.durationCustomType, h.sort,
      h.timeType, h.durationType]

theorem viewOf_agree {p : String} {cfg cfg' : Config} (h : DiffersOnlyAt p cfg cfg') (k : Keys)
    (h1 : k.path ≠ p) (h2 : k.typeName ≠ p) : AgreeAt (viewOf cfg) (viewOf cfg') k where
  excluded := flagValue_off p _ _ h.excludeFields k h1 h2
  computed := flagValue_off p _ _ h.computedFields k h1 h2
  required := flagValue_off p _ _ h.requiredFields k h1 h2
  sensitive := flagValue_off p _ _ h.sensitiveFields k h1 h2
  nameOverride := firstLookup_off _ p _ _ h.nameOverrides k h1 h2
  validators := firstLookup_off _ p _ _ h.validators k h1 h2
  planModifiers := firstLookup_off _ p _ _ h.planModifiers k h1 h2
  customType := firstLookup_off _ p _ _ h.customTypes k h1 h2
  switch := h.useStateForUnknownByDefault.symm
  suffix := by simp [viewOf, h.suffixes]

theorem contains_cons_ne (p : String) (s : List String) (key : String) (h : key ≠ p) :
    (p :: s).contains key = s.contains key := by
  simp [h]

theorem lookup_cons_ne {α} (p : String) (v : α) (m : List (String × α)) (key : String) (h : key ≠ p) :
    ((p, v) :: m).lookup key = m.lookup key := by
  have : (key == p) = false := by simpa using h
  simp [List.lookup, this]

theorem differs_exclude (cfg : Config) (p : String) :
    DiffersOnlyAt p cfg { cfg with excludeFields := p :: cfg.excludeFields } :=
  { DiffersOnlyAt.refl p cfg with excludeFields := contains_cons_ne p _ }
theorem differs_computed (cfg : Config) (p : String) :
    DiffersOnlyAt p cfg { cfg with computedFields := p :: cfg.computedFields } :=
  { DiffersOnlyAt.refl p cfg with computedFields := contains_cons_ne p _ }
theorem differs_required (cfg : Config) (p : String) :
    DiffersOnlyAt p cfg { cfg with requiredFields := p :: cfg.requiredFields } :=
  { DiffersOnlyAt.refl p cfg with requiredFields := contains_cons_ne p _ }
theorem differs_sensitive (cfg : Config) (p : String) :
    DiffersOnlyAt p cfg { cfg with sensitiveFields := p :: cfg.sensitiveFields } :=
  { DiffersOnlyAt.refl p cfg with sensitiveFields := contains_cons_ne p _ }
theorem differs_nameOverride (cfg : Config) (p v : String) :
    DiffersOnlyAt p cfg { cfg with nameOverrides := (p, v) :: cfg.nameOverrides } :=
  { DiffersOnlyAt.refl p cfg with nameOverrides := lookup_cons_ne p v _ }
theorem differs_validators (cfg : Config) (p : String) (v : List String) :
    DiffersOnlyAt p cfg { cfg with validators := (p, v) :: cfg.validators } :=
  { DiffersOnlyAt.refl p cfg with validators := lookup_cons_ne p v _ }
theorem differs_planModifiers (cfg : Config) (p : String) (v : List String) :
    DiffersOnlyAt p cfg { cfg with planModifiers := (p, v) :: cfg.planModifiers } :=
  { DiffersOnlyAt.refl p cfg with planModifiers := lookup_cons_ne p v _ }
theorem differs_customType (cfg : Config) (p v : String) :
    DiffersOnlyAt p cfg { cfg with customTypes := (p, v) :: cfg.customTypes } :=
  { DiffersOnlyAt.refl p cfg with customTypes := lookup_cons_ne p v _ }

/-- adding `p` to `exclude_fields` has exactly this effect on the view: the exclusion test additionally answers `true` for
the occurrences addressed by `p`; every other lookup of every occurrence is literally unchanged -/
theorem viewOf_exclude_cons (cfg : Config) (p : String) :
    viewOf { cfg with excludeFields := p :: cfg.excludeFields } =
    { viewOf cfg with excluded := fun k => keyed p k || (viewOf cfg).excluded k } := by
  simp only [viewOf]
  congr 1
  funext k
  exact flagValue_cons p _ k



theorem collect_nil_cons {ε α} (rest : List (Except ε (List α))) : collectFields (.ok [] :: rest) = collectFields rest := by
  simp only [collectFields]
  cases collectFields rest <;> simp

/-- blocks `.ok []` contribute nothing to the loop of `BuildFields` -/
theorem collect_filter {ε α β} (g g' : β → Except ε (List α)) (q : β → Bool) : ∀ (l : List β),
    (∀ x ∈ l, q x = false → g' x = .ok []) → (∀ x ∈ l, q x = true → g' x = g x) →
    collectFields (l.map g') = collectFields ((l.filter q).map g)
  | [], _, _ => rfl
  | x :: l, h0, h1 => by
    have ih := collect_filter g g' q l (fun y hy => h0 y (List.mem_cons_of_mem _ hy)) (fun y hy => h1 y (List.mem_cons_of_mem _ hy))
    cases hq : q x with
    | false =>
      rw [List.map_cons, h0 x List.mem_cons_self hq, collect_nil_cons, ih, List.filter_cons_of_neg (by simp [hq])]
    | true =>
      rw [List.map_cons, h1 x List.mem_cons_self hq, List.filter_cons_of_pos hq, List.map_cons]
      cases hx : g x with
      | error e => simp [collectFields]
      | ok fs => simp only [collectFields, ih]

/-- a built message records the context path -/
theorem built_msg_path (n : Nat) (V : CfgView) (req : Request) (desc : MsgD) (isRoot : Bool) (path : String) (m : Msg)
    (h : buildMessage (n + 1) V req desc isRoot path = .ok m) :
    m.info.path = (ctxOf desc isRoot path).path ∧ m.info.name = desc.name := by
  rw [buildMessage_succ] at h
  unfold msgStep at h
  simp only at h
  split at h
  · cases h
  · injection h with h; subst h; exact ⟨rfl, rfl⟩

/-- the IR node of a non-embedded field occurrence records the occurrence's `Keys.path` -/
theorem coreStep_path (V : CfgView) (req : Request) (ctx : MsgCtx) (f : FieldD) (keys : Keys)
    (goType : String) (isMap isRep hasComment : Bool)
    (bm : MsgD → Except BuildError Msg) (bv : Except BuildError (List Field)) (r : List Field)
    (hemb : f.embed = false)
    (h : coreStep V req ctx f keys goType isMap isRep hasComment bm bv = .ok r) :
    ∀ x ∈ r, x.info.path = keys.path := by
  unfold coreStep at h
  cases hex : V.excluded keys with
  | true =>
    simp only [hex] at h
    injection h with h; subst h; intro x hx; cases hx
  | false =>
    cases htf : getTerraformType V f isMap isRep goType keys.path with
    | error e => simp only [hex, htf] at h; cases h
    | ok tf =>
      simp only [hex, htf, hemb, Bool.and_false, Bool.false_eq_true, if_false] at h
      split at h
      · cases h
      · rename_i nestedMsg hn
        clear hn
        split at h
        · cases h
        · rename_i info mapV hmapped
          injection h with h
          subst h
          intro x hx
          simp only [List.mem_singleton] at hx
          subst hx
          show info.path = keys.path
          cases isMap with
          | false =>
            simp only [Bool.false_eq_true, if_false] at hmapped
            injection hmapped with hmapped
            injection hmapped with h1 h2
            subst h1
            cases isRep <;> rfl
          | true =>
            simp only [if_true] at hmapped
            split at hmapped
            · cases hmapped
            · split at hmapped
              · cases hmapped
              · cases hmapped
              · injection hmapped with hmapped
                injection hmapped with h1 h2
                subst h1
                cases isRep <;> rfl


/-! ## 5. untouched unless addressed (configuration level) -/

/-- **Main theorem (C11): untouched unless addressed.** If `cfg'` differs from `cfg` only in entries stored under the option
key `p` - in `exclude_fields`, `computed_fields`, `required_fields`, `sensitive_fields`, `name_overrides`, `validators`,
`plan_modifiers`, `custom_types`, by adding, removing or changing them - and no field occurrence of the tree below
`desc` is addressed by `p` (neither by its path nor by `Message.field`; decidable, `keyFree`), then the two
configurations build the same IR: same nodes, same options, same errors, for every fuel. -/
theorem untouched_unless_addressed (p : String) (cfg cfg' : Config) (hd : DiffersOnlyAt p cfg cfg')
    (req : Request) (fuel : Nat) (desc : MsgD) (isRoot : Bool) (path : String)
    (hfree : keyFree p (ctxKeys fuel req (ctxOf desc isRoot path)) = true) :
    buildMessage fuel (viewOf cfg') req desc isRoot path = buildMessage fuel (viewOf cfg) req desc isRoot path :=
  (build_congr (viewOf_globals hd) req fuel).1 desc isRoot path fun k hk =>
    viewOf_agree hd k (keyFree_mem hfree hk).1 (keyFree_mem hfree hk).2

/-- the same for the subtree below one field occurrence (any depth, any context): an occurrence that is not addressed and
has no addressed occurrence below it is built identically -/
theorem untouched_unless_addressed_field (p : String) (cfg cfg' : Config) (hd : DiffersOnlyAt p cfg cfg')
    (req : Request) (fuel : Nat) (ctx : MsgCtx) (f : FieldD) (keys : Keys) (goType : String) (isMap isRep hasComment : Bool)
    (hfree : keyFree p (occKeys fuel req keys f.typeName isMap) = true) :
    buildFieldCore fuel (viewOf cfg') req ctx f keys goType isMap isRep hasComment =
    buildFieldCore fuel (viewOf cfg) req ctx f keys goType isMap isRep hasComment :=
  (build_congr (viewOf_globals hd) req fuel).2 ctx f keys goType isMap isRep hasComment fun k hk =>
    viewOf_agree hd k (keyFree_mem hfree hk).1 (keyFree_mem hfree hk).2

/-- … and for a selected root type, with the fuel the generator model uses -/
theorem untouched_unless_addressed_root (p : String) (cfg cfg' : Config) (hd : DiffersOnlyAt p cfg cfg')
    (htypes : cfg'.types = cfg.types) (req : Request) (desc : MsgD)
    (hfree : keyFree p (ctxKeys (defaultFuel req) req (rootCtx desc)) = true) :
    buildRoot cfg' req desc = buildRoot cfg req desc := by
  unfold buildRoot
  rw [htypes, untouched_unless_addressed p cfg cfg' hd req (defaultFuel req) desc true "" hfree]

/-- **Surgical exclusion**: one more entry `p` in `exclude_fields` leaves every tree without an occurrence addressed by `p`
untouched -/
theorem exclusion_untouched (cfg : Config) (p : String) (req : Request) (fuel : Nat) (desc : MsgD) (isRoot : Bool)
    (path : String) (hfree : keyFree p (ctxKeys fuel req (ctxOf desc isRoot path)) = true) :
    buildMessage fuel (viewOf { cfg with excludeFields := p :: cfg.excludeFields }) req desc isRoot path =
    buildMessage fuel (viewOf cfg) req desc isRoot path :=
  untouched_unless_addressed p cfg _ (differs_exclude cfg p) req fuel desc isRoot path hfree

theorem computed_untouched (cfg : Config) (p : String) (req : Request) (fuel : Nat) (desc : MsgD) (isRoot : Bool)
    (path : String) (hfree : keyFree p (ctxKeys fuel req (ctxOf desc isRoot path)) = true) :
    buildMessage fuel (viewOf { cfg with computedFields := p :: cfg.computedFields }) req desc isRoot path =
    buildMessage fuel (viewOf cfg) req desc isRoot path :=
  untouched_unless_addressed p cfg _ (differs_computed cfg p) req fuel desc isRoot path hfree

theorem required_untouched (cfg : Config) (p : String) (req : Request) (fuel : Nat) (desc : MsgD) (isRoot : Bool)
    (path : String) (hfree : keyFree p (ctxKeys fuel req (ctxOf desc isRoot path)) = true) :
    buildMessage fuel (viewOf { cfg with requiredFields := p :: cfg.requiredFields }) req desc isRoot path =
    buildMessage fuel (viewOf cfg) req desc isRoot path :=
  untouched_unless_addressed p cfg _ (differs_required cfg p) req fuel desc isRoot path hfree

theorem sensitive_untouched (cfg : Config) (p : String) (req : Request) (fuel : Nat) (desc : MsgD) (isRoot : Bool)
    (path : String) (hfree : keyFree p (ctxKeys fuel req (ctxOf desc isRoot path)) = true) :
    buildMessage fuel (viewOf { cfg with sensitiveFields := p :: cfg.sensitiveFields }) req desc isRoot path =
    buildMessage fuel (viewOf cfg) req desc isRoot path :=
  untouched_unless_addressed p cfg _ (differs_sensitive cfg p) req fuel desc isRoot path hfree

theorem nameOverride_untouched (cfg : Config) (p v : String) (req : Request) (fuel : Nat) (desc : MsgD) (isRoot : Bool)
    (path : String) (hfree : keyFree p (ctxKeys fuel req (ctxOf desc isRoot path)) = true) :
    buildMessage fuel (viewOf { cfg with nameOverrides := (p, v) :: cfg.nameOverrides }) req desc isRoot path =
    buildMessage fuel (viewOf cfg) req desc isRoot path :=
  untouched_unless_addressed p cfg _ (differs_nameOverride cfg p v) req fuel desc isRoot path hfree

theorem validators_untouched (cfg : Config) (p : String) (v : List String) (req : Request) (fuel : Nat) (desc : MsgD)
    (isRoot : Bool) (path : String) (hfree : keyFree p (ctxKeys fuel req (ctxOf desc isRoot path)) = true) :
    buildMessage fuel (viewOf { cfg with validators := (p, v) :: cfg.validators }) req desc isRoot path =
    buildMessage fuel (viewOf cfg) req desc isRoot path :=
  untouched_unless_addressed p cfg _ (differs_validators cfg p v) req fuel desc isRoot path hfree

theorem planModifiers_untouched (cfg : Config) (p : String) (v : List String) (req : Request) (fuel : Nat) (desc : MsgD)
    (isRoot : Bool) (path : String) (hfree : keyFree p (ctxKeys fuel req (ctxOf desc isRoot path)) = true) :
    buildMessage fuel (viewOf { cfg with planModifiers := (p, v) :: cfg.planModifiers }) req desc isRoot path =
    buildMessage fuel (viewOf cfg) req desc isRoot path :=
  untouched_unless_addressed p cfg _ (differs_planModifiers cfg p v) req fuel desc isRoot path hfree

theorem customType_untouched (cfg : Config) (p v : String) (req : Request) (fuel : Nat) (desc : MsgD) (isRoot : Bool)
    (path : String) (hfree : keyFree p (ctxKeys fuel req (ctxOf desc isRoot path)) = true) :
    buildMessage fuel (viewOf { cfg with customTypes := (p, v) :: cfg.customTypes }) req desc isRoot path =
    buildMessage fuel (viewOf cfg) req desc isRoot path :=
  untouched_unless_addressed p cfg _ (differs_customType cfg p v) req fuel desc isRoot path hfree

/-! ## 6. the message that contains addressed fields: exactly their blocks are cut out -/

/-- **Surgical exclusion, one level (view level).** `V'` excludes the occurrences addressed by `p` and agrees with `V`
elsewhere. For a message whose un-addressed declared fields have no addressed occurrence below them, building under `V'`
is building under `V` with the addressed declared fields skipped in the loop of `BuildFields` - the blocks of all other
fields (all their nodes, options and errors) are those of `V`. -/
theorem exclusion_surgical_message {V V' : CfgView} (hg : SameGlobals V V') (p : String)
    (hoff : ∀ k, keyed p k = false → AgreeAt V V' k) (hon : ∀ k, keyed p k = true → V'.excluded k = true)
    (req : Request) (n : Nat) (desc : MsgD) (isRoot : Bool) (path : String)
    (hfree : ∀ f ∈ desc.fields, keyed p (keysOf (ctxOf desc isRoot path) f) = false →
      keyFree p (occKeys (n + 1) req (keysOf (ctxOf desc isRoot path) f) f.typeName (f.card == .map)) = true) :
    buildMessage (n + 2) V' req desc isRoot path =
      msgStep V desc isRoot path
        (collectFields ((desc.fields.filter fun f => !keyed p (keysOf (ctxOf desc isRoot path) f)).map
          fun f => fieldCall (n + 1) V req (ctxOf desc isRoot path) f)) := by
  rw [buildMessage_succ, msgStep_globals hg]
  congr 1
  apply collect_filter
  · intro f _ hq
    have hk : keyed p (keysOf (ctxOf desc isRoot path) f) = true := by simpa using hq
    exact excluded_field_ok n V' req _ f _ _ _ _ _ (hon _ hk)
  · intro f hf hq
    have hk : keyed p (keysOf (ctxOf desc isRoot path) f) = false := by simpa using hq
    simp only [fieldCall]
    rw [goTypeOf_globals hg]
    refine (build_congr hg req (n + 1)).2 _ f _ _ _ _ _ fun k hk' => ?_
    exact hoff k ((keyed_false_iff p k).mpr (keyFree_mem (hfree f hf hk) hk'))

/-- **Surgical exclusion, one level (configuration level)**: `cfg'` = `cfg` plus `p` in `exclude_fields`. -/
theorem exclusion_surgical (cfg : Config) (p : String) (req : Request) (n : Nat) (desc : MsgD) (isRoot : Bool) (path : String)
    (hfree : ∀ f ∈ desc.fields, keyed p (keysOf (ctxOf desc isRoot path) f) = false →
      keyFree p (occKeys (n + 1) req (keysOf (ctxOf desc isRoot path) f) f.typeName (f.card == .map)) = true) :
    buildMessage (n + 2) (viewOf { cfg with excludeFields := p :: cfg.excludeFields }) req desc isRoot path =
      msgStep (viewOf cfg) desc isRoot path
        (collectFields ((desc.fields.filter fun f => !keyed p (keysOf (ctxOf desc isRoot path) f)).map
          fun f => fieldCall (n + 1) (viewOf cfg) req (ctxOf desc isRoot path) f)) := by
  refine exclusion_surgical_message (viewOf_globals (differs_exclude cfg p)) p ?_ ?_ req n desc isRoot path hfree
  · intro k hk
    obtain ⟨h1, h2⟩ := (keyed_false_iff p k).mp hk
    exact viewOf_agree (differs_exclude cfg p) k h1 h2
  · intro k hk
    show flagValue (p :: cfg.excludeFields) k = true
    rw [flagValue_cons, hk]; rfl

/-- decidable form of the hypothesis of `exclusion_surgical` -/
def surgicalOk (p : String) (req : Request) (n : Nat) (ctx : MsgCtx) : Bool :=
  ctx.desc.fields.all fun f => keyed p (keysOf ctx f) || keyFree p (occKeys (n + 1) req (keysOf ctx f) f.typeName (f.card == .map))

theorem surgicalOk_spec {p : String} {req : Request} {n : Nat} {ctx : MsgCtx} (h : surgicalOk p req n ctx = true) :
    ∀ f ∈ ctx.desc.fields, keyed p (keysOf ctx f) = false →
      keyFree p (occKeys (n + 1) req (keysOf ctx f) f.typeName (f.card == .map)) = true := by
  intro f hf hk
  simp only [surgicalOk, List.all_eq_true, Bool.or_eq_true] at h
  rcases h f hf with h | h
  · rw [hk] at h; cases h
  · exact h

/-! ## 7. the IR records the keys' path -/

theorem built_field_path (n : Nat) (V : CfgView) (req : Request) (ctx : MsgCtx) (f : FieldD) (keys : Keys)
    (goType : String) (isMap isRep hasComment : Bool) (r : List Field) (hemb : f.embed = false)
    (h : buildFieldCore (n + 1) V req ctx f keys goType isMap isRep hasComment = .ok r) :
    ∀ x ∈ r, x.info.path = keys.path := by
  rw [buildFieldCore_succ] at h
  exact coreStep_path V req ctx f keys goType isMap isRep hasComment _ _ r hemb h

/-- the IR nodes of a declared, non-embedded field `f` of a message at path `P` carry the path `P ++ "." ++ f.name` -/
theorem declared_field_path (n : Nat) (V : CfgView) (req : Request) (ctx : MsgCtx) (f : FieldD) (r : List Field)
    (hemb : f.embed = false) (h : fieldCall (n + 1) V req ctx f = .ok r) :
    ∀ x ∈ r, x.info.path = ctx.path ++ "." ++ f.name := by
  intro x hx
  rw [built_field_path n V req ctx f _ _ _ _ _ r hemb h x hx, keysOf_path_plain ctx f hemb]

/-! ## 8. what is NOT proved: pruning the IR at every depth

The sharpest conceivable form of "surgical" would compare the two IRs node by node at every depth: *the IR built with `p`
excluded is the IR built without, with the nodes of the occurrences addressed by `p` removed*. The IR does not carry
enough information to state this in general, and in general it is false:
* `FieldInfo` stores `path` but not the `Message.field` key, and `p` addresses occurrences through either key;
* an embedded field leaves no node of its own (its children are spliced into the parent, and its `Keys.path` is the
  parent's path), so "the nodes of the occurrence" cannot be read off the IR;
* the build WITHOUT the exclusion may fail inside the excluded subtree while the build with it succeeds
  (`BuildErrors.exclusion_restores_message`), so the statement needs the hypothesis that the first build succeeds;
* `MsgInfo.oneOfNames` of the enclosing message is recomputed from the surviving fields.
What is proved instead: everything outside the addressed occurrences' ancestors is literally equal
(`untouched_unless_addressed`, `untouched_unless_addressed_field`), the message containing addressed declared fields loses
exactly their blocks (`exclusion_surgical`), and at the level of views the changed configuration is exactly
"exclusion test `||` addressed-by-`p`" at every depth (`viewOf_exclude_cons`).
The statement below (path-addressed only, no embedded fields, successful first build) is kept for reference; it is
neither proved nor used. -/

mutual
/-- remove the nodes whose recorded path is `p`, at every depth -/
def pruneField (p : String) : Field → Field
  | ⟨info, mapVal, msg, sub⟩ => ⟨info, mapVal, msg, pruneFields p sub⟩
def pruneFields (p : String) : List Field → List Field
  | [] => []
  | f :: fs => if f.info.path == p then pruneFields p fs else pruneField p f :: pruneFields p fs
end

/-- OPEN (not proved, not used): full-depth pruning for a path key `p` that is not the `Message.field` key of any
occurrence, in a tree without embedded fields, when the build without the exclusion succeeds. Even in this form it may need
further side conditions (oneof indices in range so that `oneOfNames` is unaffected; `p` not the path `….active` of a
placeholder node). -/
def exclusion_prunes_full : Prop :=
  ∀ (cfg : Config) (p : String) (req : Request) (fuel : Nat) (desc : MsgD) (m : Msg),
    NoEmbed req desc = true →
    (∀ k ∈ ctxKeys fuel req (rootCtx desc), k.typeName ≠ p) →
    buildMessage fuel (viewOf cfg) req desc true "" = .ok m →
    buildMessage fuel (viewOf { cfg with excludeFields := p :: cfg.excludeFields }) req desc true "" =
      .ok { m with fields := pruneFields p m.fields }

/-! ## 9. the side conditions hold for a concrete descriptor (`A.b : B`, `B.s : string`, `B.c : repeated C`, `C.t`) -/

namespace Example
open PGT.Proofs.BuildErrors.Witness

example : NamesDotFree req0 msgA = true := by decide
example : NoEmbed req0 msgA = true := by decide
example : NamesDistinct req0 msgA = true := by decide

/-- the keys of the tree below `A`, as enumerated with the generator's fuel -/
example : (ctxKeys (defaultFuel req0) req0 (rootCtx msgA)).map (·.path) = ["A.b", "A.b.s", "A.b.c", "A.b.c.t"] := by decide
example : (ctxKeys (defaultFuel req0) req0 (rootCtx msgA)).map (·.typeName) = ["A.b", "B.s", "B.c", "C.t"] := by decide

/-- an option entry under a key that addresses nothing below `A` -/
example : keyFree "D.x" (ctxKeys (defaultFuel req0) req0 (rootCtx msgA)) = true := by decide

/-- hence, e.g., excluding `D.x` leaves the build of `A` untouched -/
example (cfg : Config) :
    buildMessage (defaultFuel req0) (viewOf { cfg with excludeFields := "D.x" :: cfg.excludeFields }) req0 msgA true "" =
    buildMessage (defaultFuel req0) (viewOf cfg) req0 msgA true "" :=
  exclusion_untouched cfg "D.x" req0 (defaultFuel req0) msgA true "" (by decide)

/-- excluding `A.b.s` (or `B.s`) is surgical in the message `B` at path `A.b`: the hypothesis of `exclusion_surgical` -/
example : surgicalOk "A.b.s" req0 5 (ctxOf msgB false "A.b") = true := by decide
example : surgicalOk "B.s" req0 5 (ctxOf msgB false "A.b") = true := by decide

/-- … so the build of `B` at `A.b` with `A.b.s` excluded is the build of `B` with the declared field `s` skipped -/
example (cfg : Config) :
    buildMessage 7 (viewOf { cfg with excludeFields := "A.b.s" :: cfg.excludeFields }) req0 msgB false "A.b" =
      msgStep (viewOf cfg) msgB false "A.b"
        (collectFields ((msgB.fields.filter fun f => !keyed "A.b.s" (keysOf (ctxOf msgB false "A.b") f)).map
          fun f => fieldCall 6 (viewOf cfg) req0 (ctxOf msgB false "A.b") f)) :=
  exclusion_surgical cfg "A.b.s" req0 5 msgB false "A.b" (surgicalOk_spec (p := "A.b.s") (ctx := ctxOf msgB false "A.b") (by decide))

/-- the declared fields of `B` that survive the filter: only `c` -/
example : (msgB.fields.filter fun f => !keyed "A.b.s" (keysOf (ctxOf msgB false "A.b") f)) = [fC] := by decide

/-- a walk and the path formula: the occurrence of `t` reached through `b`, `c` -/
example : Walk req0 (rootCtx msgA) [fB, fC] { desc := msgC, path := "A.b.c" } :=
  .cons (d := msgB) (by decide) (by decide) (.cons (d := msgC) (by decide) (by decide) (.nil _))

end Example

end PGT.Proofs.PathUnique

section
open PGT.Proofs.PathUnique
#print axioms dot_split_unique
#print axioms pathOf_inj
#print axioms walk_path
#print axioms occurrence_path
#print axioms paths_eq_iff_segs_eq
#print axioms different_names_different_paths
#print axioms path_selects_at_most_one
#print axioms typeName_key_inj
#print axioms coreStep_congr
#print axioms keys_sound
#print axioms path_addresses_at_most_one
#print axioms build_congr
#print axioms viewOf_exclude_cons
#print axioms untouched_unless_addressed
#print axioms untouched_unless_addressed_field
#print axioms untouched_unless_addressed_root
#print axioms exclusion_untouched
#print axioms customType_untouched
#print axioms exclusion_surgical_message
#print axioms exclusion_surgical
#print axioms built_field_path
#print axioms declared_field_path
end
