import PGT.Model.Values
/-
Store laws of the association-list store (`setKey` / `List.lookup`).
-/
namespace PGT

theorem lookup_setKey_same {α} (k : String) (v : α) : ∀ l : List (String × α), (setKey k v l).lookup k = some v
  | [] => by simp [setKey, List.lookup]
  | (k', v') :: rest => by
    simp only [setKey]
    split
    · simp [List.lookup]
    · rename_i h
      have hb : (k == k') = false := by
        have : ¬ (k' == k) = true := h
        simp at this ⊢
        exact fun e => this e.symm
      simp [List.lookup, hb, lookup_setKey_same k v rest]

theorem lookup_setKey_other {α} (k k2 : String) (v : α) (h : k2 ≠ k) :
    ∀ l : List (String × α), (setKey k v l).lookup k2 = l.lookup k2
  | [] => by
    have hb : (k2 == k) = false := by simpa using h
    simp [setKey, List.lookup, hb]
  | (k', v') :: rest => by
    simp only [setKey]
    split
    · rename_i heq
      have e : k' = k := by simpa using heq
      subst e
      have hb : (k2 == k') = false := by simpa using h
      simp [List.lookup, hb]
    · simp only [List.lookup]
      cases (k2 == k') <;> simp [lookup_setKey_other k k2 v h rest]

end PGT
