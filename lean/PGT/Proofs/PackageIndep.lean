import PGT.Model.Build
import PGT.Model.CopyTo
import PGT.Model.CopyFrom
import PGT.Model.Schema
import PGT.Props.C13
/-
C13 – "separate-package generation behaves like same-package generation".

`default_package_name` (and `import_path_overrides`) only change Go TYPE STRINGS stored in the IR. This file makes
precise which components of the IR the semantic model of the emitted code reads:

 1. `eraseInfo` / `eraseField` / `eraseMsg` blank the Go type strings the model never interprets (`goType`,
    `goElemType`, `goElemTypeIndirect`, `parentIsOptionalEmbedFullType`, `MsgInfo.goType`) and normalise the two that
    are read through a function (`oneOfType` through `lastSegment`, `tf.valueCastFromType` through `repOfGoType`).
 2. `copyTo`, `copyFrom`, `schemaOf` factor through the erasure (exact equality of outcomes, diagnostics, hook calls).
 3. Two runs of the front end that differ only in `defaultPackageName` / `importOverride` (`repkg`) fail with the same
    error or produce IRs with the same erasure (`buildMessage_repkg`), under the decidable side condition `SideOK` on
    the Go type strings of the descriptor's fields; an example descriptor satisfies it (`decide`), witnesses show it
    is needed (`TyRel_witness`, `C13_rep_witness`), and `copyFrom_ov_witness` exhibits the one place where the import
    path overrides are visible in the emitted code's behaviour (the type name in a CopyFrom diagnostic).
 4. `C13_behaves_same`, `C13_behaves_same_root`.
Not proved: that `SideOK` holds for every descriptor with sane names (`SideOK_sane_full`, stated at the end).
-/
namespace PGT.PackageIndep

/-! ## 1. Erasure -/

/-- `valueCastFromType` is read only through `repOfGoType` (`FieldInfo.rep`): keep it when it names a builtin
representation, blank it otherwise (then the representation is that of the proto type) -/
def normCast (s : String) : String := if (repOfGoType s).isSome then s else ""

def eraseTf (t : TfType) : TfType := { t with valueCastFromType := normCast t.valueCastFromType }

def eraseInfo (f : FieldInfo) : FieldInfo :=
  { f with
    tf := eraseTf f.tf
    goType := ""
    goElemType := ""
    goElemTypeIndirect := ""
    oneOfType := lastSegment f.oneOfType
    parentIsOptionalEmbedFullType := "" }

def eraseMsgInfo (m : MsgInfo) : MsgInfo := { m with goType := "" }

mutual
def eraseField : Field → Field
  | ⟨info, mapVal, msg, sub⟩ => ⟨eraseInfo info, mapVal.map eraseInfo, msg.map eraseMsgInfo, eraseFields sub⟩
def eraseFields : List Field → List Field
  | [] => []
  | f :: fs => eraseField f :: eraseFields fs
end

def eraseMsg (m : Msg) : Msg := ⟨eraseMsgInfo m.info, eraseFields m.fields⟩

theorem eraseFields_eq_map : ∀ fs : List Field, eraseFields fs = fs.map eraseField
  | [] => by simp [eraseFields]
  | f :: fs => by simp [eraseFields, eraseFields_eq_map fs]

/-! ### string facts -/

theorem takeWhile_idem {α} (p : α → Bool) : ∀ l : List α, (l.takeWhile p).takeWhile p = l.takeWhile p
  | [] => rfl
  | a :: l => by
    by_cases h : p a = true
    · simp [h, takeWhile_idem p l]
    · simp [h]

theorem lastSegment_idem (s : String) : lastSegment (lastSegment s) = lastSegment s := by
  simp only [lastSegment, String.toList_ofList, List.reverse_reverse, takeWhile_idem]

/-- `takeWhile` never looks behind the first element that fails the test -/
theorem takeWhile_append_stop {α} (p : α → Bool) (c : α) (hc : p c = false) (b : List α) :
    ∀ a : List α, (a ++ c :: b).takeWhile p = a.takeWhile p
  | [] => by simp [hc]
  | x :: a => by
    by_cases h : p x = true
    · simp [h, takeWhile_append_stop p c hc b a]
    · simp [h]

/-- qualifying a name with a package does not change its last segment -/
theorem lastSegment_qualified (p x : String) : lastSegment (p ++ "." ++ x) = lastSegment x := by
  have h : (p ++ "." ++ x).toList.reverse = x.toList.reverse ++ '.' :: p.toList.reverse := by
    simp [String.toList_append]
  simp only [lastSegment, h]
  rw [takeWhile_append_stop _ '.' (by decide)]

theorem repOfGoType_normCast (s : String) : repOfGoType (normCast s) = repOfGoType s := by
  unfold normCast
  split
  · rfl
  · next h =>
    cases hr : repOfGoType s with
    | none => decide
    | some r => simp [hr] at h

theorem normCast_idem (s : String) : normCast (normCast s) = normCast s := by
  unfold normCast
  split
  · next h => rfl
  · next h => rfl

theorem eraseTf_idem (t : TfType) : eraseTf (eraseTf t) = eraseTf t := by
  simp only [eraseTf, normCast_idem]

theorem eraseInfo_idem (f : FieldInfo) : eraseInfo (eraseInfo f) = eraseInfo f := by
  simp only [eraseInfo, eraseTf_idem, lastSegment_idem]

/-! ### the components the erasure keeps -/

section proj
variable (f : FieldInfo)
@[simp] theorem eraseInfo_name : (eraseInfo f).name = f.name := rfl
@[simp] theorem eraseInfo_nameSnake : (eraseInfo f).nameSnake = f.nameSnake := rfl
@[simp] theorem eraseInfo_kind : (eraseInfo f).kind = f.kind := rfl
@[simp] theorem eraseInfo_oneOfName : (eraseInfo f).oneOfName = f.oneOfName := rfl
@[simp] theorem eraseInfo_oneOfType : (eraseInfo f).oneOfType = lastSegment f.oneOfType := rfl
@[simp] theorem eraseInfo_isPlaceholder : (eraseInfo f).isPlaceholder = f.isPlaceholder := rfl
@[simp] theorem eraseInfo_suffix : (eraseInfo f).suffix = f.suffix := rfl
@[simp] theorem eraseInfo_isRepeated : (eraseInfo f).isRepeated = f.isRepeated := rfl
@[simp] theorem eraseInfo_isMap : (eraseInfo f).isMap = f.isMap := rfl
@[simp] theorem eraseInfo_isRequired : (eraseInfo f).isRequired = f.isRequired := rfl
@[simp] theorem eraseInfo_isComputed : (eraseInfo f).isComputed = f.isComputed := rfl
@[simp] theorem eraseInfo_isCustomType : (eraseInfo f).isCustomType = f.isCustomType := rfl
@[simp] theorem eraseInfo_embed : (eraseInfo f).parentIsOptionalEmbed = f.parentIsOptionalEmbed := rfl
@[simp] theorem eraseInfo_embedName :
    (eraseInfo f).parentIsOptionalEmbedFieldName = f.parentIsOptionalEmbedFieldName := rfl
@[simp] theorem eraseInfo_isNullable : (eraseInfo f).isNullable = f.isNullable := rfl
@[simp] theorem eraseInfo_isSensitive : (eraseInfo f).isSensitive = f.isSensitive := rfl
@[simp] theorem eraseInfo_validators : (eraseInfo f).validators = f.validators := rfl
@[simp] theorem eraseInfo_planModifiers : (eraseInfo f).planModifiers = f.planModifiers := rfl
@[simp] theorem eraseInfo_comment : (eraseInfo f).comment = f.comment := rfl
@[simp] theorem eraseInfo_path : (eraseInfo f).path = f.path := rfl
@[simp] theorem eraseInfo_protoType : (eraseInfo f).protoType = f.protoType := rfl
@[simp] theorem eraseInfo_tf_type : (eraseInfo f).tf.type = f.tf.type := rfl
@[simp] theorem eraseInfo_tf_valueType : (eraseInfo f).tf.valueType = f.tf.valueType := rfl
@[simp] theorem eraseInfo_tf_elemType : (eraseInfo f).tf.elemType = f.tf.elemType := rfl
@[simp] theorem eraseInfo_tf_elemValueType : (eraseInfo f).tf.elemValueType = f.tf.elemValueType := rfl
@[simp] theorem eraseInfo_tf_valueCastToType : (eraseInfo f).tf.valueCastToType = f.tf.valueCastToType := rfl
@[simp] theorem eraseInfo_tf_valueCastFromType :
    (eraseInfo f).tf.valueCastFromType = normCast f.tf.valueCastFromType := rfl
@[simp] theorem eraseInfo_tf_zeroValue : (eraseInfo f).tf.zeroValue = f.tf.zeroValue := rfl
@[simp] theorem eraseInfo_tf_isMessage : (eraseInfo f).tf.isMessage = f.tf.isMessage := rfl

@[simp] theorem eraseInfo_rep : (eraseInfo f).rep = f.rep := by
  simp only [FieldInfo.rep, eraseInfo_tf_valueCastFromType, repOfGoType_normCast, eraseInfo_protoType]

@[simp] theorem eraseInfo_castTo (x : Sc) : (eraseInfo f).castTo x = f.castTo x := by
  simp only [FieldInfo.castTo, eraseInfo_tf_valueCastToType, eraseInfo_rep]

@[simp] theorem eraseInfo_castFrom (k : PrimK) (p : Sc) : (eraseInfo f).castFrom k p = f.castFrom k p := by
  simp only [FieldInfo.castFrom, eraseInfo_rep]
end proj

@[simp] theorem isEmptyMsg_erase (msg : Option MsgInfo) : isEmptyMsg (msg.map eraseMsgInfo) = isEmptyMsg msg := by
  cases msg <;> rfl

@[simp] theorem eraseFields_isEmpty (fs : List Field) : (eraseFields fs).isEmpty = fs.isEmpty := by
  cases fs <;> simp [eraseFields]

theorem eraseField_info (f : Field) : (eraseField f).info = eraseInfo f.info := by
  cases f; simp [eraseField]

/-! ## 2a. CopyTo factors through the erasure -/

@[simp] theorem zeroGoOf_erase (f : FieldInfo) : zeroGoOf (eraseInfo f) = zeroGoOf f := by
  simp only [zeroGoOf, eraseInfo_kind, eraseInfo_isNullable, eraseInfo_rep, eraseInfo_isRepeated]
  rfl

@[simp] theorem oneOfShadow_erase (f : FieldInfo) (obj : GoVal) : oneOfShadow (eraseInfo f) obj = oneOfShadow f obj := by
  simp only [oneOfShadow, eraseInfo_oneOfName, eraseInfo_oneOfType, lastSegment_idem]

@[simp] theorem parentIsNil_erase (f : FieldInfo) (obj : GoVal) : parentIsNil (eraseInfo f) obj = parentIsNil f obj := rfl

@[simp] theorem readField_erase (f : FieldInfo) (obj : GoVal) : readField (eraseInfo f) obj = readField f obj := by
  simp only [readField, eraseInfo_embed, eraseInfo_embedName, eraseInfo_name, zeroGoOf_erase]

@[simp] theorem assignPrim_erase (f : FieldInfo) (obj : GoVal) (rd : Outcome GoVal) (v : Bool × Sc) :
    assignPrim (eraseInfo f) obj rd v = assignPrim f obj rd v := by
  simp only [assignPrim, eraseInfo_isNullable, eraseInfo_castTo, eraseInfo_isPlaceholder, eraseInfo_embed,
    parentIsNil_erase]

@[simp] theorem primFresh_erase (f : FieldInfo) (k : PrimK) (obj : GoVal) (t : Option TfTy) (rd : Outcome GoVal) :
    primFresh (eraseInfo f) k obj t rd = primFresh f k obj t rd := by
  simp only [primFresh, eraseInfo_path, eraseInfo_tf_elemValueType, eraseInfo_isPlaceholder, eraseInfo_tf_zeroValue,
    eraseInfo_embed, parentIsNil_erase, eraseInfo_castTo]

@[simp] theorem primBody_erase (f : FieldInfo) (obj : GoVal) (cur : Option TfVal) (t : Option TfTy)
    (rd : Outcome GoVal) : primBody (eraseInfo f) obj cur t rd = primBody f obj cur t rd := by
  simp only [primBody, eraseInfo_tf_elemValueType, primFresh_erase, assignPrim_erase]

@[simp] theorem objBody_erase (rec : ToRec) (info : FieldInfo) (msg : Option MsgInfo) (subEmpty : Bool)
    (cur : Option TfVal) (oty : Option (List (String × TfTy))) (x : Outcome GoVal) (diags : List Diag)
    (hooks : List HookCall) :
    objBody rec (eraseInfo info) (msg.map eraseMsgInfo) subEmpty cur oty x diags hooks
      = objBody rec info msg subEmpty cur oty x diags hooks := by
  simp only [objBody, isEmptyMsg_erase, eraseInfo_isNullable]

@[simp] theorem primElemBody_erase (info : FieldInfo) (obj : GoVal) (ety : Option TfTy) :
    primElemBody (eraseInfo info) obj ety = primElemBody info obj ety := by
  funext a diags hooks
  simp only [primElemBody, primBody_erase]

@[simp] theorem curIsElemKind_erase (info : FieldInfo) (cur : Option TfVal) :
    curIsElemKind (eraseInfo info) cur = curIsElemKind info cur := rfl

@[simp] theorem elemBodyOf_erase (rec : ToRec) (info : FieldInfo) (msg : Option MsgInfo) (subEmpty : Bool)
    (obj0 : GoVal) (ety : Option TfTy) (oty : Option (List (String × TfTy))) :
    elemBodyOf rec (eraseInfo info) (msg.map eraseMsgInfo) subEmpty obj0 ety oty
      = elemBodyOf rec info msg subEmpty obj0 ety oty := by
  simp only [elemBodyOf, eraseInfo_kind, objBody_erase, primElemBody_erase]

@[simp] theorem listOrMapBody_erase (rec : ToRec) (info : FieldInfo) (msg : Option MsgInfo) (subEmpty : Bool)
    (obj0 : GoVal) (cur : Option TfVal) (ety : Option TfTy) (src : GoVal) (st : ToSt) :
    listOrMapBody rec (eraseInfo info) (msg.map eraseMsgInfo) subEmpty obj0 cur ety src st
      = listOrMapBody rec info msg subEmpty obj0 cur ety src st := by
  simp only [listOrMapBody, eraseInfo_kind, eraseInfo_isRepeated, eraseInfo_nameSnake, curIsElemKind_erase,
    elemBodyOf_erase]

/-- one field block reads the field's description only through the erasure -/
theorem copyToFieldWith_erase (rec : ToRec) (info : FieldInfo) (msg : Option MsgInfo) (subEmpty : Bool)
    (obj0 : GoVal) (atys : Option (List (String × TfTy))) (st : ToSt) :
    copyToFieldWith rec (eraseInfo info) (msg.map eraseMsgInfo) subEmpty obj0 atys st
      = copyToFieldWith rec info msg subEmpty obj0 atys st := by
  simp only [copyToFieldWith, eraseInfo_nameSnake, eraseInfo_path, eraseInfo_kind, oneOfShadow_erase, primBody_erase,
    readField_erase, objBody_erase, eraseInfo_tf_type, eraseInfo_isRepeated, eraseInfo_suffix, listOrMapBody_erase]
  rfl

mutual
theorem copyToFields_erase (fs : List Field) (obj : GoVal) (atys : Option (List (String × TfTy))) (st : ToSt) :
    copyToFields (eraseFields fs) obj atys st = copyToFields fs obj atys st := by
  match fs with
  | [] => simp [eraseFields, copyToFields]
  | f :: rest =>
    simp only [eraseFields, copyToFields, copyToField_erase f]
    cases copyToField f obj atys st with
    | ok st' => simp only [copyToFields_erase rest]
    | panic w => rfl
    | stuck w => rfl

theorem copyToField_erase (f : Field) (obj0 : GoVal) (atys : Option (List (String × TfTy))) (st : ToSt) :
    copyToField (eraseField f) obj0 atys st = copyToField f obj0 atys st := by
  match f with
  | ⟨info, mapVal, msg, sub⟩ =>
    simp only [eraseField, copyToField, eraseFields_isEmpty]
    have hrec : (fun o a s => copyToFields (eraseFields sub) o a s) = (fun o a s => copyToFields sub o a s) := by
      funext o a s; exact copyToFields_erase sub o a s
    rw [hrec, copyToFieldWith_erase]
end

/-- **CopyTo factors through the erasure** -/
theorem copyTo_erase (m : Msg) (obj : GoVal) (tf : TfVal) : copyTo (eraseMsg m) obj tf = copyTo m obj tf := by
  unfold copyTo
  cases tf <;> simp only [eraseMsg, copyToFields_erase]

/-! ## 2b. CopyFrom factors through the erasure -/

@[simp] theorem writeField_erase (f : FieldInfo) (obj x : GoVal) : writeField (eraseInfo f) obj x = writeField f obj x := rfl

@[simp] theorem zeroPrim_erase (f : FieldInfo) : zeroPrim (eraseInfo f) = zeroPrim f := by
  simp only [zeroPrim, eraseInfo_isNullable, eraseInfo_rep]

@[simp] theorem zeroMsg_erase (f : FieldInfo) : zeroMsg (eraseInfo f) = zeroMsg f := rfl

@[simp] theorem zeroElem_erase (f : FieldInfo) : zeroElem (eraseInfo f) = zeroElem f := by
  simp only [zeroElem, eraseInfo_kind, zeroMsg_erase, zeroPrim_erase]

@[simp] theorem allocParent_erase (f : FieldInfo) (obj : GoVal) : allocParent (eraseInfo f) obj = allocParent f obj := rfl

@[simp] theorem embedGuard_erase (f : FieldInfo) (a : TfVal) (obj : GoVal) :
    embedGuard (eraseInfo f) a obj = embedGuard f a obj := rfl

@[simp] theorem primDecode_erase (f : FieldInfo) (k : PrimK) (unk null : Bool) (p : Sc) :
    primDecode (eraseInfo f) k unk null p = primDecode f k unk null p := by
  simp only [primDecode, eraseInfo_castFrom, eraseInfo_isNullable, zeroPrim_erase]
  rfl

@[simp] theorem fromElemBody_erase (rec : FromRec) (ov : List (String × String)) (info vf : FieldInfo) :
    fromElemBody rec ov (eraseInfo info) (eraseInfo vf) = fromElemBody rec ov info vf := by
  funext e diags hooks
  simp only [fromElemBody, eraseInfo_tf_elemValueType, eraseInfo_path, eraseInfo_kind, primDecode_erase,
    eraseInfo_isNullable, zeroMsg_erase]
  rfl

theorem getD_map_erase (mapVal : Option FieldInfo) (info : FieldInfo) :
    (mapVal.map eraseInfo).getD (eraseInfo info) = eraseInfo (mapVal.getD info) := by
  cases mapVal <;> rfl

/-- one field block of CopyFrom reads the field's description only through the erasure -/
theorem copyFromFieldWith_erase (rec : FromRec) (ov : List (String × String)) (info : FieldInfo)
    (mapVal : Option FieldInfo) (msg : Option MsgInfo) (tfAttrs : Option (List (String × TfVal))) (st : FromSt) :
    copyFromFieldWith rec ov (eraseInfo info) (mapVal.map eraseInfo) (msg.map eraseMsgInfo) tfAttrs st
      = copyFromFieldWith rec ov info mapVal msg tfAttrs st := by
  simp only [copyFromFieldWith, eraseInfo_nameSnake, eraseInfo_kind, eraseInfo_path, eraseInfo_embed,
    allocParent_erase, writeField_erase, eraseInfo_isRepeated, eraseInfo_suffix, eraseInfo_tf_valueType,
    embedGuard_erase, primDecode_erase, eraseInfo_oneOfName, eraseInfo_oneOfType, lastSegment_idem, eraseInfo_name,
    eraseInfo_embedName, isEmptyMsg_erase, eraseInfo_isNullable, zeroElem_erase, fromElemBody_erase, getD_map_erase]
  rfl

theorem oneOfNames_erase (msg : Option MsgInfo) :
    ((msg.map eraseMsgInfo).map (·.oneOfNames)).getD [] = (msg.map (·.oneOfNames)).getD [] := by
  cases msg <;> rfl

mutual
theorem copyFromFields_erase (ov : List (String × String)) (fs : List Field)
    (tfAttrs : Option (List (String × TfVal))) (st : FromSt) :
    copyFromFields ov (eraseFields fs) tfAttrs st = copyFromFields ov fs tfAttrs st := by
  match fs with
  | [] => simp [eraseFields, copyFromFields]
  | f :: rest =>
    simp only [eraseFields, copyFromFields, copyFromField_erase ov f, eraseField_info, eraseInfo_isPlaceholder,
      copyFromFields_erase ov rest]

theorem copyFromField_erase (ov : List (String × String)) (f : Field)
    (tfAttrs : Option (List (String × TfVal))) (st : FromSt) :
    copyFromField ov (eraseField f) tfAttrs st = copyFromField ov f tfAttrs st := by
  match f with
  | ⟨info, mapVal, msg, sub⟩ =>
    simp only [eraseField, copyFromField, oneOfNames_erase]
    have hrec : (fun attrs (s : FromSt) => copyFromFields ov (eraseFields sub) attrs
          { s with obj := resetOneOfs ((msg.map (·.oneOfNames)).getD []) s.obj })
        = (fun attrs (s : FromSt) => copyFromFields ov sub attrs
          { s with obj := resetOneOfs ((msg.map (·.oneOfNames)).getD []) s.obj }) := by
      funext attrs s; exact copyFromFields_erase ov sub attrs _
    rw [hrec, copyFromFieldWith_erase]
end

/-- **CopyFrom factors through the erasure** -/
theorem copyFrom_erase (ov : List (String × String)) (m : Msg) (tf : TfVal) (obj : GoVal) :
    copyFrom ov (eraseMsg m) tf obj = copyFrom ov m tf obj := by
  unfold copyFrom
  cases tf <;> simp only [eraseMsg, copyFromFields_erase] <;> rfl

/-! ## 2c. The schema factors through the erasure -/

mutual
theorem schemaAttrs_erase (fs : List Field) : schemaAttrs (eraseFields fs) = schemaAttrs fs := by
  match fs with
  | [] => simp [eraseFields, schemaAttrs]
  | f :: rest => simp only [eraseFields, schemaAttrs, schemaField_erase f, schemaAttrs_erase rest]

theorem schemaField_erase (f : Field) : schemaField (eraseField f) = schemaField f := by
  match f with
  | ⟨info, mapVal, msg, sub⟩ =>
    have hinj : ((msg.map eraseMsgInfo).map (·.injected)).getD [] = (msg.map (·.injected)).getD [] := by
      cases msg <;> rfl
    simp only [eraseField, schemaField, schemaAttrs_erase sub, hinj, eraseInfo_kind, eraseInfo_tf_elemType,
      getD_map_erase, eraseInfo_isRepeated, eraseInfo_nameSnake, eraseInfo_isRequired, eraseInfo_isComputed,
      eraseInfo_isSensitive, eraseInfo_comment, eraseInfo_validators, eraseInfo_planModifiers, eraseInfo_suffix]
    rfl
end

/-- **the schema factors through the erasure** -/
theorem schemaOf_erase (m : Msg) : schemaOf (eraseMsg m) = schemaOf m := by
  simp only [schemaOf, eraseMsg, schemaAttrs_erase]
  rfl

theorem attrTypesOf_erase (m : Msg) : attrTypesOf (eraseMsg m) = attrTypesOf m := by
  simp only [attrTypesOf, schemaOf_erase]

/-- Corollary: IRs with the same erasure have the same converters and the same schema -/
theorem same_erasure_same_behaviour (m m' : Msg) (h : eraseMsg m = eraseMsg m') :
    (∀ obj tf, copyTo m obj tf = copyTo m' obj tf) ∧
    (∀ ov tf obj, copyFrom ov m tf obj = copyFrom ov m' tf obj) ∧
    schemaOf m = schemaOf m' := by
  refine ⟨fun obj tf => ?_, fun ov tf obj => ?_, ?_⟩
  · rw [← copyTo_erase m, ← copyTo_erase m', h]
  · rw [← copyFrom_erase ov m, ← copyFrom_erase ov m', h]
  · rw [← schemaOf_erase m, ← schemaOf_erase m', h]


/-! ## 3. The front end

`buildFieldCore` / `buildMessage` are first cut into named pieces (the equations hold by `rfl`), then each piece is shown
to respect the erasure. -/

def elemOf (g : String) : String := String.ofList (removeBrackets g.toList)

def baseOf (V : CfgView) (r : Generated.TypeRow) (c path : String) : Except BuildError TfType :=
  if r.kind == "time" then
    match V.timeType with
    | none => .error (.timeTypeMissing path)
    | some s => .ok (tfTypeOfConfig s)
  else if r.kind == "duration" then
    match V.durationType with
    | none => .error (.durationTypeMissing path)
    | some s => .ok (tfTypeOfConfig s)
  else if r.kind == "default" then .error (.unknownFieldType path)
  else
    match Generated.bases.find? (·.name == r.base) with
    | none => .error (.unknownFieldType path)
    | some b =>
      let t := tfTypeOfBase b
      let t := if r.castFrom == "<elem>" then { t with valueCastFromType := c }
               else if r.castFrom != "" then { t with valueCastFromType := r.castFrom } else t
      .ok (if r.isMessage then { t with isMessage := true } else t)

def postOf (isRepeated isMapField castB : Bool) (c : String) (t : TfType) : TfType :=
  let t := if isRepeated then { t with type := Generated.typesPkg ++ ".ListType", valueType := Generated.typesPkg ++ ".List" } else t
  let t := if isMapField then { t with type := Generated.typesPkg ++ ".MapType", valueType := Generated.typesPkg ++ ".Map" } else t
  if castB then { t with valueCastFromType := c } else t

theorem getTerraformType_eq (V : CfgView) (f : FieldD) (isMap isRep : Bool) (g path : String) :
    getTerraformType V f isMap isRep g path =
      match Generated.typeRows.find? (rowMatches V f isMap) with
      | none => .error (.unknownFieldType path)
      | some r =>
        match baseOf V r (elemOf g) path with
        | .error e => .error e
        | .ok t => .ok (postOf isRep isMap (f.castType != "") (elemOf g) t) := rfl

def info0 (V : CfgView) (f : FieldD) (keys : Keys) (g : String) (isMap isRep hc : Bool) (tf : TfType) : FieldInfo :=
  { name := goNameS f.name, nameSnake := snakeOf V f keys, isRequired := V.required keys, isComputed := V.computed keys,
    isSensitive := V.sensitive keys, isRepeated := isRep, isMap := isMap, isNullable := g.toList.contains '*',
    validators := (V.validators keys).getD [], planModifiers := planModsOf V keys, path := keys.path,
    comment := commentOf f hc, goType := g, goElemType := g, tf := tf, protoType := f.type }

def nestedOf (bm : MsgD → Bool → String → Except BuildError Msg) (req : Request) (f : FieldD) (keys : Keys)
    (tf : TfType) (isMap : Bool) : Except BuildError (Option Msg) :=
  if tf.isMessage && !isMap then
    match req.findMessage f.typeName with
    | none => .error (.unknownMessage f.typeName)
    | some d =>
      match bm d false keys.path with
      | .error e => .error e
      | .ok m => .ok (some m)
  else .ok none

def embedFull (g : String) : String := String.ofList (dropStar g.toList)

def embedShort (g : String) : String :=
  match lastIndexOfChar '.' (embedFull g).toList with
  | some i => String.ofList ((embedFull g).toList.drop (i + 1))
  | none => embedFull g

def embedOut (g : String) (isNullable : Bool) (nm : Option Msg) : Except BuildError (List Field) :=
  match nm with
  | none => .ok []
  | some m =>
    if !isNullable then .ok m.fields
    else .ok (m.fields.map (markEmbedded (embedFull g) (embedShort g)))

def mapTyp (V : CfgView) (f : FieldD) : String :=
  prependPackageNameIfMissing V.importOverride (gogoMapGoType f) V.defaultPackageName
def mapVGo (V : CfgView) (f : FieldD) : String :=
  prependPackageNameIfMissing V.importOverride (afterLastBracket (mapTyp V f)) V.defaultPackageName

def mapInfo (info : FieldInfo) (typ : String) (v : Field) : FieldInfo :=
  { info with goType := typ, isNullable := typ.toList.contains '*',
              tf := { info.tf with elemType := v.info.tf.elemType, elemValueType := v.info.tf.elemValueType,
                                   valueCastToType := v.info.tf.valueCastToType,
                                   valueCastFromType := v.info.tf.valueCastFromType },
              goElemType := v.info.goElemType }

def mappedOf (bf : String → Except BuildError (List Field)) (V : CfgView) (f : FieldD) (keys : Keys)
    (info : FieldInfo) (isMap : Bool) : Except BuildError (FieldInfo × Option Field) :=
  if isMap then
    if scalarGoType f.mapKey != "string" then .error (.nonStringMapKey keys.path)
    else
      match bf (mapVGo V f) with
      | .error e => .error e
      | .ok [] => .error (.unknownFieldType keys.path)
      | .ok (v :: _) => .ok (mapInfo info (mapTyp V f) v, some v)
  else .ok (info, none)

def ooOf (V : CfgView) (ctx : MsgCtx) (f : FieldD) : String × String :=
  match f.oneof with
  | none => ("", "")
  | some i => (goNameS (ctx.desc.oneofs.getD i ""), msgGoType V (ctx.desc.name ++ "_" ++ goNameS f.name))

def finishInfo (V : CfgView) (ctx : MsgCtx) (f : FieldD) (keys : Keys) (isMap isRep : Bool) (info : FieldInfo)
    (mapV : Option Field) : FieldInfo :=
  { info with isCustomType := isCustomOf V f keys, suffix := suffixOf V f keys,
              kind := kindOf (isCustomOf V f keys) isMap (match mapV with | some v => v.info.tf.isMessage | none => false)
                        isRep info.tf.isMessage,
              goElemTypeIndirect := stripChars info.goElemType ['*'],
              oneOfName := (ooOf V ctx f).1, oneOfType := (ooOf V ctx f).2 }

def subOf (mapV : Option Field) (nm : Option Msg) : Option MsgInfo × List Field :=
  match mapV, nm with
  | some v, _ => (v.msg, v.sub)
  | none, some m => (some m.info, m.fields)
  | none, none => (none, [])

def finishOf (V : CfgView) (ctx : MsgCtx) (f : FieldD) (keys : Keys) (isMap isRep : Bool) (info : FieldInfo)
    (mapV : Option Field) (nm : Option Msg) : Field :=
  { info := finishInfo V ctx f keys isMap isRep info mapV, mapVal := mapV.map (·.info),
    msg := (subOf mapV nm).1, sub := (subOf mapV nm).2 }

def repInfo (isRep : Bool) (info : FieldInfo) : FieldInfo :=
  if isRep then { info with goElemType := afterFirstBracket info.goType } else info

theorem buildFieldCore_succ (fuel' : Nat) (V : CfgView) (req : Request) (ctx : MsgCtx) (f : FieldD) (keys : Keys)
    (g : String) (isMap isRep hc : Bool) :
    buildFieldCore (fuel' + 1) V req ctx f keys g isMap isRep hc =
      if V.excluded keys then .ok []
      else
        match getTerraformType V f isMap isRep g keys.path with
        | .error e => .error e
        | .ok tf =>
          match nestedOf (buildMessage fuel' V req) req f keys tf isMap with
          | .error e => .error e
          | .ok nm =>
            if tf.isMessage && !isMap && f.embed then embedOut g (g.toList.contains '*') nm
            else
              match mappedOf (fun vGo => buildFieldCore fuel' V req ctx f.mapValueField keys vGo false false false)
                      V f keys (repInfo isRep (info0 V f keys g isMap isRep hc tf)) isMap with
              | .error e => .error e
              | .ok (info, mapV) => .ok [finishOf V ctx f keys isMap isRep info mapV nm] := by
  rw [buildFieldCore]
  rfl


def ctxPath (desc : MsgD) (isRoot : Bool) (path : String) : String := if isRoot then desc.name else path

def msgOf (V : CfgView) (desc : MsgD) (isRoot : Bool) (cpath : String) (fields : List Field) : Msg :=
  { info := { name := desc.name, goType := msgGoType V desc.name, path := cpath,
              namePath := namePathOf cpath desc.name, isRoot := isRoot,
              injected := V.injected cpath,
              oneOfNames := (let ns := withPromotedOneOfs (oneOfNames desc) fields
                             if V.sort then sortStrings ns else ns), isEmpty := desc.fields.isEmpty,
              comment := match desc.comment with | some c => String.ofList (messageComment c.toList) | none => "" },
    fields := fields }

def fieldsOf (bf : FieldD → Except BuildError (List Field)) (V : CfgView) (desc : MsgD) (cpath : String) :
    Except BuildError (List Field) :=
  if desc.fields.isEmpty then .ok [placeholderField cpath]
  else
    match collectFields (desc.fields.map bf) with
    | .error e => .error e
    | .ok fs => .ok (if V.sort then sortFieldsByName fs else fs)

theorem buildMessage_succ (fuel : Nat) (V : CfgView) (req : Request) (desc : MsgD) (isRoot : Bool) (path : String) :
    buildMessage (fuel + 1) V req desc isRoot path =
      match fieldsOf (fun f => buildFieldCore fuel V req { desc := desc, path := ctxPath desc isRoot path } f
                (keysOf { desc := desc, path := ctxPath desc isRoot path } f)
                (goTypeOf V { desc := desc, path := ctxPath desc isRoot path } f)
                (f.card == .map) (f.card == .repeated) f.comment.isSome) V desc (ctxPath desc isRoot path) with
      | .error e => .error e
      | .ok fields => .ok (msgOf V desc isRoot (ctxPath desc isRoot path) fields) := by
  rw [buildMessage]
  rfl


/-! ### respecting the erasure, piece by piece -/

/-- the same configuration view with another default package and other import path overrides -/
def repkg (V : CfgView) (p : String) (o : List (String × String)) : CfgView :=
  { V with defaultPackageName := p, importOverride := o }

/-- apply a function to the success value of a build result -/
def emap {α β : Type} (φ : α → β) : Except BuildError α → Except BuildError β
  | .ok a => .ok (φ a)
  | .error e => .error e

theorem emap_eq {α β : Type} (φ : α → β) {a' a : Except BuildError α} (h : emap φ a' = emap φ a) :
    (∃ e, a' = .error e ∧ a = .error e) ∨ (∃ x' x, a' = .ok x' ∧ a = .ok x ∧ φ x' = φ x) := by
  cases a' with
  | error e' =>
    cases a with
    | error e => simp only [emap, Except.error.injEq] at h; subst h; exact Or.inl ⟨_, rfl, rfl⟩
    | ok x => simp [emap] at h
  | ok x' =>
    cases a with
    | error e => simp [emap] at h
    | ok x => simp only [emap, Except.ok.injEq] at h; exact Or.inr ⟨_, _, rfl, rfl, h⟩

/-! ### the Terraform type -/

theorem eraseTf_setCast (t : TfType) (c : String) :
    eraseTf { t with valueCastFromType := c } = { eraseTf t with valueCastFromType := normCast c } := rfl

theorem baseOf_rel (V : CfgView) (p : String) (o : List (String × String)) (r : Generated.TypeRow)
    (c c' path : String) (h : normCast c' = normCast c) :
    emap eraseTf (baseOf (repkg V p o) r c' path) = emap eraseTf (baseOf V r c path) := by
  unfold baseOf
  simp only [repkg]
  split
  · rfl
  · split
    · rfl
    · split
      · rfl
      · cases Generated.bases.find? (·.name == r.base) with
        | none => rfl
        | some b =>
          simp only [emap]
          congr 1
          by_cases h1 : (r.castFrom == "<elem>") = true <;> by_cases h2 : (r.castFrom != "") = true <;>
            cases r.isMessage <;> simp [h1, h2, eraseTf, h]

theorem postOf_rel (isRep isMap castB : Bool) (c c' : String) (t t' : TfType) (h : normCast c' = normCast c)
    (ht : eraseTf t' = eraseTf t) :
    eraseTf (postOf isRep isMap castB c' t') = eraseTf (postOf isRep isMap castB c t) := by
  cases t; cases t'
  simp only [eraseTf, TfType.mk.injEq] at ht
  cases isRep <;> cases isMap <;> cases castB <;> simp [postOf, eraseTf, h, ht]

theorem getTerraformType_rel (V : CfgView) (p : String) (o : List (String × String)) (f : FieldD)
    (isMap isRep : Bool) (g g' path : String) (h : normCast (elemOf g') = normCast (elemOf g)) :
    emap eraseTf (getTerraformType (repkg V p o) f isMap isRep g' path)
      = emap eraseTf (getTerraformType V f isMap isRep g path) := by
  rw [getTerraformType_eq, getTerraformType_eq]
  have hr : rowMatches (repkg V p o) f isMap = rowMatches V f isMap := rfl
  rw [hr]
  cases Generated.typeRows.find? (rowMatches V f isMap) with
  | none => rfl
  | some r =>
    simp only []
    have hb := baseOf_rel V p o r (elemOf g) (elemOf g') path h
    cases hb' : baseOf (repkg V p o) r (elemOf g') path with
    | error e =>
      cases hb0 : baseOf V r (elemOf g) path with
      | error e0 => simp only [hb', hb0, emap] at hb ⊢; exact hb
      | ok t0 => simp [hb', hb0, emap] at hb
    | ok t =>
      cases hb0 : baseOf V r (elemOf g) path with
      | error e0 => simp [hb', hb0, emap] at hb
      | ok t0 =>
        simp only [hb', hb0, emap, Except.ok.injEq] at hb ⊢
        exact postOf_rel _ _ _ _ _ _ _ h hb


/-! ### nested message -/
theorem nestedOf_rel (bm' bm : MsgD → Bool → String → Except BuildError Msg) (req : Request) (f : FieldD)
    (keys : Keys) (tf' tf : TfType) (isMap : Bool) (htf : tf'.isMessage = tf.isMessage)
    (hbm : ∀ d, req.findMessage f.typeName = some d →
      emap eraseMsg (bm' d false keys.path) = emap eraseMsg (bm d false keys.path)) :
    emap (Option.map eraseMsg) (nestedOf bm' req f keys tf' isMap)
      = emap (Option.map eraseMsg) (nestedOf bm req f keys tf isMap) := by
  unfold nestedOf
  rw [htf]
  split
  · cases hd : req.findMessage f.typeName with
    | none => rfl
    | some d =>
      simp only []
      rcases emap_eq _ (hbm d hd) with ⟨e, h1, h2⟩ | ⟨m', m, h1, h2, h3⟩
      · rw [h1, h2]
      · rw [h1, h2]; simp only [emap, Option.map, h3]
  · rfl

/-! ### embedded messages -/
theorem eraseField_markEmbedded (full short : String) (c : Field) :
    eraseField (markEmbedded full short c) = markEmbedded "" short (eraseField c) := by
  cases c; rfl

theorem eraseFields_markEmbedded (full short : String) (fs : List Field) :
    eraseFields (fs.map (markEmbedded full short)) = (eraseFields fs).map (markEmbedded "" short) := by
  simp only [eraseFields_eq_map, List.map_map]
  apply List.map_congr_left
  intro c _
  exact eraseField_markEmbedded full short c

theorem embedOut_rel (g' g : String) (b : Bool) (nm' nm : Option Msg)
    (hshort : embedShort g' = embedShort g) (hnm : nm'.map eraseMsg = nm.map eraseMsg) :
    emap eraseFields (embedOut g' b nm') = emap eraseFields (embedOut g b nm) := by
  cases nm' with
  | none => cases nm with
    | none => rfl
    | some m => simp at hnm
  | some m' => cases nm with
    | none => simp at hnm
    | some m =>
      simp only [Option.map, Option.some.injEq] at hnm
      have hf : eraseFields m'.fields = eraseFields m.fields := congrArg Msg.fields hnm
      unfold embedOut
      simp only []
      split
      · simp only [emap, hf]
      · simp only [emap, eraseFields_markEmbedded, hf, hshort]

/-! ### the field description -/
theorem info0_rel (V : CfgView) (p : String) (o : List (String × String)) (f : FieldD) (keys : Keys)
    (g' g : String) (isMap isRep hc : Bool) (tf' tf : TfType)
    (hstar : g'.toList.contains '*' = g.toList.contains '*') (htf : eraseTf tf' = eraseTf tf) :
    eraseInfo (info0 (repkg V p o) f keys g' isMap isRep hc tf') = eraseInfo (info0 V f keys g isMap isRep hc tf) := by
  simp only [info0, eraseInfo, hstar, htf]
  rfl

theorem repInfo_rel (b : Bool) (i' i : FieldInfo) (h : eraseInfo i' = eraseInfo i) :
    eraseInfo (repInfo b i') = eraseInfo (repInfo b i) := by
  cases b
  · exact h
  · exact h

/-- `mapInfo` on erased descriptions -/
def mapInfoE (e : FieldInfo) (star : Bool) (ev : FieldInfo) : FieldInfo :=
  { e with isNullable := star,
           tf := { e.tf with elemType := ev.tf.elemType, elemValueType := ev.tf.elemValueType,
                             valueCastToType := ev.tf.valueCastToType, valueCastFromType := ev.tf.valueCastFromType } }

theorem eraseInfo_mapInfo (i : FieldInfo) (typ : String) (v : Field) :
    eraseInfo (mapInfo i typ v) = mapInfoE (eraseInfo i) (typ.toList.contains '*') (eraseField v).info := by
  cases v; rfl

abbrev eraseMapped : FieldInfo × Option Field → FieldInfo × Option Field :=
  fun x => (eraseInfo x.1, x.2.map eraseField)

theorem mappedOf_rel (bf' bf : String → Except BuildError (List Field)) (V : CfgView) (p : String)
    (o : List (String × String)) (f : FieldD) (keys : Keys) (i' i : FieldInfo) (isMap : Bool)
    (hi : eraseInfo i' = eraseInfo i)
    (hstar : isMap = true → (mapTyp (repkg V p o) f).toList.contains '*' = (mapTyp V f).toList.contains '*')
    (hbf : isMap = true → emap eraseFields (bf' (mapVGo (repkg V p o) f)) = emap eraseFields (bf (mapVGo V f))) :
    emap eraseMapped (mappedOf bf' (repkg V p o) f keys i' isMap) = emap eraseMapped (mappedOf bf V f keys i isMap) := by
  unfold mappedOf
  cases isMap with
  | false => simp only [Bool.false_eq_true, if_false, emap, eraseMapped, hi]
  | true =>
    simp only [if_true]
    split
    · rfl
    · rcases emap_eq _ (hbf rfl) with ⟨e, h1, h2⟩ | ⟨l', l, h1, h2, h3⟩
      · rw [h1, h2]
      · rw [h1, h2]
        cases l' with
        | nil => cases l with
          | nil => rfl
          | cons v vs => simp [eraseFields] at h3
        | cons v' vs' => cases l with
          | nil => simp [eraseFields] at h3
          | cons v vs =>
            simp only [eraseFields, List.cons.injEq] at h3
            simp only [emap, eraseMapped, eraseInfo_mapInfo, hi, hstar rfl, h3.1, Option.map]

/-! ### the finished field -/
theorem lastSegment_msgGoType (V : CfgView) (x : String) : lastSegment (msgGoType V x) = lastSegment x := by
  unfold msgGoType
  split
  · rfl
  · exact lastSegment_qualified _ _

def mvIsMsg (mapV : Option Field) : Bool := match mapV with | some v => v.info.tf.isMessage | none => false

def finishInfoE (isCustom : Bool) (suffix : String) (isMap isRep mvm : Bool) (ooName ooType : String) (e : FieldInfo) :
    FieldInfo :=
  { e with isCustomType := isCustom, suffix := suffix, kind := kindOf isCustom isMap mvm isRep e.tf.isMessage,
           oneOfName := ooName, oneOfType := ooType }

theorem eraseInfo_finishInfo (V : CfgView) (ctx : MsgCtx) (f : FieldD) (keys : Keys) (isMap isRep : Bool)
    (i : FieldInfo) (mapV : Option Field) :
    eraseInfo (finishInfo V ctx f keys isMap isRep i mapV)
      = finishInfoE (isCustomOf V f keys) (suffixOf V f keys) isMap isRep (mvIsMsg mapV) (ooOf V ctx f).1
          (lastSegment (ooOf V ctx f).2) (eraseInfo i) := rfl

theorem ooOf_rel (V : CfgView) (p : String) (o : List (String × String)) (ctx : MsgCtx) (f : FieldD) :
    (ooOf (repkg V p o) ctx f).1 = (ooOf V ctx f).1 ∧
    lastSegment (ooOf (repkg V p o) ctx f).2 = lastSegment (ooOf V ctx f).2 := by
  unfold ooOf
  cases f.oneof with
  | none => exact ⟨rfl, rfl⟩
  | some i => exact ⟨rfl, by simp only [lastSegment_msgGoType]⟩

theorem mvIsMsg_rel (mv' mv : Option Field) (h : mv'.map eraseField = mv.map eraseField) : mvIsMsg mv' = mvIsMsg mv := by
  cases mv' with
  | none => cases mv with
    | none => rfl
    | some v => simp at h
  | some v' => cases mv with
    | none => simp at h
    | some v =>
      simp only [Option.map, Option.some.injEq] at h
      have := congrArg (fun x => x.info.tf.isMessage) h
      simp only [eraseField_info, eraseInfo_tf_isMessage] at this
      exact this

theorem eraseField_finishOf (V : CfgView) (ctx : MsgCtx) (f : FieldD) (keys : Keys) (isMap isRep : Bool)
    (i : FieldInfo) (mapV : Option Field) (nm : Option Msg) :
    eraseField (finishOf V ctx f keys isMap isRep i mapV nm)
      = ⟨eraseInfo (finishInfo V ctx f keys isMap isRep i mapV), (mapV.map (·.info)).map eraseInfo,
         (subOf mapV nm).1.map eraseMsgInfo, eraseFields (subOf mapV nm).2⟩ := rfl

theorem subOf_rel (mv' mv : Option Field) (nm' nm : Option Msg) (h : mv'.map eraseField = mv.map eraseField)
    (hn : nm'.map eraseMsg = nm.map eraseMsg) :
    (mv'.map (·.info)).map eraseInfo = (mv.map (·.info)).map eraseInfo ∧
    (subOf mv' nm').1.map eraseMsgInfo = (subOf mv nm).1.map eraseMsgInfo ∧
    eraseFields (subOf mv' nm').2 = eraseFields (subOf mv nm).2 := by
  cases mv' with
  | some v' => cases mv with
    | none => simp at h
    | some v =>
      simp only [Option.map, Option.some.injEq] at h
      cases v' with | mk a' b' c' d' =>
      cases v with | mk a b c d =>
      simp only [eraseField, Field.mk.injEq] at h
      simp only [subOf, Option.map, h.1, true_and]
      exact ⟨h.2.2.1, h.2.2.2⟩
  | none => cases mv with
    | some v => simp at h
    | none =>
      cases nm' with
      | none => cases nm with
        | none => exact ⟨rfl, rfl, rfl⟩
        | some m => simp at hn
      | some m' => cases nm with
        | none => simp at hn
        | some m =>
          simp only [Option.map, Option.some.injEq] at hn
          simp only [eraseMsg, Msg.mk.injEq] at hn
          simp only [subOf, Option.map, hn.1, hn.2, and_self]

theorem finishOf_rel (V : CfgView) (p : String) (o : List (String × String)) (ctx : MsgCtx) (f : FieldD)
    (keys : Keys) (isMap isRep : Bool) (i' i : FieldInfo) (mv' mv : Option Field) (nm' nm : Option Msg)
    (hi : eraseInfo i' = eraseInfo i) (hmv : mv'.map eraseField = mv.map eraseField)
    (hnm : nm'.map eraseMsg = nm.map eraseMsg) :
    eraseField (finishOf (repkg V p o) ctx f keys isMap isRep i' mv' nm')
      = eraseField (finishOf V ctx f keys isMap isRep i mv nm) := by
  rw [eraseField_finishOf, eraseField_finishOf, eraseInfo_finishInfo, eraseInfo_finishInfo]
  obtain ⟨h1, h2, h3⟩ := subOf_rel mv' mv nm' nm hmv hnm
  obtain ⟨h4, h5⟩ := ooOf_rel V p o ctx f
  rw [h1, h2, h3, h4, h5, hi, mvIsMsg_rel mv' mv hmv]
  rfl

/-! ### message level -/
theorem eraseFields_append (a b : List Field) : eraseFields (a ++ b) = eraseFields a ++ eraseFields b := by
  simp only [eraseFields_eq_map, List.map_append]

theorem collectFields_rel (bf' bf : FieldD → Except BuildError (List Field)) :
    ∀ (l : List FieldD), (∀ f ∈ l, emap eraseFields (bf' f) = emap eraseFields (bf f)) →
      emap eraseFields (collectFields (l.map bf')) = emap eraseFields (collectFields (l.map bf))
  | [], _ => rfl
  | f :: l, h => by
    have ih := collectFields_rel bf' bf l (fun x hx => h x (List.mem_cons_of_mem _ hx))
    simp only [List.map_cons]
    rcases emap_eq _ (h f List.mem_cons_self) with ⟨e, h1, h2⟩ | ⟨a', a, h1, h2, h3⟩
    · rw [h1, h2]; rfl
    · rw [h1, h2]
      simp only [collectFields]
      rcases emap_eq _ ih with ⟨e, g1, g2⟩ | ⟨b', b, g1, g2, g3⟩
      · rw [g1, g2]
      · rw [g1, g2]; simp only [emap, eraseFields_append, h3, g3]

theorem eraseFields_insertByName (f : Field) : ∀ l : List Field,
    eraseFields (insertByName f l) = insertByName (eraseField f) (eraseFields l)
  | [] => rfl
  | g :: gs => by
    simp only [insertByName, eraseFields, eraseField_info, eraseInfo_name]
    split
    · simp only [eraseFields]
    · simp only [eraseFields, eraseFields_insertByName f gs]

theorem eraseFields_sort : ∀ l : List Field, eraseFields (sortFieldsByName l) = sortFieldsByName (eraseFields l)
  | [] => rfl
  | f :: l => by
    have ih := eraseFields_sort l
    simp only [sortFieldsByName, List.foldr_cons, eraseFields] at ih ⊢
    rw [eraseFields_insertByName, ih]

theorem fieldsOf_rel (bf' bf : FieldD → Except BuildError (List Field)) (V : CfgView) (p : String)
    (o : List (String × String)) (desc : MsgD) (cpath : String)
    (h : ∀ f ∈ desc.fields, emap eraseFields (bf' f) = emap eraseFields (bf f)) :
    emap eraseFields (fieldsOf bf' (repkg V p o) desc cpath) = emap eraseFields (fieldsOf bf V desc cpath) := by
  unfold fieldsOf
  split
  · rfl
  · rcases emap_eq _ (collectFields_rel bf' bf desc.fields h) with ⟨e, g1, g2⟩ | ⟨b', b, g1, g2, g3⟩
    · rw [g1, g2]
    · rw [g1, g2]
      simp only [emap, repkg]
      by_cases hs : V.sort = true
      · simp only [hs, if_true, eraseFields_sort, g3]
      · simp only [hs, Bool.false_eq_true, if_false, g3]

theorem promoted_erase : ∀ (fs : List Field) (own : List String),
    withPromotedOneOfs own (eraseFields fs) = withPromotedOneOfs own fs
  | [], _ => rfl
  | f :: fs, own => by
    simp only [withPromotedOneOfs, eraseFields, List.foldl_cons, eraseField_info, eraseInfo_oneOfName, eraseInfo_embed]
    exact promoted_erase fs _

theorem msgOf_rel (V : CfgView) (p : String) (o : List (String × String)) (desc : MsgD) (isRoot : Bool)
    (cpath : String) (fs' fs : List Field) (h : eraseFields fs' = eraseFields fs) :
    eraseMsg (msgOf (repkg V p o) desc isRoot cpath fs') = eraseMsg (msgOf V desc isRoot cpath fs) := by
  have hp : withPromotedOneOfs (oneOfNames desc) fs' = withPromotedOneOfs (oneOfNames desc) fs := by
    rw [← promoted_erase fs', ← promoted_erase fs, h]
  simp only [eraseMsg, msgOf, eraseMsgInfo, h, hp, repkg]

/-! ### the side conditions and the induction -/

/-- what the rest of the front end and the emitted code's semantics see of a field's Go type string -/
def TyRel (g' g : String) : Prop :=
  g'.toList.contains '*' = g.toList.contains '*' ∧ normCast (elemOf g') = normCast (elemOf g)

instance (g' g : String) : Decidable (TyRel g' g) := by unfold TyRel; exact inferInstance

/-- side condition for one declared field `f` of message `d` -/
def FieldOK (V' V : CfgView) (d : MsgD) (f : FieldD) : Prop :=
  TyRel (goTypeOf V' { desc := d, path := "" } f) (goTypeOf V { desc := d, path := "" } f) ∧
  (f.embed = true →
    embedShort (goTypeOf V' { desc := d, path := "" } f) = embedShort (goTypeOf V { desc := d, path := "" } f)) ∧
  (f.card = .map →
    (mapTyp V' f).toList.contains '*' = (mapTyp V f).toList.contains '*' ∧ TyRel (mapVGo V' f) (mapVGo V f))

instance (V' V : CfgView) (d : MsgD) (f : FieldD) : Decidable (FieldOK V' V d f) := by
  unfold FieldOK; exact inferInstance

theorem goTypeOf_ctx (V : CfgView) (ctx : MsgCtx) (f : FieldD) :
    goTypeOf V ctx f = goTypeOf V { desc := ctx.desc, path := "" } f := rfl

theorem buildFieldCore_step (fuel' : Nat) (V : CfgView) (p : String) (o : List (String × String)) (req : Request)
    (ihM : ∀ d path, (∃ n, req.findMessage n = some d) →
      emap eraseMsg (buildMessage fuel' (repkg V p o) req d false path) = emap eraseMsg (buildMessage fuel' V req d false path))
    (ihF : ∀ ctx f keys g' g, TyRel g' g → f.embed = false →
      emap eraseFields (buildFieldCore fuel' (repkg V p o) req ctx f keys g' false false false)
        = emap eraseFields (buildFieldCore fuel' V req ctx f keys g false false false))
    (ctx : MsgCtx) (f : FieldD) (keys : Keys) (g' g : String) (isMap isRep hc : Bool)
    (hty : TyRel g' g) (hshort : f.embed = true → embedShort g' = embedShort g)
    (hmap : isMap = true →
      (mapTyp (repkg V p o) f).toList.contains '*' = (mapTyp V f).toList.contains '*' ∧
      TyRel (mapVGo (repkg V p o) f) (mapVGo V f)) :
    emap eraseFields (buildFieldCore (fuel' + 1) (repkg V p o) req ctx f keys g' isMap isRep hc)
      = emap eraseFields (buildFieldCore (fuel' + 1) V req ctx f keys g isMap isRep hc) := by
  rw [buildFieldCore_succ, buildFieldCore_succ]
  have hex : (repkg V p o).excluded keys = V.excluded keys := rfl
  rw [hex]
  split
  · rfl
  · rcases emap_eq _ (getTerraformType_rel V p o f isMap isRep g g' keys.path hty.2) with
      ⟨e, h1, h2⟩ | ⟨tf', tf, h1, h2, htf⟩
    · rw [h1, h2]
    · rw [h1, h2]
      simp only []
      have hmsg : tf'.isMessage = tf.isMessage := congrArg (fun t => t.isMessage) htf
      rcases emap_eq _ (nestedOf_rel (buildMessage fuel' (repkg V p o) req) (buildMessage fuel' V req) req f keys
          tf' tf isMap hmsg (fun d hd => ihM d keys.path ⟨_, hd⟩)) with ⟨e, n1, n2⟩ | ⟨nm', nm, n1, n2, hnm⟩
      · rw [n1, n2]
      · rw [n1, n2, hmsg, hty.1]
        simp only []
        split
        · next hc1 =>
          simp only [Bool.and_eq_true] at hc1
          exact embedOut_rel g' g _ nm' nm (hshort hc1.2) hnm
        · have hi := repInfo_rel isRep _ _ (info0_rel V p o f keys g' g isMap isRep hc tf' tf hty.1 htf)
          rcases emap_eq _ (mappedOf_rel
              (fun vGo => buildFieldCore fuel' (repkg V p o) req ctx f.mapValueField keys vGo false false false)
              (fun vGo => buildFieldCore fuel' V req ctx f.mapValueField keys vGo false false false)
              V p o f keys _ _ isMap hi (fun hm => (hmap hm).1)
              (fun hm => ihF ctx f.mapValueField keys _ _ (hmap hm).2 rfl)) with ⟨e, m1, m2⟩ | ⟨x', x, m1, m2, hx⟩
          · rw [m1, m2]
          · rw [m1, m2]
            obtain ⟨i', mv'⟩ := x'
            obtain ⟨i, mv⟩ := x
            simp only [eraseMapped, Prod.mk.injEq] at hx
            simp only [emap, eraseFields, finishOf_rel V p o ctx f keys isMap isRep i' i mv' mv nm' nm hx.1 hx.2 hnm]

theorem buildMessage_step (fuel : Nat) (V : CfgView) (p : String) (o : List (String × String)) (req : Request)
    (ihF : ∀ ctx f keys g' g isMap isRep hc, TyRel g' g → (f.embed = true → embedShort g' = embedShort g) →
      (isMap = true →
        (mapTyp (repkg V p o) f).toList.contains '*' = (mapTyp V f).toList.contains '*' ∧
        TyRel (mapVGo (repkg V p o) f) (mapVGo V f)) →
      emap eraseFields (buildFieldCore fuel (repkg V p o) req ctx f keys g' isMap isRep hc)
        = emap eraseFields (buildFieldCore fuel V req ctx f keys g isMap isRep hc))
    (desc : MsgD) (isRoot : Bool) (path : String) (hd : ∀ f ∈ desc.fields, FieldOK (repkg V p o) V desc f) :
    emap eraseMsg (buildMessage (fuel + 1) (repkg V p o) req desc isRoot path)
      = emap eraseMsg (buildMessage (fuel + 1) V req desc isRoot path) := by
  rw [buildMessage_succ, buildMessage_succ]
  have hfs := fieldsOf_rel
    (fun f => buildFieldCore fuel (repkg V p o) req { desc := desc, path := ctxPath desc isRoot path } f
      (keysOf { desc := desc, path := ctxPath desc isRoot path } f)
      (goTypeOf (repkg V p o) { desc := desc, path := ctxPath desc isRoot path } f)
      (f.card == .map) (f.card == .repeated) f.comment.isSome)
    (fun f => buildFieldCore fuel V req { desc := desc, path := ctxPath desc isRoot path } f
      (keysOf { desc := desc, path := ctxPath desc isRoot path } f)
      (goTypeOf V { desc := desc, path := ctxPath desc isRoot path } f)
      (f.card == .map) (f.card == .repeated) f.comment.isSome)
    V p o desc (ctxPath desc isRoot path) (fun f hf => by
      obtain ⟨h1, h2, h3⟩ := hd f hf
      exact ihF { desc := desc, path := ctxPath desc isRoot path } f _ _ _ _ _ _ h1 h2
        (fun hm => h3 (by simpa using hm)))
  rcases emap_eq _ hfs with ⟨e, g1, g2⟩ | ⟨fs', fs, g1, g2, g3⟩
  · rw [g1, g2]
  · rw [g1, g2]
    simp only [emap, msgOf_rel V p o desc isRoot _ fs' fs g3]

/-- the messages a field of the request can refer to -/
def reqMsgs (req : Request) : List MsgD := req.file.messages ++ req.deps.flatMap (·.messages)

theorem findMessage_mem (req : Request) (n : String) (d : MsgD) (h : req.findMessage n = some d) : d ∈ reqMsgs req :=
  List.mem_of_find?_eq_some h

/-- **side condition**: every declared field of the message being built and of every message of the request
satisfies `FieldOK` (a decidable statement about Go type strings computed from the descriptor) -/
def SideOK (V' V : CfgView) (req : Request) (d : MsgD) : Prop :=
  ∀ m ∈ d :: reqMsgs req, ∀ f ∈ m.fields, FieldOK V' V m f

instance (V' V : CfgView) (req : Request) (d : MsgD) : Decidable (SideOK V' V req d) := by
  unfold SideOK; exact inferInstance

theorem build_rel (V : CfgView) (p : String) (o : List (String × String)) (req : Request)
    (H : ∀ m ∈ reqMsgs req, ∀ f ∈ m.fields, FieldOK (repkg V p o) V m f) : ∀ fuel : Nat,
    (∀ desc isRoot path, (∀ f ∈ desc.fields, FieldOK (repkg V p o) V desc f) →
      emap eraseMsg (buildMessage fuel (repkg V p o) req desc isRoot path)
        = emap eraseMsg (buildMessage fuel V req desc isRoot path)) ∧
    (∀ ctx f keys g' g isMap isRep hc, TyRel g' g → (f.embed = true → embedShort g' = embedShort g) →
      (isMap = true →
        (mapTyp (repkg V p o) f).toList.contains '*' = (mapTyp V f).toList.contains '*' ∧
        TyRel (mapVGo (repkg V p o) f) (mapVGo V f)) →
      emap eraseFields (buildFieldCore fuel (repkg V p o) req ctx f keys g' isMap isRep hc)
        = emap eraseFields (buildFieldCore fuel V req ctx f keys g isMap isRep hc))
  | 0 => by
    refine ⟨fun desc isRoot path _ => ?_, fun ctx f keys g' g isMap isRep hc _ _ _ => ?_⟩
    · rw [buildMessage, buildMessage]
    · rw [buildFieldCore, buildFieldCore]
  | fuel + 1 => by
    obtain ⟨ihM, ihF⟩ := build_rel V p o req H fuel
    refine ⟨fun desc isRoot path hd => buildMessage_step fuel V p o req ihF desc isRoot path hd,
      fun ctx f keys g' g isMap isRep hc h1 h2 h3 => ?_⟩
    exact buildFieldCore_step fuel V p o req
      (fun d path ⟨n, hn⟩ => ihM d false path (H d (findMessage_mem req n d hn)))
      (fun ctx f keys g' g hty he => ihF ctx f keys g' g false false false hty (fun h => by simp [he] at h)
        (fun h => by simp at h))
      ctx f keys g' g isMap isRep hc h1 h2 h3

/-- **the front end**: the two layouts build IRs with the same erasure, or fail with the same error -/
theorem buildMessage_repkg (V : CfgView) (p : String) (o : List (String × String)) (req : Request) (desc : MsgD)
    (hside : SideOK (repkg V p o) V req desc) (fuel : Nat) (isRoot : Bool) (path : String) :
    emap eraseMsg (buildMessage fuel (repkg V p o) req desc isRoot path)
      = emap eraseMsg (buildMessage fuel V req desc isRoot path) :=
  (build_rel V p o req (fun m hm => hside m (List.mem_cons_of_mem _ hm)) fuel).1 desc isRoot path
    (hside desc List.mem_cons_self)

/-! ### unchanged types satisfy the side condition outright -/
theorem TyRel.refl (g : String) : TyRel g g := ⟨rfl, rfl⟩

/-- builtin element types are never qualified: the condition holds for them whatever the packages are -/
theorem tyRel_builtin (o' o : List (String × String)) (t p' p : String) (h : isBuiltinType (typAndMod t).1 = true) :
    TyRel (prependPackageNameIfMissing o' t p') (prependPackageNameIfMissing o t p) := by
  rw [Props.C13.C13_builtin o' t p' h, Props.C13.C13_builtin o t p h]; exact TyRel.refl t

/-- already qualified types are left alone -/
theorem tyRel_qualified (o' o : List (String × String)) (t p' p : String)
    (h : (typBeforeBracket (typAndMod t).1).toList.contains '.' = true) :
    TyRel (prependPackageNameIfMissing o' t p') (prependPackageNameIfMissing o t p) := by
  have e : ∀ o p, prependPackageNameIfMissing o t p = t := by
    intro o p
    have h' : '.' ∈ (typBeforeBracket (typAndMod t).1).toList := by simpa using h
    simp [prependPackageNameIfMissing, h']
  rw [e, e]; exact TyRel.refl t

/-! ## 4. `C13_behaves_same` -/

/-- the second layout: another default package, another target package, other import path overrides -/
def relayout (cfg : Config) (p t : String) (o : List (String × String)) : Config :=
  { cfg with defaultPackageName := p, targetPackageName := t, importPathOverrides := o }

theorem viewOf_repkg (cfg : Config) (p t : String) (o : List (String × String)) :
    viewOf (relayout cfg p t o) = repkg (viewOf cfg) p o := rfl

/-- the type string printed by element conversion diagnostics of CopyFrom is the only place where the import path
overrides reach the emitted code's behaviour -/
theorem fromElemBody_ov (rec : FromRec) (ov' ov : List (String × String)) (info vf : FieldInfo)
    (h : withType ov' vf.tf.elemValueType = withType ov vf.tf.elemValueType) :
    fromElemBody rec ov' info vf = fromElemBody rec ov info vf := by
  funext e diags hooks
  simp only [fromElemBody, h]

theorem copyFromFieldWith_ov (rec : FromRec) (ov' ov : List (String × String)) (info : FieldInfo)
    (mapVal : Option FieldInfo) (msg : Option MsgInfo) (tfAttrs : Option (List (String × TfVal))) (st : FromSt)
    (h1 : withType ov' info.tf.elemValueType = withType ov info.tf.elemValueType)
    (h2 : withType ov' (mapVal.getD info).tf.elemValueType = withType ov (mapVal.getD info).tf.elemValueType) :
    copyFromFieldWith rec ov' info mapVal msg tfAttrs st = copyFromFieldWith rec ov info mapVal msg tfAttrs st := by
  simp only [copyFromFieldWith, fromElemBody_ov rec ov' ov info info h1,
    fromElemBody_ov rec ov' ov info (mapVal.getD info) h2]

mutual
/-- the two override tables print every element value type of the IR the same way -/
def ovAgreeField (ov' ov : List (String × String)) : Field → Bool
  | ⟨info, mapVal, _, sub⟩ =>
    (withType ov' info.tf.elemValueType == withType ov info.tf.elemValueType) &&
    (withType ov' (mapVal.getD info).tf.elemValueType == withType ov (mapVal.getD info).tf.elemValueType) &&
    ovAgreeFields ov' ov sub
def ovAgreeFields (ov' ov : List (String × String)) : List Field → Bool
  | [] => true
  | f :: fs => ovAgreeField ov' ov f && ovAgreeFields ov' ov fs
end

mutual
theorem copyFromFields_ov (ov' ov : List (String × String)) (fs : List Field) :
    ovAgreeFields ov' ov fs = true → ∀ (tfAttrs : Option (List (String × TfVal))) (st : FromSt),
    copyFromFields ov' fs tfAttrs st = copyFromFields ov fs tfAttrs st := by
  match fs with
  | [] => intro _ tfAttrs st; simp [copyFromFields]
  | f :: rest =>
    intro h tfAttrs st
    rw [ovAgreeFields, Bool.and_eq_true] at h
    simp only [copyFromFields, copyFromField_ov ov' ov f h.1, copyFromFields_ov ov' ov rest h.2]

theorem copyFromField_ov (ov' ov : List (String × String)) (f : Field) :
    ovAgreeField ov' ov f = true → ∀ (tfAttrs : Option (List (String × TfVal))) (st : FromSt),
    copyFromField ov' f tfAttrs st = copyFromField ov f tfAttrs st := by
  match f with
  | ⟨info, mapVal, msg, sub⟩ =>
    intro h tfAttrs st
    rw [ovAgreeField, Bool.and_eq_true, Bool.and_eq_true, beq_iff_eq, beq_iff_eq] at h
    simp only [copyFromField]
    have hrec : (fun attrs (s : FromSt) => copyFromFields ov' sub attrs
          { s with obj := resetOneOfs ((msg.map (·.oneOfNames)).getD []) s.obj })
        = (fun attrs (s : FromSt) => copyFromFields ov sub attrs
          { s with obj := resetOneOfs ((msg.map (·.oneOfNames)).getD []) s.obj }) := by
      funext attrs s; exact copyFromFields_ov ov' ov sub h.2 attrs _
    rw [hrec, copyFromFieldWith_ov _ ov' ov info mapVal msg tfAttrs st h.1.1 h.1.2]
end

theorem copyFrom_ov (ov' ov : List (String × String)) (m : Msg) (h : ovAgreeFields ov' ov m.fields = true)
    (tf : TfVal) (obj : GoVal) : copyFrom ov' m tf obj = copyFrom ov m tf obj := by
  unfold copyFrom
  cases tf <;> simp only [copyFromFields_ov ov' ov m.fields h]

/-- **C13**: same descriptor, same inputs ⇒ the two layouts fail with the same error, or both succeed and the three
generated functions behave identically: `CopyTo` and `CopyFrom` give the same outcome (value, diagnostics, hook
calls, panics) for every input, and `GenSchema` returns the same schema. -/
theorem C13_behaves_same (cfg : Config) (p t : String) (o : List (String × String)) (req : Request) (desc : MsgD)
    (hside : SideOK (viewOf (relayout cfg p t o)) (viewOf cfg) req desc) (fuel : Nat) (isRoot : Bool) (path : String) :
    (∀ e, buildMessage fuel (viewOf cfg) req desc isRoot path = .error e →
        buildMessage fuel (viewOf (relayout cfg p t o)) req desc isRoot path = .error e) ∧
    (∀ m, buildMessage fuel (viewOf cfg) req desc isRoot path = .ok m →
      ∃ m', buildMessage fuel (viewOf (relayout cfg p t o)) req desc isRoot path = .ok m' ∧
        eraseMsg m' = eraseMsg m ∧
        (∀ obj tf, copyTo m' obj tf = copyTo m obj tf) ∧
        (∀ ov tf obj, copyFrom ov m' tf obj = copyFrom ov m tf obj) ∧
        schemaOf m' = schemaOf m ∧ attrTypesOf m' = attrTypesOf m) := by
  have h := buildMessage_repkg (viewOf cfg) p o req desc hside fuel isRoot path
  rw [← viewOf_repkg cfg p t o] at h
  rcases emap_eq _ h with ⟨e, h1, h2⟩ | ⟨m', m, h1, h2, h3⟩
  · refine ⟨fun e' he => ?_, fun m hm => ?_⟩
    · rw [h2] at he; cases he; exact h1
    · rw [h2] at hm; cases hm
  · refine ⟨fun e' he => ?_, fun m0 hm => ?_⟩
    · rw [h2] at he; cases he
    · rw [h2] at hm; cases hm
      obtain ⟨a, b, c⟩ := same_erasure_same_behaviour m' m h3
      exact ⟨m', h1, h3, a, b, c, by simp only [attrTypesOf, c]⟩


namespace Example

def inner : MsgD := { name := "Inner", fields := [{ name := "id", type := "string" }, { name := "n", type := "int32" }] }

def outer : MsgD :=
  { name := "Outer", oneofs := ["choice"],
    fields := [
      { name := "name", type := "string" },
      { name := "inner", type := "message", typeName := "Inner" },
      { name := "inners", type := "message", typeName := "Inner", card := .repeated },
      { name := "by_key", type := "message", typeName := "Inner", card := .map },
      { name := "labels", type := "string", card := .map },
      { name := "mode", type := "enum", typeName := "Mode" },
      { name := "emb", type := "message", typeName := "Inner", embed := true },
      { name := "ttl", type := "duration", stdDuration := true, nullable := "false" },
      { name := "label", type := "string", castType := "Label" },
      { name := "data", type := "bytes" },
      { name := "a", type := "string", oneof := some 0 },
      { name := "b", type := "message", typeName := "Inner", oneof := some 0 } ] }

def req : Request := { file := { name := "t.proto", package := "t", messages := [inner, outer] } }

def cfg : Config := { types := ["Outer"], durationType := some { type := "DurationType", valueType := "DurationValue", castToType := "time.Duration", castFromType := "time.Duration" } }

def cfg' : Config := relayout cfg "example.com/x/types" "provider" [("example.com/x/types", "example.com/y/api")]

end Example


/-- a concrete descriptor (nested, repeated and map-valued messages, an enum, an embedded message, a std duration, an
unqualified cast type, bytes, a oneof) satisfies the side conditions for a layout with a default package, a target
package and an import path override -/
example : SideOK (viewOf Example.cfg') (viewOf Example.cfg) Example.req Example.outer := by decide +kernel

/-- … and both layouts do build it -/
example : (buildMessage 10 (viewOf Example.cfg) Example.req Example.outer true "").toBool = true ∧
    (buildMessage 10 (viewOf Example.cfg') Example.req Example.outer true "").toBool = true := by decide +kernel

/-! ### what the side conditions exclude (witnesses) -/

/-- The side condition is not vacuous: an enum (or cast type) called `Time` generated into a package whose qualifier is
`time` becomes `time.Time`, which the emitted cast reads as the std type. -/
theorem TyRel_witness :
    ¬ TyRel (prependPackageNameIfMissing [] "Time" "time") (prependPackageNameIfMissing [] "Time" "") := by
  decide

/-- … and the semantics does see it: the representation of the field changes -/
theorem C13_rep_witness :
    ({ name := "F", nameSnake := "f", protoType := "enum",
       tf := { valueCastFromType := prependPackageNameIfMissing [] "Time" "time" } } : FieldInfo).rep
    ≠ ({ name := "F", nameSnake := "f", protoType := "enum",
         tf := { valueCastFromType := prependPackageNameIfMissing [] "Time" "" } } : FieldInfo).rep := by
  decide

/-- a package name containing `*` would flip `isNullable` -/
theorem TyRel_star_witness :
    ¬ TyRel (prependPackageNameIfMissing [] "Foo" "a*b(") (prependPackageNameIfMissing [] "Foo" "") := by
  decide

def ovWitnessMsg : Msg :=
  { info := { name := "M" },
    fields := [{ info := { name := "Xs", nameSnake := "xs", kind := .primitiveList, isRepeated := true, path := "M.xs",
                           protoType := "string",
                           tf := { valueType := "github.com/hashicorp/terraform-plugin-framework/types.List",
                                   elemValueType := "github.com/hashicorp/terraform-plugin-framework/types.String" } } }] }

def diagsOf (r : Outcome FromResult) : List Diag := match r with | .ok x => x.diags | _ => []

/-- The import path overrides are visible in one place of the emitted code's behaviour: the type name printed by the
element conversion diagnostic of CopyFrom. (An override of the framework's own `types` package.) -/
theorem copyFrom_ov_witness :
    diagsOf (copyFrom [] ovWitnessMsg
      (.obj false false (some [("xs", .list false false (some [.prim .int64 false false (.w64 0)]) none)]) none) (.struct []))
    ≠ diagsOf (copyFrom [("github.com/hashicorp/terraform-plugin-framework/types", "example.com/fork/types")] ovWitnessMsg
      (.obj false false (some [("xs", .list false false (some [.prim .int64 false false (.w64 0)]) none)]) none) (.struct [])) := by
  decide +kernel

/-- **C13 for root messages** (`buildRoot`, the function `Plugin.build` calls): the two layouts skip / fail / succeed
together, and when they succeed the three generated functions agree. The emitted `CopyFrom` of each layout prints
element types with its own override table: the last clause says they agree under `ovAgreeFields`. -/
theorem C13_behaves_same_root (cfg : Config) (p t : String) (o : List (String × String)) (req : Request) (desc : MsgD)
    (hside : SideOK (viewOf (relayout cfg p t o)) (viewOf cfg) req desc) :
    (∀ e, buildRoot cfg req desc = .error e → buildRoot (relayout cfg p t o) req desc = .error e) ∧
    (buildRoot cfg req desc = .ok none → buildRoot (relayout cfg p t o) req desc = .ok none) ∧
    (∀ m, buildRoot cfg req desc = .ok (some m) →
      ∃ m', buildRoot (relayout cfg p t o) req desc = .ok (some m') ∧
        eraseMsg m' = eraseMsg m ∧
        (∀ obj tf, copyTo m' obj tf = copyTo m obj tf) ∧
        (∀ ov tf obj, copyFrom ov m' tf obj = copyFrom ov m tf obj) ∧
        schemaOf m' = schemaOf m ∧
        (ovAgreeFields o cfg.importPathOverrides m.fields = true →
          ∀ tf obj, copyFrom o m' tf obj = copyFrom cfg.importPathOverrides m tf obj)) := by
  obtain ⟨hE, hO⟩ := C13_behaves_same cfg p t o req desc hside (defaultFuel req) true ""
  have hty : (relayout cfg p t o).types = cfg.types := rfl
  unfold buildRoot
  rw [hty]
  split
  · refine ⟨?_, ?_, ?_⟩
    · intro e h; cases h
    · intro _; rfl
    · intro m h; cases h
  · cases hb : buildMessage (defaultFuel req) (viewOf cfg) req desc true "" with
    | error e =>
      rw [hE e hb]
      refine ⟨?_, ?_, ?_⟩
      · intro e' h; exact h
      · intro h; cases h
      · intro m h; cases h
    | ok m =>
      obtain ⟨m', h1, h2, h3, h4, h5, _⟩ := hO m hb
      rw [h1]
      refine ⟨?_, ?_, ?_⟩
      · intro e h; cases h
      · intro h; cases h
      · intro m0 h
        simp only [Except.ok.injEq, Option.some.injEq] at h
        subst h
        exact ⟨m', rfl, h2, h3, h4, h5, fun ha tf obj => by rw [h4 o tf obj, copyFrom_ov o _ m ha]⟩


/-! ### what is NOT proved

`SideOK` is a decidable statement about the Go type strings computed from the descriptor; it is checked by `decide`
for a concrete descriptor above, and `TyRel_witness` / `C13_rep_witness` show that it cannot be dropped. Not proved:
that it holds for EVERY descriptor with identifier-like names as soon as the package name is path-like and its
qualifier is not `time` (this needs string-level reasoning about `typAndMod` / `appendQual`, i.e. about
`List.range`/`filter`/`getLast?` index computations). The expected statement: -/

def identLike (s : String) : Bool := s.toList.all fun c => c.isAlphanum || c == '_'
def pkgLike (s : String) : Bool := s.toList.all fun c => c.isAlphanum || c == '_' || c == '.' || c == '/' || c == '-'

def descSane (req : Request) (d : MsgD) : Bool :=
  (d :: reqMsgs req).all fun m => identLike m.name && m.fields.all fun f =>
    identLike f.name && identLike f.typeName && identLike f.castType && identLike f.customType &&
    (!f.embed || f.card == .single)

/-- NOT PROVED (conjecture; holds for the example): sane names ⇒ the side conditions, relative to same-package
generation (`defaultPackageName = ""`). -/
def SideOK_sane_full : Prop :=
  ∀ (V : CfgView) (p : String) (o : List (String × String)) (req : Request) (d : MsgD),
    V.defaultPackageName = "" → pkgLike p = true → qualifierOf ((o.lookup p).getD p) ≠ "time" →
    descSane req d = true → SideOK (repkg V p o) V req d

example : descSane Example.req Example.outer = true := by decide +kernel

/-- together with `SideOK_sane_full` the conclusion of `C13_behaves_same` would hold for every sane descriptor -/
def C13_behaves_same_full : Prop :=
  ∀ (cfg : Config) (p t : String) (o : List (String × String)) (req : Request) (desc : MsgD),
    cfg.defaultPackageName = "" → pkgLike p = true → qualifierOf ((o.lookup p).getD p) ≠ "time" →
    descSane req desc = true →
    ∀ (fuel : Nat) (isRoot : Bool) (path : String),
      (∀ e, buildMessage fuel (viewOf cfg) req desc isRoot path = .error e →
          buildMessage fuel (viewOf (relayout cfg p t o)) req desc isRoot path = .error e) ∧
      (∀ m, buildMessage fuel (viewOf cfg) req desc isRoot path = .ok m →
        ∃ m', buildMessage fuel (viewOf (relayout cfg p t o)) req desc isRoot path = .ok m' ∧
          (∀ obj tf, copyTo m' obj tf = copyTo m obj tf) ∧
          (∀ ov tf obj, copyFrom ov m' tf obj = copyFrom ov m tf obj) ∧
          schemaOf m' = schemaOf m)

/-- the reduction is proved: the only missing piece is `SideOK_sane_full` -/
theorem C13_behaves_same_full_of_sideOK (h : SideOK_sane_full) : C13_behaves_same_full := by
  intro cfg p t o req desc hp hpk hq hs fuel isRoot path
  have hside : SideOK (viewOf (relayout cfg p t o)) (viewOf cfg) req desc := by
    rw [viewOf_repkg]; exact h (viewOf cfg) p o req desc hp hpk hq hs
  obtain ⟨h1, h2⟩ := C13_behaves_same cfg p t o req desc hside fuel isRoot path
  refine ⟨h1, fun m hm => ?_⟩
  obtain ⟨m', a, _, b, c, d, _⟩ := h2 m hm
  exact ⟨m', a, b, c, d⟩

end PGT.PackageIndep
