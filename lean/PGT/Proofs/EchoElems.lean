import PGT.Proofs.EchoAll
/-
C08 (apply echo), task P64: children of nullable embedded messages and custom kinds inside the messages of list / map
ELEMENTS – the gap `echo_all_full` (PGT/Proofs/EchoAll.lean) lists as "step (1)".  Everything below is proved; section H says
what stays open.

 A. what the `CopyTo<S>` hook writes for a string-like value holds nothing unknown (`custRenders_known`).
 B. **part (2)**: CopyTo from scratch of a struct typed by `ToOKs` (PGT/Proofs/ToAll.lean) and `RT3OKs`
    (PGT/Proofs/RoundTripEmbed.lean) – plain tree, children of nullable embedded messages of EVERY kind, custom kinds, scalar
    oneof branches, at every depth – produces no diagnostic and leaves NOTHING UNKNOWN (`freshField3` / `freshFields3`,
    `freshRender_noUnknown`, `copyTo_fresh_noUnknown`): `freshField2` of PGT/Proofs/EchoOneofDeep.lean for the embedded / custom
    templates.  Message / list / map children of a nullable embedded message are transferred to the same field without the
    flag (`copyToField_unembed`, `toOK_unembed`).
 C. **part (1)**, the typing lemma `elem_typing`: the struct decoded from a planned element whose fields satisfy the
    element-level judgement `ElemOKs` is typed, `ToOKs ∧ RT3OKs`.  `ElemOK`: (P) plain tree; (E) children of a nullable
    embedded message – scalar children always, message / list / map children iff the decode allocates the parent
    (`ParentAllocBy`: some child of the same parent is custom or has a KNOWN attribute; the order of the fields does not
    matter: a child decoded before the allocating sibling reads as the Go zero value, `zero_typed`); (C) custom kinds;
    (S) scalar oneof branches held by value with a zero literal.  Built on `seqFromA` of PGT/Proofs/EchoAll.lean with a typing
    post-condition per block (`TPost`, `elemOK_blk`).
 D. **part (3)**, the templates: `objElems_spec3` (the analogue of `objElems_spec2`), element loops whose hook log grows
    (`fromElemsList_decH`, `fromElemsMap_decH`, `elemDec_objH`), `fieldEcho_listE`, `fieldEcho_mapE` (clauses L / Mp: first
    decode by `elem_typing`, CopyTo by `objElems_spec3`, second decode by `fromField_reads3`, i.e. the C04 round trip).
 E. **part (4)**: `PlanOKB` ⊇ `PlanOKA` (`planOKsA_planOKsB`), `C08_echo_elems` (conclusion of `C08_echo_all`),
    `C08_echo_elems_check`, `C08_echo_all_of_elems`.
 F. non-vacuity: `EchoAllOpen.list_example_runs` is an instance (`EchoElemsExample.list_example_applies`).
 G. refutation (`EchoElemsWitness`): without `ParentAllocBy` the typing of a non-scalar child FAILS (`ToOK` asks for a non-nil
    parent) although the echo itself holds on the instance (evaluated).
 H. what remains open.
-/
namespace PGT
open PGT.Spec PGT.Props

-- ------------------------------------------------------------------------------------------------------
-- A. what the hook writes for a string-like custom value is known

theorem hookElem_known (sk : List String) (s : List UInt8) (v : TfVal) (h : hookElemRenders (.sc (.str s)) v = true) :
    noUnknownDeep sk v = true := by
  unfold hookElemRenders at h
  simp only at h
  split at h
  · simp [noUnknownDeep]
  · cases h

theorem hookElems_known (sk : List String) : ∀ (xs : List GoVal) (es : List TfVal), es.length = xs.length →
    (xs.zip es).all (fun (e, v) => hookElemRenders e v) = true → (∀ e ∈ xs, ∃ s, e = .sc (.str s)) →
    noUnknownList sk es = true
  | [], [], _, _, _ => by simp [noUnknownList]
  | [], _ :: _, hl, _, _ => by simp at hl
  | _ :: _, [], hl, _, _ => by simp at hl
  | x :: xs, e :: es, hl, hall, hstr => by
    simp only [List.zip_cons_cons, List.all_cons, Bool.and_eq_true] at hall
    obtain ⟨s, rfl⟩ := hstr x (by simp)
    simp only [noUnknownList, Bool.and_eq_true]
    exact ⟨hookElem_known sk s e hall.1,
      hookElems_known sk xs es (by simpa using hl) hall.2 (fun e he => hstr e (by simp [he]))⟩

/-- the attribute value the `CopyTo<S>` hook returns for a string-like Go value holds nothing unknown -/
theorem custRenders_known (sk : List String) (rep : Bool) (x : GoVal) (a : TfVal) (ht : CustomTyped rep x)
    (h : custRenders rep x a = true) : noUnknownDeep sk a = true := by
  unfold custRenders at h
  cases rep with
  | false =>
    simp only [Bool.false_eq_true, if_false] at h
    split at h
    · exact hookElem_known sk _ a h
    · cases h
  | true =>
    simp only [if_true] at h
    unfold CustomTyped at ht
    simp only [if_true] at ht
    split at h
    · rename_i n es ety
      simp only [Bool.and_eq_true, beq_iff_eq] at h
      obtain ⟨⟨_, hlen⟩, hall⟩ := h
      simp only [noUnknownDeep, Bool.not_false, Bool.true_and]
      exact hookElems_known sk (sliceElems x) es hlen hall ht
    · cases h

-- ------------------------------------------------------------------------------------------------------
-- B. CopyTo from scratch of a struct typed by `ToOKs ∧ RT3OKs` leaves nothing unknown

/-- the part of `RT3OK` the rendering from scratch needs: it speaks about the value read from the field only -/
def RTV (info : FieldInfo) (sub : List Field) (x : GoVal) : Prop :=
  match info.kind with
  | .custom => CustomTyped info.isRepeated x
  | .object => MsgTyped info.isNullable (fun s => RT3OKs sub s) x
  | .objectList => ∀ e ∈ sliceElems x, MsgTyped info.isNullable (fun s => RT3OKs sub s) e
  | .objectMap => ∀ e ∈ mapElems x, MsgTyped info.isNullable (fun s => RT3OKs sub s) e.2
  | _ => True

theorem rtv_of_rt3ok (info : FieldInfo) (mv : Option FieldInfo) (msg : Option MsgInfo) (sub : List Field) (obj : GoVal)
    (h : RT3OK ⟨info, mv, msg, sub⟩ obj) : RTV info sub (getVal info obj) := by
  unfold RT3OK at h
  obtain ⟨_, _, h⟩ := h
  unfold RTV
  rcases h with ⟨_, h⟩ | ⟨_, _, _, h⟩
  · cases hk : info.kind with
    | primitive => trivial
    | custom => simp only [hk] at h; exact h
    | object => simp only [hk] at h; exact h.2
    | primitiveList => trivial
    | objectList => simp only [hk] at h; exact h.2.2
    | primitiveMap => trivial
    | objectMap => simp only [hk] at h; exact h.2.2.2
  · cases hk : info.kind with
    | primitive => trivial
    | custom => simp only [hk] at h
    | object =>
      simp only [hk] at h
      show MsgTyped info.isNullable _ _
      rw [h.1]
      exact h.2.2
    | primitiveList => trivial
    | objectList => simp only [hk] at h
    | primitiveMap => trivial
    | objectMap => simp only [hk] at h

/-- the recursion hypothesis of the field lemmas: the fields of the nested message render from scratch, nothing unknown -/
def RecK (sub : List Field) : Prop :=
  ∀ (as : List (String × TfTy)) (sk' : List String),
    RecSpec (fun o a s => copyToFields sub o a s) (some as) (fun s => ToOKs sub s as ∧ RT3OKs sub s)
      (fun _ as' => true && noUnknownAs sk' as')

/-- the conclusion of the field lemmas -/
def FreshC (f : Field) (obj : GoVal) (atys : List (String × TfTy)) (st : ToSt) (sk : List String) : Prop :=
  ∃ v hs, copyToField f obj (some atys) st =
      .ok { attrs := setKey f.info.nameSnake v st.attrs, diags := st.diags, hooks := st.hooks ++ hs } ∧
    noUnknownDeep sk v = true

/-- scalar and custom fields (children of nullable embedded messages or not) -/
theorem freshLeaf (info : FieldInfo) (mv : Option FieldInfo) (msg : Option MsgInfo) (sub : List Field) (obj : GoVal)
    (atys : List (String × TfTy)) (st : ToSt) (ty : TfTy) (sk : List String)
    (hk : info.kind = .primitive ∨ info.kind = .custom)
    (hty : atys.lookup info.nameSnake = some ty) (hok : ToOK ⟨info, mv, msg, sub⟩ obj ty)
    (hrt : RTV info sub (getVal info obj)) (hcur : st.attrs.lookup info.nameSnake = none) :
    FreshC ⟨info, mv, msg, sub⟩ obj atys st sk := by
  obtain ⟨v, hs, hstep, hr⟩ := toField_renders3 ⟨info, mv, msg, sub⟩ obj atys st ty hty hok hcur
  rcases hk with hk | hk
  · obtain ⟨k, n, p, rfl⟩ := copyToField_prim_known info mv msg sub obj atys st v _ _ ty hk hty hstep
    exact ⟨_, hs, hstep, by simp [noUnknownDeep]⟩
  · refine ⟨v, hs, hstep, ?_⟩
    unfold RTV at hrt
    simp only [hk] at hrt
    simp only [rendersVal3, hk] at hr
    exact custRenders_known sk _ _ _ hrt hr

/-- message, list and map fields that are not children of a nullable embedded message -/
theorem freshCore (info : FieldInfo) (mv : Option FieldInfo) (msg : Option MsgInfo) (sub : List Field) (obj : GoVal)
    (atys : List (String × TfTy)) (st : ToSt) (ty : TfTy) (sk : List String) (hrecK : RecK sub)
    (he : info.parentIsOptionalEmbed = false) (hnl : info.kind ≠ .primitive) (hnc : info.kind ≠ .custom)
    (hty : atys.lookup info.nameSnake = some ty) (hok : ToOK ⟨info, mv, msg, sub⟩ obj ty)
    (hrt : RTV info sub (getVal info obj)) (hcur : st.attrs.lookup info.nameSnake = none) :
    FreshC ⟨info, mv, msg, sub⟩ obj atys st sk := by
  unfold FreshC
  unfold RTV at hrt
  cases hkind : info.kind with
  | custom => exact absurd hkind hnc
  | primitive => exact absurd hkind hnl
  | object =>
    unfold ToOK at hok
    simp only [hkind] at hok hrt
    obtain ⟨_, as, rfl, hsub, hE, htyped⟩ := hok
    have hse : sub.isEmpty = false := by cases sub <;> simp_all
    obtain ⟨v, hs, hrun, _, hkn⟩ :=
      objBody_fresh_known (fun o a s => copyToFields sub o a s) info msg (some as) (getVal info obj) st.diags st.hooks
        (fun s => ToOKs sub s as ∧ RT3OKs sub s) (fun _ _ => true) sk (hrecK as sk) hE
        (msgTyped_and _ _ _ _ htyped hrt)
    refine ⟨v, hs, ?_, hkn⟩
    apply copyToField_obj_run2 info mv msg sub obj atys st as v _ _ hkind he hty
    rw [hcur, hse]
    exact hrun
  | primitiveList =>
    unfold ToOK at hok
    simp only [hkind] at hok
    obtain ⟨hrep, ho, hnp, hreach, k, hk, rfl, hval⟩ := hok
    have hek : vkindOf info.tf.elemValueType ≠ .list := by rw [hk]; simp
    rcases hval with hnil | ⟨es, hes, htyped⟩
    · refine ⟨.list false true (some []) (some (.prim k)), [], ?_, by simp [noUnknownDeep, noUnknownList]⟩
      rw [listField_run_nil info mv msg sub obj atys st (.prim k) (Or.inl hkind) ho he hrep hty hek hnil false true none
          (some (.prim k)) (Or.inr ⟨hcur, rfl, rfl⟩)]
      simp
    · have hoty : elemObjTy (info.kind == .objectList || info.kind == .objectMap) (some (.prim k)) = .ok none := by
        simp [elemObjTy, hkind]
      have hbody : elemBodyOf (fun o a s => copyToFields sub o a s) info msg sub.isEmpty obj (some (.prim k)) none =
          primElemBody info obj (some (.prim k)) := by simp [elemBodyOf, hkind]
      have hb := bodySpec_and _ _ (noUnknownDeep sk) _
        (primElem_spec info k obj es hk hnp (not_nil_of_reachable info obj hreach) htyped)
        (fun e v h => primRenders_known info e v sk h)
      rw [← hbody] at hb
      obtain ⟨r, hs, hrun, _, _, hkn⟩ := listField_run info mv msg sub obj atys st (.prim k) none _ sk es (Or.inl hkind)
        ho he hrep hty hek hoty hes hb false true none (some (.prim k)) (Or.inr ⟨hcur, rfl, rfl⟩)
      exact ⟨_, hs, hrun, hkn⟩
  | objectList =>
    unfold ToOK at hok
    simp only [hkind] at hok hrt
    obtain ⟨hrep, ho, hreach, hevk, as, rfl, hsub, hne, hval⟩ := hok
    have hek : vkindOf info.tf.elemValueType ≠ .list := by rw [hevk]; simp
    have hse : sub.isEmpty = false := by cases sub <;> simp_all
    rcases hval with hnil | ⟨es, hes, htyped⟩
    · refine ⟨.list false true (some []) (some (.obj (some as))), [], ?_, by simp [noUnknownDeep, noUnknownList]⟩
      rw [listField_run_nil info mv msg sub obj atys st (.obj (some as)) (Or.inr hkind) ho he hrep hty hek hnil false true none
          (some (.obj (some as))) (Or.inr ⟨hcur, rfl, rfl⟩)]
      simp
    · have hoty : elemObjTy (info.kind == .objectList || info.kind == .objectMap) (some (.obj (some as))) = .ok (some as) := by
        simp [elemObjTy, hkind]
      have htR : ∀ e ∈ es, MsgTyped info.isNullable (fun s => RT3OKs sub s) e := by
        have := hrt
        rw [hes] at this
        exact this
      have hb : BodySpec (elemBodyOf (fun o a s => copyToFields sub o a s) info msg sub.isEmpty obj (some (.obj (some as))) (some as))
          (fun e v => objRenders info.isNullable (fun _ _ => true) e v && noUnknownDeep sk v) es := by
        intro a ha diags hooks
        have hE : isEmptyMsg msg = true → ∀ fs, a = .ptr (some (.struct fs)) ∨ a = .struct fs → fs = [] := by
          intro h; rw [hne] at h; cases h
        obtain ⟨v, hs, hrun, hr, hkn⟩ := objBody_fresh_known (fun o a s => copyToFields sub o a s) info msg (some as) a diags hooks
          (fun s => ToOKs sub s as ∧ RT3OKs sub s) (fun _ _ => true) sk (hrecK as sk) hE
          (msgTyped_and _ _ _ _ (htyped a ha) (htR a ha))
        refine ⟨v, hs, ?_, by simp [hr, hkn]⟩
        simp only [elemBodyOf, hkind, hse]
        simpa using hrun
      obtain ⟨r, hs, hrun, _, _, hkn⟩ := listField_run info mv msg sub obj atys st (.obj (some as)) (some as) _ sk es
        (Or.inr hkind) ho he hrep hty hek hoty hes hb false true none (some (.obj (some as))) (Or.inr ⟨hcur, rfl, rfl⟩)
      exact ⟨_, hs, hrun, hkn⟩
  | primitiveMap =>
    unfold ToOK at hok
    simp only [hkind] at hok
    obtain ⟨hrep, ho, hnp, hreach, hzv, k, hk, rfl, hval⟩ := hok
    have hek : vkindOf info.tf.elemValueType ≠ .map := by rw [hk]; simp
    rcases hval with hnil | ⟨es, hes, hnd, htyped⟩
    · refine ⟨.map false true (some []) (some (.prim k)), [], ?_, by simp [noUnknownDeep, noUnknownAs]⟩
      rw [mapField_run_nil info mv msg sub obj atys st (.prim k) (Or.inl hkind) ho he hrep hty hek hnil false true none
          (some (.prim k)) (Or.inr ⟨hcur, rfl, rfl⟩)]
      simp
    · have hoty : elemObjTy (info.kind == .objectList || info.kind == .objectMap) (some (.prim k)) = .ok none := by
        simp [elemObjTy, hkind]
      have hbody : elemBodyOf (fun o a s => copyToFields sub o a s) info msg sub.isEmpty obj (some (.prim k)) none =
          primElemBody info obj (some (.prim k)) := by simp [elemBodyOf, hkind]
      have hb := bodySpec_and _ _ (noUnknownDeep []) _
        (primElem_spec info k obj (es.map (·.2)) hk hnp (not_nil_of_reachable info obj hreach)
          (by intro e he; simp at he; obtain ⟨a, ha⟩ := he; exact htyped _ ha))
        (fun e v h => primRenders_known info e v [] h)
      rw [← hbody] at hb
      obtain ⟨r, hs, hrun, _, _, hkn⟩ := mapField_run info mv msg sub obj atys st (.prim k) none _ es (Or.inl hkind)
        ho he hrep hty hek hoty hes hnd hb false true none (some (.prim k)) (Or.inr ⟨hcur, rfl, rfl⟩) sk
      exact ⟨_, hs, hrun, hkn⟩
  | objectMap =>
    unfold ToOK at hok
    simp only [hkind] at hok hrt
    obtain ⟨hrep, ho, hreach, hevk, as, rfl, hsub, hne, hval⟩ := hok
    have hek : vkindOf info.tf.elemValueType ≠ .map := by rw [hevk]; simp
    have hse : sub.isEmpty = false := by cases sub <;> simp_all
    rcases hval with hnil | ⟨es, hes, hnd, htyped⟩
    · refine ⟨.map false true (some []) (some (.obj (some as))), [], ?_, by simp [noUnknownDeep, noUnknownAs]⟩
      rw [mapField_run_nil info mv msg sub obj atys st (.obj (some as)) (Or.inr hkind) ho he hrep hty hek hnil false true none
          (some (.obj (some as))) (Or.inr ⟨hcur, rfl, rfl⟩)]
      simp
    · have hoty : elemObjTy (info.kind == .objectList || info.kind == .objectMap) (some (.obj (some as))) = .ok (some as) := by
        simp [elemObjTy, hkind]
      have htR : ∀ e ∈ es, MsgTyped info.isNullable (fun s => RT3OKs sub s) e.2 := by
        have := hrt
        rw [hes] at this
        exact this
      have hb : BodySpec (elemBodyOf (fun o a s => copyToFields sub o a s) info msg sub.isEmpty obj (some (.obj (some as))) (some as))
          (fun e v => objRenders info.isNullable (fun _ _ => true) e v && noUnknownDeep [] v)
          (es.map (·.2)) := by
        intro a ha diags hooks
        simp at ha
        obtain ⟨key, hka⟩ := ha
        have hE : isEmptyMsg msg = true → ∀ fs, a = .ptr (some (.struct fs)) ∨ a = .struct fs → fs = [] := by
          intro h; rw [hne] at h; cases h
        obtain ⟨v, hs, hrun, hr, hkn⟩ := objBody_fresh_known (fun o a s => copyToFields sub o a s) info msg (some as) a diags hooks
          (fun s => ToOKs sub s as ∧ RT3OKs sub s) (fun _ _ => true) [] (hrecK as []) hE
          (msgTyped_and _ _ _ _ (htyped _ hka) (htR _ hka))
        refine ⟨v, hs, ?_, by simp [hr, hkn]⟩
        simp only [elemBodyOf, hkind, hse]
        simpa using hrun
      obtain ⟨r, hs, hrun, _, _, hkn⟩ := mapField_run info mv msg sub obj atys st (.obj (some as)) (some as) _ es
        (Or.inr hkind) ho he hrep hty hek hoty hes hnd hb false true none (some (.obj (some as))) (Or.inr ⟨hcur, rfl, rfl⟩) sk
      exact ⟨_, hs, hrun, hkn⟩

-- the transfer for message / list / map children of a nullable embedded message

theorem getVal_unembed_single (info : FieldInfo) (x : GoVal) (ho : info.oneOfName = "") :
    getVal (unembed info) (.struct [(info.name, x)]) = x := by
  have ho' : (unembed info).oneOfName = "" := ho
  have he' : (unembed info).parentIsOptionalEmbed = false := rfl
  rw [getVal_plain _ _ ho' he']
  simp [unembed, GoVal.field?, List.lookup]

/-- the typing of a message / list / map child of a nullable embedded message speaks about the value read through the
(non-nil) parent pointer only -/
theorem toOK_unembed (info : FieldInfo) (mv : Option FieldInfo) (msg : Option MsgInfo) (sub : List Field) (obj : GoVal)
    (ty : TfTy) (ho : info.oneOfName = "") (hnl : info.kind ≠ .primitive) (hnc : info.kind ≠ .custom)
    (hok : ToOK ⟨info, mv, msg, sub⟩ obj ty) :
    ToOK ⟨unembed info, mv, msg, sub⟩ (.struct [(info.name, getVal info obj)]) ty := by
  have hg := getVal_unembed_single info (getVal info obj) ho
  have hr : Reachable (unembed info) (.struct [(info.name, getVal info obj)]) := reachable_plain _ _ rfl
  have h1 : (unembed info).kind = info.kind := rfl
  have h2 : (unembed info).isNullable = info.isNullable := rfl
  have h3 : (unembed info).isRepeated = info.isRepeated := rfl
  have h4 : (unembed info).oneOfName = info.oneOfName := rfl
  have h5 : (unembed info).tf = info.tf := rfl
  have h6 : (unembed info).isPlaceholder = info.isPlaceholder := rfl
  unfold ToOK at hok ⊢
  simp only [h1, h2, h3, h4, h5, h6, hg]
  cases hk : info.kind with
  | primitive => exact absurd hk hnl
  | custom => exact absurd hk hnc
  | object =>
    simp only [hk] at hok
    exact ⟨hr, hok.2⟩
  | primitiveList =>
    simp only [hk] at hok
    obtain ⟨a, b, c, _, rest⟩ := hok
    exact ⟨a, b, c, hr, rest⟩
  | objectList =>
    simp only [hk] at hok
    obtain ⟨a, b, _, rest⟩ := hok
    exact ⟨a, b, hr, rest⟩
  | primitiveMap =>
    simp only [hk] at hok
    obtain ⟨a, b, c, _, rest⟩ := hok
    exact ⟨a, b, c, hr, rest⟩
  | objectMap =>
    simp only [hk] at hok
    obtain ⟨a, b, _, rest⟩ := hok
    exact ⟨a, b, hr, rest⟩

theorem reachable_of_toOK (info : FieldInfo) (mv : Option FieldInfo) (msg : Option MsgInfo) (sub : List Field) (obj : GoVal)
    (ty : TfTy) (hnl : info.kind ≠ .primitive) (hok : ToOK ⟨info, mv, msg, sub⟩ obj ty) : Reachable info obj := by
  unfold ToOK at hok
  cases hk : info.kind with
  | primitive => exact absurd hk hnl
  | custom => simp only [hk] at hok; exact hok.2.1
  | object => simp only [hk] at hok; exact hok.1
  | primitiveList => simp only [hk] at hok; exact hok.2.2.2.1
  | objectList => simp only [hk] at hok; exact hok.2.2.1
  | primitiveMap => simp only [hk] at hok; exact hok.2.2.2.1
  | objectMap => simp only [hk] at hok; exact hok.2.2.1

/-- **one field block of CopyTo from scratch, every kind, child of a nullable embedded message or not** -/
theorem freshGen (info : FieldInfo) (mv : Option FieldInfo) (msg : Option MsgInfo) (sub : List Field) (obj : GoVal)
    (atys : List (String × TfTy)) (st : ToSt) (ty : TfTy) (sk : List String) (hrecK : RecK sub)
    (hty : atys.lookup info.nameSnake = some ty) (hok : ToOK ⟨info, mv, msg, sub⟩ obj ty)
    (hrt : RTV info sub (getVal info obj)) (hcur : st.attrs.lookup info.nameSnake = none) :
    FreshC ⟨info, mv, msg, sub⟩ obj atys st sk := by
  by_cases hkp : info.kind = .primitive
  · exact freshLeaf info mv msg sub obj atys st ty sk (Or.inl hkp) hty hok hrt hcur
  by_cases hkc : info.kind = .custom
  · exact freshLeaf info mv msg sub obj atys st ty sk (Or.inr hkc) hty hok hrt hcur
  by_cases he : info.parentIsOptionalEmbed = true
  · have hreach := reachable_of_toOK info mv msg sub obj ty hkp hok
    obtain ⟨hpn, ho, _⟩ := hreach he
    have hrd : readField info obj = .ok (getVal info obj) := by
      have := readField_getVal info obj hreach (Or.inr ho)
      rwa [shadow_id info obj ho] at this
    have hT := toOK_unembed info mv msg sub obj ty ho hkp hkc hok
    have hR : RTV (unembed info) sub (getVal (unembed info) (.struct [(info.name, getVal info obj)])) := by
      rw [getVal_unembed_single info _ ho]
      exact hrt
    have hmain := freshCore (unembed info) mv msg sub (.struct [(info.name, getVal info obj)]) atys st ty sk hrecK rfl hkp hkc
      hty hT hR hcur
    unfold FreshC at hmain ⊢
    rw [copyToField_unembed info mv msg sub obj (getVal info obj) (some atys) st ho hkc hkp hrd (fun _ => hpn)]
    exact hmain
  · exact freshCore info mv msg sub obj atys st ty sk hrecK (by simpa using he) hkp hkc hty hok hrt hcur

mutual

/-- **CopyTo from scratch of one field of a struct typed by `ToOK` and `RT3OK`: no diagnostic, nothing unknown** -/
theorem freshField3 : ∀ (f : Field) (s : GoVal) (atys : List (String × TfTy)) (st : ToSt) (ty : TfTy) (sk : List String),
    atys.lookup f.info.nameSnake = some ty → ToOK f s ty → RT3OK f s → st.attrs.lookup f.info.nameSnake = none →
    ∃ v hs, copyToField f s (some atys) st =
        .ok { attrs := setKey f.info.nameSnake v st.attrs, diags := st.diags, hooks := st.hooks ++ hs } ∧
      noUnknownDeep sk v = true
  | ⟨info, mv, msg, sub⟩, obj, atys, st, ty, sk, hty, hok, hrt, hcur => by
    have hrecK : RecK sub := by
      intro as sk' s diags hooks hP
      obtain ⟨st', hrun, hd, ⟨hs, hh⟩, _, hkn⟩ :=
        freshFields3 sub s as { attrs := [], diags := diags, hooks := hooks } sk' hP.1 hP.2 (by intro f _; simp [List.lookup])
      refine ⟨st'.attrs, hs, ?_, ?_⟩
      · show copyToFields sub s (some as) _ = _
        rw [hrun]
        cases st'
        simp_all
      · simp only [Bool.true_and]
        exact noUnknownAs_of_forall sk' _ (hkn (by simp))
    exact freshGen info mv msg sub obj atys st ty sk hrecK hty hok (rtv_of_rt3ok info mv msg sub obj hrt) hcur

theorem freshFields3 : ∀ (fs : List Field) (s : GoVal) (atys : List (String × TfTy)) (st : ToSt) (sk : List String),
    ToOKs fs s atys → RT3OKs fs s → (∀ f ∈ fs, st.attrs.lookup f.info.nameSnake = none) →
    ∃ st', copyToFields fs s (some atys) st = .ok st' ∧ st'.diags = st.diags ∧ (∃ hs, st'.hooks = st.hooks ++ hs) ∧
      (∀ key, key ∉ fs.map (·.info.nameSnake) → st'.attrs.lookup key = st.attrs.lookup key) ∧
      ((∀ kv ∈ st.attrs, noUnknownDeep sk kv.2 = true) → ∀ kv ∈ st'.attrs, noUnknownDeep sk kv.2 = true)
  | [], _, _, st, _, _, _, _ => ⟨st, by simp [copyToFields], rfl, ⟨[], by simp⟩, by simp, fun h => h⟩
  | f :: rest, obj, atys, st, sk, hok, hrt, hnone => by
    unfold ToOKs at hok
    unfold RT3OKs at hrt
    obtain ⟨⟨ty, hty, hf⟩, hnotin, hrest⟩ := hok
    obtain ⟨hrf, _, hrrest⟩ := hrt
    obtain ⟨v, hs1, hstep, hkv⟩ := freshField3 f obj atys st ty sk hty hf hrf (hnone f (by simp))
    have hnone1 : ∀ g ∈ rest, (setKey f.info.nameSnake v st.attrs).lookup g.info.nameSnake = none := by
      intro g hg
      have hne : g.info.nameSnake ≠ f.info.nameSnake := by
        intro e
        exact hnotin (by rw [← e]; exact List.mem_map_of_mem hg)
      rw [lookup_setKey_other _ _ _ hne]
      exact hnone g (by simp [hg])
    obtain ⟨st', hrun, hd, ⟨hs2, hh⟩, hframe, hkn⟩ :=
      freshFields3 rest obj atys { attrs := setKey f.info.nameSnake v st.attrs, diags := st.diags, hooks := st.hooks ++ hs1 } sk
        hrest hrrest hnone1
    refine ⟨st', ?_, hd, ⟨hs1 ++ hs2, by simp [hh]⟩, ?_, ?_⟩
    · simp only [copyToFields, hstep]
      exact hrun
    · intro key hkey
      simp at hkey
      rw [hframe key (by simpa using hkey.2)]
      exact lookup_setKey_other _ _ _ hkey.1 _
    · intro h0
      apply hkn
      intro kv hkv'
      simp only at hkv'
      rw [setKey_of_lookup_none _ _ _ (hnone f (by simp))] at hkv'
      simp only [List.mem_append, List.mem_singleton] at hkv'
      rcases hkv' with hkv' | rfl
      · exact h0 kv hkv'
      · exact hkv

end

/-- **part (2) of the task: a fresh render (CopyTo into no attributes) of a struct typed by `ToOKs ∧ RT3OKs` – plain tree,
children of nullable embedded messages of every kind, custom kinds, at every depth – produces no diagnostic, renders the
struct (`rendersFields3`) and leaves nothing unknown at any depth (no attribute skipped: `sk` is arbitrary, e.g. `[]`)** -/
theorem freshRender_noUnknown (fs : List Field) (obj : GoVal) (atys : List (String × TfTy)) (sk : List String)
    (hT : ToOKs fs obj atys) (hR : RT3OKs fs obj) (ds : List Diag) (hs : List HookCall) :
    ∃ A hs', copyToFields fs obj (some atys) { attrs := [], diags := ds, hooks := hs } =
        .ok { attrs := A, diags := ds, hooks := hs ++ hs' } ∧
      rendersFields3 fs obj A = true ∧ noUnknownAs sk A = true := by
  obtain ⟨st', hrun, hd, ⟨hs', hh⟩, _, hkn⟩ :=
    freshFields3 fs obj atys { attrs := [], diags := ds, hooks := hs } sk hT hR (by intro f _; simp [List.lookup])
  obtain ⟨st'', hrun', _, _, hr, _⟩ :=
    toFields_renders3 fs obj atys { attrs := [], diags := ds, hooks := hs } hT (by intro f _; simp [List.lookup])
  rw [hrun] at hrun'
  injection hrun' with e
  subst e
  refine ⟨st'.attrs, hs', ?_, hr, noUnknownAs_of_forall sk _ (hkn (by simp))⟩
  rw [hrun]
  cases st'
  simp_all

/-- … for a whole message: `copyTo_renders3` with "nothing unknown" -/
theorem copyTo_fresh_noUnknown (m : Msg) (obj : GoVal) (atys : List (String × TfTy)) (sk : List String)
    (hT : ToOKs m.fields obj atys) (hR : RT3OKs m.fields obj) :
    ∃ r as, copyTo m obj (.obj false false none (some atys)) = .ok r ∧ r.diags = [] ∧
      r.tf = .obj false false (some as) (some atys) ∧ rendersFields3 m.fields obj as = true ∧
      noUnknownDeep sk r.tf = true := by
  obtain ⟨A, hs', hrun, hr, hkn⟩ := freshRender_noUnknown m.fields obj atys sk hT hR [] []
  refine ⟨{ tf := .obj false false (some A) (some atys), diags := [], hooks := [] ++ hs' }, A, ?_, rfl, rfl, hr, ?_⟩
  · simp [copyTo, hrun]
  · simp only [noUnknownDeep, Bool.not_false, Bool.true_and]
    exact hkn

-- ------------------------------------------------------------------------------------------------------
-- C. part (1): the struct decoded from an element is typed (`ToOKs ∧ RT3OKs`)

theorem primTyped_unembed (info : FieldInfo) (x : GoVal) : PrimTyped (unembed info) x ↔ PrimTyped info x := Iff.rfl
theorem primVal_unembed (info : FieldInfo) (x : GoVal) : PrimVal (unembed info) x ↔ PrimVal info x := Iff.rfl

theorem primRT_reembed (info : FieldInfo) (k : PrimK) (h : PrimRT (unembed info) k) : PrimRT info k :=
  ⟨h.ek, h.inv, h.invPtr⟩

theorem mapVal_unembed_tf (mv : Option FieldInfo) (info : FieldInfo) : (mv.getD (unembed info)).tf = (mv.getD info).tf := by
  cases mv <;> rfl

/-- the typing for CopyTo of a child of a nullable embedded message whose parent pointer is not nil, from the typing of the
same field without the flag in a struct that holds the same value -/
theorem toOK_reembed (info : FieldInfo) (mv : Option FieldInfo) (msg : Option MsgInfo) (sub : List Field) (o obj' : GoVal)
    (ty : TfTy) (hr : Reachable info o) (hg : getVal (unembed info) obj' = getVal info o)
    (hnc : info.kind ≠ .custom)
    (hok : ToOK ⟨unembed info, mv, msg, sub⟩ obj' ty) : ToOK ⟨info, mv, msg, sub⟩ o ty := by
  have h1 : (unembed info).kind = info.kind := rfl
  have h2 : (unembed info).isNullable = info.isNullable := rfl
  have h3 : (unembed info).isRepeated = info.isRepeated := rfl
  have h4 : (unembed info).oneOfName = info.oneOfName := rfl
  have h5 : (unembed info).tf = info.tf := rfl
  have h6 : (unembed info).isPlaceholder = info.isPlaceholder := rfl
  unfold ToOK at hok ⊢
  simp only [h1, h2, h3, h4, h5, h6, hg] at hok
  cases hk : info.kind with
  | primitive =>
    simp only [hk] at hok
    obtain ⟨hkk, hc⟩ := hok
    refine ⟨hkk, ?_⟩
    rcases hc with hph | ⟨hpe, _⟩ | ⟨_, hpt⟩
    · exact Or.inl hph
    · have : (false : Bool) = true := hpe
      cases this
    · exact Or.inr (Or.inr ⟨hr, (primTyped_unembed info _).1 hpt⟩)
  | custom => exact absurd hk hnc
  | object =>
    simp only [hk] at hok
    exact ⟨hr, hok.2⟩
  | primitiveList =>
    simp only [hk] at hok
    obtain ⟨a, b, c, _, k, hk1, hk2, hv⟩ := hok
    refine ⟨a, b, c, hr, k, hk1, hk2, ?_⟩
    rcases hv with hv | ⟨es, hes, hall⟩
    · exact Or.inl hv
    · exact Or.inr ⟨es, hes, fun e he => (primTyped_unembed info _).1 (hall e he)⟩
  | objectList =>
    simp only [hk] at hok
    obtain ⟨a, b, _, rest⟩ := hok
    exact ⟨a, b, hr, rest⟩
  | primitiveMap =>
    simp only [hk] at hok
    obtain ⟨a, b, c, _, d, k, hk1, hk2, hv⟩ := hok
    refine ⟨a, b, c, hr, d, k, hk1, hk2, ?_⟩
    rcases hv with hv | ⟨es, hes, hnd, hall⟩
    · exact Or.inl hv
    · exact Or.inr ⟨es, hes, hnd, fun e he => (primTyped_unembed info _).1 (hall e he)⟩
  | objectMap =>
    simp only [hk] at hok
    obtain ⟨a, b, _, rest⟩ := hok
    exact ⟨a, b, hr, rest⟩

/-- the typing for the read-back of a child of a nullable embedded message, from the typing (plain tree) of the same field
without the flag in a struct that holds the same value -/
theorem rt3ok_reembed (info : FieldInfo) (mv : Option FieldInfo) (msg : Option MsgInfo) (sub : List Field) (o obj' : GoVal)
    (ho : info.oneOfName = "") (hg : getVal (unembed info) obj' = getVal info o)
    (h : RTOK ⟨unembed info, mv, msg, sub⟩ obj') : RT3OK ⟨info, mv, msg, sub⟩ o := by
  have h1 : (unembed info).kind = info.kind := rfl
  have h2 : (unembed info).isNullable = info.isNullable := rfl
  have h5 : (unembed info).tf = info.tf := rfl
  have h6 : (unembed info).isPlaceholder = info.isPlaceholder := rfl
  have hup : ∀ s, RTOKs sub s → RT3OKs sub s := fun s hs => rt3oks_of_rt2oks sub s (rtoks_rt2oks sub s hs)
  unfold RTOK at h
  obtain ⟨_, _, hem, hph, h⟩ := h
  simp only [h1, h2, h5, h6, hg, mapVal_unembed_tf] at h hph
  unfold RT3OK
  refine ⟨hem, fun hp => ⟨hph hp, ho⟩, Or.inl ⟨ho, ?_⟩⟩
  cases hk : info.kind with
  | primitive =>
    simp only [hk] at h
    rcases h with h | ⟨k, hrt, hvk, hpv⟩
    · exact Or.inl h
    · exact Or.inr ⟨k, primRT_reembed info k hrt, hvk, (primVal_unembed info _).1 hpv⟩
  | custom => simp only [hk] at h
  | object =>
    simp only [hk] at h
    exact ⟨h.1, msgTyped_mono _ _ _ hup _ h.2⟩
  | primitiveList =>
    simp only [hk] at h
    obtain ⟨a, b, k, hrt, hall⟩ := h
    exact ⟨a, b, k, primRT_reembed info k hrt, fun e he => (primVal_unembed info _).1 (hall e he)⟩
  | objectList =>
    simp only [hk] at h
    exact ⟨h.1, h.2.1, fun e he => msgTyped_mono _ _ _ hup _ (h.2.2 e he)⟩
  | primitiveMap =>
    simp only [hk] at h
    obtain ⟨a, b, c, d, k, hrt, hall⟩ := h
    exact ⟨a, b, c, d, k, primRT_reembed info k hrt, fun e he => (primVal_unembed info _).1 (hall e he)⟩
  | objectMap =>
    simp only [hk] at h
    exact ⟨h.1, h.2.1, h.2.2.1, fun e he => msgTyped_mono _ _ _ hup _ (h.2.2.2 e he)⟩

/-- the Go zero value of a field of the plain tree is typed (what a child of a nullable embedded message reads when the
embedded struct was allocated by a later sibling and the field was never assigned): scalars always, other kinds when the
planned value is not known -/
theorem zero_typed (X : String → TfVal → Prop) (info : FieldInfo) (mv : Option FieldInfo) (msg : Option MsgInfo)
    (sub : List Field) (a : TfVal) (ty : TfTy) (hp : PlanOK X ⟨info, mv, msg, sub⟩ a ty) (hph : info.isPlaceholder = false)
    (hkn : a.isKnown = false ∨ info.kind = .primitive) (obj : GoVal) (hg : getVal info obj = zeroGoOf info) :
    ToOK ⟨info, mv, msg, sub⟩ obj ty ∧ RTOK ⟨info, mv, msg, sub⟩ obj := by
  unfold PlanOK at hp
  obtain ⟨ho, he, hphk, hEm, hp⟩ := hp
  have hreach := reachable_plain info obj he
  have hphk' : ∀ {P : Prop}, info.isPlaceholder = true → P := fun h => by rw [hph] at h; cases h
  unfold ToOK RTOK
  rw [hg]
  cases hkind : info.kind with
  | custom => simp only [hkind] at hp
  | primitive =>
    simp only [hkind] at hp ⊢
    obtain ⟨k, u, n, p, rfl, rfl, hvk, hp⟩ := hp
    rcases hp with hp | ⟨hvt, hir, _⟩
    · rw [hph] at hp; cases hp
    obtain ⟨y, hy, hT, hV⟩ := primDecode_typed info k hir true false p (by intro h; simp [known] at h)
    rw [primDecode_unknown info k true false p (by simp [known])] at hy
    injection hy with hy
    subst hy
    rw [zeroGoOf_prim info hkind]
    exact ⟨⟨⟨k, hvk, rfl⟩, Or.inr (Or.inr ⟨hreach, hT⟩)⟩, ho, he, hEm, hphk', Or.inr ⟨k, hir.rt, hvt, hV⟩⟩
  | object =>
    simp only [hkind] at hp ⊢
    obtain ⟨u, n, as, tys, rfl, rfl, hvt, hsub, _, hunk⟩ := hp
    have hk' : known u n = false := by
      rcases hkn with h | h
      · exact h
      · rw [hkind] at h; cases h
    obtain ⟨_, hz⟩ := hunk hk'
    cases hn : info.isNullable with
    | true =>
      have hz' : zeroGoOf info = .ptr none := by simp [zeroGoOf, hkind, hn]
      rw [hz']
      refine ⟨⟨hreach, tys, rfl, hsub, ?_, ?_⟩, ho, he, hEm, hphk', hvt, ?_⟩
      · intro _ fs h
        rcases h with h | h <;> cases h
      · unfold MsgTyped; simp
      · unfold MsgTyped; simp
    | false =>
      have hz' : zeroGoOf info = .struct [] := by simp [zeroGoOf, hkind, hn]
      rw [hz']
      obtain ⟨hzT, hzR⟩ := hz hn
      refine ⟨⟨hreach, tys, rfl, hsub, ?_, ?_⟩, ho, he, hEm, hphk', hvt, ?_⟩
      · intro _ fs h
        rcases h with h | h
        · cases h
        · injection h with h; exact h.symm
      · unfold MsgTyped; simp only [Bool.false_eq_true, if_false]; exact ⟨[], rfl, hzT⟩
      · unfold MsgTyped; simp only [Bool.false_eq_true, if_false]; exact ⟨[], rfl, hzR⟩
  | primitiveList =>
    simp only [hkind] at hp ⊢
    obtain ⟨u, n, es, et, k, rfl, rfl, hvt, hrep, hir, _⟩ := hp
    have hz' : zeroGoOf info = .slice none := by simp [zeroGoOf, hkind]
    rw [hz']
    exact ⟨⟨hrep, ho, hph, hreach, k, hir.rt.ek, rfl, Or.inl rfl⟩, ho, he, hEm, hphk', hvt, hph, k, hir.rt,
      by simp [sliceElems]⟩
  | objectList =>
    simp only [hkind] at hp ⊢
    obtain ⟨u, n, es, et, tys, rfl, rfl, hvt, hevt, hrep, hsub, hne, _⟩ := hp
    have hz' : zeroGoOf info = .slice none := by simp [zeroGoOf, hkind]
    rw [hz']
    exact ⟨⟨hrep, ho, hreach, hevt, tys, rfl, hsub, hne, Or.inl rfl⟩, ho, he, hEm, hphk', hvt, hevt, by simp [sliceElems]⟩
  | primitiveMap =>
    simp only [hkind] at hp ⊢
    obtain ⟨u, n, es, et, k, rfl, rfl, hvt, hrep, _, hzv, hmv, hir, _⟩ := hp
    have hz' : zeroGoOf info = .map none := by simp [zeroGoOf, hkind]
    rw [hz']
    exact ⟨⟨hrep, ho, hph, hreach, hzv, k, hir.rt.ek, rfl, Or.inl rfl⟩, ho, he, hEm, hphk', hvt, hph, hmv,
      by simp [mapElems], k, hir.rt, by simp [mapElems]⟩
  | objectMap =>
    simp only [hkind] at hp ⊢
    obtain ⟨u, n, es, et, tys, rfl, rfl, hvt, hevt, hmvt, hrep, hsub, hne, _⟩ := hp
    have hz' : zeroGoOf info = .map none := by simp [zeroGoOf, hkind]
    rw [hz']
    exact ⟨⟨hrep, ho, hreach, hevt, tys, rfl, hsub, hne, Or.inl rfl⟩, ho, he, hEm, hphk', hvt, hmvt,
      by simp [mapElems], by simp [mapElems]⟩

/-- what `decField` says about the decoded value: in every struct that holds it the field is typed -/
def VT (f : Field) (ty : TfTy) (y : GoVal) : Prop := ∀ obj, getVal f.info obj = y → ToOK f obj ty ∧ RTOK f obj

/-- **a child of a nullable embedded message whose parent pointer is NOT nil** is typed: it holds a decoded value (`VT`), or
it reads as the Go zero value (never assigned; non-scalar kinds: the planned value is not known) -/
theorem embed_child_typed (X : String → TfVal → Prop) (c : FieldInfo) (mv : Option FieldInfo) (msg : Option MsgInfo)
    (sub : List Field) (a : TfVal) (ty : TfTy) (o : GoVal)
    (hp : PlanOK X ⟨unembed c, mv, msg, sub⟩ a ty) (hph : c.isPlaceholder = false)
    (halloc : ∃ s, o.field? c.parentIsOptionalEmbedFieldName = some (.ptr (some s)))
    (hval : (getVal c o = zeroGoOf c ∧ (a.isKnown = false ∨ c.kind = .primitive)) ∨
      VT ⟨unembed c, mv, msg, sub⟩ ty (getVal c o)) :
    ToOK ⟨c, mv, msg, sub⟩ o ty ∧ RT3OK ⟨c, mv, msg, sub⟩ o := by
  have ho : c.oneOfName = "" := (planOK_facts X _ a ty hp).1
  obtain ⟨s, hs⟩ := halloc
  have hreach : Reachable c o := fun _ => ⟨parentIsNil_of_alloc c o s hs, ho, s, hs⟩
  have hg := getVal_unembed_single c (getVal c o) ho
  have hnc : c.kind ≠ .custom := by
    intro hk
    unfold PlanOK at hp
    have hk' : (unembed c).kind = .custom := hk
    simp only [hk'] at hp
    exact hp.2.2.2.2
  have hU : ToOK ⟨unembed c, mv, msg, sub⟩ (.struct [(c.name, getVal c o)]) ty ∧
      RTOK ⟨unembed c, mv, msg, sub⟩ (.struct [(c.name, getVal c o)]) := by
    rcases hval with ⟨hz, hkn⟩ | hvt
    · refine zero_typed X (unembed c) mv msg sub a ty hp hph hkn _ ?_
      rw [hg, hz]
      rfl
    · exact hvt _ hg
  exact ⟨toOK_reembed c mv msg sub o _ ty hreach hg hnc hU.1, rt3ok_reembed c mv msg sub o _ ho hg hU.2⟩

/-- **a scalar child of a nullable embedded message whose parent pointer IS nil** is typed -/
theorem embed_prim_nil_typed (X : String → TfVal → Prop) (c : FieldInfo) (mv : Option FieldInfo) (msg : Option MsgInfo)
    (sub : List Field) (a : TfVal) (ty : TfTy) (o : GoVal)
    (hp : PlanOK X ⟨unembed c, mv, msg, sub⟩ a ty) (hk : c.kind = .primitive) (he : c.parentIsOptionalEmbed = true)
    (hph : c.isPlaceholder = false) (hnil : parentIsNil c o = true) :
    ToOK ⟨c, mv, msg, sub⟩ o ty ∧ RT3OK ⟨c, mv, msg, sub⟩ o := by
  unfold PlanOK at hp
  obtain ⟨ho, _, _, hEm, hp⟩ := hp
  have hk' : (unembed c).kind = .primitive := hk
  have hph' : (unembed c).isPlaceholder = false := hph
  have ho' : c.oneOfName = "" := ho
  simp only [hk'] at hp
  obtain ⟨k, u, n, p, rfl, rfl, hvk, hp⟩ := hp
  rcases hp with hp | ⟨hvt, hir, _⟩
  · rw [hph'] at hp; cases hp
  have hvk' : vkindOf c.tf.elemValueType = .prim k := hvk
  have hvt' : vkindOf c.tf.valueType = .prim k := hvt
  obtain ⟨y, hy, _, hV⟩ := primDecode_typed (unembed c) k hir true false p (by intro h; simp [known] at h)
  rw [primDecode_unknown (unembed c) k true false p (by simp [known])] at hy
  injection hy with hy
  subst hy
  have hgv : getVal c o = zeroPrim c := by rw [getVal_nilParent c o hnil he, zeroGoOf_prim c hk]
  refine ⟨?_, ?_⟩
  · unfold ToOK
    simp only [hk]
    exact ⟨⟨k, hvk', rfl⟩, Or.inr (Or.inl ⟨he, hnil, ho'⟩)⟩
  · unfold RT3OK
    refine ⟨hEm, (fun h => by rw [hph] at h; cases h), Or.inl ⟨ho', ?_⟩⟩
    simp only [hk]
    refine Or.inr ⟨k, primRT_reembed c k hir.rt, hvt', ?_⟩
    rw [hgv]
    exact (primVal_unembed c _).1 hV

theorem customTyped_hookFrom (rep : Bool) (a : TfVal) : CustomTyped rep (hookFrom rep a) := by
  unfold CustomTyped
  cases rep with
  | false => simp
  | true =>
    simp only [if_true]
    unfold hookFrom
    simp only [Bool.not_true, Bool.false_eq_true, if_false]
    split
    · intro e he
      simp only [sliceElems, List.mem_map] at he
      obtain ⟨x, _, rfl⟩ := he
      exact ⟨_, rfl⟩
    · intro e he; simp [sliceElems] at he
    · intro e he; simp [sliceElems] at he

/-- **a custom-type field** that holds what the `CopyFrom<S>` hook decoded is typed -/
theorem custom_typed (c : FieldInfo) (mv : Option FieldInfo) (msg : Option MsgInfo) (sub : List Field) (a : TfVal) (ty : TfTy)
    (o : GoVal) (hk : c.kind = .custom) (ho : c.oneOfName = "") (hph : c.isPlaceholder = false) (hEm : EmptyOK msg sub)
    (hreach : Reachable c o) (hg : getVal c o = hookFrom c.isRepeated a) :
    ToOK ⟨c, mv, msg, sub⟩ o ty ∧ RT3OK ⟨c, mv, msg, sub⟩ o := by
  obtain ⟨v, hv, _⟩ := hook_echo c.isRepeated a [] []
  refine ⟨?_, ?_⟩
  · unfold ToOK
    simp only [hk]
    exact ⟨ho, hreach, v, by rw [hg]; exact hv⟩
  · unfold RT3OK
    refine ⟨hEm, (fun h => by rw [hph] at h; cases h), Or.inl ⟨ho, ?_⟩⟩
    simp only [hk]
    rw [hg]
    exact customTyped_hookFrom _ _

-- the element-level judgement

/-- the attribute of `g` in the planned element is known (not null, not unknown) -/
def knownAt (A : List (String × TfVal)) (g : Field) : Bool :=
  match A.lookup g.info.nameSnake with
  | some a => a.isKnown
  | none => false

/-- **the decode of the element allocates the nullable embedded message `P`**: some child of `P` is of a custom kind (its
block always allocates the parent) or has a known (not null, not unknown) planned attribute -/
def ParentAllocBy (all : List Field) (A : List (String × TfVal)) (P : String) : Prop :=
  ∃ g ∈ all, g.info.parentIsOptionalEmbed = true ∧ g.info.parentIsOptionalEmbedFieldName = P ∧
    g.info.isPlaceholder = false ∧ (g.info.kind = .custom ∨ knownAt A g = true)

/-- `a` is a planned value of field `f` of an ELEMENT message with fields `all` and planned attributes `A`:
* **(P)** a field of the plain tree (`PlanOK`);
* **(E)** a child of a nullable embedded message whose own judgement is `PlanOK` without the flag: a SCALAR child always; a
  message / list / map child only if the decode allocates the parent (`ParentAllocBy`) – the exact condition, see
  `nonscalar_child_nil_parent_untyped` for the refutation of the unconditional version;
* **(C)** a custom-type field (child of a nullable embedded message or not), any planned value;
* **(S)** a scalar branch of a oneof group held by value whose Terraform type has a zero literal (what `RT3OK` admits). -/
def ElemOK (X : String → TfVal → Prop) (all : List Field) (A : List (String × TfVal)) : Field → TfVal → TfTy → Prop
  | ⟨info, mv, msg, sub⟩, a, ty =>
    PlanOK X ⟨info, mv, msg, sub⟩ a ty ∨
    (info.parentIsOptionalEmbed = true ∧ info.isPlaceholder = false ∧ PlanOK X ⟨unembed info, mv, msg, sub⟩ a ty ∧
      (info.kind = .primitive ∨ ParentAllocBy all A info.parentIsOptionalEmbedFieldName)) ∨
    (info.kind = .custom ∧ info.oneOfName = "" ∧ info.isPlaceholder = false ∧ EmptyOK msg sub) ∨
    (info.oneOfName ≠ "" ∧ info.parentIsOptionalEmbed = false ∧ info.isPlaceholder = false ∧ info.kind = .primitive ∧
      info.isNullable = false ∧ info.tf.zeroValue ≠ "" ∧ EmptyOK msg sub ∧ FreshIRs sub ∧
      ∃ k u n p, a = .prim k u n p ∧ ty = .prim k ∧ vkindOf info.tf.valueType = .prim k ∧ ScalarIR info k ∧ LeafOK info k u n p)

/-- every field of the list has a planned value and a type, names pairwise distinct, blocks do not interfere (`SepOK3`), of
two branches of one group at most one attribute is not null -/
def ElemOKs (X : String → TfVal → Prop) (all : List Field) (A : List (String × TfVal)) (atys : List (String × TfTy)) :
    List Field → Prop
  | [] => True
  | f :: rest =>
    (∃ a ty, A.lookup f.info.nameSnake = some a ∧ atys.lookup f.info.nameSnake = some ty ∧ ElemOK X all A f a ty) ∧
    f.info.nameSnake ∉ rest.map (·.info.nameSnake) ∧ (∀ g ∈ rest, SepOK3 f.info g.info) ∧
    (∀ g ∈ rest, f.info.oneOfName ≠ "" → g.info.oneOfName = f.info.oneOfName →
        notNullAt A f = false ∨ notNullAt A g = false) ∧
    ElemOKs X all A atys rest

theorem elemOKs_facts (X : String → TfVal → Prop) (all : List Field) (A : List (String × TfVal)) (atys : List (String × TfTy)) :
    ∀ (fs : List Field), ElemOKs X all A atys fs →
      SepAll fs ∧ (fs.map (·.info.nameSnake)).Nodup ∧ ExclAll (fun f => notNullAt A f = true) fs ∧
      ∀ f ∈ fs, ∃ a ty, A.lookup f.info.nameSnake = some a ∧ atys.lookup f.info.nameSnake = some ty ∧ ElemOK X all A f a ty
  | [], _ => ⟨trivial, by simp, trivial, by simp⟩
  | f :: rest, h => by
    unfold ElemOKs at h
    obtain ⟨hf, hn, hsep, hex, hrest⟩ := h
    obtain ⟨h1, h2, hx, h3⟩ := elemOKs_facts X all A atys rest hrest
    refine ⟨⟨hsep, h1⟩, by simp only [List.map_cons, List.nodup_cons]; exact ⟨hn, h2⟩, ⟨?_, hx⟩, ?_⟩
    · intro g hg hne hsame hboth
      rcases hex g hg hne hsame with h | h
      · rw [hboth.1] at h; cases h
      · rw [hboth.2] at h; cases h
    intro g hg
    simp only [List.mem_cons] at hg
    rcases hg with rfl | hg
    · exact hf
    · exact h3 g hg

/-- a scalar field of the plain tree: the decoded value and its typing -/
theorem prim_vt (X : String → TfVal → Prop) (info : FieldInfo) (mv : Option FieldInfo) (msg : Option MsgInfo)
    (sub : List Field) (a : TfVal) (ty : TfTy) (hp : PlanOK X ⟨info, mv, msg, sub⟩ a ty) (hph : info.isPlaceholder = false)
    (hkind : info.kind = .primitive) :
    ∃ k u n p y, a = .prim k u n p ∧ vkindOf info.tf.valueType = .prim k ∧ primDecode info k u n p = .ok y ∧
      VT ⟨info, mv, msg, sub⟩ ty y := by
  unfold PlanOK at hp
  obtain ⟨ho, he, hphk, hEm, hp⟩ := hp
  simp only [hkind] at hp
  obtain ⟨k, u, n, p, rfl, rfl, hvk, hp⟩ := hp
  rcases hp with hp | ⟨hvt, hir, hleaf⟩
  · rw [hph] at hp; cases hp
  obtain ⟨y, hy, hT, hV⟩ := primDecode_typed info k hir u n p hleaf.castable
  refine ⟨k, u, n, p, y, rfl, hvt, hy, ?_⟩
  intro obj hg
  simp only at hg
  unfold ToOK RTOK
  simp only [hkind]
  rw [hg]
  exact ⟨⟨⟨k, hvk, rfl⟩, Or.inr (Or.inr ⟨reachable_plain info obj he, hT⟩)⟩, ho, he, hEm, (fun _ => trivial), Or.inr ⟨k, hir.rt, hvt, hV⟩⟩

/-- what the typing lemma needs from the block of one field: the planned value, the typing of the field in every struct in
the state the block leaves (`Fin`), and "a custom or known child of a nullable embedded message is assigned" -/
def TPost (A : List (String × TfVal)) (atys : List (String × TfTy)) (f : Field) (Act : Prop) (Qn : Prop)
    (Qs : GoVal → Prop) : Prop :=
  ∃ a ty, A.lookup f.info.nameSnake = some a ∧ atys.lookup f.info.nameSnake = some ty ∧
    (∀ o, FinA f.info Act Qn Qs o → PShape f.info o →
      (f.info.parentIsOptionalEmbed = true → f.info.kind ≠ .primitive →
        ∃ s, o.field? f.info.parentIsOptionalEmbedFieldName = some (.ptr (some s))) →
      ToOK f o ty ∧ RT3OK f o) ∧
    (f.info.parentIsOptionalEmbed = true → (f.info.kind = .custom ∨ a.isKnown = true) → f.info.oneOfName = "" ∧ ¬ Qn)

theorem cfield_none_alloc (c : FieldInfo) (o s : GoVal) (he : c.parentIsOptionalEmbed = true)
    (_hs : o.field? c.parentIsOptionalEmbedFieldName = some (.ptr (some s)))
    (hc : cfield c.parentIsOptionalEmbedFieldName c.name o = none) : getVal c o = zeroGoOf c := by
  rw [getVal_embed c o he, hc]
  rfl

/-- **the block of one field of the element judgement** -/
theorem elemOK_blk (X : String → TfVal → Prop) (ov : List (String × String)) (all : List Field) (A : List (String × TfVal))
    (atys : List (String × TfTy)) (attrs : Option (List (String × TfVal))) (hA : attrs.getD [] = A) :
    ∀ (f : Field) (a : TfVal) (ty : TfTy), A.lookup f.info.nameSnake = some a → atys.lookup f.info.nameSnake = some ty →
      ElemOK X all A f a ty → f.info.isPlaceholder = false →
      ∃ Qn Qs, BlkA ov f attrs (notNullAt A f = true) Qn Qs ∧ TPost A atys f (notNullAt A f = true) Qn Qs
  | ⟨info, mv, msg, sub⟩, a, ty, hla, hlt, hp, hph => by
    simp only at hla hlt hph
    have hl : (attrs.getD []).lookup info.nameSnake = some a := by rw [hA]; exact hla
    unfold ElemOK at hp
    rcases hp with hp | ⟨he, _, hp, hcond⟩ | ⟨hk, ho, _, hEm⟩ |
      ⟨ho, he, _, hk, hn, hz, hEm, hFs, k, u, n, p, rfl, rfl, hvt, hir, hleaf⟩
    · -- (P) plain tree
      obtain ⟨ho, he, _⟩ := planOK_facts X _ a ty hp
      simp only at ho he
      refine ⟨True, VT ⟨info, mv, msg, sub⟩ ty, Or.inl ⟨ho, ?_⟩, a, ty, hla, hlt, ?_, ?_⟩
      · intro st _ _
        left
        obtain ⟨x, hrun, htyped, _⟩ := decField X ov ⟨info, mv, msg, sub⟩ attrs st a ty hl hp hph
        exact ⟨he, x, st.hooks, hrun, htyped⟩
      · intro o hfinA _ _
        have hfin := hfinA.1 ho
        obtain ⟨y, hy, hvt⟩ := hfin.1 he
        have hg : getVal info o = y := by rw [getVal_plain info o ho he, hy]; rfl
        obtain ⟨hT, hR⟩ := hvt o hg
        exact ⟨hT, rt3ok_of_rt2ok _ o (rtok_rt2ok _ o hR)⟩
      · intro h; simp only at h; rw [he] at h; cases h
    · -- (E) child of a nullable embedded message
      obtain ⟨ho', _, _⟩ := planOK_facts X _ a ty hp
      have ho : info.oneOfName = "" := ho'
      have hph' : (unembed info).isPlaceholder = false := hph
      have hnc : info.kind ≠ .custom := by
        intro hk
        unfold PlanOK at hp
        have hk' : (unembed info).kind = .custom := hk
        simp only [hk'] at hp
        exact hp.2.2.2.2
      have hblk : Blk ov ⟨info, mv, msg, sub⟩ attrs (a.isKnown = false) (VT ⟨unembed info, mv, msg, sub⟩ ty) := by
        by_cases hkp : info.kind = .primitive
        · obtain ⟨k, u, n, p, y, rfl, hvt, hy, hvty⟩ := prim_vt X (unembed info) mv msg sub a ty hp hph' hkp
          exact blk_prim_embed ov info mv msg sub attrs k u n p y _ _ hkp ho he hvt hl hy (fun h => h) hvty
        · obtain ⟨_, ⟨hvk1, hvk2⟩, _⟩ := planOK_nonprim_shape X (unembed info) mv msg sub a ty hp hkp
          have hv : (a.vkind != vkindOf info.tf.valueType || a.vkind == .unknown) = false := by
            have h1 : a.vkind = vkindOf info.tf.valueType := hvk1
            simp [h1]
            rw [← h1]; exact hvk2
          refine blk_embed ov info mv msg sub attrs a _ _ he hnc hkp ho hl hv ?_ (fun h => h)
          intro st' _
          obtain ⟨x, hrun, htyped, _⟩ := decField X ov ⟨unembed info, mv, msg, sub⟩ attrs st' a ty hl hp hph'
          exact ⟨x, st'.hooks, hrun, htyped⟩
      refine ⟨_, _, Or.inl ⟨ho, hblk⟩, a, ty, hla, hlt, ?_, ?_⟩
      · intro o hfinA hps halloc
        have hfin := hfinA.1 ho
        simp only at hps halloc
        rcases hfin.2 he with ⟨hc, hqn⟩ | ⟨y, hc, hvt⟩
        · rcases alloc_or_not info.parentIsOptionalEmbedFieldName o with ⟨s, hs⟩ | hna
          · exact embed_child_typed X info mv msg sub a ty o hp hph ⟨s, hs⟩
              (Or.inl ⟨cfield_none_alloc info o s he hs hc, Or.inl hqn⟩)
          · by_cases hkp : info.kind = .primitive
            · refine embed_prim_nil_typed X info mv msg sub a ty o hp hkp he hph ?_
              rcases hps he with hnone | ⟨s, hs, _⟩
              · exact parentIsNil_of_none info o hnone
              · exact absurd hs (hna s)
            · obtain ⟨s, hs⟩ := halloc he hkp
              exact absurd hs (hna s)
        · have hgv : getVal info o = y := by rw [getVal_embed info o he, hc]; rfl
          refine embed_child_typed X info mv msg sub a ty o hp hph (alloc_of_cfield _ _ o y hc) (Or.inr ?_)
          rw [hgv]; exact hvt
      · intro _ hk
        refine ⟨ho, fun hqn => ?_⟩
        rcases hk with hk | hk
        · exact hnc hk
        · rw [hqn] at hk; cases hk
    · -- (C) custom type
      refine ⟨False, fun y => y = hookFrom info.isRepeated a, Or.inl ⟨ho, blk_custom ov info mv msg sub attrs a _ _ hk hl rfl⟩,
        a, ty, hla, hlt, ?_, fun _ _ => ⟨ho, fun h => h⟩⟩
      intro o hfinA _ _
      have hfin := hfinA.1 ho
      by_cases he : info.parentIsOptionalEmbed = true
      · rcases hfin.2 he with ⟨_, hf⟩ | ⟨y, hc, hy⟩
        · exact hf.elim
        · obtain ⟨s, hs⟩ := alloc_of_cfield _ _ o y hc
          have hgv : getVal info o = hookFrom info.isRepeated a := by rw [getVal_embed info o he, hc, ← hy]; rfl
          exact custom_typed info mv msg sub a ty o hk ho hph hEm
            (fun _ => ⟨parentIsNil_of_alloc info o s hs, ho, s, hs⟩) hgv
      · have he' : info.parentIsOptionalEmbed = false := by simpa using he
        obtain ⟨y, hy, hq⟩ := hfin.1 he'
        have hgv : getVal info o = hookFrom info.isRepeated a := by rw [getVal_plain info o ho he', hy, ← hq]; rfl
        exact custom_typed info mv msg sub a ty o hk ho hph hEm (reachable_plain info o he') hgv

    · -- (S) scalar branch held by value, with a zero literal
      have hp3 : PlanOK3 X ⟨info, mv, msg, sub⟩ (.prim k u n p) (.prim k) := by
        unfold PlanOK3
        exact Or.inr (Or.inr (Or.inl ⟨ho, he, hph, hk, k, u, n, p, rfl, rfl, hvt, hir, hleaf⟩))
      have hfresh : FreshIR ⟨info, mv, msg, sub⟩ := by
        unfold FreshIR
        exact ⟨fun _ _ => ⟨Or.inr hz, hEm⟩, hFs⟩
      have wf : wkey info = info.oneOfName := wkey_branch _ ho
      refine ⟨∀ o, activePayload info o = none → Ech3 X ⟨info, mv, msg, sub⟩ (.prim k u n p) (.prim k) o,
        fun y => ∀ o, o.field? info.oneOfName = some (wrapOf info y) → Ech3 X ⟨info, mv, msg, sub⟩ (.prim k u n p) (.prim k) o,
        Or.inr ⟨ho, he, ?_⟩, _, _, hla, hlt, ?_, ?_⟩
      · intro st hs
        rcases decField3 X ov ⟨info, mv, msg, sub⟩ attrs st _ _ hl hp3 hph hs with ⟨x, hrun, hbr, hEf⟩ | ⟨_, hrun, hEf⟩
        · obtain ⟨hnn, y, rfl⟩ := hbr ho
          simp only at hrun hEf
          rw [wf] at hrun hEf
          exact Or.inr ⟨notNullAt_of A ⟨info, mv, msg, sub⟩ _ hla hnn, y, st.hooks, hrun, hEf⟩
        · exact Or.inl ⟨hrun, hEf⟩
      · intro o hfinA _ _
        have hE : Ech3 X ⟨info, mv, msg, sub⟩ (.prim k u n p) (.prim k) o := by
          rcases hfinA.2 ho with ⟨hq, hap⟩ | ⟨_, y, hy, hq⟩
          · exact hq o hap
          · exact hq o hy
        refine ⟨ech3_toOK X _ _ _ o hE, ?_⟩
        have h4 := ech3_rt4OK X _ _ _ o hfresh hE
        unfold RT4OK at h4
        obtain ⟨_, hem, hph', hc⟩ := h4
        unfold RT3OK
        refine ⟨hem, hph', Or.inr ⟨ho, he, ?_⟩⟩
        rcases hc with ⟨ho', _⟩ | ⟨_, hw, hm⟩
        · exact absurd ho' ho
        · simp only [hk] at hm ⊢
          exact ⟨hw, hn, hz, hm.2⟩
      · intro h
        simp only at h
        rw [he] at h
        cases h

theorem toOKs_of_forall (o : GoVal) (atys : List (String × TfTy)) : ∀ l : List Field,
    (∀ f ∈ l, ∃ ty, atys.lookup f.info.nameSnake = some ty ∧ ToOK f o ty) → (l.map (·.info.nameSnake)).Nodup → ToOKs l o atys
  | [], _, _ => by unfold ToOKs; trivial
  | f :: rest, h, hnd => by
    unfold ToOKs
    simp only [List.map_cons, List.nodup_cons] at hnd
    exact ⟨h f (by simp), hnd.1, toOKs_of_forall o atys rest (fun g hg => h g (by simp [hg])) hnd.2⟩

theorem rt3oks_of_forall (o : GoVal) : ∀ l : List Field, (∀ f ∈ l, RT3OK f o) → SepAll l → RT3OKs l o
  | [], _, _ => by unfold RT3OKs; trivial
  | f :: rest, h, hsep => by
    unfold SepAll at hsep
    unfold RT3OKs
    exact ⟨h f (by simp), hsep.1, rt3oks_of_forall o rest (fun g hg => h g (by simp [hg])) hsep.2⟩

/-- **part (1) of the task, the typing lemma: the struct decoded from a planned element (attribute map `A`) of a message
whose fields satisfy the element judgement is typed for the CopyTo from scratch and for the read-back** (`ToOKs ∧ RT3OKs`);
the decode appends no diagnostic.  `names`: the oneof holders the recursive call resets (`resetOneOfs`); no parent pointer
of a nullable embedded message is among them. -/
theorem elem_typing (X : String → TfVal → Prop) (ov : List (String × String)) (names : List String) (fs : List Field)
    (A : List (String × TfVal)) (atys : List (String × TfTy)) (h : ElemOKs X fs A atys fs)
    (hnames : ∀ g ∈ fs, g.info.parentIsOptionalEmbed = true → g.info.parentIsOptionalEmbedFieldName ∉ names)
    (attrs : Option (List (String × TfVal))) (hA : attrs.getD [] = A) (ds : List Diag) (hs : List HookCall) :
    ∃ o hs', copyFromFields ov fs attrs { obj := resetOneOfs names (.struct []), diags := ds, hooks := hs } =
        .ok { obj := o, diags := ds, hooks := hs' } ∧
      IsStruct o ∧ ToOKs fs o atys ∧ RT3OKs fs o := by
  obtain ⟨hsep, hnd, hexcl, hall⟩ := elemOKs_facts X fs A atys fs h
  have hso0 : IsStruct (resetOneOfs names (.struct [])) := isStruct_resetOneOfs _ _ trivial
  have hpw0 : ∀ f ∈ fs, PShape f.info (resetOneOfs names (.struct [])) := fun g hg => pshape_fresh g.info names (hnames g hg)
  have hpre0 : ∀ f ∈ fs, f.info.oneOfName ≠ "" → f.info.parentIsOptionalEmbed = false →
      activePayload f.info (resetOneOfs names (.struct [])) = none :=
    fun f _ _ _ => activePayload_init f.info _ (initNone_reset _ _ (.struct []) trivial (initNone_empty _))
  obtain ⟨o, hs', hrun, hso, hfin, _, _, hps, _⟩ := seqFromA ov attrs (fun f => notNullAt A f = true)
    (fun f Qn Qs => TPost A atys f (notNullAt A f = true) Qn Qs) fs
    { obj := resetOneOfs names (.struct []), diags := ds, hooks := hs }
    hso0 hpw0 hsep hexcl hpre0
    (fun f hf hph => by
      obtain ⟨a, ty, hla, hlt, hp⟩ := hall f hf
      exact elemOK_blk X ov fs A atys attrs hA f a ty hla hlt hp hph)
  have hpw1 : ∀ f ∈ fs, PShape f.info o := by
    intro f hf he
    exact hps _ (fun g hg heg => by
      have := sepAll_plain_embed fs hsep g hg f hf heg he
      rw [wkey3_embed _ he] at this
      exact this) (hpw0 f hf he)
  -- the decode allocates every parent the judgement says it allocates
  have halloc : ∀ P, ParentAllocBy fs A P → ∃ s, o.field? P = some (.ptr (some s)) := by
    intro P ⟨g, hg, hge, hgP, hgph, hgk⟩
    obtain ⟨Qn, Qs, hf, a, ty, hla, _, _, hnq⟩ := hfin g hg hgph
    have hk : g.info.kind = .custom ∨ a.isKnown = true := by
      rcases hgk with h | h
      · exact Or.inl h
      · right
        unfold knownAt at h
        rw [hla] at h
        exact h
    obtain ⟨ho, hnq'⟩ := hnq hge hk
    rcases (hf.1 ho).2 hge with ⟨_, hqn⟩ | ⟨y, hc, _⟩
    · exact absurd hqn hnq'
    · rw [← hgP]
      exact alloc_of_cfield _ _ o y hc
  have hkindc : ∀ (info : FieldInfo) (mv : Option FieldInfo) (msg : Option MsgInfo) (sub : List Field) (a : TfVal) (ty : TfTy),
      PlanOK X ⟨info, mv, msg, sub⟩ a ty → info.parentIsOptionalEmbed = false := fun info mv msg sub a ty hp =>
    (planOK_facts X ⟨info, mv, msg, sub⟩ a ty hp).2.1
  have heach : ∀ f ∈ fs, ∃ ty, atys.lookup f.info.nameSnake = some ty ∧ ToOK f o ty ∧ RT3OK f o := by
    intro f hf
    obtain ⟨a', ty', hla', hlt', hp⟩ := hall f hf
    by_cases hph : f.info.isPlaceholder = true
    · obtain ⟨info, mv, msg, sub⟩ := f
      simp only at hph
      unfold ElemOK at hp
      rcases hp with hp | ⟨_, h, _⟩ | ⟨_, _, h, _⟩ | ⟨_, _, h, _⟩
      · obtain ⟨hT, hR, _⟩ := placeholder_typed X _ a' ty' hp hph o
        exact ⟨ty', hlt', hT, rt3ok_of_rt2ok _ o (rtok_rt2ok _ o hR)⟩
      · rw [hph] at h; cases h
      · rw [hph] at h; cases h
      · rw [hph] at h; cases h
    · have hph' : f.info.isPlaceholder = false := by simpa using hph
      obtain ⟨Qn, Qs, hf', a, ty, hla, hlt, htyp, _⟩ := hfin f hf hph'
      refine ⟨ty, hlt, htyp o hf' (hpw1 f hf) ?_⟩
      intro he hkp
      obtain ⟨info, mv, msg, sub⟩ := f
      simp only at he hkp hph'
      unfold ElemOK at hp
      rcases hp with hp | ⟨_, _, _, hc⟩ | ⟨hk, _⟩ | ⟨_, he', _⟩
      · rw [hkindc info mv msg sub a' ty' hp] at he; cases he
      · rcases hc with hc | hc
        · exact absurd hc hkp
        · exact halloc _ hc
      · exact halloc _ ⟨⟨info, mv, msg, sub⟩, hf, he, rfl, hph', Or.inl hk⟩
      · rw [he'] at he; cases he
  refine ⟨o, hs', hrun, hso, ?_, ?_⟩
  · exact toOKs_of_forall o atys fs (fun f hf => by obtain ⟨ty, h1, h2, _⟩ := heach f hf; exact ⟨ty, h1, h2⟩) hnd
  · exact rt3oks_of_forall o fs (fun f hf => by obtain ⟨_, _, _, h3⟩ := heach f hf; exact h3) hsep

-- ------------------------------------------------------------------------------------------------------
-- D. part (3): the list template over `ToOKs ∧ RT3OKs`

/-- a decoded message element of a list / map: typed for the CopyTo from scratch and for the read-back (`RT3OKs`) -/
def ElemTyped3 (nullable : Bool) (sub : List Field) (tys : List (String × TfTy)) (e : GoVal) : Prop :=
  MsgTyped nullable (fun s => ToOKs sub s tys) e ∧ MsgTyped nullable (fun s => RT3OKs sub s) e

theorem recSpec_fresh3 (sub : List Field) (as : List (String × TfTy)) (sk : List String) :
    RecSpec (fun o a s => copyToFields sub o a s) (some as) (fun s => ToOKs sub s as ∧ RT3OKs sub s)
      (fun o as' => rendersFields3 sub o as' && noUnknownAs sk as') := by
  intro s diags hooks hP
  obtain ⟨A, hs', hrun, hr, hkn⟩ := freshRender_noUnknown sub s as sk hP.1 hP.2 diags hooks
  exact ⟨A, hs', hrun, by simp [hr, hkn]⟩

/-- the element body of a list / map of messages renders every typed element (`rendersFields3`), leaving nothing unknown
below – `objElems_spec2` over `RT3OKs` -/
theorem objElems_spec3 (info : FieldInfo) (msg : Option MsgInfo) (sub : List Field) (obj : GoVal) (as : List (String × TfTy))
    (sk : List String) (elems : List GoVal)
    (hkind : info.kind = .objectList ∨ info.kind = .objectMap) (hsub : sub ≠ []) (hne : isEmptyMsg msg = false)
    (hT : ∀ e ∈ elems, ElemTyped3 info.isNullable sub as e) :
    BodySpec (elemBodyOf (fun o a s => copyToFields sub o a s) info msg sub.isEmpty obj (some (.obj (some as))) (some as))
      (fun e v => objRenders info.isNullable (fun o as' => rendersFields3 sub o as') e v && noUnknownDeep sk v) elems := by
  intro a ha diags hooks
  have hse : sub.isEmpty = false := by cases sub <;> simp_all
  have hE : isEmptyMsg msg = true → ∀ fs, a = .ptr (some (.struct fs)) ∨ a = .struct fs → fs = [] := by
    intro h; rw [hne] at h; cases h
  obtain ⟨v, hs, hrun, hr, hkn⟩ := objBody_fresh_known (fun o a s => copyToFields sub o a s) info msg (some as) a diags hooks
    (fun s => ToOKs sub s as ∧ RT3OKs sub s) (fun o as' => rendersFields3 sub o as') sk (recSpec_fresh3 sub as sk) hE
    (msgTyped_and _ _ _ _ (hT a ha).1 (hT a ha).2)
  refine ⟨v, hs, ?_, by simp [hr, hkn]⟩
  have hkk : (info.kind == .objectList || info.kind == .objectMap) = true := by rcases hkind with h | h <;> simp [h]
  simp only [elemBodyOf, hkk, hse, if_true]
  simpa using hrun

/-- the element body decodes every element satisfying `T` into a value satisfying `Q`, without a diagnostic; the hook log
may grow (custom kinds inside the element) -/
def ElemDecH (body : TfVal → List Diag → List HookCall → Outcome (Option GoVal × List Diag × List HookCall))
    (T : TfVal → Prop) (Q : GoVal → Prop) : Prop :=
  ∀ e ds hs, T e → ∃ y hs', body e ds hs = .ok (some y, ds, hs') ∧ Q y

theorem fromElemsList_decH (body : TfVal → List Diag → List HookCall → Outcome (Option GoVal × List Diag × List HookCall))
    (T : TfVal → Prop) (Q : GoVal → Prop) (hb : ElemDecH body T Q) (ds : List Diag) :
    ∀ (vs : List TfVal) (pre post : List GoVal) (hs : List HookCall), (∀ e ∈ vs, T e) → post.length = vs.length →
      ∃ ys hs', fromElemsList body vs pre.length (pre ++ post) ds hs = .ok (pre ++ ys, ds, hs') ∧ ys.length = vs.length ∧
        ∀ y ∈ ys, Q y
  | [], pre, post, hs, _, hp => by
    have hpost : post = [] := by simpa using hp
    subst hpost
    exact ⟨[], hs, by simp [fromElemsList], rfl, by simp⟩
  | v :: vs, pre, post, hs, hT, hp => by
    cases post with
    | nil => simp at hp
    | cons p0 post' =>
      obtain ⟨y, hs1, hrun, hq⟩ := hb v ds hs (hT v (by simp))
      have hset : (pre ++ p0 :: post').set pre.length y = (pre ++ [y]) ++ post' := by
        simp [List.set_append_right]
      obtain ⟨ys, hs2, hrun2, hlen, hall⟩ := fromElemsList_decH body T Q hb ds vs (pre ++ [y]) post' hs1
        (fun e' he' => hT e' (by simp [he'])) (by simpa using hp)
      refine ⟨y :: ys, hs2, ?_, by simp [hlen], ?_⟩
      · simp only [fromElemsList, hrun, hset]
        have : (pre ++ [y]).length = pre.length + 1 := by simp
        rw [this] at hrun2
        rw [hrun2]
        simp
      · intro z hz
        simp only [List.mem_cons] at hz
        rcases hz with rfl | hz
        · exact hq
        · exact hall z hz

theorem fromFieldWith_list_runH (rec : FromRec) (ov : List (String × String)) (info : FieldInfo) (mv : Option FieldInfo)
    (msg : Option MsgInfo) (attrs : Option (List (String × TfVal))) (st : FromSt) (u n : Bool)
    (es : Option (List TfVal)) (ety : Option TfTy) (l : List GoVal) (hs' : List HookCall)
    (hk : info.kind = .primitiveList ∨ info.kind = .objectList)
    (he : info.parentIsOptionalEmbed = false) (hvt : vkindOf info.tf.valueType = .list) (hkn : known u n = true)
    (hl : (attrs.getD []).lookup info.nameSnake = some (.list u n es ety))
    (hloop : fromElemsList (fromElemBody rec ov info info) (es.getD []) 0
        (List.replicate (es.getD []).length (zeroElem info)) st.diags st.hooks = .ok (l, st.diags, hs')) :
    copyFromFieldWith rec ov info mv msg attrs st =
      .ok { obj := st.obj.setField info.name (.slice (some l)), diags := st.diags, hooks := hs' } := by
  unfold copyFromFieldWith
  rcases hk with hk | hk <;>
    simp [hk, hl, TfVal.vkind, hvt, embedGuard_plain info _ _ he, writeField_plain info _ _ he, hkn, hloop,
      setField_setField_same]

/-- a message element of a planned list / map whose message satisfies the element judgement -/
def ElemPlanE (X : String → TfVal → Prop) (nullable : Bool) (sub : List Field) (tys : List (String × TfTy)) (e : TfVal) : Prop :=
  ∃ u' n' as tys', e = .obj u' n' as tys' ∧
    (known u' n' = true → ElemOKs X sub (as.getD []) tys sub) ∧
    (known u' n' = false → nullable = false → ToOKs sub (.struct []) tys ∧ RT3OKs sub (.struct []))

theorem elemDec_objH (X : String → TfVal → Prop) (ov : List (String × String)) (info vf : FieldInfo) (names : List String)
    (sub : List Field) (tys : List (String × TfTy))
    (hnames : ∀ g ∈ sub, g.info.parentIsOptionalEmbed = true → g.info.parentIsOptionalEmbedFieldName ∉ names)
    (hvf : vkindOf vf.tf.elemValueType = .obj) (hk : info.kind = .objectList ∨ info.kind = .objectMap) :
    ElemDecH (fromElemBody (fun as s => copyFromFields ov sub as { s with obj := resetOneOfs names s.obj }) ov info vf)
      (ElemPlanE X info.isNullable sub tys) (ElemTyped3 info.isNullable sub tys) := by
  intro e ds hs ⟨u, n, as, tys', he, hkn, hunk⟩
  subst he
  have hkk : (info.kind == .objectList || info.kind == .objectMap) = true := by rcases hk with hk | hk <;> simp [hk]
  unfold fromElemBody ElemTyped3 MsgTyped
  simp only [TfVal.vkind, hvf, hkk, if_true, bne_self_eq_false, Bool.false_or]
  simp only [show (VKind.obj == VKind.unknown) = false from rfl, Bool.false_eq_true, if_false]
  by_cases hknown : known u n = true
  · obtain ⟨o, hs', hrun, hso, hT, hR⟩ := elem_typing X ov names sub (as.getD []) tys (hkn hknown) hnames as rfl ds hs
    have hrun' : copyFromFields ov sub as
        { obj := resetOneOfs names (GoVal.struct []), diags := ds, hooks := hs } = .ok { obj := o, diags := ds, hooks := hs' } := hrun
    cases o with
    | struct fs =>
      by_cases hn : info.isNullable = true
      · refine ⟨.ptr (some (.struct fs)), hs', by simp [hknown, hrun', hn], ?_, ?_⟩
        · simp only [hn, if_true]; exact Or.inr ⟨fs, rfl, hT⟩
        · simp only [hn, if_true]; exact Or.inr ⟨fs, rfl, hR⟩
      · have hn' : info.isNullable = false := by simpa using hn
        refine ⟨.struct fs, hs', by simp [hknown, hrun', hn'], ?_, ?_⟩
        · simp only [hn', Bool.false_eq_true, if_false]; exact ⟨fs, rfl, hT⟩
        · simp only [hn', Bool.false_eq_true, if_false]; exact ⟨fs, rfl, hR⟩
    | sc _ => cases hso
    | ptr _ => cases hso
    | slice _ => cases hso
    | map _ => cases hso
    | iface _ => cases hso
  · have hknown' : known u n = false := by simpa using hknown
    by_cases hn : info.isNullable = true
    · refine ⟨.ptr none, hs, by simp [hknown', zeroMsg, hn], ?_, ?_⟩
      · simp only [hn, if_true]; exact Or.inl trivial
      · simp only [hn, if_true]; exact Or.inl trivial
    · have hn' : info.isNullable = false := by simpa using hn
      obtain ⟨hzT, hzR⟩ := hunk hknown' hn'
      refine ⟨.struct [], hs, by simp [hknown', zeroMsg, hn'], ?_, ?_⟩
      · simp only [hn', Bool.false_eq_true, if_false]; exact ⟨[], rfl, hzT⟩
      · simp only [hn', Bool.false_eq_true, if_false]; exact ⟨[], rfl, hzR⟩

/-- **clause (L) of the new judgement**: a list of messages (outside oneof groups and nullable embedded messages) whose
ELEMENT messages carry children of nullable embedded messages and custom kinds – every element of a known list satisfies the
element judgement `ElemOKs`; a null / unknown element held by value: the zero struct is typed; the parent pointers of the
element message are not holders of its oneof groups -/
def ListElemsOK (X : String → TfVal → Prop) : Field → TfVal → TfTy → Prop
  | ⟨info, _, msg, sub⟩, a, ty =>
    info.oneOfName = "" ∧ info.parentIsOptionalEmbed = false ∧ info.isPlaceholder = false ∧ info.kind = .objectList ∧
    EmptyOK msg sub ∧
    (∀ g ∈ sub, g.info.parentIsOptionalEmbed = true →
      g.info.parentIsOptionalEmbedFieldName ∉ (msg.map (·.oneOfNames)).getD []) ∧
    ∃ u n es et tys, a = .list u n es et ∧ ty = .list (some (.obj (some tys))) ∧ vkindOf info.tf.valueType = .list ∧
      vkindOf info.tf.elemValueType = .obj ∧ info.isRepeated = true ∧ sub ≠ [] ∧ isEmptyMsg msg = false ∧
      (known u n = true → ∀ e ∈ es.getD [], ElemPlanE X info.isNullable sub tys e) ∧
      (u = false → n = true → es.getD [] = [])

/-- **part (3), the list template: the echo of a list attribute whose elements satisfy the element judgement** – first
decode (`elem_typing` per element), CopyTo (every element rendered from scratch, nothing unknown: `objElems_spec3`), second
decode (`fromField_reads3`, the C04 round trip over `RT3OKs`) -/
theorem fieldEcho_listE (X : String → TfVal → Prop) (ov : List (String × String)) (skN skE : List String) :
    ∀ (f : Field) (a : TfVal) (ty : TfTy), ListElemsOK X f a ty → FieldEcho ov skN skE f a ty
  | ⟨info, mv, msg, sub⟩, a, ty, hp => by
    unfold ListElemsOK at hp
    obtain ⟨ho, he, hph, hk, hem, hnames, u, n, es, et, tys, rfl, rfl, hvt, hevk, hrep, hsub, hne, hel, hnull⟩ := hp
    refine ⟨True, fun y => ∃ xs, y = .slice (some xs) ∧ xs.length = (if known u n then (es.getD []).length else 0) ∧
      ∀ e ∈ xs, ElemTyped3 info.isNullable sub tys e, ?_, ?_⟩
    · intro _ attrs hl st _ _
      left
      refine ⟨he, ?_⟩
      simp only [copyFromField]
      by_cases hknown : known u n = true
      · obtain ⟨ys, hs', hloop, hlen, hall⟩ := fromElemsList_decH _ _ _
          (elemDec_objH X ov info info ((msg.map (·.oneOfNames)).getD []) sub tys hnames hevk (Or.inl hk)) st.diags
          (es.getD []) [] (List.replicate (es.getD []).length (zeroElem info)) st.hooks (hel hknown) (by simp)
        simp only [List.length_nil, List.nil_append] at hloop
        exact ⟨.slice (some ys), hs',
          fromFieldWith_list_runH _ ov info mv msg attrs st u n es et ys hs' (Or.inr hk) he hvt hknown hl hloop,
          ys, rfl, by simp [hknown, hlen], hall⟩
      · have hknown' : known u n = false := by simpa using hknown
        have hrun := fromFieldWith_unknown_run
          (fun as s => copyFromFields ov sub as { s with obj := resetOneOfs ((msg.map (·.oneOfNames)).getD []) s.obj })
          ov info mv msg attrs st _ ho he hl (Or.inr (Or.inl ⟨Or.inr hk, u, n, es, et, rfl, hknown', hvt⟩))
        have hzw : zeroWrite info = GoVal.slice (some []) := by simp [zeroWrite, hk]
        rw [hzw] at hrun
        exact ⟨.slice (some []), st.hooks, hrun, [], rfl, by simp [hknown'], by simp⟩
    · intro o atys _ _ hfin hty st hcur
      simp only at hty hcur hfin
      obtain ⟨y, hy, xs, rfl, hlen, hall⟩ := (hfin hph).1 he
      have hgx : getVal info o = .slice (some xs) := by rw [getVal_plain info o ho he, hy]; rfl
      have hek : vkindOf info.tf.elemValueType ≠ .list := by rw [hevk]; simp
      have hoty : elemObjTy (info.kind == .objectList || info.kind == .objectMap) (some (.obj (some tys))) = .ok (some tys) := by
        simp [elemObjTy, hk]
      obtain ⟨r, hs, hrun, hlenr, hallr, hkn⟩ := listField_run info mv msg sub o atys st (.obj (some tys)) (some tys)
        (fun e v => objRenders info.isNullable (fun o as' => rendersFields3 sub o as') e v) skN xs (Or.inr hk) ho he hrep hty hek hoty
        hgx (objElems_spec3 info msg sub o tys skN xs (Or.inl hk) hsub hne hall) u n es et (Or.inl hcur)
      refine ⟨_, hs, hrun, ⟨hkn, Or.inr ?_⟩, ?_⟩
      · cases u with
        | true => simp [echoKeeps]
        | false =>
          cases n with
          | false =>
            simp only [known, Bool.not_false, Bool.and_self, if_true] at hlen
            simp [echoKeeps, hlenr, hlen]
          | true =>
            simp only [known, Bool.not_true, Bool.false_and, Bool.false_eq_true, if_false] at hlen
            have hxs : xs = [] := by simpa using hlen
            subst hxs
            have hr0 : r = [] := by simpa using hlenr
            subst hr0
            simp [echoKeeps, hnull rfl rfl]
      · intro _ attrs2 hl2 st2 hs2 _
        left
        refine ⟨he, ?_⟩
        cases xs with
        | nil =>
          have hrt4 : RT4OK ⟨info, mv, msg, sub⟩ o := by
            unfold RT4OK
            refine ⟨he, hem, fun h => (by rw [hph] at h; cases h), Or.inl ⟨ho, ?_⟩⟩
            simp only [hk]
            refine ⟨hvt, hevk, ?_⟩
            rw [hgx]
            intro e he'
            simp [sliceElems] at he'
          have hsd := secondDec_list2 ov info mv msg sub o [] r n et (Or.inr hk) ho he hph hvt hgx hlenr hrt4
            (fun h => absurd rfl h)
          obtain ⟨y2, hrun2, hv⟩ := hsd attrs2 st2 hl2
          exact ⟨y2, st2.hooks, hrun2, hv⟩
        | cons x0 xs0 =>
          have hrend : rendersVal3 ⟨info, mv, msg, sub⟩ o
              (.list false (if (x0 :: xs0).length > 0 then false else n) (some r) et) = true := by
            simp [rendersVal3, hk, hgx, sliceElems, hlenr, hallr]
          have hrt3 : RT3OK ⟨info, mv, msg, sub⟩ o := by
            unfold RT3OK
            refine ⟨hem, (fun h => by rw [hph] at h; cases h), Or.inl ⟨ho, ?_⟩⟩
            simp only [hk]
            refine ⟨hvt, hevk, ?_⟩
            rw [hgx]
            exact fun e he' => (hall e he').2
          rcases fromField_reads3 ov ⟨info, mv, msg, sub⟩ o attrs2 st2 _ hl2 hrend hrt3 hph hs2 with
            ⟨_, _, h⟩ | ⟨_, h, _⟩ | ⟨h, _⟩
          · exact h
          · simp only at h; rw [he] at h; cases h
          · exact absurd ho h

-- the map template

theorem fromElemsMap_decH (body : TfVal → List Diag → List HookCall → Outcome (Option GoVal × List Diag × List HookCall))
    (T : TfVal → Prop) (Q : GoVal → Prop) (hb : ElemDecH body T Q) (ds : List Diag) :
    ∀ (vs : List (String × TfVal)) (acc : List (String × GoVal)) (hs : List HookCall), (vs.map (·.1)).Nodup →
      (∀ kv ∈ vs, acc.lookup kv.1 = none) → (∀ kv ∈ vs, T kv.2) →
      ∃ ys hs', fromElemsMap body vs acc ds hs = .ok (acc ++ ys, ds, hs') ∧ ys.map (·.1) = vs.map (·.1) ∧
        ∀ kv ∈ ys, Q kv.2
  | [], acc, hs, _, _, _ => ⟨[], hs, by simp [fromElemsMap], rfl, by simp⟩
  | (k, v) :: rest, acc, hs, hnd, hnone, hT => by
    simp only [List.map_cons, List.nodup_cons] at hnd
    obtain ⟨y, hs1, hrun, hq⟩ := hb v ds hs (hT (k, v) (by simp))
    have hnone' : ∀ kv ∈ rest, (setKey k y acc).lookup kv.1 = none := by
      intro kv hkv
      have hne : kv.1 ≠ k := by
        intro h
        exact hnd.1 (by rw [← h]; exact List.mem_map_of_mem (f := (·.1)) hkv)
      rw [lookup_setKey_other _ _ _ hne]
      exact hnone kv (by simp [hkv])
    obtain ⟨ys, hs2, hrun2, hkeys, hall⟩ := fromElemsMap_decH body T Q hb ds rest (setKey k y acc) hs1 hnd.2 hnone'
      (fun kv hkv => hT kv (by simp [hkv]))
    rw [setKey_of_lookup_none k y acc (hnone (k, v) (by simp))] at hrun2
    refine ⟨(k, y) :: ys, hs2, ?_, by simp [hkeys], ?_⟩
    · simp only [fromElemsMap, hrun]
      rw [setKey_of_lookup_none k y acc (hnone (k, v) (by simp)), hrun2]
      simp
    · intro z hz
      simp only [List.mem_cons] at hz
      rcases hz with rfl | hz
      · exact hq
      · exact hall z hz

theorem fromFieldWith_map_runH (rec : FromRec) (ov : List (String × String)) (info : FieldInfo) (mv : Option FieldInfo)
    (msg : Option MsgInfo) (attrs : Option (List (String × TfVal))) (st : FromSt) (u n : Bool)
    (es : Option (List (String × TfVal))) (ety : Option TfTy) (l : List (String × GoVal)) (hs' : List HookCall)
    (hk : info.kind = .primitiveMap ∨ info.kind = .objectMap)
    (he : info.parentIsOptionalEmbed = false) (hvt : vkindOf info.tf.valueType = .map) (hkn : known u n = true)
    (hl : (attrs.getD []).lookup info.nameSnake = some (.map u n es ety))
    (hloop : fromElemsMap (fromElemBody rec ov info (mv.getD info)) (es.getD []) [] st.diags st.hooks =
        .ok (l, st.diags, hs')) :
    copyFromFieldWith rec ov info mv msg attrs st =
      .ok { obj := st.obj.setField info.name (.map (some l)), diags := st.diags, hooks := hs' } := by
  unfold copyFromFieldWith
  rcases hk with hk | hk <;>
    simp [hk, hl, TfVal.vkind, hvt, embedGuard_plain info _ _ he, writeField_plain info _ _ he, hkn, hloop,
      setField_setField_same]

/-- **clause (Mp) of the new judgement**: a map of messages whose ELEMENT messages carry children of nullable embedded
messages and custom kinds – as `ListElemsOK` -/
def MapElemsOK (X : String → TfVal → Prop) : Field → TfVal → TfTy → Prop
  | ⟨info, mapVal, msg, sub⟩, a, ty =>
    info.oneOfName = "" ∧ info.parentIsOptionalEmbed = false ∧ info.isPlaceholder = false ∧ info.kind = .objectMap ∧
    EmptyOK msg sub ∧
    (∀ g ∈ sub, g.info.parentIsOptionalEmbed = true →
      g.info.parentIsOptionalEmbedFieldName ∉ (msg.map (·.oneOfNames)).getD []) ∧
    ∃ u n es et tys, a = .map u n es et ∧ ty = .map (some (.obj (some tys))) ∧ vkindOf info.tf.valueType = .map ∧
      vkindOf info.tf.elemValueType = .obj ∧ vkindOf (mapVal.getD info).tf.elemValueType = .obj ∧
      info.isRepeated = false ∧ sub ≠ [] ∧ isEmptyMsg msg = false ∧
      ((es.getD []).map (·.1)).Nodup ∧
      (known u n = true → ∀ e ∈ es.getD [], ElemPlanE X info.isNullable sub tys e.2) ∧
      (u = false → n = true → es.getD [] = [])

/-- **part (3), the map template** -/
theorem fieldEcho_mapE (X : String → TfVal → Prop) (ov : List (String × String)) (skN skE : List String) :
    ∀ (f : Field) (a : TfVal) (ty : TfTy), MapElemsOK X f a ty → FieldEcho ov skN skE f a ty
  | ⟨info, mv, msg, sub⟩, a, ty, hp => by
    unfold MapElemsOK at hp
    obtain ⟨ho, he, hph, hk, hem, hnames, u, n, es, et, tys, rfl, rfl, hvt, hevk, hmvk, hrep, hsub, hne, hndE, hel, hnull⟩ := hp
    refine ⟨True, fun y => ∃ xs, y = .map (some xs) ∧ xs.length = (if known u n then (es.getD []).length else 0) ∧
      (known u n = true → ∀ kv ∈ es.getD [], (xs.lookup kv.1).isSome = true) ∧
      (xs.map (·.1)).Nodup ∧ ∀ e ∈ xs, ElemTyped3 info.isNullable sub tys e.2, ?_, ?_⟩
    · intro _ attrs hl st _ _
      left
      refine ⟨he, ?_⟩
      simp only [copyFromField]
      by_cases hknown : known u n = true
      · obtain ⟨ys, hs', hloop, hkeys, hall⟩ := fromElemsMap_decH _ _ _
          (elemDec_objH X ov info (mv.getD info) ((msg.map (·.oneOfNames)).getD []) sub tys hnames hmvk (Or.inr hk)) st.diags
          (es.getD []) [] st.hooks hndE (by simp) (hel hknown)
        simp only [List.nil_append] at hloop
        have hlen : ys.length = (es.getD []).length := by
          have := congrArg List.length hkeys
          simpa using this
        refine ⟨.map (some ys), hs',
          fromFieldWith_map_runH _ ov info mv msg attrs st u n es et ys hs' (Or.inr hk) he hvt hknown hl hloop,
          ys, rfl, by simp [hknown, hlen], ?_, by rw [hkeys]; exact hndE, hall⟩
        intro _ kv hkv
        exact lookup_isSome_of_mem_keys kv.1 ys (by rw [hkeys]; exact List.mem_map_of_mem (f := (·.1)) hkv)
      · have hknown' : known u n = false := by simpa using hknown
        have hrun := fromFieldWith_unknown_run
          (fun as s => copyFromFields ov sub as { s with obj := resetOneOfs ((msg.map (·.oneOfNames)).getD []) s.obj })
          ov info mv msg attrs st _ ho he hl (Or.inr (Or.inr ⟨Or.inr hk, u, n, es, et, rfl, hknown', hvt⟩))
        have hzw : zeroWrite info = GoVal.map (some []) := by simp [zeroWrite, hk]
        rw [hzw] at hrun
        exact ⟨.map (some []), st.hooks, hrun, [], rfl, (by simp [hknown']), (by intro h; rw [hknown'] at h; cases h),
          (by simp), (by simp)⟩
    · intro o atys _ _ hfin hty st hcur
      simp only at hty hcur hfin
      obtain ⟨y, hy, xs, rfl, hlen, hsome, hndx, hall⟩ := (hfin hph).1 he
      have hgx : getVal info o = .map (some xs) := by rw [getVal_plain info o ho he, hy]; rfl
      have hek : vkindOf info.tf.elemValueType ≠ .map := by rw [hevk]; simp
      have hoty : elemObjTy (info.kind == .objectList || info.kind == .objectMap) (some (.obj (some tys))) = .ok (some tys) := by
        simp [elemObjTy, hk]
      obtain ⟨r, hs, hrun, hlenr, hallr, hkn⟩ := mapField_run info mv msg sub o atys st (.obj (some tys)) (some tys)
        (fun e v => objRenders info.isNullable (fun o as' => rendersFields3 sub o as') e v) xs (Or.inr hk) ho he hrep hty hek hoty
        hgx hndx
        (objElems_spec3 info msg sub o tys [] (xs.map (·.2)) (Or.inr hk) hsub hne
          (by intro e he'; simp at he'; obtain ⟨a, ha⟩ := he'; exact hall _ ha)) u n es et (Or.inl hcur) skN
      refine ⟨_, hs, hrun, ⟨hkn, Or.inr ?_⟩, ?_⟩
      · cases u with
        | true => simp [echoKeeps]
        | false =>
          cases n with
          | false =>
            simp only [known, Bool.not_false, Bool.and_self, if_true] at hlen
            simp only [echoKeeps, Bool.false_eq_true, if_false, Option.getD_some, Bool.and_eq_true, beq_iff_eq, List.all_eq_true]
            refine ⟨⟨by split <;> rfl, by rw [hlenr, hlen]⟩, ?_⟩
            intro kv hkv
            have h1 := hsome (by simp [known]) kv hkv
            cases hlx : xs.lookup kv.1 with
            | none => simp [hlx] at h1
            | some xv =>
              obtain ⟨v, hv, _⟩ := hallr (kv.1, xv) (mem_of_lookup _ _ _ hlx)
              simp only at hv
              simp [hv]
          | true =>
            simp only [known, Bool.not_true, Bool.false_and, Bool.false_eq_true, if_false] at hlen
            have hxs : xs = [] := by simpa using hlen
            subst hxs
            have hr0 : r = [] := by simpa using hlenr
            subst hr0
            simp [echoKeeps, hnull rfl rfl]
      · intro _ attrs2 hl2 st2 hs2 _
        left
        refine ⟨he, ?_⟩
        cases xs with
        | nil =>
          have hrt4 : RT4OK ⟨info, mv, msg, sub⟩ o := by
            unfold RT4OK
            refine ⟨he, hem, fun h => (by rw [hph] at h; cases h), Or.inl ⟨ho, ?_⟩⟩
            simp only [hk]
            refine ⟨hvt, hmvk, ?_, ?_⟩
            · rw [hgx]; exact hndx
            · rw [hgx]
              intro e he'
              simp [mapElems] at he'
          have hsd := secondDec_map2 ov info mv msg sub o [] r n et (Or.inr hk) ho he hph hvt hgx hlenr hrt4
            (fun h => absurd rfl h)
          obtain ⟨y2, hrun2, hv⟩ := hsd attrs2 st2 hl2
          exact ⟨y2, st2.hooks, hrun2, hv⟩
        | cons x0 xs0 =>
          have hrend : rendersVal3 ⟨info, mv, msg, sub⟩ o
              (.map false (if (x0 :: xs0).length > 0 then false else n) (some r) et) = true := by
            simp only [rendersVal3, hk, hgx, mapElems, Option.getD]
            simp [hlenr]
            refine ⟨?_, ?_⟩
            · obtain ⟨v, hv, hq⟩ := hallr x0 (by simp)
              simp [hv, hq]
            · intro a b hab
              obtain ⟨v, hv, hq⟩ := hallr (a, b) (by simp [hab])
              simp [hv, hq]
          have hrt3 : RT3OK ⟨info, mv, msg, sub⟩ o := by
            unfold RT3OK
            refine ⟨hem, (fun h => by rw [hph] at h; cases h), Or.inl ⟨ho, ?_⟩⟩
            simp only [hk]
            refine ⟨hvt, hmvk, ?_, ?_⟩
            · rw [hgx]; exact hndx
            · rw [hgx]
              exact fun e he' => (hall e he').2
          rcases fromField_reads3 ov ⟨info, mv, msg, sub⟩ o attrs2 st2 _ hl2 hrend hrt3 hph hs2 with
            ⟨_, _, h⟩ | ⟨_, h, _⟩ | ⟨h, _⟩
          · exact h
          · simp only at h; rw [he] at h; cases h
          · exact absurd ho h

-- ------------------------------------------------------------------------------------------------------
-- E. part (4): the judgement `PlanOKB` ⊇ `PlanOKA` and `C08_echo_elems`

mutual
/-- `a` is a planned value of field `f` (attribute type `ty`). `PlanOKA` of PGT/Proofs/EchoAll.lean and the clauses **(L)** / **(Mp)**: a
list / map of messages whose ELEMENT messages carry children of nullable embedded messages, custom kinds and scalar oneof
branches (`ListElemsOK`, `MapElemsOK`; the element judgement is `ElemOKs`). The clauses of `PlanOKA`:
* **(3)** a field of the judgement with oneof groups, `PlanOK3` of PGT/Proofs/EchoOneofDeep.lean: the plain tree (P), nested
  messages with groups below (M1 known, M2 held by value and null / unknown, M3 message branches), scalar branches (S),
  lists / maps of messages with groups in the element message (L / Mp) – closed under these clauses below;
* **(a)** a child of a nullable embedded message (any kind, plain below): `PlanOK` of the same field without the flag;
* **(b)** a custom-type field (child of a nullable embedded message or not);
* **(c)** a nested message (outside oneof groups, with fields; itself a child of a nullable embedded message or not) whose
  fields satisfy `PlanOKsB` – ALL clauses again, in the same message: oneof groups next to children of nullable embedded
  messages and custom kinds, recursively; the parent pointer of a nullable embedded message is not the holder of a group;
* **(d)** a message branch of a oneof group (held by pointer, with fields) whose fields satisfy `PlanOKsB` – as (c). -/
def PlanOKB (X : String → TfVal → Prop) (skE : List String) : Field → TfVal → TfTy → Prop
  | ⟨info, mv, msg, sub⟩, a, ty =>
    PlanOK3 X ⟨info, mv, msg, sub⟩ a ty ∨
    (info.parentIsOptionalEmbed = true ∧ info.isPlaceholder = false ∧ PlanOK X ⟨unembed info, mv, msg, sub⟩ a ty) ∨
    (info.kind = .custom ∧ info.oneOfName = "" ∧ info.isPlaceholder = false ∧
      (skE.contains info.nameSnake = true ∨ CustomPlan info.isRepeated a)) ∨
    (info.kind = .object ∧ info.oneOfName = "" ∧ info.isPlaceholder = false ∧
      isEmptyMsg msg = false ∧
      ∃ u n as tys, a = .obj u n as (some tys) ∧ ty = .obj (some tys) ∧ vkindOf info.tf.valueType = .obj ∧ sub ≠ [] ∧
        (known u n = true → PlanOKsB X skE sub (as.getD []) tys ∧ KeysOK X sub (as.getD []) ∧
          ∀ g ∈ sub, g.info.parentIsOptionalEmbed = true →
            g.info.parentIsOptionalEmbedFieldName ∉ (msg.map (·.oneOfNames)).getD []) ∧
        (known u n = false → as.getD [] = [] ∧ info.isNullable = true)) ∨
    (info.kind = .object ∧ info.oneOfName ≠ "" ∧ info.parentIsOptionalEmbed = false ∧ info.isNullable = true ∧
      info.isPlaceholder = false ∧ isEmptyMsg msg = false ∧
      ∃ u n as tys, a = .obj u n as (some tys) ∧ ty = .obj (some tys) ∧ vkindOf info.tf.valueType = .obj ∧ sub ≠ [] ∧
        (known u n = true → PlanOKsB X skE sub (as.getD []) tys ∧ KeysOK X sub (as.getD []) ∧
          ∀ g ∈ sub, g.info.parentIsOptionalEmbed = true →
            g.info.parentIsOptionalEmbedFieldName ∉ (msg.map (·.oneOfNames)).getD []) ∧
        (known u n = false → as.getD [] = [])) ∨
    ListElemsOK X ⟨info, mv, msg, sub⟩ a ty ∨
    MapElemsOK X ⟨info, mv, msg, sub⟩ a ty

/-- every field of the message has a planned value in `attrs` and a type in `atys`; attribute names are pairwise distinct;
the field blocks do not interfere (`SepOK3`: different Go fields, or branches of one group with different wrapper types, or
children of the same nullable embedded message with different names); of two branches of one group at most one attribute
is not null -/
def PlanOKsB (X : String → TfVal → Prop) (skE : List String) : List Field → List (String × TfVal) → List (String × TfTy) → Prop
  | [], _, _ => True
  | f :: rest, attrs, atys =>
    (∃ a ty, attrs.lookup f.info.nameSnake = some a ∧ atys.lookup f.info.nameSnake = some ty ∧ PlanOKB X skE f a ty) ∧
    f.info.nameSnake ∉ rest.map (·.info.nameSnake) ∧ (∀ g ∈ rest, SepOK3 f.info g.info) ∧
    (∀ g ∈ rest, f.info.oneOfName ≠ "" → g.info.oneOfName = f.info.oneOfName →
        notNullAt attrs f = false ∨ notNullAt attrs g = false) ∧
    PlanOKsB X skE rest attrs atys
end

theorem planOKB_facts (X : String → TfVal → Prop) (skE : List String) (f : Field) (a : TfVal) (ty : TfTy)
    (hp : PlanOKB X skE f a ty) : f.info.isPlaceholder = true → f.info.kind = .primitive ∧ f.info.oneOfName = "" := by
  obtain ⟨info, mv, msg, sub⟩ := f
  unfold PlanOKB ListElemsOK MapElemsOK at hp
  intro hpl
  simp only at hpl
  rcases hp with hp | ⟨_, hph, _⟩ | ⟨_, _, hph, _⟩ | ⟨_, _, hph, _⟩ | ⟨_, _, _, _, hph, _⟩ | ⟨_, _, hph, _⟩ | ⟨_, _, hph, _⟩
  · rcases (planOK3_facts X _ a ty hp).2 with h | h
    · obtain ⟨h1, _, h3⟩ := planOK_facts X _ a ty h
      exact ⟨h3 hpl, h1⟩
    · simp only at h; rw [hpl] at h; cases h
  all_goals (rw [hpl] at hph; cases hph)

theorem planOKsB_facts (X : String → TfVal → Prop) (skE : List String) : ∀ (fs : List Field) (attrs : List (String × TfVal))
    (atys : List (String × TfTy)), PlanOKsB X skE fs attrs atys →
    SepAll fs ∧ ExclAll (fun f => notNullAt attrs f = true) fs ∧
    (∀ f ∈ fs, f.info.isPlaceholder = true → f.info.kind = .primitive ∧ f.info.oneOfName = "") ∧
    (fs.map (·.info.nameSnake)).Nodup
  | [], _, _, _ => ⟨trivial, trivial, by simp, by simp⟩
  | f :: rest, attrs, atys, h => by
    unfold PlanOKsB at h
    obtain ⟨⟨a, ty, _, _, hp⟩, hn, hsep, hex, hrest⟩ := h
    obtain ⟨h1, h2, h3, h4⟩ := planOKsB_facts X skE rest attrs atys hrest
    refine ⟨⟨hsep, h1⟩, ⟨?_, h2⟩, ?_, by simp only [List.map_cons, List.nodup_cons]; exact ⟨hn, h4⟩⟩
    · intro g hg hne hsame hboth
      rcases hex g hg hne hsame with h | h
      · rw [hboth.1] at h; cases h
      · rw [hboth.2] at h; cases h
    · intro g hg
      simp only [List.mem_cons] at hg
      rcases hg with rfl | hg
      · exact planOKB_facts X skE g a ty hp
      · exact h3 g hg

mutual

/-- **the echo of one field** under the judgement -/
theorem planOKB_fieldEchoA (X : String → TfVal → Prop) (ov : List (String × String)) (skN skE : List String)
    (hX : ExtraOK X skN skE) : ∀ (f : Field) (a : TfVal) (ty : TfTy), PlanOKB X skE f a ty →
    ∀ Act : Prop, (isNull a = false → Act) → FieldEchoA ov skN skE Act f a ty
  | ⟨info, mv, msg, sub⟩, a, ty, hp, Act, hact => by
    unfold PlanOKB at hp
    rcases hp with hp | ⟨he, hph, hp⟩ | ⟨hk, ho, hph, hkeep⟩ | ⟨hk, ho, hph, hem, u, n, as, tys, rfl, rfl, hvt, hsub, hkn, hunk⟩ |
      ⟨hk, ho, he, hn, hph, hem, u, n, as, tys, rfl, rfl, hvt, hsub, hkn, hunk⟩ | hL | hM
    · by_cases ho : info.oneOfName = ""
      · exact fieldEchoA_of_fieldEcho ov skN skE Act _ a ty ho (fieldEcho_of_planOK3 X ov skN skE hX _ a ty hp ho)
      · exact fieldEchoA_branch X ov skN skE hX Act _ a ty hp ho hact
    · have ho : info.oneOfName = "" := (planOK_facts X _ a ty hp).1
      refine fieldEchoA_of_fieldEcho ov skN skE Act _ a ty ho ?_
      by_cases hk : info.kind = .primitive
      · exact fieldEcho_prim_embed X ov skN skE info mv msg sub a ty hk he hph hp
      · exact fieldEcho_nonprim_embed X ov skN skE hX info mv msg sub a ty hk he hph hp
    · exact fieldEchoA_of_fieldEcho ov skN skE Act _ a ty ho (fieldEcho_custom ov skN skE info mv msg sub a ty hk ho hph hkeep)
    · refine fieldEchoA_of_fieldEcho ov skN skE Act _ _ _ ho ?_
      have hB : known u n = true → BundleA ov skN skE ((msg.map (·.oneOfNames)).getD []) sub (as.getD []) tys := by
        intro hknown
        obtain ⟨hP, hkeys, hnames⟩ := hkn hknown
        obtain ⟨hsep, hexcl, hphk, hnd⟩ := planOKsB_facts X skE sub (as.getD []) tys hP
        exact bundleA_of X ov skN skE hX _ sub (as.getD []) tys
          (planOKsB_echos X ov skN skE hX sub (as.getD []) tys hP) hsep hexcl hphk hnd hkeys hnames
      by_cases he : info.parentIsOptionalEmbed = true
      · -- the nested message is itself a child of a nullable embedded message
        refine fieldEcho_embed_transfer ov skN skE info mv msg sub _ _ (by simp [hk]) he hph ho ?_
          (fieldEcho_objectA ov skN skE (unembed info) mv msg sub u n as tys hk ho rfl hph hem hvt hsub hB hunk)
        have hk' : (unembed info).kind = .object := hk
        have hvt' : vkindOf (unembed info).tf.valueType = .obj := hvt
        unfold NonPrimShape
        refine ⟨by simp [hk'], ⟨by simp [TfVal.vkind, hvt'], by simp [TfVal.vkind]⟩, by simp [hk', TfVal.vkind],
          by simp [hk'], by simp [hk']⟩
      · exact fieldEcho_objectA ov skN skE info mv msg sub u n as tys hk ho (by simpa using he) hph hem hvt hsub hB hunk
    · have hB : known u n = true → BundleA ov skN skE ((msg.map (·.oneOfNames)).getD []) sub (as.getD []) tys := by
        intro hknown
        obtain ⟨hP, hkeys, hnames⟩ := hkn hknown
        obtain ⟨hsep, hexcl, hphk, hnd⟩ := planOKsB_facts X skE sub (as.getD []) tys hP
        exact bundleA_of X ov skN skE hX _ sub (as.getD []) tys
          (planOKsB_echos X ov skN skE hX sub (as.getD []) tys hP) hsep hexcl hphk hnd hkeys hnames
      exact fieldEchoA_msgBranch ov skN skE Act info mv msg sub u n as tys hk ho he hn hph hem hvt hsub
        (fun hknown => hact (by cases u <;> cases n <;> simp_all [known, isNull])) hB hunk
    · have ho : info.oneOfName = "" := by unfold ListElemsOK at hL; exact hL.1
      exact fieldEchoA_of_fieldEcho ov skN skE Act _ a ty ho (fieldEcho_listE X ov skN skE _ a ty hL)
    · have ho : info.oneOfName = "" := by unfold MapElemsOK at hM; exact hM.1
      exact fieldEchoA_of_fieldEcho ov skN skE Act _ a ty ho (fieldEcho_mapE X ov skN skE _ a ty hM)

theorem planOKsB_echos (X : String → TfVal → Prop) (ov : List (String × String)) (skN skE : List String)
    (hX : ExtraOK X skN skE) : ∀ (fs : List Field) (A : List (String × TfVal)) (atys : List (String × TfTy)),
    PlanOKsB X skE fs A atys →
    ∀ f ∈ fs, ∃ a ty, A.lookup f.info.nameSnake = some a ∧ atys.lookup f.info.nameSnake = some ty ∧
      FieldEchoA ov skN skE (notNullAt A f = true) f a ty
  | [], _, _, _ => by simp
  | f :: rest, A, atys, h => by
    unfold PlanOKsB at h
    obtain ⟨⟨a, ty, hla, hlt, hp⟩, _, _, _, hrest⟩ := h
    intro g hg
    simp only [List.mem_cons] at hg
    rcases hg with rfl | hg
    · exact ⟨a, ty, hla, hlt, planOKB_fieldEchoA X ov skN skE hX g a ty hp _ (fun hnn => notNullAt_of A g a hla hnn)⟩
    · exact planOKsB_echos X ov skN skE hX rest A atys hrest g hg

end

/-- **the echo of the fields of one message** under the judgement -/
theorem planOKsB_bundleA (X : String → TfVal → Prop) (ov : List (String × String)) (skN skE : List String)
    (hX : ExtraOK X skN skE) (names : List String) (fs : List Field) (A : List (String × TfVal)) (atys : List (String × TfTy))
    (h : PlanOKsB X skE fs A atys) (hkeys : KeysOK X fs A)
    (hnames : ∀ g ∈ fs, g.info.parentIsOptionalEmbed = true → g.info.parentIsOptionalEmbedFieldName ∉ names) :
    BundleA ov skN skE names fs A atys := by
  obtain ⟨hsep, hexcl, hphk, hnd⟩ := planOKsB_facts X skE fs A atys h
  exact bundleA_of X ov skN skE hX names fs A atys (planOKsB_echos X ov skN skE hX fs A atys h) hsep hexcl hphk hnd hkeys hnames

-- ------------------------------------------------------------------------------------------------------
-- E. C08, the whole object

/-- the judgement for a whole plan object of message `m`: as `PlanObj3` / `PlanObjE`, with `PlanOKsB`; the parent pointer of
a nullable embedded message is not the holder of a oneof group -/
def PlanObjB (X : String → TfVal → Prop) (skE : List String) (m : Msg) (plan : TfVal) : Prop :=
  ∃ u n as atys, plan = .obj u n as (some atys) ∧ (u = false → n = false) ∧
    PlanOKsB X skE m.fields (as.getD []) atys ∧ KeysOK X m.fields (as.getD []) ∧
    ∀ g ∈ m.fields, g.info.parentIsOptionalEmbed = true → g.info.parentIsOptionalEmbedFieldName ∉ m.info.oneOfNames

/-- **part (4): C08, apply echo, for `PlanObjB`** – `C08_echo_all` and lists / maps of messages whose element messages carry
children of nullable embedded messages / custom kinds / scalar oneof branches (clauses (L) / (Mp)).  The doc of
`C08_echo_all`: **C08, apply echo, ONE judgement**: the plain tree, oneof groups at every position (`PlanOK3`), children of nullable
embedded messages of every kind and custom kinds – in the SAME message as oneof groups, at the top level and in nested
messages reached through singular message fields at every depth.  Conclusion exactly as in `C08_echo`. -/
theorem C08_echo_elems (X : String → TfVal → Prop) (ov : List (String × String)) (m : Msg) (plan : TfVal) (skN skE : List String)
    (hX : ExtraOK X skN skE) (hp : PlanObjB X skE m plan) :
    ∃ s1 e s2, copyFrom ov m plan (.struct []) = .ok s1 ∧ s1.diags = [] ∧
      copyTo m s1.obj plan = .ok e ∧ e.diags = [] ∧
      copyFrom ov m e.tf (.struct []) = .ok s2 ∧ s2.diags = [] ∧
      noUnknownDeep skN e.tf = true ∧ echoKeeps skE plan e.tf = true ∧ nfEqFields m.fields s1.obj s2.obj = true := by
  obtain ⟨u, n, as, atys, rfl, hun, hP, hkeys, hnames⟩ := hp
  have hB := planOKsB_bundleA X ov skN skE hX m.info.oneOfNames m.fields (as.getD []) atys hP hkeys hnames
  obtain ⟨o1, hs1, hrun1, _, hrest⟩ := hB as rfl [] []
  obtain ⟨A', hs2, hrun2, _, hkn, hkeep, hsecond⟩ := hrest [] []
  obtain ⟨o2, hs3, hrun3, _, hnf⟩ := hsecond (some A') rfl [] []
  refine ⟨{ obj := o1, diags := [], hooks := hs1 },
    { tf := .obj false false (some A') (some atys), diags := [], hooks := [] ++ hs2 },
    { obj := o2, diags := [], hooks := hs3 }, ?_, rfl, ?_, rfl, ?_, rfl, ?_, ?_, hnf⟩
  · simp [copyFrom, hrun1]
  · simp [copyTo, hrun2]
  · simp [copyFrom, hrun3]
  · simp only [noUnknownDeep, Bool.not_false, Bool.true_and]
    exact hkn
  · cases u with
    | true => cases as <;> simp [echoKeeps]
    | false =>
      have := hun rfl
      subst this
      cases as with
      | none => simp [echoKeeps]
      | some l =>
        simp only [echoKeeps, Bool.false_eq_true, if_false, beq_self_eq_true, Bool.true_and, Bool.false_or, Option.getD_some]
        exact hkeep

mutual
theorem planOKA_planOKB (X : String → TfVal → Prop) (skE : List String) : ∀ (f : Field) (a : TfVal) (ty : TfTy),
    PlanOKA X skE f a ty → PlanOKB X skE f a ty
  | ⟨info, mv, msg, sub⟩, a, ty, h => by
    unfold PlanOKA at h
    unfold PlanOKB
    rcases h with hp | hp | hp | ⟨hk, ho, hph, hem, u, n, as, tys, ha, hty, hvt, hsub, hkn, hunk⟩ |
      ⟨hk, ho, he, hn, hph, hem, u, n, as, tys, ha, hty, hvt, hsub, hkn, hunk⟩
    · exact Or.inl hp
    · exact Or.inr (Or.inl hp)
    · exact Or.inr (Or.inr (Or.inl hp))
    · refine Or.inr (Or.inr (Or.inr (Or.inl ⟨hk, ho, hph, hem, u, n, as, tys, ha, hty, hvt, hsub, ?_, hunk⟩)))
      intro hknown
      obtain ⟨hP, hkeys, hnames⟩ := hkn hknown
      exact ⟨planOKsA_planOKsB X skE sub _ _ hP, hkeys, hnames⟩
    · refine Or.inr (Or.inr (Or.inr (Or.inr (Or.inl
        ⟨hk, ho, he, hn, hph, hem, u, n, as, tys, ha, hty, hvt, hsub, ?_, hunk⟩))))
      intro hknown
      obtain ⟨hP, hkeys, hnames⟩ := hkn hknown
      exact ⟨planOKsA_planOKsB X skE sub _ _ hP, hkeys, hnames⟩

/-- **`PlanOKsA` (PGT/Proofs/EchoAll.lean) is a special case** -/
theorem planOKsA_planOKsB (X : String → TfVal → Prop) (skE : List String) : ∀ (fs : List Field) (A : List (String × TfVal))
    (atys : List (String × TfTy)), PlanOKsA X skE fs A atys → PlanOKsB X skE fs A atys
  | [], _, _, _ => trivial
  | f :: rest, A, atys, h => by
    unfold PlanOKsA at h
    obtain ⟨⟨a, ty, hla, hlt, hp⟩, hnS, hsep, hex, hrest⟩ := h
    unfold PlanOKsB
    exact ⟨⟨a, ty, hla, hlt, planOKA_planOKB X skE f a ty hp⟩, hnS, hsep, hex, planOKsA_planOKsB X skE rest A atys hrest⟩
end

theorem planObjA_planObjB (X : String → TfVal → Prop) (skE : List String) (m : Msg) (plan : TfVal) (h : PlanObjA X skE m plan) :
    PlanObjB X skE m plan := by
  obtain ⟨u, n, as, atys, rfl, hun, hP, hkeys, hnames⟩ := h
  exact ⟨u, n, as, atys, rfl, hun, planOKsA_planOKsB X skE _ _ _ hP, hkeys, hnames⟩

/-- `C08_echo_all` is a corollary of `C08_echo_elems` -/
theorem C08_echo_all_of_elems (X : String → TfVal → Prop) (ov : List (String × String)) (m : Msg) (plan : TfVal)
    (skN skE : List String) (hX : ExtraOK X skN skE) (hp : PlanObjA X skE m plan) :
    ∃ s1 e s2, copyFrom ov m plan (.struct []) = .ok s1 ∧ s1.diags = [] ∧
      copyTo m s1.obj plan = .ok e ∧ e.diags = [] ∧
      copyFrom ov m e.tf (.struct []) = .ok s2 ∧ s2.diags = [] ∧
      noUnknownDeep skN e.tf = true ∧ echoKeeps skE plan e.tf = true ∧ nfEqFields m.fields s1.obj s2.obj = true :=
  C08_echo_elems X ov m plan skN skE hX (planObjA_planObjB X skE m plan hp)

/-- **C08 in the shape of `PGT.Props.C08.C08_full`** with the skip lists of `Spec.c08Check`: whatever the three calls return,
they return no diagnostic and `c08Check` holds -/
theorem C08_echo_elems_check (X : String → TfVal → Prop) (ov : List (String × String)) (m : Msg) (plan : TfVal)
    (s1 : FromResult) (e : ToResult) (s2 : FromResult)
    (hX : ExtraOK X (injectedNames m.fields m.info.injected ++ customNames m.fields) (customNames m.fields))
    (hp : PlanObjB X (customNames m.fields) m plan)
    (h1 : copyFrom ov m plan (.struct []) = .ok s1) (h2 : copyTo m s1.obj plan = .ok e)
    (h3 : copyFrom ov m e.tf (.struct []) = .ok s2) :
    s1.diags = [] ∧ e.diags = [] ∧ s2.diags = [] ∧ c08Check m plan s1.obj e.tf s2.obj = true := by
  obtain ⟨s1', e', s2', h1', hd1, h2', hd2, h3', hd3, hkn, hkeep, hnf⟩ :=
    C08_echo_elems X ov m plan (injectedNames m.fields m.info.injected ++ customNames m.fields) (customNames m.fields) hX hp
  rw [h1] at h1'
  injection h1' with h1'
  subst h1'
  rw [h2] at h2'
  injection h2' with h2'
  subst h2'
  rw [h3] at h3'
  injection h3' with h3'
  subst h3'
  refine ⟨hd1, hd2, hd3, ?_⟩
  simp [c08Check, hkn, hkeep, hnf]

-- ------------------------------------------------------------------------------------------------------
-- F. non-vacuity: the instance `EchoAllOpen.list_example_runs` of PGT/Proofs/EchoAll.lean (a list of messages whose element
-- message is the mix: nullable embedded message `Meta` with two string children, a custom string field, a oneof group of
-- two string branches) is an instance of `C08_echo_elems`

namespace EchoElemsExample
open EchoExample EchoOneofExample EchoEmbedExample EchoAllExample EchoAllOpen

theorem emptyOK_leaf : EmptyOK (none : Option MsgInfo) ([] : List Field) := by
  intro _ g hg
  simp at hg

theorem branch_elem (name snake g t : String) (hg : g ≠ "") (all : List Field) (A : List (String × TfVal)) (u n : Bool)
    (v : List UInt8) (hnull : u = false → n = true → v = []) :
    ElemOK NoExtra all A ⟨brStr name snake g t, none, none, []⟩ (.prim .string u n (.str v)) (.prim .string) := by
  unfold ElemOK
  refine Or.inr (Or.inr (Or.inr ⟨hg, rfl, rfl, rfl, rfl, (by simp [brStr, strField]), emptyOK_leaf, by unfold FreshIRs; trivial,
    .string, u, n, .str v, rfl, rfl, vk_string, brStr_ir _ _ _ _, brStr_leaf _ _ _ _ u n v hnull⟩))

/-- the element judgement for the mix, any planned custom value -/
theorem mix_elem_ok (a b c : TfVal) (ut nt uu nu : Bool) (vt vu : List UInt8)
    (ha : PlanOK NoExtra ⟨unembed (child "A" "a"), none, none, []⟩ a (.prim .string))
    (hb : PlanOK NoExtra ⟨unembed (child "B" "b"), none, none, []⟩ b (.prim .string))
    (ht : ut = false → nt = true → vt = []) (hu : uu = false → nu = true → vu = [])
    (hex : nt = true ∨ nu = true) :
    ElemOKs NoExtra mixFields (mixAttrs a b c (.prim .string ut nt (.str vt)) (.prim .string uu nu (.str vu))) mixTys
      mixFields := by
  show ElemOKs NoExtra mixFields _ mixTys [fA, fB, fC, fT, fU]
  unfold ElemOKs
  refine ⟨⟨a, .prim .string, by rfl, by rfl, ?_⟩, by decide, ?_, fun g _ h => absurd rfl h, ?_⟩
  · unfold fA ElemOK
    exact Or.inr (Or.inl ⟨rfl, rfl, ha, Or.inl rfl⟩)
  · intro g hg
    simp only [List.mem_cons, List.mem_nil_iff, or_false] at hg
    rcases hg with rfl | rfl | rfl | rfl
    · intro _
      exact Or.inr ⟨rfl, rfl, by decide⟩
    all_goals exact sep_example _ _ (by decide)
  unfold ElemOKs
  refine ⟨⟨b, .prim .string, by rfl, by rfl, ?_⟩, by decide, ?_, fun g _ h => absurd rfl h, ?_⟩
  · unfold fB ElemOK
    exact Or.inr (Or.inl ⟨rfl, rfl, hb, Or.inl rfl⟩)
  · intro g hg
    simp only [List.mem_cons, List.mem_nil_iff, or_false] at hg
    rcases hg with rfl | rfl | rfl <;> exact sep_example _ _ (by decide)
  unfold ElemOKs
  refine ⟨⟨c, .prim .string, by rfl, by rfl, ?_⟩, by decide, ?_, fun g _ h => absurd rfl h, ?_⟩
  · unfold fC ElemOK
    exact Or.inr (Or.inr (Or.inl ⟨rfl, rfl, rfl, emptyOK_leaf⟩))
  · intro g hg
    simp only [List.mem_cons, List.mem_nil_iff, or_false] at hg
    rcases hg with rfl | rfl <;> exact sep_example _ _ (by decide)
  unfold ElemOKs
  refine ⟨⟨_, .prim .string, by rfl, by rfl, branch_elem "T" "t" "Choice" "types.X_T" (by decide) _ _ ut nt vt ht⟩, by decide, ?_, ?_, ?_⟩
  · intro g hg
    simp only [List.mem_cons, List.mem_nil_iff, or_false] at hg
    subst hg
    intro _
    exact Or.inl ⟨rfl, rfl, by decide, rfl, by decide⟩
  · intro g hg _ _
    simp only [List.mem_cons, List.mem_nil_iff, or_false] at hg
    subst hg
    rcases hex with h | h
    · left; subst h; simp [notNullAt, mixAttrs, fT, brStr, strField, List.lookup, isNull]
    · right; subst h; simp [notNullAt, mixAttrs, fU, brStr, strField, List.lookup, isNull]
  unfold ElemOKs
  exact ⟨⟨_, .prim .string, by rfl, by rfl, branch_elem "U" "u" "Choice" "types.X_U" (by decide) _ _ uu nu vu hu⟩, by decide,
    by simp, by simp, trivial⟩

theorem attrs1_elem : ElemOKs NoExtra mixFields attrs1 mixTys mixFields :=
  mix_elem_ok _ _ _ false false false true [113] []
    (child_plan NoExtra "A" "a" false false [104, 105] (by intro _ h; cases h))
    (child_plan NoExtra "B" "b" true false [] (by intro h; cases h))
    (by intro _ h; cases h) (fun _ _ => rfl) (Or.inr rfl)

theorem attrs2_elem : ElemOKs NoExtra mixFields attrs2 mixTys mixFields :=
  mix_elem_ok _ _ _ false true true false [] []
    (child_plan NoExtra "A" "a" true false [] (by intro h; cases h))
    (child_plan NoExtra "B" "b" false true [] (fun _ _ => rfl))
    (fun _ _ => rfl) (by intro h; cases h) (Or.inl rfl)

/-- the typing lemma (part (1)) and the fresh render (part (2)) apply to both elements: the struct decoded from the element
is typed, its rendering from scratch holds nothing unknown -/
example (A : List (String × TfVal)) (hA : A = attrs1 ∨ A = attrs2) :
    ∃ o hs', copyFromFields [] mixFields (some A) { obj := resetOneOfs ["Choice"] (.struct []), diags := [], hooks := [] } =
        .ok { obj := o, diags := [], hooks := hs' } ∧
      ToOKs mixFields o mixTys ∧ RT3OKs mixFields o ∧
      ∃ A' hs'', copyToFields mixFields o (some mixTys) { attrs := [], diags := [], hooks := [] } =
          .ok { attrs := A', diags := [], hooks := [] ++ hs'' } ∧
        rendersFields3 mixFields o A' = true ∧ noUnknownAs [] A' = true := by
  have h : ElemOKs NoExtra mixFields A mixTys mixFields := by
    rcases hA with rfl | rfl
    · exact attrs1_elem
    · exact attrs2_elem
  obtain ⟨o, hs', hrun, _, hT, hR⟩ := elem_typing NoExtra [] ["Choice"] mixFields A mixTys h (mix_names _ (by decide))
    (some A) rfl [] []
  exact ⟨o, hs', hrun, hT, hR, freshRender_noUnknown mixFields o mixTys [] hT hR [] []⟩

theorem items_ok : ListElemsOK NoExtra fItems
    (.list false false (some [.obj false false (some attrs1) (some mixTys), .obj false false (some attrs2) (some mixTys)])
      (some (.obj (some mixTys)))) (.list (some (.obj (some mixTys)))) := by
  unfold fItems ListElemsOK
  refine ⟨rfl, rfl, rfl, rfl, ?_, mix_names _ (by decide), false, false, _, _, mixTys, rfl, rfl, vk_list, vk_object, rfl,
    by decide, rfl, ?_, by intro _ h; cases h⟩
  · intro h
    cases h
  · intro _ e he
    simp only [Option.getD_some, List.mem_cons, List.mem_nil_iff, or_false] at he
    rcases he with rfl | rfl
    · exact ⟨false, false, some attrs1, some mixTys, rfl, fun _ => attrs1_elem, by intro h; cases h⟩
    · exact ⟨false, false, some attrs2, some mixTys, rfl, fun _ => attrs2_elem, by intro h; cases h⟩

theorem planA3_ok : PlanObjB NoExtra [] msgA3 planA3 := by
  refine ⟨false, false, _, atysA3, rfl, fun _ => rfl, ?_, ?_, ?_⟩
  · unfold msgA3
    simp only [Option.getD_some]
    unfold PlanOKsB
    refine ⟨⟨_, _, by rfl, by rfl, ?_⟩, by decide, by simp, by simp, trivial⟩
    unfold PlanOKB
    exact Or.inr (Or.inr (Or.inr (Or.inr (Or.inr (Or.inl items_ok)))))
  · refine ⟨by simp, ?_⟩
    intro kv hkv
    simp only [Option.getD_some, List.mem_cons, List.mem_nil_iff, or_false] at hkv
    subst hkv
    exact Or.inl (by simp [msgA3, fItems, EchoOneofDeepWitness.listInfo])
  · intro g hg
    simp only [msgA3, List.mem_cons, List.mem_nil_iff, or_false] at hg
    subst hg
    intro h
    cases h

/-- **`EchoAllOpen.list_example_runs` is an instance of `C08_echo_elems`** (it was evaluated only in PGT/Proofs/EchoAll.lean) -/
theorem list_example_applies :
    ∃ s1 e s2, copyFrom [] msgA3 planA3 (.struct []) = .ok s1 ∧ s1.diags = [] ∧
      copyTo msgA3 s1.obj planA3 = .ok e ∧ e.diags = [] ∧
      copyFrom [] msgA3 e.tf (.struct []) = .ok s2 ∧ s2.diags = [] ∧
      noUnknownDeep [] e.tf = true ∧ echoKeeps [] planA3 e.tf = true ∧ nfEqFields msgA3.fields s1.obj s2.obj = true :=
  C08_echo_elems NoExtra [] msgA3 planA3 [] [] (extraOK_none [] []) planA3_ok

/-- a MAP of messages whose element message is the mix -/
def mapInfo : FieldInfo :=
  { name := "ByKey", nameSnake := "by_key", kind := .objectMap,
    tf := { type := "types.MapType", valueType := "types.Map", elemType := "types.ObjectType",
            elemValueType := "types.Object", isMessage := true } }

def fByKey : Field := ⟨mapInfo, none, some { name := "Item", oneOfNames := ["Choice"] }, mixFields⟩

def msgA5 : Msg := { info := { name := "V" }, fields := [fByKey] }

def atysA5 : List (String × TfTy) := [("by_key", .map (some (.obj (some mixTys))))]

def planA5 : TfVal :=
  .obj false false
    (some [("by_key", .map false false
      (some [("k1", .obj false false (some attrs1) (some mixTys)), ("k2", .obj false false (some attrs2) (some mixTys))])
      (some (.obj (some mixTys))))])
    (some atysA5)

theorem vk_map : vkindOf "types.Map" = .map := by decide

theorem byKey_ok : MapElemsOK NoExtra fByKey
    (.map false false (some [("k1", .obj false false (some attrs1) (some mixTys)), ("k2", .obj false false (some attrs2) (some mixTys))])
      (some (.obj (some mixTys)))) (.map (some (.obj (some mixTys)))) := by
  unfold fByKey MapElemsOK
  refine ⟨rfl, rfl, rfl, rfl, ?_, mix_names _ (by decide), false, false, _, _, mixTys, rfl, rfl, vk_map, vk_object, vk_object, rfl,
    by decide, rfl, by decide, ?_, by intro _ h; cases h⟩
  · intro h
    cases h
  · intro _ e he
    simp only [Option.getD_some, List.mem_cons, List.mem_nil_iff, or_false] at he
    rcases he with rfl | rfl
    · exact ⟨false, false, some attrs1, some mixTys, rfl, fun _ => attrs1_elem, by intro h; cases h⟩
    · exact ⟨false, false, some attrs2, some mixTys, rfl, fun _ => attrs2_elem, by intro h; cases h⟩

theorem planA5_ok : PlanObjB NoExtra [] msgA5 planA5 := by
  refine ⟨false, false, _, atysA5, rfl, fun _ => rfl, ?_, ?_, ?_⟩
  · unfold msgA5
    simp only [Option.getD_some]
    unfold PlanOKsB
    refine ⟨⟨_, _, by rfl, by rfl, ?_⟩, by decide, by simp, by simp, trivial⟩
    unfold PlanOKB
    exact Or.inr (Or.inr (Or.inr (Or.inr (Or.inr (Or.inr byKey_ok)))))
  · refine ⟨by simp, ?_⟩
    intro kv hkv
    simp only [Option.getD_some, List.mem_cons, List.mem_nil_iff, or_false] at hkv
    subst hkv
    exact Or.inl (by simp [msgA5, fByKey, mapInfo])
  · intro g hg
    simp only [msgA5, List.mem_cons, List.mem_nil_iff, or_false] at hg
    subst hg
    intro h
    cases h

/-- `C08_echo_elems` applies to the map -/
theorem map_example_applies :
    ∃ s1 e s2, copyFrom [] msgA5 planA5 (.struct []) = .ok s1 ∧ s1.diags = [] ∧
      copyTo msgA5 s1.obj planA5 = .ok e ∧ e.diags = [] ∧
      copyFrom [] msgA5 e.tf (.struct []) = .ok s2 ∧ s2.diags = [] ∧
      noUnknownDeep [] e.tf = true ∧ echoKeeps [] planA5 e.tf = true ∧ nfEqFields msgA5.fields s1.obj s2.obj = true :=
  C08_echo_elems NoExtra [] msgA5 planA5 [] [] (extraOK_none [] []) planA5_ok

/-- … evaluated -/
theorem map_example_runs : run3 msgA5 planA5 = some (true, true, true) := by decide +kernel

end EchoElemsExample

-- ------------------------------------------------------------------------------------------------------
-- G. refutation of the unconditional candidate in part (1): "a message / list / map child of a nullable embedded message is
-- typed after the decode whenever its own judgement holds" is FALSE when all children of the parent are unknown / null

namespace EchoElemsWitness
open EchoExample EchoOneofExample EchoEmbedExample EchoAllExample EchoAllOpen

/-- an element message with ONE field: a `[]string` child of the nullable embedded message `Meta` -/
def fL : Field := ⟨childList "L" "l", none, none, []⟩
def aU : TfVal := .list true false none (some (.prim .string))
def tyL : TfTy := .list (some (.prim .string))

/-- the child's own judgement holds for the unknown list -/
theorem child_ok : PlanOK NoExtra ⟨unembed (childList "L" "l"), none, none, []⟩ aU tyL :=
  childList_plan NoExtra "L" "l" true false none _ (by simp) (by intro h; cases h)

/-- the decode of the element leaves the parent pointer nil (no child attribute is known, no child is custom) -/
theorem decode_leaves_parent_nil :
    (match copyFromFields [] [fL] (some [("l", aU)]) { obj := .struct [] } with
     | .ok st => st.diags.isEmpty && parentIsNil fL.info st.obj
     | _ => false) = true := by decide +kernel

/-- … and a non-scalar child of a nil parent is NOT typed (`ToOK` asks for `Reachable`): the condition `ParentAllocBy` of
clause (E) cannot be dropped from the typing lemma -/
theorem nonscalar_child_nil_parent_untyped (o : GoVal) (hnil : parentIsNil fL.info o = true) : ¬ ToOK fL o tyL := by
  intro h
  unfold fL ToOK at h
  have hk : (childList "L" "l").kind = .primitiveList := rfl
  simp only [hk] at h
  obtain ⟨_, _, _, hr, _⟩ := h
  have h1 := (hr rfl).1
  have h2 : parentIsNil (childList "L" "l") o = true := hnil
  rw [h2] at h1
  cases h1

def fItemsW : Field := ⟨EchoOneofDeepWitness.listInfo, none, some { name := "Item" }, [fL]⟩
def msgWn : Msg := { info := { name := "W" }, fields := [fItemsW] }
def tysW : List (String × TfTy) := [("l", tyL)]
def planWn : TfVal :=
  .obj false false
    (some [("items", .list false false (some [.obj false false (some [("l", aU)]) (some tysW)]) (some (.obj (some tysW))))])
    (some [("items", .list (some (.obj (some tysW))))])

/-- the ECHO itself holds on this instance (evaluated): what fails is the typing `ToOK` (it asks for a non-nil parent although
the generated CopyTo reads a nil parent as the zero value), not C08 – this case stays outside `C08_echo_elems` -/
theorem nil_parent_echo_runs : run3 msgWn planWn = some (true, true, true) := by decide +kernel

/-- … with the condition: the same list child next to a string child `a` of the same parent whose attribute is KNOWN – in
either field order (in the second the list child is decoded BEFORE the sibling allocates the parent and reads as the zero
value) – satisfies the element judgement, so the decoded struct is typed (`elem_typing`) -/
def aK : TfVal := .prim .string false false (.str [104, 105])
def attrsK : List (String × TfVal) := [("a", aK), ("l", aU)]
def tysK : List (String × TfTy) := [("a", .prim .string), ("l", tyL)]

theorem allocBy : ∀ all : List Field, fA ∈ all → ParentAllocBy all attrsK "Meta" :=
  fun _ h => ⟨fA, h, rfl, rfl, rfl, Or.inr (by decide)⟩

theorem fA_elem (all : List Field) : ElemOK NoExtra all attrsK fA aK (.prim .string) := by
  unfold fA ElemOK
  exact Or.inr (Or.inl ⟨rfl, rfl, child_plan NoExtra "A" "a" false false [104, 105] (by intro _ h; cases h), Or.inl rfl⟩)

theorem fL_elem (all : List Field) (h : fA ∈ all) : ElemOK NoExtra all attrsK fL aU tyL := by
  unfold fL ElemOK
  exact Or.inr (Or.inl ⟨rfl, rfl, child_ok, Or.inr (allocBy all h)⟩)

theorem order1_ok : ElemOKs NoExtra [fA, fL] attrsK tysK [fA, fL] := by
  unfold ElemOKs
  refine ⟨⟨aK, _, by rfl, by rfl, fA_elem _⟩, by decide, ?_, fun g _ h => absurd rfl h, ?_⟩
  · intro g hg
    simp only [List.mem_cons, List.mem_nil_iff, or_false] at hg
    subst hg
    intro _
    exact Or.inr ⟨rfl, rfl, by decide⟩
  unfold ElemOKs
  exact ⟨⟨aU, _, by rfl, by rfl, fL_elem _ (by simp)⟩, by decide, by simp, by simp, trivial⟩

theorem order2_ok : ElemOKs NoExtra [fL, fA] attrsK tysK [fL, fA] := by
  unfold ElemOKs
  refine ⟨⟨aU, _, by rfl, by rfl, fL_elem _ (by simp)⟩, by decide, ?_, fun g _ h => absurd rfl h, ?_⟩
  · intro g hg
    simp only [List.mem_cons, List.mem_nil_iff, or_false] at hg
    subst hg
    intro _
    exact Or.inr ⟨rfl, rfl, by decide⟩
  unfold ElemOKs
  exact ⟨⟨aK, _, by rfl, by rfl, fA_elem _⟩, by decide, by simp, by simp, trivial⟩

example (fs : List Field) (hfs : fs = [fA, fL] ∨ fs = [fL, fA]) :
    ∃ o hs', copyFromFields [] fs (some attrsK) { obj := resetOneOfs [] (.struct []), diags := [], hooks := [] } =
        .ok { obj := o, diags := [], hooks := hs' } ∧ IsStruct o ∧ ToOKs fs o tysK ∧ RT3OKs fs o := by
  have hn : ∀ fs : List Field, ∀ g ∈ fs, g.info.parentIsOptionalEmbed = true →
      g.info.parentIsOptionalEmbedFieldName ∉ ([] : List String) := fun _ _ _ _ => by simp
  rcases hfs with rfl | rfl
  · exact elem_typing NoExtra [] [] _ attrsK tysK order1_ok (hn _) (some attrsK) rfl [] []
  · exact elem_typing NoExtra [] [] _ attrsK tysK order2_ok (hn _) (some attrsK) rfl [] []

end EchoElemsWitness

-- ------------------------------------------------------------------------------------------------------
-- H. what remains open

/-- The full statement of C08 (= `echo_all_full` of PGT/Proofs/EchoAll.lean): every IR, every plan.
`C08_echo_elems_check` proves it – with "no diagnostics" in addition – for plan objects satisfying `PlanObjB`.

Step (1) of `echo_all_full` (children of nullable embedded messages / custom kinds inside the element messages of lists /
maps) is DONE for element messages satisfying `ElemOKs`.  Still open:
* a message / list / map child of a nullable embedded message in an element ALL of whose siblings under the same parent are
  null / unknown and none of which is custom: the parent stays nil, `ToOK` (which asks for `Reachable`) does not hold
  (`EchoElemsWitness.nonscalar_child_nil_parent_untyped`), so the route through `ToOKs` is closed; the echo holds on the
  instance (`EchoElemsWitness.nil_parent_echo_runs`).  Needed: a `ToOK` whose non-scalar clauses admit "nil parent, read as zero".
* the element judgement is not closed under itself: nested messages, lists and maps INSIDE an element are plain below
  (clause (P) / (E) of `ElemOK` use `PlanOK`); an element message with embedded children / custom kinds at depth ≥ 2 of the
  element needs an `RT3OKs`-typed version of `decFields` (a mutual `ElemOK` / `elem_typing`).
* oneof groups in such element messages: only scalar branches held by value with a zero literal (clause (S), what `RT3OK`
  admits); pointer-held scalar branches and message branches next to embedded children / custom kinds in ONE element message
  need a common generalisation of `RT3OK` and `RT4OK` (they are covered separately: `PlanOK3` clauses L / Mp).
* lists / maps with such element messages that are themselves children of a nullable embedded message.
* step (3) of `echo_all_full` (the zero struct of a null / unknown by-value nested message with embedded children / custom
  kinds) and everything `echo_all_full` lists outside the judgements. -/
def echo_elems_full : Prop :=
  ∀ (ov : List (String × String)) (m : Msg) (plan : TfVal) (s1 : FromResult) (e : ToResult) (s2 : FromResult),
    copyFrom ov m plan (.struct []) = .ok s1 → copyTo m s1.obj plan = .ok e → copyFrom ov m e.tf (.struct []) = .ok s2 →
    c08Check m plan s1.obj e.tf s2.obj = true

theorem echo_elems_full_eq : echo_elems_full = echo_all_full := rfl

end PGT
